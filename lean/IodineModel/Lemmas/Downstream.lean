import IodineModel.Server.WriteDns
import IodineModel.Client.ReadDns
import IodineModel.Lemmas.Encoding
import IodineModel.Lemmas.WireRt2
import IodineModel.Props.C07
import IodineModel.Props.C08
import IodineModel.Props.C10
/-
Payload-level lemmas for C09: the shape of the host names `write_dns_nameenc` builds (legal, ≤ 253
characters, `letter · dotted text · "." · xy`), what `dns_namedec` makes of such a name (and of any cut of
it), the TXT text, and the closed forms of `write_dns` per answer format.
-/
namespace Iodine.Downstream
open Iodine Iodine.Codec Iodine.Encoding Iodine.Wire Iodine.Wire.Strict Iodine.Wire.Put Iodine.Wire.DnsEncode
open Iodine.Server.WriteDns Iodine.Client.ReadDns Iodine.C10

/-! ### dotted names ↔ labels -/

theorem joinDots_cons_head (c : Nat) (a : List Nat) (rest : List (List Nat)) :
    joinDots ((c :: a) :: rest) = c :: joinDots (a :: rest) := by
  cases rest with
  | nil => rfl
  | cons b r => rfl

theorem joinDots_splitDot (s : List Nat) : joinDots ((splitDot s).1 :: (splitDot s).2) = s := by
  induction s with
  | nil => rfl
  | cons c r ih =>
    simp only [splitDot]
    split
    · rename_i hc
      rw [joinDots_cons_cons, ih, hc]; rfl
    · rw [joinDots_cons_head, ih]

theorem joinDots_labels (s : List Nat) : joinDots (labels s) = s := by
  rw [labels_eq_split, joinDots_splitDot]

/-- the scanning automaton of C08 accepts exactly the names all of whose labels have 1..63 bytes -/
theorem legalAux_iff (s : List Nat) : ∀ k, legalAux k s = true ↔
    (1 ≤ k + (splitDot s).1.length ∧ k + (splitDot s).1.length ≤ 63) ∧
      ∀ l ∈ (splitDot s).2, 1 ≤ l.length ∧ l.length ≤ 63 := by
  induction s with
  | nil => intro k; simp [legalAux, splitDot]
  | cons c r ih =>
    intro k
    simp only [legalAux, splitDot, DOT]
    by_cases hc : c = 46
    · simp only [hc, if_true, Bool.and_eq_true, decide_eq_true_eq, ih 0, List.length_nil, Nat.add_zero,
        List.mem_cons, forall_eq_or_imp, Nat.zero_add]
    · simp only [hc, if_false, ih (k + 1), List.length_cons]
      constructor <;> (intro h; refine ⟨by omega, h.2⟩)

theorem labelsOK_of_legalAux (s : List Nat) (h : legalAux 0 s = true) : LabelsOK (labels s) := by
  rw [labels_eq_split]
  have := (legalAux_iff s 0).mp h
  intro l hl
  simp only [List.mem_cons] at hl
  rcases hl with rfl | hl
  · omega
  · exact this.2 l hl

/-! ### the pseudo top-level domain state -/

/-- the invariant of the static variables `td1`, `td2` -/
def TdOk (td : Td) : Prop := td.1 < 26 ∧ td.2 < 25

theorem tdStep_ok {td : Td} (h : TdOk td) : TdOk (tdStep td) := by
  unfold TdOk tdStep at *
  constructor <;> (simp only []; split <;> omega)

/-! ### codecs -/

theorem nameCodec_cases (dn : Nat) : nameCodec dn = (104, b32) ∨ nameCodec dn = (105, b64) ∨
    nameCodec dn = (106, b64u) ∨ nameCodec dn = (107, b128) := by
  unfold nameCodec
  split
  · exact Or.inr (Or.inl rfl)
  · split
    · exact Or.inr (Or.inr (Or.inl rfl))
    · split
      · exact Or.inr (Or.inr (Or.inr rfl))
      · exact Or.inl rfl

/-- what the proofs need to know about the pair (letter, codec) -/
structure HostCodec (letter : Nat) (c : Codec) : Prop where
  wf : WF c
  nodot : ∀ ch ∈ c.tbl, ch ≠ DOT
  lt256 : ∀ ch ∈ c.tbl, ch < 256
  nonzero : ∀ ch ∈ c.tbl, ch ≠ 0
  letter_ok : letter ≠ DOT ∧ letter ≠ 0 ∧ letter < 256
  /-- `dns_namedec` dispatches on the letter to `unpack_data` with this codec -/
  namedec : ∀ (N : Nat) (m : List Nat) (t : Nat), dnsNamedec N (letter :: m) t =
    if t < 5 then [] else unpackData c N (m.take (t - 4))

theorem tables_lt256 : (∀ ch ∈ b32.tbl, ch < 256) ∧ (∀ ch ∈ b64.tbl, ch < 256) ∧
    (∀ ch ∈ b64u.tbl, ch < 256) ∧ (∀ ch ∈ b128.tbl, ch < 256) := by decide +kernel

theorem hostCodec (dn : Nat) : HostCodec (nameCodec dn).1 (nameCodec dn).2 := by
  rcases nameCodec_cases dn with h | h | h | h <;> rw [h]
  · exact ⟨C07.wf_b32, C08.tables_nodot.1, tables_lt256.1, fun ch h => (C07.table_ok_b32.2.2 ch h).2, by decide, fun N m t => by simp [dnsNamedec]⟩
  · exact ⟨C07.wf_b64, C08.tables_nodot.2.1, tables_lt256.2.1, fun ch h => (C07.table_ok_b64.2.2 ch h).2, by decide, fun N m t => by simp [dnsNamedec]⟩
  · exact ⟨C07.wf_b64u, C08.tables_nodot.2.2.1, tables_lt256.2.2.1, fun ch h => (C07.table_ok_b64u.2.2 ch h).2, by decide, fun N m t => by simp [dnsNamedec]⟩
  · exact ⟨C07.wf_b128, C08.tables_nodot.2.2.2, tables_lt256.2.2.2, fun ch h => (C07.table_ok_b128.2.2 ch h).2, by decide, fun N m t => by simp [dnsNamedec]⟩

/-! ### the host names of `write_dns_nameenc` -/

theorem mem_dotifyAux (k : Nat) (s : List Nat) : ∀ x ∈ dotifyAux k s, x = DOT ∨ x ∈ s := by
  induction s generalizing k with
  | nil => simp [dotifyAux]
  | cons c cs ih =>
    intro x hx
    simp only [dotifyAux] at hx
    split at hx
    · simp only [List.mem_cons] at hx
      rcases hx with rfl | rfl | hx
      · simp
      · simp
      · rcases ih 0 x hx with h | h
        · exact Or.inl h
        · exact Or.inr (by simp [h])
    · simp only [List.mem_cons] at hx
      rcases hx with rfl | hx
      · simp
      · rcases ih (k + 1) x hx with h | h
        · exact Or.inl h
        · exact Or.inr (by simp [h])

/-- a dotified string ends in its last character, possibly followed by one dot -/
theorem dotifyAux_end (s : List Nat) : ∀ k, s ≠ [] →
    ∃ X c, c ∈ s ∧ (dotifyAux k s = X ++ [c] ∨ dotifyAux k s = X ++ [c, DOT]) := by
  induction s with
  | nil => intro k h; exact absurd rfl h
  | cons a r ih =>
    intro k _
    cases r with
    | nil =>
      refine ⟨[], a, by simp, ?_⟩
      simp only [dotifyAux]
      split
      · exact Or.inr rfl
      · exact Or.inl rfl
    | cons b r' =>
      rw [show dotifyAux k (a :: b :: r') = (if k + 1 = 57 then a :: DOT :: dotifyAux 0 (b :: r')
        else a :: dotifyAux (k + 1) (b :: r')) from rfl]
      split
      · obtain ⟨X, c, hc, h⟩ := ih 0 (by simp)
        refine ⟨a :: DOT :: X, c, by simp only [List.mem_cons] at hc ⊢; exact Or.inr hc, ?_⟩
        rcases h with h | h
        · exact Or.inl (by rw [h]; rfl)
        · exact Or.inr (by rw [h]; rfl)
      · obtain ⟨X, c, hc, h⟩ := ih (k + 1) (by simp)
        refine ⟨a :: X, c, by simp only [List.mem_cons] at hc ⊢; exact Or.inr hc, ?_⟩
        rcases h with h | h
        · exact Or.inl (by rw [h]; rfl)
        · exact Or.inr (by rw [h]; rfl)

theorem append_singleton_inj {A B : List Nat} {a b : Nat} (h : A ++ [a] = B ++ [b]) : A = B ∧ a = b := by
  have h1 := List.append_inj' h rfl
  exact ⟨h1.1, by simpa using h1.2⟩

/-- what a name built by `write_dns_nameenc` looks like -/
structure NameShape (letter : Nat) (chars : List Nat) (x y : Nat) (name : List Nat) : Prop where
  /-- letter, the dotted text (`Dt`: dots may sit anywhere but no other character is added), ".xy" -/
  shape : ∃ Dt, name = letter :: (Dt ++ [DOT, x, y]) ∧ undotify Dt = chars
  legal : LegalName name
  /-- the dotted text ends in an encoded character, not in a dot -/
  text_last : ∀ Dt, name = letter :: (Dt ++ [DOT, x, y]) → chars ≠ [] → ∃ X c, Dt = X ++ [c] ∧ c ≠ DOT

theorem nameenc_td (td : Td) (buflen : Nat) (d : List Nat) (dn : Nat) : (nameenc td buflen d dn).td = tdStep td := rfl

theorem nameenc_used (td : Td) (buflen : Nat) (hb : 255 ≤ buflen) (d : List Nat) (dn : Nat) :
    (nameenc td buflen d dn).used = (enc (nameCodec dn).2 245 d).used := by
  have : min 255 buflen = 255 := by omega
  simp [nameenc, this]

theorem nameShape_core (letter x y : Nat) (chars : List Nat) (hl : letter ≠ DOT ∧ letter ≠ 0 ∧ letter < 256)
    (hx : 97 ≤ x ∧ x ≤ 122) (hy : 97 ≤ y ∧ y ≤ 122) (hch : ∀ ch ∈ chars, ch ≠ DOT ∧ ch ≠ 0 ∧ ch < 256)
    (hlen : chars.length ≤ 245) :
    NameShape letter chars x y
      ((if (dotify (letter :: chars)).getLast?.getD 0 = DOT then dotify (letter :: chars)
        else dotify (letter :: chars) ++ [DOT]) ++ [x, y]) := by
  have hnd : NoDot (letter :: chars) := by
    intro c hc
    simp only [List.mem_cons] at hc
    rcases hc with rfl | hc
    · exact hl.1
    · exact (hch c hc).1
  have hndc : NoDot chars := fun c hc => (hch c hc).1
  have hs : dotify (letter :: chars) = letter :: dotifyAux 1 chars := by simp [dotify, dotifyAux]
  have hsne : dotify (letter :: chars) ≠ [] := by rw [hs]; simp
  have hslen : (dotify (letter :: chars)).length = (chars.length + 1) + (chars.length + 1) / 57 := by
    unfold dotify
    rw [dotifyAux_length 0 _ (by omega)]
    simp
  obtain ⟨m, hm, hm61⟩ := scan_dotifyAux 0 0 (letter :: chars) hnd (by omega) (by omega)
  have hlast := scan_zero_iff_last 0 (dotify (letter :: chars)) hsne m hm
  have hgetD : (dotify (letter :: chars)).getLast?.getD 0 = DOT ↔ m = 0 := by
    rw [← hlast]
    cases hgl : (dotify (letter :: chars)).getLast? with
    | none => exact absurd (List.getLast?_eq_none_iff.mp hgl) hsne
    | some v => simp
  have hund : undotify (dotifyAux 1 chars) = chars := undotify_dotifyAux 1 chars hndc
  have hmemD : ∀ c ∈ dotifyAux 1 chars, c ≠ 0 ∧ c < 256 := by
    intro c hc
    rcases mem_dotifyAux 1 chars c hc with h | h
    · rw [h]; decide
    · exact (hch c h).2
  have hxy : legalAux 0 [x, y] = true := by
    have h1 : x ≠ DOT := by simp only [DOT]; omega
    have h2 : y ≠ DOT := by simp only [DOT]; omega
    simp [legalAux, h1, h2]
  have hmemS : ∀ c ∈ dotify (letter :: chars), c ≠ 0 ∧ c < 256 := by
    intro c hc
    rw [hs] at hc
    simp only [List.mem_cons] at hc
    rcases hc with rfl | hc
    · exact hl.2
    · exact hmemD c hc
  have hxy0 : x ≠ 0 ∧ x < 256 ∧ y ≠ 0 ∧ y < 256 := by omega
  by_cases hm0 : m = 0
  · -- the dotted text ends in a dot already
    rw [if_pos (hgetD.mpr hm0)]
    have hl' : (dotify (letter :: chars)).getLast? = some DOT := hlast.mpr hm0
    obtain ⟨pre, hpre⟩ : ∃ pre, dotify (letter :: chars) = pre ++ [DOT] := by
      refine ⟨(dotify (letter :: chars)).dropLast, ?_⟩
      have h1 := List.dropLast_concat_getLast hsne
      have h2 : (dotify (letter :: chars)).getLast hsne = DOT := by
        have h3 := List.getLast?_eq_some_getLast hsne
        rw [hl'] at h3
        exact (Option.some.inj h3).symm
      rw [h2] at h1
      exact h1.symm
    obtain ⟨Dt, hDt⟩ : ∃ Dt, pre = letter :: Dt := by
      cases pre with
      | nil =>
        rw [hs] at hpre
        simp only [List.nil_append, List.cons.injEq] at hpre
        exact absurd hpre.1 hl.1
      | cons a Dt =>
        rw [hs] at hpre
        simp only [List.cons_append, List.cons.injEq] at hpre
        exact ⟨Dt, by rw [hpre.1]⟩
    have hD : dotifyAux 1 chars = Dt ++ [DOT] := by
      rw [hs, hDt] at hpre
      simpa using hpre
    constructor
    · refine ⟨Dt, ?_, ?_⟩
      · rw [hpre, hDt]; simp
      · rw [hD, undotify_append] at hund
        have : undotify [DOT] = [] := by decide
        rw [this, List.append_nil] at hund
        exact hund
    · refine ⟨?_, ?_, ?_⟩
      · simp only [List.length_append, hslen, List.length_cons, List.length_nil]; omega
      · intro c hc
        simp only [List.mem_append, List.mem_cons, List.not_mem_nil, or_false] at hc
        rcases hc with hc | rfl | rfl
        · exact hmemS c hc
        · exact ⟨hxy0.1, hxy0.2.1⟩
        · exact ⟨hxy0.2.2.1, hxy0.2.2.2⟩
      · apply labelsOK_of_legalAux
        rw [legalAux_append]
        unfold dotify
        rw [hm, hm0]
        exact hxy
    · intro Dt2 hname2 hcne
      have hDt2 : Dt2 = Dt := by
        rw [hpre, hDt] at hname2
        simp only [List.cons_append, List.append_assoc, List.cons.injEq, true_and] at hname2
        have := List.append_inj_left' hname2 (by simp)
        exact this.symm
      obtain ⟨X, c, hc, hX⟩ := dotifyAux_end chars 1 hcne
      rcases hX with hX | hX
      · rw [hD] at hX
        have := (append_singleton_inj hX).2
        exact absurd this.symm (hndc c hc)
      · rw [hD] at hX
        have h2 : Dt ++ [DOT] = (X ++ [c]) ++ [DOT] := by rw [hX]; simp
        exact ⟨X, c, by rw [hDt2]; exact (append_singleton_inj h2).1, hndc c hc⟩
  · rw [if_neg (fun h => hm0 (hgetD.mp h))]
    constructor
    · refine ⟨dotifyAux 1 chars, ?_, hund⟩
      rw [hs]; simp
    · refine ⟨?_, ?_, ?_⟩
      · simp only [List.length_append, hslen, List.length_cons, List.length_nil]; omega
      · intro c hc
        simp only [List.mem_append, List.mem_cons, List.not_mem_nil, or_false] at hc
        rcases hc with (hc | rfl) | rfl | rfl
        · exact hmemS c hc
        · decide
        · exact ⟨hxy0.1, hxy0.2.1⟩
        · exact ⟨hxy0.2.2.1, hxy0.2.2.2⟩
      · apply labelsOK_of_legalAux
        rw [List.append_assoc, legalAux_append]
        unfold dotify
        rw [hm]
        have hmr : 1 ≤ m ∧ m ≤ 63 := by omega
        simp only [List.cons_append, List.nil_append, legalAux, if_true, hmr, and_self, decide_true, Bool.true_and]
        exact hxy
    · intro Dt2 hname2 hcne
      have hDt2 : Dt2 = dotifyAux 1 chars := by
        rw [hs] at hname2
        simp only [List.cons_append, List.append_assoc, List.cons.injEq, true_and] at hname2
        have := List.append_inj_left' hname2 (by simp)
        exact this.symm
      obtain ⟨X, c, hc, hX⟩ := dotifyAux_end chars 1 hcne
      rcases hX with hX | hX
      · exact ⟨X, c, by rw [hDt2, hX], hndc c hc⟩
      · exfalso
        apply hm0
        apply hlast.mp
        rw [hs, hX]
        have : letter :: (X ++ [c, DOT]) = (letter :: (X ++ [c])) ++ [DOT] := by simp
        rw [this, List.getLast?_append]
        rfl

theorem nameenc_shape (td : Td) (htd : TdOk td) (buflen : Nat) (hb : 255 ≤ buflen) (d : List Nat) (hd : Codec.Bytes d) (dn : Nat) :
    NameShape (nameCodec dn).1 (enc (nameCodec dn).2 245 d).chars (97 + (tdStep td).1) (97 + (tdStep td).2)
      (nameenc td buflen d dn).name := by
  obtain ⟨wf, nodot, lt256, nonzero, hl, _⟩ := hostCodec dn
  have htd' := tdStep_ok htd
  have hmin : min 255 buflen = 255 := by omega
  have hname : (nameenc td buflen d dn).name =
      ((if (dotify ((nameCodec dn).1 :: (enc (nameCodec dn).2 245 d).chars)).getLast?.getD 0 = DOT
          then dotify ((nameCodec dn).1 :: (enc (nameCodec dn).2 245 d).chars)
          else dotify ((nameCodec dn).1 :: (enc (nameCodec dn).2 245 d).chars) ++ [DOT]) ++
        [97 + (tdStep td).1, 97 + (tdStep td).2]) := by
    simp [nameenc, hmin]
  rw [hname]
  have hC := C07.capacity_contract wf 245 d hd
  apply nameShape_core _ _ _ _ hl (by unfold TdOk at htd'; omega) (by unfold TdOk at htd'; omega)
  · intro ch hch
    have := C07.chars_in_table wf 245 d ch hch
    exact ⟨nodot ch this, nonzero ch this, lt256 ch this⟩
  · exact hC.len_le

/-! ### `dns_namedec` on such a name, and on every cut of it -/

theorem enc_used_eq {c : Codec} (wf : WF c) (cap : Nat) (d : List Nat) (hd : Codec.Bytes d) :
    (enc c cap d).used = c.k * (enc c cap d).chars.length / 8 := by
  have hC := C07.capacity_contract wf cap d hd
  rw [hC.ratio, full_div wf.k_ok]

theorem undotify_take_prefix (l : List Nat) (n : Nat) : undotify (l.take n) <+: undotify l := by
  unfold undotify
  exact List.IsPrefix.filter _ (List.take_prefix n l)

/-- decoding the first `t` bytes of the memory that holds the name (and its NUL): a prefix of what the name
carries -/
theorem namedec_cut {letter : Nat} {c : Codec} (hc : HostCodec letter c) (cap : Nat) (d : List Nat)
    (hd : Codec.Bytes d) {x y : Nat} {name : List Nat} (hs : NameShape letter (enc c cap d).chars x y name)
    (N t : Nat) (rest : List Nat) (ht : t ≤ name.length + 1) :
    ∃ a, dnsNamedec N (name ++ 0 :: rest) t = d.take a ∧ a ≤ (enc c cap d).used := by
  obtain ⟨Dt, hname, hund⟩ := hs.shape
  have hC := C07.capacity_contract hc.wf cap d hd
  have hused := enc_used_eq hc.wf cap d hd
  have hpref := hC.pref
  clear hC
  generalize (enc c cap d).chars = chars at *
  generalize (enc c cap d).used = used at *
  rw [hname]
  simp only [List.cons_append]
  rw [hc.namedec]
  by_cases h5 : t < 5
  · rw [if_pos h5]; exact ⟨0, by simp, Nat.zero_le _⟩
  rw [if_neg h5]
  have hlen : name.length = Dt.length + 4 := by rw [hname]; simp
  have hreg : (Dt ++ [DOT, x, y] ++ 0 :: rest).take (t - 4) = (Dt ++ [DOT]).take (t - 4) := by
    have : Dt ++ [DOT, x, y] ++ 0 :: rest = (Dt ++ [DOT]) ++ (x :: y :: 0 :: rest) := by simp
    rw [this, List.take_append_of_le_length (by simp; omega)]
  rw [hreg]
  have hund' : undotify (Dt ++ [DOT]) = chars := by
    rw [undotify_append, hund]
    have : undotify [DOT] = [] := by decide
    rw [this, List.append_nil]
  have hpre := undotify_take_prefix (Dt ++ [DOT]) (t - 4)
  rw [hund'] at hpre
  unfold unpackData
  simp only []
  generalize undotify ((Dt ++ [DOT]).take (t - 4)) = u at hpre ⊢
  have hu : u = chars.take u.length := List.prefix_iff_eq_take.mp hpre
  have hul : u.length ≤ chars.length := hpre.length_le
  have hcl : chars.length ≤ nchars c.k d.length := by
    have h2 : chars.length ≤ (encFull c d).length := by
      rw [hpref]; simp only [List.length_take]; omega
    rwa [encFull_length] at h2
  have hu2 : u = (encFull c d).take u.length := by
    have : u = ((encFull c d).take chars.length).take u.length := by rw [← hpref]; exact hu
    rw [List.take_take] at this
    rw [Nat.min_eq_left hul] at this
    exact this
  unfold dec
  have hnz : ∀ ch ∈ u, ch ≠ 0 := by
    intro ch hch'
    rw [hu2] at hch'
    exact encFull_nonzero hc.wf d ch (List.mem_of_mem_take hch')
  rw [cstr_of_nonzero u hnz, hu2, decAll_encFull_take hc.wf d hd u.length (by omega), List.take_take]
  refine ⟨min N (c.k * u.length / 8), rfl, ?_⟩
  rw [hused]
  have : c.k * u.length / 8 ≤ c.k * chars.length / 8 := Nat.div_le_div_right (Nat.mul_le_mul_left _ hul)
  omega

/-- the same with the number of decoded characters made explicit -/
theorem namedec_region {letter : Nat} {c : Codec} (hc : HostCodec letter c) (cap : Nat) (d : List Nat)
    (hd : Codec.Bytes d) {x y : Nat} {name Dt : List Nat} (hname : name = letter :: (Dt ++ [DOT, x, y]))
    (hund : undotify Dt = (enc c cap d).chars)
    (N t : Nat) (rest : List Nat) (h5 : 5 ≤ t) (ht : t ≤ name.length + 1) :
    dnsNamedec N (name ++ 0 :: rest) t =
      d.take (min N (c.k * (undotify ((Dt ++ [DOT]).take (t - 4))).length / 8)) ∧
      (undotify ((Dt ++ [DOT]).take (t - 4))).length ≤ (enc c cap d).chars.length := by
  have hC := C07.capacity_contract hc.wf cap d hd
  have hpref := hC.pref
  clear hC
  generalize (enc c cap d).chars = chars at *
  rw [hname]
  simp only [List.cons_append]
  rw [hc.namedec, if_neg (by omega)]
  have hlen : name.length = Dt.length + 4 := by rw [hname]; simp
  have hreg : (Dt ++ [DOT, x, y] ++ 0 :: rest).take (t - 4) = (Dt ++ [DOT]).take (t - 4) := by
    have : Dt ++ [DOT, x, y] ++ 0 :: rest = (Dt ++ [DOT]) ++ (x :: y :: 0 :: rest) := by simp
    rw [this, List.take_append_of_le_length (by simp; omega)]
  rw [hreg]
  have hund' : undotify (Dt ++ [DOT]) = chars := by
    rw [undotify_append, hund]
    have : undotify [DOT] = [] := by decide
    rw [this, List.append_nil]
  have hpre := undotify_take_prefix (Dt ++ [DOT]) (t - 4)
  rw [hund'] at hpre
  unfold unpackData
  simp only []
  generalize undotify ((Dt ++ [DOT]).take (t - 4)) = u at hpre ⊢
  have hu : u = chars.take u.length := List.prefix_iff_eq_take.mp hpre
  have hul : u.length ≤ chars.length := hpre.length_le
  have hcl : chars.length ≤ nchars c.k d.length := by
    have h2 : chars.length ≤ (encFull c d).length := by
      rw [hpref]; simp only [List.length_take]; omega
    rwa [encFull_length] at h2
  have hu2 : u = (encFull c d).take u.length := by
    have : u = ((encFull c d).take chars.length).take u.length := by rw [← hpref]; exact hu
    rw [List.take_take] at this
    rw [Nat.min_eq_left hul] at this
    exact this
  refine ⟨?_, hul⟩
  unfold dec
  have hnz : ∀ ch ∈ u, ch ≠ 0 := by
    intro ch hch'
    rw [hu2] at hch'
    exact encFull_nonzero hc.wf d ch (List.mem_of_mem_take hch')
  rw [cstr_of_nonzero u hnz]
  conv => lhs; rw [hu2]
  rw [decAll_encFull_take hc.wf d hd u.length (by omega), List.take_take]

theorem used_pos_of_chars {c : Codec} (wf : WF c) (cap : Nat) (d : List Nat) (hd : Codec.Bytes d)
    (h : (enc c cap d).chars ≠ []) : 1 ≤ (enc c cap d).used := by
  have hC := C07.capacity_contract wf cap d hd
  have hr := hC.ratio
  have hp : 0 < (enc c cap d).chars.length := List.length_pos_iff.mpr h
  rw [hr] at hp
  unfold nchars at hp
  rcases wf.k_ok with hk | hk | hk <;> rw [hk] at hp <;> omega

/-- a name that has lost two or more of its characters decodes to strictly less than it carries -/
theorem namedec_strict {letter : Nat} {c : Codec} (hc : HostCodec letter c) (cap : Nat) (d : List Nat)
    (hd : Codec.Bytes d) (hne : (enc c cap d).chars ≠ []) {x y : Nat} {name : List Nat}
    (hs : NameShape letter (enc c cap d).chars x y name)
    (N t : Nat) (rest : List Nat) (ht : t + 1 ≤ name.length) :
    (dnsNamedec N (name ++ 0 :: rest) t).length < (enc c cap d).used := by
  obtain ⟨Dt, hname, hund⟩ := hs.shape
  obtain ⟨X, c0, hX, hc0⟩ := hs.text_last Dt hname hne
  have hup := used_pos_of_chars hc.wf cap d hd hne
  by_cases h5 : t < 5
  · rw [hname]
    simp only [List.cons_append]
    rw [hc.namedec, if_pos h5]
    simp only [List.length_nil]
    omega
  have hlen : name.length = Dt.length + 4 := by rw [hname]; simp
  obtain ⟨hreg, _⟩ := namedec_region hc cap d hd hname hund N t rest (by omega) (by omega)
  rw [hreg]
  have hC := C07.capacity_contract hc.wf cap d hd
  have hratio := hC.ratio
  -- the region lies inside `X`: at least the last encoded character is missing
  have hDl : Dt.length = X.length + 1 := by rw [hX]; simp
  have htake : (Dt ++ [DOT]).take (t - 4) = X.take (t - 4) := by
    rw [hX, List.append_assoc, List.take_append_of_le_length (by omega)]
  rw [htake]
  have hpre := undotify_take_prefix X (t - 4)
  have hXc : (undotify X).length + 1 = (enc c cap d).chars.length := by
    rw [← hund, hX, undotify_append]
    have : undotify [c0] = [c0] := by simp [undotify, hc0]
    rw [this]; simp
  have hul := hpre.length_le
  generalize (undotify (X.take (t - 4))).length = j at hul ⊢
  generalize (undotify X).length = m1 at hul hXc
  generalize (enc c cap d).chars.length = m at hXc hratio
  generalize (enc c cap d).used = used at hratio hup ⊢
  simp only [List.length_take]
  have hkey : c.k * j / 8 < used := by
    have hjm : c.k * j ≤ c.k * (m - 1) := Nat.mul_le_mul_left _ (by omega)
    unfold nchars at hratio
    rcases hc.wf.k_ok with hk | hk | hk <;> rw [hk] at hratio hjm ⊢ <;> omega
  omega

/-- decoding the whole name (with or without the NUL behind it counted in): exactly what the name carries -/
theorem namedec_exact {letter : Nat} {c : Codec} (hc : HostCodec letter c) (cap : Nat) (d : List Nat)
    (hd : Codec.Bytes d) {x y : Nat} {name : List Nat} (hs : NameShape letter (enc c cap d).chars x y name)
    (N t : Nat) (rest : List Nat) (ht : t = name.length ∨ t = name.length + 1) (hN : (enc c cap d).used ≤ N) :
    dnsNamedec N (name ++ 0 :: rest) t = d.take (enc c cap d).used := by
  obtain ⟨Dt, hname, hund⟩ := hs.shape
  have hC := C07.capacity_contract hc.wf cap d hd
  have hdec := hC.decodes N hN
  have hused := enc_used_eq hc.wf cap d hd
  clear hC
  generalize (enc c cap d).chars = chars at *
  generalize (enc c cap d).used = used at *
  have hlen : name.length = Dt.length + 4 := by rw [hname]; simp
  rw [hname]
  simp only [List.cons_append]
  rw [hc.namedec]
  by_cases h5 : t < 5
  · rw [if_pos h5]
    have hD : Dt = [] := List.eq_nil_of_length_eq_zero (by omega)
    rw [hD] at hund
    have : chars = [] := by rw [← hund]; rfl
    rw [this] at hused
    simp at hused
    rw [hused]; simp
  rw [if_neg h5]
  have hreg : undotify ((Dt ++ [DOT, x, y] ++ 0 :: rest).take (t - 4)) = chars := by
    rcases ht with ht | ht
    · have : t - 4 = Dt.length := by omega
      rw [this, List.append_assoc, List.take_left' rfl, hund]
    · have : t - 4 = (Dt ++ [DOT]).length := by simp; omega
      have h2 : Dt ++ [DOT, x, y] ++ 0 :: rest = (Dt ++ [DOT]) ++ (x :: y :: 0 :: rest) := by simp
      rw [this, h2, List.take_left' rfl, undotify_append, hund]
      have : undotify [DOT] = [] := by decide
      rw [this, List.append_nil]
  unfold unpackData
  simp only []
  rw [hreg]
  exact hdec

/-! ### TXT -/

theorem enc_full (c : Codec) (cap : Nat) (d : List Nat) (h : nchars c.k d.length ≤ cap) :
    (enc c cap d).chars = encFull c d := by
  unfold enc
  simp only [h, if_true]

/-- bits per character of the TXT flavour chosen by `downenc` -/
def txtK (dn : Nat) : Nat := if dn = 83 ∨ dn = 85 then 6 else if dn = 86 then 7 else 5

/-- characters after the letter -/
def txtLen (dn n : Nat) : Nat := if dn = 82 then n else nchars (txtK dn) n

theorem nchars_le_65535 (k n : Nat) (hk : K567 k) (hn : n ≤ 4096) : nchars k n ≤ 65535 := by
  unfold nchars
  rcases hk with rfl | rfl | rfl <;> omega

theorem txtText_length (d : List Nat) (dn : Nat) (hn : d.length ≤ 4096) :
    (txtText d dn).length = 1 + txtLen dn d.length := by
  unfold txtText txtLen txtK
  by_cases h1 : dn = 83
  · simp only [h1, if_true]
    rw [enc_full b64 _ d (nchars_le_65535 _ _ (Or.inr (Or.inl rfl)) hn)]
    simp [encFull_length, b64]; omega
  by_cases h2 : dn = 85
  · simp only [h2, if_true]
    rw [enc_full b64u _ d (nchars_le_65535 _ _ (Or.inr (Or.inl rfl)) hn)]
    simp [encFull_length, b64u]; omega
  by_cases h3 : dn = 86
  · simp only [h3, if_true]
    rw [enc_full b128 _ d (nchars_le_65535 _ _ (Or.inr (Or.inr rfl)) hn)]
    simp [encFull_length, b128]; omega
  by_cases h4 : dn = 82
  · simp only [h4, if_true]
    simp; omega
  · simp only [h1, h2, h3, h4, if_false, false_or]
    rw [enc_full b32 _ d (nchars_le_65535 _ _ (Or.inl rfl) hn)]
    simp [encFull_length, b32]; omega

theorem nchars_pos (k n : Nat) (hk : K567 k) (hn : 1 ≤ n) : 1 ≤ nchars k n := by
  unfold nchars
  rcases hk with rfl | rfl | rfl <;> omega

theorem txtdec_core (c : Codec) (wf : WF c) (letter : Nat) (d : List Nat) (hd : Codec.Bytes d) (h1 : 1 ≤ d.length)
    (hn : d.length ≤ 65536)
    (hdec : ∀ (m : List Nat) (t : Nat), dnsNamedec 65536 (letter :: m) t = if t < 2 then [] else dec c 65536 (t - 1) m) :
    dnsNamedec 65536 (letter :: encFull c d) (letter :: encFull c d).length = d := by
  have hp := nchars_pos c.k d.length wf.k_ok h1
  rw [hdec, if_neg (by simp [encFull_length]; omega)]
  simp only [List.length_cons, Nat.add_sub_cancel]
  exact C07.roundtrip wf d hd 65536 hn

/-- the client's decoding of the TXT text gives back the payload -/
theorem txt_roundtrip (d : List Nat) (dn : Nat) (hd : Codec.Bytes d) (h1 : 1 ≤ d.length) (hn : d.length ≤ 4096) :
    dnsNamedec 65536 (txtText d dn) (txtText d dn).length = d := by
  unfold txtText
  by_cases h1 : dn = 83
  · simp only [h1, if_true]
    rw [enc_full b64 _ d (nchars_le_65535 _ _ (Or.inr (Or.inl rfl)) hn)]
    exact txtdec_core b64 C07.wf_b64 115 d hd (by omega) (by omega) (fun m t => by simp [dnsNamedec])
  by_cases h2 : dn = 85
  · simp only [h2, if_true]
    rw [enc_full b64u _ d (nchars_le_65535 _ _ (Or.inr (Or.inl rfl)) hn)]
    exact txtdec_core b64u C07.wf_b64u 117 d hd (by omega) (by omega) (fun m t => by simp [dnsNamedec])
  by_cases h3 : dn = 86
  · simp only [h3, if_true]
    rw [enc_full b128 _ d (nchars_le_65535 _ _ (Or.inr (Or.inr rfl)) hn)]
    exact txtdec_core b128 C07.wf_b128 118 d hd (by omega) (by omega) (fun m t => by simp [dnsNamedec])
  by_cases h4 : dn = 82
  · simp only [h4, if_true]
    have hm : min d.length (65536 - 1) = d.length := by omega
    rw [hm, List.take_of_length_le (Nat.le_refl _)]
    simp [dnsNamedec]
    have hm2 : min d.length 65536 = d.length := by omega
    rw [hm2, Nat.sub_self]
    simp
  · simp only [h1, h2, h3, h4, if_false]
    rw [enc_full b32 _ d (nchars_le_65535 _ _ (Or.inl rfl) hn)]
    exact txtdec_core b32 C07.wf_b32 116 d hd (by omega) (by omega) (fun m t => by simp [dnsNamedec])

end Iodine.Downstream
