import IodineModel.Lemmas.C02L1
/-
C02 / lazy mode, upstream — client side, part 2: the static facts of a lazy-mode client, the state from which `send_chunk`
sends fragment `f`, the query it emits and what the server reads out of it (lazy analogues of `CStat`, `CReady`,
`sentState`, `send_ready`, `sentFacts`, `cstat_sent`, `cstat_ackBook`, `newPacket_ready`).
-/
namespace Iodine.C02L
open Iodine Iodine.Gen Iodine.World

/-- what stays true of the client during a run in lazy mode -/
structure CStatL (P : Par) (c : Client.Cli) : Prop where
  running : c.running = true
  conn : c.conn = .dnsNull
  lz : c.lazymode = true
  uid : c.userid = (P.u : Int)
  uch : c.useridChar = hexLower P.u
  td : c.topdomain = P.td
  L : c.hostnameMaxlen = (P.L : Int)
  enc : c.dataenc = P.ec
  ty : c.doQtype = P.ty
  cid : c.chunkid < 65536
  cmc : c.datacmc < 36
  alive : ¬ c.lastdownstreamtime + 60 < c.now
  oseq : 0 ≤ c.outpkt.seqno ∧ c.outpkt.seqno < 8
  iseq : 0 ≤ c.inpkt.seqno ∧ c.inpkt.seqno < 8
  ifrag : 0 ≤ c.inpkt.fragment ∧ c.inpkt.fragment < 16
  seed : c.randSeed < 65536

/-- a lazy-mode client state from which `send_chunk` is about to send fragment `f` (offset `o`) of the compressed packet
`out`, with the answer counting in balance -/
structure CReadyL (P : Par) (c : Client.Cli) (out : List Nat) (o f : Nat) : Prop where
  stat : CStatL P c
  cnt : CntOk c 1
  data : c.outpkt.data = out
  len : c.outpkt.len = out.length
  off : c.outpkt.offset = o
  frag : c.outpkt.fragment = (f : Int)
  ho : o < out.length
  hf : f < 16
  bytes : Codec.Bytes out

theorem outRest_readyL {P : Par} {c : Client.Cli} {out : List Nat} {o f : Nat} (h : CReadyL P c out o f) :
    Client.outRest c.outpkt = out.drop o := by
  unfold Client.outRest
  rw [h.data, h.len, h.off, List.take_length]

theorem cFragLen_readyL {P : Par} {c : Client.Cli} {out : List Nat} {o f : Nat} (h : CReadyL P c out o f) :
    cFragLen c = fragLen P (out.drop o) := by
  unfold cFragLen fragLen
  rw [outRest_readyL h, h.stat.enc, h.stat.L, h.stat.td]

/-- the state `send_chunk` leaves behind in lazy mode (before `send_ping_soon = 0`): as in immediate mode, and the send
is counted -/
def sentStateL (c : Client.Cli) : Client.Cli := bumpCnt (sentState c)

theorem sentStateL_eta (c : Client.Cli) : sentStateL c = { sentState c with sendcnt := (sentStateL c).sendcnt } :=
  bumpCnt_eta _

theorem sentStateL_chunkid (c : Client.Cli) : (sentStateL c).chunkid = (sentState c).chunkid := by
  rw [sentStateL_eta]

theorem send_readyL {P : Par} (hP : P.Ok) {c : Client.Cli} {out : List Nat} {o f : Nat} (h : CReadyL P c out o f) :
    ∃ name,
      Client.sendChunk c = ⟨sentStateL c, [.query (sentState c).chunkid P.ty name], false⟩ ∧
      1 ≤ fragLen P (out.drop o) ∧ o + fragLen P (out.drop o) ≤ out.length ∧
      UpQ P (upQuery (sentState c).chunkid P.ty name)
        ⟨c.outpkt.seqno.toNat, f, c.inpkt.seqno, c.inpkt.fragment, fragLen P (out.drop o) == out.length - o⟩
        c.datacmc ((out.drop o).take (fragLen P (out.drop o))) := by
  have hS : UpSetting c.dataenc.codec P.L P.td := by rw [h.stat.enc]; exact hP.set
  have hrest := outRest_readyL h
  have hne : out.drop o ≠ [] := by
    intro hc
    have := congrArg List.length hc
    simp at this
    have := h.ho
    omega
  have hby : Codec.Bytes (out.drop o) := fun b hb => h.bytes b (List.mem_of_mem_drop hb)
  have hqt : c.doQtype < 65536 := by rw [h.stat.ty]; exact tunnelType_lt hP.tty
  have hsend := sendChunk_lazy c P.L P.td P.u h.cnt h.stat.L h.stat.td hS hP.hu h.stat.uch h.stat.cmc hqt
    (by rw [hrest]; exact hne) (by rw [hrest]; exact hby)
  have hfl := cFragLen_readyL h
  -- the header and the hop facts
  generalize hc2 : ({ c with outpkt := { c.outpkt with sentlen := cFragLen c } } : Client.Cli) = c2
  generalize hlast : (cFragLen c == c.outpkt.len - c.outpkt.offset) = last
  have hlast' : (fragLen P (out.drop o) == out.length - o) = last := by rw [← hlast, hfl, h.len, h.off]
  have hhop := up_hop5 hP.set (Client.chunkHeader c2 last) (out.drop o) (chunkHeader_len c2 last)
    (chunkHeader_chars c2 last P.u hP.hu (by subst hc2; exact h.stat.uch) (by subst hc2; exact h.stat.cmc)) hne hby
  obtain ⟨_, hu1, hu2, dlen, hq, h6, _, hun, hget, hg0, hg4, hl5⟩ := hhop
  have hbn : (Client.buildHostname P.ec.codec (P.L : Int) 4091 0 P.td (out.drop o)) =
      (Client.buildHostname c.dataenc.codec c.hostnameMaxlen 4091 0 c.topdomain (Client.outRest c.outpkt)) := by
    rw [hrest, h.stat.enc, h.stat.L, h.stat.td]
  refine ⟨Client.chunkHeader c2 last ++ (Client.buildHostname P.ec.codec (P.L : Int) 4091 0 P.td (out.drop o)).name, ?_, ?_, ?_, ?_⟩
  · have h1 : Client.sendChunk c = ⟨sentStateL c, [.query (sentState c).chunkid c.doQtype
        (Client.chunkHeader c2 last ++ (Client.buildHostname P.ec.codec (P.L : Int) 4091 0 P.td (out.drop o)).name)], false⟩ := by
      rw [hsend, hbn]
      subst hc2; subst hlast
      rfl
    rw [h.stat.ty] at h1
    exact h1
  · exact hu1
  · have : (out.drop o).length = out.length - o := List.length_drop
    have hu2' : fragLen P (out.drop o) ≤ (out.drop o).length := hu2
    rw [this] at hu2'
    have := h.ho
    omega
  · rw [hlast']
    refine ⟨rfl, rfl, ?_, rfl, ?_, ?_, hl5, dlen, hq, h6, ?_, ?_⟩
    · rw [upQuery_id]
      unfold sentState
      exact Client.rotateChunkid_ne_zero _
    · show (Client.chunkHeader c2 last ++ _).getD 0 0 = hexLower P.u
      rw [hg0, chunkHeader_getD0]; subst hc2; exact h.stat.uch
    · show (Client.chunkHeader c2 last ++ _).getD 4 0 = cmcChar c.datacmc
      rw [hg4, chunkHeader_getD4]; subst hc2; rfl
    · show parseUpHdr ((Client.chunkHeader c2 last ++ _).take (min dlen 512)) = _
      rw [parseUpHdr_congr _ (Client.chunkHeader c2 last ++ []) (by intro i hi; rw [hget i hi, List.append_nil])]
      rw [parseUpHdr_chunkHeader c2 last [] (by subst hc2; exact h.stat.oseq)
        (by subst hc2; show 0 ≤ c.outpkt.fragment ∧ c.outpkt.fragment < 16; rw [h.frag]; have := h.hf; omega)
        (by subst hc2; exact h.stat.iseq) (by subst hc2; exact h.stat.ifrag)]
      subst hc2
      simp only [h.frag, Int.toNat_natCast]
    · show Encoding.unpackData P.ec.codec 65536 (((Client.chunkHeader c2 last ++ _).take (min dlen 512)).drop 5) = _
      rw [hun]
      rfl

/-! ### what `sentStateL` keeps and what it changes -/

theorem sentFacts_sendcnt (c x : Client.Cli) (v : Int) (h : SentFacts c { x with sendPingSoon := 0 }) :
    SentFacts c { ({ x with sendcnt := v } : Client.Cli) with sendPingSoon := 0 } :=
  ⟨h.running, h.conn, h.lazymode, h.userid, h.useridChar, h.topdomain, h.hostnameMaxlen, h.dataenc, h.doQtype, h.ldt,
    h.now, h.inpkt, h.olen, h.ooff, h.odata, h.oseq, h.ofrag, h.osent, h.cid, h.cmc, h.sps, h.seed, h.selto⟩

theorem sentFactsL (c : Client.Cli) : SentFacts c { sentStateL c with sendPingSoon := 0 } := by
  have h := sentFacts c
  obtain ⟨v, e⟩ : ∃ v, sentStateL c = { sentState c with sendcnt := v } := ⟨_, sentStateL_eta c⟩
  rw [e]
  exact sentFacts_sendcnt c _ v h


/-- the ids and the counters after the send -/
structure SentIdsL (c c' : Client.Cli) : Prop where
  cid : c'.chunkid = (sentState c).chunkid
  prev : c'.chunkidPrev = c.chunkid
  ne : c.chunkid < 65536 → c'.chunkid ≠ c.chunkid
  cnt : CntOk c 1 → CntOk c' 2

theorem sentIdsL (c : Client.Cli) : SentIdsL c { sentStateL c with sendPingSoon := 0 } := by
  refine ⟨?_, ?_, ?_, ?_⟩
  · show (sentStateL c).chunkid = _
    exact sentStateL_chunkid c
  · show (sentStateL c).chunkidPrev = _
    rw [sentStateL_eta]
    simp [sentState, Client.rotateChunkid]
  · intro hc
    show (sentStateL c).chunkid ≠ _
    rw [sentStateL_chunkid]
    unfold sentState
    exact rotateChunkid_ne _ hc
  · intro hc
    have h1 : CntOk (sentState c) 1 := by
      unfold CntOk at *
      unfold sentState Client.rotateChunkid
      exact hc
    have h2 := bumpCnt_cnt _ h1
    unfold CntOk at *
    exact h2

/-- the client state in which the acknowledgement of the fragment in flight is processed -/
theorem cstat_sentL {P : Par} {c0 : Client.Cli} {out : List Nat} {o f : Nat} (h : CReadyL P c0 out o f) :
    CStatL P { sentStateL c0 with sendPingSoon := 0 } := by
  have hs := sentFactsL c0
  have hc := h.stat
  exact ⟨hs.running.trans hc.running, hs.conn.trans hc.conn, hs.lazymode.trans hc.lz, hs.userid.trans hc.uid,
    hs.useridChar.trans hc.uch, hs.topdomain.trans hc.td, hs.hostnameMaxlen.trans hc.L, hs.dataenc.trans hc.enc,
    hs.doQtype.trans hc.ty, hs.cid, by rw [hs.cmc]; split <;> omega, by rw [hs.ldt, hs.now]; exact hc.alive,
    by rw [hs.oseq]; exact hc.oseq, by rw [hs.inpkt]; exact hc.iseq, by rw [hs.inpkt]; exact hc.ifrag, by rw [hs.seed]; exact hc.seed⟩

/-- `ackBook` keeps the static facts; the session is alive again -/
theorem cstat_ackBookL {P : Par} {c : Client.Cli} (hc : CStatL P c) : CStatL P (ackBook c) := by
  exact ⟨hc.running, hc.conn, hc.lz, hc.uid, hc.uch, hc.td, hc.L, hc.enc, hc.ty, hc.cid, hc.cmc,
    by show ¬ c.now + 60 < c.now; omega, hc.oseq, hc.iseq, hc.ifrag, hc.seed⟩

/-- the packet `tunnel_tun` builds from a frame of fewer than 65536 bytes -/
theorem newPacket_readyL {P : Par} {c : Client.Cli} (hc : CStatL P c) (hcnt : CntOk c 1) (frame : List Nat)
    (hl : frame.length < 65536) (hb : Codec.Bytes frame) : CReadyL P (newPacket c frame) (0x5a :: frame) 0 0 := by
  have ht : frame.take 65536 = frame := List.take_of_length_le (by omega)
  have hs : Client.sChar ((c.outpkt.seqno + 1) % 8) = (c.outpkt.seqno + 1) % 8 := sChar_small _ (by omega)
  refine ⟨⟨hc.running, hc.conn, hc.lz, hc.uid, hc.uch, hc.td, hc.L, hc.enc, hc.ty, hc.cid, hc.cmc, hc.alive, ?_, hc.iseq, hc.ifrag, hc.seed⟩,
    ?_, ?_, ?_, rfl, rfl, by simp, by omega, ?_⟩
  · show 0 ≤ Client.sChar ((c.outpkt.seqno + 1) % 8) ∧ Client.sChar ((c.outpkt.seqno + 1) % 8) < 8
    rw [hs]; omega
  · unfold CntOk at *
    exact hcnt
  · show (Client.compress (frame.take 65536)).take 65536 = 0x5a :: frame
    rw [ht]; unfold Client.compress
    exact List.take_of_length_le (by simp; omega)
  · show (frame.take 65536).length + 1 = (0x5a :: frame).length
    rw [ht]; simp
  · intro b hb'
    rcases List.mem_cons.1 hb' with h | h
    · subst h; decide
    · exact hb b h

end Iodine.C02L
