import IodineModel.Lemmas.C02rH1
import IodineModel.Lemmas.C02qO5
import IodineModel.Lemmas.C02M6
/-
C02 / lazy mode, overlapping transfers — server side: an upstream data fragment arrives while the server holds NO query
(`q.id = 0`, `qs.id = 0`) and the LAST fragment of a downstream packet is still unacknowledged; the header of the data
query ACKNOWLEDGES that fragment.  `process_downstream_ack` completes and drops the outpacket first
(`⟨0, 0, 0, outD, sqd, fd⟩`, `outfragresent = 0`); from then on everything is as in the lemmas for `outpacket.len = 0`
(`srv_recv_mid_noq_idle`, `srv_recv_last_noq`).
-/
namespace Iodine.C02L
open Iodine Iodine.Gen Iodine.Server Iodine.World

/-- the data handler looks at the slot only through `process_downstream_ack`: if the acknowledged slot has no outpacket,
the handler may as well start from it -/
theorem dataASess_ackedrO (x x1 : Session) (h : UpHdr) (payload : List Nat)
    (h1 : ackSess x h.dnSeq h.dnFrag = x1) (hlen : x1.outpacket.len = 0) :
    dataASess x h.upSeq h.upFrag h.dnSeq h.dnFrag payload = dataASess x1 h.upSeq h.upFrag h.dnSeq h.dnFrag payload := by
  have h2 : ackSess x1 h.dnSeq h.dnFrag = x1 := by
    unfold ackSess
    rw [if_pos hlen]
  unfold dataASess
  rw [h1, h2]

theorem dataSess_ackedrO (x x1 : Session) (u : Nat) (Q : Query) (h : UpHdr) (payload : List Nat) (now : Nat)
    (h1 : ackSess x h.dnSeq h.dnFrag = x1) (hlen : x1.outpacket.len = 0) :
    dataSess x u Q h payload now = dataSess x1 u Q h payload now := by
  unfold dataSess
  rw [dataASess_ackedrO x x1 h payload h1 hlen]

/-- the acknowledgement of the last fragment of the outpacket, the whole slot -/
theorem ackSess_lastrO (x : Session) (outD : List Nat) (sqd : Int) (od D fd : Nat) (hoq : x.oqFilled = 0) (hD : 0 < D)
    (heq : od + D = outD.length) (hfd : fd < 16)
    (hop : x.outpacket = ⟨outD.length, D, od, outD, sqd, (fd : Int)⟩) :
    ackSess x sqd (fd : Int) = { x with outpacket := ⟨0, 0, 0, outD, sqd, (fd : Int)⟩, outfragresent := 0 } := by
  have hsf : sChar (sChar ((fd : Int) + 1) - 1) = (fd : Int) := by unfold sChar; omega
  rw [ackSess_complete x sqd fd (by rw [hop]; show outD.length ≠ 0; omega) (by rw [hop]) (by rw [hop]) (by rw [hop]; show D ≠ 0; omega)
    (by rw [hop]; show outD.length ≤ od + D; omega) hoq]
  rw [hop]
  simp only [hsf]

theorem srv_recv_mid_noq_acked {P : Par} (hP : P.Ok) {s : Srv} (hS : SStat P s)
    (hq : (getUser s P.u).q.id = 0) (hqs : (getUser s P.u).qs.id = 0) (hlz : (getUser s P.u).lazy = true)
    (hoq : (getUser s P.u).oqFilled = 0)
    {outD : List Nat} {sqd : Int} {od D fd : Nat}
    (hop : (getUser s P.u).outpacket = ⟨outD.length, D, od, outD, sqd, (fd : Int)⟩)
    (hD : 0 < D) (heq : od + D = outD.length) (hfd : fd < 16) (hsqd : 0 ≤ sqd ∧ sqd < 8)
    {k sd : Nat} (hk : k < 36) (hA : Aged P (getUser s P.u) k 1) (hPA : PAged P (getUser s P.u) sd 1)
    {Q : Query} {sq fr : Nat} {out : List Nat} {o m : Nat}
    (hQ : UpQ P Q ⟨sq, fr, sqd, (fd : Int), false⟩ k ((out.drop o).take m))
    (hE : Expect (getUser s P.u) out sq o fr) (hsq : sq < 8) (hfr : fr < 16)
    (hm : o + m ≤ out.length) (h64 : out.length ≤ 65536) :
    ∃ s' evs t pkt, iteration s (.q Q) s.now = (s', evs, t) ∧
      downOfEvents evs = [.ans Q.id Q.type Q.name pkt] ∧ tunOfSEvents evs = [] ∧
      PingSrvL P s' ∧ (getUser s' P.u).outpacket = ⟨0, 0, 0, outD, sqd, (fd : Int)⟩ ∧
      Expect (getUser s' P.u) out sq (o + m) (fr + 1) ∧
      (getUser s' P.u).tunIp = (getUser s P.u).tunIp ∧ (getUser s' P.u).fragsize = (getUser s P.u).fragsize ∧ s'.now = s.now ∧
      (pkt.length : Int) = 2 ∧ (Client.decodeHdr pkt).dnSeq = sqd ∧
      (Client.decodeHdr pkt).upSeq = (sq : Int) ∧ (Client.decodeHdr pkt).upFrag = (fr : Int) ∧
      Aged P (getUser s' P.u) ((k + 1) % 36) 1 ∧ PAged P (getUser s' P.u) sd 1 := by
  obtain ⟨dlen, hdl, h6, hparse, hpl⟩ := hQ.parse
  have htop := topSess_live hS
  have hu := hS.solo.lt
  have hF := hA.fresh hk (by omega)
  -- the slot at the top of the loop
  generalize hx0 : ({ getUser s P.u with qsNew := false } : Session) = x0 at htop
  have hx0q : x0.q.id = 0 := by subst hx0; exact hq
  have hx0qs : x0.qs.id = 0 := by subst hx0; exact hqs
  have hx0f : Fresh P x0 k (0 + 1) := by subst hx0; exact ⟨hF.cache, hF.qmem⟩
  have hx0op : x0.outpacket = ⟨outD.length, D, od, outD, sqd, (fd : Int)⟩ := by subst hx0; exact hop
  have hx0oq0 : x0.oqFilled = 0 := by subst hx0; exact hoq
  -- the slot after `process_downstream_ack`: the outpacket is complete
  have hack := ackSess_lastrO x0 outD sqd od D fd hx0oq0 hD heq hfd hx0op
  generalize hx1 : ({ x0 with outpacket := ⟨0, 0, 0, outD, sqd, (fd : Int)⟩, outfragresent := 0 } : Session) = x1 at hack
  have hx1s : XStat P x1 := by
    subst hx1; subst hx0
    exact ⟨hS.x.active, hS.x.auth, hS.x.enabled, hS.x.conn, hS.x.enc, hsqd, (show 0 ≤ (fd : Int) ∧ (fd : Int) < 16 by omega), hS.x.iseq, hS.x.ifrag⟩
  have hx1o : x1.outpacket = ⟨0, 0, 0, outD, sqd, (fd : Int)⟩ := by subst hx1; rfl
  have hx1out : x1.outpacket.len = 0 := by rw [hx1o]
  have hx1q : x1.q.id = 0 := by subst hx1; exact hx0q
  have hx1qs : x1.qs.id = 0 := by subst hx1; exact hx0qs
  have hx1lz : x1.lazy = true := by subst hx1; subst hx0; exact hlz
  have hx1oq : x1.oqFilled = 0 := by subst hx1; exact hx0oq0
  have hx1res : x1.outfragresent = 0 := by subst hx1; rfl
  have hx1e : Expect x1 out sq o fr := by subst hx1; subst hx0; exact hE
  have hx1h : x1.host = (getUser s P.u).host := by subst hx1; subst hx0; rfl
  have hx1t : x1.tunIp = (getUser s P.u).tunIp := by subst hx1; subst hx0; rfl
  have hx1fs : x1.fragsize = (getUser s P.u).fragsize := by subst hx1; subst hx0; rfl
  have hx1A : Aged P x1 ((k + 1) % 36) 2 := by subst hx1; subst hx0; exact (hA.step hk (by omega)).congr rfl rfl rfl rfl
  have hx1PA : PAged P x1 sd 1 := by subst hx1; subst hx0; exact hPA.congr rfl rfl rfl rfl
  obtain ⟨I, hup, hI⟩ := accept_of_expect hx1e hx1s.iseq
  have hit := iteration_data hS.solo Q s.now dlen hP.hu (by rw [hS.td]; exact hdl) h6 hQ.c0 (hQ.ty ▸ hP.tty) hQ.id
    (admitted_entry hS Q hQ.from_)
    (by rw [htop]; exact hx0f.cacheMiss Q hQ.ty hQ.c0 hQ.c4 hk)
    (by rw [htop]; exact hx0f.qmemMiss Q hQ.ty hQ.c4 hk)
    (by rw [htop]; exact Or.inl hx0q) (by rw [htop]; exact Or.inl hx0qs)
    (by rw [hparse]; intro h; cases h)
  rw [htop, hparse, dataSess_ackedrO x0 x1 P.u Q _ _ s.now hack hx1out, dataSess_noq_mid_idle_rO x1 P.u Q _ _ s.now I hx1out hx1q hx1qs rfl hQ.id2 hup] at hit
  simp only at hit
  obtain ⟨e1, e2, e3, e4, e5, _⟩ := expect_stored hP (sq := sq) (f := fr) hx1s.enc _ hpl hI hm h64
  generalize hst : stored x1 I ((Q.name.take (min dlen 512)).drop 5) = st at hit e1 e2 e3 e4 e5
  have hstc : core st = core { x1 with inpacket := st.inpacket } := by
    subst hst; unfold stored dataStore; rfl
  have hstA : Aged P st ((k + 1) % 36) 2 := by subst hst; exact hx1A.congr rfl rfl rfl rfl
  have hstPA : PAged P st sd 1 := by subst hst; exact hx1PA.congr rfl rfl rfl rfl
  -- the slot `send_chunk_or_dataless` works on
  generalize hy : saveQ st Q s.now = y at hit
  have hyc : core y = core { x1 with inpacket := st.inpacket, q := Q, lastPkt := s.now } := by
    subst hy
    have := hstc
    unfold core at this ⊢
    unfold saveQ
    simp only [Session.mk.injEq] at this ⊢
    simp [this]
  have hyo : y.outpacket = x1.outpacket := by have h9 := core_outpacket hyc; exact h9
  have hyin : y.inpacket = st.inpacket := by have h9 := core_inpacket hyc; exact h9
  have hyA : Aged P y ((k + 1) % 36) 2 := by subst hy; exact hstA.congr rfl rfl rfl rfl
  have hyPA : PAged P y sd 1 := by subst hy; exact hstPA.congr rfl rfl rfl rfl
  have hAm := hyA.memo Q (scPkt y 0) (scPkt0_len y) k 1 ⟨by omega, by omega⟩ (behind_next k hk) hk hQ.c4 hQ.len5
    (by rw [hQ.c0]; exact hexLower_ne_p hP.hu)
  have hPm := hyPA.memo_data hP.hu Q (scPkt y 0) (scPkt0_len y) hQ.len5 hQ.c0
  generalize hY : ({ cacheUpd (qmemUpd y Q) Q (scPkt y 0) with q := { Q with id := 0 } } : Session) = Y at hit
  have hYA : Aged P Y ((k + 1) % 36) 1 := by subst hY; exact hAm.congr rfl rfl rfl rfl
  have hYPA : PAged P Y sd 1 := by subst hY; exact hPm.congr rfl rfl rfl rfl
  have hYc : core Y = core { x1 with inpacket := st.inpacket, q := { Q with id := 0 }, lastPkt := s.now } := by
    subst hY
    have h1 := core_memo y Q (scPkt y 0)
    have h3 := hyc
    unfold core at h1 h3 ⊢
    simp only [Session.mk.injEq] at h1 h3 ⊢
    simp [h1, h3]
  have fA : Y.active = x1.active := by have h9 := core_active hYc; exact h9
  have fB : Y.authenticated = x1.authenticated := by have h9 := core_authenticated hYc; exact h9
  have fC : Y.disabled = x1.disabled := by have h9 := core_disabled hYc; exact h9
  have fD : Y.conn = x1.conn := by have h9 := core_conn hYc; exact h9
  have fE : Y.encoder = x1.encoder := by have h9 := core_encoder hYc; exact h9
  have fF : Y.outpacket = x1.outpacket := by have h9 := core_outpacket hYc; exact h9
  have fG : Y.inpacket = st.inpacket := by have h9 := core_inpacket hYc; exact h9
  have fH : Y.q = { Q with id := 0 } := by have h9 := core_q hYc; exact h9
  have fI : Y.qs = x1.qs := by have h9 := core_qs hYc; exact h9
  have fJ : Y.lazy = x1.lazy := by have h9 := core_lazy hYc; exact h9
  have fK : Y.host = x1.host := by have h9 := core_host hYc; exact h9
  have fL : Y.lastPkt = s.now := by have h9 := core_lastPkt hYc; exact h9
  have fQ : Y.oqFilled = x1.oqFilled := by have h9 := core_oqFilled hYc; exact h9
  have fT : Y.tunIp = x1.tunIp := by have h9 := core_tunIp hYc; exact h9
  have fS : Y.fragsize = x1.fragsize := by have h9 := core_fragsize hYc; exact h9
  have fR : Y.outfragresent = x1.outfragresent := by have h9 := core_outfragresent hYc; exact h9
  -- the sweep does nothing: no query is parked
  have hsw : sweepSess Y P.u s.now = (Y, []) := by
    unfold sweepSess
    rw [if_neg (by intro hc; apply hc.2.1; rw [fI]; exact hx1qs)]
  rw [hsw] at hit
  dsimp only at hit
  have hg : getUser { putUser s P.u Y with now := s.now } P.u = Y := by
    rw [getUser_withNow, getUser_putUser_self _ _ _ hu]
  have hy1 : 0 ≤ y.inpacket.seqno ∧ y.inpacket.seqno < 8 := by rw [hyin, e1]; omega
  have hy2 : 0 ≤ y.inpacket.fragment ∧ y.inpacket.fragment < 16 := by rw [hyin, e2]; omega
  obtain ⟨a1, a2, a3, a4⟩ := ack_hdr (x := x1) (y := y) (pkt := scPkt y 0) rfl hy1 hy2 hyo hx1s.oseq hx1s.ofrag
  have hstat' : SStat P { putUser s P.u Y with now := s.now } := by
    refine ⟨(hS.solo.putUser Y).withNow _, hS.td, ?_, ?_, ?_⟩
    · rw [hg]
      refine ⟨fA ▸ hx1s.active, fB ▸ hx1s.auth, fC ▸ hx1s.enabled, fD ▸ hx1s.conn, fE ▸ hx1s.enc, fF ▸ hx1s.oseq, fF ▸ hx1s.ofrag, ?_, ?_⟩
      · rw [fG, e1]; omega
      · rw [fG, e2]; omega
    · rw [hg, fK, hx1h]; exact hS.host
    · rw [hg, fL]; show s.now < s.now + 60; omega
  refine ⟨_, _, _, scPkt y 0, hit, ?_, ?_, ?_, ?_, ?_, ?_, ?_, rfl, a1, ?_, ?_, ?_, ?_, ?_⟩
  · simp only [List.append_nil, downOfEvents_append, downOfEvents_sweep, downOfEvents_writeDns _ _ _ _ hQ.from_]
  · simp only [List.append_nil, tunOfSEvents_append, tunOfSEvents_writeDns, tunOfSEvents_sweep]
  · refine ⟨hstat', ?_, ?_, ?_, ?_, ?_⟩
    · rw [hg, fH]
    · rw [hg, fI]; exact hx1qs
    · rw [hg, fJ]; exact hx1lz
    · rw [hg, fQ]; exact hx1oq
    · rw [hg, fR, hx1res]; omega
  · rw [hg, fF, hx1o]
  · rw [hg]
    right
    rw [fG]
    refine ⟨by omega, e1, by rw [e2]; omega, e3, e4, by rw [e5]; exact List.take_take .. |>.trans (by simp)⟩
  · rw [hg, fT, hx1t]
  · rw [hg, fS, hx1fs]
  · rw [a2, hx1o]
  · rw [a3, hyin, e1]
  · rw [a4, hyin, e2]
  · rw [hg]; exact hYA
  · rw [hg]; exact hYPA

#print axioms srv_recv_mid_noq_acked

theorem srv_recv_last_noq_acked {P : Par} (hP : P.Ok) {s : Srv} (hS : SStat P s)
    (hq : (getUser s P.u).q.id = 0) (hqs : (getUser s P.u).qs.id = 0) (hlz : (getUser s P.u).lazy = true)
    (hoq : (getUser s P.u).oqFilled = 0)
    {outD : List Nat} {sqd : Int} {od D fd : Nat}
    (hop : (getUser s P.u).outpacket = ⟨outD.length, D, od, outD, sqd, (fd : Int)⟩)
    (hD : 0 < D) (heq : od + D = outD.length) (hfd : fd < 16) (hsqd : 0 ≤ sqd ∧ sqd < 8)
    {k : Nat} (hk : k < 36) (hA : Aged P (getUser s P.u) k 1)
    {Q : Query} {sq fr : Nat} {frame : List Nat} {o m : Nat}
    (hQ : UpQ P Q ⟨sq, fr, sqd, (fd : Int), true⟩ k (((0x5a :: frame).drop o).take m))
    (hE : Expect (getUser s P.u) (0x5a :: frame) sq o fr) (hsq : sq < 8) (hfr : fr < 16)
    (hm : o + m = (0x5a :: frame).length) (h64 : (0x5a :: frame).length ≤ 65536) (h24 : 24 ≤ frame.length)
    (hdst : ipDst frame ≠ (getUser s P.u).tunIp) :
    ∃ s' evs t, iteration s (.q Q) s.now = (s', evs, t) ∧ downOfEvents evs = [] ∧
      tunOfSEvents evs = [[0, 0, 8, 0] ++ frame.drop 4] ∧
      SStat P s' ∧ (getUser s' P.u).q.id = 0 ∧ (getUser s' P.u).qs = Q ∧ (getUser s' P.u).lazy = true ∧
      (getUser s' P.u).outpacket = ⟨0, 0, 0, outD, sqd, (fd : Int)⟩ ∧ (getUser s' P.u).oqFilled = 0 ∧
      (getUser s' P.u).outfragresent = 0 ∧
      (getUser s' P.u).tunIp = (getUser s P.u).tunIp ∧ (getUser s' P.u).fragsize = (getUser s P.u).fragsize ∧
      (getUser s' P.u).inpacket.seqno = (sq : Int) ∧ (getUser s' P.u).inpacket.fragment = (fr : Int) ∧ s'.now = s.now ∧
      (getUser s' P.u).dnscache = (getUser s P.u).dnscache ∧ (getUser s' P.u).dcLast = (getUser s P.u).dcLast ∧
      (getUser s' P.u).qmemdata = (getUser s P.u).qmemdata ∧ (getUser s' P.u).qmemdataLast = (getUser s P.u).qmemdataLast ∧
      (getUser s' P.u).qmemping = (getUser s P.u).qmemping ∧ (getUser s' P.u).qmempingLast = (getUser s P.u).qmempingLast := by
  obtain ⟨dlen, hdl, h6, hparse, hpl⟩ := hQ.parse
  have htop := topSess_live hS
  have hu := hS.solo.lt
  have hF := hA.fresh hk (by omega)
  generalize hx0 : ({ getUser s P.u with qsNew := false } : Session) = x0 at htop
  have hx0q : x0.q.id = 0 := by subst hx0; exact hq
  have hx0qs : x0.qs.id = 0 := by subst hx0; exact hqs
  have hx0f : Fresh P x0 k (0 + 1) := by subst hx0; exact ⟨hF.cache, hF.qmem⟩
  have hx0op : x0.outpacket = ⟨outD.length, D, od, outD, sqd, (fd : Int)⟩ := by subst hx0; exact hop
  have hx0oq0 : x0.oqFilled = 0 := by subst hx0; exact hoq
  -- the slot after `process_downstream_ack`: the outpacket is complete
  have hack := ackSess_lastrO x0 outD sqd od D fd hx0oq0 hD heq hfd hx0op
  generalize hx1 : ({ x0 with outpacket := ⟨0, 0, 0, outD, sqd, (fd : Int)⟩, outfragresent := 0 } : Session) = x1 at hack
  have hx1s : XStat P x1 := by
    subst hx1; subst hx0
    exact ⟨hS.x.active, hS.x.auth, hS.x.enabled, hS.x.conn, hS.x.enc, hsqd, (show 0 ≤ (fd : Int) ∧ (fd : Int) < 16 by omega), hS.x.iseq, hS.x.ifrag⟩
  have hx1o : x1.outpacket = ⟨0, 0, 0, outD, sqd, (fd : Int)⟩ := by subst hx1; rfl
  have hx1out : x1.outpacket.len = 0 := by rw [hx1o]
  have hx1q : x1.q.id = 0 := by subst hx1; exact hx0q
  have hx1qs : x1.qs.id = 0 := by subst hx1; exact hx0qs
  have hx1lz : x1.lazy = true := by subst hx1; subst hx0; exact hlz
  have hx1oq : x1.oqFilled = 0 := by subst hx1; exact hx0oq0
  have hx1res : x1.outfragresent = 0 := by subst hx1; rfl
  have hx1e : Expect x1 (0x5a :: frame) sq o fr := by subst hx1; subst hx0; exact hE
  have hx1h : x1.host = (getUser s P.u).host := by subst hx1; subst hx0; rfl
  have hx1t : x1.tunIp = (getUser s P.u).tunIp := by subst hx1; subst hx0; rfl
  have hx1fs : x1.fragsize = (getUser s P.u).fragsize := by subst hx1; subst hx0; rfl
  obtain ⟨I, hup, hI⟩ := accept_of_expect hx1e hx1s.iseq
  obtain ⟨e1, e2, e3, e4, e5, _⟩ := expect_stored hP (sq := sq) (f := fr) hx1s.enc _ hpl hI (Nat.le_of_eq hm) h64
  generalize hst : stored x1 I ((Q.name.take (min dlen 512)).drop 5) = st at e1 e2 e3 e4 e5
  have hstc : core st = core { x1 with inpacket := st.inpacket } := by
    subst hst; unfold stored dataStore; rfl
  have hun : uncompress (st.inpacket.data.take st.inpacket.len) 65536 = some frame := by
    rw [e5, e4, hm, List.take_take, Nat.min_self, List.take_length]
    exact uncompress_compress frame (by simp at h64; omega)
  have hit := iteration_data hS.solo Q s.now dlen hP.hu (by rw [hS.td]; exact hdl) h6 hQ.c0 (hQ.ty ▸ hP.tty) hQ.id
    (admitted_entry hS Q hQ.from_)
    (by rw [htop]; exact hx0f.cacheMiss Q hQ.ty hQ.c0 hQ.c4 hk)
    (by rw [htop]; exact hx0f.qmemMiss Q hQ.ty hQ.c4 hk)
    (by rw [htop]; exact Or.inl hx0q) (by rw [htop]; exact Or.inl hx0qs)
    (by
      rw [htop, hparse]
      intro _
      rw [dataASess_ackedrO x0 x1 _ _ hack hx1out, dataASess_accept x1 _ _ I hx1out hup, hst]
      intro ⟨out', h1, _, _, _, _, _, h7⟩
      rw [hun] at h1
      have : out' = frame := (Option.some.inj h1).symm
      subst this
      have : st.tunIp = x1.tunIp := by have h9 := core_tunIp hstc; exact h9
      rw [this, hx1t] at h7
      exact hdst h7)
  rw [htop, hparse, dataSess_ackedrO x0 x1 P.u Q _ _ s.now hack hx1out, dataSess_noq_last x1 P.u Q _ _ s.now I hx1out hx1q hx1qs rfl hup, hst] at hit
  simp only at hit
  have hfe : fullEvs st = [writeTun frame] := by
    unfold fullEvs
    rw [hun]
    simp only
    rw [if_pos (by omega)]
  generalize hY : parkQ (saveQ (fullSess st) Q s.now) = Y at hit
  have hYc : core Y = core { x1 with
      inpacket := { st.inpacket with len := 0, offset := 0 }, qs := Q, qsNew := true, q := { Q with id := 0 }, lastPkt := s.now } := by
    subst hY
    have := hstc
    unfold core at this ⊢
    unfold parkQ saveQ fullSess
    simp only [Session.mk.injEq] at this ⊢
    simp [this]
  have fA : Y.active = x1.active := by have h9 := core_active hYc; exact h9
  have fB : Y.authenticated = x1.authenticated := by have h9 := core_authenticated hYc; exact h9
  have fC : Y.disabled = x1.disabled := by have h9 := core_disabled hYc; exact h9
  have fD : Y.conn = x1.conn := by have h9 := core_conn hYc; exact h9
  have fE : Y.encoder = x1.encoder := by have h9 := core_encoder hYc; exact h9
  have fF : Y.outpacket = x1.outpacket := by have h9 := core_outpacket hYc; exact h9
  have fG : Y.inpacket = { st.inpacket with len := 0, offset := 0 } := by have h9 := core_inpacket hYc; exact h9
  have fH : Y.q = { Q with id := 0 } := by have h9 := core_q hYc; exact h9
  have fI : Y.qs = Q := by have h9 := core_qs hYc; exact h9
  have fJ : Y.lazy = x1.lazy := by have h9 := core_lazy hYc; exact h9
  have fK : Y.host = x1.host := by have h9 := core_host hYc; exact h9
  have fL : Y.lastPkt = s.now := by have h9 := core_lastPkt hYc; exact h9
  have fM : Y.qsNew = true := by have h9 := core_qsNew hYc; exact h9
  have fN : Y.dnscache = x1.dnscache := by subst hY; subst hst; rfl
  have fO : Y.qmemdata = x1.qmemdata := by subst hY; subst hst; rfl
  have fN2 : Y.dcLast = x1.dcLast := by subst hY; subst hst; rfl
  have fO2 : Y.qmemdataLast = x1.qmemdataLast := by subst hY; subst hst; rfl
  have fP : Y.qmemping = x1.qmemping := by subst hY; subst hst; rfl
  have fP2 : Y.qmempingLast = x1.qmempingLast := by subst hY; subst hst; rfl
  have fQ : Y.oqFilled = x1.oqFilled := by have h9 := core_oqFilled hYc; exact h9
  have fT : Y.tunIp = x1.tunIp := by have h9 := core_tunIp hYc; exact h9
  have fS : Y.fragsize = x1.fragsize := by have h9 := core_fragsize hYc; exact h9
  have fR : Y.outfragresent = x1.outfragresent := by have h9 := core_outfragresent hYc; exact h9
  -- the sweep leaves the query that was parked in this very iteration alone
  have hsw : sweepSess Y P.u s.now = (Y, []) := by
    unfold sweepSess
    rw [if_neg (by intro hc; have := hc.2.2.2; rw [fM] at this; simp at this)]
  rw [hsw, hfe] at hit
  dsimp only at hit
  have hg : getUser { putUser s P.u Y with now := s.now } P.u = Y := by
    rw [getUser_withNow, getUser_putUser_self _ _ _ hu]
  refine ⟨_, _, _, hit, rfl, rfl, ?_, ?_, ?_, ?_, ?_, ?_, ?_, ?_, ?_, ?_, ?_, rfl, ?_, ?_, ?_, ?_, ?_, ?_⟩
  · refine ⟨(hS.solo.putUser Y).withNow _, hS.td, ?_, ?_, ?_⟩
    · rw [hg]
      refine ⟨fA ▸ hx1s.active, fB ▸ hx1s.auth, fC ▸ hx1s.enabled, fD ▸ hx1s.conn, fE ▸ hx1s.enc, fF ▸ hx1s.oseq, fF ▸ hx1s.ofrag, ?_, ?_⟩
      · rw [fG]; show 0 ≤ st.inpacket.seqno ∧ st.inpacket.seqno < 8; rw [e1]; omega
      · rw [fG]; show 0 ≤ st.inpacket.fragment ∧ st.inpacket.fragment < 16; rw [e2]; omega
    · rw [hg, fK, hx1h]; exact hS.host
    · rw [hg, fL]; show s.now < s.now + 60; omega
  · rw [hg, fH]
  · rw [hg, fI]
  · rw [hg, fJ]; exact hx1lz
  · rw [hg, fF, hx1o]
  · rw [hg, fQ, hx1oq]
  · rw [hg, fR, hx1res]
  · rw [hg, fT, hx1t]
  · rw [hg, fS, hx1fs]
  · rw [hg, fG]; exact e1
  · rw [hg, fG]; exact e2
  · rw [hg, fN]; subst hx1; subst hx0; rfl
  · rw [hg, fN2]; subst hx1; subst hx0; rfl
  · rw [hg, fO]; subst hx1; subst hx0; rfl
  · rw [hg, fO2]; subst hx1; subst hx0; rfl
  · rw [hg, fP]; subst hx1; subst hx0; rfl
  · rw [hg, fP2]; subst hx1; subst hx0; rfl

#print axioms srv_recv_last_noq_acked

end Iodine.C02L
