import IodineModel.Server.Handle
import IodineModel.Lemmas.Codec
import IodineModel.Common
/-
Helper lemmas for C16, part h: the ping fingerprint the handler checks (whole data part, dots removed, decoded)
agrees with the one `save_to_qmem_pingordata` stored (first label only) whenever one was stored.
-/
namespace Iodine.C16L
open Iodine Iodine.Server Iodine.Gen Iodine.Codec

theorem decBits_append (c : Codec) (a b : List Nat) : decBits c (a ++ b) = decBits c a ++ decBits c b := by
  simp [decBits]

/-- the first bytes of a decoding depend on the first characters only -/
theorem decAll_take_append (c : Codec) (L R : List Nat) (j : Nat) (h : j ≤ (decAll c L).length) :
    (decAll c (L ++ R)).take j = (decAll c L).take j := by
  unfold decAll at h ⊢
  simp only [List.length_map, chunksN_length] at h
  simp only [← List.map_take]
  rw [decBits_append]
  rw [chunksN_take 8 _ j _ (by simp only [List.length_append]; omega),
    chunksN_take 8 _ j _ h, chunksN_append_left 8 j _ _ (by omega)]

theorem takeWhile_append_prefix {α : Type} (p : α → Bool) (l r : List α) :
    ∃ r', (l ++ r).takeWhile p = l.takeWhile p ++ r' := by
  induction l with
  | nil => exact ⟨r.takeWhile p, rfl⟩
  | cons a l ih =>
    obtain ⟨r', hr⟩ := ih
    simp only [List.cons_append, List.takeWhile_cons]
    cases p a
    · exact ⟨[], rfl⟩
    · exact ⟨r', by simp [hr]⟩

/-- the characters in front of the first dot contain no dot -/
theorem no_dot_before_first (n : List Nat) (cp : Nat) (h : n.idxOf? 46 = some cp) :
    ∀ x ∈ (n.drop 1).take (cp - 1), x ≠ 46 := by
  obtain ⟨hlt, _, hbefore⟩ := List.idxOf?_eq_some_iff.mp h
  intro x hx
  obtain ⟨i, hi, rfl⟩ := List.mem_iff_getElem.mp hx
  simp only [List.length_take, List.length_drop] at hi
  simp only [List.getElem_take, List.getElem_drop]
  exact hbefore (1 + i) (by omega)

/-- If `save_to_qmem_pingordata` stores a fingerprint for the ping name `n` (first dot at `cp`, which lies in the
part of the name the handler decodes), it is the fingerprint the ping handler computes for `n`. -/
theorem pingPrint_eq_saved (n : List Nat) (d cp : Nat) (c : List Nat) (hcp : n.idxOf? 46 = some cp)
    (hle : cp ≤ min d 512)
    (hs : (if (dec b32 8 (cp - 1) (n.drop 1)).length < 4 then none
           else some ((dec b32 8 (cp - 1) (n.drop 1)).take 4)) = some c) :
    (Encoding.unpackData b32 65536 ((n.take (min d 512)).drop 1)).take 4 = c := by
  have hnd := no_dot_before_first n cp hcp
  generalize hM : min d 512 = M at hle ⊢
  -- the decoded part starts with the first label
  have hsplit : (n.take M).drop 1 =
      (n.drop 1).take (cp - 1) ++ (((n.drop 1).drop (cp - 1)).take (M - 1 - (cp - 1))) := by
    rw [List.drop_take]
    have : M - 1 = (cp - 1) + (M - 1 - (cp - 1)) := by omega
    conv => lhs; rw [this, List.take_add]
  generalize hlab : (n.drop 1).take (cp - 1) = label at hnd hsplit
  generalize ((n.drop 1).drop (cp - 1)).take (M - 1 - (cp - 1)) = rest at hsplit
  have hU : Encoding.undotify ((n.take M).drop 1) = label ++ Encoding.undotify rest := by
    rw [hsplit]
    unfold Encoding.undotify
    rw [List.filter_append]
    congr 1
    rw [List.filter_eq_self]
    intro x hx
    simpa [Encoding.DOT] using hnd x hx
  have hdec : dec b32 8 (cp - 1) (n.drop 1) = (decAll b32 (label.takeWhile (fun ch => ch != 0))).take 8 := by
    unfold dec cstr
    rw [hlab]
  rw [hdec] at hs
  split at hs
  · cases hs
  · rename_i hlen
    injection hs with hs
    subst hs
    simp only [List.length_take] at hlen
    unfold Encoding.unpackData
    simp only []
    rw [hU]
    unfold dec cstr
    rw [List.take_length]
    obtain ⟨r', hr'⟩ := takeWhile_append_prefix (fun ch => ch != 0) label (Encoding.undotify rest)
    rw [hr', List.take_take, List.take_take]
    have h4 : min 4 65536 = 4 := by decide
    have h8 : min 4 8 = 4 := by decide
    rw [h4, h8]
    exact decAll_take_append b32 _ r' 4 (by omega)

/-! ### the data part of a name ends at a label boundary -/

theorem qdScan_boundary : ∀ (l t : List Nat) (d : Nat), Common.qdScan l t = some d →
    ∃ pre r, l = pre ++ r ∧ r.length = d ∧ Common.atBoundary r = true := by
  intro l
  induction l with
  | nil => intro t d h; simp [Common.qdScan] at h
  | cons qc qrest ih =>
    intro t d h
    cases t with
    | nil => simp [Common.qdScan] at h
    | cons tc trest =>
      rw [Common.qdScan] at h
      split at h
      · split at h
        · cases h
        · split at h
          · rename_i hb
            injection h with h
            exact ⟨[qc], qrest, rfl, h, hb⟩
          · obtain ⟨pre, r, h1, h2, h3⟩ := ih _ _ h
            exact ⟨qc :: pre, r, by rw [h1]; rfl, h2, h3⟩
      · split at h
        · split at h
          · split at h
            · rename_i hb
              injection h with h
              exact ⟨[qc], qrest, rfl, h, hb⟩
            · cases h
          · obtain ⟨pre, r, h1, h2, h3⟩ := ih _ _ h
            exact ⟨qc :: pre, r, by rw [h1]; rfl, h2, h3⟩
        · cases h

/-- `query_datalen` returns 0 or the position just behind a dot -/
theorem queryDatalen_boundary (q t : List Nat) (d : Nat) (h : Common.queryDatalen q t = some d) (hd : 0 < d) :
    ∃ hlt : d - 1 < q.length, q[d - 1] = 46 := by
  unfold Common.queryDatalen at h
  split at h
  · cases h
  · obtain ⟨pre, r, h1, h2, h3⟩ := qdScan_boundary _ _ _ h
    have hq : q = r.reverse ++ pre.reverse := by
      have := congrArg List.reverse h1
      simpa using this
    cases r with
    | nil => simp at h2; omega
    | cons a r' =>
      have ha : a = 46 := by
        simpa [Common.atBoundary] using h3
      subst ha
      simp only [List.length_cons] at h2
      subst hq
      refine ⟨by simp; omega, ?_⟩
      simp only [List.reverse_cons, List.append_assoc, List.cons_append, List.nil_append]
      rw [List.getElem_append_right (by simp; omega)]
      simp [← h2]

/-- so the first dot of the name lies inside the data part -/
theorem first_dot_in_datalen (q t : List Nat) (d cp : Nat) (h : Common.queryDatalen q t = some d) (hd : 0 < d)
    (hcp : q.idxOf? 46 = some cp) : cp < d := by
  obtain ⟨hlt, h46⟩ := queryDatalen_boundary q t d h hd
  obtain ⟨_, _, hbefore⟩ := List.idxOf?_eq_some_iff.mp hcp
  apply Classical.byContradiction
  intro hn
  exact hbefore (d - 1) (by omega) h46

/-! ### letter case -/

theorem toLower_eq_iff (c k : Nat) (hk : k < 65) : Common.toLower c = k ↔ c = k := by
  unfold Common.toLower
  split
  · rename_i h
    simp only [Bool.and_eq_true, decide_eq_true_eq] at h
    omega
  · exact Iff.rfl

theorem toLower_eq_const {a b k : Nat} (hk : k < 65) (h : Common.toLower a = Common.toLower b) :
    a = k ↔ b = k := by
  rw [← toLower_eq_iff a k hk, ← toLower_eq_iff b k hk, h]

theorem atBoundary_lower (l l' : List Nat) (h : l.map Common.toLower = l'.map Common.toLower) :
    Common.atBoundary l = Common.atBoundary l' := by
  cases l with
  | nil =>
    cases l' with
    | nil => rfl
    | cons b l' => simp at h
  | cons a l =>
    cases l' with
    | nil => simp at h
    | cons b l' =>
      simp only [List.map_cons, List.cons.injEq] at h
      have := toLower_eq_const (k := 46) (by decide) h.1
      have hb : (a == 46) = (b == 46) := by
        cases h1 : (a == 46) <;> cases h2 : (b == 46) <;> simp_all
      simp [Common.atBoundary, hb]

theorem qdScan_lower : ∀ (l l' t : List Nat), l.map Common.toLower = l'.map Common.toLower →
    Common.qdScan l t = Common.qdScan l' t := by
  intro l
  induction l with
  | nil =>
    intro l' t h
    cases l' with
    | nil => rfl
    | cons b l' => simp at h
  | cons a l ih =>
    intro l' t h
    cases l' with
    | nil => simp at h
    | cons b l' =>
      simp only [List.map_cons, List.cons.injEq] at h
      obtain ⟨hab, hl⟩ := h
      cases t with
      | nil => simp [Common.qdScan]
      | cons tc trest =>
        have h42 := toLower_eq_const (k := 42) (by decide) hab
        have hb := atBoundary_lower l l' hl
        have hlen : l.length = l'.length := by
          have := congrArg List.length hl
          simpa using this
        rw [Common.qdScan, Common.qdScan]
        simp only [h42, hb, hlen, hab, ih l' _ hl]

theorem queryDatalen_lower (n n' t : List Nat) (h : n.map Common.toLower = n'.map Common.toLower) :
    Common.queryDatalen n t = Common.queryDatalen n' t := by
  have hlen : n.length = n'.length := by
    have := congrArg List.length h
    simpa using this
  unfold Common.queryDatalen
  rw [hlen, qdScan_lower n.reverse n'.reverse t.reverse (by rw [List.map_reverse, List.map_reverse, h])]

theorem b32_rev_toLower (c : Nat) : b32.rev (Common.toLower c) = b32.rev c := by
  unfold Common.toLower
  split
  · rename_i h
    simp only [Bool.and_eq_true, decide_eq_true_eq] at h
    have : ∀ c, c < 91 → 65 ≤ c → b32.rev (c + 32) = b32.rev c := by decide
    exact this c (by omega) h.1
  · rfl

theorem decBits_lower (s : List Nat) : decBits b32 (s.map Common.toLower) = decBits b32 s := by
  simp [decBits, List.flatMap_map, b32_rev_toLower]

theorem takeWhile_nz_lower (s : List Nat) :
    (s.map Common.toLower).takeWhile (fun ch => ch != 0) = (s.takeWhile (fun ch => ch != 0)).map Common.toLower := by
  induction s with
  | nil => rfl
  | cons a s ih =>
    have h0 : (Common.toLower a != 0) = (a != 0) := by
      have := toLower_eq_iff a 0 (by decide)
      cases h : (a != 0) <;> simp_all
    simp only [List.map_cons, List.takeWhile_cons, h0]
    cases (a != 0)
    · rfl
    · simp [ih]

theorem unpackData_lower (cap : Nat) (s : List Nat) :
    Encoding.unpackData b32 cap (s.map Common.toLower) = Encoding.unpackData b32 cap s := by
  have hund : Encoding.undotify (s.map Common.toLower) = (Encoding.undotify s).map Common.toLower := by
    unfold Encoding.undotify
    rw [List.filter_map]
    congr 1
    apply List.filter_congr
    intro x _
    have := toLower_eq_iff x 46 (by decide)
    simp only [Function.comp, Encoding.DOT]
    cases h : (x != 46) <;> simp_all
  unfold Encoding.unpackData
  simp only []
  rw [hund]
  generalize Encoding.undotify s = w
  unfold dec cstr decAll
  rw [List.take_length, List.take_length, takeWhile_nz_lower, decBits_lower]

/-- the decoded ping payload does not depend on the letter case of the name -/
theorem pingBytes_lower (td n n' : List Nat) (h : n'.map Common.toLower = n.map Common.toLower) :
    Encoding.unpackData b32 65536 ((n'.take (min ((Common.queryDatalen n' td).getD 0) 512)).drop 1) =
    Encoding.unpackData b32 65536 ((n.take (min ((Common.queryDatalen n td).getD 0) 512)).drop 1) := by
  rw [queryDatalen_lower n' n td h]
  generalize min ((Common.queryDatalen n td).getD 0) 512 = M
  rw [← unpackData_lower 65536 ((n'.take M).drop 1), ← unpackData_lower 65536 ((n.take M).drop 1)]
  rw [List.map_drop, List.map_drop, List.map_take, List.map_take, h]

end Iodine.C16L
