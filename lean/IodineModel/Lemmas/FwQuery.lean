import IodineModel.FwQuery
/-
Helper lemmas for C20 (DNS forwarding bookkeeping).

Core: the ring invariant `Inv ps s` — after the puts `ps` (oldest first) the state `s` holds in
slot `k % SIZE` the `k`-th put, for the last `min SIZE ps.length` values of `k`, and `(0,0)` in the
slots `ps.length ≤ j < SIZE` that were never written.  Everything about `get` follows from it.
-/
namespace Iodine.FwQuery

theorem SIZE_pos : 0 < SIZE := by decide

/-- unfold the generated constant to its numeral, then linear arithmetic (with `%` by a numeral) -/
local macro "sz_omega" : tactic =>
  `(tactic| ((try simp only [SIZE, Iodine.Gen.FW_QUERY_CACHE_SIZE] at *) <;> omega))

/-! ### general list facts -/

/-- membership in "the last `m` elements" by absolute position -/
theorem mem_drop_length_sub {α} (l : List α) (m : Nat) (x : α) :
    x ∈ l.drop (l.length - m) ↔ ∃ k, k < l.length ∧ l.length ≤ k + m ∧ l[k]? = some x := by
  rw [List.mem_iff_getElem?]
  constructor
  · rintro ⟨t, ht⟩
    rw [List.getElem?_drop] at ht
    have hlt : l.length - m + t < l.length := by
      have := List.getElem?_eq_some_iff.mp ht; exact this.1
    exact ⟨l.length - m + t, hlt, by omega, ht⟩
  · rintro ⟨k, hk, hkm, hx⟩
    refine ⟨k - (l.length - m), ?_⟩
    rw [List.getElem?_drop]
    rw [show l.length - m + (k - (l.length - m)) = k by omega]
    exact hx

/-- if an id occurs exactly once among the ids, it determines the asker -/
theorem asker_unique_of_count {l : List (Addr × Nat)} {i a b : Nat}
    (hc : (l.map Prod.snd).count i = 1) (ha : (a, i) ∈ l) (hb : (b, i) ∈ l) : a = b := by
  induction l with
  | nil => cases ha
  | cons x l ih =>
    simp only [List.map_cons, List.count_cons] at hc
    by_cases hx : x.2 = i
    · have h0 : (l.map Prod.snd).count i = 0 := by simp [hx] at hc; exact hc
      have hni : i ∉ l.map Prod.snd := List.count_eq_zero.mp h0
      have key : ∀ c, (c, i) ∈ x :: l → (c, i) = x := by
        intro c hcm
        rcases List.mem_cons.mp hcm with h | h
        · exact h
        · exact absurd (List.mem_map.mpr ⟨(c, i), h, rfl⟩) hni
      have h1 := key a ha
      have h2 := key b hb
      rw [← h2] at h1
      exact (Prod.mk.inj h1).1
    · have hne : ∀ c, (c, i) ∈ x :: l → (c, i) ∈ l := by
        intro c hcm
        rcases List.mem_cons.mp hcm with h | h
        · exact absurd (by rw [← h]) hx
        · exact h
      have hc' : (l.map Prod.snd).count i = 1 := by
        have : (x.2 == i) = false := by simpa using hx
        simpa [this] using hc
      exact ih hc' (hne a ha) (hne b hb)

/-! ### the puts of an event sequence (model side) -/

def putOf : Ev → Option (Addr × Nat)
  | .query a i => some (a, i)
  | .reply _ _ => none

def putsOf (evs : List Ev) : List (Addr × Nat) := evs.filterMap putOf

/-! ### the ring invariant -/

structure Inv (ps : List (Addr × Nat)) (s : Fw) : Prop where
  len : s.slots.length = SIZE
  ix : s.ix = ps.length % SIZE
  cls : ∀ j, j < SIZE →
    (∃ k, k < ps.length ∧ ps.length ≤ k + SIZE ∧ k % SIZE = j ∧ s.slots[j]? = ps[k]?) ∨
    (ps.length ≤ j ∧ s.slots[j]? = some (0, 0))

theorem inv_init : Inv [] init := by
  refine ⟨by simp [init], by simp [init], ?_⟩
  intro j hj
  right
  refine ⟨Nat.zero_le _, ?_⟩
  simp only [init, List.getElem?_replicate, hj, if_true]

theorem inv_put {ps : List (Addr × Nat)} {s : Fw} (h : Inv ps s) (a i : Nat) :
    Inv (ps ++ [(a, i)]) (put s a i) := by
  obtain ⟨hlen, hix, hcls⟩ := h
  have hixlt : s.ix < s.slots.length := by
    rw [hlen, hix]; exact Nat.mod_lt _ SIZE_pos
  refine ⟨?_, ?_, ?_⟩
  · simp only [put, List.length_set, hlen]
  · simp only [put, List.length_append, List.length_singleton]
    rw [hix]
    split <;> sz_omega
  · intro j hj
    simp only [put, List.length_append, List.length_singleton, List.getElem?_set]
    by_cases hji : s.ix = j
    · left
      refine ⟨ps.length, by omega, by omega, by omega, ?_⟩
      rw [if_pos hji, if_pos hixlt]
      simp
    · rw [if_neg hji]
      rcases hcls j hj with ⟨k, hk, hk2, hkj, hsl⟩ | ⟨hnj, hsl⟩
      · left
        refine ⟨k, by omega, ?_, hkj, ?_⟩
        · sz_omega
        · rw [hsl, List.getElem?_append_left hk]
      · right
        refine ⟨?_, hsl⟩
        sz_omega

/-- the slot of a put that is still in the window -/
theorem Inv.window {ps s} (h : Inv ps s) {k : Nat} (hk : k < ps.length)
    (hk2 : ps.length ≤ k + SIZE) : s.slots[k % SIZE]? = ps[k]? := by
  rcases h.cls (k % SIZE) (Nat.mod_lt _ SIZE_pos) with ⟨k', hk', hk2', hkk, hsl⟩ | ⟨hn, _⟩
  · have : k' = k := by sz_omega
    rw [hsl, this]
  · exfalso
    have := Nat.mod_le k SIZE
    omega

/-- a slot that was never written -/
theorem Inv.unwritten {ps s} (h : Inv ps s) {j : Nat} (hn : ps.length ≤ j) (hj : j < SIZE) :
    s.slots[j]? = some (0, 0) := by
  rcases h.cls j hj with ⟨k, hk, _, hkj, _⟩ | ⟨_, hsl⟩
  · exfalso
    have : k % SIZE = k := Nat.mod_eq_of_lt (by omega)
    omega
  · exact hsl

/-! ### `get` -/

theorem get_eq_some_iff (s : Fw) (i j : Nat) :
    get s i = some j ↔
      ∃ x, s.slots[j]? = some x ∧ x.2 = i ∧
        ∀ j', j' < j → ∀ y, s.slots[j']? = some y → y.2 ≠ i := by
  unfold get
  rw [List.findIdx?_eq_some_iff_getElem]
  constructor
  · rintro ⟨hj, hp, hmin⟩
    refine ⟨s.slots[j], List.getElem?_eq_getElem hj, by simpa using hp, ?_⟩
    intro j' hj' y hy
    have hlt : j' < s.slots.length := by omega
    have := hmin j' hj'
    rw [List.getElem?_eq_getElem hlt] at hy
    cases hy
    simpa using this
  · rintro ⟨x, hx, hxi, hmin⟩
    obtain ⟨hj, hxe⟩ := List.getElem?_eq_some_iff.mp hx
    refine ⟨hj, by simp [hxe, hxi], ?_⟩
    intro j' hj'
    have hlt : j' < s.slots.length := by omega
    have := hmin j' hj' _ (List.getElem?_eq_getElem hlt)
    simpa using this

theorem get_eq_none_iff (s : Fw) (i : Nat) :
    get s i = none ↔ ∀ (j : Nat) (y : Addr × Nat), s.slots[j]? = some y → y.2 ≠ i := by
  unfold get
  rw [List.findIdx?_eq_none_iff]
  constructor
  · intro h j y hy
    have := h y (List.mem_iff_getElem?.mpr ⟨j, hy⟩)
    simpa using this
  · intro h x hx
    obtain ⟨j, hj⟩ := List.mem_iff_getElem?.mp hx
    simpa using h j x hj

theorem get_isSome_of_slot (s : Fw) (i j : Nat) (x : Addr × Nat) (hx : s.slots[j]? = some x)
    (hxi : x.2 = i) : ∃ j', get s i = some j' := by
  cases hg : get s i with
  | some j' => exact ⟨j', rfl⟩
  | none => exact absurd hxi ((get_eq_none_iff s i).mp hg j x hx)

theorem slot_eq_of_getElem? {s : Fw} {j : Nat} {x : Addr × Nat} (h : s.slots[j]? = some x) :
    slot s j = x := by
  simp [slot, List.getD_eq_getElem?_getD, h]

/-- If some put still in the window has id `i`, the lookup finds the window put whose slot number
is least among the window puts with id `i`. -/
theorem Inv.get_window {ps s} (h : Inv ps s) {i k a : Nat} (hk : k < ps.length)
    (hk2 : ps.length ≤ k + SIZE) (hps : ps[k]? = some (a, i)) :
    ∃ k' b, k' < ps.length ∧ ps.length ≤ k' + SIZE ∧ ps[k']? = some (b, i) ∧
      get s i = some (k' % SIZE) ∧ slot s (k' % SIZE) = (b, i) ∧
      ∀ k'', k'' < ps.length → ps.length ≤ k'' + SIZE → (∃ c, ps[k'']? = some (c, i)) →
        k' % SIZE ≤ k'' % SIZE := by
  have hslk : s.slots[k % SIZE]? = some (a, i) := by rw [h.window hk hk2, hps]
  obtain ⟨j, hg⟩ := get_isSome_of_slot s i _ _ hslk rfl
  obtain ⟨x, hx, hxi, hmin⟩ := (get_eq_some_iff s i j).mp hg
  have hjS : j < SIZE := by
    rw [← h.len]; exact (List.getElem?_eq_some_iff.mp hx).1
  have hjk : j ≤ k % SIZE := by
    rcases Nat.lt_or_ge (k % SIZE) j with hlt | hge
    · exact absurd rfl (hmin _ hlt _ hslk)
    · exact hge
  rcases h.cls j hjS with ⟨k', hk', hk2', hkj, hsl⟩ | ⟨hn, _⟩
  · obtain ⟨b, i'⟩ := x
    simp only at hxi
    subst hxi
    refine ⟨k', b, hk', hk2', ?_, ?_, ?_, ?_⟩
    · rw [← hsl, hx]
    · rw [hkj]; exact hg
    · rw [hkj]; exact slot_eq_of_getElem? hx
    · rintro k'' hk'' hk2'' ⟨c, hc⟩
      rw [hkj]
      rcases Nat.lt_or_ge (k'' % SIZE) j with hlt | hge
      · have hs : s.slots[k'' % SIZE]? = some (c, i') := by rw [h.window hk'' hk2'', hc]
        exact absurd rfl (hmin _ hlt _ hs)
      · exact hge
  · exfalso
    have : k % SIZE = k := Nat.mod_eq_of_lt (by omega)
    omega

/-- If no put in the window has id `i`, the lookup fails — except for id 0 while the ring is not
yet full, where it finds the first never-written slot (number `ps.length`, holding `(0,0)`). -/
theorem Inv.get_no_window {ps s} (h : Inv ps s) {i : Nat}
    (hno : ∀ k, k < ps.length → ps.length ≤ k + SIZE → ∀ c, ps[k]? ≠ some (c, i)) :
    get s i = if i = 0 ∧ ps.length < SIZE then some ps.length else none := by
  split
  · rename_i hc
    obtain ⟨hi, hn⟩ := hc
    subst hi
    rw [get_eq_some_iff]
    refine ⟨(0, 0), h.unwritten (Nat.le_refl _) hn, rfl, ?_⟩
    intro j' hj' y hy hy0
    rcases h.cls j' (by omega) with ⟨k, hk, hk2, _, hsl⟩ | ⟨hnj, _⟩
    · rw [hy] at hsl
      obtain ⟨c, i'⟩ := y
      simp only at hy0
      subst hy0
      exact hno k hk hk2 c hsl.symm
    · omega
  · rename_i hc
    rw [get_eq_none_iff]
    intro j y hy hyi
    have hjS : j < SIZE := by
      rw [← h.len]; exact (List.getElem?_eq_some_iff.mp hy).1
    rcases h.cls j hjS with ⟨k, hk, hk2, _, hsl⟩ | ⟨hnj, hsl⟩
    · rw [hy] at hsl
      obtain ⟨c, i'⟩ := y
      simp only at hyi
      subst hyi
      exact hno k hk hk2 c hsl.symm
    · rw [hy] at hsl
      cases hsl
      simp only at hyi
      exact hc ⟨hyi.symm, by omega⟩

/-! ### ring order: reading the ring from `ix` round gives never-written slots, then the last puts -/

theorem rotate_getElem? {α} (l : List α) (ix t : Nat) (hix : ix < l.length) (ht : t < l.length) :
    (l.drop ix ++ l.take ix)[t]? = l[(ix + t) % l.length]? := by
  rw [List.getElem?_append, List.length_drop]
  split
  · rename_i h1
    rw [List.getElem?_drop, Nat.mod_eq_of_lt (by omega)]
  · rename_i h1
    rw [List.getElem?_take, if_pos (by omega)]
    congr 1
    have : ix + t = (t - (l.length - ix)) + l.length := by omega
    rw [this, Nat.add_mod_right, Nat.mod_eq_of_lt (by omega)]

theorem Inv.ring_order {ps s} (h : Inv ps s) :
    s.slots.drop s.ix ++ s.slots.take s.ix =
      List.replicate (SIZE - ps.length) (0, 0) ++ ps.drop (ps.length - SIZE) := by
  have hixlt : s.ix < s.slots.length := by
    rw [h.len, h.ix]; exact Nat.mod_lt _ SIZE_pos
  apply List.ext_getElem?
  intro t
  by_cases ht : t < SIZE
  · rw [rotate_getElem? _ _ _ hixlt (by rw [h.len]; exact ht), h.len, h.ix,
      List.getElem?_append, List.length_replicate, List.getElem?_replicate, List.getElem?_drop]
    split
    · rename_i h1
      have : (ps.length % SIZE + t) % SIZE = ps.length + t := by sz_omega
      rw [this]
      exact h.unwritten (by omega) (by omega)
    · rename_i h1
      have hk : ps.length - SIZE + (t - (SIZE - ps.length)) < ps.length := by omega
      have hk2 : ps.length ≤ ps.length - SIZE + (t - (SIZE - ps.length)) + SIZE := by omega
      rw [← h.window hk hk2]
      congr 1
      sz_omega
  · have h1 : (s.slots.drop s.ix ++ s.slots.take s.ix).length ≤ t := by
      have := h.len
      simp only [List.length_append, List.length_drop, List.length_take]; omega
    have h2 : (List.replicate (SIZE - ps.length) ((0, 0) : Addr × Nat) ++
        ps.drop (ps.length - SIZE)).length ≤ t := by
      simp only [List.length_append, List.length_drop, List.length_replicate]; omega
    rw [List.getElem?_eq_none h1, List.getElem?_eq_none h2]

/-! ### runs -/

theorem runFrom_append (s : Fw) (acc : List Out) (e1 e2 : List Ev) :
    runFrom s acc (e1 ++ e2) = runFrom (runFrom s acc e1).1 (runFrom s acc e1).2 e2 := by
  simp only [runFrom, List.foldl_append]

theorem run_snoc (evs : List Ev) (e : Ev) :
    run (evs ++ [e]) = ((step (run evs).1 e).1, (run evs).2 ++ (step (run evs).1 e).2) := by
  simp only [run, runFrom, List.foldl_append, List.foldl_cons, List.foldl_nil]

@[simp] theorem putsOf_nil : putsOf [] = [] := rfl
@[simp] theorem putsOf_cons_query (a i : Nat) (evs : List Ev) :
    putsOf (.query a i :: evs) = (a, i) :: putsOf evs := rfl
@[simp] theorem putsOf_cons_reply (i : Nat) (b : List Nat) (evs : List Ev) :
    putsOf (.reply i b :: evs) = putsOf evs := rfl

theorem putsOf_append (e1 e2 : List Ev) : putsOf (e1 ++ e2) = putsOf e1 ++ putsOf e2 := by
  simp only [putsOf, List.filterMap_append]

theorem inv_runFrom {ps s} (h : Inv ps s) (acc : List Out) (evs : List Ev) :
    Inv (ps ++ putsOf evs) (runFrom s acc evs).1 := by
  induction evs generalizing ps s acc with
  | nil => simpa [runFrom] using h
  | cons e evs ih =>
    cases e with
    | query a i =>
      have := ih (inv_put h a i) (acc ++ [Out.forward i])
      simpa [runFrom, step, List.append_assoc] using this
    | reply i b =>
      have hs : (step s (Ev.reply i b)).1 = s := by
        simp only [step]; split <;> rfl
      have := ih h (acc ++ (step s (Ev.reply i b)).2)
      simpa [runFrom, hs] using this

theorem inv_run (evs : List Ev) : Inv (putsOf evs) (run evs).1 := by
  simpa [run] using inv_runFrom inv_init [] evs

/-- a reply never changes the ring (nothing is removed) -/
theorem step_reply_state (s : Fw) (i : Nat) (b : List Nat) : (step s (.reply i b)).1 = s := by
  simp only [step]; split <;> rfl

theorem step_reply_out (s : Fw) (i : Nat) (b : List Nat) :
    (step s (.reply i b)).2 =
      match get s i with
      | some j => [Out.toAsker (slot s j).1 b]
      | none => [] := by
  simp only [step]; split <;> simp [*]

end Iodine.FwQuery
