import IodineModel.Lemmas.BytesB
import IodineModel.Lemmas.Common
import IodineModel.Props.C12
/-
Helper lemmas for the byte-level server, part C: `read_dns` (never faults, residue independent, what it hands on),
`encodeEvents` (every `tx` is `write_dns` of an `ans`, every `nsa` is built from the arriving query), the invariant of the
process, and what `query_datalen` says about the name it matched.
-/
namespace Iodine.BytesL
open Iodine Iodine.Server Iodine.C14L Iodine.Gen Iodine.C10 Iodine.Downstream

/-! ### receive side -/

theorem decodeInput_eq (res : Array Nat) (s : Srv) (src : Addr) (bytes : List Nat) :
    decodeInputR res s src bytes = .ok (decodeInput s src bytes) := C12.read_dns_eq res s src bytes

/-- the question name `read_dns` extracts from the datagram, when it hands a query on, is a legal host name -/
def QuestionLegal (bytes : List Nat) : Prop :=
  match Wire.dnsDecodeQuery (rxBuf #[] (bytes.take 65536)) with
  | .ok d => d.rv ≤ 0 ∨ LegalName d.name
  | .error _ => True

instance (bytes : List Nat) : Decidable (QuestionLegal bytes) := by
  unfold QuestionLegal; split <;> infer_instance

/-- what a query handed on by `read_dns` looks like -/
theorem decodeInput_q {s : Srv} {src : Addr} {bytes : List Nat} {q : Query} (h : decodeInput s src bytes = .q q) :
    q.id2 = 0 ∧ q.id < 65536 ∧ q.type < 65536 ∧ q.from_ = src ∧ (QuestionLegal bytes → LegalName q.name) := by
  unfold decodeInput decodeInputR at h
  simp only [] at h
  split at h
  · rename_i i hi
    split at hi
    · cases hi; cases h
    · split at hi
      · cases hi; cases h
      · obtain ⟨d, hd, hi⟩ := bind_eq_ok hi
        split at hi
        · cases hi; cases h
        · rename_i hrv
          cases hi
          cases h
          have hf := dnsDecodeQuery_facts hd
          refine ⟨rfl, hf.1, hf.2, rfl, ?_⟩
          intro hl
          unfold QuestionLegal at hl
          rw [hd] at hl
          rcases hl with hl | hl
          · exact absurd hl hrv
          · exact hl
  · cases h

/-! ### send side -/

/-- every event paired with what it sends: the event is one of the iteration's; a `tx` is `write_dns` of an `ans` event
(with static counters in range); an `nsa` is built from the arriving query; the counters stay in range -/
theorem encodeEventsL_spec (cfg : Config) (q? : Option Query) : ∀ (evs : List Event) (td : WriteDns.Td), TdOk td →
    TdOk (encodeEventsL cfg q? td evs).1 ∧
    ∀ pr ∈ (encodeEventsL cfg q? td evs).2, pr.1 ∈ evs ∧
      (∀ dst bytes, BEvent.tx dst bytes ∈ pr.2 → ∃ td0 id ty dn name data tag, TdOk td0 ∧
        pr.1 = Event.ans dst id ty dn name data tag ∧ (WriteDns.writeDns td0 (id, ty, name) data dn).2 = some bytes) ∧
      (∀ dst bytes, BEvent.nsa dst bytes ∈ pr.2 → ∃ q, q? = some q ∧ pr.1 = Event.nsa dst ∧ nsaBytes cfg q = some bytes) ∧
      (∀ dst bytes, BEvent.fwd dst bytes ∈ pr.2 → ∃ q, q? = some q ∧ pr.1 = Event.fwd dst ∧ fwdBytes q = some bytes)
  | [], td, h => ⟨h, fun pr hpr => by simp [encodeEventsL] at hpr⟩
  | e :: rest, td, h => by
    have h1 : TdOk (encodeEvent cfg q? td e).1 := by
      cases e <;> simp only [encodeEvent] <;> first | exact h | exact writeDns_tdOk td h _ _ _
    have ih := encodeEventsL_spec cfg q? rest (encodeEvent cfg q? td e).1 h1
    simp only [encodeEventsL]
    refine ⟨ih.1, ?_⟩
    intro pr hpr
    simp only [List.mem_cons] at hpr
    rcases hpr with rfl | hpr
    · refine ⟨List.mem_cons_self, ?_, ?_, ?_⟩
      · intro dst bytes hb
        cases e with
        | ans dst' id ty dn name data tag =>
          simp only [encodeEvent] at hb
          split at hb
          · rename_i pkt hpkt
            simp only [List.mem_singleton, BEvent.tx.injEq] at hb
            obtain ⟨rfl, rfl⟩ := hb
            exact ⟨td, id, ty, dn, name, data, tag, h, rfl, hpkt⟩
          · cases hb
        | fwd d => simp only [encodeEvent] at hb; split at hb <;> simp at hb
        | nsa d => simp only [encodeEvent] at hb; split at hb <;> simp at hb
        | _ => simp [encodeEvent] at hb
      · intro dst bytes hb
        cases e with
        | ans dst' id ty dn name data tag => simp only [encodeEvent] at hb; split at hb <;> simp at hb
        | nsa d =>
          simp only [encodeEvent] at hb
          split at hb
          · rename_i b hbq
            simp only [List.mem_singleton, BEvent.nsa.injEq] at hb
            obtain ⟨rfl, rfl⟩ := hb
            cases q? with
            | none => simp at hbq
            | some q => exact ⟨q, rfl, rfl, by simpa using hbq⟩
          · cases hb
        | fwd d => simp only [encodeEvent] at hb; split at hb <;> simp at hb
        | _ => simp [encodeEvent] at hb
      · intro dst bytes hb
        cases e with
        | ans dst' id ty dn name data tag => simp only [encodeEvent] at hb; split at hb <;> simp at hb
        | fwd d =>
          simp only [encodeEvent] at hb
          split at hb
          · rename_i b hbq
            simp only [List.mem_singleton, BEvent.fwd.injEq] at hb
            obtain ⟨rfl, rfl⟩ := hb
            cases q? with
            | none => simp at hbq
            | some q => exact ⟨q, rfl, rfl, by simpa using hbq⟩
          · cases hb
        | nsa d => simp only [encodeEvent] at hb; split at hb <;> simp at hb
        | _ => simp [encodeEvent] at hb
    · obtain ⟨hm, hrest⟩ := ih.2 pr hpr
      exact ⟨List.mem_cons_of_mem _ hm, hrest⟩

theorem mem_encodeEvents {cfg : Config} {td : WriteDns.Td} {inp : Input} {evs : List Event} {b : BEvent}
    (h : b ∈ (encodeEvents cfg td inp evs).2) : ∃ pr ∈ (encodeEventsL cfg (queryOf inp) td evs).2, b ∈ pr.2 := by
  unfold encodeEvents at h
  simp only [List.mem_flatMap] at h
  exact h

/-! ### the invariant of the process -/

/-- id and type are 16-bit, the name is legal, the type is one `handle_null_request` serves -/
def GoodKey (k : Key) : Prop := k.2.1 < 65536 ∧ LegalName k.2.2.1 ∧ TunnelType k.2.2.2

/-- static counters in range; every query held back is good -/
structure BInv (b : BSrv) : Prop where
  td : TdOk b.td
  keys : KeyInv GoodKey b.srv

/-- the datagram's question (if `read_dns` hands one on) has a legal name -/
def LegalInput : BInput → Prop
  | .dgram _ bytes => QuestionLegal bytes
  | _ => True

instance : DecidablePred LegalInput := fun i => by cases i <;> unfold LegalInput <;> infer_instance

theorem toInput_q {s : Srv} {inp : BInput} {q : Query} (h : toInput s inp = .q q) :
    q.id2 = 0 ∧ q.id < 65536 ∧ q.type < 65536 ∧ (LegalInput inp → LegalName q.name) := by
  cases inp with
  | dgram src bytes =>
    obtain ⟨h1, h2, h3, _, h5⟩ := decodeInput_q (s := s) h
    exact ⟨h1, h2, h3, h5⟩
  | tun f => cases h
  | bind b => cases h
  | tick => cases h

theorem binv_start (cfg : Config) (rnd : List Nat) : BInv (bstart cfg rnd) :=
  ⟨by unfold TdOk bstart; simp, keyInv_start _ cfg rnd⟩

/-- one byte-level iteration on a legal input: the invariant is kept and every `write_dns` goes to a good key -/
theorem binv_step {b : BSrv} (hb : BInv b) (inp : BInput) (now' : Nat) (hl : LegalInput inp) :
    BInv (biteration b inp now').1 ∧ AnsInv GoodKey (out b.srv ⟨toInput b.srv inp, now'⟩) := by
  have hk := iteration_keys GoodKey b.srv (toInput b.srv inp) now'
    (fun q hq => (toInput_q hq).1)
    (fun q hq hty => ⟨(toInput_q hq).2.1, (toInput_q hq).2.2.2 hl, hty⟩) hb.keys
  refine ⟨⟨?_, hk.2⟩, hk.1⟩
  exact (encodeEventsL_spec _ _ _ _ hb.td).1

/-! ### `query_datalen` -/

open Iodine.Common in
theorem qdScan_split : ∀ (l t : List Nat) (n : Nat), qdScan l t = some n →
    ∃ a b, l = a ++ b ∧ a ≠ [] ∧ b.length = n ∧ atBoundary b = true
  | [], _, _, h => by simp [qdScan] at h
  | _ :: _, [], _, h => by simp [qdScan] at h
  | qc :: qrest, tc :: trest, n, h => by
    unfold qdScan at h
    split at h
    · split at h
      · cases h
      · split at h
        · rename_i hb
          cases h
          exact ⟨[qc], qrest, rfl, by simp, rfl, hb⟩
        · obtain ⟨a, b, hab, _, hn, hb⟩ := qdScan_split qrest (tc :: trest) n h
          exact ⟨qc :: a, b, by rw [hab]; rfl, by simp, hn, hb⟩
    · split at h
      · split at h
        · split at h
          · rename_i hb
            cases h
            exact ⟨[qc], qrest, rfl, by simp, rfl, hb⟩
          · cases h
        · obtain ⟨a, b, hab, _, hn, hb⟩ := qdScan_split qrest trest n h
          exact ⟨qc :: a, b, by rw [hab]; rfl, by simp, hn, hb⟩
      · cases h

open Iodine.Common in
/-- the name `query_datalen` accepts is `pre ++ top` with `|pre| = domain_len`, `top` non-empty, and `pre` empty or ending
in a dot -/
theorem queryDatalen_split {q t : List Nat} {n : Nat} (h : queryDatalen q t = some n) :
    ∃ top, top ≠ [] ∧ q.drop n = top ∧ n ≤ q.length ∧ (n = 0 ∨ ∃ sub, q = sub ++ 46 :: top ∧ sub.length + 1 = n) := by
  unfold queryDatalen at h
  split at h
  · cases h
  · obtain ⟨a, b, hab, ha, hn, hb⟩ := qdScan_split _ _ _ h
    have hq : q = b.reverse ++ a.reverse := by
      have := congrArg List.reverse hab
      simpa using this
    refine ⟨a.reverse, by simpa using ha, ?_, ?_, ?_⟩
    · rw [hq, List.drop_left' (by simpa using hn)]
    · rw [hq]; simp; omega
    · rw [atBoundary_iff] at hb
      rcases hb with hb | hb
      · left; rw [← hn, hb]; rfl
      · right
        cases b with
        | nil => simp at hb
        | cons c r =>
          simp only [List.head?_cons, Option.some.injEq] at hb
          subst hb
          refine ⟨r.reverse, ?_, ?_⟩
          · rw [hq]; simp
          · rw [← hn]; simp

end Iodine.BytesL
