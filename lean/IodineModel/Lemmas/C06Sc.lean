import IodineModel.Lemmas.C06Sa
/-
C06 for whole client sessions, part 3: the tunnel phase cannot be wedged.

Under the invariant `Late` of the tunnel phase (Lemmas/CliQ2.lean: what `main()` + the handshake establish in the range C08 covers),
every host name the senders build is legal, so `dns_encode` succeeds and `send_query` really sends.  Hence: a timeout of
`client_tunnel`'s `select` always sends something (a data chunk, a ping, a raw keepalive) or ends the loop (60 s rule); a timeout
of the `select` of `handshake_lazyoff` sends the next switch request or returns into `client_tunnel`'s loop; and the thread never
parks in `handshake_lazyoff` without having sent.
-/
namespace Iodine.C06L
open Iodine Iodine.Client Iodine.Gen Iodine.CliQ

variable {L : Nat} {td : List Nat}

/-- a datagram leaves the process -/
def IsTx : CEvent → Prop
  | .query _ _ _ => True
  | .rawtx _ => True
  | _ => False

def Sends (evs : List CEvent) : Prop := ∃ e ∈ evs, IsTx e

theorem sends_append_right {a b : List CEvent} (h : Sends b) : Sends (a ++ b) := by
  obtain ⟨e, he, ht⟩ := h
  exact ⟨e, List.mem_append_right _ he, ht⟩

theorem sends_append_left {a b : List CEvent} (h : Sends a) : Sends (a ++ b) := by
  obtain ⟨e, he, ht⟩ := h
  exact ⟨e, List.mem_append_left _ he, ht⟩

theorem sendQuery_sends (c : Cli) (host : List Nat) (hm : Mid L td c) (hn : NameOk L td host) :
    Sends (sendQuery c host).evs := by
  obtain ⟨e, _⟩ := sendQueryPlain_ok (L := L) (td := td) c host hm.2 hn
  unfold sendQuery
  rw [e]
  simp only [if_true]
  exact ⟨_, List.mem_append_left _ List.mem_cons_self, trivial⟩

theorem sendPacket_sends (E : Env L td) (c : Cli) (cmd : Nat) (d : List Nat) (hm : Mid L td c)
    (hc : cmd ≠ 46 ∧ cmd ≠ 0 ∧ cmd < 256) (hd : d ≠ []) (hb : Codec.Bytes d) : Sends (sendPacket c cmd d).evs := by
  obtain ⟨_, hn, _⟩ := hsSendPacket_ok E c cmd d hm.1.td hm.1.maxlen hm.2 hc hd hb
  unfold sendPacket
  rw [hm.1.td, hm.1.maxlen]
  exact sendQuery_sends _ _ hm hn

theorem sendPing_sends (E : Env L td) (c : Cli) (hl : Late L td c) : Sends (sendPing c).evs := by
  unfold sendPing
  split
  · have hl' : Late L td { c with randSeed := (c.randSeed + 1) % 65536 } := hl.same ⟨⟨rfl, rfl, rfl, rfl, rfl⟩, rfl, rfl⟩
    exact sendPacket_sends E _ 112 _ hl'.1 (by omega) (by simp) (C02L.pingData_bytes c)
  · exact ⟨_, List.mem_cons_self, trivial⟩

theorem sendChunk_sends (E : Env L td) (c : Cli) (hl : Late L td c) : Sends (sendChunk c).evs := by
  have hb := hl.1.1
  have hlate' : Late L td (C01.chunkSent c) := by
    obtain ⟨⟨hb, ht⟩, hu⟩ := hl
    refine ⟨⟨⟨hb.td, hb.maxlen, hb.downenc, ?_, hb.pkt, hb.pktlen⟩, ht⟩, hu⟩
    show (if c.datacmc + 1 ≥ 36 then 0 else c.datacmc + 1) < 36
    split <;> omega
  have hby : Codec.Bytes (outRest c.outpkt) := by
    intro x hx
    exact hb.pkt x (List.mem_of_mem_take (List.mem_of_mem_drop hx))
  have hname : NameOk L td (C01L.chunkName c) := by
    unfold C01L.chunkName C01L.chunkBuilt
    rw [hb.td, hb.maxlen]
    exact chunkName_ok E c.dataenc _ _ rfl (chunkHeader_ok c _ hl.2 hb.cmc) hby
  show Sends (sendQuery (C01.chunkSent c) (C01L.chunkName c)).evs
  exact sendQuery_sends _ _ hlate'.1 hname

theorem afterSend_sends (s : Sent) (pre : List CEvent) (k : Resume) (hs : Sends s.evs) : Sends (afterSend s pre k).2.1 := by
  unfold afterSend
  split <;> exact sends_append_right hs

theorem timeoutBranch_sends (E : Env L td) (c : Cli) (hl : Late L td c) : Sends (timeoutBranch c).2.1 := by
  unfold timeoutBranch
  split
  · split
    · exact afterSend_sends _ _ _ (sendChunk_sends E _ (hl.sameW ⟨rfl, rfl, rfl, rfl, rfl, Or.inl rfl, rfl, rfl⟩))
    · exact afterSend_sends _ _ _ (sendPing_sends E _ (hl.sameW ⟨rfl, rfl, rfl, rfl, rfl, Or.inr rfl, rfl, rfl⟩))
  · exact afterSend_sends _ _ _ (sendPing_sends E _ hl)

theorem settle_evs (r : Cli × List CEvent × Stop) : (settle r).2.1 = r.2.1 := by
  unfold settle
  split
  · unfold loopTop; split <;> rfl
  · rfl

/-- a timeout of `client_tunnel`'s `select`: the loop ends (60 s without downstream data) or something is sent -/
theorem tunnelStep_tick (E : Env L td) (c : Cli) (hl : Late L td c) :
    (tunnelStep c .tick).1.ph = .idle ∨ Sends (tunnelStep c .tick).2.1 := by
  have hl1 : Late L td (afterSelect (fire c (selectOf c) .tick).1) :=
    hl.sameW ((sameW_fire c _ .tick).trans (sameW_afterSelect _))
  unfold tunnelStep
  simp only
  split
  · exact Or.inl rfl
  · right
    simp only [fire]
    rw [settle_evs]
    exact timeoutBranch_sends E _ hl1

/-- the thread parks in `handshake_lazyoff` only behind a `send_lazy_switch` -/
theorem settle_ph (r : Cli × List CEvent × Stop) :
    (settle r).1.ph = .idle ∨ (settle r).1.ph = .tunnel ∨ (∃ k, r.2.2 = .park k) := by
  unfold settle
  split
  · unfold loopTop
    split
    · exact Or.inr (Or.inl rfl)
    · exact Or.inl rfl
  · rename_i k hk
    exact Or.inr (Or.inr ⟨k, hk⟩)

theorem lazyoffIter_parked_sends (E : Env L td) (c : Cli) (i : Nat) (hm : Mid L td c) (hp : (lazyoffIter c i).parked = true) :
    Sends (lazyoffIter c i).evs := by
  unfold lazyoffIter at hp ⊢
  split
  · have hch : ∀ ch ∈ [111, b32_5to8 c.userid, if c.lazymode then 108 else 105], ch ≠ 46 ∧ ch ≠ 0 ∧ ch < 256 := by
      intro ch h
      simp only [List.mem_cons, List.not_mem_nil, or_false] at h
      rcases h with rfl | rfl | rfl
      · omega
      · exact C02L.b32_5to8_char _
      · split <;> omega
    obtain ⟨e, _⟩ := sendHandshakeQuery_ok E c [111, b32_5to8 c.userid, if c.lazymode then 108 else 105] hm.1.td hm.2
      (by simp) (by simp) hch
    show Sends (sendLazySwitch c).2
    unfold sendLazySwitch
    rw [e]
    exact ⟨_, List.mem_cons_self, trivial⟩
  · rename_i hn
    rw [if_neg hn] at hp
    cases hp

/-! ### the thread parks in `handshake_lazyoff` only behind a query that was really sent (no hypothesis needed) -/

/-- a sender that parked has sent -/
def PS (s : Sent) : Prop := s.parked = true → Sends s.evs

theorem sendQuery_ps (c : Cli) (h : List Nat) : PS (sendQuery c h) := by
  intro hp
  unfold sendQuery at hp ⊢
  simp only at hp ⊢
  split
  · rename_i hr
    apply sends_append_left
    unfold sendQueryPlain at hr ⊢
    simp only at hr ⊢
    split
    · rename_i hw
      simp [hw] at hr
    · rename_i ev hw
      obtain ⟨id, ty, n, rfl⟩ := wireQuery_query hw
      exact ⟨_, List.mem_cons_self, trivial⟩
  · rename_i hr
    rw [if_neg hr] at hp
    cases hp

theorem sendPing_ps (c : Cli) : PS (sendPing c) := by
  unfold sendPing
  split
  · exact sendQuery_ps _ _
  · intro hp; cases hp

theorem sendChunk_ps (c : Cli) : PS (sendChunk c) := sendQuery_ps _ _

/-- a handler that parked has sent -/
def PG (r : Cli × List CEvent × Stop) : Prop := ∀ k, r.2.2 = .park k → Sends r.2.1

theorem pg_ret (c : Cli) (evs : List CEvent) (rv : Int) : PG (c, evs, .ret rv) := by
  intro k h; cases h

theorem afterSend_pg (s : Sent) (pre : List CEvent) (k : Resume) (hs : PS s) : PG (afterSend s pre k) := by
  unfold afterSend
  split
  · rename_i hp
    intro _ _
    exact sends_append_right (hs hp)
  · exact pg_ret _ _ _

theorem timeoutBranch_pg (c : Cli) : PG (timeoutBranch c) := by
  unfold timeoutBranch
  split
  · split
    · exact afterSend_pg _ _ _ (sendChunk_ps _)
    · exact afterSend_pg _ _ _ (sendPing_ps _)
  · exact afterSend_pg _ _ _ (sendPing_ps _)

theorem tunnelTun_pg (c : Cli) (frame : List Nat) : PG (tunnelTun c frame) := by
  unfold tunnelTun
  simp only
  split
  · exact pg_ret _ _ _
  · split
    · exact pg_ret _ _ _
    · split
      · exact afterSend_pg _ _ _ (sendChunk_ps _)
      · exact pg_ret _ _ _

theorem finalPing_pg (c : Cli) (evs : List CEvent) (sn : Bool) (read : Int) : PG (finalPing c evs sn read) := by
  unfold finalPing
  split
  · exact afterSend_pg _ _ _ (sendPing_ps _)
  · exact pg_ret _ _ _

theorem upstream_pg (c : Cli) (h : Hdr) (evs : List CEvent) (sn : Bool) (read : Int) : PG (upstream c h evs sn read) := by
  unfold upstream
  split
  · simp only
    split
    · exact finalPing_pg _ _ _ _
    · exact afterSend_pg _ _ _ (sendChunk_ps _)
  · exact finalPing_pg _ _ _ _

theorem tunnelDns_pg (c : Cli) (rq : Rq) : PG (tunnelDns c rq) := by
  unfold tunnelDns
  split
  · exact pg_ret _ _ _
  · split
    · exact pg_ret _ _ _
    · split
      · exact pg_ret _ _ _
      · simp only
        split
        · split
          · exact afterSend_pg _ _ _ (sendPing_ps _)
          · exact pg_ret _ _ _
        · exact upstream_pg _ _ _ _ _

theorem tunnelDnsInput_pg (c : Cli) (inp : CInput) : PG (tunnelDnsInput c inp) := by
  unfold tunnelDnsInput
  split
  · split <;> exact tunnelDns_pg _ _
  · split <;> exact pg_ret _ _ _

/-- where a handler leaves the thread: at the top of the loop, out of it, or parked behind a send -/
theorem settle_pg (r : Cli × List CEvent × Stop) (h : PG r) :
    (settle r).1.ph = .idle ∨ (settle r).1.ph = .tunnel ∨ Sends (settle r).2.1 := by
  rcases settle_ph r with h1 | h1 | ⟨k, hk⟩
  · exact Or.inl h1
  · exact Or.inr (Or.inl h1)
  · right; right
    rw [settle_evs]
    exact h k hk

/-- one turn of `client_tunnel`'s loop, ANY input: the thread is in `client_tunnel`'s `select` again, or has left the loop, or
something was sent -/
theorem tunnelStep_phase (c : Cli) (inp : CInput) :
    (tunnelStep c inp).1.ph = .idle ∨ (tunnelStep c inp).1.ph = .tunnel ∨ Sends (tunnelStep c inp).2.1 := by
  unfold tunnelStep
  simp only
  split
  · exact Or.inl rfl
  · split
    · exact settle_pg _ (timeoutBranch_pg _)
    · rcases settle_pg _ (tunnelTun_pg (rawKeepalive (afterSelect (fire c (selectOf c) inp).1)).1 _) with h | h | h
      · exact Or.inl h
      · exact Or.inr (Or.inl h)
      · exact Or.inr (Or.inr (sends_append_right h))
    · rcases settle_pg _ (tunnelDnsInput_pg (rawKeepalive (afterSelect (fire c (selectOf c) inp).1)).1 _) with h | h | h
      · exact Or.inl h
      · exact Or.inr (Or.inl h)
      · exact Or.inr (Or.inr (sends_append_right h))

theorem loopTop_ph (c : Cli) (evs : List CEvent) : (loopTop c evs).1.ph = .idle ∨ (loopTop c evs).1.ph = .tunnel := by
  unfold loopTop
  split
  · exact Or.inr rfl
  · exact Or.inl rfl

/-- a timeout of the `select` of `handshake_lazyoff`: the next switch request is sent, or `handshake_lazyoff` returns into
`client_tunnel`'s loop -/
theorem lazyoffStep_tick (E : Env L td) (c : Cli) (i : Nat) (k : Resume) (hl : Late L td c) :
    (lazyoffStep c i k .tick).1.ph = .idle ∨ (lazyoffStep c i k .tick).1.ph = .tunnel ∨ Sends (lazyoffStep c i k .tick).2.1 := by
  have hl0 : Late L td (advanceClock c waitSel) := hl.sameW (sameW_fire c waitSel .tick)
  have e : lazyoffStep c i k .tick = lazyoffNext (advanceClock c waitSel) i k := by
    unfold lazyoffStep
    simp [fire, waitdnsRound, lazyoffGot]
  rw [e]
  unfold lazyoffNext
  simp only
  split
  · rename_i hp
    exact Or.inr (Or.inr (lazyoffIter_parked_sends E _ _ hl0.1 hp))
  · unfold lazyoffReturn
    rcases loopTop_ph (resume (lazyoffIter (advanceClock c waitSel) (i + 1)).c k).1 (lazyoffIter (advanceClock c waitSel) (i + 1)).evs with h | h
    · exact Or.inl h
    · exact Or.inr (Or.inl h)

/-- how many timeouts the thread can let pass without sending -/
def need : Phase → Nat
  | .idle => 0
  | .tunnel => 1
  | .lazyoff _ _ => 2

def tickOf : CInput → Nat
  | .tick => 1
  | _ => 0

theorem need_le_two (p : Phase) : need p ≤ 2 := by cases p <;> simp [need]

/-- **the step lemma of "no wedge"**: a step sends, or the budget of silent timeouts does not grow — and shrinks if the step was a
timeout -/
theorem cstep_need (E : Env L td) (s : CState) (inp : CInput) (hl : Late L td s.c) :
    Sends (cstep s inp).2.1 ∨ need (cstep s inp).1.ph ≤ need s.ph - tickOf inp := by
  obtain ⟨c, ph⟩ := s
  cases ph with
  | idle => right; simp [cstep, need]
  | tunnel =>
    show Sends (tunnelStep c inp).2.1 ∨ need (tunnelStep c inp).1.ph ≤ 1 - tickOf inp
    cases inp with
    | tick =>
      rcases tunnelStep_tick E c hl with h | h
      · right; rw [h]; simp [need]
      · exact Or.inl h
    | rq q =>
      rcases tunnelStep_phase c (.rq q) with h | h | h
      · right; rw [h]; simp [need]
      · right; rw [h]; simp [need, tickOf]
      · exact Or.inl h
    | rawans b =>
      rcases tunnelStep_phase c (.rawans b) with h | h | h
      · right; rw [h]; simp [need]
      · right; rw [h]; simp [need, tickOf]
      · exact Or.inl h
    | tun f =>
      rcases tunnelStep_phase c (.tun f) with h | h | h
      · right; rw [h]; simp [need]
      · right; rw [h]; simp [need, tickOf]
      · exact Or.inl h
  | lazyoff i k =>
    show Sends (lazyoffStep c i k inp).2.1 ∨ need (lazyoffStep c i k inp).1.ph ≤ 2 - tickOf inp
    cases inp with
    | tick =>
      rcases lazyoffStep_tick E c i k hl with h | h | h
      · right; rw [h]; simp [need]
      · right; rw [h]; simp [need, tickOf]
      · exact Or.inl h
    | rq q => right; exact need_le_two _
    | rawans b => right; exact need_le_two _
    | tun f => right; exact need_le_two _

end Iodine.C06L
