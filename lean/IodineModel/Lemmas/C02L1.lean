import IodineModel.Lemmas.C02v10
/-
C02 / lazy mode, upstream — client side, part 1: `send_query` with its answer counting (`sendQueryCount`) when the
"too few answers" alarm does not fire, `send_chunk` in lazy mode, and `tunnel_dns` on a dataless answer to a query that is
not the most recent one.
-/
namespace Iodine.C02L
open Iodine Iodine.Gen Iodine.World

/-! ### the answer counting of `send_query` -/

/-- the invariant on `send_query_sendcnt` / `send_query_recvcnt`: not counting (`< 0` or `≥ 100`), or at most `d` more
queries sent than answers received -/
def CntOk (c : Client.Cli) (d : Nat) : Prop :=
  c.sendcnt < 0 ∨ 100 ≤ c.sendcnt ∨ c.sendcnt ≤ (c.recvcnt : Int) + (d : Int)

/-- what the block after `sendto` in `send_query` does when the alarm stays silent: it counts -/
def bumpCnt (c : Client.Cli) : Client.Cli :=
  if 0 ≤ c.sendcnt ∧ c.sendcnt < 100 ∧ c.lazymode then { c with sendcnt := c.sendcnt + 1 } else c

theorem bumpCnt_eta (c : Client.Cli) : bumpCnt c = { c with sendcnt := (bumpCnt c).sendcnt } := by
  unfold bumpCnt
  split <;> rfl

theorem bumpCnt_cnt (c : Client.Cli) (h : CntOk c 1) : CntOk (bumpCnt c) 2 := by
  unfold bumpCnt
  split
  · unfold CntOk at *
    simp only
    omega
  · unfold CntOk at *
    omega

theorem sendQueryCount_ok (c : Client.Cli) (h : CntOk c 1) : Client.sendQueryCount c = ⟨bumpCnt c, [], false⟩ := by
  unfold Client.sendQueryCount bumpCnt
  split
  · rename_i hc
    have h1 : ¬ (c.sendcnt + 1 > 6 ∧ c.recvcnt = 0) := by
      unfold CntOk at h; omega
    have h2 : ¬ (c.sendcnt + 1 > 10 ∧ 4 * (c.recvcnt : Int) < c.sendcnt + 1) := by
      unfold CntOk at h; omega
    have ht : Client.tooFewAnswers { c with sendcnt := c.sendcnt + 1 } = false := by
      unfold Client.tooFewAnswers
      simp only [Bool.or_eq_false_iff, Bool.and_eq_false_iff, decide_eq_false_iff_not, beq_eq_false_iff_ne]
      constructor
      · by_cases h3 : c.sendcnt + 1 > 6
        · right; intro h4; exact h1 ⟨h3, h4⟩
        · left; exact h3
      · by_cases h3 : c.sendcnt + 1 > 10
        · right; intro h4; exact h2 ⟨h3, h4⟩
        · left; exact h3
    simp only [ht, Bool.false_eq_true, if_false]
  · rfl

theorem rotateChunkid_cnt (c : Client.Cli) (d : Nat) (h : CntOk c d) : CntOk (Client.rotateChunkid c) d := by
  unfold CntOk at *
  unfold Client.rotateChunkid
  exact h

/-- `send_query` never keeps the id -/
theorem rotateChunkid_ne (c : Client.Cli) (h : c.chunkid < 65536) : (Client.rotateChunkid c).chunkid ≠ c.chunkid := by
  unfold Client.rotateChunkid
  simp only
  split <;> omega

/-- `send_query` of a legal name while the answer counting is in balance: new id, one query event, the send is counted,
no parking (in immediate mode `bumpCnt` is the identity: this is `sendQuery_imm`) -/
theorem sendQuery_cnt (c : Client.Cli) (host : List Nat) (hcnt : CntOk c 1) (hqt : c.doQtype < 65536)
    (hleg : C10.LegalName host) :
    Client.sendQuery c host =
      ⟨bumpCnt (Client.rotateChunkid c), [.query (Client.rotateChunkid c).chunkid c.doQtype host], false⟩ := by
  have hdq : (Client.rotateChunkid c).doQtype = c.doQtype := by simp [Client.rotateChunkid]
  have hw : Client.wireQuery (Client.rotateChunkid c).chunkid (Client.rotateChunkid c).doQtype
      (Client.rotateChunkid c).edns0 host = some (.query (Client.rotateChunkid c).chunkid c.doQtype host) := by
    rw [hdq]
    exact wireQuery_legal _ _ _ _ (Client.rotateChunkid_lt c) hqt hleg
  have hp : Client.sendQueryPlain c host =
      ((Client.rotateChunkid c, [.query (Client.rotateChunkid c).chunkid c.doQtype host]), true) := by
    unfold Client.sendQueryPlain
    simp only [hw]
  unfold Client.sendQuery
  simp only [hp, if_true, sendQueryCount_ok _ (rotateChunkid_cnt c 1 hcnt), List.append_nil]

/-- **`send_chunk` in lazy mode** (more precisely: whenever the answer counting is in balance): as in immediate mode, and
the send is counted. -/
theorem sendChunk_lazy (c : Client.Cli) (L : Nat) (td : List Nat) (u : Nat)
    (hcnt : CntOk c 1) (hL : c.hostnameMaxlen = (L : Int)) (htd : c.topdomain = td)
    (S : UpSetting c.dataenc.codec L td) (hu : u < 16) (huc : c.useridChar = hexLower u) (hcmc : c.datacmc < 36)
    (hqt : c.doQtype < 65536)
    (hne : Client.outRest c.outpkt ≠ []) (hby : Codec.Bytes (Client.outRest c.outpkt)) :
    let b := Client.buildHostname c.dataenc.codec c.hostnameMaxlen 4091 0 c.topdomain (Client.outRest c.outpkt)
    let c2 : Client.Cli := { c with outpkt := { c.outpkt with sentlen := b.used } }
    let last : Bool := b.used == c.outpkt.len - c.outpkt.offset
    let c1 : Client.Cli := { c2 with datacmc := if c.datacmc + 1 ≥ 36 then 0 else c.datacmc + 1 }
    Client.sendChunk c =
      ⟨bumpCnt (Client.rotateChunkid c1),
       [.query (Client.rotateChunkid c1).chunkid c.doQtype (Client.chunkHeader c2 last ++ b.name)], false⟩ := by
  subst htd
  intro b c2 last c1
  have hleg := (up_hop5 S (Client.chunkHeader c2 last) (Client.outRest c.outpkt) rfl
    (chunkHeader_chars c2 last u hu huc hcmc) hne hby).1
  rw [← hL] at hleg
  have h0 : Client.sendChunk c = Client.sendQuery c1 (Client.chunkHeader c2 last ++ b.name) := rfl
  rw [h0]
  exact sendQuery_cnt c1 _ hcnt hqt hleg

/-! ### a dataless answer to a query that is not the most recent one -/

/-- `tunnel_dns` on a two-byte (dataless) answer to one of the two queries BEFORE the most recent one (so that the
lazy-mode hint "we shouldn't get much replies to our most-recent query" does not apply) that announces no new
downstream packet, when no ping is due: straight to the upstream-ack code.  `rq.name0` may be the user id character or
the `p` of a ping. -/
theorem tunnelDns_dataless_lazy (c : Client.Cli) (rq : Client.Rq) (hn : Client.notData c rq.name0 = false) (hrv : rq.rv = 2)
    (hid : Client.recentId c rq.id = true) (hsps : c.sendPingSoon = 0) (hne : rq.id ≠ c.chunkid)
    (hdn : (Client.decodeHdr rq.buf).dnSeq = c.inpkt.seqno) :
    Client.tunnelDns c rq = Client.upstream (ackBook c) (Client.decodeHdr rq.buf) [] false 2 := by
  have hc : { c with sendPingSoon := 0 } = c := by
    cases c; simp_all
  have hrid : Client.recentId (Client.countRecv c) rq.id = true := hid
  unfold Client.tunnelDns
  simp only [hn, Bool.false_eq_true, if_false, hrv, hsps, bne_self_eq_false, hc]
  have h1 : ¬ ((2 : Int) < 2) := by omega
  have h2 : ¬ ((2 : Int) = 5 ∧ rq.buf.take 5 = Client.ascii "BADIP") := by omega
  rw [if_neg h1, if_neg h2]
  have hd : Client.dupeSeqno c (Client.decodeHdr rq.buf) 2 = (c, 2) := by
    unfold Client.dupeSeqno
    rw [if_neg (by omega)]
  simp only [hd, hrid, Bool.not_true, Bool.false_eq_true, if_false]
  have hl : Client.lazyHint { Client.countRecv c with lastdownstreamtime := (Client.countRecv c).now } rq.id =
      { Client.countRecv c with lastdownstreamtime := (Client.countRecv c).now } := by
    unfold Client.lazyHint
    rw [if_neg (by intro hh; exact hne hh.1)]
  rw [hl]
  have hda : Client.datalessAdopt { Client.countRecv c with lastdownstreamtime := (Client.countRecv c).now }
      (Client.decodeHdr rq.buf) 2 = { Client.countRecv c with lastdownstreamtime := (Client.countRecv c).now } := by
    unfold Client.datalessAdopt
    rw [if_neg (by simp [Client.countRecv, hdn])]
  rw [hda]
  have hds : Client.downstream { Client.countRecv c with lastdownstreamtime := (Client.countRecv c).now }
      (Client.decodeHdr rq.buf) rq.buf 2 false =
      ({ Client.countRecv c with lastdownstreamtime := (Client.countRecv c).now }, [], false) := by
    unfold Client.downstream
    rw [if_neg (by omega)]
  rw [hds]
  rfl

/-- an accepted answer is counted -/
theorem ackBook_cnt (c : Client.Cli) (h : CntOk c 2) : CntOk (ackBook c) 1 := by
  unfold CntOk at *
  show c.sendcnt < 0 ∨ 100 ≤ c.sendcnt ∨ c.sendcnt ≤ ((c.recvcnt + 1 : Nat) : Int) + 1
  omega

end Iodine.C02L
