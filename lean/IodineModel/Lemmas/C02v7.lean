import IodineModel.Lemmas.C02v6
import IodineModel.Lemmas.C02h
/-
Client side of an upstream transfer in immediate mode: the query `send_chunk` emits from a state that is ready to send
fragment `f`, and what the server reads out of it.
-/
namespace Iodine.C02L
open Iodine Iodine.Gen Iodine.World

/-- a client state from which `send_chunk` is about to send fragment `f` (offset `o`) of the compressed packet `out` -/
structure CReady (P : Par) (c : Client.Cli) (out : List Nat) (o f : Nat) : Prop where
  stat : CStat P c
  data : c.outpkt.data = out
  len : c.outpkt.len = out.length
  off : c.outpkt.offset = o
  frag : c.outpkt.fragment = (f : Int)
  ho : o < out.length
  hf : f < 16
  bytes : Codec.Bytes out

/-- the query as the server's `read_dns` delivers it -/
def upQuery (id ty : Nat) (name : List Nat) : Server.Query :=
  { name := name, type := ty, id := id, from_ := clientAddr, id2 := 0, from2 := Server.Addr.zero, dest := serverAddr }

theorem upQuery_id (id ty : Nat) (name : List Nat) : (upQuery id ty name).id = id := rfl

theorem srvInput_query (id ty : Nat) (name : List Nat) : srvInput (.query id ty name) = .q (upQuery id ty name) := rfl

theorem parseUpHdr_congr (a b : List Nat) (h : ∀ i, i < 5 → a.getD i 0 = b.getD i 0) : parseUpHdr a = parseUpHdr b := by
  unfold parseUpHdr
  rw [h 1 (by omega), h 2 (by omega), h 3 (by omega)]

theorem outRest_ready {P : Par} {c : Client.Cli} {out : List Nat} {o f : Nat} (h : CReady P c out o f) :
    Client.outRest c.outpkt = out.drop o := by
  unfold Client.outRest
  rw [h.data, h.len, h.off, List.take_length]

/-- the number of bytes the next fragment will carry -/
def fragLen (P : Par) (d : List Nat) : Nat := (Client.buildHostname P.ec.codec (P.L : Int) 4091 0 P.td d).used

/-- the same, read off the client state -/
def cFragLen (c : Client.Cli) : Nat :=
  (Client.buildHostname c.dataenc.codec c.hostnameMaxlen 4091 0 c.topdomain (Client.outRest c.outpkt)).used

theorem cFragLen_ready {P : Par} {c : Client.Cli} {out : List Nat} {o f : Nat} (h : CReady P c out o f) :
    cFragLen c = fragLen P (out.drop o) := by
  unfold cFragLen fragLen
  rw [outRest_ready h, h.stat.enc, h.stat.L, h.stat.td]

/-- the state `send_chunk` leaves behind (before `send_ping_soon = 0`) -/
def sentState (c : Client.Cli) : Client.Cli :=
  Client.rotateChunkid
    { c with outpkt := { c.outpkt with sentlen := cFragLen c },
             datacmc := if c.datacmc + 1 ≥ 36 then 0 else c.datacmc + 1 }

theorem send_ready {P : Par} (hP : P.Ok) {c : Client.Cli} {out : List Nat} {o f : Nat} (h : CReady P c out o f) :
    ∃ name,
      Client.sendChunk c = ⟨sentState c, [.query (sentState c).chunkid P.ty name], false⟩ ∧
      1 ≤ fragLen P (out.drop o) ∧ o + fragLen P (out.drop o) ≤ out.length ∧
      UpQ P (upQuery (sentState c).chunkid P.ty name)
        ⟨c.outpkt.seqno.toNat, f, c.inpkt.seqno, c.inpkt.fragment, fragLen P (out.drop o) == out.length - o⟩
        c.datacmc ((out.drop o).take (fragLen P (out.drop o))) := by
  have hS : UpSetting c.dataenc.codec P.L P.td := by rw [h.stat.enc]; exact hP.set
  have hrest := outRest_ready h
  have hne : out.drop o ≠ [] := by
    intro hc
    have := congrArg List.length hc
    simp at this
    have := h.ho
    omega
  have hby : Codec.Bytes (out.drop o) := fun b hb => h.bytes b (List.mem_of_mem_drop hb)
  have hqt : c.doQtype < 65536 := by rw [h.stat.ty]; exact tunnelType_lt hP.tty
  have hsend := sendChunk_imm c P.L P.td P.u h.stat.imm h.stat.L h.stat.td hS hP.hu h.stat.uch h.stat.cmc hqt
    (by rw [hrest]; exact hne) (by rw [hrest]; exact hby)
  have hfl := cFragLen_ready h
  -- the header and the hop facts
  generalize hc2 : ({ c with outpkt := { c.outpkt with sentlen := cFragLen c } } : Client.Cli) = c2
  generalize hlast : (cFragLen c == c.outpkt.len - c.outpkt.offset) = last
  have hlast' : (fragLen P (out.drop o) == out.length - o) = last := by rw [← hlast, hfl, h.len, h.off]
  have hhop := up_hop5 hP.set (Client.chunkHeader c2 last) (out.drop o) (chunkHeader_len c2 last)
    (chunkHeader_chars c2 last P.u hP.hu (by subst hc2; exact h.stat.uch) (by subst hc2; exact h.stat.cmc)) hne hby
  obtain ⟨_, hu1, hu2, dlen, hq, h6, _, hun, hget, hg0, hg4, hl5⟩ := hhop
  have hbn : (Client.buildHostname P.ec.codec (P.L : Int) 4091 0 P.td (out.drop o)) =
      (Client.buildHostname c.dataenc.codec c.hostnameMaxlen 4091 0 c.topdomain (Client.outRest c.outpkt)) := by
    rw [hrest, h.stat.enc, h.stat.L, h.stat.td]
  refine ⟨Client.chunkHeader c2 last ++ (Client.buildHostname P.ec.codec (P.L : Int) 4091 0 P.td (out.drop o)).name, ?_, ?_, ?_, ?_⟩
  · have h1 : Client.sendChunk c = ⟨sentState c, [.query (sentState c).chunkid c.doQtype
        (Client.chunkHeader c2 last ++ (Client.buildHostname P.ec.codec (P.L : Int) 4091 0 P.td (out.drop o)).name)], false⟩ := by
      rw [hsend, hbn]
      subst hc2; subst hlast
      rfl
    rw [h.stat.ty] at h1
    exact h1
  · exact hu1
  · have : (out.drop o).length = out.length - o := List.length_drop
    have hu2' : fragLen P (out.drop o) ≤ (out.drop o).length := hu2
    rw [this] at hu2'
    have := h.ho
    omega
  · rw [hlast']
    refine ⟨rfl, rfl, ?_, rfl, ?_, ?_, hl5, dlen, hq, h6, ?_, ?_⟩
    · rw [upQuery_id]
      unfold sentState
      exact Client.rotateChunkid_ne_zero _
    · show (Client.chunkHeader c2 last ++ _).getD 0 0 = hexLower P.u
      rw [hg0, chunkHeader_getD0]; subst hc2; exact h.stat.uch
    · show (Client.chunkHeader c2 last ++ _).getD 4 0 = cmcChar c.datacmc
      rw [hg4, chunkHeader_getD4]; subst hc2; rfl
    · show parseUpHdr ((Client.chunkHeader c2 last ++ _).take (min dlen 512)) = _
      rw [parseUpHdr_congr _ (Client.chunkHeader c2 last ++ []) (by intro i hi; rw [hget i hi, List.append_nil])]
      rw [parseUpHdr_chunkHeader c2 last [] (by subst hc2; exact h.stat.oseq)
        (by subst hc2; show 0 ≤ c.outpkt.fragment ∧ c.outpkt.fragment < 16; rw [h.frag]; have := h.hf; omega)
        (by subst hc2; exact h.stat.iseq) (by subst hc2; exact h.stat.ifrag)]
      subst hc2
      simp only [h.frag, Int.toNat_natCast]
    · show Encoding.unpackData P.ec.codec 65536 (((Client.chunkHeader c2 last ++ _).take (min dlen 512)).drop 5) = _
      rw [hun]
      rfl

end Iodine.C02L
