import IodineModel.Lemmas.SrvC15e
import IodineModel.Lemmas.Users
/-
Helper lemmas for property C15, part f: the handlers and the loop are simulated by the fragment-numbering
monitor (part (B)).
-/
namespace Iodine.C15L
open Iodine Iodine.Server Iodine.Gen

/-- the exemption-free instance of the invariant -/
abbrev W0 : Nat → Prop := fun _ => False

theorem g_mono {W W' : Nat → Prop} {m : Nat → MSt} {s : Srv} (h : G W m s) (hw : ∀ v, W v → W' v) : G W' m s := by
  intro v
  obtain ⟨a, b, c⟩ := h v
  exact ⟨a, b.imp (hw v) id, c⟩

theorem findUserByIp_active (s : Srv) (ip u : Nat) (h : findUserByIp s ip = some u) :
    (getUser s u).active = true := by
  unfold findUserByIp Users.findUserByIp at h
  obtain ⟨k, hk, hlt, hp, _⟩ := (Users.findUserByIpFrom_some s.now ip (s.users.map toSlot) 0 u).1 h
  have hu : u = k := by omega
  subst hu
  have hlt' : u < s.users.length := by simpa using hlt
  have h1 : ((s.users.map toSlot)[u]).active = true := hp.1
  rw [List.getElem_map] at h1
  unfold getUser
  rw [List.getD_eq_getElem?_getD, List.getElem?_eq_getElem hlt']
  exact h1

theorem compress_length (f : List Nat) : (compress f).length = f.length + 1 := rfl

theorem quiet_sendRaw (isV : Bool) (b : List Nat) (n u c : Nat) (q : Query) : Quiet isV [sendRaw b n u c q] :=
  quiet_single (fun _ => rfl) (by unfold sendRaw; not_chunk)

theorem sim_tunnelTun (isV : Bool) (W : Nat → Prop) (s : Srv) (frame : List Nat) :
    Sim isV W s (tunnelTun s frame) := by
  unfold tunnelTun
  apply ite_ind
  · intro _; exact sim_refl isV W s
  intro _; apply ite_ind
  · intro _; exact sim_refl isV W s
  intro _
  split
  · exact sim_refl isV W s
  · rename_i u hu
    extract_lets out x
    intro m hG
    have hf : 2 ≤ (getUser s u).fragsize := (hG u).wf.act (findUserByIp_active s _ u hu)
    revert m hG
    show Sim isV W s _
    apply ite_ind
    · intro _; apply ite_ind
      · intro _
        exact sim_quiet (stay_saveToOutpacketq W s u out out.length hf (by rw [compress_length]; omega) (Nat.le_refl _))
          (quiet_nil isV)
      · intro hl
        exact (sim_sendWaiting isV W _ u).pre
          (stay_startNewOutpacket W s u out out.length (Nat.eq_zero_of_not_pos hl) hf (by rw [compress_length]; omega) (Nat.le_refl _))
    · intro _
      exact sim_quiet (Stay.refl W s) (quiet_sendRaw isV _ _ _ _ _)

theorem sim_deliverToUser (isV : Bool) (W : Nat → Prop) (s : Srv) (t : Nat) (d : List Nat) (n : Nat)
    (hf : 2 ≤ (getUser s t).fragsize) (h1 : 1 ≤ n) (h2 : n ≤ d.length) : Sim isV W s (deliverToUser s t d n) := by
  unfold deliverToUser
  extract_lets y
  apply ite_ind
  · intro _; apply ite_ind
    · intro hl
      exact (sim_sendWaiting isV W _ t).pre (stay_startNewOutpacket W s t d n hl hf h1 h2)
    · intro _
      exact sim_quiet (stay_saveToOutpacketq W s t d n hf h1 h2) (quiet_nil isV)
  · intro _
    exact sim_quiet (Stay.refl W s) (quiet_sendRaw isV _ _ _ _ _)


theorem uncompress_some_pos (d : List Nat) (cap : Nat) (out : List Nat) (h : uncompress d cap = some out) :
    1 ≤ d.length := by
  cases d with
  | nil => simp [uncompress] at h
  | cons a d => simp

theorem sm_zero (w : Prop) (ip : Nat) : SM w none (Session.zero ip) := by
  refine ⟨⟨?_, ?_, ?_, ?_, ?_, ?_, ?_, ?_, ?_, ?_, ?_, ?_, ?_⟩, Or.inr ?_, ⟨?_, ?_, ?_⟩⟩
  · exact Nat.le_refl 0
  · intro h; exact absurd rfl h
  · exact Nat.zero_le _
  · intro h; exact absurd rfl h
  · intro h; cases h
  · intro h; exact absurd rfl h
  · exact Nat.zero_le _
  · intro pk hpk
    simp only [Session.zero, List.mem_replicate] at hpk
    rw [hpk.2]; exact Nat.le_refl _
  · rfl
  · exact Nat.zero_lt_succ 3
  · exact Nat.zero_le 4
  · intro h; exact absurd rfl h
  · intro i hi; exact absurd hi (Nat.not_lt_zero _)
  · exact Nat.le_refl 0
  · intro _; left; rfl
  · intro h; exact absurd rfl h
  · intro h; exact absurd rfl h

/-- `handle_full_packet` re-establishes `In2` for its slot -/
theorem sim_handleFullPacket (isV : Bool) (W : Nat → Prop) (s : Srv) (u : Nat) (m : Nat → MSt) (hG : G W m s) :
    ∃ m', runMon isV m (handleFullPacket s u).2 = some m' ∧
      G (fun v => W v ∧ v ≠ u) m' (handleFullPacket s u).1 ∧ AllChunkOK (handleFullPacket s u).2 := by
  unfold handleFullPacket
  extract_lets x r
  have hr : ∃ m', runMon isV m r.2 = some m' ∧ G W m' r.1 ∧ AllChunkOK r.2 := by
    unfold r
    split
    · rename_i out hout
      have hpos := uncompress_some_pos _ _ _ hout
      have hin : x.inpacket.len ≤ x.inpacket.data.length := (hG u).wf.inlen
      have h1 : 1 ≤ x.inpacket.len := by
        rw [List.length_take] at hpos
        omega
      apply ite_ind (P := fun r : Res => ∃ m', runMon isV m r.2 = some m' ∧ G W m' r.1 ∧ AllChunkOK r.2)
      · intro _
        split
        · exact sim_quiet (Stay.refl W s) (quiet_single (fun _ => rfl) (by unfold writeTun; not_chunk)) m hG
        · rename_i t ht
          have hf : 2 ≤ (getUser s t).fragsize := (hG t).wf.act (findUserByIp_active s _ t ht)
          exact sim_deliverToUser isV W s t _ _ hf h1 hin m hG
      · intro _; exact sim_refl isV W s m hG
    · exact sim_refl isV W s m hG
  clear_value r
  obtain ⟨m', hrun, hG', hck⟩ := hr
  refine ⟨m', hrun, fun v => ?_, hck⟩
  by_cases hv : v = u
  · subst hv
    by_cases hlt : v < r.1.users.length
    · rw [getUser_setUser_self _ _ _ hlt]
      obtain ⟨⟨a1, a2, a3, a4, a5, a6, a7, a8, a9, a10, a11, a12, a13⟩, b, ⟨c1, c2, c3⟩⟩ := hG' v
      refine ⟨⟨a1, a2, a3, a4, a5, a6, Nat.zero_le _, a8, a9, a10, a11, a12, a13⟩, Or.inr (Nat.le_refl 0), ⟨c1, c2, c3⟩⟩
    · rw [getUser_setUser, if_neg (fun h => hlt h.2)]
      obtain ⟨a, b, c⟩ := hG' v
      refine ⟨a, Or.inr ?_, c⟩
      rw [getUser_oob _ _ hlt]
      exact Nat.le_refl 0
  · rw [getUser_setUser_ne _ _ _ _ hv]
    obtain ⟨a, b, c⟩ := hG' v
    exact ⟨a, b.imp (fun h => ⟨h, hv⟩) id, c⟩


/-! ### the control handlers (`isV = false`) -/

theorem sim_handleLogin (W : Nat → Prop) (s : Srv) (q : Query) (inb : List Nat) :
    Sim false W s (handleLogin s q inb) := by
  unfold handleLogin
  extract_lets unpacked userid u s1 x logindata out
  have h1 : Stay W s s1 := by unfold s1; stay_same
  apply ite_ind
  · intro _; exact sim_ctrl W s _ _ _
  intro _; apply ite_ind
  · intro _; exact sim_ctrl W s _ _ _
  intro _; apply ite_ind
  · intro _
    refine sim_quiet (h1.trans ?_) (quiet_ctrl_false _ _ _)
    stay_same
  · intro _
    exact sim_quiet h1 (quiet_ctrl_false _ _ _)

theorem sim_handleIp (W : Nat → Prop) (s : Srv) (q : Query) (inb : List Nat) : Sim false W s (handleIp s q inb) := by
  unfold handleIp
  extract_lets userid addr
  apply ite_ind <;> intro _ <;> exact sim_ctrl W s _ _ _

theorem sim_handleZ (W : Nat → Prop) (s : Srv) (q : Query) (inb : List Nat) : Sim false W s (handleZ s q inb) :=
  sim_ctrl W s _ _ _

theorem sim_handleSwitchCodec (W : Nat → Prop) (s : Srv) (q : Query) (dlen : Nat) (inb : List Nat) :
    Sim false W s (handleSwitchCodec s q dlen inb) := by
  unfold handleSwitchCodec
  apply ite_ind
  · intro _; exact sim_ctrl W s _ _ _
  · intro _
    extract_lets userid u dn codec sw
    have h1 : ∀ e, Sim false W s (sw e) := fun e =>
      sim_quiet (stay_userSwitchCodec W s u e) (quiet_ctrl_false _ _ _)
    clear_value sw
    apply ite_ind
    · intro _; exact sim_ctrl W s _ _ _
    intro _; apply ite_ind
    · intro _; exact h1 _
    intro _; apply ite_ind
    · intro _; exact h1 _
    intro _; apply ite_ind
    · intro _; exact h1 _
    intro _; apply ite_ind
    · intro _; exact h1 _
    · intro _; exact sim_ctrl W s _ _ _

theorem sim_handleOptions (W : Nat → Prop) (s : Srv) (q : Query) (dlen : Nat) (inb : List Nat) :
    Sim false W s (handleOptions s q dlen inb) := by
  unfold handleOptions
  apply ite_ind
  · intro _; exact sim_ctrl W s _ _ _
  · intro _
    extract_lets userid u c setDn setLazy
    have h1 : ∀ d m, Sim false W s (setDn d m) := fun d m =>
      sim_quiet (by stay_same) (quiet_ctrl_false _ _ _)
    have h2 : ∀ l m, Sim false W s (setLazy l m) := fun l m =>
      sim_quiet (by stay_same) (quiet_ctrl_false _ _ _)
    clear_value setDn setLazy
    apply ite_ind
    · intro _; exact sim_ctrl W s _ _ _
    intro _; apply ite_ind
    · intro _; exact h1 _ _
    intro _; apply ite_ind
    · intro _; exact h1 _ _
    intro _; apply ite_ind
    · intro _; exact h1 _ _
    intro _; apply ite_ind
    · intro _; exact h1 _ _
    intro _; apply ite_ind
    · intro _; exact h1 _ _
    intro _; apply ite_ind
    · intro _; exact h2 _ _
    intro _; apply ite_ind
    · intro _; exact h2 _ _
    · intro _; exact sim_ctrl W s _ _ _

theorem sim_handleDownCodecCheck (W : Nat → Prop) (s : Srv) (q : Query) (dlen : Nat) (inb : List Nat) :
    Sim false W s (handleDownCodecCheck s q dlen inb) := by
  unfold handleDownCodecCheck
  apply ite_ind
  · intro _; exact sim_ctrl W s _ _ _
  intro _; apply ite_ind
  · intro _; exact sim_ctrl W s _ _ _
  · intro _
    extract_lets c named rawOk dn
    clear_value dn
    cases dn <;> exact sim_ctrl W s _ _ _

theorem sim_handleFragsizeProbe (W : Nat → Prop) (s : Srv) (q : Query) (dlen : Nat) (inb : List Nat) :
    Sim false W s (handleFragsizeProbe s q dlen inb) := by
  unfold handleFragsizeProbe
  apply ite_ind
  · intro _; exact sim_ctrl W s _ _ _
  · intro _
    extract_lets b1 userid u req r
    apply ite_ind
    · intro _; exact sim_ctrl W s _ _ _
    intro _; apply ite_ind
    · intro _; exact sim_ctrl W s _ _ _
    · intro _; exact sim_quiet (stay_popRand W s) (quiet_ctrl_false _ _ _)

theorem sm_setFragsize {w : Prop} {mo : MSt} {x : Session} (h : SM w mo x) (n : Nat) (hn : 2 ≤ n) :
    SM w mo { x with fragsize := n, optionsLocked := true, dnscache := clearDnscache x.dnscache } := by
  obtain ⟨⟨a1, a2, a3, a4, a5, a6, a7, a8, a9, a10, a11, a12, a13⟩, b, ⟨c1, c2, c3⟩⟩ := h
  exact ⟨⟨a1, a2, a3, fun _ => hn, fun _ => hn, a6, a7, a8, a9, a10, a11, fun _ => hn, a13⟩, b, ⟨c1, c2, c3⟩⟩

theorem sim_handleSetFragsize (W : Nat → Prop) (s : Srv) (q : Query) (inb : List Nat) :
    Sim false W s (handleSetFragsize s q inb) := by
  unfold handleSetFragsize
  extract_lets unpacked userid u maxFrag
  apply ite_ind
  · intro _; exact sim_ctrl W s _ _ _
  intro _; apply ite_ind
  · intro _; exact sim_ctrl W s _ _ _
  intro _; apply ite_ind
  · intro _; exact sim_ctrl W s _ _ _
  · intro hn
    refine sim_quiet (stay_setUser W s u _ (fun w mo h => sm_setFragsize h maxFrag (Nat.le_of_not_lt hn)))
      (quiet_ctrl_false _ _ _)

end Iodine.C15L
