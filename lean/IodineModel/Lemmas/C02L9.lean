import IodineModel.Lemmas.C02L8
/-
C02 / lazy mode, upstream — the last fragment (three scheduler steps: `deliverUp`, `tickS`, `deliverDown`), the induction
over the fragments, the whole packet (`up_packet_lazy`) and sequences of packets (`up_sequence_lazy`).
-/
namespace Iodine.C02L
open Iodine Iodine.Gen Iodine.World

theorem last_step_lazy {P : Par} (hP : P.Ok) {frame : List Nat} {w : W} {c0 : Client.Cli} {o f : Nat}
    (h : UpFlightL P (0x5a :: frame) w c0 o f) (h64 : (0x5a :: frame).length ≤ 65536)
    (heq : o + fragLen P ((0x5a :: frame).drop o) = (0x5a :: frame).length) (h24 : 24 ≤ frame.length)
    (hdst : Server.ipDst frame ≠ (Server.getUser w.srv P.u).tunIp) :
    ∃ w', promptSteps P.u 3 w = some w' ∧ QuietLazy P w' ∧ w'.tunS = w.tunS ++ [[0, 0, 8, 0] ++ frame.drop 4] ∧
      w'.tunC = w.tunC ∧ w'.cs.c.outpkt.seqno = c0.outpkt.seqno ∧
      (Server.getUser w'.srv P.u).tunIp = (Server.getUser w.srv P.u).tunIp ∧
      (Server.getUser w'.srv P.u).fragsize = (Server.getUser w.srv P.u).fragsize := by
  generalize hout : (0x5a :: frame) = out at h h64 heq
  obtain ⟨name, hsend, hm1, hm2, hQ⟩ := send_readyL hP h.ready
  generalize hm : fragLen P (out.drop o) = m at *
  have hlast : (m == out.length - o) = true := by
    rw [beq_iff_eq]; omega
  rw [hlast] at hQ
  have hsf := sentFactsL c0
  have hsi := sentIdsL c0
  have hcst := cstat_sentL h.ready
  have hup : w.up = [.query (sentState c0).chunkid P.ty name] := by rw [h.up, hsend]; rfl
  have hsq : c0.outpkt.seqno.toNat < 8 := by have := h.ready.stat.oseq; omega
  have hsqc : ((c0.outpkt.seqno.toNat : Nat) : Int) = c0.outpkt.seqno := by have := h.ready.stat.oseq; omega
  -- step 1: the server receives the last fragment, writes the packet to its tun device and parks the query it held
  subst hout
  obtain ⟨s', evs, t, hit, hdown, htun, hal⟩ :=
    srv_recv_last_lazy hP h.srv h.idle h.ready.stat.cmc h.mem hQ h.expect hsq h.ready.hf heq h64 h24 hdst
  have hHc0 := h.mem.c0
  have hHid := h.heldid
  have hHB := h.held
  have hHM := h.mem.congr hal.qmem hal.qlast hal.cache hal.clast hal.pmem hal.plast
  generalize hH : (Server.getUser w.srv P.u).q = H at hal hHc0 hHid hHB hHM
  have hq1 : quiet P.u w = false := quiet_false_of_up _ _ _ _ hup
  have hs1 : step w (promptEv w) =
      { w with up := [], srv := s', tunS := w.tunS ++ [[0, 0, 8, 0] ++ frame.drop 4] } := by
    rw [promptEv_up w _ _ hup, step_deliverUp w _ _ hup, srvInput_query, stepS_zero { w with up := [] } _ s' evs t hit, hdown, htun]
    simp [h.down]
  generalize hw2 : ({ w with up := [], srv := s', tunS := w.tunS ++ [[0, 0, 8, 0] ++ frame.drop 4] } : W) = w2 at hs1
  have hw2cs : w2.cs = w.cs := by subst hw2; rfl
  have hw2up : w2.up = [] := by subst hw2; rfl
  have hw2down : w2.down = [] := by subst hw2; exact h.down
  have hw2srv : w2.srv = s' := by subst hw2; rfl
  have hcnt2 : CntOk { sentStateL c0 with sendPingSoon := 0 } 2 := hsi.cnt h.ready.cnt
  generalize hc : ({ sentStateL c0 with sendPingSoon := 0 } : Client.Cli) = c at hsf hcst hsi hcnt2
  have hwc : w.cs = ⟨c, .tunnel⟩ := by rw [cstate_eta w.cs h.ph, h.cli, hc]
  have hlen0 : (0x5a :: frame).length ≠ 0 := by simp
  have hsending : Client.isSending c = true := by
    unfold Client.isSending
    rw [hsf.olen, h.ready.len]
    simp
  -- step 2: nothing in flight; the server's 20 ms timer (parked query) expires before the client's second
  have hq2 : quiet P.u w2 = false := by
    unfold World.quiet
    rw [hw2cs, hwc]
    simp [hsending]
  obtain ⟨s'', evs2, tunsel, hit2, hdown2, htun2, hS2, hidle2, hqeq2, hmem2, hin2, hout2, hoq2, htun2', hnow2, hfrag2⟩ :=
    srv_tick_ack_lazy hP hal.stat (H := H) (Q := upQuery (sentState c0).chunkid P.ty name) h.ready.stat.cmc
      hHM hHB hQ.heldBase (hQ.heldData h.ready.stat.cmc) hal.q hal.qs hal.lazy (by rw [hal.outp]; exact h.idle.out)
  have htoS : timeoutS w2 = 20000 := by
    unfold timeoutS
    rw [hw2srv]
    have := congrArg (fun r => r.2.2.1) hit2
    simp only [Server.iteration] at this
    exact this
  have htoC : timeoutC w2 = some 1000000 := by
    unfold timeoutC Client.pending
    rw [hw2cs, hwc]
    simp [Client.selectOf, hsf.sps, hsending]
  have hs2 : step w2 (promptEv w2) =
      { w2 with srv := s'', down := [.ans H.id H.type H.name (Server.scPkt (Server.getUser s' P.u) 0)] } := by
    rw [promptEv_tickS w2 hw2up hw2down _ htoC (by rw [htoS]; decide)]
    show stepS w2 .tick (timeoutS w2 / 1000000) = _
    rw [htoS, show (20000 : Nat) / 1000000 = 0 from rfl, stepS_zero w2 _ s'' evs2 (20000, tunsel) (by rw [hw2srv]; exact hit2),
      hdown2, htun2, hw2down]
    simp
  generalize hw3 : ({ w2 with srv := s'', down := [.ans H.id H.type H.name (Server.scPkt (Server.getUser s' P.u) 0)] } : W) = w3 at hs2
  have hw3cs : w3.cs = w.cs := by subst hw3; exact hw2cs
  have hw3up : w3.up = [] := by subst hw3; exact hw2up
  have hw3down : w3.down = [.ans H.id H.type H.name (Server.scPkt (Server.getUser s' P.u) 0)] := by subst hw3; rfl
  have hq3 : quiet P.u w3 = false := quiet_false_of_down _ _ _ _ hw3down
  -- step 3: the client receives the acknowledgement; the packet is complete
  generalize hpkt : Server.scPkt (Server.getUser s' P.u) 0 = pkt at hw3down hs2 hw3
  obtain ⟨hlen2, hdn, hus, huf⟩ := ack_hdr (x := Server.getUser s' P.u) (y := Server.getUser s' P.u) hpkt.symm
    (by rw [hal.iseq]; omega) (by rw [hal.ifrag]; have := h.ready.hf; omega) rfl hal.stat.x.oseq hal.stat.x.ofrag
  generalize hrq : (Client.Rq.mk (pkt.length : Int) H.id (answerType H.type) 0 (H.name.headD 0) pkt) = rq
  have hdl : Client.tunnelDns c rq = Client.upstream (ackBook c) (Client.decodeHdr pkt) [] false 2 := by
    have := tunnelDns_dataless_lazy c rq
      (by subst hrq; show Client.notData c (H.name.headD 0) = false
          rw [headD_eq_getD]
          exact notData_held (hsf.useridChar.trans h.ready.stat.uch) _ hHc0)
      (by subst hrq; exact hlen2)
      (by subst hrq; unfold Client.recentId; show (H.id == c.chunkid || H.id == c.chunkidPrev || H.id == c.chunkidPrev2) = true
          rw [hsi.prev, hHid]; simp)
      hsf.sps
      (by subst hrq; show H.id ≠ c.chunkid; rw [hHid]; exact fun e => hsi.ne h.ready.stat.cid e.symm)
      (by subst hrq; show (Client.decodeHdr pkt).dnSeq = c.inpkt.seqno; rw [hdn, hal.outp, hsf.inpkt]; exact h.syncd)
    subst hrq
    exact this
  have hbk : (ackBook c).outpkt = c.outpkt := rfl
  have hdone := upstream_ack_done (ackBook c) (Client.decodeHdr pkt) [] false 2
    (by unfold Client.isSending; rw [hbk]; exact hsending)
    (by rw [hus, hal.iseq, hbk, hsf.oseq]; exact hsqc)
    (by rw [huf, hal.ifrag, hbk, hsf.ofrag, h.ready.frag])
    (by rw [hbk, hsf.ooff, hsf.osent, hsf.olen, cFragLen_readyL h.ready, hm, h.ready.off, h.ready.len]; omega)
  generalize hcd : ackDone (ackBook c) = cd at hdone
  have hfp : Client.finalPing cd [] false 2 = (cd, [], .ret 2) := by simp [Client.finalPing]
  have hb := cstat_ackBookL hcst
  have hcdstat : CStatL P cd := by
    subst hcd
    exact ⟨hb.running, hb.conn, hb.lz, hb.uid, hb.uch, hb.td, hb.L, hb.enc, hb.ty, hb.cid, hb.cmc, hb.alive, hb.oseq, hb.iseq, hb.ifrag, hb.seed⟩
  have hcdcnt : CntOk cd 1 := by
    subst hcd
    exact cntOk_ackDone _ _ (ackBook_cnt c hcnt2)
  have hstep3 : Client.cstep w3.cs (.rq rq) = (⟨cd, .tunnel⟩, [], .sel (Client.selectOf cd)) := by
    rw [hw3cs, hwc, cstep_rq c rq hcst.running hcst.alive hcst.conn, hdl, hdone, hfp]
    simp [Client.settle, Client.loopTop, hcdstat.running]
  have hnow3 : cd.now = w3.cs.c.now := by
    rw [hw3cs, hwc]; subst hcd; rfl
  have hs3 : step w3 (promptEv w3) = { w3 with down := [], cs := ⟨cd, .tunnel⟩ } := by
    rw [promptEv_down w3 _ _ hw3up hw3down, step_deliverDown w3 _ _ hw3down]
    have hci : cliInput (.ans H.id H.type H.name pkt) = .rq rq := by subst hrq; rfl
    rw [hci, stepC_of _ _ _ _ _ (by exact hstep3) (by exact hnow3)]
    subst hw3
    simp [upOfEvents, tunOfCEvents, hw2up]
  have hcmc' : cd.datacmc = (c0.datacmc + 1) % 36 := by
    subst hcd; show c.datacmc = _; rw [hsf.cmc]
    have := h.ready.stat.cmc
    split <;> omega
  have hseed' : cd.randSeed = c0.randSeed := by subst hcd; show c.randSeed = _; exact hsf.seed
  refine ⟨{ w3 with down := [], cs := ⟨cd, .tunnel⟩ }, ?_, ?_, ?_, ?_, ?_, ?_, ?_⟩
  · rw [promptSteps_succ hq1, hs1, promptSteps_succ hq2, hs2, promptSteps_succ hq3, hs3]
    rfl
  · subst hw3; subst hw2
    refine ⟨rfl, hcdstat, hcdcnt, ?_, rfl, rfl, hS2, hidle2, by rw [hoq2, hal.oq]; exact h.oq, ?_, ?_, ?_, ?_, ?_⟩
    · subst hcd; rfl
    · show HeldBase P (Server.getUser s'' P.u).q
      rw [hqeq2]; exact hQ.heldBase
    · show (Server.getUser s'' P.u).q.id = cd.chunkid
      rw [hqeq2, upQuery_id]
      subst hcd; show _ = c.chunkid; exact hsi.cid.symm
    · show (Server.getUser s'' P.u).inpacket.seqno = cd.outpkt.seqno
      rw [hin2, hal.iseq]
      subst hcd
      show _ = c.outpkt.seqno
      rw [hsf.oseq]; exact hsqc
    · show (Server.getUser s'' P.u).outpacket.seqno = cd.inpkt.seqno
      rw [hout2, hal.outp, h.syncd]
      subst hcd
      show c0.inpkt.seqno = c.inpkt.seqno
      rw [hsf.inpkt]
    · show HeldMem P (Server.getUser s'' P.u) (Server.getUser s'' P.u).q cd.datacmc cd.randSeed
      rw [hqeq2, hcmc', hseed']; exact hmem2
  · subst hw3; subst hw2; rfl
  · subst hw3; subst hw2; rfl
  · subst hcd; show c.outpkt.seqno = _; exact hsf.oseq
  · subst hw3; subst hw2
    show (Server.getUser s'' P.u).tunIp = _
    rw [htun2', hal.tun]
  · subst hw3; subst hw2
    show (Server.getUser s'' P.u).fragsize = _
    rw [hfrag2, hal.frag]

/-! ### all fragments -/

theorem up_flight_run_lazy {P : Par} (hP : P.Ok) {frame : List Nat} (h64 : (0x5a :: frame).length ≤ 65536) (h24 : 24 ≤ frame.length) :
    ∀ (fuel : Nat) (w : W) (c0 : Client.Cli) (o f : Nat), UpFlightL P (0x5a :: frame) w c0 o f →
      ((0x5a :: frame).drop o).length ≤ fuel → f + upFrags P fuel ((0x5a :: frame).drop o) ≤ 16 →
      Server.ipDst frame ≠ (Server.getUser w.srv P.u).tunIp →
      ∃ w', promptSteps P.u (2 * upFrags P fuel ((0x5a :: frame).drop o) + 1) w = some w' ∧
        QuietLazy P w' ∧
        w'.tunS = w.tunS ++ [[0, 0, 8, 0] ++ frame.drop 4] ∧ w'.tunC = w.tunC ∧ w'.cs.c.outpkt.seqno = c0.outpkt.seqno ∧
        (Server.getUser w'.srv P.u).tunIp = (Server.getUser w.srv P.u).tunIp ∧
        (Server.getUser w'.srv P.u).fragsize = (Server.getUser w.srv P.u).fragsize := by
  intro fuel
  induction fuel with
  | zero =>
    intro w c0 o f h hl
    have := h.ready.ho
    simp only [List.length_drop] at hl
    omega
  | succ fuel ih =>
    intro w c0 o f h hl hf hdst
    have hne : (0x5a :: frame).drop o ≠ [] := by
      intro hc
      have := congrArg List.length hc
      simp only [List.length_drop, List.length_nil] at this
      have := h.ready.ho
      omega
    obtain ⟨_, _, hm1, hm2, _⟩ := send_readyL hP h.ready
    have hu : upFrags P (fuel + 1) ((0x5a :: frame).drop o) =
        1 + upFrags P fuel (((0x5a :: frame).drop o).drop (fragLen P ((0x5a :: frame).drop o))) := by
      simp [upFrags, hne]
    rw [List.drop_drop] at hu
    rw [hu] at hf ⊢
    by_cases hlast : o + fragLen P ((0x5a :: frame).drop o) = (0x5a :: frame).length
    · -- last fragment
      have hnil : (0x5a :: frame).drop (o + fragLen P ((0x5a :: frame).drop o)) = [] := by
        rw [hlast]; exact List.drop_length
      rw [hnil, upFrags_nil]
      obtain ⟨w', h1, h2, h3, h4, h5, h6, h7⟩ := last_step_lazy hP h h64 hlast h24 hdst
      exact ⟨w', h1, h2, h3, h4, h5, h6, h7⟩
    · -- one more fragment, then the rest
      have hlt : o + fragLen P ((0x5a :: frame).drop o) < (0x5a :: frame).length := by omega
      have hg1 : 1 ≤ upFrags P fuel ((0x5a :: frame).drop (o + fragLen P ((0x5a :: frame).drop o))) := by
        cases fuel with
        | zero => simp only [List.length_drop] at hl; omega
        | succ k =>
          have : (0x5a :: frame).drop (o + fragLen P ((0x5a :: frame).drop o)) ≠ [] := by
            intro hc
            have := congrArg List.length hc
            simp only [List.length_drop, List.length_nil] at this
            omega
          simp [upFrags, this]
      obtain ⟨w1, c1, hs, hfl, ht1, ht2, hsq, htip, hfrg⟩ := mid_step_lazy hP h h64 hlt (by omega)
      obtain ⟨w', h1, h2, h3, h4, h5, h6, h7⟩ := ih w1 c1 _ _ hfl
        (by simp only [List.length_drop] at hl ⊢; omega) (by omega) (by rw [htip]; exact hdst)
      refine ⟨w', ?_, ?_, ?_, ?_, ?_, ?_, ?_⟩
      · have := promptSteps_add P.u 2 (2 * upFrags P fuel ((0x5a :: frame).drop (o + fragLen P ((0x5a :: frame).drop o))) + 1) w w1 hs
        rw [h1] at this
        rw [← this]
        congr 1
        omega
      · exact h2
      · rw [h3, ht1]
      · rw [h4, ht2]
      · rw [h5, hsq]
      · rw [h6, htip]
      · rw [h7, hfrg]

/-- **One packet upstream, lazy mode.**  From a quiescent joint state (the server holds the client's most recent query), a
frame offered to the client is cut into `g` fragments; after `2·g + 1` steps of the prompt schedule the joint state is
quiescent again (the server now holds the data query of the last fragment), the server has written exactly that frame
(with the tun header rewritten) to its tun device and the client nothing. -/
theorem up_packet_lazy {P : Par} (hP : P.Ok) {w : W} (hq : QuietLazy P w) (frame : List Nat)
    (h24 : 24 ≤ frame.length) (hl : frame.length < 65536) (hb : Codec.Bytes frame)
    (hdst : Server.ipDst frame ≠ (Server.getUser w.srv P.u).tunIp)
    (hg16 : upFrags P (frame.length + 1) (0x5a :: frame) ≤ 16) :
    ∃ w', promptSteps P.u (2 * upFrags P (frame.length + 1) (0x5a :: frame) + 1) (step w (.offerC frame)) = some w' ∧
      QuietLazy P w' ∧
      w'.tunS = w.tunS ++ [[0, 0, 8, 0] ++ frame.drop 4] ∧ w'.tunC = w.tunC ∧
      (Server.getUser w'.srv P.u).tunIp = (Server.getUser w.srv P.u).tunIp ∧
      (Server.getUser w'.srv P.u).fragsize = (Server.getUser w.srv P.u).fragsize := by
  have hne : frame ≠ [] := by intro hc; rw [hc] at h24; simp at h24
  obtain ⟨w1, hw1, hfl, ht1, ht2, hsrv⟩ := up_offer_lazy hP hq frame hne hl hb
  obtain ⟨w', h1, h2, h3, h4, _, h6, h7⟩ := up_flight_run_lazy hP (by simp; omega) h24 (frame.length + 1) w1 _ 0 0 hfl
    (by simp) (by simpa using hg16) (by rw [hsrv]; exact hdst)
  rw [hw1]
  exact ⟨w', by simpa using h1, h2, by rw [h3, ht1], by rw [h4, ht2], by rw [h6, hsrv], by rw [h7, hsrv]⟩

/-- **A sequence of packets upstream, lazy mode**: each frame is offered after the previous one was delivered; all of them
arrive exactly once, in order, and the joint state is quiescent again. -/
theorem up_sequence_lazy {P : Par} (hP : P.Ok) (fuel : Nat) (hfuel : 33 ≤ fuel) :
    ∀ (frames : List (List Nat)) (w : W), QuietLazy P w →
      (∀ f ∈ frames, UpFrameOk P (Server.getUser w.srv P.u).tunIp f) →
      QuietLazy P (offerAllC P.u fuel w frames) ∧
      (offerAllC P.u fuel w frames).tunS = w.tunS ++ frames.map tunImage ∧
      (offerAllC P.u fuel w frames).tunC = w.tunC := by
  intro frames
  induction frames with
  | nil => intro w hq _; exact ⟨hq, by simp [offerAllC], rfl⟩
  | cons f fs ih =>
    intro w hq hok
    have hf := hok f List.mem_cons_self
    obtain ⟨w', h1, h2, h3, h4, h5, _⟩ := up_packet_lazy hP hq f hf.h24 hf.hl hf.bytes hf.dst hf.frags
    have hrun : runPrompt P.u fuel (step w (.offerC f)) = w' :=
      runPrompt_of_steps P.u _ _ _ h1 h2.quiet fuel (by have := hf.frags; omega)
    have := ih w' h2 (fun g hg => by rw [h5]; exact hok g (List.mem_cons_of_mem _ hg))
    unfold offerAllC
    rw [hrun]
    refine ⟨this.1, ?_, ?_⟩
    · rw [this.2.1, h3]; simp [tunImage]
    · rw [this.2.2, h4]

end Iodine.C02L
