import IodineModel.Lemmas.C02L6
/-
C02 / lazy mode, upstream — the joint invariants (`QuietLazy`, `UpFlightL`) and the first step (`offerC`).
-/
namespace Iodine.C02L
open Iodine Iodine.Gen Iodine.World

/-- Quiescent joint state, LAZY mode.  Nothing is in flight; the client thread is parked in `client_tunnel`'s `select`, in
lazy mode, not sending, its answer counting in balance (`CntOk … 1`: at most one more query sent than answers received,
or not counting); the server's slot has no outpacket, an empty queue, nothing in `q_sendrealsoon`, is in lazy mode and HOLDS
exactly one query in `q`: the client's most recent one (same id), a ping or a data query (`HeldMem`), which is not yet in
the duplicate memories — these are aged with the slack that goes with the kind of the held query; both reassemblers agree
with the peer's sender on the current sequence number. -/
structure QuietLazy (P : Par) (w : W) : Prop where
  ph : w.cs.ph = .tunnel
  cst : CStatL P w.cs.c
  cnt : CntOk w.cs.c 1
  idleC : Client.isSending w.cs.c = false
  up : w.up = []
  down : w.down = []
  srv : SStat P w.srv
  idle : IdleLazy (Server.getUser w.srv P.u)
  oq : (Server.getUser w.srv P.u).oqFilled = 0
  held : HeldBase P (Server.getUser w.srv P.u).q
  heldid : (Server.getUser w.srv P.u).q.id = w.cs.c.chunkid
  syncu : (Server.getUser w.srv P.u).inpacket.seqno = w.cs.c.outpkt.seqno
  syncd : (Server.getUser w.srv P.u).outpacket.seqno = w.cs.c.inpkt.seqno
  mem : HeldMem P (Server.getUser w.srv P.u) (Server.getUser w.srv P.u).q w.cs.c.datacmc w.cs.c.randSeed

theorem QuietLazy.quiet {P : Par} {w : W} (h : QuietLazy P w) : quiet P.u w = true := by
  unfold World.quiet
  simp [h.up, h.down, h.idleC, h.idle.out, h.oq, h.idle.qs, h.idle.lazy, h.idle.q]

/-- fragment `f` (offset `o`) of the upstream packet `out` is in flight towards the server, which still holds the query
the client sent before (`c0` = the client state `send_chunk` was called in) -/
structure UpFlightL (P : Par) (out : List Nat) (w : W) (c0 : Client.Cli) (o f : Nat) : Prop where
  ph : w.cs.ph = .tunnel
  ready : CReadyL P c0 out o f
  cli : w.cs.c = { sentStateL c0 with sendPingSoon := 0 }
  up : w.up = upOfEvents (Client.sendChunk c0).evs
  down : w.down = []
  srv : SStat P w.srv
  idle : IdleLazy (Server.getUser w.srv P.u)
  oq : (Server.getUser w.srv P.u).oqFilled = 0
  held : HeldBase P (Server.getUser w.srv P.u).q
  heldid : (Server.getUser w.srv P.u).q.id = c0.chunkid
  expect : Expect (Server.getUser w.srv P.u) out c0.outpkt.seqno.toNat o f
  syncd : (Server.getUser w.srv P.u).outpacket.seqno = c0.inpkt.seqno
  mem : HeldMem P (Server.getUser w.srv P.u) (Server.getUser w.srv P.u).q c0.datacmc c0.randSeed

/-- `offerC`: the frame is read, compressed, and its first fragment goes out -/
theorem up_offer_lazy {P : Par} (hP : P.Ok) {w : W} (hq : QuietLazy P w) (frame : List Nat) (hne : frame ≠ [])
    (hl : frame.length < 65536) (hb : Codec.Bytes frame) :
    ∃ w1, step w (.offerC frame) = w1 ∧ UpFlightL P (0x5a :: frame) w1 (newPacket w.cs.c frame) 0 0 ∧
      w1.tunS = w.tunS ∧ w1.tunC = w.tunC ∧ w1.srv = w.srv := by
  have hcs := cstate_eta w.cs hq.ph
  have hready := newPacket_readyL hq.cst hq.cnt frame hl hb
  obtain ⟨name, hsend, _, _, _⟩ := send_readyL hP hready
  have hsf := sentFactsL (newPacket w.cs.c frame)
  have hsel : tunSelC w = true := by
    unfold tunSelC Client.pending
    rw [hq.ph]
    simp [Client.selectOf, hq.idleC]
  have hstep : Client.cstep w.cs (.tun frame) =
      (⟨{ sentStateL (newPacket w.cs.c frame) with sendPingSoon := 0 }, .tunnel⟩,
       [] ++ (Client.sendChunk (newPacket w.cs.c frame)).evs,
       .sel (Client.selectOf { sentStateL (newPacket w.cs.c frame) with sendPingSoon := 0 })) := by
    rw [hcs, cstep_tun w.cs.c frame hq.cst.running hq.cst.alive hq.idleC hne hq.cst.conn]
    have ht : frame.take 65536 = frame := List.take_of_length_le (by omega)
    rw [settle_afterSend _ _ _ (by rw [hsend]) (by rw [hsend]; have := hsf.running; simpa using this.trans hq.cst.running)]
    rw [hsend]
  have hw1 : step w (.offerC frame) =
      { w with cs := ⟨{ sentStateL (newPacket w.cs.c frame) with sendPingSoon := 0 }, .tunnel⟩,
               up := w.up ++ upOfEvents ([] ++ (Client.sendChunk (newPacket w.cs.c frame)).evs),
               tunC := w.tunC ++ tunOfCEvents ([] ++ (Client.sendChunk (newPacket w.cs.c frame)).evs) } := by
    rw [step_offerC w frame hsel, stepC_of w _ _ _ _ hstep (by show _ = w.cs.c.now; exact hsf.now)]
  refine ⟨_, rfl, ?_, ?_, ?_, ?_⟩
  · rw [hw1]
    refine ⟨rfl, hready, rfl, ?_, hq.down, hq.srv, hq.idle, hq.oq, hq.held, hq.heldid, ?_, hq.syncd, hq.mem⟩
    · show w.up ++ upOfEvents ([] ++ _) = _
      rw [hq.up]; rfl
    · left
      refine ⟨rfl, rfl, 1, Nat.le_refl _, by omega, ?_⟩
      have hs : Client.sChar ((w.cs.c.outpkt.seqno + 1) % 8) = (w.cs.c.outpkt.seqno + 1) % 8 := sChar_small _ (by omega)
      show (((newPacket w.cs.c frame).outpkt.seqno).toNat : Int) = _
      have : (newPacket w.cs.c frame).outpkt.seqno = (w.cs.c.outpkt.seqno + 1) % 8 := hs
      rw [this, hq.syncu]
      omega
  · rw [hw1]
  · rw [hw1]
    show w.tunC ++ tunOfCEvents ([] ++ (Client.sendChunk (newPacket w.cs.c frame)).evs) = w.tunC
    rw [hsend]
    simp [tunOfCEvents]
  · rw [hw1]

end Iodine.C02L
