import IodineModel.Lemmas.C02qM3
/-
C02 phase 2 / DOWNSTREAM, LAZY mode, desynchronised — part 4: the RESEND cycle.
`DropFlightL … r`: copy number `r` of fragment 0 of a packet of several fragments is on its way to a client into whose
window its sequence number falls.  One cycle (`deliverDown`, `tickC`, `deliverUp`; without the `tickC` if a ping was due at the
client) makes the server send the fragment again (`r ↦ r + 1`); at `r = 6` the server drops the packet and answers DATALESS
(`DatalessFlightL`); that answer is not adopted, the client pings 900 ms later and the server holds the ping.
-/
namespace Iodine.C02L
open Iodine Iodine.Gen Iodine.World

/-- copy number `r` of fragment 0 (`D` bytes) of the outpacket `out` (seqno `sq`, more than one fragment) is on its way to
the client as the answer to its most recent query; `sq` falls into the client's window; the server holds no query -/
structure DropFlightL (P : Par) (out : List Nat) (w : W) (sq : Int) (D r : Nat) : Prop where
  ph : w.cs.ph = .tunnel
  cst : CStatL P w.cs.c
  cnt : CntOk w.cs.c 1
  idleC : Client.isSending w.cs.c = false
  up : w.up = []
  down : ∃ name pkt, w.down = [.ans w.cs.c.chunkid P.ty name pkt] ∧ Client.notData w.cs.c (name.headD 0) = false ∧
    FragPkt pkt out sq 0 D 0 false
  win : InWinC w.cs.c sq
  hsq : 0 ≤ sq ∧ sq < 8
  hD : 0 < D
  hlt : D < out.length
  srv : NoQSrvL P w.srv
  frag : 0 < (Server.getUser w.srv P.u).fragsize
  hDdef : D = downLen (Server.getUser w.srv P.u).fragsize out.length
  op : (Server.getUser w.srv P.u).outpacket = ⟨out.length, D, 0, out, sq, 0⟩
  res : (Server.getUser w.srv P.u).outfragresent = r
  syncu : (Server.getUser w.srv P.u).inpacket.seqno = w.cs.c.outpkt.seqno
  aged : Aged P (Server.getUser w.srv P.u) w.cs.c.datacmc 1
  paged : PAged P (Server.getUser w.srv P.u) w.cs.c.randSeed 1

/-- the server has dropped the packet (seqno `sq`) and its DATALESS answer is on its way to the client, at which no ping is
due -/
structure DatalessFlightL (P : Par) (w : W) (sq : Int) : Prop where
  ph : w.cs.ph = .tunnel
  cst : CStatL P w.cs.c
  cnt : CntOk w.cs.c 1
  idleC : Client.isSending w.cs.c = false
  sps : w.cs.c.sendPingSoon = 0
  up : w.up = []
  down : ∃ name pkt, w.down = [.ans w.cs.c.chunkid P.ty name pkt] ∧ Client.notData w.cs.c (name.headD 0) = false ∧
    pkt.length = 2 ∧ (Client.decodeHdr pkt).dnSeq = sq
  win : InWinC w.cs.c sq
  srv : NoQSrvL P w.srv
  len0 : (Server.getUser w.srv P.u).outpacket.len = 0
  oseq : (Server.getUser w.srv P.u).outpacket.seqno = sq
  syncu : (Server.getUser w.srv P.u).inpacket.seqno = w.cs.c.outpkt.seqno
  aged : Aged P (Server.getUser w.srv P.u) w.cs.c.datacmc 1
  paged : PAged P (Server.getUser w.srv P.u) w.cs.c.randSeed 1

theorem InWinC.mismatch {c : Client.Cli} {sq : Int} (h : InWinC c sq) : sq ≠ c.inpkt.seqno ∨ ((0 : Nat) : Int) ≠ c.inpkt.fragment := by
  rcases h with ⟨h1, _⟩ | ⟨_, h2⟩
  · exact Or.inl h1
  · exact Or.inr (by intro h; exact h2 h.symm)

theorem InWinC.keep {c : Client.Cli} {sq : Int} (h : InWinC c sq) :
    sq = c.inpkt.seqno ∨ Client.recentSeqno c.inpkt.seqno sq = true := by
  rcases h with ⟨_, h2⟩ | ⟨h1, _⟩
  · exact Or.inr h2
  · exact Or.inl h1

/-- what an answered ping leaves of the static facts, given what the handler keeps of the slot -/
theorem afterPing_stat_of {P : Par} {s s' : Server.Srv} {Q : Server.Query} {a b : Int} {pkt : List Nat} (hS : SStat P s)
    (hoq : (Server.getUser s P.u).oqFilled = 0) (hap : AfterPing P s s' Q a b pkt)
    (hr : rest (Server.getUser s' P.u) = rest { Server.getUser s P.u with qsNew := false })
    (hqid : (Server.getUser s' P.u).q.id = 0) (hlp : (Server.getUser s' P.u).lastPkt = s.now)
    (hos : 0 ≤ (Server.getUser s' P.u).outpacket.seqno ∧ (Server.getUser s' P.u).outpacket.seqno < 8)
    (hof : 0 ≤ (Server.getUser s' P.u).outpacket.fragment ∧ (Server.getUser s' P.u).outpacket.fragment < 16) :
    SStat P s' ∧ (Server.getUser s' P.u).q.id = 0 ∧ (Server.getUser s' P.u).qs = (Server.getUser s P.u).qs ∧
    (Server.getUser s' P.u).lazy = (Server.getUser s P.u).lazy ∧ (Server.getUser s' P.u).oqFilled = 0 ∧
    (Server.getUser s' P.u).fragsize = (Server.getUser s P.u).fragsize ∧
    (Server.getUser s' P.u).inpacket = (Server.getUser s P.u).inpacket ∧
    (Server.getUser s' P.u).tunIp = (Server.getUser s P.u).tunIp := by
  have hr' : rest (Server.getUser s' P.u) = rest (Server.getUser s P.u) := hr
  refine ⟨⟨hap.solo, hap.td, ?_, ?_, ?_⟩, hqid, rest_qs hr', rest_lazy hr', ?_, rest_fragsize hr', rest_inpacket hr', rest_tunIp hr'⟩
  · exact ⟨(rest_active hr').trans hS.x.active, (rest_authenticated hr').trans hS.x.auth, (rest_disabled hr').trans hS.x.enabled,
      (rest_conn hr').trans hS.x.conn, (rest_encoder hr').trans hS.x.enc, hos, hof,
      by rw [rest_inpacket hr']; exact hS.x.iseq, by rw [rest_inpacket hr']; exact hS.x.ifrag⟩
  · rw [hap.cfg, rest_host hr']; exact hS.host
  · rw [hap.now, hlp]; omega
  · rw [rest_oqFilled hr']; exact hoq

/-- the ping reaches the server while the fragment was sent at most 5 times: `process_downstream_ack` does not match, the
SAME fragment goes out again as the answer -/
theorem resend_step {P : Par} (hP : P.Ok) {w2 : W} {c2 : Client.Cli} {name' : List Nat} (h : PingUp P w2 c2 name')
    {out : List Nat} {sq : Int} {D r : Nat}
    (hop : (Server.getUser w2.srv P.u).outpacket = ⟨out.length, D, 0, out, sq, 0⟩)
    (hres : (Server.getUser w2.srv P.u).outfragresent = r) (hr : r ≤ 5)
    (hfrag : 0 < (Server.getUser w2.srv P.u).fragsize) (hDdef : D = downLen (Server.getUser w2.srv P.u).fragsize out.length)
    (hD : 0 < D) (hlt : D < out.length) (hsq : 0 ≤ sq ∧ sq < 8) (hwin : InWinC c2 sq) :
    ∃ w', step w2 (promptEv w2) = w' ∧ quiet P.u w2 = false ∧ DropFlightL P out w' sq D (r + 1) ∧
      w'.cs.c.sendPingSoon = 0 ∧ w'.cs.c.inpkt = c2.inpkt ∧ w'.tunC = w2.tunC ∧ w'.tunS = w2.tunS ∧
      (Server.getUser w'.srv P.u).fragsize = (Server.getUser w2.srv P.u).fragsize ∧
      (Server.getUser w'.srv P.u).tunIp = (Server.getUser w2.srv P.u).tunIp := by
  have hpf := pingFactsL c2
  have hsrv := h.srv
  have hpq := h.pq
  have hq2 : quiet P.u w2 = false := quiet_false_of_up _ _ _ _ h.up
  generalize hx0 : ({ Server.getUser w2.srv P.u with qsNew := false } : Server.Session) = x0
  have hx0op : x0.outpacket = ⟨out.length, D, 0, out, sq, ((0 : Nat) : Int)⟩ := by subst hx0; exact hop
  have hmis := hwin.mismatch
  have hack : ackSess x0 c2.inpkt.seqno c2.inpkt.fragment = x0 := ackSess_other x0 _ _ (by rw [hx0op]; exact hmis)
  obtain ⟨s', evs, t, pkt2, hit, hdown2, htun2, hap, hA', hPA'⟩ :=
    srv_ping_lazy_any hP hsrv.stat hsrv.q hsrv.qs hsrv.oq hpq h.aged h.paged
      (by rw [hx0, hack, hx0op]; show 0 < out.length; omega)
  generalize hQ : upQuery (pingStateL c2).chunkid P.ty name' = Q at hit hdown2 hap hpq
  have hQid2 : Q.id2 = 0 := by rw [← hQ]; rfl
  have hslot : Server.getUser s' P.u = pingZ x0 P.u Q c2.inpkt.seqno c2.inpkt.fragment w2.srv.now := by
    rw [afterPing_slot hap, hx0]
  have hx0oq : x0.oqFilled = 0 := by subst hx0; exact hsrv.oq
  have hx0res : x0.outfragresent ≤ 5 := by subst hx0; show (Server.getUser w2.srv P.u).outfragresent ≤ 5; omega
  have hfs : x0.fragsize = (Server.getUser w2.srv P.u).fragsize := by subst hx0; rfl
  obtain ⟨hzo, hzr, yy, hyev, hyo, hyi⟩ := pingZ_resendM x0 P.u Q c2.inpkt.seqno c2.inpkt.fragment w2.srv.now out sq 0 D 0 hQid2
    hx0oq hx0res hx0op hmis (by rw [hfs, Nat.sub_zero]; exact hDdef) hD (by omega)
  have hr1 := pingZ_rest x0 P.u Q c2.inpkt.seqno c2.inpkt.fragment w2.srv.now hQid2 hx0oq hx0res
  have hq1 := pingZ_q x0 P.u Q c2.inpkt.seqno c2.inpkt.fragment w2.srv.now hQid2 hx0oq hx0res
  rw [← hslot] at hzo hzr hr1 hq1
  have hpkt : pkt2 = Server.scPkt yy D := by
    have h1 := hap.pkt
    rw [hx0, hyev] at h1
    exact pkt_of_writeDns h1
  obtain ⟨hS', hq', hqs', hlz', hoq', hfs', hin', htun'⟩ := afterPing_stat_of hsrv.stat hsrv.oq hap (by rw [hr1, hx0])
    (by rw [hq1.1]) hq1.2 (by rw [hzo]; exact hsq) (by rw [hzo]; show (0 : Int) ≤ ((0 : Nat) : Int) ∧ ((0 : Nat) : Int) < 16; omega)
  have hfp2 := fragPkt_of yy out sq 0 D 0 hyo (by omega) hsq (by omega)
    (by rw [hyi]; subst hx0; exact hsrv.stat.x.iseq) (by rw [hyi]; subst hx0; exact hsrv.stat.x.ifrag)
  have hdec : decide (out.length > 0 ∧ out.length = 0 + D) = false := by
    rw [decide_eq_false_iff_not]; omega
  rw [hdec, ← hpkt] at hfp2
  have hs2 : step w2 (promptEv w2) =
      { w2 with up := [], srv := s', down := [.ans (pingStateL c2).chunkid P.ty name' pkt2] } := by
    rw [promptEv_up w2 _ _ h.up, step_deliverUp w2 _ _ h.up, srvInput_query, hQ,
      stepS_zero { w2 with up := [] } _ s' evs t (by exact hit), hdown2, htun2]
    rw [← hQ]
    simp [h.down, upQuery]
  have hcs := h.cs
  refine ⟨_, hs2, hq2, ?_, ?_, ?_, rfl, rfl, hfs', htun'⟩
  · refine ⟨by show w2.cs.ph = _; rw [hcs], ?_, ?_, ?_, rfl, ⟨name', pkt2, ?_, ?_, hfp2⟩, ?_, hsq, hD, hlt,
      ⟨hS', hq', by rw [hqs']; exact hsrv.qs, by rw [hlz']; exact hsrv.lz, hoq'⟩, by rw [hfs']; exact hfrag,
      by rw [hfs']; exact hDdef, hzo, by rw [hzr, ← hres]; subst hx0; rfl, ?_, ?_, ?_⟩
    · show CStatL P w2.cs.c
      rw [hcs]; exact cstatL_pingStateL h.st
    · show CntOk w2.cs.c 1
      rw [hcs]; exact (pingStateL_ids c2).2.2 0 h.cnt
    · show Client.isSending w2.cs.c = false
      rw [hcs]
      unfold Client.isSending
      rw [hpf.outpkt]
      exact h.idle
    · show [DownD.ans (pingStateL c2).chunkid P.ty name' pkt2] = [DownD.ans w2.cs.c.chunkid P.ty name' pkt2]
      rw [hcs]
    · show Client.notData w2.cs.c (name'.headD 0) = false
      have h0 : name'.getD 0 0 = 112 := by have := hpq.c0; rw [← hQ] at this; exact this
      rw [headD_eq_getD, h0]; simp [Client.notData]
    · show InWinC w2.cs.c sq
      rw [hcs]; exact hwin.congr hpf.inpkt
    · show (Server.getUser s' P.u).inpacket.seqno = w2.cs.c.outpkt.seqno
      rw [hin', h.syncu, hcs, hpf.outpkt]
    · show Aged P (Server.getUser s' P.u) w2.cs.c.datacmc 1
      rw [hcs, hpf.datacmc]; exact hA'
    · show PAged P (Server.getUser s' P.u) w2.cs.c.randSeed 1
      rw [hcs, hpf.seed]; exact hPA'
  · show w2.cs.c.sendPingSoon = 0
    rw [hcs]; exact hpf.sps
  · show w2.cs.c.inpkt = c2.inpkt
    rw [hcs]; exact hpf.inpkt

/-- the ping reaches the server when the fragment was already sent 6 times: the packet is dropped, the answer is DATALESS -/
theorem kill_step {P : Par} (hP : P.Ok) {w2 : W} {c2 : Client.Cli} {name' : List Nat} (h : PingUp P w2 c2 name')
    {out : List Nat} {sq : Int} {D r : Nat}
    (hop : (Server.getUser w2.srv P.u).outpacket = ⟨out.length, D, 0, out, sq, 0⟩)
    (hres : (Server.getUser w2.srv P.u).outfragresent = r) (hr : 5 < r)
    (hlt : D < out.length) (hsq : 0 ≤ sq ∧ sq < 8) (hwin : InWinC c2 sq) :
    ∃ w', step w2 (promptEv w2) = w' ∧ quiet P.u w2 = false ∧ DatalessFlightL P w' sq ∧
      w'.cs.c.inpkt = c2.inpkt ∧ w'.tunC = w2.tunC ∧ w'.tunS = w2.tunS ∧
      (Server.getUser w'.srv P.u).fragsize = (Server.getUser w2.srv P.u).fragsize ∧
      (Server.getUser w'.srv P.u).tunIp = (Server.getUser w2.srv P.u).tunIp := by
  have hpf := pingFactsL c2
  have hsrv := h.srv
  have hpq := h.pq
  have hq2 : quiet P.u w2 = false := quiet_false_of_up _ _ _ _ h.up
  generalize hx0 : ({ Server.getUser w2.srv P.u with qsNew := false } : Server.Session) = x0
  have hx0op : x0.outpacket = ⟨out.length, D, 0, out, sq, ((0 : Nat) : Int)⟩ := by subst hx0; exact hop
  have hmis := hwin.mismatch
  have hack : ackSess x0 c2.inpkt.seqno c2.inpkt.fragment = x0 := ackSess_other x0 _ _ (by rw [hx0op]; exact hmis)
  obtain ⟨s', evs, t, pkt2, hit, hdown2, htun2, hap, hA', hPA'⟩ :=
    srv_ping_lazy_any hP hsrv.stat hsrv.q hsrv.qs hsrv.oq hpq h.aged h.paged
      (by rw [hx0, hack, hx0op]; show 0 < out.length; omega)
  generalize hQ : upQuery (pingStateL c2).chunkid P.ty name' = Q at hit hdown2 hap hpq
  have hQid2 : Q.id2 = 0 := by rw [← hQ]; rfl
  have hslot : Server.getUser s' P.u = pingZ x0 P.u Q c2.inpkt.seqno c2.inpkt.fragment w2.srv.now := by
    rw [afterPing_slot hap, hx0]
  have hx0oq : x0.oqFilled = 0 := by subst hx0; exact hsrv.oq
  have hx0res : x0.outfragresent > 5 := by subst hx0; show (Server.getUser w2.srv P.u).outfragresent > 5; omega
  obtain ⟨hzo, hzr, hr1, hq1, hl1, yy, hyev, hyo, hyi⟩ := pingZ_kill x0 P.u Q c2.inpkt.seqno c2.inpkt.fragment w2.srv.now out sq 0 D 0
    hQid2 hx0oq hx0res hx0op (by omega) hmis
  rw [← hslot] at hzo hzr hr1 hq1 hl1
  have hpkt : pkt2 = Server.scPkt yy 0 := by
    have h1 := hap.pkt
    rw [hx0, hyev] at h1
    exact pkt_of_writeDns h1
  obtain ⟨hS', hq', hqs', hlz', hoq', hfs', hin', htun'⟩ := afterPing_stat_of hsrv.stat hsrv.oq hap (by rw [hr1, hx0])
    (by rw [hq1]) hl1 (by rw [hzo]; exact hsq) (by rw [hzo]; show (0 : Int) ≤ ((0 : Nat) : Int) ∧ ((0 : Nat) : Int) < 16; omega)
  have hdec := decodeHdr_scPkt yy 0 (by rw [hyi]; subst hx0; exact hsrv.stat.x.iseq) (by rw [hyi]; subst hx0; exact hsrv.stat.x.ifrag)
    (by rw [hyo]; exact hsq) (by rw [hyo]; show (0 : Int) ≤ ((0 : Nat) : Int) ∧ ((0 : Nat) : Int) < 16; omega)
  have hs2 : step w2 (promptEv w2) =
      { w2 with up := [], srv := s', down := [.ans (pingStateL c2).chunkid P.ty name' pkt2] } := by
    rw [promptEv_up w2 _ _ h.up, step_deliverUp w2 _ _ h.up, srvInput_query, hQ,
      stepS_zero { w2 with up := [] } _ s' evs t (by exact hit), hdown2, htun2]
    rw [← hQ]
    simp [h.down, upQuery]
  have hcs := h.cs
  refine ⟨_, hs2, hq2, ?_, ?_, rfl, rfl, hfs', htun'⟩
  · refine ⟨by show w2.cs.ph = _; rw [hcs], ?_, ?_, ?_, ?_, rfl, ⟨name', pkt2, ?_, ?_, ?_, ?_⟩, ?_,
      ⟨hS', hq', by rw [hqs']; exact hsrv.qs, by rw [hlz']; exact hsrv.lz, hoq'⟩, by rw [hzo], by rw [hzo], ?_, ?_, ?_⟩
    · show CStatL P w2.cs.c
      rw [hcs]; exact cstatL_pingStateL h.st
    · show CntOk w2.cs.c 1
      rw [hcs]; exact (pingStateL_ids c2).2.2 0 h.cnt
    · show Client.isSending w2.cs.c = false
      rw [hcs]
      unfold Client.isSending
      rw [hpf.outpkt]
      exact h.idle
    · show w2.cs.c.sendPingSoon = 0
      rw [hcs]; exact hpf.sps
    · show [DownD.ans (pingStateL c2).chunkid P.ty name' pkt2] = [DownD.ans w2.cs.c.chunkid P.ty name' pkt2]
      rw [hcs]
    · show Client.notData w2.cs.c (name'.headD 0) = false
      have h0 : name'.getD 0 0 = 112 := by have := hpq.c0; rw [← hQ] at this; exact this
      rw [headD_eq_getD, h0]; simp [Client.notData]
    · rw [hpkt, scPkt_length, Nat.zero_min]
    · rw [hpkt, hdec, hyo]
    · show InWinC w2.cs.c sq
      rw [hcs]; exact hwin.congr hpf.inpkt
    · show (Server.getUser s' P.u).inpacket.seqno = w2.cs.c.outpkt.seqno
      rw [hin', h.syncu, hcs, hpf.outpkt]
    · show Aged P (Server.getUser s' P.u) w2.cs.c.datacmc 1
      rw [hcs, hpf.datacmc]; exact hA'
    · show PAged P (Server.getUser s' P.u) w2.cs.c.randSeed 1
      rw [hcs, hpf.seed]; exact hPA'
  · show w2.cs.c.inpkt = c2.inpkt
    rw [hcs]; exact hpf.inpkt

/-! ### the cycles -/

/-- scheduler steps of one cycle: `deliverDown`, `tickC`, `deliverUp` — without the `tickC` if a ping was due at the client -/
def cycleSteps (sps : Nat) : Nat := if sps = 0 then 3 else 2

/-- one RESEND cycle -/
theorem drop_cycle {P : Par} (hP : P.Ok) {out : List Nat} {w : W} {sq : Int} {D r : Nat} (h : DropFlightL P out w sq D r)
    (hr : r ≤ 5) :
    ∃ w', promptSteps P.u (cycleSteps w.cs.c.sendPingSoon) w = some w' ∧ DropFlightL P out w' sq D (r + 1) ∧
      w'.cs.c.sendPingSoon = 0 ∧ Keeps P w w' := by
  obtain ⟨name, pkt, hdown, hnd, hfp⟩ := h.down
  obtain ⟨name', w2, hs1, hpu, hsrv2, htc2, hts2⟩ := drop_recv hP h.ph h.cst h.cnt h.idleC h.up hdown hnd hfp h.hD h.win h.srv
    h.syncu h.aged h.paged
  obtain ⟨w', hs2, hq2, hfl, hsps, hin, htc, hts, hfs, htip⟩ := resend_step hP hpu (out := out) (sq := sq) (D := D) (r := r)
    (by rw [hsrv2]; exact h.op) (by rw [hsrv2]; exact h.res) hr (by rw [hsrv2]; exact h.frag) (by rw [hsrv2]; exact h.hDdef)
    h.hD h.hlt h.hsq h.win
  refine ⟨w', ?_, hfl, hsps, ⟨by rw [htc, htc2], by rw [hts, hts2], by rw [hfs, hsrv2], by rw [htip, hsrv2], by rw [hin]; rfl⟩⟩
  have h3 : promptSteps P.u 1 w2 = some w' := by rw [promptSteps_succ hq2, hs2]; rfl
  have := promptSteps_add P.u _ 1 w w2 hs1
  rw [h3] at this
  rw [← this]
  unfold cycleSteps
  split <;> rfl

/-- `k` RESEND cycles from a client at which no ping is due -/
theorem drop_cycles {P : Par} (hP : P.Ok) {out : List Nat} {sq : Int} {D : Nat} :
    ∀ (k r : Nat) (w : W), DropFlightL P out w sq D r → w.cs.c.sendPingSoon = 0 → r + k ≤ 6 →
      ∃ w', promptSteps P.u (3 * k) w = some w' ∧ DropFlightL P out w' sq D (r + k) ∧ w'.cs.c.sendPingSoon = 0 ∧ Keeps P w w' := by
  intro k
  induction k with
  | zero => intro r w h hs _; exact ⟨w, rfl, h, hs, Keeps.refl P w⟩
  | succ k ih =>
    intro r w h hs hrk
    obtain ⟨w1, h1, hfl1, hs1, hk1⟩ := drop_cycle hP h (by omega)
    have hc : cycleSteps w.cs.c.sendPingSoon = 3 := by unfold cycleSteps; rw [if_pos hs]
    rw [hc] at h1
    obtain ⟨w', h2, hfl2, hs2, hk2⟩ := ih (r + 1) w1 hfl1 hs1 (by omega)
    refine ⟨w', ?_, by rw [show r + (k + 1) = r + 1 + k by omega]; exact hfl2, hs2, hk1.trans hk2⟩
    have := promptSteps_add P.u 3 (3 * k) w w1 h1
    rw [h2] at this
    rw [← this]
    congr 1
    omega

/-- the KILL cycle: the 7th call of `send_chunk_or_dataless` for the fragment drops the packet -/
theorem kill_cycle {P : Par} (hP : P.Ok) {out : List Nat} {w : W} {sq : Int} {D : Nat} (h : DropFlightL P out w sq D 6)
    (hs : w.cs.c.sendPingSoon = 0) :
    ∃ w', promptSteps P.u 3 w = some w' ∧ DatalessFlightL P w' sq ∧ Keeps P w w' := by
  obtain ⟨name, pkt, hdown, hnd, hfp⟩ := h.down
  obtain ⟨name', w2, hs1, hpu, hsrv2, htc2, hts2⟩ := drop_recv hP h.ph h.cst h.cnt h.idleC h.up hdown hnd hfp h.hD h.win h.srv
    h.syncu h.aged h.paged
  rw [if_pos hs] at hs1
  obtain ⟨w', hs2, hq2, hfl, hin, htc, hts, hfs, htip⟩ := kill_step hP hpu (out := out) (sq := sq) (D := D) (r := 6)
    (by rw [hsrv2]; exact h.op) (by rw [hsrv2]; exact h.res) (by omega) h.hlt h.hsq h.win
  refine ⟨w', ?_, hfl, ⟨by rw [htc, htc2], by rw [hts, hts2], by rw [hfs, hsrv2], by rw [htip, hsrv2], by rw [hin]; rfl⟩⟩
  have h3 : promptSteps P.u 1 w2 = some w' := by rw [promptSteps_succ hq2, hs2]; rfl
  have := promptSteps_add P.u 2 1 w w2 hs1
  rw [h3] at this
  rw [← this]

/-- the FINAL cycle: the dataless answer is not adopted; the client pings 900 ms later; the server holds that ping -/
theorem final_cycle {P : Par} (hP : P.Ok) {w : W} {sq : Int} (h : DatalessFlightL P w sq) {dd : Nat}
    (hdd : sq = (w.cs.c.inpkt.seqno + dd) % 8) :
    ∃ w', promptSteps P.u 3 w = some w' ∧ QuietLazyD P 0 dd w' ∧ w'.cs.c.sendPingSoon = 0 ∧ Keeps P w w' := by
  obtain ⟨name, pkt, hdown, hnd, hlen, hseq⟩ := h.down
  obtain ⟨name', w2, hs1, hpu, hsrv2, htc2, hts2⟩ := dataless_recv hP h.ph h.cst h.cnt h.idleC h.sps h.up hdown hnd hlen
    (by rw [hseq]; exact h.win.keep) h.srv h.syncu h.aged h.paged
  obtain ⟨w', hs2, hq2, hQ, hsps, htc, hts, hfs, htip, hin⟩ := hold_stepD hP hpu (by rw [hsrv2]; exact h.len0) (dd := dd)
    (by rw [hsrv2, h.oseq, hdd]; rfl)
  refine ⟨w', ?_, hQ, hsps, ⟨by rw [htc, htc2], by rw [hts, hts2], by rw [hfs, hsrv2], by rw [htip, hsrv2], by rw [hin]; rfl⟩⟩
  have h3 : promptSteps P.u 1 w2 = some w' := by rw [promptSteps_succ hq2, hs2]; rfl
  have := promptSteps_add P.u 2 1 w w2 hs1
  rw [h3] at this
  rw [← this]

end Iodine.C02L
