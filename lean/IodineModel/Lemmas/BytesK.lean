import IodineModel.Lemmas.BytesJ
/-
Helper lemmas for the byte-level server, part K: the invariant of the process and the forwarded query under the WIRE-LEVEL
hypothesis "the question labels of every received datagram contain no '.' and no NUL".

* what `read_dns` hands on is a legal name or a legal name followed by one dot (`toInput_q_plain`);
* a name with a trailing dot is never inside the tunnel domain (`queryDatalen_trailing_dot`), so it is neither stored nor
  answered by `write_dns`, `handle_ns_request`, `handle_a_request` — only forwarded;
* the invariants `BInv`, `BInv2` are kept by such iterations (`binv2_step_plain`);
* the forwarded query (`fwdBytes_wellformed`).
-/
namespace Iodine.BytesL
open Iodine Iodine.Server Iodine.Wire Iodine.C10 Iodine.C14L Iodine.Gen Iodine.Common

/-! ### the name `read_dns` hands on -/

/-- the non-empty pieces between the dots -/
def labelSeq (n : List Nat) : List (List Nat) := (labels n).filter (fun l => !l.isEmpty)

theorem labelSeq_eq_tokens (n : List Nat) : labelSeq n = Wire.Put.tokens n := by
  unfold labelSeq Wire.Put.tokens
  rw [labels_eq_split]

theorem labelSeq_legal {n : List Nat} (h : LegalName n) : labelSeq n = labels n := by
  unfold labelSeq
  rw [List.filter_eq_self]
  intro l hl
  have := (h.2.2 l hl).1
  cases l with
  | nil => simp at this
  | cons a l => rfl

theorem labels_trailing_dot (m : List Nat) : labels (m ++ [46]) = labels m ++ [[]] := by
  rw [labels_append_dot]; rfl

theorem labelSeq_trailing_dot (m : List Nat) : labelSeq (m ++ [46]) = labelSeq m := by
  unfold labelSeq
  rw [labels_trailing_dot, List.filter_append]
  simp

/-- a legal name, or a legal name (of at most 252 characters) followed by one dot; `ls` is its label sequence -/
def WeakLegal (n : List Nat) (ls : List (List Nat)) : Prop :=
  (LegalName n ∧ labels n = ls) ∨ ∃ m, n = m ++ [46] ∧ LegalName m ∧ m.length ≤ 252 ∧ labels m = ls

theorem WeakLegal.labelSeq {n : List Nat} {ls : List (List Nat)} (h : WeakLegal n ls) : labelSeq n = ls := by
  rcases h with ⟨h1, h2⟩ | ⟨m, rfl, h1, _, h2⟩
  · rw [labelSeq_legal h1, h2]
  · rw [labelSeq_trailing_dot, labelSeq_legal h1, h2]

theorem WeakLegal.bytes {n : List Nat} {ls : List (List Nat)} (h : WeakLegal n ls) : IsBytes n ∧ n.length ≤ 253 := by
  rcases h with ⟨h1, _⟩ | ⟨m, rfl, h1, h2, _⟩
  · exact ⟨fun c hc => (h1.2.1 c hc).2, h1.1⟩
  · refine ⟨fun c hc => ?_, by simp only [List.length_append, List.length_cons, List.length_nil]; omega⟩
    rcases List.mem_append.1 hc with hc | hc
    · exact (h1.2.1 c hc).2
    · rw [List.mem_singleton.1 hc]; decide

theorem weakLegal_of_shape {n : List Nat} {ls : List (List Nat)} (h : Shape n ls) (hne : n ≠ []) (hlen : n.length ≤ 253) :
    WeakLegal n ls := by
  obtain ⟨hg, ho | ⟨init, last, hls, ho⟩⟩ := h
  · have hlsne : ls ≠ [] := by
      intro e; apply hne; rw [ho, e]; rfl
    have hls : ls = ls.dropLast ++ [ls.getLast hlsne] := (List.dropLast_concat_getLast hlsne).symm
    have ho' : n = (dotEnd ls.dropLast ++ ls.getLast hlsne) ++ [46] := by
      rw [ho]
      conv => lhs; rw [hls]
      rw [dotEnd_append, dotEnd_single, List.append_assoc]
    have hl2 : (dotEnd ls.dropLast ++ ls.getLast hlsne).length ≤ 252 := by
      have := congrArg List.length ho'
      simp only [List.length_append, List.length_cons, List.length_nil] at this ⊢
      omega
    obtain ⟨h1, h2⟩ := legal_of_shape_last ls.dropLast (ls.getLast hlsne) (by rw [← hls]; exact hg) (by omega)
    exact Or.inr ⟨_, ho', h1, hl2, by rw [h2, ← hls]⟩
  · subst hls
    obtain ⟨h1, h2⟩ := legal_of_shape_last init last hg (by rw [← ho]; exact hlen)
    exact Or.inl ⟨ho ▸ h1, ho ▸ h2⟩

theorem not_legal_trailing_dot {m : List Nat} (h : LegalName (m ++ [46])) : False := by
  have := (h.2.2 [] (by rw [labels_trailing_dot]; simp)).1
  simp at this

theorem not_legal_dotEnd {n : List Nat} {ls : List (List Nat)} (h : LegalName n) (hn : n = dotEnd ls) (hne : n ≠ []) : False := by
  have hlsne : ls ≠ [] := by
    intro e; apply hne; rw [hn, e]; rfl
  have hls : ls = ls.dropLast ++ [ls.getLast hlsne] := (List.dropLast_concat_getLast hlsne).symm
  rw [hn, hls, dotEnd_append, dotEnd_single, ← List.append_assoc] at h
  exact not_legal_trailing_dot h

/-- the question labels on the wire (first 64 KiB of the datagram, `readname`'s budget of 10 activations) are plain -/
def PlainQuestion (bytes : List Nat) : Prop := ∀ l ∈ wireLabels (bytes.take 65536) 10 12, PlainLabel l

/-- the same for any input of an iteration -/
def PlainInput : BInput → Prop
  | .dgram _ bytes => PlainQuestion bytes
  | _ => True

theorem rxBuf_facts (pkt : List Nat) (h : pkt.length ≤ 65536) :
    (rxBuf #[] pkt).plen ≤ (rxBuf #[] pkt).cap ∧ (rxBuf #[] pkt).plen = pkt.length ∧
      ∀ i, (rxBuf #[] pkt).pkt.getD i 0 = pkt.getD i 0 := by
  refine ⟨by simpa [rxBuf, RxBuf.plen] using h, by simp [rxBuf, RxBuf.plen], fun i => ?_⟩
  show pkt.toArray.getD i 0 = pkt.getD i 0
  rw [Array.getD_eq_getD_getElem?]; simp [List.getD]

/-- **What `read_dns` hands on** for a datagram of bytes with plain question labels: a legal name, or a legal name followed by one
dot; its label sequence is a prefix of the labels on the wire. -/
theorem decodeInput_q_plain {s : Srv} {src : Addr} {bytes : List Nat} {q : Query} (h : decodeInput s src bytes = .q q)
    (hb : IsBytes bytes) (hp : PlainQuestion bytes) :
    ∃ ls, ls <+: wireLabels (bytes.take 65536) 10 12 ∧ WeakLegal q.name ls ∧
      (LegalName q.name → ls = wireLabels (bytes.take 65536) 10 12) := by
  unfold decodeInput decodeInputR at h
  simp only [] at h
  split at h
  · rename_i i hi
    split at hi
    · cases hi; cases h
    · split at hi
      · cases hi; cases h
      · obtain ⟨d, hd, hi⟩ := bind_eq_ok hi
        split at hi
        · cases hi; cases h
        · rename_i hrv
          cases hi
          cases h
          obtain ⟨h1, h2, h3⟩ := rxBuf_facts (bytes.take 65536) (by simp only [List.length_take]; omega)
          rcases dnsDecodeQuery_plain _ h1 (bytes.take 65536) h2 h3 (isBytes_take _ hb) hp hd with hl | ⟨ls, hpre, hsh, hx, hne, hlen⟩
          · exact absurd hl hrv
          · refine ⟨ls, hpre, weakLegal_of_shape hsh hne hlen, fun hleg => ?_⟩
            rcases hx with hx | hx
            · exact hx
            · exfalso
              exact not_legal_dotEnd hleg hx hne
  · cases h

theorem toInput_q_plain {s : Srv} {inp : BInput} {q : Query} (h : toInput s inp = .q q)
    (hb : ByteInput inp) (hp : PlainInput inp) : ∃ ls, WeakLegal q.name ls := by
  cases inp with
  | dgram src bytes =>
    obtain ⟨ls, _, hw, _⟩ := decodeInput_q_plain (s := s) h hb hp
    exact ⟨ls, hw⟩
  | tun f => cases h
  | bind b => cases h
  | tick => cases h

/-! ### a trailing dot is outside every tunnel domain -/

theorem splitOn_trailing (x : List Nat) : ∃ pre, pre ≠ [] ∧ C17.splitOn 46 (x ++ [46]) = pre ++ [[]] := by
  induction x with
  | nil => exact ⟨[[]], by simp, by simp [C17.splitOn]⟩
  | cons c x ih =>
    obtain ⟨pre, hne, hpre⟩ := ih
    simp only [List.cons_append, C17.splitOn]
    split
    · exact ⟨[] :: pre, by simp, by rw [hpre]; rfl⟩
    · cases pre with
      | nil => exact absurd rfl hne
      | cons p ps =>
        rw [hpre]
        exact ⟨(c :: p) :: ps, by simp, rfl⟩

/-- a top domain that `check_topdomain` accepts ends in a letter, a digit or '-' -/
theorem topdomain_last {t : List Nat} (ht : checkTopdomain t true = 0) :
    ∃ init tc, t = init ++ [tc] ∧ tc ≠ 42 ∧ toLower tc ≠ 46 ∧ 3 ≤ t.length := by
  obtain ⟨h3, _, hch, _, hlab⟩ := (C17.check_topdomain_iff_spec t true).1 ht
  have hne : t ≠ [] := by intro e; rw [e] at h3; simp at h3
  have ht' : t = t.dropLast ++ [t.getLast hne] := (List.dropLast_concat_getLast hne).symm
  have hdom : C17.DomChar (t.getLast hne) := by
    rcases hch with h | ⟨_, _, h⟩
    · exact h _ (List.getLast_mem hne)
    · apply h
      have hd : t.drop 2 ≠ [] := by
        intro e
        have := congrArg List.length e
        simp only [List.length_drop, List.length_nil] at this
        omega
      rw [← List.getLast_drop hd]
      exact List.getLast_mem hd
  have h46 : t.getLast hne ≠ 46 := by
    intro e
    obtain ⟨pre, _, hpre⟩ := splitOn_trailing t.dropLast
    rw [show t.dropLast ++ [46] = t by rw [← e]; exact ht'.symm] at hpre
    have := (hlab [] (by rw [hpre]; simp)).1
    simp at this
  refine ⟨t.dropLast, t.getLast hne, ht', ?_, ?_, h3⟩
  · intro e
    rw [e] at hdom
    revert hdom
    decide
  · intro e
    apply h46
    unfold toLower at e
    split at e
    · rename_i h
      simp only [Bool.and_eq_true, decide_eq_true_eq] at h
      omega
    · exact e

theorem queryDatalen_trailing_dot (m t : List Nat) (ht : checkTopdomain t true = 0) : queryDatalen (m ++ [46]) t = none := by
  obtain ⟨init, tc, rfl, h42, h46, _⟩ := topdomain_last ht
  unfold queryDatalen
  split
  · rfl
  · simp only [List.reverse_append, List.reverse_cons, List.reverse_nil, List.nil_append, List.cons_append, qdScan]
    rw [if_neg h42, if_neg (fun e => h46 (by rw [← e]; rfl))]

/-! ### the invariant of the process -/

/-- a query outside the tunnel domain leaves the stored queries alone and is never answered by `write_dns` or `nsa` -/
theorem tunnelDns_nomatch (s : Srv) (q : Query) (h : queryDatalen q.name s.cfg.topdomain = none) :
    (tunnelDns s q).1.users = s.users ∧ ∀ e ∈ (tunnelDns s q).2, ∃ d, e = Event.fwd d := by
  unfold tunnelDns
  split
  · simp
  · rw [h]
    simp only
    split
    · simp [forwardQuery]
    · simp

/-- `iteration_keys` where the arriving query only has to satisfy `P` if it lies inside the tunnel domain -/
theorem iteration_keys_plain (P : Key → Prop) (s : Srv) (inp : Input) (now' : Nat)
    (hwf : ∀ q, inp = .q q → q.id2 = 0)
    (hP : ∀ q, inp = .q q → TunnelType q.type → queryDatalen q.name s.cfg.topdomain ≠ none → P (keyOf q))
    (hinv : KeyInv P s) :
    AnsInv P (out s ⟨inp, now'⟩) ∧ KeyInv P (next s ⟨inp, now'⟩) := by
  by_cases hq : ∃ q, inp = .q q ∧ queryDatalen q.name s.cfg.topdomain = none
  · obtain ⟨q, rfl, hnone⟩ := hq
    have hnt := tunnelDns_nomatch { (topOfLoop s).1 with now := now' } q hnone
    have hsq : SameQ s (tunnelDns { (topOfLoop s).1 with now := now' } q).1 :=
      (sameQ_topOfLoop s now').trans (sameQ_users hnt.1)
    have hsw := sweepFrom_bal Query.zero [] (tunnelDns { (topOfLoop s).1 with now := now' } q).1.cfg.createdUsers 0
      (tunnelDns { (topOfLoop s).1 with now := now' } q).1
    have hle := hsw.le
    simp only [List.append_nil] at hle
    have hk := keys_of_le (P := P) hle (by rw [hsq.held_eq]; exact hinv)
    constructor
    · intro dst id ty dn name data tag he
      have he' : Event.ans dst id ty dn name data tag ∈
          ((tunnelDns { (topOfLoop s).1 with now := now' } q).2 ++ [Event.sweep]) ++
            (sweepFrom (tunnelDns { (topOfLoop s).1 with now := now' } q).1.cfg.createdUsers 0
              (tunnelDns { (topOfLoop s).1 with now := now' } q).1).2 := he
      rcases List.mem_append.1 he' with h1 | h1
      · rcases List.mem_append.1 h1 with h2 | h2
        · obtain ⟨d, hd⟩ := hnt.2 _ h2
          cases hd
        · simp at h2
      · exact hk.1 dst id ty dn name data tag h1
    · exact hk.2
  · exact iteration_keys P s inp now' hwf
      (fun q hi hty => hP q hi hty (fun hn => hq ⟨q, hi, hn⟩)) hinv

/-- one byte-level iteration on a datagram of bytes with plain question labels keeps the invariant and every `write_dns` goes to a
good key -/
theorem binv_step_plain {b : BSrv} (hb : BInv b) (hcfg : checkTopdomain b.srv.cfg.topdomain true = 0)
    (inp : BInput) (now' : Nat) (hby : ByteInput inp) (hpl : PlainInput inp) :
    BInv (biteration b inp now').1 ∧ AnsInv GoodKey (out b.srv ⟨toInput b.srv inp, now'⟩) := by
  have hk := iteration_keys_plain GoodKey b.srv (toInput b.srv inp) now'
    (fun q hq => (toInput_q hq).1)
    (fun q hq hty hmatch => by
      refine ⟨(toInput_q hq).2.1, ?_, hty⟩
      obtain ⟨ls, ⟨h1, _⟩ | ⟨m, hm, _⟩⟩ := toInput_q_plain hq hby hpl
      · exact h1
      · exfalso
        apply hmatch
        show queryDatalen q.name b.srv.cfg.topdomain = none
        rw [hm]
        exact queryDatalen_trailing_dot m _ hcfg) hb.keys
  refine ⟨⟨?_, hk.2⟩, hk.1⟩
  exact (encodeEventsL_spec _ _ _ _ hb.td).1

theorem inputBytes_toInput_plain (s : Srv) (inp : BInput) (hb : ByteInput inp) (hp : PlainInput inp) : InputBytes (toInput s inp) := by
  cases hti : toInput s inp with
  | q q =>
    obtain ⟨ls, hw⟩ := toInput_q_plain hti hb hp
    exact ⟨hw.bytes.1, by have := hw.bytes.2; omega⟩
  | rawf src' pkt =>
    cases inp with
    | dgram src bytes =>
      unfold toInput decodeInput decodeInputR at hti
      simp only [] at hti
      split at hti
      · rename_i i hi
        split at hi
        · cases hi; cases hti
        · split at hi
          · cases hi; cases hti
            exact isBytes_take _ hb
          · obtain ⟨d, _, hi⟩ := bind_eq_ok hi
            split at hi <;> (cases hi; cases hti)
      · cases hti
    | tun f => cases hti
    | bind d => cases hti
    | tick => cases hti
  | tun f =>
    cases inp with
    | dgram src bytes =>
      exfalso
      unfold toInput decodeInput decodeInputR at hti
      simp only [] at hti
      split at hti
      · rename_i i hi
        split at hi
        · cases hi; cases hti
        · split at hi
          · cases hi; cases hti
          · obtain ⟨d, _, hi⟩ := bind_eq_ok hi
            split at hi <;> (cases hi; cases hti)
      · cases hti
    | tun f' => cases hti; exact hb
    | bind d => cases hti
    | tick => cases hti
  | bind d => trivial
  | tick => trivial

theorem binv2_step_plain {b : BSrv} (hb : BInv2 b) (inp : BInput) (now' : Nat) (hby : ByteInput inp) (hpl : PlainInput inp) :
    BInv2 (biteration b inp now').1 ∧ AnsInv GoodKey (out b.srv ⟨toInput b.srv inp, now'⟩) ∧
      AnsOK (out b.srv ⟨toInput b.srv inp, now'⟩) := by
  have h1 := binv_step_plain hb.base hb.cfg.2 inp now' hby hpl
  have h2 := iteration_data hb.data hb.cfg.1 (toInput b.srv inp) (inputBytes_toInput_plain b.srv inp hby hpl) now'
  refine ⟨⟨h1.1, h2.1, ?_⟩, h1.2, h2.2⟩
  have : (biteration b inp now').1.srv.cfg = b.srv.cfg := C04L.iteration_cfg b.srv (toInput b.srv inp) now'
  rw [this]
  exact hb.cfg

/-! ### the forwarded query -/

theorem tokens_trailing_dot (m : List Nat) : Wire.Put.tokens (m ++ [46]) = Wire.Put.tokens m := by
  rw [← labelSeq_eq_tokens, ← labelSeq_eq_tokens, labelSeq_trailing_dot]

/-- **`forward_query`.**  For a 16-bit id and type and a name that is legal or legal with one trailing dot, the datagram is sent and
is a well-formed query: that id, flags RD, one question with the label sequence of the name, the type, class IN; no answer or
authority records; one additional record, the EDNS0 OPT. -/
theorem fwdBytes_wellformed (q : Query) (ls : List (List Nat)) (hid : q.id < 65536) (hty : q.type < 65536)
    (hw : WeakLegal q.name ls) :
    ∃ bytes, fwdBytes q = some bytes ∧
      Wire.Strict.parseMsg bytes = some ⟨q.id, 0x0100, [(ls, q.type, 1)], [], [], [optRR]⟩ := by
  unfold fwdBytes
  have key : ∀ m, LegalName m → labels m = ls → Wire.DnsEncode.dnsEncodeQuery 65536 q.id q.type true q.name =
      Wire.DnsEncode.dnsEncodeQuery 65536 q.id q.type true m →
      ∃ bytes, sent (Wire.DnsEncode.dnsEncodeQuery 65536 q.id q.type true q.name) = some bytes ∧
        Wire.Strict.parseMsg bytes = some ⟨q.id, 0x0100, [(ls, q.type, 1)], [], [], [optRR]⟩ := by
    intro m hm hl he
    obtain ⟨pkt, h1, h2, h3⟩ := query_wellformed 65536 q.id q.type true m hid hty hm (by have := hm.1; simp; omega)
    rw [he, h1]
    refine ⟨pkt, ?_, by rw [h3, hl]; rfl⟩
    unfold sent
    simp only
    rw [if_neg (by rw [h2]; simp)]
  rcases hw with ⟨h1, h2⟩ | ⟨m, hm, h1, hlen, h2⟩
  · exact key q.name h1 h2 rfl
  · apply key m h1 h2
    have nf := nameFacts h1
    rw [hm, Wire.DnsEncode.dnsEncodeQuery_ok 65536 q.id q.type true (m ++ [46]) (by rw [tokens_trailing_dot]; exact nf.le63)
        (by simp only [List.length_append, List.length_cons, List.length_nil]; simp; omega),
      Wire.DnsEncode.dnsEncodeQuery_ok 65536 q.id q.type true m nf.le63 (by simp; omega), tokens_trailing_dot]

end Iodine.BytesL
