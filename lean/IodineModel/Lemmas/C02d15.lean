import IodineModel.Lemmas.C02d14
/-
Downstream transfer in immediate mode: induction over the fragments, the whole packet, sequences.
-/
namespace Iodine.C02L
open Iodine Iodine.Gen Iodine.World

/-- the number of fragments the server cuts `rest` bytes into (fragment size `F`; `fuel ≥ rest` suffices) -/
def downFrags (F : Nat) : Nat → Nat → Nat
  | 0, _ => 0
  | fuel + 1, rest => if rest = 0 then 0 else 1 + downFrags F fuel (rest - downLen F rest)

theorem downFrags_zero (F fuel : Nat) : downFrags F fuel 0 = 0 := by
  cases fuel <;> simp [downFrags]

theorem down_loop {P : Par} (hP : P.Ok) {frame : List Nat} (h64 : (0x5a :: frame).length ≤ 65536) (h4 : 4 ≤ frame.length)
    {sq : Int} (F : Nat) :
    ∀ (fuel : Nat) (w : W) (c0 : Client.Cli) (o m f : Nat), DownPing P (0x5a :: frame) w c0 sq o m f →
      (Server.getUser w.srv P.u).fragsize = F → (0x5a :: frame).length - (o + m) ≤ fuel →
      f + downFrags F fuel ((0x5a :: frame).length - (o + m)) < 16 →
      ∃ w', promptSteps P.u (2 * downFrags F fuel ((0x5a :: frame).length - (o + m)) + 3) w = some w' ∧ QuietImm P w' ∧
        w'.tunC = w.tunC ++ [tunImage frame] ∧ w'.tunS = w.tunS ∧
        (Server.getUser w'.srv P.u).fragsize = F ∧ (Server.getUser w'.srv P.u).tunIp = (Server.getUser w.srv P.u).tunIp ∧
        (Server.getUser w'.srv P.u).lastPkt = w'.srv.now ∧ w'.cs.c.lastdownstreamtime = w'.cs.c.now ∧
        w'.cs.c.selecttimeout = c0.selecttimeout ∧ w'.cs.c.sendPingSoon ≤ 5 := by
  intro fuel
  induction fuel with
  | zero =>
    intro w c0 o m f h _ hl
    have := h.hlt
    omega
  | succ fuel ih =>
    intro w c0 o m f h hF hl hf
    have hr0 : (0x5a :: frame).length - (o + m) ≠ 0 := by have := h.hlt; omega
    have hu : downFrags F (fuel + 1) ((0x5a :: frame).length - (o + m)) =
        1 + downFrags F fuel ((0x5a :: frame).length - (o + m) - downLen F ((0x5a :: frame).length - (o + m))) := by
      show (if (0x5a :: frame).length - (o + m) = 0 then 0 else
        1 + downFrags F fuel ((0x5a :: frame).length - (o + m) - downLen F ((0x5a :: frame).length - (o + m)))) = _
      rw [if_neg hr0]
    rw [hu] at hf ⊢
    obtain ⟨D, hD, hDpos, hDle, w1, hs, hfs, htip, hts, hsel1, hmid, hlast⟩ := down_next hP h h64 h4 (by omega)
    have hwsel : w.cs.c.selecttimeout = c0.selecttimeout := by rw [h.cli]; exact (pingFacts c0).selto
    rw [hF] at hD
    rw [← hD] at hf ⊢
    by_cases he : o + m + D = (0x5a :: frame).length
    · obtain ⟨hdel, htc⟩ := hlast he
      have hz : (0x5a :: frame).length - (o + m) - D = 0 := by omega
      rw [hz, downFrags_zero]
      obtain ⟨w', h1, h2, h3, h4', h5, h6, h7, h8, h9, h10⟩ := down_finish hP hdel (by omega)
      refine ⟨w', ?_, h2, by rw [h4', htc], by rw [h3, hts], by rw [h5, hfs, hF], by rw [h6, htip], h7, h8, by rw [h9, hsel1, hwsel], h10⟩
      have := promptSteps_add P.u 2 3 w w1 hs
      rw [h1] at this
      exact this
    · obtain ⟨c1, hping, htc⟩ := hmid (by omega)
      have hrest : (0x5a :: frame).length - (o + m + D) = (0x5a :: frame).length - (o + m) - D := by omega
      obtain ⟨w', h1, h2, h3, h4', h5, h6, h7, h8, h9, h10⟩ := ih w1 c1 (o + m) D (f + 1) hping (by rw [hfs, hF])
        (by rw [hrest]; omega) (by rw [hrest]; omega)
      rw [hrest] at h1
      have hc1sel : c1.selecttimeout = c0.selecttimeout := by
        have e1 : w1.cs.c = pingState c1 := hping.cli
        have := hsel1
        rw [e1, (pingFacts c1).selto, hwsel] at this
        exact this
      refine ⟨w', ?_, h2, by rw [h3, htc], by rw [h4', hts], h5, by rw [h6, htip], h7, h8, by rw [h9, hc1sel], h10⟩
      have := promptSteps_add P.u 2 (2 * downFrags F fuel ((0x5a :: frame).length - (o + m) - D) + 3) w w1 hs
      rw [h1] at this
      rw [← this]
      congr 1
      omega

/-- what a frame must satisfy to be carried downstream as one packet of at most 16 fragments and be written to the
client's tun device: an IP packet addressed to the client's tunnel address, shorter than 64 KiB -/
structure DownFrameOk (tunIp F : Nat) (frame : List Nat) : Prop where
  h24 : 24 ≤ frame.length
  hl : frame.length < 65536
  dst : Server.ipDst frame = tunIp
  frags : downFrags F (frame.length + 1) (frame.length + 1) ≤ 16

/-- the number of scheduler steps of a downstream packet of `g` fragments (after `offerS`) -/
def downSteps (g : Nat) : Nat := if g = 1 then 3 else 2 * g + 4

/-- **One packet downstream, immediate mode.**  From a quiescent joint state whose timers leave room for one poll
(the client's `select` timeout is below the server's 10 s and neither 60 s limit is reached within it), a frame offered
to the server is fetched by the client's polls: after `downSteps g` steps (`g` = number of fragments) the joint state is
quiescent again, the client has written exactly that frame to its tun device, the server nothing. -/
theorem down_packet_imm {P : Par} (hP : P.Ok) {w : W} (hq : QuietImm P w) (frame : List Nat)
    (hF : 0 < (Server.getUser w.srv P.u).fragsize)
    (hok : DownFrameOk (Server.getUser w.srv P.u).tunIp (Server.getUser w.srv P.u).fragsize frame)
    (hto : (Client.selectOf w.cs.c).to < 10000000)
    (hexp : ¬ w.cs.c.lastdownstreamtime + 60 < w.cs.c.now + ((Client.selectOf w.cs.c).to / 1000000).toNat)
    (hlive : w.srv.now + ((Client.selectOf w.cs.c).to / 1000000).toNat < (Server.getUser w.srv P.u).lastPkt + 60) :
    ∃ w', promptSteps P.u (downSteps (downFrags (Server.getUser w.srv P.u).fragsize (frame.length + 1) (frame.length + 1)))
        (step w (.offerS frame)) = some w' ∧
      QuietImm P w' ∧ w'.tunC = w.tunC ++ [tunImage frame] ∧ w'.tunS = w.tunS ∧
      (Server.getUser w'.srv P.u).fragsize = (Server.getUser w.srv P.u).fragsize ∧
      (Server.getUser w'.srv P.u).tunIp = (Server.getUser w.srv P.u).tunIp ∧
      (Server.getUser w'.srv P.u).lastPkt = w'.srv.now ∧ w'.cs.c.lastdownstreamtime = w'.cs.c.now ∧
      w'.cs.c.selecttimeout = w.cs.c.selecttimeout ∧ w'.cs.c.sendPingSoon ≤ 5 := by
  generalize hFdef : (Server.getUser w.srv P.u).fragsize = F at hok hF ⊢
  obtain ⟨w1, hw1, hidle, ht1, ht2, htip1, hfs1, hnow1, hlp1, hcs1⟩ := down_offer hP hq frame hok.h24 hok.hl hok.dst (by rw [hFdef]; exact hF)
  rw [hw1]
  have hlen : (0x5a :: frame).length = frame.length + 1 := by simp
  obtain ⟨D, hD, hDpos, hDle, w2, hs, hfs2, htip2, hts2, hsel2, hmid, hwhole⟩ := down_first hP hidle (by rw [hlen]; have := hok.hl; omega)
    (by have := hok.h24; omega) (by rw [hcs1]; exact hto) (by rw [hcs1]; exact hexp) (by rw [hcs1, hnow1, hlp1]; exact hlive)
  rw [hfs1, hFdef, hlen] at hD
  have hu : downFrags F (frame.length + 1) (frame.length + 1) = 1 + downFrags F frame.length (frame.length + 1 - D) := by
    show (if frame.length + 1 = 0 then 0 else 1 + downFrags F frame.length (frame.length + 1 - downLen F (frame.length + 1))) = _
    rw [if_neg (by omega), hD]
  rw [hu]
  rw [hlen] at hmid hwhole hDle
  by_cases he : D = frame.length + 1
  · obtain ⟨hq2, htc, hx1, hx2, hx3, hx4⟩ := hwhole he
    have hz : frame.length + 1 - D = 0 := by omega
    rw [hz, downFrags_zero]
    refine ⟨w2, by simpa [downSteps] using hs, hq2, by rw [htc, ht2], by rw [hts2, ht1], by rw [hfs2, hfs1, hFdef], by rw [htip2, htip1],
      hx1, hx2, by rw [hx3, hcs1], hx4⟩
  · obtain ⟨c0, hping, htc⟩ := hmid (by omega)
    have hfr := hok.frags
    rw [hu] at hfr
    obtain ⟨w', h1, h2, h3, h4, h5, h6, h7, h8, h9, h10⟩ := down_loop hP (frame := frame) (by rw [hlen]; have := hok.hl; omega) (by have := hok.h24; omega) F
      frame.length w2 c0 0 D 0 hping (by rw [hfs2, hfs1, hFdef]) (by rw [hlen]; omega) (by rw [hlen]; simp only [Nat.zero_add]; omega)
    rw [hlen] at h1
    simp only [Nat.zero_add] at h1
    have hg1 : 1 ≤ downFrags F frame.length (frame.length + 1 - D) := by
      cases hfl : frame.length with
      | zero => have := hok.h24; omega
      | succ k =>
        have : k + 1 + 1 - D ≠ 0 := by omega
        show 1 ≤ (if k + 1 + 1 - D = 0 then 0 else 1 + downFrags F k (k + 1 + 1 - D - downLen F (k + 1 + 1 - D)))
        rw [if_neg this]; omega
    have hc0sel : c0.selecttimeout = w.cs.c.selecttimeout := by
      have e1 : w2.cs.c = pingState c0 := hping.cli
      have := hsel2
      rw [e1, (pingFacts c0).selto, hcs1] at this
      exact this
    refine ⟨w', ?_, h2, by rw [h3, htc, ht2], by rw [h4, hts2, ht1], by rw [h5], by rw [h6, htip2, htip1], h7, h8, by rw [h9, hc0sel], h10⟩
    have := promptSteps_add P.u 3 (2 * downFrags F frame.length (frame.length + 1 - D) + 3) w1 w2 hs
    rw [h1] at this
    rw [← this]
    congr 1
    unfold downSteps
    rw [if_neg (by omega)]
    omega


/-! ### sequences of packets -/

/-- the timers of a quiescent joint state leave room for one poll of the client: its `select` timeout is below the
server's 10 s, and neither side's 60 s limit is reached within it -/
structure Roomy (P : Par) (w : W) : Prop where
  to : (Client.selectOf w.cs.c).to < 10000000
  cli : ¬ w.cs.c.lastdownstreamtime + 60 < w.cs.c.now + ((Client.selectOf w.cs.c).to / 1000000).toNat
  srv : w.srv.now + ((Client.selectOf w.cs.c).to / 1000000).toNat < (Server.getUser w.srv P.u).lastPkt + 60

/-- right after a downstream packet both sides have just heard from each other: there is room again -/
theorem roomy_after {P : Par} {w : W} (hq : QuietImm P w) (h1 : (Server.getUser w.srv P.u).lastPkt = w.srv.now)
    (h2 : w.cs.c.lastdownstreamtime = w.cs.c.now) (h3 : w.cs.c.selecttimeout ≤ 9) (h4 : w.cs.c.sendPingSoon ≤ 5) : Roomy P w := by
  have hto : (Client.selectOf w.cs.c).to ≤ 9000000 := by
    unfold Client.selectOf
    simp only [hq.idleC, Bool.false_eq_true, if_false]
    split <;> omega
  refine ⟨by omega, ?_, ?_⟩
  · rw [h2]; omega
  · rw [h1]; omega

/-- **A sequence of packets downstream, immediate mode**: each frame is offered to the server after the previous one
was delivered; all of them arrive at the client's tun device exactly once, in order; quiescent again. -/
theorem down_sequence_imm {P : Par} (hP : P.Ok) (fuel : Nat) (hfuel : 36 ≤ fuel) :
    ∀ (frames : List (List Nat)) (w : W), QuietImm P w → Roomy P w → w.cs.c.selecttimeout ≤ 9 →
      0 < (Server.getUser w.srv P.u).fragsize →
      (∀ f ∈ frames, DownFrameOk (Server.getUser w.srv P.u).tunIp (Server.getUser w.srv P.u).fragsize f) →
      QuietImm P (offerAllS P.u fuel w frames) ∧
      (offerAllS P.u fuel w frames).tunC = w.tunC ++ frames.map tunImage ∧
      (offerAllS P.u fuel w frames).tunS = w.tunS := by
  intro frames
  induction frames with
  | nil => intro w hq _ _ _ _; exact ⟨hq, by simp [offerAllS], rfl⟩
  | cons f fs ih =>
    intro w hq hr hsel hF hok
    have hf := hok f List.mem_cons_self
    obtain ⟨w', h1, h2, h3, h4, h5, h6, h7, h8, h9, h10⟩ := down_packet_imm hP hq f hF hf hr.to hr.cli hr.srv
    have hsteps : downSteps (downFrags (Server.getUser w.srv P.u).fragsize (f.length + 1) (f.length + 1)) ≤ fuel := by
      have := hf.frags
      unfold downSteps
      split <;> omega
    have hrun : runPrompt P.u fuel (step w (.offerS f)) = w' := runPrompt_of_steps P.u _ _ _ h1 h2.quiet fuel hsteps
    have := ih w' h2 (roomy_after h2 h7 h8 (by rw [h9]; exact hsel) h10) (by rw [h9]; exact hsel) (by rw [h5]; exact hF)
      (fun g hg => by rw [h5, h6]; exact hok g (List.mem_cons_of_mem _ hg))
    unfold offerAllS
    rw [hrun]
    refine ⟨this.1, ?_, ?_⟩
    · rw [this.2.1, h3]; simp
    · rw [this.2.2, h4]


/-! ### both directions, one packet after the other -/

/-- after an upstream packet the client's 20 ms timer is armed: there is room -/
theorem roomy_of_sps {P : Par} {w : W} (hq : QuietImm P w) (h : w.cs.c.sendPingSoon = 20) : Roomy P w := by
  have hto : (Client.selectOf w.cs.c).to = 20000 := by simp [Client.selectOf, h]
  refine ⟨by rw [hto]; omega, ?_, ?_⟩
  · rw [hto]; exact hq.cst.alive
  · rw [hto]; exact hq.srv.live

/-- an offer the theorems speak about -/
def OfferOk (P : Par) (tunIp F : Nat) : Offer → Prop
  | .toServer f => UpFrameOk P tunIp f
  | .toClient f => DownFrameOk tunIp F f

/-- **Packets offered on both sides, one after the other (immediate mode)**: every frame reaches the peer's tun device
exactly once, each direction in the order offered; quiescent again. -/
theorem mixed_sequence_imm {P : Par} (hP : P.Ok) (fuel : Nat) (hfuel : 36 ≤ fuel) :
    ∀ (offers : List Offer) (w : W), QuietImm P w → Roomy P w → w.cs.c.selecttimeout ≤ 9 →
      0 < (Server.getUser w.srv P.u).fragsize →
      (∀ o ∈ offers, OfferOk P (Server.getUser w.srv P.u).tunIp (Server.getUser w.srv P.u).fragsize o) →
      QuietImm P (offerAll P.u fuel w offers) ∧
      (offerAll P.u fuel w offers).tunS = w.tunS ++ (Offer.ups offers).map tunImage ∧
      (offerAll P.u fuel w offers).tunC = w.tunC ++ (Offer.downs offers).map tunImage := by
  intro offers
  induction offers with
  | nil => intro w hq _ _ _ _; exact ⟨hq, by simp [offerAll, Offer.ups], by simp [offerAll, Offer.downs]⟩
  | cons o os ih =>
    intro w hq hr hsel hF hok
    have ho := hok o List.mem_cons_self
    cases o with
    | toServer f =>
      have hf : UpFrameOk P (Server.getUser w.srv P.u).tunIp f := ho
      obtain ⟨w', h1, h2, h3, h4, h5, h6, h7, h8⟩ := up_packet_imm hP hq f hf.h24 hf.hl hf.bytes hf.dst hf.frags
      have hrun : runPrompt P.u fuel (step w (.offerC f)) = w' :=
        runPrompt_of_steps P.u _ _ _ h1 h2.quiet fuel (by have := hf.frags; omega)
      have := ih w' h2 (roomy_of_sps h2 h6) (by rw [h7]; exact hsel) (by rw [h8]; exact hF)
        (fun g hg => by rw [h5, h8]; exact hok g (List.mem_cons_of_mem _ hg))
      unfold offerAll
      rw [hrun]
      refine ⟨this.1, ?_, ?_⟩
      · rw [this.2.1, h3]; simp [Offer.ups, tunImage]
      · rw [this.2.2, h4]; simp [Offer.downs]
    | toClient f =>
      have hf : DownFrameOk (Server.getUser w.srv P.u).tunIp (Server.getUser w.srv P.u).fragsize f := ho
      obtain ⟨w', h1, h2, h3, h4, h5, h6, h7, h8, h9, h10⟩ := down_packet_imm hP hq f hF hf hr.to hr.cli hr.srv
      have hsteps : downSteps (downFrags (Server.getUser w.srv P.u).fragsize (f.length + 1) (f.length + 1)) ≤ fuel := by
        have := hf.frags
        unfold downSteps
        split <;> omega
      have hrun : runPrompt P.u fuel (step w (.offerS f)) = w' := runPrompt_of_steps P.u _ _ _ h1 h2.quiet fuel hsteps
      have := ih w' h2 (roomy_after h2 h7 h8 (by rw [h9]; exact hsel) h10) (by rw [h9]; exact hsel) (by rw [h5]; exact hF)
        (fun g hg => by rw [h5, h6]; exact hok g (List.mem_cons_of_mem _ hg))
      unfold offerAll
      rw [hrun]
      refine ⟨this.1, ?_, ?_⟩
      · rw [this.2.1, h4]; simp [Offer.ups]
      · rw [this.2.2, h3]; simp [Offer.downs]

end Iodine.C02L
