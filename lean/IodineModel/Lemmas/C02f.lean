import IodineModel.Lemmas.SrvC16a
import IodineModel.Lemmas.C02v4
/-
Freshness of the server's duplicate memories as an INVARIANT: every remembered data query of the session carries a
data-CMC counter value that the client used at most `ring distance + slack` sends ago.  Since the rings are shorter than the
period of the counter (15 resp. 4 entries, period 36), the query the client sends next is never found in them.
-/
namespace Iodine.C02L
open Iodine Iodine.Gen Iodine.Server
open Iodine.C16L (ringPos ringFill ringFill_lt ring_push_zero ring_push_succ ringPos_lt ringPos_surj)

/-- the counter value `c` is `a` steps behind `k` (counter modulo `M`, all values `< M`) -/
def Behind (M k c a : Nat) : Prop := c < M ∧ (c + a = k ∨ c + a = k + M)

/-- the successor of a counter value -/
def nxt (M k : Nat) : Nat := if k + 1 ≥ M then 0 else k + 1

/-- every relevant entry of a ring memory (relevance and counter value given by `Rel`) was written with a counter value
that is between 1 and `distance + sl` steps behind `k` -/
def RingAged {α : Type} (L : Nat) (mem : List α) (last : Nat) (d : α) (Rel : α → Nat → Prop) (k M sl : Nat) : Prop :=
  ∀ i, i < L → ∀ c, Rel (mem.getD (ringPos L last i) d) c → ∃ a, 1 ≤ a ∧ a ≤ i + sl ∧ Behind M k c a

/-- an entry whose counter value is `k` itself is not in an aged ring -/
theorem RingAged.miss {α : Type} {L : Nat} {mem : List α} {last : Nat} {d : α} {Rel : α → Nat → Prop} {k M sl : Nat}
    (h : RingAged L mem last d Rel k M sl) (hlen : mem.length = L) (hlast : last < L) (hM : L + sl ≤ M)
    (e : α) (he : e ∈ mem) : ¬ Rel e k := by
  intro hr
  obtain ⟨j, hj, hej⟩ := List.getElem_of_mem he
  obtain ⟨i, hi, hp⟩ := ringPos_surj L last j hlast (by omega)
  have hg : mem.getD (ringPos L last i) d = e := by
    rw [hp, List.getD_eq_getElem?_getD, List.getElem?_eq_getElem hj, hej]; rfl
  obtain ⟨a, h1, h2, h3, h4⟩ := h i hi k (hg ▸ hr)
  omega

/-- the counter advances (a query was sent that is not yet remembered): one more step of slack -/
theorem RingAged.step {α : Type} {L : Nat} {mem : List α} {last : Nat} {d : α} {Rel : α → Nat → Prop} {k M sl : Nat}
    (h : RingAged L mem last d Rel k M sl) (hk : k < M) (hM : L + sl ≤ M) : RingAged L mem last d Rel (nxt M k) M (sl + 1) := by
  intro i hi c hc
  obtain ⟨a, h1, h2, h3, h4⟩ := h i hi c hc
  refine ⟨a + 1, by omega, by omega, h3, ?_⟩
  unfold nxt
  split <;> omega

/-- more slack is weaker -/
theorem RingAged.mono {α : Type} {L : Nat} {mem : List α} {last : Nat} {d : α} {Rel : α → Nat → Prop} {k M sl sl' : Nat}
    (h : RingAged L mem last d Rel k M sl) (hs : sl ≤ sl') : RingAged L mem last d Rel k M sl' := by
  intro i hi c hc
  obtain ⟨a, h1, h2, h3⟩ := h i hi c hc
  exact ⟨a, h1, by omega, h3⟩

/-- an entry is pushed: distances grow by one, so one step of slack is gained; the new entry must be within the slack -/
theorem RingAged.push {α : Type} {L : Nat} {mem : List α} {last : Nat} {d : α} {Rel : α → Nat → Prop} {k M sl : Nat}
    (h : RingAged L mem last d Rel k M (sl + 1)) (hlen : mem.length = L) (hlast : last < L) (v : α)
    (hv : ∀ c, Rel v c → ∃ a, 1 ≤ a ∧ a ≤ sl ∧ Behind M k c a) :
    RingAged L (mem.set (ringFill L last) v) (ringFill L last) d Rel k M sl := by
  have hL : 0 < L := by omega
  intro i hi c hc
  cases i with
  | zero =>
    rw [ring_push_zero mem L last hlen hL] at hc
    obtain ⟨a, h1, h2, h3⟩ := hv c hc
    exact ⟨a, h1, by omega, h3⟩
  | succ j =>
    rw [ring_push_succ mem L last j hlast hi] at hc
    obtain ⟨a, h1, h2, h3⟩ := h j (by omega) c hc
    exact ⟨a, h1, by omega, h3⟩

/-! ### the two memories that remember data queries -/

/-- relevance of a `qmemdata` entry: right type, data-CMC character number `c` -/
def QRel (P : Par) (e : QmemEntry) (c : Nat) : Prop := e.type = P.ty ∧ c < 36 ∧ e.cmc.getD 3 0 = cmcChar c

/-- relevance of a `dnscache` entry: right type, a data query of this user, data-CMC character number `c` -/
def CRel (P : Par) (e : DnsCacheEntry) (c : Nat) : Prop :=
  e.q.type = P.ty ∧ e.q.name.getD 0 0 = hexLower P.u ∧ c < 36 ∧ e.q.name.getD 4 0 = cmcChar c

/-- the memories of the slot are aged with respect to the data-CMC counter value `k`, with slack `sl` -/
structure Aged (P : Par) (x : Session) (k sl : Nat) : Prop where
  qlen : x.qmemdata.length = QMEMDATA_LEN
  qlast : x.qmemdataLast < QMEMDATA_LEN
  clen : x.dnscache.length = DNSCACHE_LEN
  clast : x.dcLast < DNSCACHE_LEN
  qmem : RingAged QMEMDATA_LEN x.qmemdata x.qmemdataLast QmemEntry.zero (QRel P) k 36 sl
  cache : RingAged DNSCACHE_LEN x.dnscache x.dcLast DnsCacheEntry.zero (CRel P) k 36 sl

/-- an aged memory is fresh for the query that carries counter value `k` -/
theorem Aged.fresh {P : Par} {x : Session} {k sl : Nat} (h : Aged P x k sl) (hk : k < 36) (hsl : sl ≤ 21) : Fresh P x k 1 := by
  constructor
  · intro e he h1 h2 ⟨i, hi, hc⟩
    have hi0 : i = 0 := by omega
    subst hi0
    rw [Nat.add_zero, Nat.mod_eq_of_lt hk] at hc
    exact h.cache.miss h.clen h.clast (by simp [DNSCACHE_LEN]; omega) e he ⟨h1, h2, hk, hc⟩
  · intro e he h1 ⟨i, hi, hc⟩
    have hi0 : i = 0 := by omega
    subst hi0
    rw [Nat.add_zero, Nat.mod_eq_of_lt hk] at hc
    exact h.qmem.miss h.qlen h.qlast (by simp [QMEMDATA_LEN]; omega) e he ⟨h1, hk, hc⟩

theorem nxt36 (k : Nat) (hk : k < 36) : nxt 36 k = (k + 1) % 36 := by
  unfold nxt; split <;> omega

/-- The answer to a data query with counter value `k0`, which is `a0` steps behind the client's current value `k`, is
remembered. -/
theorem Aged.memo {P : Par} {x : Session} {k sl : Nat} (h : Aged P x k (sl + 1)) (q : Query) (ans : List Nat)
    (hans : ans.length ≤ DNSCACHE_ANSWER_SIZE) (k0 a0 : Nat) (ha : 1 ≤ a0 ∧ a0 ≤ sl) (hb : Behind 36 k k0 a0) (hk0 : k0 < 36)
    (h4 : q.name.getD 4 0 = cmcChar k0) (h5 : 5 ≤ q.name.length)
    (h0 : q.name.getD 0 0 ≠ 80 ∧ q.name.getD 0 0 ≠ 112) :
    Aged P (cacheUpd (qmemUpd x q) q ans) k sl := by
  have hq1 : qmemUpd x q = { x with
      qmemdata := x.qmemdata.set (ringFill QMEMDATA_LEN x.qmemdataLast) ⟨dataCmc q.name, q.type⟩,
      qmemdataLast := ringFill QMEMDATA_LEN x.qmemdataLast } := by
    unfold qmemUpd
    simp only
    rw [if_neg (by intro hc; rcases hc with hc | hc; exact h0.1 hc; exact h0.2 hc), if_neg (by omega)]
    rfl
  have hc1 : ∀ y : Session, cacheUpd y q ans = { y with
      dnscache := y.dnscache.set (ringFill DNSCACHE_LEN y.dcLast) ⟨q, ans, ans.length⟩,
      dcLast := ringFill DNSCACHE_LEN y.dcLast } := by
    intro y
    unfold cacheUpd
    rw [if_neg (by omega)]
    rfl
  rw [hc1, hq1]
  have hcm : (dataCmc q.name).getD 3 0 = cmcChar k0 := by
    unfold dataCmc
    simp only [List.range, List.range.loop, List.map, List.getD_cons_succ, List.getD_cons_zero]
    rw [h4, if_neg (cmcChar_facts k0 hk0).2.1]
  refine ⟨?_, ?_, ?_, ?_, ?_, ?_⟩
  · simp [h.qlen]
  · exact ringFill_lt _ _ (by decide)
  · simp [h.clen]
  · exact ringFill_lt _ _ (by decide)
  · apply h.qmem.push h.qlen h.qlast
    intro c ⟨_, hc36, hc⟩
    simp only at hc
    rw [hcm] at hc
    have : c = k0 := ((cmcChar_facts k0 hk0).1 c hc36 hc.symm)
    subst this
    exact ⟨a0, ha.1, ha.2, hb⟩
  · apply h.cache.push h.clen h.clast
    intro c ⟨_, _, hc36, hc⟩
    simp only at hc
    rw [h4] at hc
    have : c = k0 := ((cmcChar_facts k0 hk0).1 c hc36 hc.symm)
    subst this
    exact ⟨a0, ha.1, ha.2, hb⟩

/-- the client sent a data query (its counter advanced) -/
theorem Aged.step {P : Par} {x : Session} {k sl : Nat} (h : Aged P x k sl) (hk : k < 36) (hsl : sl ≤ 21) :
    Aged P x ((k + 1) % 36) (sl + 1) := by
  rw [← nxt36 k hk]
  exact ⟨h.qlen, h.qlast, h.clen, h.clast, h.qmem.step hk (by simp [QMEMDATA_LEN]; omega), h.cache.step hk (by simp [DNSCACHE_LEN]; omega)⟩

theorem Aged.mono {P : Par} {x : Session} {k sl sl' : Nat} (h : Aged P x k sl) (hs : sl ≤ sl') : Aged P x k sl' :=
  ⟨h.qlen, h.qlast, h.clen, h.clast, h.qmem.mono hs, h.cache.mono hs⟩

/-- only the memories matter -/
theorem Aged.congr {P : Par} {x y : Session} {k sl : Nat} (h : Aged P x k sl) (h1 : y.qmemdata = x.qmemdata)
    (h2 : y.qmemdataLast = x.qmemdataLast) (h3 : y.dnscache = x.dnscache) (h4 : y.dcLast = x.dcLast) : Aged P y k sl := by
  refine ⟨h1 ▸ h.qlen, h2 ▸ h.qlast, h3 ▸ h.clen, h4 ▸ h.clast, ?_, ?_⟩
  · rw [h1, h2]; exact h.qmem
  · rw [h3, h4]; exact h.cache

end Iodine.C02L
