import IodineModel.Lemmas.C02rU2
/-
C02 phase 3 / d7up — upstream, immediate mode, `d = 7` with the server's last fragment number 0: the joint invariants and the
scheduler steps.

* `UpFalseAck`: fragment 0 of a new packet is in flight; it carries the server's CURRENT `(seqno, 0)`.
* `false_ack_srv` (1 step): the server drops it as a repeat and answers with its own numbers — the acknowledgement the
  client waits for.
* `UpFlightT`: the variant of `UpFlight` for the continuation: the client sends `out` from offset `o`, the server assembles
  `T` and holds its first `oS` bytes; what is still to come is the same on both sides (`T.drop oS = out.drop o`).
* `false_ack_more` (2 steps), `mid_stepT` (2 steps), `last_stepT` (3 steps).
-/
namespace Iodine.C02L
open Iodine Iodine.Gen Iodine.World

/-- fragment 0 of the upstream packet `out` is in flight; its sequence number is the server's current one and the server's
last fragment number is 0 -/
structure UpFalseAck (P : Par) (out : List Nat) (w : W) (c0 : Client.Cli) : Prop where
  ph : w.cs.ph = .tunnel
  ready : CReady P c0 out 0 0
  cli : w.cs.c = { sentState c0 with sendPingSoon := 0 }
  up : w.up = upOfEvents (Client.sendChunk c0).evs
  down : w.down = []
  srv : SStat P w.srv
  idle : IdleImm (Server.getUser w.srv P.u)
  oq : (Server.getUser w.srv P.u).oqFilled = 0
  fseq : (Server.getUser w.srv P.u).inpacket.seqno = c0.outpkt.seqno
  ffrag : (Server.getUser w.srv P.u).inpacket.fragment = 0
  syncd : (Server.getUser w.srv P.u).outpacket.seqno = c0.inpkt.seqno
  aged : Aged P (Server.getUser w.srv P.u) c0.datacmc 1
  paged : PAged P (Server.getUser w.srv P.u) c0.randSeed 1

/-- step 1 of the false acknowledgement: the server drops fragment 0 as a repeat; its answer carries `(seqno, 0)` -/
theorem false_ack_srv {P : Par} (hP : P.Ok) {out : List Nat} {w : W} {c0 : Client.Cli} (h : UpFalseAck P out w c0) :
    ∃ name s' pkt, quiet P.u w = false ∧
      step w (promptEv w) = { w with up := [], srv := s', down := [.ans (sentState c0).chunkid P.ty name pkt] } ∧
      name.getD 0 0 = hexLower P.u ∧ AfterDup P w.srv s' pkt ∧
      Aged P (Server.getUser s' P.u) ((c0.datacmc + 1) % 36) 1 ∧ PAged P (Server.getUser s' P.u) c0.randSeed 1 ∧
      (pkt.length : Int) = 2 ∧ (Client.decodeHdr pkt).dnSeq = c0.inpkt.seqno ∧
      (Client.decodeHdr pkt).upSeq = c0.outpkt.seqno ∧ (Client.decodeHdr pkt).upFrag = ((0 : Nat) : Int) := by
  obtain ⟨name, hsend, hm1, hm2, hQ⟩ := send_ready hP h.ready
  have hup : w.up = [.query (sentState c0).chunkid P.ty name] := by rw [h.up, hsend]; rfl
  have hsqc : ((c0.outpkt.seqno.toNat : Nat) : Int) = c0.outpkt.seqno := by have := h.ready.stat.oseq; omega
  have hwin : InWindow (Server.getUser w.srv P.u) c0.outpkt.seqno.toNat 0 :=
    inWindow_of_same h.srv.x.ifrag.1 (by rw [hsqc, h.fseq])
  obtain ⟨s', evs, t, pkt, hit, hdown, htun, hdup, hfresh, hpaged⟩ :=
    srv_recv_dup hP h.srv h.idle h.ready.stat.cmc h.aged h.paged hQ hwin
  have hq1 : quiet P.u w = false := quiet_false_of_up _ _ _ _ hup
  have hs1 : step w (promptEv w) =
      { w with up := [], srv := s', down := [.ans (sentState c0).chunkid P.ty name pkt] } := by
    rw [promptEv_up w _ _ hup, step_deliverUp w _ _ hup, srvInput_query, stepS_zero { w with up := [] } _ s' evs t hit, hdown, htun]
    simp [h.down, upQuery]
  obtain ⟨y, hpkt, hyo, hyi⟩ := hdup.pkt
  obtain ⟨hlen2, hdn, hus, huf⟩ := ack_hdr (x := Server.getUser w.srv P.u) hpkt (by rw [hyi]; exact h.srv.x.iseq)
    (by rw [hyi]; exact h.srv.x.ifrag) hyo h.srv.x.oseq h.srv.x.ofrag
  refine ⟨name, s', pkt, hq1, hs1, hQ.c0, hdup, hfresh, hpaged, hlen2, ?_, ?_, ?_⟩
  · rw [hdn]; exact h.syncd
  · rw [hus, hyi]; exact h.fseq
  · rw [huf, hyi, h.ffrag]; rfl

/-- fragment `f` (client offset `o`) of the upstream packet `out` is in flight towards a server that assembles the bytes `T`
and holds their first `oS`; the bytes still to come are the same on both sides -/
structure UpFlightT (P : Par) (out T : List Nat) (w : W) (c0 : Client.Cli) (o oS f : Nat) : Prop where
  ph : w.cs.ph = .tunnel
  ready : CReady P c0 out o f
  cli : w.cs.c = { sentState c0 with sendPingSoon := 0 }
  up : w.up = upOfEvents (Client.sendChunk c0).evs
  down : w.down = []
  srv : SStat P w.srv
  idle : IdleImm (Server.getUser w.srv P.u)
  oq : (Server.getUser w.srv P.u).oqFilled = 0
  expect : Expect (Server.getUser w.srv P.u) T c0.outpkt.seqno.toNat oS f
  tail : T.drop oS = out.drop o
  syncd : (Server.getUser w.srv P.u).outpacket.seqno = c0.inpkt.seqno
  aged : Aged P (Server.getUser w.srv P.u) c0.datacmc 1
  paged : PAged P (Server.getUser w.srv P.u) c0.randSeed 1

/-- an ordinary `UpFlight` is the case `T = out` -/
theorem UpFlight.toT {P : Par} {out : List Nat} {w : W} {c0 : Client.Cli} {o f : Nat} (h : UpFlight P out w c0 o f) :
    UpFlightT P out out w c0 o o f :=
  ⟨h.ph, h.ready, h.cli, h.up, h.down, h.srv, h.idle, h.oq, h.expect, rfl, h.syncd, h.aged, h.paged⟩

theorem UpFlightT.lens {P : Par} {out T : List Nat} {w : W} {c0 : Client.Cli} {o oS f : Nat} (h : UpFlightT P out T w c0 o oS f) :
    T.length - oS = out.length - o ∧ oS < T.length := by
  have h1 := congrArg List.length h.tail
  simp only [List.length_drop] at h1
  have := h.ready.ho
  omega

/-- **the false acknowledgement, packet of several fragments** (2 steps): the client goes on with fragment 1; the server will
append it to the first `inpacket.offset` bytes of its buffer. -/
theorem false_ack_more {P : Par} (hP : P.Ok) {out : List Nat} {w : W} {c0 : Client.Cli} (h : UpFalseAck P out w c0)
    (hbuf : (Server.getUser w.srv P.u).inpacket.len = (Server.getUser w.srv P.u).inpacket.offset)
    (hdata : (Server.getUser w.srv P.u).inpacket.offset ≤ (Server.getUser w.srv P.u).inpacket.data.length)
    (hlt : fragLen P out < out.length) :
    ∃ w' c0', promptSteps P.u 2 w = some w' ∧
      UpFlightT P out ((Server.getUser w.srv P.u).inpacket.data.take (Server.getUser w.srv P.u).inpacket.offset ++ out.drop (fragLen P out))
        w' c0' (fragLen P out) (Server.getUser w.srv P.u).inpacket.offset 1 ∧
      w'.tunS = w.tunS ∧ w'.tunC = w.tunC ∧ c0'.outpkt.seqno = c0.outpkt.seqno ∧
      (Server.getUser w'.srv P.u).tunIp = (Server.getUser w.srv P.u).tunIp ∧ c0'.selecttimeout = c0.selecttimeout ∧
      (Server.getUser w'.srv P.u).fragsize = (Server.getUser w.srv P.u).fragsize := by
  obtain ⟨name, s', pkt, hq1, hs1, hn0, hdup, hfresh, hpaged, hlen2, hdn, hus, huf⟩ := false_ack_srv hP h
  generalize hw2 : ({ w with up := [], srv := s', down := [.ans (sentState c0).chunkid P.ty name pkt] } : W) = w2 at hs1
  have hw2cs : w2.cs = w.cs := by subst hw2; rfl
  have hw2up : w2.up = [] := by subst hw2; rfl
  have hw2down : w2.down = [.ans (sentState c0).chunkid P.ty name pkt] := by subst hw2; rfl
  obtain ⟨c0', hq2, hs2, hready', e1, e2, e3, e4, e5⟩ := cli_ack_moreU hP (w2 := w2) (by rw [hw2cs]; exact h.ph) h.ready
    (by rw [hw2cs]; exact h.cli) hn0 hw2up hw2down hlen2 hdn hus huf (by simpa using hlt) (by omega)
  simp only [List.drop_zero, Nat.zero_add] at hready'
  refine ⟨{ w2 with down := [], cs := ⟨{ sentState c0' with sendPingSoon := 0 }, .tunnel⟩,
                    up := upOfEvents (Client.sendChunk c0').evs }, c0', ?_, ?_, ?_, ?_, e1, ?_, e5, ?_⟩
  · rw [promptSteps_succ hq1, hs1, promptSteps_succ hq2, hs2]
    rfl
  · subst hw2
    have hsqc : ((c0.outpkt.seqno.toNat : Nat) : Int) = c0.outpkt.seqno := by have := h.ready.stat.oseq; omega
    refine ⟨rfl, hready', rfl, rfl, rfl, hdup.stat, hdup.idle, by rw [hdup.oq]; exact h.oq, ?_, ?_, ?_, ?_, ?_⟩
    · right
      show (1 ≠ 0) ∧ (Server.getUser s' P.u).inpacket.seqno = _ ∧ _
      rw [hdup.inp, e1, hsqc]
      refine ⟨by omega, h.fseq, by rw [h.ffrag]; rfl, rfl, hbuf, ?_⟩
      rw [List.take_append_of_le_length (by rw [List.length_take]; omega), List.take_take, Nat.min_self]
    · rw [List.drop_append_of_le_length (by rw [List.length_take]; omega)]
      have : ((Server.getUser w.srv P.u).inpacket.data.take (Server.getUser w.srv P.u).inpacket.offset).length =
          (Server.getUser w.srv P.u).inpacket.offset := by rw [List.length_take]; omega
      rw [List.drop_of_length_le (by omega)]
      rfl
    · show (Server.getUser s' P.u).outpacket.seqno = c0'.inpkt.seqno
      rw [hdup.outp, e2]; exact h.syncd
    · rw [e3]; exact hfresh
    · rw [e4]; exact hpaged
  · subst hw2; rfl
  · subst hw2; rfl
  · subst hw2; exact hdup.tun
  · subst hw2; exact hdup.frag

/-- **the false acknowledgement, one-fragment packet** (2 steps): the client believes the packet delivered; quiescent and in
step again, the server's buffer untouched. -/
theorem false_ack_done {P : Par} (hP : P.Ok) {out : List Nat} {w : W} {c0 : Client.Cli} (h : UpFalseAck P out w c0)
    (hone : fragLen P out = out.length) :
    ∃ w', promptSteps P.u 2 w = some w' ∧ QuietImm P w' ∧ w'.tunS = w.tunS ∧ w'.tunC = w.tunC ∧
      (Server.getUser w'.srv P.u).inpacket = (Server.getUser w.srv P.u).inpacket ∧
      (Server.getUser w'.srv P.u).tunIp = (Server.getUser w.srv P.u).tunIp ∧
      (Server.getUser w'.srv P.u).fragsize = (Server.getUser w.srv P.u).fragsize ∧
      w'.srv.now = w.srv.now ∧ w'.cs.c.selecttimeout = c0.selecttimeout ∧ w'.cs.c.sendPingSoon = 20 := by
  obtain ⟨name, s', pkt, hq1, hs1, hn0, hdup, hfresh, hpaged, hlen2, hdn, hus, huf⟩ := false_ack_srv hP h
  generalize hw2 : ({ w with up := [], srv := s', down := [.ans (sentState c0).chunkid P.ty name pkt] } : W) = w2 at hs1
  have hw2cs : w2.cs = w.cs := by subst hw2; rfl
  have hw2up : w2.up = [] := by subst hw2; rfl
  have hw2down : w2.down = [.ans (sentState c0).chunkid P.ty name pkt] := by subst hw2; rfl
  obtain ⟨cd, hq2, hs2, hcdstat, hidle, e1, e2, e3, e4, e5, e6⟩ := cli_ack_doneU hP (w3 := w2) (by rw [hw2cs]; exact h.ph) h.ready
    (by rw [hw2cs]; exact h.cli) hn0 hw2up hw2down hlen2 hdn hus huf (by simpa using hone)
  refine ⟨{ w2 with down := [], cs := ⟨cd, .tunnel⟩ }, ?_, ?_, ?_, ?_, ?_, ?_, ?_, ?_, e6, e5⟩
  · rw [promptSteps_succ hq1, hs1, promptSteps_succ hq2, hs2]
    rfl
  · subst hw2
    refine ⟨rfl, hcdstat, hidle, rfl, rfl, hdup.stat, hdup.idle, by rw [hdup.oq]; exact h.oq, ?_, ?_, ?_, ?_⟩
    · show (Server.getUser s' P.u).inpacket.seqno = cd.outpkt.seqno
      rw [hdup.inp, e1]; exact h.fseq
    · show (Server.getUser s' P.u).outpacket.seqno = cd.inpkt.seqno
      rw [hdup.outp, e2]; exact h.syncd
    · show Aged P (Server.getUser s' P.u) cd.datacmc 1
      rw [e3]; exact hfresh
    · show PAged P (Server.getUser s' P.u) cd.randSeed 1
      rw [e4]; exact hpaged
  · subst hw2; rfl
  · subst hw2; rfl
  · subst hw2; exact hdup.inp
  · subst hw2; exact hdup.tun
  · subst hw2; exact hdup.frag
  · subst hw2; exact hdup.now

/-- a fragment that is not the last one, server assembling `T` (2 steps) -/
theorem mid_stepT {P : Par} (hP : P.Ok) {out T : List Nat} {w : W} {c0 : Client.Cli} {o oS f : Nat}
    (h : UpFlightT P out T w c0 o oS f) (h64 : T.length ≤ 65536)
    (hlt : o + fragLen P (out.drop o) < out.length) (hf1 : f + 1 < 16) :
    ∃ w' c0', promptSteps P.u 2 w = some w' ∧
      UpFlightT P out T w' c0' (o + fragLen P (out.drop o)) (oS + fragLen P (out.drop o)) (f + 1) ∧
      w'.tunS = w.tunS ∧ w'.tunC = w.tunC ∧ c0'.outpkt.seqno = c0.outpkt.seqno ∧
      (Server.getUser w'.srv P.u).tunIp = (Server.getUser w.srv P.u).tunIp ∧ c0'.selecttimeout = c0.selecttimeout ∧
      (Server.getUser w'.srv P.u).fragsize = (Server.getUser w.srv P.u).fragsize := by
  obtain ⟨name, hsend, hm1, hm2, hQ⟩ := send_ready hP h.ready
  obtain ⟨hTl, hoS⟩ := h.lens
  have hlast : (fragLen P (out.drop o) == out.length - o) = false := by
    rw [beq_eq_false_iff_ne]; omega
  rw [hlast] at hQ
  have hup : w.up = [.query (sentState c0).chunkid P.ty name] := by rw [h.up, hsend]; rfl
  have hsq : c0.outpkt.seqno.toNat < 8 := by have := h.ready.stat.oseq; omega
  have hsqc : ((c0.outpkt.seqno.toNat : Nat) : Int) = c0.outpkt.seqno := by have := h.ready.stat.oseq; omega
  have hQ' : UpQ P (upQuery (sentState c0).chunkid P.ty name) ⟨c0.outpkt.seqno.toNat, f, c0.inpkt.seqno, c0.inpkt.fragment, false⟩
      c0.datacmc ((T.drop oS).take (fragLen P (out.drop o))) := by rw [h.tail]; exact hQ
  -- step 1: the server stores the fragment behind what it holds
  obtain ⟨s', evs, t, pkt, hit, hdown, htun, hmid, hfresh, hpaged⟩ :=
    srv_recv_mid hP h.srv h.idle h.ready.stat.cmc h.aged h.paged hQ' h.expect hsq h.ready.hf (by omega) h64
  have hq1 : quiet P.u w = false := quiet_false_of_up _ _ _ _ hup
  have hs1 : step w (promptEv w) =
      { w with up := [], srv := s', down := [.ans (sentState c0).chunkid P.ty name pkt] } := by
    rw [promptEv_up w _ _ hup, step_deliverUp w _ _ hup, srvInput_query, stepS_zero { w with up := [] } _ s' evs t hit, hdown, htun]
    simp [h.down, upQuery]
  generalize hw2 : ({ w with up := [], srv := s', down := [.ans (sentState c0).chunkid P.ty name pkt] } : W) = w2 at hs1
  have hw2cs : w2.cs = w.cs := by subst hw2; rfl
  have hw2up : w2.up = [] := by subst hw2; rfl
  have hw2down : w2.down = [.ans (sentState c0).chunkid P.ty name pkt] := by subst hw2; rfl
  obtain ⟨y, hpkt, hyo, hys, hyf⟩ := hmid.pkt
  have hyf' : y.inpacket.fragment = (f : Int) := by rw [hyf]; omega
  obtain ⟨hlen2, hdn, hus, huf⟩ := ack_hdr (x := Server.getUser w.srv P.u) hpkt (by rw [hys]; omega) (by rw [hyf']; omega) hyo
    h.srv.x.oseq h.srv.x.ofrag
  -- step 2: the client receives the acknowledgement
  obtain ⟨c0', hq2, hs2, hready', e1, e2, e3, e4, e5⟩ := cli_ack_moreU hP (w2 := w2) (by rw [hw2cs]; exact h.ph) h.ready
    (by rw [hw2cs]; exact h.cli) hQ.c0 hw2up hw2down hlen2 (by rw [hdn]; exact h.syncd) (by rw [hus, hys]; exact hsqc)
    (by rw [huf, hyf']) hlt hf1
  refine ⟨{ w2 with down := [], cs := ⟨{ sentState c0' with sendPingSoon := 0 }, .tunnel⟩,
                    up := upOfEvents (Client.sendChunk c0').evs }, c0', ?_, ?_, ?_, ?_, e1, ?_, e5, ?_⟩
  · rw [promptSteps_succ hq1, hs1, promptSteps_succ hq2, hs2]
    rfl
  · subst hw2
    refine ⟨rfl, hready', rfl, rfl, rfl, hmid.stat, hmid.idle, by rw [hmid.oq]; exact h.oq, ?_, ?_, ?_, ?_, ?_⟩
    · rw [e1]; exact hmid.expect
    · rw [← List.drop_drop, h.tail, List.drop_drop]
    · show (Server.getUser s' P.u).outpacket.seqno = c0'.inpkt.seqno
      rw [hmid.outp, e2]; exact h.syncd
    · rw [e3]; exact hfresh
    · rw [e4]; exact hpaged
  · subst hw2; rfl
  · subst hw2; rfl
  · subst hw2; exact hmid.tun
  · subst hw2; exact hmid.frag

/-- the last fragment, server assembling `T` (3 steps): `handle_full_packet` sees `T`, not the client's packet -/
theorem last_stepT {P : Par} (hP : P.Ok) {out T : List Nat} {w : W} {c0 : Client.Cli} {o oS f : Nat}
    (h : UpFlightT P out T w c0 o oS f) (h64 : T.length ≤ 65536)
    (heq : o + fragLen P (out.drop o) = out.length)
    (hns : ∀ fr, Server.uncompress T 65536 = some fr → 24 ≤ fr.length → Server.ipDst fr ≠ (Server.getUser w.srv P.u).tunIp) :
    ∃ w', promptSteps P.u 3 w = some w' ∧ QuietImm P w' ∧ w'.tunS = w.tunS ++ junkUp T ∧
      w'.tunC = w.tunC ∧ w'.cs.c.outpkt.seqno = c0.outpkt.seqno ∧
      (Server.getUser w'.srv P.u).tunIp = (Server.getUser w.srv P.u).tunIp ∧
      w'.cs.c.sendPingSoon = 20 ∧ w'.cs.c.selecttimeout = c0.selecttimeout ∧
      (Server.getUser w'.srv P.u).fragsize = (Server.getUser w.srv P.u).fragsize ∧
      (Server.getUser w'.srv P.u).inpacket.fragment = (f : Int) := by
  obtain ⟨name, hsend, hm1, hm2, hQ⟩ := send_ready hP h.ready
  obtain ⟨hTl, hoS⟩ := h.lens
  have hlast : (fragLen P (out.drop o) == out.length - o) = true := by
    rw [beq_iff_eq]; omega
  rw [hlast] at hQ
  have hsf := sentFacts c0
  have hup : w.up = [.query (sentState c0).chunkid P.ty name] := by rw [h.up, hsend]; rfl
  have hsq : c0.outpkt.seqno.toNat < 8 := by have := h.ready.stat.oseq; omega
  have hsqc : ((c0.outpkt.seqno.toNat : Nat) : Int) = c0.outpkt.seqno := by have := h.ready.stat.oseq; omega
  have hQ' : UpQ P (upQuery (sentState c0).chunkid P.ty name) ⟨c0.outpkt.seqno.toNat, f, c0.inpkt.seqno, c0.inpkt.fragment, true⟩
      c0.datacmc ((T.drop oS).take (fragLen P (out.drop o))) := by rw [h.tail]; exact hQ
  -- step 1: the server receives the last fragment and hands `T` to `handle_full_packet`
  obtain ⟨s', evs, t, hit, hdown, htun, hal⟩ :=
    srv_recv_lastT hP h.srv h.idle h.ready.stat.cmc h.aged hQ' h.expect hsq h.ready.hf (by omega) h64 hns
  have hq1 : quiet P.u w = false := quiet_false_of_up _ _ _ _ hup
  have hs1 : step w (promptEv w) = { w with up := [], srv := s', tunS := w.tunS ++ junkUp T } := by
    rw [promptEv_up w _ _ hup, step_deliverUp w _ _ hup, srvInput_query, stepS_zero { w with up := [] } _ s' evs t hit, hdown, htun]
    simp [h.down]
  generalize hw2 : ({ w with up := [], srv := s', tunS := w.tunS ++ junkUp T } : W) = w2 at hs1
  have hw2cs : w2.cs = w.cs := by subst hw2; rfl
  have hw2up : w2.up = [] := by subst hw2; rfl
  have hw2down : w2.down = [] := by subst hw2; exact h.down
  have hw2srv : w2.srv = s' := by subst hw2; rfl
  have hcst := cstat_sent h.ready
  have hwc : w.cs = ⟨{ sentState c0 with sendPingSoon := 0 }, .tunnel⟩ := by rw [cstate_eta w.cs h.ph, h.cli]
  have hlen0 : out.length ≠ 0 := by have := h.ready.ho; omega
  have hsending : Client.isSending ({ sentState c0 with sendPingSoon := 0 } : Client.Cli) = true := by
    unfold Client.isSending
    rw [hsf.olen, h.ready.len]
    simpa using hlen0
  -- step 2: nothing in flight; the server's 20 ms timer (parked query) expires before the client's second
  have hq2 : quiet P.u w2 = false := by
    unfold World.quiet
    rw [hw2cs, hwc]
    simp [hsending]
  obtain ⟨s'', evs2, tunsel, hit2, hdown2, htun2, hS2, hidle2, hfresh2, hpaged2, hin2, hout2, hoq2, htun2', hfrag2, hnow2⟩ :=
    srv_tick_ack hP hal.stat (Q := upQuery (sentState c0).chunkid P.ty name) h.ready.stat.cmc
      (h.aged.congr hal.qmem hal.qlast hal.cache hal.clast) (h.paged.congr hal.pmem hal.plast hal.cache hal.clast)
      hal.q hal.qs hal.lazy (by rw [hal.outp]; exact h.idle.out) hQ.from_ hQ.id hQ.id2 hQ.c0 hQ.c4 hQ.len5
  have htoS : timeoutS w2 = 20000 := by
    unfold timeoutS
    rw [hw2srv]
    have := congrArg (fun r => r.2.2.1) hit2
    simp only [Server.iteration] at this
    exact this
  have htoC : timeoutC w2 = some 1000000 := by
    unfold timeoutC Client.pending
    rw [hw2cs, hwc]
    simp [Client.selectOf, hsending]
  have hs2 : step w2 (promptEv w2) =
      { w2 with srv := s'', down := [.ans (sentState c0).chunkid P.ty name (Server.scPkt (Server.getUser s' P.u) 0)] } := by
    rw [promptEv_tickS w2 hw2up hw2down _ htoC (by rw [htoS]; decide)]
    show stepS w2 .tick (timeoutS w2 / 1000000) = _
    rw [htoS, show (20000 : Nat) / 1000000 = 0 from rfl, stepS_zero w2 _ s'' evs2 (20000, tunsel) (by rw [hw2srv]; exact hit2),
      hdown2, htun2, hw2down]
    simp [upQuery]
  generalize hpkt : Server.scPkt (Server.getUser s' P.u) 0 = pkt at hs2
  generalize hw3 : ({ w2 with srv := s'', down := [.ans (sentState c0).chunkid P.ty name pkt] } : W) = w3 at hs2
  have hw3cs : w3.cs = w.cs := by subst hw3; exact hw2cs
  have hw3up : w3.up = [] := by subst hw3; exact hw2up
  have hw3down : w3.down = [.ans (sentState c0).chunkid P.ty name pkt] := by subst hw3; rfl
  -- step 3: the client receives the acknowledgement; the packet is complete
  obtain ⟨hlen2, hdn, hus, huf⟩ := ack_hdr (x := Server.getUser s' P.u) (y := Server.getUser s' P.u) hpkt.symm
    (by rw [hal.iseq]; omega) (by rw [hal.ifrag]; have := h.ready.hf; omega) rfl hal.stat.x.oseq hal.stat.x.ofrag
  obtain ⟨cd, hq3, hs3, hcdstat, hidle, e1, e2, e3, e4, e5, e6⟩ := cli_ack_doneU hP (w3 := w3) (by rw [hw3cs]; exact h.ph) h.ready
    (by rw [hw3cs]; exact h.cli) hQ.c0 hw3up hw3down hlen2 (by rw [hdn, hal.outp]; exact h.syncd)
    (by rw [hus, hal.iseq]; exact hsqc) (by rw [huf, hal.ifrag]) heq
  refine ⟨{ w3 with down := [], cs := ⟨cd, .tunnel⟩ }, ?_, ?_, ?_, ?_, e1, ?_, e5, e6, ?_, ?_⟩
  · rw [promptSteps_succ hq1, hs1, promptSteps_succ hq2, hs2, promptSteps_succ hq3, hs3]
    rfl
  · subst hw3; subst hw2
    refine ⟨rfl, hcdstat, hidle, rfl, rfl, hS2, hidle2, by rw [hoq2, hal.oq]; exact h.oq, ?_, ?_, ?_, ?_⟩
    · show (Server.getUser s'' P.u).inpacket.seqno = cd.outpkt.seqno
      rw [hin2, hal.iseq, e1]; exact hsqc
    · show (Server.getUser s'' P.u).outpacket.seqno = cd.inpkt.seqno
      rw [hout2, hal.outp, e2]; exact h.syncd
    · show Aged P (Server.getUser s'' P.u) cd.datacmc 1
      rw [e3]; exact hfresh2
    · show PAged P (Server.getUser s'' P.u) cd.randSeed 1
      rw [e4]; exact hpaged2
  · subst hw3; subst hw2; rfl
  · subst hw3; subst hw2; rfl
  · subst hw3; subst hw2
    show (Server.getUser s'' P.u).tunIp = _
    rw [htun2', hal.tun]
  · subst hw3; subst hw2
    show (Server.getUser s'' P.u).fragsize = _
    rw [hfrag2, hal.frag]
  · subst hw3; subst hw2
    show (Server.getUser s'' P.u).inpacket.fragment = _
    rw [hin2, hal.ifrag]

end Iodine.C02L
