import IodineModel.Lemmas.C02qB5
/-
C02, phase 2, sub-package "blackout" — part 6: composition witness, the links `bkW k → bkW (k+1)` for `k = 6, 7`
(kernel-evaluated) and the chains 7 and 8.
-/
namespace Iodine.C02L
open Iodine Iodine.Gen Iodine.World Iodine.C02

theorem bk_link6 : runSched blackoutEvUp 9 (step (bkW 6) (.offerC (fA 6))) = bkW 7 := by decide +kernel
theorem bk_link7 : runSched blackoutEvUp 9 (step (bkW 7) (.offerC (fA 7))) = bkW 8 := by decide +kernel

theorem bk_chain7 : giveupRunUp [fA 0, fA 1, fA 2, fA 3, fA 4, fA 5, fA 6] exW = bkW 7 := by
  rw [← bkW_zero]
  simp only [giveupRunUp]
  rw [bk_link0, bk_link1, bk_link2, bk_link3, bk_link4, bk_link5, bk_link6]

theorem bk_chain8 : giveupRunUp [fA 0, fA 1, fA 2, fA 3, fA 4, fA 5, fA 6, fA 7] exW = bkW 8 := by
  rw [← bkW_zero]
  simp only [giveupRunUp]
  rw [bk_link0, bk_link1, bk_link2, bk_link3, bk_link4, bk_link5, bk_link6, bk_link7]

/-- after 8 give-ups the sequence numbers agree again (`8 ≡ 0`) -/
example : (bkW 8).cs.c.outpkt.seqno = (Server.getUser (bkW 8).srv 0).inpacket.seqno := by decide +kernel

end Iodine.C02L
