import IodineModel.Lemmas.C02qA5
import IodineModel.Lemmas.C02qA2
/-
C02 phase 2, sub-package "aged" (6): COUNTEREXAMPLE (i), conclusion.  After the fault prefix `qaSchedC` (32 lost upstream
datagrams in 26 seconds, nothing else) the joint state `qaWC` satisfies EVERY clause of `QuietImm` except `aged`; there is no
slack `≤ 21` (in fact none `≤ 26`) for which `Aged` holds, the weaker `Fresh … 1` fails as well, and the next clean-path packet is
really mishandled: its query is answered "x" from `qmemdata`.
-/
namespace Iodine.C02L
open Iodine Iodine.World

/-- the fault prefix leads from the demo state to `qaWC` -/
theorem qa_runC : run Iodine.C02.exW qaSchedC = qaWC := by
  unfold qaSchedC
  rw [run_append, run_append, qa_stageA, qa_stageB, qa_stageC]

/-- the only faults of the prefix are lost upstream datagrams (32 of them: 26 data queries, 6 pings); 26 seconds pass -/
theorem qa_schedC_faults :
    (∀ e ∈ qaSchedC, e = .dropUp ∨ e = .offerC qaF1 ∨ e = .deliverUp ∨ e = .deliverDown ∨ e = .tickC ∨ e = .tickS) ∧
    qaSchedC.length = 104 ∧ (qaSchedC.filter (· == .dropUp)).length = 32 ∧
    qaWC.cs.c.now = Iodine.C02.exW.cs.c.now + 26 ∧ qaWC.srv.now = Iodine.C02.exW.srv.now + 26 := by decide +kernel

/-- every clause of `QuietImm` except the two freshness clauses -/
structure QuietBut (P : Par) (w : W) : Prop where
  ph : w.cs.ph = .tunnel
  cst : CStat P w.cs.c
  idleC : Client.isSending w.cs.c = false
  up : w.up = []
  down : w.down = []
  srv : SStat P w.srv
  idle : IdleImm (Server.getUser w.srv P.u)
  oq : (Server.getUser w.srv P.u).oqFilled = 0
  syncu : (Server.getUser w.srv P.u).inpacket.seqno = w.cs.c.outpkt.seqno
  syncd : (Server.getUser w.srv P.u).outpacket.seqno = w.cs.c.inpkt.seqno

theorem quietImm_iff_but {P : Par} {w : W} :
    QuietImm P w ↔ QuietBut P w ∧ Aged P (Server.getUser w.srv P.u) w.cs.c.datacmc 1 ∧
      PAged P (Server.getUser w.srv P.u) w.cs.c.randSeed 1 :=
  ⟨fun h => ⟨⟨h.ph, h.cst, h.idleC, h.up, h.down, h.srv, h.idle, h.oq, h.syncu, h.syncd⟩, h.aged, h.paged⟩,
   fun ⟨h, a, p⟩ => ⟨h.ph, h.cst, h.idleC, h.up, h.down, h.srv, h.idle, h.oq, h.syncu, h.syncd, a, p⟩⟩

/-- `QuietBut` for the parameters `exP`, from closed facts about the state -/
theorem quietBut_exP (w : W) (hlen : w.srv.users.length = 16)
    (hothers : ∀ v, v < 16 → v ≠ 0 → (Server.getUser w.srv v).active = false)
    (hc : w.cs.ph = .tunnel ∧ w.cs.c.running = true ∧ w.cs.c.conn = .dnsNull ∧ w.cs.c.lazymode = false ∧ w.cs.c.userid = 0 ∧
      w.cs.c.useridChar = 48 ∧ w.cs.c.topdomain = demoDomain ∧ w.cs.c.hostnameMaxlen = 100 ∧ w.cs.c.dataenc = .b32 ∧
      w.cs.c.doQtype = 10 ∧ w.cs.c.chunkid < 65536 ∧ w.cs.c.datacmc < 36 ∧ ¬ w.cs.c.lastdownstreamtime + 60 < w.cs.c.now ∧
      (0 ≤ w.cs.c.outpkt.seqno ∧ w.cs.c.outpkt.seqno < 8) ∧ (0 ≤ w.cs.c.inpkt.seqno ∧ w.cs.c.inpkt.seqno < 8) ∧
      (0 ≤ w.cs.c.inpkt.fragment ∧ w.cs.c.inpkt.fragment < 16) ∧ w.cs.c.randSeed < 65536 ∧
      Client.isSending w.cs.c = false ∧ w.up = [] ∧ w.down = [])
    (hs : w.srv.cfg.createdUsers = 16 ∧ w.srv.cfg.topdomain = demoDomain ∧
      (Server.getUser w.srv 0).active = true ∧ (Server.getUser w.srv 0).authenticated = true ∧
      (Server.getUser w.srv 0).disabled = false ∧ (Server.getUser w.srv 0).conn = .dnsNull ∧
      (Server.getUser w.srv 0).encoder = .b32 ∧
      (0 ≤ (Server.getUser w.srv 0).outpacket.seqno ∧ (Server.getUser w.srv 0).outpacket.seqno < 8) ∧
      (0 ≤ (Server.getUser w.srv 0).outpacket.fragment ∧ (Server.getUser w.srv 0).outpacket.fragment < 16) ∧
      (0 ≤ (Server.getUser w.srv 0).inpacket.seqno ∧ (Server.getUser w.srv 0).inpacket.seqno < 8) ∧
      (0 ≤ (Server.getUser w.srv 0).inpacket.fragment ∧ (Server.getUser w.srv 0).inpacket.fragment < 16) ∧
      ((Server.getUser w.srv 0).host.fam = 4 ∧ (Server.getUser w.srv 0).host.ip = clientAddr.ip) ∧
      w.srv.now < (Server.getUser w.srv 0).lastPkt + 60 ∧
      (Server.getUser w.srv 0).outpacket.len = 0 ∧ (Server.getUser w.srv 0).q.id = 0 ∧ (Server.getUser w.srv 0).qs.id = 0 ∧
      (Server.getUser w.srv 0).lazy = false ∧ (Server.getUser w.srv 0).oqFilled = 0 ∧
      (Server.getUser w.srv 0).inpacket.seqno = w.cs.c.outpkt.seqno ∧
      (Server.getUser w.srv 0).outpacket.seqno = w.cs.c.inpkt.seqno) :
    QuietBut Iodine.C02.exP w := by
  obtain ⟨c1, c2, c3, c4, c5, c6, c7, c8, c9, c10, c11, c12, c13, c14, c15, c16, c17, c18, c19, c20⟩ := hc
  obtain ⟨s1, s2, s3, s4, s5, s6, s7, s8, s9, s10, s11, s12, s13, s14, s15, s16, s17, s18, s19, s20⟩ := hs
  have hsolo : Solo 0 w.srv := by
    refine ⟨by rw [hlen]; decide, by rw [hlen]; exact s1, ?_⟩
    intro v hv
    by_cases h : v < 16
    · exact hothers v h hv
    · unfold Server.getUser
      rw [List.getD_eq_getElem?_getD, List.getElem?_eq_none (by rw [hlen]; omega)]
      rfl
  exact ⟨c1, ⟨c2, c3, c4, by rw [c5]; rfl, c6, c7, by rw [c8]; rfl, c9, c10, c11, c12, c13, c14, c15, c16, c17⟩, c18, c19, c20,
    ⟨hsolo, s2, ⟨s3, s4, s5, s6, s7, s8, s9, s10, s11⟩, Or.inr s12, s13⟩, ⟨s14, s15, s16, s17⟩, s18, s19, s20⟩

/-- **(i), part 1**: after the fault prefix every clause of `QuietImm` holds except the freshness of the data memories; the
executable `quiet` test holds; the ping memories are as fresh as ever (no ping reached the server) -/
theorem qa_dropC_quiet :
    QuietBut Iodine.C02.exP qaWC ∧ quiet 0 qaWC = true ∧
    PAged Iodine.C02.exP (Server.getUser qaWC.srv 0) qaWC.cs.c.randSeed 1 := by
  refine ⟨quietBut_exP qaWC (by decide +kernel) (by decide +kernel) (by decide +kernel) (by decide +kernel), by decide +kernel, ?_⟩
  refine ⟨by decide +kernel, by decide +kernel, by decide +kernel, by decide +kernel, ?_, ?_⟩
  · intro i hi c ⟨h1, _⟩
    have : ∀ i, i < 30 → ((Server.getUser qaWC.srv 0).qmemping.getD
        (C16L.ringPos Gen.QMEMPING_LEN (Server.getUser qaWC.srv 0).qmempingLast i) Server.QmemEntry.zero).type = 0 := by
      decide +kernel
    rw [this i hi] at h1
    exact absurd h1 (by decide)
  · intro i hi c ⟨_, h1, _⟩
    have : ∀ i, i < 4 → ((Server.getUser qaWC.srv 0).dnscache.getD
        (C16L.ringPos Gen.DNSCACHE_LEN (Server.getUser qaWC.srv 0).dcLast i) Server.DnsCacheEntry.zero).q.name.getD 0 0 ≠ 112 := by
      decide +kernel
    exact absurd h1 (this i hi)

/-- **(i), part 2**: … but `Aged` holds for no slack up to 26 (the clean-path lemmas need `≤ 21`): the entry written 10 saves ago
carries the counter value the client is going to use NEXT (it is 36 sends old) -/
theorem qa_dropC_not_aged :
    ¬ ∃ sl, sl ≤ 26 ∧ Aged Iodine.C02.exP (Server.getUser qaWC.srv 0) qaWC.cs.c.datacmc sl := by
  intro ⟨sl, hsl, h⟩
  have hk : qaWC.cs.c.datacmc = 0 := by decide +kernel
  rw [hk] at h
  obtain ⟨a, h1, h2, h3, h4⟩ := h.qmem 9 (by decide) 0 ⟨by decide +kernel, by decide, by decide +kernel⟩
  omega

/-- … in particular the state is not `QuietImm`, although it was reached from one by losing datagrams for 26 seconds -/
theorem qa_dropC_not_quietImm : QuietImm Iodine.C02.exP Iodine.C02.exW ∧ ¬ QuietImm Iodine.C02.exP qaWC :=
  ⟨Iodine.C02.ex_quiescent, fun h => qa_dropC_not_aged ⟨1, by decide, h.aged⟩⟩

/-- … and not only the invariant is too strong: the property that is actually used, `Fresh … 1` (no remembered data query
carries the next counter value), fails too -/
theorem qa_dropC_not_fresh : ¬ Fresh Iodine.C02.exP (Server.getUser qaWC.srv 0) qaWC.cs.c.datacmc 1 := by
  intro h
  have hk : qaWC.cs.c.datacmc = 0 := by decide +kernel
  rw [hk] at h
  have hm : (⟨[101, 97, 98, 97], 10⟩ : Server.QmemEntry) ∈ (Server.getUser qaWC.srv 0).qmemdata := by decide +kernel
  exact h.qmem _ hm rfl ⟨0, by decide, by decide⟩

/-- **(i), part 3: the next clean-path packet is really mishandled.**  The frame `qaF1` is acceptable and needs one fragment,
so from a `QuietImm` state it would be delivered by exactly 3 scheduler events (`clean_path_single_fragment`).  From `qaWC`:
the query is answered with the one byte "x" (`answer_from_qmem_data`), after the 3 events nothing has been written to the
server's tun device and the joint state is not quiescent; the prompt schedule needs 6 events, one of them the client's
one-second timeout, to deliver the frame. -/
theorem qa_dropC_mishandled :
    Iodine.C02.AcceptableUp Iodine.C02.exP (Server.getUser qaWC.srv 0).tunIp qaF1 ∧ Iodine.C02.fragments Iodine.C02.exP qaF1 = 1 ∧
    (run qaWC [.offerC qaF1, .deliverUp]).down.map (fun d => match d with | .ans _ _ _ data => data | .raw b => b) = [[120]] ∧
    (runPromptCount 0 3 (step qaWC (.offerC qaF1)) 0).1.tunS = qaWC.tunS ∧
    quiet 0 (runPromptCount 0 3 (step qaWC (.offerC qaF1)) 0).1 = false ∧
    promptTrace 0 60 (step qaWC (.offerC qaF1)) = [.deliverUp, .deliverDown, .tickC, .deliverUp, .tickS, .deliverDown] ∧
    (runPromptCount 0 60 (step qaWC (.offerC qaF1)) 0).1.tunS = qaWC.tunS ++ [qaF1] := by
  refine ⟨⟨by decide, by decide, by unfold Codec.Bytes; decide, by decide +kernel, by decide +kernel⟩, by decide +kernel,
    by decide +kernel, by decide +kernel, by decide +kernel, by decide +kernel, by decide +kernel⟩

/-- **(i), part 4: the damage is temporary.**  The slot of `qaWC` is well-formed, so the renewal theorem applies to it (this is
also the non-vacuity example of `CleanSess.renewed`): whatever 15 or more clean data query/answer cycles are run on it, `Aged … 1`
holds again afterwards. -/
theorem qa_dropC_renewable {nd nc : Nat} {x : Server.Session} {k : Nat}
    (h : CleanSess nd nc (Server.getUser qaWC.srv 0, qaWC.cs.c.datacmc) (x, k)) (hnd : 15 ≤ nd) :
    k < 36 ∧ Aged Iodine.C02.exP x k 1 := by
  have hwf : RingWF (Server.getUser qaWC.srv 0) :=
    ⟨by decide +kernel, by decide +kernel, by decide +kernel, by decide +kernel, by decide +kernel, by decide +kernel⟩
  have := h.le
  exact h.renewed (P := Iodine.C02.exP) (by decide) hwf (by decide +kernel) hnd (by omega)

end Iodine.C02L
