import IodineModel.Lemmas.C02q0
import IodineModel.Lemmas.C02L10
/-
C02 phase 2 / upstream, lazy mode, from a DESYNCHRONISED quiescent state — the harmless half of the window (`d ≤ 3`).

The client's `outpkt.seqno` is `d` ahead of the server's `inpacket.seqno`.  The next packet the client offers carries
`seqno + d + 1`; for `d ≤ 3` that is 1..4 ahead of the server's number, outside `recent_seqno`'s window, so the server takes
the first fragment as a new packet (`Expect`, first clause with `j = d + 1`) and everything after that is the clean flow:
the packet is delivered exactly once and the two ends are synchronised again.
-/
namespace Iodine.C02L
open Iodine Iodine.Gen Iodine.World

/-- `offerC` from a desynchronised quiescent state, `d ≤ 3`: the same flight invariant as in the clean flow -/
theorem up_offer_lazyD {P : Par} (hP : P.Ok) {d : Nat} {w : W} (hq : QuietLazyD P d 0 w) (hd : d ≤ 3) (frame : List Nat)
    (hne : frame ≠ []) (hl : frame.length < 65536) (hb : Codec.Bytes frame) :
    ∃ w1, step w (.offerC frame) = w1 ∧ UpFlightL P (0x5a :: frame) w1 (newPacket w.cs.c frame) 0 0 ∧
      w1.tunS = w.tunS ∧ w1.tunC = w.tunC ∧ w1.srv = w.srv := by
  have hcs := cstate_eta w.cs hq.ph
  have hready := newPacket_readyL hq.cst hq.cnt frame hl hb
  obtain ⟨name, hsend, _, _, _⟩ := send_readyL hP hready
  have hsf := sentFactsL (newPacket w.cs.c frame)
  have hsel : tunSelC w = true := by
    unfold tunSelC Client.pending
    rw [hq.ph]
    simp [Client.selectOf, hq.idleC]
  have hstep : Client.cstep w.cs (.tun frame) =
      (⟨{ sentStateL (newPacket w.cs.c frame) with sendPingSoon := 0 }, .tunnel⟩,
       [] ++ (Client.sendChunk (newPacket w.cs.c frame)).evs,
       .sel (Client.selectOf { sentStateL (newPacket w.cs.c frame) with sendPingSoon := 0 })) := by
    rw [hcs, cstep_tun w.cs.c frame hq.cst.running hq.cst.alive hq.idleC hne hq.cst.conn]
    have ht : frame.take 65536 = frame := List.take_of_length_le (by omega)
    rw [settle_afterSend _ _ _ (by rw [hsend]) (by rw [hsend]; have := hsf.running; simpa using this.trans hq.cst.running)]
    rw [hsend]
  have hw1 : step w (.offerC frame) =
      { w with cs := ⟨{ sentStateL (newPacket w.cs.c frame) with sendPingSoon := 0 }, .tunnel⟩,
               up := w.up ++ upOfEvents ([] ++ (Client.sendChunk (newPacket w.cs.c frame)).evs),
               tunC := w.tunC ++ tunOfCEvents ([] ++ (Client.sendChunk (newPacket w.cs.c frame)).evs) } := by
    rw [step_offerC w frame hsel, stepC_of w _ _ _ _ hstep (by show _ = w.cs.c.now; exact hsf.now)]
  have hsd : (Server.getUser w.srv P.u).outpacket.seqno = w.cs.c.inpkt.seqno := by
    have := hq.syncd; have := hq.cst.iseq; omega
  refine ⟨_, rfl, ?_, ?_, ?_, ?_⟩
  · rw [hw1]
    refine ⟨rfl, hready, rfl, ?_, hq.down, hq.srv, hq.idle, hq.oq, hq.held, hq.heldid, ?_, hsd, hq.mem⟩
    · show w.up ++ upOfEvents ([] ++ _) = _
      rw [hq.up]; rfl
    · left
      refine ⟨rfl, rfl, d + 1, by omega, by omega, ?_⟩
      have hs : Client.sChar ((w.cs.c.outpkt.seqno + 1) % 8) = (w.cs.c.outpkt.seqno + 1) % 8 := sChar_small _ (by omega)
      show (((newPacket w.cs.c frame).outpkt.seqno).toNat : Int) = ((Server.getUser w.srv P.u).inpacket.seqno + ((d + 1 : Nat) : Int)) % 8
      have : (newPacket w.cs.c frame).outpkt.seqno = (w.cs.c.outpkt.seqno + 1) % 8 := hs
      rw [this, hq.syncu]
      have := hq.srv.x.iseq
      omega
  · rw [hw1]
  · rw [hw1]
    show w.tunC ++ tunOfCEvents ([] ++ (Client.sendChunk (newPacket w.cs.c frame)).evs) = w.tunC
    rw [hsend]
    simp [tunOfCEvents]
  · rw [hw1]

/-- **One packet upstream from a desynchronised state, `d ≤ 3`, lazy mode.**  Exactly the conclusion of `up_packet_lazy`:
delivered once after `2·g + 1` steps of the prompt schedule, and the end state is `QuietLazy` — the two ends agree on the
upstream sequence number again. -/
theorem up_packet_lazy_desync_ok {P : Par} (hP : P.Ok) {d : Nat} {w : W} (hq : QuietLazyD P d 0 w) (hd : d ≤ 3)
    (frame : List Nat) (h24 : 24 ≤ frame.length) (hl : frame.length < 65536) (hb : Codec.Bytes frame)
    (hdst : Server.ipDst frame ≠ (Server.getUser w.srv P.u).tunIp)
    (hg16 : upFrags P (frame.length + 1) (0x5a :: frame) ≤ 16) :
    ∃ w', promptSteps P.u (2 * upFrags P (frame.length + 1) (0x5a :: frame) + 1) (step w (.offerC frame)) = some w' ∧
      QuietLazy P w' ∧
      w'.tunS = w.tunS ++ [[0, 0, 8, 0] ++ frame.drop 4] ∧ w'.tunC = w.tunC ∧
      (Server.getUser w'.srv P.u).tunIp = (Server.getUser w.srv P.u).tunIp ∧
      (Server.getUser w'.srv P.u).fragsize = (Server.getUser w.srv P.u).fragsize := by
  have hne : frame ≠ [] := by intro hc; rw [hc] at h24; simp at h24
  obtain ⟨w1, hw1, hfl, ht1, ht2, hsrv⟩ := up_offer_lazyD hP hq hd frame hne hl hb
  obtain ⟨w', h1, h2, h3, h4, _, h6, h7⟩ := up_flight_run_lazy hP (by simp; omega) h24 (frame.length + 1) w1 _ 0 0 hfl
    (by simp) (by simpa using hg16) (by rw [hsrv]; exact hdst)
  rw [hw1]
  exact ⟨w', by simpa using h1, h2, by rw [h3, ht1], by rw [h4, ht2], by rw [h6, hsrv], by rw [h7, hsrv]⟩

/-- presentation with `runPrompt` / `runPromptCount` -/
theorem clean_path_upstream_lazy_desync_ok {P : Par} (hP : P.Ok) {d : Nat} {w : W} (hq : QuietLazyD P d 0 w) (hd : d ≤ 3)
    (frame : List Nat) (hok : UpFrameOk P (Server.getUser w.srv P.u).tunIp frame) :
    ∃ w', (∀ fuel, 2 * upFrags P (frame.length + 1) (0x5a :: frame) + 1 ≤ fuel →
        runPromptCount P.u fuel (step w (.offerC frame)) 0 = (w', 2 * upFrags P (frame.length + 1) (0x5a :: frame) + 1)) ∧
      QuietLazy P w' ∧ w'.tunS = w.tunS ++ [tunImage frame] ∧ w'.tunC = w.tunC := by
  obtain ⟨w', h1, h2, h3, h4, _⟩ := up_packet_lazy_desync_ok hP hq hd frame hok.h24 hok.hl hok.bytes hok.dst hok.frags
  refine ⟨w', fun fuel hf => ?_, h2, h3, h4⟩
  have := runPromptCount_of_steps P.u _ _ _ h1 h2.quiet fuel 0 hf
  simpa using this

end Iodine.C02L
