import IodineModel.Wire.Read
import IodineModel.Wire.DnsDecode
import IodineModel.Lemmas.WireRead
import IodineModel.Lemmas.Strict
/-
Functional lemmas about the READ side of the wire model on well-formed input: what `readshort`,
`readBytes`, `readname`, `readtxtbin` return when the datagram contains, at the read position, the reference
encodings (`be16`, `encLabels`, `encName`, … of Lemmas/Strict.lean) that the closed forms of the encoders
(Lemmas/WirePut.lean) are written with.  Used by the round-trip lemmas of Lemmas/WireRt2.lean and by C09.
-/
namespace Iodine.Wire
open Iodine.Wire.Strict

/-- the receive buffer `data[64K]` holding the datagram `l` (residue: zeros, see C12) -/
def rx (l : List Nat) : RxBuf := { pkt := l.toArray, cap := 65536 }

@[simp] theorem rx_plen (l : List Nat) : (rx l).plen = l.length := by simp [rx, RxBuf.plen]

/-- the bytes `X` stand at offset `p` of `l` -/
def At (l : List Nat) (p : Nat) (X : List Nat) : Prop := X <+: l.drop p

theorem At.left {l p X Y} (h : At l p (X ++ Y)) : At l p X :=
  List.IsPrefix.trans (List.prefix_append X Y) h

theorem At.right {l p X Y} (h : At l p (X ++ Y)) : At l (p + X.length) Y := by
  obtain ⟨t, ht⟩ := h
  refine ⟨t, ?_⟩
  rw [← List.drop_drop, ← ht]
  simp

theorem At.get {l p x X} (h : At l p (x :: X)) : l[p]? = some x := by
  obtain ⟨t, ht⟩ := h
  have : (l.drop p)[0]? = some x := by rw [← ht]; rfl
  simpa using this

theorem At.lt {l p x X} (h : At l p (x :: X)) : p < l.length := by
  have := h.get
  exact (List.getElem?_eq_some_iff.mp this).1

theorem At.tail {l p x X} (h : At l p (x :: X)) : At l (p + 1) X :=
  At.right (X := [x]) h

theorem At.le {l p X} (h : At l p X) (hX : X ≠ []) : p + X.length ≤ l.length := by
  have h1 := h.length_le
  have h2 : 0 < X.length := List.length_pos_iff.mpr hX
  simp only [List.length_drop] at h1
  omega

theorem at_append (A X R : List Nat) : At (A ++ X ++ R) A.length X := by
  refine ⟨R, ?_⟩
  simp

theorem at_append' (A X R : List Nat) (p : Nat) (hp : p = A.length) : At (A ++ (X ++ R)) p X := by
  subst hp
  refine ⟨R, ?_⟩
  simp

theorem rx_cap_ok {l : List Nat} (hl : l.length ≤ 65536) : (rx l).plen ≤ (rx l).cap := by
  show l.toArray.size ≤ 65536
  simpa using hl

theorem readnameLoop_succ (b : RxBuf) (loop src length : Nat) :
    readnameLoop b (loop + 1) src length =
      nameLoop b length (fun off len' => (readnameLoop b loop off len').map (·.2)) src b.plen src [] := rfl

theorem readname_eq (b : RxBuf) (src length : Nat) (h3 : 3 ≤ length) :
    readname b src length =
      nameLoop b length (fun off len' => (readnameLoop b 9 off len').map (·.2)) src b.plen src [] := by
  have : ¬ length < 3 := by omega
  simp only [readname, this, if_false]
  exact readnameLoop_succ b 9 src length

theorem rx_get {l : List Nat} (hl : l.length ≤ 65536) {i x : Nat} (h : l[i]? = some x) :
    (rx l).get i = .ok x := by
  obtain ⟨hi, hx⟩ := List.getElem?_eq_some_iff.mp h
  rw [get_ok (rx l) (rx_cap_ok hl) i (by simpa using hi)]
  simp [rx, hi, hx]

theorem rx_get_at {l : List Nat} (hl : l.length ≤ 65536) {p x : Nat} {X : List Nat} (h : At l p (x :: X)) :
    (rx l).get p = .ok x := rx_get hl h.get

/-! ### readshort / readBytes -/

theorem shl8_or (a b : Nat) (hb : b < 256) : (a <<< 8) ||| b = a * 256 + b := by
  rw [← Nat.shiftLeft_add_eq_or_of_lt (by simpa using hb), Nat.shiftLeft_eq]

theorem readshort_at {l : List Nat} (hl : l.length ≤ 65536) {p v : Nat} (hv : v < 65536) {X : List Nat}
    (h : At l p (be16 v ++ X)) : readshort (rx l) p = .ok (v, p + 2) := by
  have h0 : At l p (v / 256 % 256 :: v % 256 :: X) := h
  simp only [readshort, rx_get_at hl h0, rx_get_at hl h0.tail, bind_ok]
  rw [shl8_or _ _ (by omega)]
  congr 2
  omega

theorem readBytes_at {l : List Nat} (hl : l.length ≤ 65536) (X : List Nat) :
    ∀ {p : Nat} {Y : List Nat}, At l p (X ++ Y) → readBytes (rx l) X.length p = .ok X := by
  induction X with
  | nil => intro p Y _; rfl
  | cons x X ih =>
    intro p Y h
    simp only [List.length_cons, readBytes, rx_get_at hl h, bind_ok]
    rw [ih (Y := Y) (At.tail h)]
    rfl

theorem readBytes_at' {l : List Nat} (hl : l.length ≤ 65536) (X : List Nat) (n : Nat) (hn : n = X.length)
    {p : Nat} {Y : List Nat} (h : At l p (X ++ Y)) : readBytes (rx l) n p = .ok X := by
  subst hn; exact readBytes_at hl X h

/-- the fixed part of a record: type and RDLENGTH are returned, class and TTL skipped -/
theorem readRRHeader_at {l : List Nat} (hl : l.length ≤ 65536) {p ty cls ttl rdlen : Nat} {X : List Nat}
    (hty : ty < 65536) (hcls : cls < 65536) (hrd : rdlen < 65536)
    (h : At l p (rrFixed ty cls ttl rdlen ++ X)) : readRRHeader (rx l) p = .ok (ty, rdlen, p + 10) := by
  have h' : At l p (be16 ty ++ (be16 cls ++ (be32 ttl ++ (be16 rdlen ++ X)))) := by
    simpa [rrFixed, List.append_assoc] using h
  have hle := h'.le (by simp [be16])
  simp only [List.length_append, be16, be32, List.length_cons, List.length_nil] at hle
  have h1 := readshort_at hl hty h'
  have h2 := readshort_at hl hcls h'.right
  have h4 : At l (p + 2 + 2 + 4) (be16 rdlen ++ X) := by
    have := h'.right.right.right
    simpa [be16, be32] using this
  have h4' := readshort_at hl hrd h4
  obtain ⟨v, hv⟩ := readlong_ok (rx l) (rx_cap_ok hl) (p + 2 + 2) (by simp; omega)
  simp only [be16, List.length_cons, List.length_nil] at h2
  simp only [readRRHeader, h1, bind_ok, h2, hv, h4']

/-! ### readname on an uncompressed name -/

/-- the labels joined with dots -/
def joinDots : List (List Nat) → List Nat
  | [] => []
  | [l] => l
  | l :: l' :: r => l ++ 46 :: joinDots (l' :: r)

theorem joinDots_cons_cons (l l' : List Nat) (r : List (List Nat)) :
    joinDots (l :: l' :: r) = l ++ 46 :: joinDots (l' :: r) := rfl

theorem joinDots_length (ls : List (List Nat)) (h : ls ≠ []) : (joinDots ls).length + 1 = labLen ls := by
  induction ls with
  | nil => exact absurd rfl h
  | cons l r ih =>
    cases r with
    | nil => simp [joinDots, labLen]
    | cons l' r =>
      have := ih (by simp)
      simp only [joinDots_cons_cons, List.length_append, List.length_cons, labLen_cons] at this ⊢
      omega

theorem and_c0_of_lt (c : Nat) (h : c < 64) : c &&& 0xc0 = 0 := by
  have : ∀ c : Fin 64, c.val &&& 0xc0 = 0 := by decide
  exact this ⟨c, h⟩

theorem copyLabel_at {l : List Nat} (hl : l.length ≤ 65536) (length : Nat) (w : List Nat) :
    ∀ {s : Nat} {out Y : List Nat}, At l s (w ++ Y) → out.length + w.length + 1 ≤ length → (Y ≠ [] ∨ w = []) →
      copyLabel (rx l) length w.length s out = .ok (s + w.length, out ++ w) := by
  induction w with
  | nil => intro s out Y _ _ _; simp [copyLabel]
  | cons x w ih =>
    intro s out Y h hlen hY
    have hlt : s < (rx l).plen := by simpa using At.lt h
    simp only [List.length_cons] at hlen
    simp only [List.length_cons, copyLabel]
    rw [if_pos ⟨by omega, hlt⟩]
    simp only [rx_get_at hl h, bind_ok, push_ok x (show out.length < length by omega)]
    rw [ih (At.tail h) (by simp; omega) (by
      rcases hY with hY | hY
      · exact Or.inl hY
      · cases hY)]
    simp
    omega

/-- The `while` loop of `readname_loop` over the labels `ls` followed by the root byte: every label is
copied, dots in between, NUL at the end; the read pointer ends behind the root byte. -/
theorem nameLoop_labels {l : List Nat} (hl : l.length ≤ 65536) (length : Nat)
    (rec : Nat → Nat → Except Fault (List Nat)) (src0 : Nat) (ls : List (List Nat)) :
    ∀ (fuel s : Nat) (out Y : List Nat), LabelsOK ls → At l s (encLabels ls ++ 0 :: Y) → ls.length ≤ fuel →
      out.length + (joinDots ls).length + 2 ≤ length →
      nameLoop (rx l) length rec src0 fuel s out = .ok (s + labLen ls + 1, out ++ joinDots ls ++ [0]) := by
  induction ls with
  | nil =>
    intro fuel s out Y _ h _ hlen
    have h0 : At l s (0 :: Y) := by simpa [encLabels] using h
    have hlt : s < (rx l).plen := by simpa using At.lt h0
    simp only [joinDots, List.length_nil] at hlen
    unfold nameLoop
    simp only [hlt, not_true_eq_false, if_false, rx_get_at hl h0, bind_ok, true_or, if_true, nameFinish,
      push_ok 0 (show out.length < length by omega), labLen_nil]
    simp [joinDots]
  | cons w r ih =>
    intro fuel s out Y hok h hfuel hlen
    have hw := hok w (by simp)
    have h0 : At l s (w.length :: (w ++ (encLabels r ++ 0 :: Y))) := by
      simpa [encLabels_cons, List.append_assoc] using h
    have hlt : s < (rx l).plen := by simpa using At.lt h0
    have hjl : w.length ≤ (joinDots (w :: r)).length := by
      cases r with
      | nil => simp [joinDots]
      | cons l' r => simp [joinDots_cons_cons]
    cases fuel with
    | zero => simp at hfuel
    | succ fuel =>
      unfold nameLoop
      simp only [hlt, not_true_eq_false, if_false, rx_get_at hl h0, bind_ok]
      rw [if_neg (by omega)]
      rw [and_c0_of_lt _ (by omega)]
      simp only [show (0 : Nat) ≠ 0xc0 by decide, if_false, ne_eq, not_true_eq_false]
      have h1 : At l (s + 1) (w ++ (encLabels r ++ 0 :: Y)) := At.tail h0
      rw [copyLabel_at hl length w h1 (by omega) (Or.inl (by simp))]
      simp only [bind_ok]
      have h2 : At l (s + 1 + w.length) (encLabels r ++ 0 :: Y) := h1.right
      cases r with
      | nil =>
        simp only [joinDots] at hlen
        have h3 : At l (s + 1 + w.length) (0 :: Y) := by simpa [encLabels] using h2
        have hlt2 : s + 1 + w.length < (rx l).plen := by simpa using At.lt h3
        rw [if_neg (by simp; omega)]
        simp only [hlt2, if_true, rx_get_at hl h3, bind_ok, not_true_eq_false, if_false]
        have := ih fuel (s + 1 + w.length) (out ++ w) Y (LabelsOK.tail hok) h2 (by simp) (by simp [joinDots]; omega)
        rw [this]
        simp [joinDots, labLen_cons]
        omega
      | cons w' r' =>
        simp only [joinDots_cons_cons, List.length_append, List.length_cons] at hlen
        have hw' := hok w' (by simp)
        have h3 : At l (s + 1 + w.length) (w'.length :: (w' ++ (encLabels r' ++ 0 :: Y))) := by
          simpa [encLabels_cons, List.append_assoc] using h2
        have hlt2 : s + 1 + w.length < (rx l).plen := by simpa using At.lt h3
        rw [if_neg (by simp; omega)]
        simp only [hlt2, if_true, rx_get_at hl h3, bind_ok]
        rw [if_pos (by omega)]
        simp only [push_ok 46 (show (out ++ w).length < length by simp; omega), bind_ok]
        have := ih fuel (s + 1 + w.length) (out ++ w ++ [46]) Y (LabelsOK.tail hok) h2
          (by simp only [List.length_cons] at hfuel ⊢; omega) (by simp; omega)
        rw [this]
        simp [joinDots_cons_cons, labLen_cons]
        omega

/-- `readname` on an uncompressed name: the dotted name and its NUL; `*src` behind the root byte -/
theorem readname_labels {l : List Nat} (hl : l.length ≤ 65536) (length p : Nat) (ls : List (List Nat)) (Y : List Nat)
    (hok : LabelsOK ls) (h : At l p (encName ls ++ Y)) (hlen : (joinDots ls).length + 2 ≤ length) (h3 : 3 ≤ length) :
    readname (rx l) p length = .ok (p + labLen ls + 1, joinDots ls ++ [0]) := by
  have h' : At l p (encLabels ls ++ 0 :: Y) := by simpa [encName, List.append_assoc] using h
  have hle := h'.le (by simp)
  have hll := length_le_labLen ls hok
  have hel : (encLabels ls).length = labLen ls := encLabels_length ls
  simp only [List.length_append, List.length_cons, hel] at hle
  rw [readname_eq _ _ _ h3]
  rw [nameLoop_labels hl length _ p ls _ p [] Y hok h' (by simp; omega) (by simpa using hlen)]
  simp

/-- `readname` on a compression pointer to offset 12: `*src` behind the pointer (whatever is read there) -/
theorem readname_ptr {l : List Nat} (hl : l.length ≤ 65536) (p : Nat) (Y : List Nat) (h12 : 12 < l.length)
    (h : At l p (0xc0 :: 0x0c :: Y)) : ∃ w, readname (rx l) p 256 = .ok (p + 2, w) := by
  have hlt : p < (rx l).plen := by simpa using At.lt h
  have hlt1 : p + 1 < (rx l).plen := by simpa using At.lt h.tail
  have hcap : (rx l).plen ≤ (rx l).cap := rx_cap_ok hl
  obtain ⟨r, hr, _⟩ := readnameLoop_spec (rx l) hcap 9 12 256 (by omega)
  have hpl : (rx l).plen = l.length := rx_plen l
  rw [readname_eq _ _ _ (by omega)]
  have hfuel : (rx l).plen = (l.length - 1) + 1 := by rw [hpl]; omega
  rw [hfuel]
  unfold nameLoop
  simp only [hlt, not_true_eq_false, if_false, rx_get_at hl h, bind_ok]
  rw [if_neg (by simp)]
  simp only [show (0xc0 : Nat) &&& 0xc0 = 0xc0 by decide, if_true, hlt1, not_true_eq_false, if_false,
    rx_get_at hl h.tail, bind_ok]
  have hoff : ((0xc0 : Nat) &&& 0x3f) <<< 8 ||| (0x0c &&& 0xff) = 12 := by decide
  rw [hoff, if_neg (by rw [hpl]; omega)]
  simp only [List.length_nil, Nat.sub_zero, hr, map_ok, bind_ok]
  rw [if_neg (by simp)]
  exact ⟨r.2, by simp⟩

end Iodine.Wire
