import IodineModel.Lemmas.C02R3
/-
RAW UDP mode, the clean-path theorems over the joined model: a frame offered on one side is written to the peer's tun
device exactly once, after ONE step of the prompt scheduler (`raw_up`, `raw_down`); when the client's raw keepalive is
due, a ping exchange follows (three steps, `raw_up_keepalive`, `raw_down_keepalive`) that refreshes both sides' timers.
-/
namespace Iodine.C02L
open Iodine Iodine.Gen Iodine.World

/-! ### the prompt scheduler with a datagram in flight -/

theorem prompt_up {u : Nat} {w : W} {d : UpD} {rest : List UpD} (hup : w.up = d :: rest) (k : Nat) :
    promptSteps u (k + 1) w = promptSteps u k (step w .deliverUp) := by
  rw [promptSteps_succ (quiet_false_of_up u w d rest hup), promptEv_up w d rest hup]

theorem prompt_down {u : Nat} {w : W} {d : DownD} {rest : List DownD} (h1 : w.up = []) (hdown : w.down = d :: rest) (k : Nat) :
    promptSteps u (k + 1) w = promptSteps u k (step w .deliverDown) := by
  rw [promptSteps_succ (quiet_false_of_down u w d rest hdown), promptEv_down w d rest h1 hdown]

/-! ### what stays -/

/-- what no raw-mode transfer changes: the tunnel address of the session, both clocks, the client's `selecttimeout` -/
structure RawKept (u : Nat) (w w' : W) : Prop where
  tunIp : (Server.getUser w'.srv u).tunIp = (Server.getUser w.srv u).tunIp
  nowS : w'.srv.now = w.srv.now
  nowC : w'.cs.c.now = w.cs.c.now
  selto : w'.cs.c.selecttimeout = w.cs.c.selecttimeout

theorem srvUp_tunIp (x : Server.Session) (f : List Nat) (n : Nat) : (srvUp (srvTop x) f n).tunIp = x.tunIp := rfl
theorem srvPing_tunIp (x : Server.Session) (n : Nat) : (srvPing (srvTop x) n).tunIp = x.tunIp := rfl
theorem srvTop_tunIp (x : Server.Session) : (srvTop x).tunIp = x.tunIp := rfl
theorem srvUp_lastPkt (x : Server.Session) (f : List Nat) (n : Nat) : (srvUp x f n).lastPkt = n := rfl
theorem srvPing_lastPkt (x : Server.Session) (n : Nat) : (srvPing x n).lastPkt = n := rfl
theorem srvTop_lastPkt (x : Server.Session) : (srvTop x).lastPkt = x.lastPkt := rfl

theorem cliUp_not_due (c : Client.Cli) (f : List Nat) (hsel : 0 < c.selecttimeout) : ¬ kaDue (cliUp c f) := by
  have h := cliKa_not_due c hsel
  have hn : (cliKa c).now = c.now := by rw [cliKa_frame]
  have hs : (cliKa c).selecttimeout = c.selecttimeout := by rw [cliKa_frame]
  obtain ⟨e1, e2, _, e4⟩ := cliUp_facts c f
  unfold kaDue at h ⊢
  rw [e1, e2, e4]
  rw [hn, hs] at h
  exact h

theorem cliDown_not_due (c : Client.Cli) (hsel : 0 < c.selecttimeout) : ¬ kaDue (cliDown c) := by
  have h := cliKa_not_due c hsel
  have hn : (cliKa c).now = c.now := by rw [cliKa_frame]
  have hs : (cliKa c).selecttimeout = c.selecttimeout := by rw [cliKa_frame]
  obtain ⟨e1, e2, _, e4⟩ := cliDown_facts c
  unfold kaDue at h ⊢
  rw [e1, e2, e4]
  rw [hn, hs] at h
  exact h

/-- the cut at 4091 bytes keeps the IP header -/
theorem ipDst_cut (f : List Nat) : Server.ipDst (f.take 4091) = Server.ipDst f := by
  unfold Server.ipDst
  rw [List.drop_take, List.take_take]
  rfl

theorem cut_length (f : List Nat) (h24 : 24 ≤ f.length) : 24 ≤ (f.take 4091).length ∧ (f.take 4091).length + 5 ≤ 65536 := by
  rw [List.length_take]; omega

/-! ### upstream -/

/-- **One packet upstream, raw mode, keepalive not due, any length.**  From a quiescent raw-mode joint state, the first
4091 bytes of a frame (`send_raw` cuts the compressed packet at `4096 - 4` bytes, silently) that is not addressed to the
client's own tunnel address are written to the server's tun device after ONE step of the prompt schedule; quiescent again.
The server has heard from the client (`last_pkt`), the client has heard nothing (`lastdownstreamtime` unchanged). -/
theorem raw_up_cut {u : Nat} {w : W} (hq : QuietRaw u w) (f : List Nat) (h24 : 24 ≤ f.length) (hlen : f.length < 65536)
    (hdst : Server.ipDst f ≠ (Server.getUser w.srv u).tunIp) (hnd : ¬ kaDue w.cs.c) :
    ∃ w', promptSteps u 1 (step w (.offerC f)) = some w' ∧ QuietRaw u w' ∧
      w'.tunS = w.tunS ++ [tunImage (f.take 4091)] ∧ w'.tunC = w.tunC ∧ RawKept u w w' ∧
      (Server.getUser w'.srv u).lastPkt = w'.srv.now ∧
      w'.cs.c.lastdownstreamtime = w.cs.c.lastdownstreamtime ∧ w'.cs.c.lastrawping = w.cs.c.lastrawping := by
  obtain ⟨cs, srv, up, down, tunC, tunS⟩ := w
  have hup : up = [] := hq.up
  have hdown : down = [] := hq.down
  subst hup hdown
  have hne : f ≠ [] := by intro hc; rw [hc] at h24; simp at h24
  obtain ⟨e1, i1⟩ := raw_step_offerC hq.inv f hne hlen
  rw [upKa_not_due hnd] at e1 i1
  obtain ⟨e2, i2⟩ := raw_step_up_data i1 (f.take 4091) [] rfl (cut_length f h24).1 (cut_length f h24).2
    (by rw [ipDst_cut]; exact hdst)
  have hg := (i1.srvPut _ (i1.srv.slot.top.up (f.take 4091)) rfl).2
  have hc := cliUp_facts cs.c f
  refine ⟨_, ?_, ⟨i2, rfl, rfl⟩, rfl, rfl, ⟨?_, rfl, hc.1, hc.2.1⟩, ?_, hc.2.2.1, ?_⟩
  · rw [e1, prompt_up (d := .raw (rawFrame u 32 (0x5a :: f.take 4091))) (rest := []) (by rfl) 0, e2]
    rfl
  · exact (congrArg Server.Session.tunIp hg).trans (srvUp_tunIp _ _ _)
  · exact (congrArg Server.Session.lastPkt hg).trans (srvUp_lastPkt _ _ _)
  · exact hc.2.2.2.trans (congrArg Client.Cli.lastrawping (cliKa_not_due' hnd))

/-- **One packet upstream, raw mode, keepalive due, any length** (`lastrawping + selecttimeout <= time(NULL)`; the case the
keepalive was added for: traffic in one direction only).  The client sends a raw ping in front of the data datagram;
the prompt schedule delivers the ping (the server answers it), the data datagram (written to the server's tun device),
and the server's ping answer: THREE steps, quiescent again.  Afterwards both sides have heard from each other:
`last_pkt = now` on the server, `lastdownstreamtime = lastrawping = now` on the client. -/
theorem raw_up_keepalive_cut {u : Nat} {w : W} (hq : QuietRaw u w) (f : List Nat) (h24 : 24 ≤ f.length)
    (hlen : f.length < 65536) (hdst : Server.ipDst f ≠ (Server.getUser w.srv u).tunIp)
    (hd : kaDue w.cs.c) (hsel : 0 < w.cs.c.selecttimeout) :
    ∃ w', promptSteps u 3 (step w (.offerC f)) = some w' ∧ QuietRaw u w' ∧
      w'.tunS = w.tunS ++ [tunImage (f.take 4091)] ∧ w'.tunC = w.tunC ∧ RawKept u w w' ∧
      (Server.getUser w'.srv u).lastPkt = w'.srv.now ∧
      w'.cs.c.lastdownstreamtime = w'.cs.c.now ∧ w'.cs.c.lastrawping = w'.cs.c.now := by
  obtain ⟨cs, srv, up, down, tunC, tunS⟩ := w
  have hup : up = [] := hq.up
  have hdown : down = [] := hq.down
  subst hup hdown
  have hne : f ≠ [] := by intro hc; rw [hc] at h24; simp at h24
  obtain ⟨e1, i1⟩ := raw_step_offerC hq.inv f hne hlen
  rw [upKa_due hd] at e1 i1
  obtain ⟨e2, i2⟩ := raw_step_up_ping i1 [.raw (rawFrame u 32 (0x5a :: f.take 4091))] rfl
  have hg2 := (i1.srvPut _ i1.srv.slot.top.ping rfl).2
  have ht2 := (congrArg Server.Session.tunIp hg2).trans (srvPing_tunIp _ _)
  obtain ⟨e3, i3⟩ := raw_step_up_data i2 (f.take 4091) [] rfl (cut_length f h24).1 (cut_length f h24).2
    (by rw [ht2, ipDst_cut]; exact hdst)
  have hg3 := (i2.srvPut _ (i2.srv.slot.top.up (f.take 4091)) rfl).2
  obtain ⟨e4, i4⟩ := raw_step_down_ping i3 [] rfl
  have hnd : ¬ kaDue (cliUp cs.c f) := cliUp_not_due cs.c f hsel
  rw [upKa_not_due hnd] at e4 i4
  have hc := cliUp_facts cs.c f
  have hc' := cliDown_facts (cliUp cs.c f)
  refine ⟨_, ?_, ⟨i4, rfl, rfl⟩, rfl, rfl, ⟨?_, rfl, hc'.1.trans hc.1, hc'.2.1.trans hc.2.1⟩, ?_, ?_, ?_⟩
  · rw [e1, prompt_up (d := .raw (rawFrame u 48 [])) (rest := [.raw (rawFrame u 32 (0x5a :: f.take 4091))]) (by rfl) 2, e2,
      prompt_up (d := .raw (rawFrame u 32 (0x5a :: f.take 4091))) (rest := []) (by rfl) 1, e3,
      prompt_down (d := .raw (rawFrame u 48 [])) (rest := []) (by rfl) (by rfl) 0, e4]
    rfl
  · exact ((congrArg Server.Session.tunIp hg3).trans (srvUp_tunIp _ _ _)).trans ht2
  · exact (congrArg Server.Session.lastPkt hg3).trans (srvUp_lastPkt _ _ _)
  · exact hc'.2.2.1.trans hc'.1.symm
  · refine (hc'.2.2.2.trans (congrArg Client.Cli.lastrawping (cliKa_not_due' hnd))).trans ?_
    refine (hc.2.2.2.trans ?_).trans (hc'.1.trans hc.1).symm
    exact congrArg Client.Cli.lastrawping (cliKa_due hd)

/-! ### downstream -/

/-- **One packet downstream, raw mode, keepalive not due, any length.**  The first 4091 bytes of a frame addressed to the client's
tunnel address, offered to the server, are written to the client's tun device after ONE step of the prompt schedule;
quiescent again.  The client has heard from the server (`lastdownstreamtime = now`), the server nothing. -/
theorem raw_down_cut {u : Nat} {w : W} (hq : QuietRaw u w) (f : List Nat) (h24 : 24 ≤ f.length) (hlen : f.length < 65536)
    (hdst : Server.ipDst f = (Server.getUser w.srv u).tunIp) (hnd : ¬ kaDue w.cs.c) :
    ∃ w', promptSteps u 1 (step w (.offerS f)) = some w' ∧ QuietRaw u w' ∧
      w'.tunC = w.tunC ++ [tunImage (f.take 4091)] ∧ w'.tunS = w.tunS ∧ RawKept u w w' ∧
      w'.cs.c.lastdownstreamtime = w'.cs.c.now ∧
      (Server.getUser w'.srv u).lastPkt = (Server.getUser w.srv u).lastPkt ∧ w'.cs.c.lastrawping = w.cs.c.lastrawping := by
  obtain ⟨cs, srv, up, down, tunC, tunS⟩ := w
  have hup : up = [] := hq.up
  have hdown : down = [] := hq.down
  subst hup hdown
  obtain ⟨e1, i1⟩ := raw_step_offerS hq.inv f h24 hlen hdst
  have hg := (hq.inv.srvPut _ hq.inv.srv.slot.top rfl).2
  obtain ⟨e2, i2⟩ := raw_step_down_data i1 (f.take 4091) [] rfl (by have := (cut_length f h24).1; omega) (cut_length f h24).2
  rw [upKa_not_due hnd] at e2 i2
  have hc := cliDown_facts cs.c
  refine ⟨_, ?_, ⟨i2, rfl, rfl⟩, rfl, rfl, ⟨?_, rfl, hc.1, hc.2.1⟩, hc.2.2.1.trans hc.1.symm, ?_, ?_⟩
  · rw [e1, prompt_down (d := .raw (rawFrame u 32 (0x5a :: f.take 4091))) (rest := []) (by rfl) (by rfl) 0, e2]
    rfl
  · exact (congrArg Server.Session.tunIp hg).trans (srvTop_tunIp _)
  · exact (congrArg Server.Session.lastPkt hg).trans (srvTop_lastPkt _)
  · exact hc.2.2.2.trans (congrArg Client.Cli.lastrawping (cliKa_not_due' hnd))

/-- **One packet downstream, raw mode, keepalive due, any length.**  The client writes the frame to its tun device and, the
keepalive being due, sends a raw ping; the server answers it; the answer arrives: THREE steps, quiescent again, both
sides have heard from each other. -/
theorem raw_down_keepalive_cut {u : Nat} {w : W} (hq : QuietRaw u w) (f : List Nat) (h24 : 24 ≤ f.length)
    (hlen : f.length < 65536) (hdst : Server.ipDst f = (Server.getUser w.srv u).tunIp)
    (hd : kaDue w.cs.c) (hsel : 0 < w.cs.c.selecttimeout) :
    ∃ w', promptSteps u 3 (step w (.offerS f)) = some w' ∧ QuietRaw u w' ∧
      w'.tunC = w.tunC ++ [tunImage (f.take 4091)] ∧ w'.tunS = w.tunS ∧ RawKept u w w' ∧
      w'.cs.c.lastdownstreamtime = w'.cs.c.now ∧
      (Server.getUser w'.srv u).lastPkt = w'.srv.now ∧ w'.cs.c.lastrawping = w'.cs.c.now := by
  obtain ⟨cs, srv, up, down, tunC, tunS⟩ := w
  have hup : up = [] := hq.up
  have hdown : down = [] := hq.down
  subst hup hdown
  obtain ⟨e1, i1⟩ := raw_step_offerS hq.inv f h24 hlen hdst
  have hg1 := (hq.inv.srvPut _ hq.inv.srv.slot.top rfl).2
  have ht1 := (congrArg Server.Session.tunIp hg1).trans (srvTop_tunIp _)
  obtain ⟨e2, i2⟩ := raw_step_down_data i1 (f.take 4091) [] rfl (by have := (cut_length f h24).1; omega) (cut_length f h24).2
  rw [upKa_due hd] at e2 i2
  obtain ⟨e3, i3⟩ := raw_step_up_ping i2 [] rfl
  have hg3 := (i2.srvPut _ i2.srv.slot.top.ping rfl).2
  obtain ⟨e4, i4⟩ := raw_step_down_ping i3 [] rfl
  have hnd : ¬ kaDue (cliDown cs.c) := cliDown_not_due cs.c hsel
  rw [upKa_not_due hnd] at e4 i4
  have hc := cliDown_facts cs.c
  have hc' := cliDown_facts (cliDown cs.c)
  refine ⟨_, ?_, ⟨i4, rfl, rfl⟩, rfl, rfl, ⟨?_, rfl, hc'.1.trans hc.1, hc'.2.1.trans hc.2.1⟩, hc'.2.2.1.trans hc'.1.symm, ?_, ?_⟩
  · rw [e1, prompt_down (d := .raw (rawFrame u 32 (0x5a :: f.take 4091))) (rest := []) (by rfl) (by rfl) 2, e2,
      prompt_up (d := .raw (rawFrame u 48 [])) (rest := []) (by rfl) 1, e3,
      prompt_down (d := .raw (rawFrame u 48 [])) (rest := []) (by rfl) (by rfl) 0, e4]
    rfl
  · exact ((congrArg Server.Session.tunIp hg3).trans (srvPing_tunIp _ _)).trans ht1
  · exact (congrArg Server.Session.lastPkt hg3).trans (srvPing_lastPkt _ _)
  · refine (hc'.2.2.2.trans (congrArg Client.Cli.lastrawping (cliKa_not_due' hnd))).trans ?_
    refine (hc.2.2.2.trans ?_).trans (hc'.1.trans hc.1).symm
    exact congrArg Client.Cli.lastrawping (cliKa_due hd)

/-! ### frames that fit: delivered unchanged -/

theorem cut_fits (f : List Nat) (hlen : f.length + 1 ≤ 4092) : f.take 4091 = f := List.take_of_length_le (by omega)

/-- **raw_up**: a frame of at most 4091 bytes (so that the compressed packet fits `send_raw`'s `packet[4096]`), keepalive
not due: written to the server's tun device exactly once, one scheduler step. -/
theorem raw_up {u : Nat} {w : W} (hq : QuietRaw u w) (f : List Nat) (h24 : 24 ≤ f.length) (hlen : f.length + 1 ≤ 4092)
    (hdst : Server.ipDst f ≠ (Server.getUser w.srv u).tunIp) (hnd : ¬ kaDue w.cs.c) :
    ∃ w', promptSteps u 1 (step w (.offerC f)) = some w' ∧ QuietRaw u w' ∧
      w'.tunS = w.tunS ++ [tunImage f] ∧ w'.tunC = w.tunC ∧ RawKept u w w' ∧
      (Server.getUser w'.srv u).lastPkt = w'.srv.now ∧
      w'.cs.c.lastdownstreamtime = w.cs.c.lastdownstreamtime ∧ w'.cs.c.lastrawping = w.cs.c.lastrawping := by
  have := raw_up_cut hq f h24 (by omega) hdst hnd
  rw [cut_fits f hlen] at this
  exact this

/-- **raw_up, keepalive due**: three scheduler steps (ping up, data up, ping answer down); both sides have heard from
each other afterwards. -/
theorem raw_up_keepalive {u : Nat} {w : W} (hq : QuietRaw u w) (f : List Nat) (h24 : 24 ≤ f.length)
    (hlen : f.length + 1 ≤ 4092) (hdst : Server.ipDst f ≠ (Server.getUser w.srv u).tunIp)
    (hd : kaDue w.cs.c) (hsel : 0 < w.cs.c.selecttimeout) :
    ∃ w', promptSteps u 3 (step w (.offerC f)) = some w' ∧ QuietRaw u w' ∧
      w'.tunS = w.tunS ++ [tunImage f] ∧ w'.tunC = w.tunC ∧ RawKept u w w' ∧
      (Server.getUser w'.srv u).lastPkt = w'.srv.now ∧
      w'.cs.c.lastdownstreamtime = w'.cs.c.now ∧ w'.cs.c.lastrawping = w'.cs.c.now := by
  have := raw_up_keepalive_cut hq f h24 (by omega) hdst hd hsel
  rw [cut_fits f hlen] at this
  exact this

/-- **raw_down**: a frame of at most 4091 bytes addressed to the client's tunnel address, keepalive not due: written to
the client's tun device exactly once, one scheduler step. -/
theorem raw_down {u : Nat} {w : W} (hq : QuietRaw u w) (f : List Nat) (h24 : 24 ≤ f.length) (hlen : f.length + 1 ≤ 4092)
    (hdst : Server.ipDst f = (Server.getUser w.srv u).tunIp) (hnd : ¬ kaDue w.cs.c) :
    ∃ w', promptSteps u 1 (step w (.offerS f)) = some w' ∧ QuietRaw u w' ∧
      w'.tunC = w.tunC ++ [tunImage f] ∧ w'.tunS = w.tunS ∧ RawKept u w w' ∧
      w'.cs.c.lastdownstreamtime = w'.cs.c.now ∧
      (Server.getUser w'.srv u).lastPkt = (Server.getUser w.srv u).lastPkt ∧ w'.cs.c.lastrawping = w.cs.c.lastrawping := by
  have := raw_down_cut hq f h24 (by omega) hdst hnd
  rw [cut_fits f hlen] at this
  exact this

/-- **raw_down, keepalive due**: three scheduler steps (data down, ping up, ping answer down). -/
theorem raw_down_keepalive {u : Nat} {w : W} (hq : QuietRaw u w) (f : List Nat) (h24 : 24 ≤ f.length)
    (hlen : f.length + 1 ≤ 4092) (hdst : Server.ipDst f = (Server.getUser w.srv u).tunIp)
    (hd : kaDue w.cs.c) (hsel : 0 < w.cs.c.selecttimeout) :
    ∃ w', promptSteps u 3 (step w (.offerS f)) = some w' ∧ QuietRaw u w' ∧
      w'.tunC = w.tunC ++ [tunImage f] ∧ w'.tunS = w.tunS ∧ RawKept u w w' ∧
      w'.cs.c.lastdownstreamtime = w'.cs.c.now ∧
      (Server.getUser w'.srv u).lastPkt = w'.srv.now ∧ w'.cs.c.lastrawping = w'.cs.c.now := by
  have := raw_down_keepalive_cut hq f h24 (by omega) hdst hd hsel
  rw [cut_fits f hlen] at this
  exact this

end Iodine.C02L
