import IodineModel.Lemmas.CliQ2
import IodineModel.Props.C01
/-
C08 lifted to client sessions, part 3: the TUNNEL machine (`Client/Tunnel.lean`, `Client/Loop.lean`).

The invariant of the tunnel phase is `Late` (Lemmas/CliQ2.lean).  `CGood o` is the postcondition of a step: the state is
`Late` again, all query events are `EvOk`, and every query event whose name starts with the user-id character — a data
chunk — satisfies `Carries` with respect to the state the step ends in: the name carries
`outpkt.data[offset .. offset + sentlen)` and the header fields of that state (Props/C01.lean `hop_lossless_up_at`).
-/
namespace Iodine.CliQ
open Iodine Iodine.Client Iodine.Gen

variable {L : Nat} {td : List Nat}

/-! ### relations between states -/

/-- `c'` agrees with `c` on what `Late` looks at; the packet in flight may have been given up -/
structure SameW (c c' : Cli) : Prop where
  td : c'.topdomain = c.topdomain
  ml : c'.hostnameMaxlen = c.hostnameMaxlen
  dn : c'.downenc = c.downenc
  cmc : c'.datacmc = c.datacmc
  data : c'.outpkt.data = c.outpkt.data
  len : c'.outpkt.len = c.outpkt.len ∨ c'.outpkt.len = 0
  ty : c'.doQtype = c.doQtype
  uc : c'.useridChar = c.useridChar

theorem Late.sameW {c c' : Cli} (h : Late L td c) (e : SameW c c') : Late L td c' := by
  obtain ⟨⟨hb, ht⟩, u, hu, huc⟩ := h
  refine ⟨⟨⟨e.td ▸ hb.td, e.ml ▸ hb.maxlen, e.dn ▸ hb.downenc, e.cmc ▸ hb.cmc, e.data ▸ hb.pkt, ?_⟩, e.ty ▸ ht⟩,
    u, hu, e.uc ▸ huc⟩
  rcases e.len with h | h
  · rw [h, e.data]; exact hb.pktlen
  · exact Or.inl h

theorem Same.toW {c c' : Cli} (e : Same c c') : SameW c c' :=
  ⟨e.td, e.ml, e.dn, e.cmc, by rw [e.pkt], Or.inl (by rw [e.pkt]), e.ty, e.uc⟩

theorem SameW.refl (c : Cli) : SameW c c := ⟨rfl, rfl, rfl, rfl, rfl, Or.inl rfl, rfl, rfl⟩

theorem SameW.trans {a b c : Cli} (h1 : SameW a b) (h2 : SameW b c) : SameW a c := by
  refine ⟨h2.td.trans h1.td, h2.ml.trans h1.ml, h2.dn.trans h1.dn, h2.cmc.trans h1.cmc, h2.data.trans h1.data, ?_,
    h2.ty.trans h1.ty, h2.uc.trans h1.uc⟩
  rcases h2.len with h | h
  · rcases h1.len with h' | h'
    · exact Or.inl (h.trans h')
    · exact Or.inr (h.trans h')
  · exact Or.inr h

/-- `c'` agrees with `c` on everything a data query is made of -/
structure SameX (c c' : Cli) : Prop extends Same c c' where
  inp : c'.inpkt = c.inpkt
  enc : c'.dataenc = c.dataenc

theorem SameX.refl (c : Cli) : SameX c c := ⟨⟨⟨rfl, rfl, rfl, rfl, rfl⟩, rfl, rfl⟩, rfl, rfl⟩

theorem SameX.trans {a b c : Cli} (h1 : SameX a b) (h2 : SameX b c) : SameX a c :=
  ⟨h1.toSame.trans h2.toSame, h2.inp.trans h1.inp, h2.enc.trans h1.enc⟩

theorem sameX_rotate (c : Cli) : SameX c (rotateChunkid c) := by
  unfold rotateChunkid; exact ⟨⟨⟨rfl, rfl, rfl, rfl, rfl⟩, rfl, rfl⟩, rfl, rfl⟩

/-! ### events -/

/-- no query among the events -/
def NoQ (evs : List CEvent) : Prop := ∀ e ∈ evs, ∀ id ty n, e ≠ .query id ty n

theorem noq_nil : NoQ [] := by intro e h; cases h

theorem noq_one {e : CEvent} (h : ∀ id ty n, e ≠ .query id ty n) : NoQ [e] := by
  intro x hx; simp only [List.mem_singleton] at hx; subst hx; exact h

theorem noq_append {a b : List CEvent} (ha : NoQ a) (hb : NoQ b) : NoQ (a ++ b) := by
  intro e h
  rcases List.mem_append.mp h with h | h
  · exact ha e h
  · exact hb e h

theorem evsOk_of_noq {evs : List CEvent} (h : NoQ evs) : EvsOk L td evs := by
  intro e he
  cases e with
  | query id ty n => exact absurd rfl (h _ he id ty n)
  | rawtx _ => trivial
  | tunw _ => trivial
  | sys _ => trivial

/-! ### what a data query carries -/

/-- the name `name` carries the fragment `outpkt.data[offset .. offset + sentlen)` of the state `c`, and its header -/
def Carries (td : List Nat) (c : Cli) (name : List Nat) : Prop :=
  outRest c.outpkt ≠ [] →
    1 ≤ c.outpkt.sentlen ∧ c.outpkt.sentlen ≤ (outRest c.outpkt).length ∧
    (name.take (min (name.length - td.length) 512)).getD 0 0 = c.useridChar ∧
    C01.upSeqOf (name.take (min (name.length - td.length) 512)) = maskI c.outpkt.seqno 8 ∧
    C01.upFragOf (name.take (min (name.length - td.length) 512)) = maskI c.outpkt.fragment 16 ∧
    C01.lastOf (name.take (min (name.length - td.length) 512)) = (c.outpkt.sentlen == c.outpkt.len - c.outpkt.offset) ∧
    C01.dnSeqOf (name.take (min (name.length - td.length) 512)) = maskI c.inpkt.seqno 8 ∧
    C01.dnFragOf (name.take (min (name.length - td.length) 512)) = maskI c.inpkt.fragment 16 ∧
    Encoding.unpackData c.dataenc.codec 65536 ((name.take (min (name.length - td.length) 512)).drop 5) =
      (c.outpkt.data.drop c.outpkt.offset).take c.outpkt.sentlen

theorem Carries.sameX {c c' : Cli} {name : List Nat} (h : Carries td c name) (e : SameX c c') : Carries td c' name := by
  unfold Carries at h ⊢
  rw [e.pkt, e.uc, e.inp, e.enc]
  exact h

/-- every data query among `evs` carries what the state `c` says -/
def ChunkPost (td : List Nat) (c : Cli) (evs : List CEvent) : Prop :=
  ∀ id ty name, CEvent.query id ty name ∈ evs → name.getD 0 0 = c.useridChar → Carries td c name

theorem ChunkPost.sameX {c c' : Cli} {evs : List CEvent} (h : ChunkPost td c evs) (e : SameX c c') :
    ChunkPost td c' evs := by
  intro id ty name hm hn
  rw [e.uc] at hn
  exact (h id ty name hm hn).sameX e

theorem hexLower_not_po : ∀ u, u < 16 → C02L.hexLower u ≠ 111 ∧ C02L.hexLower u ≠ 112 := by decide

/-- queries that all start with `p` or `o` are no data queries -/
theorem chunkPost_of_po {c : Cli} {evs : List CEvent} (hu : UidOk c)
    (h : ∀ id ty name, CEvent.query id ty name ∈ evs → name.getD 0 0 = 112 ∨ name.getD 0 0 = 111) :
    ChunkPost td c evs := by
  intro id ty name hm hn
  obtain ⟨u, hu, huc⟩ := hu
  have := hexLower_not_po u hu
  rcases h id ty name hm with h | h <;> (rw [hn, huc] at h; omega)

theorem chunkPost_of_noq {c : Cli} {evs : List CEvent} (h : NoQ evs) : ChunkPost td c evs := by
  intro id ty name hm _
  exact absurd rfl (h _ hm id ty name)

theorem chunkPost_append {c : Cli} {a b : List CEvent} (ha : ChunkPost td c a) (hb : ChunkPost td c b) :
    ChunkPost td c (a ++ b) := by
  intro id ty name hm hn
  rcases List.mem_append.mp hm with h | h
  · exact ha id ty name h hn
  · exact hb id ty name h hn

/-- `send_chunk`'s own query -/
theorem carries_chunk (E : Env L td) (c : Cli) (hl : Late L td c) : Carries td (C01.chunkSent c) (C01L.chunkName c) := by
  intro hne
  have hne' : outRest c.outpkt ≠ [] := hne
  obtain ⟨⟨hb, _⟩, u, hu, huc⟩ := hl
  have htd := hb.td
  subst htd
  have hby : Codec.Bytes (outRest c.outpkt) := by
    intro x hx
    exact hb.pkt x (List.mem_of_mem_take (List.mem_of_mem_drop hx))
  have huc46 : c.useridChar ≠ 46 := by rw [huc]; exact (C02L.hexLower_chars u hu).1
  obtain ⟨_, _, _, h1, h2, _, _, _, g0, g1, g2, g3, g4, g5, g6, g7⟩ :=
    C01.hop_lossless_up_at c L hb.maxlen E.hL E.td_len E.td_legal huc46 hne' hby
  exact ⟨h1, h2, g0, g1, g2, g3, g4, g5, g6.trans g7⟩

/-! ### send_query with its answer counting -/

/-- what a sender that ends in `send_query host` delivers -/
structure SentOk (L : Nat) (td : List Nat) (c : Cli) (host : List Nat) (s : Sent) : Prop where
  same : SameX c s.c
  evs : EvsOk L td s.evs
  names : ∀ id ty name, CEvent.query id ty name ∈ s.evs → name = host ∨ name.getD 0 0 = 111

theorem sendLazySwitch_x (E : Env L td) (c : Cli) (hm : Mid L td c) :
    SameX c (sendLazySwitch c).1 ∧ EvsOk L td (sendLazySwitch c).2 ∧
      ∀ id ty name, CEvent.query id ty name ∈ (sendLazySwitch c).2 → name.getD 0 0 = 111 := by
  have hch : ∀ ch ∈ [111, b32_5to8 c.userid, if c.lazymode then 108 else 105], ch ≠ 46 ∧ ch ≠ 0 ∧ ch < 256 := by
    intro ch h
    simp only [List.mem_cons, List.not_mem_nil, or_false] at h
    rcases h with rfl | rfl | rfl
    · omega
    · exact C02L.b32_5to8_char _
    · split <;> omega
  obtain ⟨e, h⟩ := sendHandshakeQuery_ok E c [111, b32_5to8 c.userid, if c.lazymode then 108 else 105] hm.1.td hm.2
    (by simp) (by simp) hch
  unfold sendLazySwitch
  rw [e] at h ⊢
  refine ⟨?_, h, ?_⟩
  · exact SameX.trans (b := { c with randSeed := (c.randSeed + 1) % 65536 }) ⟨⟨⟨rfl, rfl, rfl, rfl, rfl⟩, rfl, rfl⟩, rfl, rfl⟩
      (sameX_rotate _)
  · intro id ty name hmem
    simp only [List.mem_singleton, CEvent.query.injEq] at hmem
    rw [hmem.2.2]; rfl

theorem lazyoffIter_x (E : Env L td) (c : Cli) (i : Nat) (hm : Mid L td c) :
    SameX c (lazyoffIter c i).c ∧ EvsOk L td (lazyoffIter c i).evs ∧
      ∀ id ty name, CEvent.query id ty name ∈ (lazyoffIter c i).evs → name.getD 0 0 = 111 := by
  unfold lazyoffIter
  split
  · exact sendLazySwitch_x E c hm
  · exact ⟨SameX.refl c, evsOk_nil, fun _ _ _ h => by cases h⟩

theorem sendQueryCount_x (E : Env L td) (c : Cli) (hm : Mid L td c) :
    SameX c (sendQueryCount c).c ∧ EvsOk L td (sendQueryCount c).evs ∧
      ∀ id ty name, CEvent.query id ty name ∈ (sendQueryCount c).evs → name.getD 0 0 = 111 := by
  unfold sendQueryCount
  simp only
  repeat' split
  all_goals first
    | exact ⟨⟨⟨⟨rfl, rfl, rfl, rfl, rfl⟩, rfl, rfl⟩, rfl, rfl⟩, evsOk_nil, fun _ _ _ h => by cases h⟩
    | (have hx := lazyoffIter_x E { c with sendcnt := c.sendcnt + 1, lazymode := false, selecttimeout := 1 } 0
        (hm.same ⟨⟨rfl, rfl, rfl, rfl, rfl⟩, rfl, rfl⟩)
       have e1 : SameX c { c with sendcnt := c.sendcnt + 1, lazymode := false, selecttimeout := 1 } :=
         ⟨⟨⟨rfl, rfl, rfl, rfl, rfl⟩, rfl, rfl⟩, rfl, rfl⟩
       exact ⟨e1.trans hx.1, hx.2.1, hx.2.2⟩)

/-- `send_query(fd, host)` for a name that is `NameOk` -/
theorem sendQuery_ok (E : Env L td) (c : Cli) (host : List Nat) (hm : Mid L td c) (hn : NameOk L td host) :
    SentOk L td c host (sendQuery c host) := by
  obtain ⟨e, he⟩ := sendQueryPlain_ok (L := L) (td := td) c host hm.2 hn
  have hx := sendQueryCount_x E (rotateChunkid c) (hm.same (same_rotate c))
  unfold sendQuery
  rw [e] at he ⊢
  simp only [if_true]
  refine ⟨(sameX_rotate c).trans hx.1, evsOk_append he hx.2.1, ?_⟩
  intro id ty name hmem
  rcases List.mem_append.mp hmem with h | h
  · simp only [List.mem_singleton, CEvent.query.injEq] at h
    exact Or.inl h.2.2
  · exact Or.inr (hx.2.2 id ty name h)

/-- postcondition of a sender, in terms of the state it ends in -/
structure SGood (L : Nat) (td : List Nat) (s : Sent) : Prop where
  late : Late L td s.c
  evs : EvsOk L td s.evs
  chunk : ChunkPost td s.c s.evs

/-- `send_packet(fd, cmd, data, datalen)` with the answer counting of `send_query` -/
theorem sendPacket_ok (E : Env L td) (c : Cli) (cmd : Nat) (d : List Nat) (hm : Mid L td c)
    (hc : cmd ≠ 46 ∧ cmd ≠ 0 ∧ cmd < 256) (hd : d ≠ []) (hb : Codec.Bytes d) :
    SentOk L td c (cmd :: (Client.buildHostname Codec.b32 (L : Int) 4095 cmd td d).name) (sendPacket c cmd d) := by
  obtain ⟨_, hn, _⟩ := hsSendPacket_ok E c cmd d hm.1.td hm.1.maxlen hm.2 hc hd hb
  unfold sendPacket
  rw [hm.1.td, hm.1.maxlen]
  exact sendQuery_ok E c _ hm hn

/-- `send_ping(fd)` -/
theorem sendPing_good (E : Env L td) (c : Cli) (hl : Late L td c) : SGood L td (sendPing c) := by
  unfold sendPing
  split
  · have hl' : Late L td { c with randSeed := (c.randSeed + 1) % 65536 } := hl.same ⟨⟨rfl, rfl, rfl, rfl, rfl⟩, rfl, rfl⟩
    have hs := sendPacket_ok E { c with randSeed := (c.randSeed + 1) % 65536 } 112
      [maskI c.userid 256, (maskI c.inpkt.seqno 8 * 16 ||| maskI c.inpkt.fragment 16) % 256,
       c.randSeed / 256 % 256, c.randSeed % 256] hl'.1 (by omega) (by simp) (C02L.pingData_bytes c)
    have hlate := hl'.same hs.same.toSame
    refine ⟨hlate, hs.evs, chunkPost_of_po hlate.2 ?_⟩
    intro id ty name hmem
    rcases hs.names id ty name hmem with h | h
    · left; rw [h]; rfl
    · right; exact h
  · refine ⟨hl.same ⟨⟨rfl, rfl, rfl, rfl, rfl⟩, rfl, rfl⟩, evsOk_of_noq ?_, chunkPost_of_noq ?_⟩ <;>
      exact noq_one (by intro id ty n h; simp [sendRaw] at h)

theorem chunkHeader_ok (c : Cli) (last : Bool) (hu : UidOk c) (hcmc : c.datacmc < 36) :
    ∀ ch ∈ chunkHeader c last, ch ≠ 46 ∧ ch ≠ 0 ∧ ch < 256 := by
  obtain ⟨u, hu, huc⟩ := hu
  exact C02L.chunkHeader_chars c last u hu huc hcmc

/-- `send_chunk(fd)` from a `Late` state -/
theorem sendChunk_good (E : Env L td) (c : Cli) (hl : Late L td c) : SGood L td (sendChunk c) := by
  have hb := hl.1.1
  have hlate' : Late L td (C01.chunkSent c) := by
    obtain ⟨⟨hb, ht⟩, hu⟩ := hl
    refine ⟨⟨⟨hb.td, hb.maxlen, hb.downenc, ?_, hb.pkt, hb.pktlen⟩, ht⟩, hu⟩
    show (if c.datacmc + 1 ≥ 36 then 0 else c.datacmc + 1) < 36
    split <;> omega
  have hby : Codec.Bytes (outRest c.outpkt) := by
    intro x hx
    exact hb.pkt x (List.mem_of_mem_take (List.mem_of_mem_drop hx))
  have hname : NameOk L td (C01L.chunkName c) := by
    unfold C01L.chunkName C01L.chunkBuilt
    rw [hb.td, hb.maxlen]
    exact chunkName_ok E c.dataenc _ _ rfl (chunkHeader_ok c _ hl.2 hb.cmc) hby
  have hs := sendQuery_ok E (C01.chunkSent c) (C01L.chunkName c) hlate'.1 hname
  show SGood L td (sendQuery (C01.chunkSent c) (C01L.chunkName c))
  have hfin := hlate'.same hs.same.toSame
  refine ⟨hfin, hs.evs, ?_⟩
  intro id ty name hmem hn
  rcases hs.names id ty name hmem with h | h
  · rw [h]
    exact (carries_chunk E c hl).sameX hs.same
  · obtain ⟨u, hu, huc⟩ := hfin.2
    have := hexLower_not_po u hu
    have hh := (hn.symm.trans h).symm.trans huc
    omega

/-! ### how a handler ends -/

/-- postcondition of a handler of `client_tunnel`'s loop -/
structure TGood (L : Nat) (td : List Nat) (r : Cli × List CEvent × Stop) : Prop where
  late : Late L td r.1
  evs : EvsOk L td r.2.1
  chunk : ChunkPost td r.1 r.2.1

theorem resume_sameX (c : Cli) (k : Resume) : SameX c (resume c k).1 := by
  rw [resume_state]; exact ⟨⟨⟨rfl, rfl, rfl, rfl, rfl⟩, rfl, rfl⟩, rfl, rfl⟩

theorem afterSend_good (s : Sent) (pre : List CEvent) (k : Resume) (hs : SGood L td s) (hp : NoQ pre) :
    TGood L td (afterSend s pre k) := by
  unfold afterSend
  split
  · exact ⟨hs.late, evsOk_append (evsOk_of_noq hp) hs.evs, chunkPost_append (chunkPost_of_noq hp) hs.chunk⟩
  · have e := resume_sameX s.c k
    exact ⟨hs.late.same e.toSame, evsOk_append (evsOk_of_noq hp) hs.evs,
      chunkPost_append (chunkPost_of_noq hp) (hs.chunk.sameX e)⟩

theorem tgood_noq (c : Cli) (evs : List CEvent) (st : Stop) (hl : Late L td c) (he : NoQ evs) : TGood L td (c, evs, st) :=
  ⟨hl, evsOk_of_noq he, chunkPost_of_noq he⟩

/-! ### tunnel_tun -/

theorem bytes_take {d : List Nat} (n : Nat) (h : Codec.Bytes d) : Codec.Bytes (d.take n) :=
  fun x hx => h x (List.mem_of_mem_take hx)

theorem tunnelTun_good (E : Env L td) (c : Cli) (frame : List Nat) (hl : Late L td c) (hf : Codec.Bytes frame) :
    TGood L td (tunnelTun c frame) := by
  unfold tunnelTun
  simp only
  split
  · exact tgood_noq _ _ _ hl noq_nil
  · split
    · exact tgood_noq _ _ _ hl noq_nil
    · have hl1 : Late L td { c with
          outpkt := { c.outpkt with data := (compress (frame.take 65536)).take 65536, sentlen := 0, offset := 0,
                                    seqno := sChar (((c.outpkt.seqno + 1) % 8 : Int)),
                                    len := (compress (frame.take 65536)).length, fragment := 0 },
          outchunkresent := 0 } := by
        obtain ⟨⟨hb, ht⟩, hu⟩ := hl
        refine ⟨⟨⟨hb.td, hb.maxlen, hb.downenc, hb.cmc, ?_, Or.inr ?_⟩, ht⟩, hu⟩
        · apply bytes_take
          intro x hx
          rcases List.mem_cons.mp hx with rfl | hx
          · omega
          · exact hf x (List.mem_of_mem_take hx)
        · show ((compress (frame.take 65536)).take 65536).length = min (compress (frame.take 65536)).length 65536
          rw [List.length_take, Nat.min_comm]
      split
      · exact afterSend_good _ _ _ (sendChunk_good E _ hl1) noq_nil
      · refine tgood_noq _ _ _ (hl1.sameW ⟨rfl, rfl, rfl, rfl, rfl, Or.inr rfl, rfl, rfl⟩) ?_
        exact noq_one (by intro id ty n h; simp [sendRaw] at h)

/-! ### tunnel_dns -/

theorem readRaw_good (c : Cli) (data : List Nat) : SameW c (readRaw c data).1 ∧ NoQ (readRaw c data).2 := by
  unfold readRaw
  simp only
  repeat' split
  all_goals first
    | exact ⟨SameW.refl _, noq_nil⟩
    | exact ⟨⟨rfl, rfl, rfl, rfl, rfl, Or.inl rfl, rfl, rfl⟩, noq_nil⟩
    | exact ⟨SameW.refl _, noq_one (by intro id ty n h; simp [writeTun] at h)⟩
    | exact ⟨⟨rfl, rfl, rfl, rfl, rfl, Or.inl rfl, rfl, rfl⟩, noq_one (by intro id ty n h; simp [writeTun] at h)⟩

theorem sameW_servfailCount (c : Cli) (rq : Rq) : SameW c (servfailCount c rq) := by
  unfold servfailCount
  repeat' split
  all_goals exact ⟨rfl, rfl, rfl, rfl, rfl, Or.inl rfl, rfl, rfl⟩

theorem sameW_dupeSeqno (c : Cli) (h : Hdr) (read : Int) : SameW c (dupeSeqno c h read).1 := by
  unfold dupeSeqno
  split <;> exact ⟨rfl, rfl, rfl, rfl, rfl, Or.inl rfl, rfl, rfl⟩

theorem sameW_countRecv (c : Cli) : SameW c (countRecv c) := ⟨rfl, rfl, rfl, rfl, rfl, Or.inl rfl, rfl, rfl⟩

theorem sameW_oosCount (c : Cli) : SameW c (oosCount c) := by
  unfold oosCount
  simp only
  split <;> exact ⟨rfl, rfl, rfl, rfl, rfl, Or.inl rfl, rfl, rfl⟩

theorem sameW_lazyHint (c : Cli) (id : Nat) : SameW c (lazyHint c id) := by
  unfold lazyHint
  repeat' split
  all_goals exact ⟨rfl, rfl, rfl, rfl, rfl, Or.inl rfl, rfl, rfl⟩

theorem sameW_datalessAdopt (c : Cli) (h : Hdr) (read : Int) : SameW c (datalessAdopt c h read) := by
  unfold datalessAdopt
  split <;> exact ⟨rfl, rfl, rfl, rfl, rfl, Or.inl rfl, rfl, rfl⟩

theorem sameW_acceptFragment (c c' : Cli) (h : Hdr) (ha : acceptFragment c h = some c') : SameW c c' := by
  unfold acceptFragment at ha
  repeat' split at ha
  all_goals first
    | (injection ha with ha; subst ha; first | exact SameW.refl _ | exact ⟨rfl, rfl, rfl, rfl, rfl, Or.inl rfl, rfl, rfl⟩)
    | cases ha

theorem sameW_appendFragment (c : Cli) (h : Hdr) (buf : List Nat) (read : Int) : SameW c (appendFragment c h buf read) :=
  ⟨rfl, rfl, rfl, rfl, rfl, Or.inl rfl, rfl, rfl⟩

theorem deliver_good (c : Cli) : SameW c (deliver c).1 ∧ NoQ (deliver c).2 := by
  unfold deliver
  refine ⟨⟨rfl, rfl, rfl, rfl, rfl, Or.inl rfl, rfl, rfl⟩, ?_⟩
  simp only
  split
  · exact noq_one (by intro id ty n h; simp [writeTun] at h)
  · exact noq_nil

theorem downstream_good (c : Cli) (h : Hdr) (buf : List Nat) (read : Int) (sn : Bool) :
    SameW c (downstream c h buf read sn).1 ∧ NoQ (downstream c h buf read sn).2.1 := by
  unfold downstream
  split
  · split
    · exact ⟨⟨rfl, rfl, rfl, rfl, rfl, Or.inl rfl, rfl, rfl⟩, noq_nil⟩
    · rename_i c' ha
      have h1 := sameW_acceptFragment c c' h ha
      have h2 := sameW_appendFragment c' h buf read
      have h3 := deliver_good (appendFragment c' h buf read)
      simp only
      split
      · split
        · exact ⟨(h1.trans h2).trans (h3.1.trans ⟨rfl, rfl, rfl, rfl, rfl, Or.inl rfl, rfl, rfl⟩), h3.2⟩
        · exact ⟨(h1.trans h2).trans h3.1, h3.2⟩
      · split
        · exact ⟨(h1.trans h2).trans ⟨rfl, rfl, rfl, rfl, rfl, Or.inl rfl, rfl, rfl⟩, noq_nil⟩
        · exact ⟨h1.trans h2, noq_nil⟩
  · exact ⟨SameW.refl c, noq_nil⟩

theorem finalPing_good (E : Env L td) (c : Cli) (evs : List CEvent) (sn : Bool) (read : Int) (hl : Late L td c)
    (he : NoQ evs) : TGood L td (finalPing c evs sn read) := by
  unfold finalPing
  split
  · exact afterSend_good _ _ _ (sendPing_good E c hl) he
  · exact tgood_noq _ _ _ hl he

theorem upstream_good (E : Env L td) (c : Cli) (h : Hdr) (evs : List CEvent) (sn : Bool) (read : Int) (hl : Late L td c)
    (he : NoQ evs) : TGood L td (upstream c h evs sn read) := by
  unfold upstream
  split
  · simp only
    split
    · apply finalPing_good E _ _ _ _ _ he
      split <;> exact hl.sameW ⟨rfl, rfl, rfl, rfl, rfl, Or.inr rfl, rfl, rfl⟩
    · exact afterSend_good _ _ _ (sendChunk_good E _ (hl.sameW ⟨rfl, rfl, rfl, rfl, rfl, Or.inl rfl, rfl, rfl⟩)) he
  · exact finalPing_good E _ _ _ _ hl he

theorem tunnelDns_good (E : Env L td) (c : Cli) (rq : Rq) (hl : Late L td c) : TGood L td (tunnelDns c rq) := by
  unfold tunnelDns
  split
  · exact tgood_noq _ _ _ (hl.sameW ⟨rfl, rfl, rfl, rfl, rfl, Or.inl rfl, rfl, rfl⟩) noq_nil
  · split
    · exact tgood_noq _ _ _ (hl.sameW ((sameW_servfailCount c rq).trans ⟨rfl, rfl, rfl, rfl, rfl, Or.inl rfl, rfl, rfl⟩))
        noq_nil
    · split
      · exact tgood_noq _ _ _ hl noq_nil
      · simp only
        have h0 : SameW c { c with sendPingSoon := 0 } := ⟨rfl, rfl, rfl, rfl, rfl, Or.inl rfl, rfl, rfl⟩
        have h1 := sameW_dupeSeqno { c with sendPingSoon := 0 } (decodeHdr rq.buf) rq.rv
        have h2 := sameW_countRecv (dupeSeqno { c with sendPingSoon := 0 } (decodeHdr rq.buf) rq.rv).1
        have h012 := (h0.trans h1).trans h2
        split
        · have h3 := sameW_oosCount (countRecv (dupeSeqno { c with sendPingSoon := 0 } (decodeHdr rq.buf) rq.rv).1)
          split
          · exact afterSend_good _ _ _ (sendPing_good E _ (hl.sameW (h012.trans h3))) noq_nil
          · exact tgood_noq _ _ _ (hl.sameW (h012.trans h3)) noq_nil
        · have h3 : SameW (countRecv (dupeSeqno { c with sendPingSoon := 0 } (decodeHdr rq.buf) rq.rv).1)
              { countRecv (dupeSeqno { c with sendPingSoon := 0 } (decodeHdr rq.buf) rq.rv).1 with
                lastdownstreamtime := (countRecv (dupeSeqno { c with sendPingSoon := 0 } (decodeHdr rq.buf) rq.rv).1).now } :=
            ⟨rfl, rfl, rfl, rfl, rfl, Or.inl rfl, rfl, rfl⟩
          have h4 := sameW_lazyHint { countRecv (dupeSeqno { c with sendPingSoon := 0 } (decodeHdr rq.buf) rq.rv).1 with
                lastdownstreamtime := (countRecv (dupeSeqno { c with sendPingSoon := 0 } (decodeHdr rq.buf) rq.rv).1).now } rq.id
          have h5 := sameW_datalessAdopt (lazyHint { countRecv (dupeSeqno { c with sendPingSoon := 0 } (decodeHdr rq.buf) rq.rv).1 with
                lastdownstreamtime := (countRecv (dupeSeqno { c with sendPingSoon := 0 } (decodeHdr rq.buf) rq.rv).1).now } rq.id)
                (decodeHdr rq.buf) (dupeSeqno { c with sendPingSoon := 0 } (decodeHdr rq.buf) rq.rv).2
          have h6 := downstream_good (datalessAdopt (lazyHint { countRecv (dupeSeqno { c with sendPingSoon := 0 } (decodeHdr rq.buf) rq.rv).1 with
                lastdownstreamtime := (countRecv (dupeSeqno { c with sendPingSoon := 0 } (decodeHdr rq.buf) rq.rv).1).now } rq.id)
                (decodeHdr rq.buf) (dupeSeqno { c with sendPingSoon := 0 } (decodeHdr rq.buf) rq.rv).2)
                (decodeHdr rq.buf) rq.buf (dupeSeqno { c with sendPingSoon := 0 } (decodeHdr rq.buf) rq.rv).2 (c.sendPingSoon != 0)
          exact upstream_good E _ _ _ _ _ (hl.sameW ((((h012.trans h3).trans h4).trans h5).trans h6.1)) h6.2

theorem tunnelDnsInput_good (E : Env L td) (c : Cli) (inp : CInput) (hl : Late L td c) :
    TGood L td (tunnelDnsInput c inp) := by
  unfold tunnelDnsInput
  split
  · split
    · exact tunnelDns_good E _ _ hl
    · exact tunnelDns_good E _ _ hl
  · split
    · exact tgood_noq _ _ _ (hl.sameW (readRaw_good _ _).1) (readRaw_good _ _).2
    · exact tgood_noq _ _ _ (hl.sameW (readRaw_good _ _).1) (readRaw_good _ _).2

/-! ### client_tunnel -/

theorem timeoutBranch_good (E : Env L td) (c : Cli) (hl : Late L td c) : TGood L td (timeoutBranch c) := by
  unfold timeoutBranch
  split
  · split
    · exact afterSend_good _ _ _ (sendChunk_good E _ (hl.sameW ⟨rfl, rfl, rfl, rfl, rfl, Or.inl rfl, rfl, rfl⟩)) noq_nil
    · exact afterSend_good _ _ _ (sendPing_good E _ (hl.sameW ⟨rfl, rfl, rfl, rfl, rfl, Or.inr rfl, rfl, rfl⟩)) noq_nil
  · exact afterSend_good _ _ _ (sendPing_good E _ hl) noq_nil

/-- postcondition of a step of the tunnel machine -/
structure CGood (L : Nat) (td : List Nat) (o : CState × List CEvent × Next) : Prop where
  late : Late L td o.1.c
  evs : EvsOk L td o.2.1
  chunk : ChunkPost td o.1.c o.2.1

theorem loopTop_good (c : Cli) (evs : List CEvent) (hl : Late L td c) (he : EvsOk L td evs) (hc : ChunkPost td c evs) :
    CGood L td (loopTop c evs) := by
  unfold loopTop
  split <;> exact ⟨hl, he, hc⟩

theorem settle_good (r : Cli × List CEvent × Stop) (h : TGood L td r) : CGood L td (settle r) := by
  unfold settle
  split
  · exact loopTop_good _ _ h.late h.evs h.chunk
  · exact ⟨h.late, h.evs, h.chunk⟩

theorem after_good (evs : List CEvent) (r : CState × List CEvent × Next) (he : NoQ evs) (h : CGood L td r) :
    CGood L td (after evs r) :=
  ⟨h.late, evsOk_append (evsOk_of_noq he) h.evs, chunkPost_append (chunkPost_of_noq he) h.chunk⟩

theorem startTunnel_good (c : Cli) (hl : Late L td c) : CGood L td (startTunnel c) :=
  loopTop_good _ _ (hl.sameW ⟨rfl, rfl, rfl, rfl, rfl, Or.inl rfl, rfl, rfl⟩) evsOk_nil (chunkPost_of_noq noq_nil)

theorem rawKeepalive_good (c : Cli) : SameW c (rawKeepalive c).1 ∧ NoQ (rawKeepalive c).2 := by
  unfold rawKeepalive
  split
  · exact ⟨⟨rfl, rfl, rfl, rfl, rfl, Or.inl rfl, rfl, rfl⟩, noq_one (by intro id ty n h; simp [sendRaw] at h)⟩
  · exact ⟨SameW.refl c, noq_nil⟩

theorem sameW_fire (c : Cli) (sel : Sel) (inp : CInput) : SameW c (fire c sel inp).1 := (fire_same c sel inp).toW

theorem sameW_afterSelect (c : Cli) : SameW c (afterSelect c) := by
  unfold afterSelect
  split
  · exact ⟨rfl, rfl, rfl, rfl, rfl, Or.inl rfl, rfl, rfl⟩
  · exact SameW.refl c

/-- an input whose tun frame (if it is one) consists of bytes -/
def ByteIn : CInput → Prop
  | .tun f => Codec.Bytes f
  | _ => True

theorem fire_tun {c : Cli} {sel : Sel} {inp : CInput} {f : List Nat} (h : (fire c sel inp).2 = .tun f) (hb : ByteIn inp) :
    Codec.Bytes f := by
  unfold fire at h
  split at h
  · cases h
  · split at h
    · simp only [Fired.tun.injEq] at h
      subst h; exact hb
    · cases h
  · cases h

theorem tunnelStep_good (E : Env L td) (c : Cli) (inp : CInput) (hl : Late L td c) (hb : ByteIn inp) :
    CGood L td (tunnelStep c inp) := by
  have hl1 : Late L td (afterSelect (fire c (selectOf c) inp).1) :=
    hl.sameW ((sameW_fire c _ inp).trans (sameW_afterSelect _))
  unfold tunnelStep
  simp only
  split
  · exact ⟨hl1, evsOk_nil, chunkPost_of_noq noq_nil⟩
  · have hk := rawKeepalive_good (afterSelect (fire c (selectOf c) inp).1)
    split
    · exact settle_good _ (timeoutBranch_good E _ hl1)
    · rename_i frame hf
      exact after_good _ _ hk.2 (settle_good _ (tunnelTun_good E _ _ (hl1.sameW hk.1) (fire_tun hf hb)))
    · exact after_good _ _ hk.2 (settle_good _ (tunnelDnsInput_good E _ _ (hl1.sameW hk.1)))

/-! ### handshake_lazyoff -/

theorem lazyoffReturn_good (c : Cli) (k : Resume) (evs : List CEvent) (hl : Late L td c) (he : EvsOk L td evs)
    (hc : ChunkPost td c evs) : CGood L td (lazyoffReturn c k evs) := by
  unfold lazyoffReturn
  have e := resume_sameX c k
  exact loopTop_good _ _ (hl.same e.toSame) he (hc.sameX e)

theorem lazyoffNext_good (E : Env L td) (c : Cli) (i : Nat) (k : Resume) (hl : Late L td c) :
    CGood L td (lazyoffNext c i k) := by
  have hx := lazyoffIter_x E c (i + 1) hl.1
  have hlate := hl.same hx.1.toSame
  have hcp : ChunkPost td (lazyoffIter c (i + 1)).c (lazyoffIter c (i + 1)).evs :=
    chunkPost_of_po hlate.2 (fun id ty name h => Or.inr (hx.2.2 id ty name h))
  unfold lazyoffNext
  simp only
  split
  · exact ⟨hlate, hx.2.1, hcp⟩
  · exact lazyoffReturn_good _ _ _ hlate hx.2.1 hcp

theorem sameW_waitdnsRound (c c' : Cli) (w : WaitIn) (read : Int) (h : waitdnsRound c w = some (c', read)) : SameW c c' := by
  unfold waitdnsRound at h
  split at h
  · injection h with h; injection h with h1 _; subst h1; exact SameW.refl c
  · split at h
    · cases h
    · simp only at h
      split at h <;> (injection h with h; injection h with h1 _; subst h1)
      all_goals (split <;> first | exact SameW.refl _ | exact ⟨rfl, rfl, rfl, rfl, rfl, Or.inl rfl, rfl, rfl⟩)

theorem sameW_lazyoffGot (c : Cli) (read : Int) (buf : List Nat) : SameW c (lazyoffGot c read buf).1 := by
  unfold lazyoffGot
  split
  · exact ⟨rfl, rfl, rfl, rfl, rfl, Or.inl rfl, rfl, rfl⟩
  · exact SameW.refl c

theorem lazyoffTail_good (E : Env L td) (c : Cli) (i : Nat) (k : Resume) (read : Int) (buf : List Nat) (hl : Late L td c) :
    CGood L td (if (lazyoffGot c read buf).2 then lazyoffReturn (lazyoffGot c read buf).1 k []
      else lazyoffNext (lazyoffGot c read buf).1 i k) := by
  have hl2 := hl.sameW (sameW_lazyoffGot c read buf)
  split
  · exact lazyoffReturn_good _ _ _ hl2 evsOk_nil (chunkPost_of_noq noq_nil)
  · exact lazyoffNext_good E _ _ _ hl2

theorem lazyoffStep_good (E : Env L td) (c : Cli) (i : Nat) (k : Resume) (inp : CInput) (hl : Late L td c) :
    CGood L td (lazyoffStep c i k inp) := by
  have hl0 : Late L td (fire c waitSel inp).1 := hl.sameW (sameW_fire c _ inp)
  unfold lazyoffStep
  simp only
  split
  · exact ⟨hl0, evsOk_nil, chunkPost_of_noq noq_nil⟩
  · rename_i c' read hw
    have hl1 : Late L td c' := hl0.sameW (sameW_waitdnsRound _ _ _ _ hw)
    exact lazyoffTail_good E _ _ _ _ _ hl1

/-- **the step lemma of the tunnel machine** -/
theorem cstep_good (E : Env L td) (s : CState) (inp : CInput) (hl : Late L td s.c) (hb : ByteIn inp) :
    CGood L td (cstep s inp) := by
  unfold cstep
  split
  · exact ⟨hl, evsOk_nil, chunkPost_of_noq noq_nil⟩
  · exact tunnelStep_good E _ _ hl hb
  · exact lazyoffStep_good E _ _ _ _ hl

end Iodine.CliQ
