import IodineModel.World
import IodineModel.Lemmas.C02u2
/-
Generic facts about the joined model `World`: the prompt run as a counted relation, the translations of event lists, and
what the individual scheduler events do.
-/
namespace Iodine.C02L
open Iodine Iodine.World

/-! ### the prompt run, counted -/

/-- exactly `k` prompt steps from `w`, none of them taken from a quiescent state -/
def promptSteps (u : Nat) : Nat → W → Option W
  | 0, w => some w
  | k + 1, w => if quiet u w then none else promptSteps u k (step w (promptEv w))

theorem promptSteps_succ {u : Nat} {w : W} (hq : quiet u w = false) (k : Nat) :
    promptSteps u (k + 1) w = promptSteps u k (step w (promptEv w)) := by
  simp [promptSteps, hq]

theorem promptSteps_add (u : Nat) : ∀ (a b : Nat) (w w' : W), promptSteps u a w = some w' →
    promptSteps u (a + b) w = promptSteps u b w' := by
  intro a
  induction a with
  | zero => intro b w w' h; simp only [promptSteps, Option.some.injEq] at h; subst h; simp
  | succ a ih =>
    intro b w w' h
    have : a + 1 + b = (a + b) + 1 := by omega
    rw [this]
    by_cases hq : quiet u w = true
    · simp [promptSteps, hq] at h
    · have hq' : quiet u w = false := by simpa using hq
      rw [promptSteps_succ hq'] at h ⊢
      exact ih b _ _ h

/-- a counted run that ends quiescent is what `runPrompt` computes, for every sufficient fuel -/
theorem runPrompt_of_steps (u : Nat) : ∀ (k : Nat) (w w' : W), promptSteps u k w = some w' → quiet u w' = true →
    ∀ fuel, k ≤ fuel → runPrompt u fuel w = w' := by
  intro k
  induction k with
  | zero =>
    intro w w' h hq fuel _
    simp only [promptSteps, Option.some.injEq] at h
    subst h
    cases fuel with
    | zero => rfl
    | succ n => simp [runPrompt, hq]
  | succ k ih =>
    intro w w' h hq fuel hf
    unfold promptSteps at h
    split at h
    · cases h
    · rename_i hnq
      cases fuel with
      | zero => omega
      | succ n =>
        unfold runPrompt
        rw [if_neg hnq]
        exact ih _ _ h hq n (by omega)

theorem runPromptCount_of_steps (u : Nat) : ∀ (k : Nat) (w w' : W), promptSteps u k w = some w' → quiet u w' = true →
    ∀ fuel n, k ≤ fuel → runPromptCount u fuel w n = (w', n + k) := by
  intro k
  induction k with
  | zero =>
    intro w w' h hq fuel n _
    simp only [promptSteps, Option.some.injEq] at h
    subst h
    cases fuel with
    | zero => rfl
    | succ m => simp [runPromptCount, hq]
  | succ k ih =>
    intro w w' h hq fuel n hf
    unfold promptSteps at h
    split at h
    · cases h
    · rename_i hnq
      cases fuel with
      | zero => omega
      | succ m =>
        unfold runPromptCount
        rw [if_neg hnq, ih _ _ h hq m (n + 1) (by omega)]
        congr 1
        omega

/-! ### translations of event lists -/

theorem downOfEvents_append (a b : List Server.Event) : downOfEvents (a ++ b) = downOfEvents a ++ downOfEvents b := by
  induction a with
  | nil => rfl
  | cons e r ih =>
    cases e <;> simp only [List.cons_append, downOfEvents, ih] <;> split <;> simp

theorem tunOfSEvents_append (a b : List Server.Event) : tunOfSEvents (a ++ b) = tunOfSEvents a ++ tunOfSEvents b := by
  induction a with
  | nil => rfl
  | cons e r ih => cases e <;> simp [tunOfSEvents, ih]

theorem upOfEvents_append (a b : List Client.CEvent) : upOfEvents (a ++ b) = upOfEvents a ++ upOfEvents b := by
  induction a with
  | nil => rfl
  | cons e r ih => cases e <;> simp [upOfEvents, ih]

theorem tunOfCEvents_append (a b : List Client.CEvent) : tunOfCEvents (a ++ b) = tunOfCEvents a ++ tunOfCEvents b := by
  induction a with
  | nil => rfl
  | cons e r ih => cases e <;> simp [tunOfCEvents, ih]

@[simp] theorem downOfEvents_sweep : downOfEvents [Server.Event.sweep] = [] := rfl
@[simp] theorem tunOfSEvents_sweep : tunOfSEvents [Server.Event.sweep] = [] := rfl

theorem downOfEvents_writeDns (q : Server.Query) (d : List Nat) (dn : Nat) (t : Server.Tag) (h : q.from_ = clientAddr) :
    downOfEvents [Server.writeDns q d dn t] = [.ans q.id q.type q.name d] := by
  simp [downOfEvents, Server.writeDns, h]

@[simp] theorem tunOfSEvents_writeDns (q : Server.Query) (d : List Nat) (dn : Nat) (t : Server.Tag) :
    tunOfSEvents [Server.writeDns q d dn t] = [] := rfl

/-! ### the scheduler events -/

theorem step_deliverUp (w : W) (d : UpD) (rest : List UpD) (h : w.up = d :: rest) :
    step w .deliverUp = stepS { w with up := rest } (srvInput d) 0 := by
  simp [step, h]

theorem step_deliverDown (w : W) (d : DownD) (rest : List DownD) (h : w.down = d :: rest) :
    step w .deliverDown = stepC { w with down := rest } (cliInput d) := by
  simp [step, h]

theorem promptEv_up (w : W) (d : UpD) (rest : List UpD) (h : w.up = d :: rest) : promptEv w = .deliverUp := by
  simp [promptEv, h]

theorem promptEv_down (w : W) (d : DownD) (rest : List DownD) (h1 : w.up = []) (h : w.down = d :: rest) :
    promptEv w = .deliverDown := by
  simp [promptEv, h, h1]

theorem quiet_false_of_up (u : Nat) (w : W) (d : UpD) (rest : List UpD) (h : w.up = d :: rest) : quiet u w = false := by
  simp [quiet, h]

theorem quiet_false_of_down (u : Nat) (w : W) (d : DownD) (rest : List DownD) (h : w.down = d :: rest) : quiet u w = false := by
  simp [quiet, h]

end Iodine.C02L
