import IodineModel.Lemmas.SrvC04d
/-
Helper lemmas for C04, part e: frames of the ping / data handlers, of `handle_null_request`, `tunnel_dns`, the raw-mode
handlers, `dispatch`, the sweep and the whole iteration.
-/
namespace Iodine.C04L
open Iodine Iodine.Server Iodine.Gen

theorem Frame.ite_res {er : Session → Session} {U : Nat → Prop} {s : Srv} {c : Prop} [Decidable c] {a b : Res}
    (ha : Frame er U s a.1) (hb : Frame er U s b.1) : Frame er U s (if c then a else b).1 := by
  split <;> assumption

theorem Frame.ite_resb {er : Session → Session} {U : Nat → Prop} {s : Srv} {c : Prop} [Decidable c] {a b : Res × Bool}
    (ha : Frame er U s a.1.1) (hb : Frame er U s b.1.1) : Frame er U s (if c then a else b).1.1 := by
  split <;> assumption

seal sendChunkOrDataless processDownstreamAck saveQuery rememberDuplicate answerFromDnscache answerFromQmem

theorem frame_pingFresh (s : Srv) (u : Nat) (q : Query) (unp : List Nat) :
    Frame erData (· = u) s (pingFresh s u q unp).1 := by
  unfold pingFresh
  extract_lets b s1 r1 t r2 didsend s3 x r3
  have f0 : Frame erOut (· = u) s s1 := frame_processDownstreamAck s u (b / 16) (b % 16)
  have f1 : Frame erData (· = u) s s1 := f0.coarsen erData_erOut
  have f2 : Frame erData (· = u) s r1.1 := by
    unfold r1; split
    · exact f1.trans (frame_sendChunkOrDataless s1 u .qs)
    · exact f1
  have f3 : Frame erData (· = u) s r2.1.1 := by
    unfold r2; split
    · exact f2.trans (frame_sendChunkOrDataless r1.1 u .q)
    · exact f2
  have f4 : Frame erData (· = u) s s3 := f3.trans (frame_saveQuery r2.1.1 u q)
  show Frame erData (· = u) s r3.1
  unfold r3; split
  · exact f4.trans (frame_sendChunkOrDataless s3 u .q)
  · exact f4

theorem frame_handlePing (s : Srv) (q : Query) (dlen : Nat) :
    Frame erData (fun v => rejected s q (uidOf q dlen .ping) .ping = false ∧ v = (uidOf q dlen .ping).toNat) s
      (handlePing s q (inbOf q dlen)).1 := by
  unfold handlePing
  by_cases h0 : q.id = 0
  · rw [if_pos h0]; exact Frame.refl _ _ _
  rw [if_neg h0]
  dsimp only
  by_cases h1 : (Encoding.unpackData Codec.b32 65536 (List.drop 1 (inbOf q dlen))).length < 4
  · rw [if_pos h1]; exact Frame.refl _ _ _
  rw [if_neg h1]
  have hu : charVal ((Encoding.unpackData Codec.b32 65536 (List.drop 1 (inbOf q dlen))).getD 0 0) =
      uidOf q dlen .ping := rfl
  rw [hu]
  cases hr : checkAuthenticatedUserAndIp s (uidOf q dlen .ping) q with
  | true => rw [if_pos rfl]; exact Frame.refl _ _ _
  | false =>
    rw [if_neg (by simp)]
    have hm : ∀ v, v = (uidOf q dlen .ping).toNat →
        rejected s q (uidOf q dlen .ping) .ping = false ∧ v = (uidOf q dlen .ping).toNat :=
      fun v hv => ⟨hr, hv⟩
    split
    · exact Frame.refl _ _ _
    split
    · exact Frame.refl _ _ _
    split
    · next h => exact (frame_rememberDuplicate _ _ _ _ h).mono hm
    · exact (frame_pingFresh _ _ _ _).mono hm

/-! ### the data handler -/

theorem erIn_dataUpstream (x : Session) (a b : Nat) : erIn (dataUpstream x a b).1 = erIn x := by
  unfold dataUpstream
  split
  · rfl
  split
  · rfl
  split <;> rfl

theorem erIn_dataStore (x : Session) (p : List Nat) : erIn (dataStore x p) = erIn x := rfl

theorem frame_dataStepQs (s : Srv) (u : Nat) : Frame erData (· = u) s (dataStepQs s u).1.1 := by
  unfold dataStepQs
  split
  · exact frame_sendChunkOrDataless s u .qs
  · exact Frame.refl _ _ _

theorem frame_dataStepQ (s : Srv) (u : Nat) (a b c : Bool) : Frame erData (· = u) s (dataStepQ s u a b c).1.1 := by
  unfold dataStepQ
  dsimp only
  split
  · split
    · exact frame_sendChunkOrDataless s u .q
    · exact Frame.set erData s u _ (fun _ => rfl)
  · exact Frame.refl _ _ _

theorem frame_dataStepFinal (s : Srv) (u : Nat) (a b c : Bool) : Frame erData (· = u) s (dataStepFinal s u a b c).1 := by
  unfold dataStepFinal
  dsimp only
  split
  · exact frame_sendChunkOrDataless s u .q
  split
  · split
    · exact Frame.set erData s u _ (fun _ => rfl)
    · exact frame_sendChunkOrDataless s u .q
  · exact Frame.refl _ _ _

seal dataStepQs dataStepQ dataStepFinal handleFullPacket dataUpstream dataStore

/-- the upstream data handler after the duplicate filters: writes `u` and possibly the owner (in `s`) of the destination
address of the reassembled packet -/
theorem frame_dataFresh (s : Srv) (u : Nat) (q : Query) (inb : List Nat) :
    Frame erData (fun v => v = u ∨ ∃ A, findUserByIp s A = some v) s (dataFresh s u q inb).1 := by
  unfold dataFresh
  extract_lets b1 b2 b3 upSeq upFrag dnSeq dnFrag lastfrag s1 up upstreamOk s2 r3 r4 r5 s6 r7
  have hm : ∀ v, v = u → v = u ∨ ∃ A, findUserByIp s A = some v := fun v hv => Or.inl hv
  have f0 : Frame erOut (· = u) s s1 := frame_processDownstreamAck s u dnSeq dnFrag
  have f1 : Frame erIn (· = u) s s2 := by
    refine Frame.trans (f0.coarsen erIn_erOut) ?_
    apply Frame.setv erIn s1 u
    split
    · rw [erIn_dataStore, erIn_dataUpstream]
    · rw [erIn_dataUpstream]
  have f2 : Frame erData (fun v => v = u ∨ ∃ A, findUserByIp s A = some v) s s2 :=
    (f1.coarsen erData_erIn).mono hm
  have f3 : Frame erData (fun v => v = u ∨ ∃ A, findUserByIp s A = some v) s r3.1 := by
    unfold r3; split
    · refine f2.trans ((frame_handleFullPacket s2 u).mono ?_)
      intro v hv
      rcases hv with hv | ⟨out, _, hv⟩
      · exact Or.inl hv
      · exact Or.inr ⟨ipDst out, by rw [← f1.findUserByIp_eq]; exact hv⟩
    · exact f2
  have f4 := f3.trans ((frame_dataStepQs r3.1 u).mono hm)
  have f5 := f4.trans ((frame_dataStepQ r4.1.1 u upstreamOk lastfrag r4.2).mono hm)
  have f6 := f5.trans ((frame_saveQuery r5.1.1 u q).mono hm)
  exact f6.trans ((frame_dataStepFinal s6 u upstreamOk lastfrag r5.2).mono hm)

seal dataFresh pingFresh answerFromQmemData

theorem frame_handleData (s : Srv) (q : Query) (dlen : Nat) :
    Frame erData (fun v => rejected s q (uidOf q dlen .data) .data = false ∧
        (v = (uidOf q dlen .data).toNat ∨ ∃ A, findUserByIp s A = some v)) s
      (handleData s q dlen (inbOf q dlen)).1 := by
  unfold handleData
  by_cases h0 : dlen < 6
  · rw [if_pos h0]; exact Frame.refl _ _ _
  rw [if_neg h0]
  by_cases h1 : q.id = 0
  · rw [if_pos h1]; exact Frame.refl _ _ _
  rw [if_neg h1]
  dsimp only
  have hu : hexCode ((inbOf q dlen).getD 0 0) = uidOf q dlen .data := rfl
  rw [hu]
  cases hr : checkAuthenticatedUserAndIp s (uidOf q dlen .data) q with
  | true => rw [if_pos rfl]; exact Frame.refl _ _ _
  | false =>
    rw [if_neg (by simp)]
    have hm : ∀ v, v = (uidOf q dlen .data).toNat →
        rejected s q (uidOf q dlen .data) .data = false ∧
          (v = (uidOf q dlen .data).toNat ∨ ∃ A, findUserByIp s A = some v) :=
      fun v hv => ⟨hr, Or.inl hv⟩
    split
    · exact Frame.refl _ _ _
    split
    · exact Frame.refl _ _ _
    split
    · next h => exact (frame_rememberDuplicate _ _ _ _ h).mono hm
    · exact (frame_dataFresh _ _ _ _).mono (fun v hv => ⟨hr, hv⟩)

/-! ### handle_null_request, tunnel_dns -/

/-- the slots a command that names a session may write: the named slot if the request is accepted, and for upstream
data the owner of the destination of a completed packet -/
def cmdWrites (s : Srv) (q : Query) (dlen : Nat) (cmd : Cmd) (v : Nat) : Prop :=
  rejected s q (uidOf q dlen cmd) cmd = false ∧
    (v = (uidOf q dlen cmd).toNat ∨ (cmd = .data ∧ ∃ A, findUserByIp s A = some v))

theorem frame_runCmd (s : Srv) (q : Query) (dlen : Nat) (cmd : Cmd) :
    Frame erHost (cmdWrites s q dlen cmd) s (runCmd s q dlen cmd).1 := by
  cases cmd <;> unfold runCmd <;> dsimp only
  · exact ((frame_handleLogin s q dlen).coarsen erHost_erLogin).mono (fun v hv => ⟨hv.1, Or.inl hv.2⟩)
  · unfold handleIp; dsimp only; split <;> exact Frame.refl _ _ _
  · exact ((frame_handleSwitchCodec s q dlen).coarsen erHost_erId).mono (fun v hv => ⟨hv.1, Or.inl hv.2⟩)
  · exact ((frame_handleOptions s q dlen).coarsen erHost_erId).mono (fun v hv => ⟨hv.1, Or.inl hv.2⟩)
  · exact (frame_handleFragsizeProbe s q dlen _).coarsen (fun _ => rfl)
  · exact ((frame_handleSetFragsize s q dlen).coarsen erHost_erId).mono (fun v hv => ⟨hv.1, Or.inl hv.2⟩)
  · exact ((frame_handlePing s q dlen).coarsen erHost_erData).mono (fun v hv => ⟨hv.1, Or.inl hv.2⟩)
  · refine ((frame_handleData s q dlen).coarsen erHost_erData).mono (fun v hv => ⟨hv.1, ?_⟩)
    rcases hv.2 with h | h
    · exact Or.inl h
    · exact Or.inr ⟨rfl, h⟩

/-- is the first character of the request `V`/`v` -/
def isV (q : Query) (dlen : Nat) : Prop := (inbOf q dlen).getD 0 0 = 86 ∨ (inbOf q dlen).getD 0 0 = 118

/-- the slots `handle_null_request` may write -/
def nullWrites (s : Srv) (q : Query) (dlen : Nat) (v : Nat) : Prop :=
  (isV q dlen ∧ (findAvailableUser s).1 = some v) ∨
  (∃ cmd, cmdOf ((inbOf q dlen).getD 0 0) = some cmd ∧ cmdWrites s q dlen cmd v)

theorem cmdOf_none (c : Nat) (h : cmdOf c = none) :
    (c = 86 ∨ c = 118) ∨ (c = 90 ∨ c = 122) ∨ (c = 89 ∨ c = 121) ∨
    (¬ (c = 86 ∨ c = 118) ∧ ¬ (c = 76 ∨ c = 108) ∧ ¬ (c = 73 ∨ c = 105) ∧ ¬ (c = 90 ∨ c = 122) ∧ ¬ (c = 83 ∨ c = 115) ∧
     ¬ (c = 79 ∨ c = 111) ∧ ¬ (c = 89 ∨ c = 121) ∧ ¬ (c = 82 ∨ c = 114) ∧ ¬ (c = 78 ∨ c = 110) ∧ ¬ (c = 80 ∨ c = 112) ∧
     ¬ isHexDigit c = true) := by
  unfold cmdOf at h
  by_cases h1 : c = 86 ∨ c = 118
  · exact Or.inl h1
  rw [if_neg h1] at h
  by_cases h2 : c = 76 ∨ c = 108
  · rw [if_pos h2] at h; cases h
  rw [if_neg h2] at h
  by_cases h3 : c = 73 ∨ c = 105
  · rw [if_pos h3] at h; cases h
  rw [if_neg h3] at h
  by_cases h4 : c = 90 ∨ c = 122
  · exact Or.inr (Or.inl h4)
  rw [if_neg h4] at h
  by_cases h5 : c = 83 ∨ c = 115
  · rw [if_pos h5] at h; cases h
  rw [if_neg h5] at h
  by_cases h6 : c = 79 ∨ c = 111
  · rw [if_pos h6] at h; cases h
  rw [if_neg h6] at h
  by_cases h7 : c = 89 ∨ c = 121
  · exact Or.inr (Or.inr (Or.inl h7))
  rw [if_neg h7] at h
  by_cases h8 : c = 82 ∨ c = 114
  · rw [if_pos h8] at h; cases h
  rw [if_neg h8] at h
  by_cases h9 : c = 78 ∨ c = 110
  · rw [if_pos h9] at h; cases h
  rw [if_neg h9] at h
  by_cases h10 : c = 80 ∨ c = 112
  · rw [if_pos h10] at h; cases h
  rw [if_neg h10] at h
  by_cases h11 : isHexDigit c = true
  · rw [if_pos h11] at h; cases h
  exact Or.inr (Or.inr (Or.inr ⟨h1, h2, h3, h4, h5, h6, h7, h8, h9, h10, h11⟩))

theorem handleNullRequest_V (s : Srv) (q : Query) (dlen : Nat) (h2 : 2 ≤ dlen) (hv : isV q dlen) :
    handleNullRequest s q dlen = handleVersion s q (inbOf q dlen) := by
  unfold handleNullRequest
  rw [if_neg (by omega)]
  dsimp only
  unfold isV inbOf at hv
  rw [if_pos hv]; rfl

/-- a request that is neither `V` nor a command naming a session changes nothing -/
theorem handleNullRequest_other (s : Srv) (q : Query) (dlen : Nat) (hv : ¬ isV q dlen)
    (hc : cmdOf ((inbOf q dlen).getD 0 0) = none) : (handleNullRequest s q dlen).1 = s := by
  unfold handleNullRequest
  by_cases hd2 : dlen < 2
  · rw [if_pos hd2]
  rw [if_neg hd2]
  dsimp only
  unfold isV at hv
  unfold inbOf at hv hc
  rcases cmdOf_none _ hc with h | h | h | ⟨h1, h2, h3, h4, h5, h6, h7, h8, h9, h10, h11⟩
  · exact absurd h hv
  · rw [if_neg hv]
    by_cases hl : (List.take (min dlen 512) q.name).getD 0 0 = 76 ∨ (List.take (min dlen 512) q.name).getD 0 0 = 108
    · rcases hl with hl | hl <;> rcases h with h | h <;> omega
    by_cases hi : (List.take (min dlen 512) q.name).getD 0 0 = 73 ∨ (List.take (min dlen 512) q.name).getD 0 0 = 105
    · rcases hi with hl | hl <;> rcases h with h | h <;> omega
    rw [if_neg hl, if_neg hi, if_pos h]; rfl
  · have e : ∀ (a b : Nat), ¬ ((List.take (min dlen 512) q.name).getD 0 0 = a ∨
        (List.take (min dlen 512) q.name).getD 0 0 = b) ∨ (a = 89 ∨ a = 121 ∨ b = 89 ∨ b = 121) := by
      intro a b
      by_cases hh : (List.take (min dlen 512) q.name).getD 0 0 = a ∨ (List.take (min dlen 512) q.name).getD 0 0 = b
      · right; rcases hh with hh | hh <;> rcases h with h | h <;> omega
      · left; exact hh
    rw [if_neg hv, if_neg ((e 76 108).resolve_right (by omega)), if_neg ((e 73 105).resolve_right (by omega)),
      if_neg ((e 90 122).resolve_right (by omega)), if_neg ((e 83 115).resolve_right (by omega)),
      if_neg ((e 79 111).resolve_right (by omega)), if_pos h]
    unfold handleDownCodecCheck
    dsimp only
    split
    · rfl
    split
    · rfl
    split <;> rfl
  · rw [if_neg h1, if_neg h2, if_neg h3, if_neg h4, if_neg h5, if_neg h6, if_neg h7, if_neg h8, if_neg h9, if_neg h10,
      if_neg h11]

/-- the three things `handle_null_request` can do -/
theorem handleNullRequest_cases (s : Srv) (q : Query) (dlen : Nat) :
    (handleNullRequest s q dlen).1 = s ∨
    (2 ≤ dlen ∧ isV q dlen ∧ handleNullRequest s q dlen = handleVersion s q (inbOf q dlen)) ∨
    (2 ≤ dlen ∧ ∃ cmd, cmdOf ((inbOf q dlen).getD 0 0) = some cmd ∧
      handleNullRequest s q dlen = runCmd s q dlen cmd) := by
  by_cases h2 : 2 ≤ dlen
  · by_cases hv : isV q dlen
    · exact Or.inr (Or.inl ⟨h2, hv, handleNullRequest_V s q dlen h2 hv⟩)
    · cases hc : cmdOf ((inbOf q dlen).getD 0 0) with
      | none => exact Or.inl (handleNullRequest_other s q dlen hv hc)
      | some cmd => exact Or.inr (Or.inr ⟨h2, cmd, rfl, handleNullRequest_cmd s q dlen cmd h2 hc⟩)
  · left
    unfold handleNullRequest
    rw [if_pos (by omega)]

/-- the slots `handle_null_request` may write -/
def nullWrites' (s : Srv) (q : Query) (dlen : Nat) (v : Nat) : Prop :=
  2 ≤ dlen ∧ nullWrites s q dlen v

theorem frame_handleNullRequest (s : Srv) (q : Query) (dlen : Nat) :
    Frame erTun (nullWrites' s q dlen) s (handleNullRequest s q dlen).1 := by
  rcases handleNullRequest_cases s q dlen with h | ⟨h2, hv, h⟩ | ⟨h2, cmd, hc, h⟩
  · rw [h]; exact Frame.refl _ _ _
  · rw [h]
    exact (frame_handleVersion s q _).mono (fun v h => ⟨h2, Or.inl ⟨hv, h⟩⟩)
  · rw [h]
    exact ((frame_runCmd s q dlen cmd).coarsen erTun_erHost).mono (fun v h => ⟨h2, Or.inr ⟨cmd, hc, h⟩⟩)

theorem frame_forwardQuery (s : Srv) (q : Query) (er : Session → Session) (U : Nat → Prop) :
    Frame er U s (forwardQuery s q).1 :=
  ⟨rfl, rfl, rfl, fun _ _ => rfl, fun _ => rfl⟩

theorem handleARequest_fst (s : Srv) (q : Query) (b : Bool) : (handleARequest s q b).1 = s := by
  unfold handleARequest
  dsimp only
  generalize (if b = true then (⟨4, 0x7f000001, q.dest.port⟩ : Addr)
    else if s.cfg.nsIp ≠ 0 then ⟨4, s.cfg.nsIp, q.dest.port⟩ else q.dest) = d
  split <;> rfl

/-- `tunnel_dns` either leaves all slots alone or hands a tunnel request to `handle_null_request` -/
theorem tunnelDns_cases (s : Srv) (q : Query) :
    (∀ er U, Frame er U s (tunnelDns s q).1) ∨
    ∃ dlen, Common.queryDatalen q.name s.cfg.topdomain = some dlen ∧ ¬ isNsA q dlen ∧ ¬ isWwwA q dlen ∧
      tunnelType q.type ∧ tunnelDns s q = handleNullRequest s q dlen := by
  cases hd : Common.queryDatalen q.name s.cfg.topdomain with
  | none =>
    left
    intro er U
    unfold tunnelDns
    split
    · exact Frame.refl _ _ _
    rw [hd]
    dsimp only
    split
    · exact frame_forwardQuery s q _ _
    · exact Frame.refl _ _ _
  | some dlen =>
    by_cases hns : isNsA q dlen
    · left
      intro er U
      unfold tunnelDns
      split
      · exact Frame.refl _ _ _
      rw [hd]
      dsimp only
      unfold isNsA at hns
      rw [if_pos hns, handleARequest_fst]; exact Frame.refl _ _ _
    by_cases hwww : isWwwA q dlen
    · left
      intro er U
      unfold tunnelDns
      split
      · exact Frame.refl _ _ _
      rw [hd]
      dsimp only
      unfold isNsA at hns
      unfold isWwwA at hwww
      rw [if_neg hns, if_pos hwww, handleARequest_fst]; exact Frame.refl _ _ _
    by_cases hty : tunnelType q.type
    · exact Or.inr ⟨dlen, rfl, hns, hwww, hty, tunnelDns_null s q dlen hd hns hwww hty⟩
    · left
      intro er U
      unfold tunnelDns
      split
      · exact Frame.refl _ _ _
      rw [hd]
      dsimp only
      unfold isNsA at hns
      unfold isWwwA at hwww
      unfold tunnelType at hty
      rw [if_neg hns, if_neg hwww, if_neg hty]
      split
      · unfold handleNsRequest; split <;> exact Frame.refl _ _ _
      · exact Frame.refl _ _ _

/-- the slots a DNS query may write -/
def dnsWrites (s : Srv) (q : Query) (v : Nat) : Prop :=
  ∃ dlen, Common.queryDatalen q.name s.cfg.topdomain = some dlen ∧ ¬ isNsA q dlen ∧ ¬ isWwwA q dlen ∧
    tunnelType q.type ∧ nullWrites' s q dlen v

theorem frame_tunnelDns (s : Srv) (q : Query) : Frame erTun (dnsWrites s q) s (tunnelDns s q).1 := by
  rcases tunnelDns_cases s q with h | ⟨dlen, hd, hns, hwww, hty, h⟩
  · exact h _ _
  · rw [h]
    exact (frame_handleNullRequest s q dlen).mono (fun v hv => ⟨dlen, hd, hns, hwww, hty, hv⟩)

/-- a DNS query changes the address a slot is bound to only by allocating the slot in the `V` handler -/
theorem tunnelDns_host (s : Srv) (q : Query) (v : Nat)
    (hne : (getUser (tunnelDns s q).1 v).host ≠ (getUser s v).host) :
    ∃ dlen, Common.queryDatalen q.name s.cfg.topdomain = some dlen ∧ ¬ isNsA q dlen ∧ ¬ isWwwA q dlen ∧
      tunnelType q.type ∧ 2 ≤ dlen ∧ isV q dlen ∧ versionOf (inbOf q dlen) = PROTOCOL_VERSION ∧
      (findAvailableUser s).1 = some v := by
  have hostOf : ∀ {U : Nat → Prop} {s' : Srv}, Frame erHost U s s' → (getUser s' v).host = (getUser s v).host := by
    intro U s' f
    exact erHost_host (f.rel v)
  rcases tunnelDns_cases s q with h | ⟨dlen, hd, hns, hwww, hty, h⟩
  · exact absurd (hostOf (h erHost (fun _ => True))) hne
  · rw [h] at hne
    rcases handleNullRequest_cases s q dlen with h' | ⟨h2, hv, h'⟩ | ⟨h2, cmd, hc, h'⟩
    · rw [h'] at hne; exact absurd rfl hne
    · rw [h'] at hne
      rcases handleVersion_cases s q (inbOf q dlen) with ⟨u, hver, hu, hs, _⟩ | ⟨hs, _⟩
      · by_cases e : v = u
        · subst e; exact ⟨dlen, hd, hns, hwww, hty, h2, hv, hver, hu⟩
        · have f := frame_handleVersion s q (inbOf q dlen)
          have := f.other v (by intro hv'; rw [hu] at hv'; cases hv'; exact e rfl)
          rw [this] at hne; exact absurd rfl hne
      · rw [hs] at hne; exact absurd rfl hne
    · rw [h'] at hne
      exact absurd (hostOf (frame_runCmd s q dlen cmd)) hne

end Iodine.C04L
