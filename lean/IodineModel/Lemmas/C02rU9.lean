import IodineModel.Lemmas.C02rU8
/-
C02 phase 3 / d7up, LAZY mode — `d = 7`, the server's last fragment number 0, a packet of SEVERAL fragments: the false
acknowledgement of fragment 0 (2 events), the continuation (`UpFlightLT`), the whole packet, and the recovery theorem without
the one-fragment restriction of `recovery_after_giveups_up_lazy_gen`.
-/
namespace Iodine.C02L
open Iodine Iodine.Gen Iodine.World

/-- the false acknowledgement, lazy mode, packet of several fragments (2 events): the client goes on with fragment 1 -/
theorem up_lazy_false_ack_more {P : Par} (hP : P.Ok) {w : W} (hq : QuietLazyD P 7 0 w)
    (h0 : (Server.getUser w.srv P.u).inpacket.fragment = 0) (hbuf : BufOk (Server.getUser w.srv P.u).inpacket)
    (frame : List Nat) (hne : frame ≠ []) (hl : frame.length < 65536) (hb : Codec.Bytes frame)
    (hmulti : fragLen P (0x5a :: frame) < (0x5a :: frame).length) :
    ∃ w2 c1, promptSteps P.u 2 (step w (.offerC frame)) = some w2 ∧
      UpFlightLT P (0x5a :: frame) (chimeraUp P (Server.getUser w.srv P.u).inpacket frame) w2 c1
        (fragLen P (0x5a :: frame)) (Server.getUser w.srv P.u).inpacket.offset 1 ∧
      w2.tunS = w.tunS ∧ w2.tunC = w.tunC ∧
      (Server.getUser w2.srv P.u).tunIp = (Server.getUser w.srv P.u).tunIp ∧
      (Server.getUser w2.srv P.u).fragsize = (Server.getUser w.srv P.u).fragsize := by
  unfold chimeraUp
  have hcs := cstate_eta w.cs hq.ph
  have hready := newPacket_readyL hq.cst hq.cnt frame hl hb
  generalize hc0 : newPacket w.cs.c frame = c0 at hready
  generalize hout : (0x5a :: frame) = out at hready hmulti ⊢
  obtain ⟨name, hsend, hm1, hm2, hQ⟩ := send_readyL hP hready
  have hsf := sentFactsL c0
  have hsi := sentIdsL c0
  have hcst := cstat_sentL hready
  have hsel : tunSelC w = true := by
    unfold tunSelC Client.pending
    rw [hq.ph]
    simp [Client.selectOf, hq.idleC]
  have hstep : Client.cstep w.cs (.tun frame) =
      (⟨{ sentStateL c0 with sendPingSoon := 0 }, .tunnel⟩, [] ++ (Client.sendChunk c0).evs,
       .sel (Client.selectOf { sentStateL c0 with sendPingSoon := 0 })) := by
    rw [hcs, cstep_tun w.cs.c frame hq.cst.running hq.cst.alive hq.idleC hne hq.cst.conn, hc0]
    rw [settle_afterSend _ _ _ (by rw [hsend]) (by rw [hsend]; have := hsf.running; simpa using this.trans hready.stat.running)]
    rw [hsend]
  have hnow0 : c0.now = w.cs.c.now := by rw [← hc0]; rfl
  have hw1 : step w (.offerC frame) =
      { w with cs := ⟨{ sentStateL c0 with sendPingSoon := 0 }, .tunnel⟩,
               up := [.query (sentState c0).chunkid P.ty name] } := by
    rw [step_offerC w frame hsel, stepC_of w _ _ _ _ hstep (by show _ = w.cs.c.now; rw [hsf.now]; exact hnow0), hq.up, hsend]
    simp [upOfEvents, tunOfCEvents]
  generalize hw1e : ({ w with cs := ⟨{ sentStateL c0 with sendPingSoon := 0 }, .tunnel⟩,
                              up := [.query (sentState c0).chunkid P.ty name] } : W) = w1 at hw1
  have hw1cs : w1.cs = ⟨{ sentStateL c0 with sendPingSoon := 0 }, .tunnel⟩ := by subst hw1e; rfl
  have hw1up : w1.up = [.query (sentState c0).chunkid P.ty name] := by subst hw1e; rfl
  have hw1down : w1.down = [] := by subst hw1e; exact hq.down
  have hw1srv : w1.srv = w.srv := by subst hw1e; rfl
  have hw1tS : w1.tunS = w.tunS := by subst hw1e; rfl
  have hw1tC : w1.tunC = w.tunC := by subst hw1e; rfl
  -- the sequence numbers
  have hiseq := hq.srv.x.iseq
  have hseq0 : c0.outpkt.seqno = (Server.getUser w.srv P.u).inpacket.seqno := by
    have hs : Client.sChar ((w.cs.c.outpkt.seqno + 1) % 8) = (w.cs.c.outpkt.seqno + 1) % 8 := sChar_small _ (by omega)
    have : c0.outpkt.seqno = (w.cs.c.outpkt.seqno + 1) % 8 := by rw [← hc0]; exact hs
    rw [this, hq.syncu]
    omega
  have hsqc : ((c0.outpkt.seqno.toNat : Nat) : Int) = c0.outpkt.seqno := by have := hready.stat.oseq; omega
  have hrej : Rej (Server.getUser w.srv P.u) c0.outpkt.seqno.toNat 0 :=
    rej_of_ahead hiseq hq.srv.x.ifrag.1 (j := 8) (by omega) (by rw [hsqc, hseq0]; omega)
  have hinp0 : c0.inpkt = w.cs.c.inpkt := by rw [← hc0]; rfl
  have hsd : (Server.getUser w.srv P.u).outpacket.seqno = c0.inpkt.seqno := by
    rw [hinp0]; have := hq.syncd; have := hq.cst.iseq; omega
  have hmem0 : HeldMem P (Server.getUser w.srv P.u) (Server.getUser w.srv P.u).q c0.datacmc c0.randSeed := by
    have e1 : c0.datacmc = w.cs.c.datacmc := by rw [← hc0]; rfl
    have e2 : c0.randSeed = w.cs.c.randSeed := by rw [← hc0]; rfl
    rw [e1, e2]; exact hq.mem
  have hcid0 : c0.chunkid = w.cs.c.chunkid := by rw [← hc0]; rfl
  -- step 1: the server drops the data, answers the query it held with its own position as the ack
  obtain ⟨s', evs, t, pkt, hit, hdown, htun, hdr, hmem⟩ :=
    srv_recv_drop_lazy hP hq.srv hq.idle hready.stat.cmc hq.held hmem0 hQ hrej
  have hHc0 := hq.mem.c0
  have hHid : (Server.getUser w.srv P.u).q.id = c0.chunkid := by rw [hcid0]; exact hq.heldid
  generalize hH : (Server.getUser w.srv P.u).q = H at hdown hHc0 hHid
  have hq1 : quiet P.u w1 = false := quiet_false_of_up _ _ _ _ hw1up
  have hs1 : step w1 (promptEv w1) =
      { w1 with up := [], srv := s', down := [.ans H.id H.type H.name pkt] } := by
    rw [promptEv_up w1 _ _ hw1up, step_deliverUp w1 _ _ hw1up, srvInput_query,
      stepS_zero { w1 with up := [] } _ s' evs t (by show Server.iteration w1.srv _ w1.srv.now = _; rw [hw1srv]; exact hit), hdown, htun]
    simp [hw1down]
  generalize hw2 : ({ w1 with up := [], srv := s', down := [.ans H.id H.type H.name pkt] } : W) = w2 at hs1
  have hw2cs : w2.cs = w1.cs := by subst hw2; rfl
  have hw2up : w2.up = [] := by subst hw2; rfl
  have hw2down : w2.down = [.ans H.id H.type H.name pkt] := by subst hw2; rfl
  have hq2 : quiet P.u w2 = false := quiet_false_of_down _ _ _ _ hw2down
  -- step 2: the client takes the answer for the acknowledgement of its fragment
  obtain ⟨y, hpkt, hyo, hyi⟩ := hdr.pkt
  obtain ⟨hlen2, hdn, hus, huf⟩ := ack_hdr (x := Server.getUser w.srv P.u) hpkt (by rw [hyi]; exact hiseq)
    (by rw [hyi]; exact hq.srv.x.ifrag) hyo hq.srv.x.oseq hq.srv.x.ofrag
  rw [hyi] at hus huf
  have hcnt2 : CntOk { sentStateL c0 with sendPingSoon := 0 } 2 := hsi.cnt hready.cnt
  generalize hc : ({ sentStateL c0 with sendPingSoon := 0 } : Client.Cli) = c at hsf hcst hsi hcnt2 hw1cs
  generalize hrq : (Client.Rq.mk (pkt.length : Int) H.id (answerType H.type) 0 (H.name.headD 0) pkt) = rq
  have hdl : Client.tunnelDns c rq = Client.upstream (ackBook c) (Client.decodeHdr pkt) [] false 2 := by
    have := tunnelDns_dataless_lazy c rq
      (by subst hrq; show Client.notData c (H.name.headD 0) = false
          rw [headD_eq_getD]
          exact notData_held (hsf.useridChar.trans hready.stat.uch) _ hHc0)
      (by subst hrq; exact hlen2)
      (by subst hrq; unfold Client.recentId; show (H.id == c.chunkid || H.id == c.chunkidPrev || H.id == c.chunkidPrev2) = true
          rw [hsi.prev, hHid]; simp)
      hsf.sps
      (by subst hrq; show H.id ≠ c.chunkid; rw [hHid]; exact fun e => hsi.ne hready.stat.cid e.symm)
      (by subst hrq; show (Client.decodeHdr pkt).dnSeq = c.inpkt.seqno; rw [hdn, hsf.inpkt]; exact hsd)
    subst hrq
    exact this
  have hbk : (ackBook c).outpkt = c.outpkt := rfl
  have hlen0 : out.length ≠ 0 := by have := hready.ho; omega
  have hmore := upstream_ack_more (ackBook c) (Client.decodeHdr pkt) [] false 2
    (by
      unfold Client.isSending
      rw [hbk, hsf.olen, hready.len]
      simpa using hlen0)
    (by rw [hus, hbk, hsf.oseq]; exact hseq0.symm)
    (by rw [huf, hbk, hsf.ofrag, hready.frag, h0]; rfl)
    (by rw [hbk, hsf.ooff, hsf.osent, hsf.olen, cFragLen_readyL hready, hready.off, hready.len]
        simp only [List.drop_zero]
        omega)
  generalize hc0' : ackNext (ackBook c) = c0' at hmore
  have hready' : CReadyL P c0' out (fragLen P out) 1 := by
    subst hc0'
    have hbs := cstat_ackBookL hcst
    refine ⟨⟨hbs.running, hbs.conn, hbs.lz, hbs.uid, hbs.uch, hbs.td, hbs.L, hbs.enc, hbs.ty, hbs.cid, hbs.cmc, hbs.alive, hbs.oseq, hbs.iseq, hbs.ifrag, hbs.seed⟩,
      cntOk_ackNext _ _ (ackBook_cnt c hcnt2), ?_, ?_, ?_, ?_, hmulti, by omega, hready.bytes⟩
    · show c.outpkt.data = out; rw [hsf.odata]; exact hready.data
    · show c.outpkt.len = out.length; rw [hsf.olen]; exact hready.len
    · show c.outpkt.offset + c.outpkt.sentlen = fragLen P out
      rw [hsf.ooff, hsf.osent, cFragLen_readyL hready, hready.off]
      simp
    · show Client.sChar (c.outpkt.fragment + 1) = ((1 : Nat) : Int)
      rw [hsf.ofrag, hready.frag, sChar_small _ (by omega)]
      omega
  obtain ⟨name', hsend', _, _, _⟩ := send_readyL hP hready'
  have hsf' := sentFactsL c0'
  have hstep2 : Client.cstep w2.cs (.rq rq) =
      (⟨{ sentStateL c0' with sendPingSoon := 0 }, .tunnel⟩, [] ++ (Client.sendChunk c0').evs,
       .sel (Client.selectOf { sentStateL c0' with sendPingSoon := 0 })) := by
    rw [hw2cs, hw1cs, cstep_rq c rq hcst.running hcst.alive hcst.conn, hdl, hmore]
    rw [settle_afterSend _ _ _ (by rw [hsend']) (by rw [hsend']; have := hsf'.running; simpa using this.trans hready'.stat.running)]
    rw [hsend']
  have hnow' : ({ sentStateL c0' with sendPingSoon := 0 } : Client.Cli).now = w2.cs.c.now := by
    rw [hsf'.now, hw2cs, hw1cs]
    subst hc0'; rfl
  have hs2 : step w2 (promptEv w2) =
      { w2 with down := [], cs := ⟨{ sentStateL c0' with sendPingSoon := 0 }, .tunnel⟩,
                up := upOfEvents (Client.sendChunk c0').evs } := by
    rw [promptEv_down w2 _ _ hw2up hw2down, step_deliverDown w2 _ _ hw2down]
    have hci : cliInput (.ans H.id H.type H.name pkt) = .rq rq := by subst hrq; rfl
    rw [hci, stepC_of _ _ _ _ _ (by exact hstep2) (by exact hnow')]
    subst hw2
    simp [hsend', tunOfCEvents]
  have hcmc' : c0'.datacmc = (c0.datacmc + 1) % 36 := by
    subst hc0'; show c.datacmc = _; rw [hsf.cmc]
    have := hready.stat.cmc
    split <;> omega
  have hseed' : c0'.randSeed = c0.randSeed := by subst hc0'; show c.randSeed = _; exact hsf.seed
  have hseq' : c0'.outpkt.seqno = c0.outpkt.seqno := by subst hc0'; show c.outpkt.seqno = _; exact hsf.oseq
  rw [hw1]
  refine ⟨{ w2 with down := [], cs := ⟨{ sentStateL c0' with sendPingSoon := 0 }, .tunnel⟩,
                    up := upOfEvents (Client.sendChunk c0').evs }, c0', ?_, ?_, ?_, ?_, ?_, ?_⟩
  · rw [promptSteps_succ hq1, hs1, promptSteps_succ hq2, hs2]
    rfl
  · subst hw2
    refine ⟨rfl, hready', rfl, rfl, rfl, hdr.stat, hdr.idle, by rw [hdr.oq]; exact hq.oq, ?_, ?_, ?_, ?_, ?_, ?_⟩
    · show HeldBase P (Server.getUser s' P.u).q
      rw [hdr.qeq]; exact hQ.heldBase
    · show (Server.getUser s' P.u).q.id = c0'.chunkid
      rw [hdr.qeq, upQuery_id]
      subst hc0'; show _ = c.chunkid; exact hsi.cid.symm
    · right
      show (1 ≠ 0) ∧ (Server.getUser s' P.u).inpacket.seqno = _ ∧ _
      rw [hdr.inp, hseq', hsqc]
      refine ⟨by omega, hseq0.symm, by rw [h0]; rfl, rfl, hbuf.len, ?_⟩
      have := hbuf.data
      rw [List.take_append_of_le_length (by rw [List.length_take]; omega), List.take_take, Nat.min_self]
    · have := hbuf.data
      have hl' : ((Server.getUser w.srv P.u).inpacket.data.take (Server.getUser w.srv P.u).inpacket.offset).length =
          (Server.getUser w.srv P.u).inpacket.offset := by rw [List.length_take]; omega
      rw [List.drop_append_of_le_length (by omega), List.drop_of_length_le (by omega)]
      rfl
    · show (Server.getUser s' P.u).outpacket.seqno = c0'.inpkt.seqno
      rw [hdr.outp, hsd]
      subst hc0'; show c0.inpkt.seqno = c.inpkt.seqno; rw [hsf.inpkt]
    · show HeldMem P (Server.getUser s' P.u) (Server.getUser s' P.u).q c0'.datacmc c0'.randSeed
      rw [hdr.qeq, hcmc', hseed']; exact hmem
  · subst hw2; exact hw1tS
  · subst hw2; exact hw1tC
  · subst hw2; exact hdr.tun
  · subst hw2; exact hdr.frag

end Iodine.C02L
