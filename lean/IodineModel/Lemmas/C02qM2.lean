import IodineModel.Lemmas.C02qM1
/-
C02 phase 2 / DOWNSTREAM, LAZY mode, desynchronised — part 2, the server's slot:
* a ping whose acknowledgement does NOT match the fragment in flight: `process_downstream_ack` does nothing and
  `send_chunk_or_dataless` sends the SAME fragment again, counting it (`pingZ_resendM`);
* … and when the fragment was already sent 6 times (`outfragresent > 5`) the packet is dropped and the answer is DATALESS,
  still carrying the dropped packet's sequence number (`pingZ_kill`);
* the iteration that receives a ping in lazy mode with no query held and something to send, whatever the resend counter
  (`srv_ping_lazy_any`).
-/
namespace Iodine.C02L
open Iodine Iodine.Gen Iodine.World

section server
open Iodine.Server

theorem ackSess_other (x : Session) (a b : Int) (h : x.outpacket.seqno ≠ a ∨ x.outpacket.fragment ≠ b) : ackSess x a b = x := by
  unfold ackSess
  by_cases h0 : x.outpacket.len = 0
  · rw [if_pos h0]
  · rw [if_neg h0, if_pos h]

theorem ackSess_idleM (x : Session) (a b : Int) (h : x.outpacket.len = 0) : ackSess x a b = x := by
  unfold ackSess
  rw [if_pos h]

/-- `send_chunk_or_dataless` on a packet that was sent more than 5 times (nothing queued): the packet is forgotten first -/
theorem scSess_kill (y : Session) (u : Nat) (w : QSel) (hlen : y.outpacket.len > 0) (hres : y.outfragresent > 5)
    (hoq : y.oqFilled = 0) : scSess y u w = scSess (dropOut y) u w := by
  have h1 : dropResent y = dropOut y := by
    unfold dropResent
    rw [if_pos ⟨hlen, hres⟩, fromQueue_empty _ (by exact hoq)]
  have h2 : dropResent (dropOut y) = dropOut y := by
    unfold dropResent
    rw [if_neg (by intro h; exact absurd h.1 (by show ¬ (0 > 0); omega))]
  unfold scSess
  simp only [h1, h2]

/-- `scSess_q_shape` without a bound on the resend counter -/
theorem scSess_q_shape_any (y : Session) (u : Nat) (hid2 : y.q.id2 = 0) (hoq : y.oqFilled = 0) :
    ∃ y1 pkt, SameMem y y1 ∧ pkt.length ≤ DNSCACHE_ANSWER_SIZE ∧
      (scSess y u .q).1.2 = [writeDns y.q pkt y.downenc (.chunk u)] ∧ (scSess y u .q).2 = false ∧
      SameMem (cacheUpd (qmemUpd y1 y.q) y.q pkt) (scSess y u .q).1.1 ∧ (scSess y u .q).1.1.qs = y.qs := by
  by_cases hres : y.outfragresent ≤ 5
  · exact scSess_q_shape y u hid2 hoq hres
  · by_cases hlen : y.outpacket.len = 0
    · have hsd := scSess_dataless y u .q hlen hid2
      have hqs : (cacheUpd (qmemUpd y y.q) y.q (scPkt y 0)).qs = y.qs := by
        have := core_qs (core_memo y y.q (scPkt y 0)); exact this
      refine ⟨y, scPkt y 0, SameMem.refl y, scPkt0_len y, ?_, ?_, ?_, ?_⟩
      · rw [hsd]; rfl
      · rw [hsd]
      · rw [hsd]; exact ⟨rfl, rfl, rfl, rfl, rfl, rfl⟩
      · rw [hsd]; exact hqs
    · rw [scSess_kill y u .q (by omega) (by omega) hoq]
      obtain ⟨y1, pkt, h1, h2, h3, h4, h5, h6⟩ := scSess_q_shape (dropOut y) u hid2 hoq (by show 0 ≤ 5; omega)
      exact ⟨y1, pkt, h1, h2, h3, h4, h5, h6⟩

/-- RESEND: the ping's acknowledgement does not match the fragment in flight (which is not the last one) -/
theorem pingZ_resendM (x0 : Session) (u : Nat) (Q : Query) (a b : Int) (now : Nat) (out : List Nat) (sq : Int) (o D f : Nat)
    (hid2 : Q.id2 = 0) (hoq : x0.oqFilled = 0) (hres : x0.outfragresent ≤ 5)
    (hop : x0.outpacket = ⟨out.length, D, o, out, sq, (f : Int)⟩) (hab : sq ≠ a ∨ (f : Int) ≠ b)
    (hD : D = downLen x0.fragsize (out.length - o)) (hDpos : 0 < D) (hlt : o + D < out.length) :
    (pingZ x0 u Q a b now).outpacket = ⟨out.length, D, o, out, sq, (f : Int)⟩ ∧
    (pingZ x0 u Q a b now).outfragresent = x0.outfragresent + 1 ∧
    ∃ yy : Session, (scSess (saveQ (ackSess x0 a b) Q now) u .q).1.2 = [writeDns Q (scPkt yy D) x0.downenc (.chunk u)] ∧
      yy.outpacket = ⟨out.length, D, o, out, sq, (f : Int)⟩ ∧ yy.inpacket = x0.inpacket := by
  have hack : ackSess x0 a b = x0 := ackSess_other x0 a b (by rw [hop]; exact hab)
  have hDy : scDatalen (saveQ x0 Q now) = D := by
    rw [hD]
    unfold scDatalen saveQ downLen
    simp only [hop]
    rw [if_pos (by omega)]
  have hsd := scSess_data (saveQ x0 Q now) u .q (by show x0.outpacket.len > 0; rw [hop]; show 0 < out.length; omega)
    (by exact hres) (by exact hid2) (by exact hoq)
  rw [hDy] at hsd
  have hlen : (saveQ x0 Q now).outpacket.len = out.length := by show x0.outpacket.len = _; rw [hop]
  rw [hlen, if_neg (by intro h; omega)] at hsd
  have hpo : (prepOut (saveQ x0 Q now)).outpacket = ⟨out.length, D, o, out, sq, (f : Int)⟩ := by
    unfold prepOut
    simp only [hDy]
    show ({ x0.outpacket with sentlen := D } : Packet) = _
    rw [hop]
  have hao : (answered (saveQ x0 Q now) .q).outpacket = ⟨out.length, D, o, out, sq, (f : Int)⟩ := by
    have := core_outpacket (core_memo (prepOut (saveQ x0 Q now)) (saveQ x0 Q now).q (scPkt (prepOut (saveQ x0 Q now)) (scDatalen (saveQ x0 Q now))))
    exact this.trans hpo
  have har : (answered (saveQ x0 Q now) .q).outfragresent = x0.outfragresent + 1 := by
    have := core_outfragresent (core_memo (prepOut (saveQ x0 Q now)) (saveQ x0 Q now).q (scPkt (prepOut (saveQ x0 Q now)) (scDatalen (saveQ x0 Q now))))
    exact this
  unfold pingZ
  rw [hack, hsd]
  exact ⟨hao, har, prepOut (saveQ x0 Q now), rfl, hpo, rfl⟩

/-- KILL: the fragment in flight was sent more than 5 times and the ping does not acknowledge it: the handler behaves as
if the packet had been dropped before -/
theorem pingZ_kill_eq (x0 : Session) (u : Nat) (Q : Query) (a b : Int) (now : Nat)
    (hoq : x0.oqFilled = 0) (hres : x0.outfragresent > 5) (hlen : x0.outpacket.len > 0)
    (hab : x0.outpacket.seqno ≠ a ∨ x0.outpacket.fragment ≠ b) :
    scSess (saveQ (ackSess x0 a b) Q now) u .q = scSess (saveQ (ackSess (dropOut x0) a b) Q now) u .q := by
  rw [ackSess_other x0 a b hab, ackSess_idleM (dropOut x0) a b rfl,
    scSess_kill (saveQ x0 Q now) u .q (by exact hlen) (by exact hres) (by exact hoq)]
  rfl

/-- … the slot and the answer after it: no outpacket any more, a DATALESS answer with the dropped packet's sequence number -/
theorem pingZ_kill (x0 : Session) (u : Nat) (Q : Query) (a b : Int) (now : Nat) (out : List Nat) (sq : Int) (o D f : Nat)
    (hid2 : Q.id2 = 0) (hoq : x0.oqFilled = 0) (hres : x0.outfragresent > 5)
    (hop : x0.outpacket = ⟨out.length, D, o, out, sq, (f : Int)⟩) (hL : 0 < out.length) (hab : sq ≠ a ∨ (f : Int) ≠ b) :
    (pingZ x0 u Q a b now).outpacket = ⟨0, 0, 0, out, sq, (f : Int)⟩ ∧
    (pingZ x0 u Q a b now).outfragresent = 0 ∧
    rest (pingZ x0 u Q a b now) = rest x0 ∧
    (pingZ x0 u Q a b now).q = { Q with id := 0 } ∧ (pingZ x0 u Q a b now).lastPkt = now ∧
    ∃ yy : Session, (scSess (saveQ (ackSess x0 a b) Q now) u .q).1.2 = [writeDns Q (scPkt yy 0) x0.downenc (.chunk u)] ∧
      yy.outpacket = ⟨0, 0, 0, out, sq, (f : Int)⟩ ∧ yy.inpacket = x0.inpacket := by
  have heq := pingZ_kill_eq x0 u Q a b now hoq hres (by rw [hop]; exact hL) (by rw [hop]; exact hab)
  have hz : pingZ x0 u Q a b now = pingZ (dropOut x0) u Q a b now := by unfold pingZ; rw [heq]
  have hr := pingZ_rest (dropOut x0) u Q a b now hid2 hoq (by show 0 ≤ 5; omega)
  have hq := pingZ_q (dropOut x0) u Q a b now hid2 hoq (by show 0 ≤ 5; omega)
  rw [hz, heq]
  have hack : ackSess (dropOut x0) a b = dropOut x0 := ackSess_idleM _ a b rfl
  generalize hy : saveQ (ackSess (dropOut x0) a b) Q now = y
  have hyo : y.outpacket = ⟨0, 0, 0, out, sq, (f : Int)⟩ := by
    subst hy; rw [hack]
    show ({ x0.outpacket with len := 0, offset := 0, sentlen := 0 } : Packet) = _
    rw [hop]
  have hsd := scSess_dataless y u .q (by rw [hyo]) (by subst hy; exact hid2)
  have hao : (QSel.q.set (cacheUpd (qmemUpd y y.q) y.q (scPkt y 0)) { y.q with id := 0 }).outpacket = ⟨0, 0, 0, out, sq, (f : Int)⟩ := by
    have := core_outpacket (core_memo y y.q (scPkt y 0))
    exact this.trans hyo
  have har : (QSel.q.set (cacheUpd (qmemUpd y y.q) y.q (scPkt y 0)) { y.q with id := 0 }).outfragresent = 0 := by
    have := core_outfragresent (core_memo y y.q (scPkt y 0))
    refine this.trans ?_
    subst hy; rw [hack]; rfl
  refine ⟨?_, ?_, hr, hq.1, hq.2, y, ?_, hyo, ?_⟩
  · unfold pingZ; rw [hy, hsd]; exact hao
  · unfold pingZ; rw [hy, hsd]; exact har
  · rw [hsd]
    show [writeDns y.q _ y.downenc _] = _
    subst hy; rw [hack]; rfl
  · subst hy; rw [hack]; rfl

/-- A ping reaches the server in lazy mode while no query is held and the slot (after `process_downstream_ack`) still has
an outpacket: an answer goes out at once — `srv_ping_lazy_more` without the bound on the resend counter. -/
theorem srv_ping_lazy_any {P : Par} (hP : P.Ok) {s : Srv} (hS : SStat P s)
    (hq : (getUser s P.u).q.id = 0) (hqs : (getUser s P.u).qs.id = 0)
    (hoq : (getUser s P.u).oqFilled = 0)
    {Q : Query} {a b : Int} {sd : Nat} (hQ : PingQ P Q a b sd)
    {k : Nat} (hA : Aged P (getUser s P.u) k 1) (hPA : PAged P (getUser s P.u) sd 1)
    (hlen : 0 < (ackSess { getUser s P.u with qsNew := false } a b).outpacket.len) :
    ∃ s' evs t pkt, iteration s (.q Q) s.now = (s', evs, t) ∧ downOfEvents evs = [.ans Q.id Q.type Q.name pkt] ∧
      tunOfSEvents evs = [] ∧ AfterPing P s s' Q a b pkt ∧
      Aged P (getUser s' P.u) k 1 ∧ PAged P (getUser s' P.u) ((sd + 1) % 65536) 1 := by
  obtain ⟨dlen, hdl, h2, h4, huid, ha, hb, hc2, hc3⟩ := hQ.parse
  obtain ⟨cp, hcp, hfl, hf2, hf3⟩ := hQ.fp
  have htop := topSess_live hS
  have hu := hS.solo.lt
  generalize hx0 : ({ getUser s P.u with qsNew := false } : Session) = x0 at htop hlen
  have hx0q : x0.q.id = 0 := by subst hx0; exact hq
  have hx0qs : x0.qs.id = 0 := by subst hx0; exact hqs
  have hx0oq : x0.oqFilled = 0 := by subst hx0; exact hoq
  have hx0A : Aged P x0 k 1 := by subst hx0; exact hA.congr rfl rfl rfl rfl
  have hx0P : PAged P x0 sd 1 := by subst hx0; exact hPA.congr rfl rfl rfl rfl
  have hit := iteration_ping hS.solo Q s.now dlen (by rw [hS.td]; exact hdl) h2 hQ.c0 (hQ.ty ▸ hP.tty) hQ.id h4 huid
    (admitted_entry hS Q hQ.from_)
    (by rw [htop]; exact hx0P.cacheMiss hQ.sdlt (by omega) Q hQ.ty hQ.c0 hQ.seed)
    (by rw [htop]; exact hx0P.qmemMiss hQ.sdlt (by omega) Q hQ.ty _ hc2 hc3)
    (by rw [htop]; exact Or.inl hx0q) (by rw [htop]; exact Or.inl hx0qs)
  rw [htop, ha, hb, pingSess_lazy_more x0 P.u Q a b s.now hx0q hx0qs hx0oq hlen] at hit
  have hac := ackSess_core x0 a b hx0oq
  generalize hy : saveQ (ackSess x0 a b) Q s.now = y at hit
  have hyq : y.q = Q := by subst hy; rfl
  have hsm := ackSess_sameMem x0 a b hx0oq
  have hyA : Aged P y k 1 := by
    subst hy
    exact hx0A.congr hsm.1 hsm.2.1 hsm.2.2.2.2.1 hsm.2.2.2.2.2
  have hyP : PAged P y sd 1 := by
    subst hy
    exact hx0P.congr hsm.2.2.1 hsm.2.2.2.1 hsm.2.2.2.2.1 hsm.2.2.2.2.2
  have hyid2 : y.q.id2 = 0 := by rw [hyq]; exact hQ.id2
  have hyoq : y.oqFilled = 0 := by
    subst hy
    show (ackSess x0 a b).oqFilled = 0
    have := core_oqFilled hac
    rw [this]; exact hx0oq
  obtain ⟨y1, pkt, hm1, hpl, hev, _, hm2, hqs2⟩ := scSess_q_shape_any y P.u hyid2 hyoq
  rw [hyq] at hev hm2
  have hyqs : y.qs.id = 0 := by
    subst hy
    show (ackSess x0 a b).qs.id = 0
    have := core_qs hac
    rw [this]; exact hx0qs
  have hsw : sweepSess (scSess y P.u .q).1.1 P.u s.now = ((scSess y P.u .q).1.1, []) := by
    unfold sweepSess
    rw [if_neg (by intro hc; exact hc.2.1 (by rw [hqs2]; exact hyqs))]
  simp only at hit
  rw [hsw, hev] at hit
  have hdn : y.downenc = (getUser s P.u).downenc := by
    subst hy
    show (ackSess x0 a b).downenc = _
    have := core_downenc hac
    rw [this]; subst hx0; rfl
  have hg : getUser { putUser s P.u (scSess y P.u .q).1.1 with now := s.now } P.u = (scSess y P.u .q).1.1 := by
    rw [getUser_withNow, getUser_putUser_self _ _ _ hu]
  refine ⟨_, _, _, pkt, hit, ?_, ?_, ?_, ?_, ?_⟩
  · simp only [List.append_nil, downOfEvents_append, downOfEvents_sweep, downOfEvents_writeDns _ _ _ _ hQ.from_]
  · simp only [List.append_nil, tunOfSEvents_append, tunOfSEvents_writeDns, tunOfSEvents_sweep]
  · refine ⟨(hS.solo.putUser _).withNow _, hS.td, rfl, rfl, ?_, ?_⟩
    · rw [hg, hx0, hy]
    · rw [hx0, hy, hev, hdn]
  · rw [hg]
    have hy1A : Aged P y1 k 1 := hyA.congr hm1.1 hm1.2.1 hm1.2.2.2.2.1 hm1.2.2.2.2.2
    have := hy1A.memo_ping hP.hu Q pkt hpl hQ.c0 cp hcp hfl
    exact this.congr hm2.1 hm2.2.1 hm2.2.2.2.2.1 hm2.2.2.2.2.2
  · rw [hg]
    have hy1P : PAged P y1 sd 1 := hyP.congr hm1.2.2.1 hm1.2.2.2.1 hm1.2.2.2.2.1 hm1.2.2.2.2.2
    have := (hy1P.step hQ.sdlt (by omega)).memo Q pkt hpl sd 1 ⟨by omega, by omega⟩ (behind_next16 sd hQ.sdlt) hQ.c0 cp hcp hfl hf2 hf3 hQ.seed
    exact this.congr hm2.2.2.1 hm2.2.2.2.1 hm2.2.2.2.2.1 hm2.2.2.2.2.2

end server

end Iodine.C02L
