import IodineModel.Lemmas.SrvC16e
/-
Helper lemmas for C16, part f: the invariant through the ping and data handlers, `tunnel_dns`, the raw-mode
handlers, the sweep, one loop iteration and a whole run.
-/
namespace Iodine.C16L
open Iodine Iodine.Server Iodine.Gen

variable {td : List Nat} {u : Nat} {inp : Input}

theorem saveQuery_q (s : Srv) (v : Nat) (q : Query) (h : v < (saveQuery s v q).users.length) :
    (getUser (saveQuery s v q) v).q = q := by
  unfold saveQuery at h ⊢
  rw [setUser_length] at h
  rw [getUser_setUser_same _ _ _ h]

theorem step_sendChunk_saved (s : Srv) (v : Nat) (q : Query) (hq : q.id ≠ 0) :
    Keeps td u inp (saveQuery s v q) (sendChunkOrDataless (saveQuery s v q) v .q).1 := by
  refine step_of_bound (step_sendChunk (td := td) (u := v + 1) (inp := inp) _ v .q (by omega)).1 ?_
  intro hb
  apply step_sendChunk
  intro hv
  subst hv
  show (getUser (saveQuery s v q) v).q.id ≠ 0
  rw [saveQuery_q s v q hb]
  exact hq

theorem step_pingFresh (s : Srv) (v : Nat) (q : Query) (unpacked : List Nat) (hq : q.id ≠ 0) :
    Keeps td u inp s (pingFresh s v q unpacked) := by
  unfold pingFresh
  extract_lets b s1 r1 t r2 didsend s3 x r3
  have h1 : Keeps td u inp s r1 := by
    have hs : Same u s s1 := same_processDownstreamAck u s v _ _
    refine step_pre hs ?_
    simp only [r1]
    split
    · rename_i h; exact step_sendChunk s1 v .qs (fun _ => h)
    · exact step_refl s1
  have h2 : Keeps td u inp r1.1 r2.1 := by
    simp only [r2, t]
    split
    · rename_i h; dsimp only; exact step_sendChunk r1.1 v .q (fun _ => h)
    · dsimp only; exact step_refl r1.1
  have h3 : Keeps td u inp r2.1.1 r3 := by
    have hs : Same u r2.1.1 s3 := same_saveQuery u r2.1.1 v q
    refine step_pre hs ?_
    simp only [r3]
    split
    · exact step_sendChunk_saved r2.1.1 v q hq
    · exact step_refl s3
  clear_value r3 r2 r1
  exact step_seq (step_seq h1 h2) h3

theorem step_rememberDuplicate (s s' : Srv) (v : Nat) (q : Query) (h : rememberDuplicate s v q = some s') :
    Same u s s' := by
  unfold rememberDuplicate at h
  simp only [] at h
  split at h
  · injection h with h; subst h; exact same_setUser u v s _ (fun _ => rfl)
  · split at h
    · injection h with h; subst h; exact same_setUser u v s _ (fun _ => rfl)
    · cases h

theorem calm_answerFromDnscache (s : Srv) (v : Nat) (q : Query) (e : Event)
    (h : answerFromDnscache s v q = some e) : isChunk u e = false := by
  unfold answerFromDnscache at h
  simp only [] at h
  split at h
  · injection h with h; subst h; rfl
  · cases h

theorem calm_answerFromQmem (q : Query) (mem : List QmemEntry) (cmc : List Nat) (v : Nat) (e : Event)
    (h : answerFromQmem q mem cmc v = some e) : isChunk u e = false := by
  unfold answerFromQmem at h
  split at h
  · injection h with h; subst h; rfl
  · cases h

theorem step_handlePing (s : Srv) (q : Query) (inb : List Nat) : Keeps td u inp s (handlePing s q inb) := by
  unfold handlePing
  split
  · exact step_refl s
  · rename_i hq
    extract_lets unpacked userid v
    split
    · exact step_refl s
    · split
      · exact step_one (Same.refl u _) rfl
      · split
        · rename_i e he; exact step_one (Same.refl u _) (calm_answerFromDnscache s v q e he)
        · split
          · rename_i e he; exact step_one (Same.refl u _) (calm_answerFromQmem q _ _ v e he)
          · split
            · rename_i s' he; exact step_none (step_rememberDuplicate s s' v q he)
            · exact step_pingFresh s v q unpacked hq

theorem step_dataStepQs (s : Srv) (v : Nat) : Keeps td u inp s (dataStepQs s v).1 := by
  unfold dataStepQs
  split
  · rename_i h; dsimp only; exact step_sendChunk s v .qs (fun _ => h)
  · dsimp only; exact step_refl s

theorem step_dataStepQ (s : Srv) (v : Nat) (a b c : Bool) : Keeps td u inp s (dataStepQ s v a b c).1 := by
  unfold dataStepQ
  extract_lets x
  split
  · rename_i h
    split
    · dsimp only; exact step_sendChunk s v .q (fun _ => h)
    · dsimp only; exact step_none (same_setUser u v s _ (fun _ => rfl))
  · dsimp only; exact step_refl s

theorem step_dataStepFinal (s : Srv) (v : Nat) (q : Query) (a b c : Bool) (hq : q.id ≠ 0) :
    Keeps td u inp (saveQuery s v q) (dataStepFinal (saveQuery s v q) v a b c) := by
  unfold dataStepFinal
  extract_lets x
  split
  · exact step_sendChunk_saved s v q hq
  · split
    · split
      · exact step_none (same_setUser u v _ _ (fun _ => rfl))
      · exact step_sendChunk_saved s v q hq
    · exact step_refl _

theorem step_dataFresh (s : Srv) (v : Nat) (q : Query) (inb : List Nat) (hq : q.id ≠ 0) :
    Keeps td u inp s (dataFresh s v q inb) := by
  unfold dataFresh
  extract_lets b1 b2 b3 upSeq upFrag dnSeq dnFrag lastfrag s1 up upstreamOk s2 r3 r4 r5 s6 r7
  have hs2 : Same u s s2 := by
    have h1 : Same u s s1 := same_processDownstreamAck u s v _ _
    have h2 : Same u s1 s2 := by
      simp only [s2]
      refine ⟨setUser_length _ _ _, ?_⟩
      rw [getUser_setUser]
      split
      · rename_i h
        rw [h.1]
        split
        · simp only [up]
          unfold dataStore dataUpstream
          repeat' split
          all_goals rfl
        · simp only [up]
          unfold dataUpstream
          repeat' split
          all_goals rfl
      · rfl
    exact Same.trans h1 h2
  have h3 : Keeps td u inp s r3 := by
    refine step_pre hs2 ?_
    simp only [r3]
    split
    · exact step_handleFullPacket s2 v
    · exact step_refl s2
  have h4 : Keeps td u inp r3.1 r4.1 := step_dataStepQs r3.1 v
  have h5 : Keeps td u inp r4.1.1 r5.1 := step_dataStepQ r4.1.1 v _ _ _
  have h7 : Keeps td u inp r5.1.1 r7 := by
    have hs : Same u r5.1.1 s6 := same_saveQuery u r5.1.1 v q
    exact step_pre hs (step_dataStepFinal r5.1.1 v q _ _ _ hq)
  clear_value r7 r5 r4 r3
  exact step_seq (step_seq (step_seq h3 h4) h5) h7

theorem step_handleData (s : Srv) (q : Query) (dlen : Nat) (inb : List Nat) :
    Keeps td u inp s (handleData s q dlen inb) := by
  unfold handleData
  split
  · exact step_refl s
  · split
    · exact step_refl s
    · rename_i hq
      extract_lets userid v
      split
      · exact step_one (Same.refl u _) rfl
      · split
        · rename_i e he; exact step_one (Same.refl u _) (calm_answerFromDnscache s v q e he)
        · split
          · rename_i e he
            unfold answerFromQmemData at he
            exact step_one (Same.refl u _) (calm_answerFromQmem q _ _ v e he)
          · split
            · rename_i s' he; exact step_none (step_rememberDuplicate s s' v q he)
            · exact step_dataFresh s v q inb hq

end Iodine.C16L
