import IodineModel.Wire.Strict
/-
Facts about the strict parser (IodineModel/Wire/Strict.lean): it inverts the reference wire encodings
`encLabels` / `encName` / pointers / `encTxt`, and the record parser composes.  Nothing here mentions the
model of dns.c.
-/
namespace Iodine.Wire

/-- labels on the wire: length byte followed by the label bytes -/
def encLabels (ls : List (List Nat)) : List Nat := ls.flatMap (fun l => l.length :: l)
/-- number of bytes of `encLabels ls` -/
def labLen (ls : List (List Nat)) : Nat := (ls.map (fun l => l.length + 1)).sum
/-- an uncompressed name: labels and the root byte -/
def encName (ls : List (List Nat)) : List Nat := encLabels ls ++ [0]
/-- a compression pointer to offset `off` -/
def encPtr (off : Nat) : List Nat := [192 + off / 256, off % 256]
/-- big-endian 16 and 32 bit -/
def be16 (v : Nat) : List Nat := [v / 256 % 256, v % 256]
def be32 (v : Nat) : List Nat := [v / 16777216 % 256, v / 65536 % 256, v / 256 % 256, v % 256]

@[simp] theorem encLabels_nil : encLabels [] = [] := rfl
@[simp] theorem encLabels_cons (l : List Nat) (ls) : encLabels (l :: ls) = l.length :: l ++ encLabels ls := by
  simp [encLabels]
theorem encLabels_append (a b : List (List Nat)) : encLabels (a ++ b) = encLabels a ++ encLabels b := by
  simp [encLabels]
@[simp] theorem labLen_nil : labLen [] = 0 := rfl
@[simp] theorem labLen_cons (l : List Nat) (ls) : labLen (l :: ls) = l.length + 1 + labLen ls := by
  simp [labLen]
theorem labLen_append (a b : List (List Nat)) : labLen (a ++ b) = labLen a + labLen b := by
  simp [labLen]
@[simp] theorem encLabels_length (ls) : (encLabels ls).length = labLen ls := by
  induction ls with
  | nil => rfl
  | cons l ls ih => simp [ih]; omega
@[simp] theorem encName_length (ls) : (encName ls).length = labLen ls + 1 := by simp [encName]

/-- labels of 1..63 bytes -/
def LabelsOK (ls : List (List Nat)) : Prop := ∀ l ∈ ls, 1 ≤ l.length ∧ l.length ≤ 63

theorem LabelsOK.tail {l : List Nat} {ls} (h : LabelsOK (l :: ls)) : LabelsOK ls :=
  fun x hx => h x (by simp [hx])

theorem length_le_labLen (ls : List (List Nat)) (h : LabelsOK ls) : 2 * ls.length ≤ labLen ls := by
  induction ls with
  | nil => simp
  | cons l ls ih =>
    have := h l (by simp)
    have := ih h.tail
    simp; omega

namespace Strict

@[simp] theorem wireLen_eq (n : Name) : wireLen n = labLen n + 1 := rfl

/-- compression targets contributed by the explicit labels `ls` starting at `pos`, when the name
continues with `tl` -/
def entriesT : Nat → Name → Name → List (Nat × Name)
  | _, [], _ => []
  | pos, l :: ls, tl => (pos, l :: ls ++ tl) :: entriesT (pos + 1 + l.length) ls tl

theorem lookup_append_of_some {k : List (Nat × Name)} {off : Nat} {n : Name} (e : List (Nat × Name))
    (h : lookup k off = some n) : lookup (k ++ e) off = some n := by
  induction k with
  | nil => simp [lookup] at h
  | cons x k ih =>
    obtain ⟨o, m⟩ := x
    simp only [List.cons_append, lookup] at h ⊢
    by_cases heq : o = off
    · simpa [heq] using h
    · simp only [heq, if_false] at h ⊢; exact ih h

theorem lookup_append_of_none {k : List (Nat × Name)} {off : Nat} (e : List (Nat × Name))
    (h : lookup k off = none) : lookup (k ++ e) off = lookup e off := by
  induction k with
  | nil => rfl
  | cons x k ih =>
    obtain ⟨o, m⟩ := x
    simp only [List.cons_append, lookup] at h ⊢
    by_cases heq : o = off
    · simp [heq] at h
    · simp only [heq, if_false] at h ⊢; exact ih h

/-- all offsets registered by `entriesT pos ls tl` lie in `[pos, pos + labLen ls)` -/
theorem lookup_entriesT_none (ls tl : Name) : ∀ (pos off : Nat), (off < pos ∨ pos + labLen ls ≤ off) →
    lookup (entriesT pos ls tl) off = none := by
  induction ls with
  | nil => intro pos off _; rfl
  | cons l ls ih =>
    intro pos off h
    simp only [labLen_cons] at h
    simp only [entriesT, lookup]
    rw [if_neg (by omega)]
    exact ih _ _ (by omega)

/-- the target registered for the label that starts after the labels `a` -/
theorem lookup_entriesT_mid (a b tl : Name) (hb : b ≠ []) (ha : LabelsOK a) : ∀ (pos : Nat),
    lookup (entriesT pos (a ++ b) tl) (pos + labLen a) = some (b ++ tl) := by
  induction a with
  | nil =>
    intro pos
    cases b with
    | nil => exact absurd rfl hb
    | cons l b => simp [entriesT, lookup]
  | cons l a ih =>
    intro pos
    have := ha l (by simp)
    simp only [List.cons_append, entriesT, lookup, labLen_cons]
    rw [if_neg (by omega)]
    have h := ih ha.tail (pos + 1 + l.length)
    rw [show pos + (l.length + 1 + labLen a) = pos + 1 + l.length + labLen a by omega]
    exact h

/-- explicit labels in front of whatever ends the name -/
theorem nameLoop_labels (ls : Name) (hls : LabelsOK ls) (start : Nat) (k : List (Nat × Name))
    (tailB rest : List Nat) (tn : Name) (tes : List (Nat × Name)) (s' : St) :
    ∀ (fuel pos : Nat),
    nameLoop fuel start ⟨tailB ++ rest, pos + labLen ls, k⟩ = some (tn, tes, s') →
    nameLoop (fuel + ls.length) start ⟨encLabels ls ++ tailB ++ rest, pos, k⟩ =
      some (ls ++ tn, entriesT pos ls tn ++ tes, s') := by
  induction ls with
  | nil => intro fuel pos h; simpa [entriesT] using h
  | cons l ls ih =>
    intro fuel pos h
    have hl := hls l (by simp)
    simp only [labLen_cons] at h
    have h' := ih hls.tail fuel (pos + 1 + l.length)
      (by rw [show pos + 1 + l.length + labLen ls = pos + (l.length + 1 + labLen ls) by omega]; exact h)
    simp only [List.length_cons, encLabels_cons, List.cons_append, List.append_assoc]
    rw [show fuel + (ls.length + 1) = (fuel + ls.length) + 1 by omega]
    unfold nameLoop
    simp only []
    rw [if_neg (by omega), if_pos (by omega)]
    rw [if_neg (by simp)]
    simp only [List.drop_left', List.take_left', List.append_assoc] at h' ⊢
    rw [h']
    simp [entriesT]

/-- a root-terminated name -/
theorem parseName_enc (ls : Name) (hls : LabelsOK ls) (hlen : labLen ls + 1 ≤ 255) (pos : Nat)
    (k : List (Nat × Name)) (rest : List Nat) :
    parseName ⟨encName ls ++ rest, pos, k⟩ =
      some (ls, ⟨rest, pos + labLen ls + 1, k ++ entriesT pos ls []⟩) := by
  have hn := length_le_labLen ls hls
  have h0 : nameLoop ((127 - ls.length) + 1) pos ⟨[0] ++ rest, pos + labLen ls, k⟩ =
      some ([], [], ⟨rest, pos + labLen ls + 1, k⟩) := by
    simp [nameLoop]
  have h := nameLoop_labels ls hls pos k [0] rest [] [] _ _ pos h0
  unfold parseName
  simp only [encName]
  rw [show (128 : Nat) = (127 - ls.length) + 1 + ls.length by omega, h]
  simp only [List.append_nil, wireLen_eq]
  rw [if_pos (by omega)]

/-- a name consisting of explicit labels `ls` followed by a compression pointer to `off` -/
theorem parseName_labels_ptr (ls : Name) (hls : LabelsOK ls) (off pos : Nat) (k : List (Nat × Name))
    (tn : Name) (rest : List Nat) (hoff : off < 16384) (hback : off < pos)
    (hk : lookup k off = some tn) (hlen : labLen ls + labLen tn + 1 ≤ 255) :
    parseName ⟨encLabels ls ++ encPtr off ++ rest, pos, k⟩ =
      some (ls ++ tn, ⟨rest, pos + labLen ls + 2, k ++ (entriesT pos ls tn ++ [(pos + labLen ls, tn)])⟩) := by
  have hn := length_le_labLen ls hls
  have h0 : nameLoop ((127 - ls.length) + 1) pos ⟨encPtr off ++ rest, pos + labLen ls, k⟩ =
      some (tn, [(pos + labLen ls, tn)], ⟨rest, pos + labLen ls + 2, k⟩) := by
    simp only [encPtr, nameLoop, List.cons_append, List.nil_append]
    rw [if_neg (by omega), if_neg (by omega), if_pos (by omega)]
    have : (192 + off / 256 - 192) * 256 + off % 256 = off := by omega
    simp only [this]
    rw [if_pos hback, hk]
  have h := nameLoop_labels ls hls pos k (encPtr off) rest tn _ _ _ pos h0
  unfold parseName
  simp only []
  rw [show (128 : Nat) = (127 - ls.length) + 1 + ls.length by omega, h]
  simp only [wireLen_eq, labLen_append]
  rw [if_pos (by omega)]

/-- a bare compression pointer -/
theorem parseName_ptr (off pos : Nat) (k : List (Nat × Name)) (tn : Name) (rest : List Nat)
    (hoff : off < 16384) (hback : off < pos) (hk : lookup k off = some tn) (hlen : labLen tn + 1 ≤ 255) :
    parseName ⟨encPtr off ++ rest, pos, k⟩ = some (tn, ⟨rest, pos + 2, k ++ [(pos, tn)]⟩) := by
  have h := parseName_labels_ptr [] (by intro l hl; simp at hl) off pos k tn rest hoff hback hk (by simpa using hlen)
  simpa [entriesT] using h

/-! ### fixed-size readers -/

theorem be16_val (v : Nat) (h : v < 65536) : v / 256 % 256 * 256 + v % 256 = v := by omega
theorem be32_val (v : Nat) (h : v < 4294967296) :
    ((v / 16777216 % 256 * 256 + v / 65536 % 256) * 256 + v / 256 % 256) * 256 + v % 256 = v := by omega

theorem u16_be16 (v : Nat) (h : v < 65536) (rest : List Nat) (pos : Nat) (k) :
    u16 ⟨be16 v ++ rest, pos, k⟩ = some (v, ⟨rest, pos + 2, k⟩) := by
  simp [be16, u16, be16_val v h]

theorem u32_be32 (v : Nat) (h : v < 4294967296) (rest : List Nat) (pos : Nat) (k) :
    u32 ⟨be32 v ++ rest, pos, k⟩ = some (v, ⟨rest, pos + 4, k⟩) := by
  simp [be32, u32, be32_val v h]

theorem takeN_append (d rest : List Nat) (pos : Nat) (k) :
    takeN d.length ⟨d ++ rest, pos, k⟩ = some (d, ⟨rest, pos + d.length, k⟩) := by
  simp [takeN]

/-! ### records -/

/-- type, class, ttl, rdlength -/
def rrFixed (ty cls ttl rdlen : Nat) : List Nat := be16 ty ++ be16 cls ++ be32 ttl ++ be16 rdlen

@[simp] theorem rrFixed_length (ty cls ttl rdlen : Nat) : (rrFixed ty cls ttl rdlen).length = 10 := rfl

/-- A record = owner bytes, fixed part, RDATA; the owner and the typed RDATA are parsed by the given facts. -/
theorem parseRR_compose (sec : Section) (ownerB rd rest : List Nat) (pos pos1 : Nat)
    (k k1 k2 : List (Nat × Name)) (owner : Name) (ty cls ttl : Nat) (view : RData)
    (hty : ty < 65536) (hcls : cls < 65536) (httl : ttl < 4294967296) (hrd : rd.length < 65536)
    (hown : ∀ tl, parseName ⟨ownerB ++ tl, pos, k⟩ = some (owner, ⟨tl, pos1, k1⟩))
    (hview : parseRData sec owner ty rd.length ⟨rd ++ rest, pos1 + 10, k1⟩ =
      some (view, ⟨rest, pos1 + 10 + rd.length, k2⟩)) :
    parseRR sec ⟨ownerB ++ (rrFixed ty cls ttl rd.length ++ (rd ++ rest)), pos, k⟩ =
      some (⟨owner, ty, cls, ttl, rd, view⟩, ⟨rest, pos1 + 10 + rd.length, k2⟩) := by
  unfold parseRR
  rw [hown]
  simp only [rrFixed, List.append_assoc]
  rw [u16_be16 ty hty]; simp only []
  rw [u16_be16 cls hcls]; simp only []
  rw [u32_be32 ttl httl]; simp only []
  rw [u16_be16 _ hrd]; simp only []
  rw [if_neg (by simp)]
  rw [show pos1 + 2 + 2 + 4 + 2 = pos1 + 10 by omega, hview]
  simp

/-- types with opaque RDATA -/
def OpaqueType (ty : Nat) : Prop :=
  ty ≠ 1 ∧ ty ≠ 2 ∧ ty ≠ 5 ∧ ty ≠ 12 ∧ ty ≠ 15 ∧ ty ≠ 16 ∧ ty ≠ 33 ∧ ty ≠ 41

instance (ty : Nat) : Decidable (OpaqueType ty) := by unfold OpaqueType; infer_instance

theorem parseRData_other (sec : Section) (owner : Name) (ty : Nat) (h : OpaqueType ty) (rd rest : List Nat)
    (pos : Nat) (k) :
    parseRData sec owner ty rd.length ⟨rd ++ rest, pos, k⟩ = some (.other, ⟨rest, pos + rd.length, k⟩) := by
  obtain ⟨h1, h2, h5, h12, h15, h16, h33, h41⟩ := h
  unfold parseRData
  rw [if_neg h1, if_neg (by omega), if_neg h15, if_neg h33, if_neg h16, if_neg h41, takeN_append]
  rfl

theorem parseRData_a (sec : Section) (owner : Name) (rd rest : List Nat) (hrd : rd.length = 4) (pos : Nat) (k) :
    parseRData sec owner 1 rd.length ⟨rd ++ rest, pos, k⟩ = some (.a rd, ⟨rest, pos + rd.length, k⟩) := by
  unfold parseRData
  rw [if_pos rfl, if_pos hrd, ← hrd, takeN_append]
  rfl

theorem parseRData_name (sec : Section) (owner : Name) (ty rdlen : Nat) (h : ty = 2 ∨ ty = 5 ∨ ty = 12)
    (s s' : St) (n : Name) (hn : parseName s = some (n, s')) :
    parseRData sec owner ty rdlen s = some (.name n, s') := by
  unfold parseRData
  rw [if_neg (by omega), if_pos h, hn]
  rfl

theorem parseRData_mx (sec : Section) (owner : Name) (rdlen pref : Nat) (hp : pref < 65536)
    (nb : List Nat) (pos : Nat) (k) (s' : St) (n : Name)
    (hn : parseName ⟨nb, pos + 2, k⟩ = some (n, s')) :
    parseRData sec owner 15 rdlen ⟨be16 pref ++ nb, pos, k⟩ = some (.mx pref n, s') := by
  unfold parseRData
  rw [if_neg (by omega), if_neg (by omega), if_pos rfl, u16_be16 pref hp]
  simp only [hn]
  rfl

theorem parseRData_srv (sec : Section) (owner : Name) (rdlen prio weight port : Nat)
    (h1 : prio < 65536) (h2 : weight < 65536) (h3 : port < 65536)
    (nb : List Nat) (pos : Nat) (k) (s' : St) (n : Name)
    (hn : parseName ⟨nb, pos + 6, k⟩ = some (n, s')) :
    parseRData sec owner 33 rdlen ⟨be16 prio ++ (be16 weight ++ (be16 port ++ nb)), pos, k⟩ =
      some (.srv prio weight port n, s') := by
  unfold parseRData
  rw [if_neg (by omega), if_neg (by omega), if_neg (by omega), if_pos rfl, u16_be16 prio h1]
  simp only []
  rw [u16_be16 weight h2]
  simp only []
  rw [u16_be16 port h3]
  simp only []
  rw [show pos + 2 + 2 + 2 = pos + 6 by omega, hn]
  rfl

/-- character strings: the same shape as labels, but up to 255 bytes -/
theorem txtStrings_enc (ss : List (List Nat)) (h : ∀ s ∈ ss, s.length ≤ 255) :
    ∀ fuel, ss.length < fuel → txtStrings fuel (encLabels ss) = some ss := by
  induction ss with
  | nil => intro fuel hf; cases fuel with
    | zero => omega
    | succ f => rfl
  | cons s ss ih =>
    intro fuel hf
    cases fuel with
    | zero => omega
    | succ f =>
      simp only [encLabels_cons, List.cons_append, txtStrings]
      rw [if_neg (by simp)]
      simp only [List.drop_left', List.take_left']
      rw [ih (fun x hx => h x (by simp [hx])) f (by simpa using hf)]

theorem length_le_labLen' (ss : List (List Nat)) : ss.length ≤ labLen ss := by
  induction ss with
  | nil => simp
  | cons l ls ih => simp; omega

theorem parseRData_txt (sec : Section) (owner : Name) (s0 : List Nat) (ss : List (List Nat))
    (h : ∀ s ∈ s0 :: ss, s.length ≤ 255) (rest : List Nat) (pos : Nat) (k) :
    parseRData sec owner 16 (labLen (s0 :: ss)) ⟨encLabels (s0 :: ss) ++ rest, pos, k⟩ =
      some (.txt (s0 :: ss), ⟨rest, pos + labLen (s0 :: ss), k⟩) := by
  unfold parseRData
  rw [if_neg (by omega), if_neg (by omega), if_neg (by omega), if_neg (by omega), if_pos rfl]
  have := takeN_append (encLabels (s0 :: ss)) rest pos k
  rw [encLabels_length] at this
  rw [this]
  simp only []
  rw [txtStrings_enc (s0 :: ss) h _ (by have := length_le_labLen' (s0 :: ss); omega)]

theorem parseRData_opt_empty (rest : List Nat) (pos : Nat) (k) :
    parseRData .additional [] 41 0 ⟨rest, pos, k⟩ = some (.opt [], ⟨rest, pos, k⟩) := by
  simp [parseRData, takeN, optOptions]

/-! ### sections -/

theorem parseRRs_cons (sec : Section) (n : Nat) (s s' s'' : St) (rr : RR) (rrs : List RR)
    (h1 : parseRR sec s = some (rr, s')) (h2 : parseRRs sec n s' = some (rrs, s'')) :
    parseRRs sec (n + 1) s = some (rr :: rrs, s'') := by
  simp [parseRRs, h1, h2]

theorem parseRRs_one (sec : Section) (s s' : St) (rr : RR) (h1 : parseRR sec s = some (rr, s')) :
    parseRRs sec 1 s = some ([rr], s') := by
  simp [parseRRs, h1]

/-- one question with an uncompressed name at offset 12 -/
theorem parseQuestions_one (ls : Name) (hls : LabelsOK ls) (hlen : labLen ls + 1 ≤ 255) (ty cls : Nat)
    (hty : ty < 65536) (hcls : cls < 65536) (rest : List Nat) :
    parseQuestions 1 ⟨encName ls ++ (be16 ty ++ (be16 cls ++ rest)), 12, []⟩ =
      some ([(ls, ty, cls)], ⟨rest, 12 + labLen ls + 1 + 4, entriesT 12 ls []⟩) := by
  simp only [parseQuestions, parseQuestion]
  rw [parseName_enc ls hls hlen]
  simp only []
  rw [u16_be16 ty hty]; simp only []
  rw [u16_be16 cls hcls]
  simp

/-- the 12 header bytes -/
def msgHeader (id flags qd an ns ar : Nat) : List Nat :=
  be16 id ++ be16 flags ++ be16 qd ++ be16 an ++ be16 ns ++ be16 ar

theorem parseBody_of (id flags qd an ns ar : Nat) (hid : id < 65536) (hf : flags < 65536)
    (hqd : qd < 65536) (han : an < 65536) (hns : ns < 65536) (har : ar < 65536) (body : List Nat)
    (q : List (Name × Nat × Nat)) (a n r : List RR) (s1 s2 s3 s4 : St)
    (h1 : parseQuestions qd ⟨body, 12, []⟩ = some (q, s1))
    (h2 : parseRRs .answer an s1 = some (a, s2))
    (h3 : parseRRs .authority ns s2 = some (n, s3))
    (h4 : parseRRs .additional ar s3 = some (r, s4))
    (hend : s4.inp = []) :
    parseBody (msgHeader id flags qd an ns ar ++ body) = some ⟨id, flags, q, a, n, r⟩ := by
  simp only [msgHeader, be16, List.cons_append, List.nil_append, parseBody]
  rw [be16_val id hid, be16_val flags hf, be16_val qd hqd, be16_val an han, be16_val ns hns, be16_val ar har]
  rw [h1]; simp only []
  rw [h2]; simp only []
  rw [h3]; simp only []
  rw [h4]; simp only []
  simp [hend]

/-- a record whose owner is a compression pointer to the registered offset `off` -/
theorem parseRR_ptr (sec : Section) (off pos : Nat) (k k2 : List (Nat × Name)) (owner : Name)
    (hk : lookup k off = some owner) (hoff : off < 16384) (hback : off < pos) (hlen : labLen owner + 1 ≤ 255)
    (ty cls ttl : Nat) (rd rest : List Nat) (view : RData)
    (hty : ty < 65536) (hcls : cls < 65536) (httl : ttl < 4294967296) (hrd : rd.length < 65536)
    (hview : parseRData sec owner ty rd.length ⟨rd ++ rest, pos + 12, k ++ [(pos, owner)]⟩ =
      some (view, ⟨rest, pos + 12 + rd.length, k2⟩)) :
    parseRR sec ⟨encPtr off ++ (rrFixed ty cls ttl rd.length ++ (rd ++ rest)), pos, k⟩ =
      some (⟨owner, ty, cls, ttl, rd, view⟩, ⟨rest, pos + 12 + rd.length, k2⟩) := by
  have := parseRR_compose sec (encPtr off) rd rest pos (pos + 2) k (k ++ [(pos, owner)]) k2 owner ty cls ttl view
    hty hcls httl hrd (fun tl => parseName_ptr off pos k owner tl hoff hback hk hlen)
    (by rw [show pos + 2 + 10 = pos + 12 by omega]; exact hview)
  rw [this, show pos + 2 + 10 = pos + 12 by omega]

/-! ### byte ranges -/

/-- all elements are bytes -/
def Bytes (l : List Nat) : Prop := ∀ x ∈ l, x < 256

instance (l : List Nat) : Decidable (Bytes l) := by unfold Bytes; infer_instance

theorem Bytes_append {a b : List Nat} : Bytes (a ++ b) ↔ Bytes a ∧ Bytes b := by
  simp only [Bytes, List.mem_append]
  constructor
  · intro h; exact ⟨fun x hx => h x (Or.inl hx), fun x hx => h x (Or.inr hx)⟩
  · rintro ⟨h1, h2⟩ x (hx | hx)
    · exact h1 x hx
    · exact h2 x hx

theorem Bytes_nil : Bytes [] := by intro x hx; simp at hx
theorem Bytes_cons {a : Nat} {l : List Nat} : Bytes (a :: l) ↔ a < 256 ∧ Bytes l := by
  simp [Bytes]
theorem Bytes_be16 (v : Nat) : Bytes (be16 v) := by
  intro x hx; simp [be16] at hx; omega
theorem Bytes_be32 (v : Nat) : Bytes (be32 v) := by
  intro x hx; simp [be32] at hx; omega
theorem Bytes_rrFixed (ty cls ttl rdlen : Nat) : Bytes (rrFixed ty cls ttl rdlen) := by
  simp only [rrFixed, Bytes_append]
  exact ⟨⟨⟨Bytes_be16 _, Bytes_be16 _⟩, Bytes_be32 _⟩, Bytes_be16 _⟩
theorem Bytes_msgHeader (id flags qd an ns ar : Nat) : Bytes (msgHeader id flags qd an ns ar) := by
  simp only [msgHeader, Bytes_append]
  exact ⟨⟨⟨⟨⟨Bytes_be16 _, Bytes_be16 _⟩, Bytes_be16 _⟩, Bytes_be16 _⟩, Bytes_be16 _⟩, Bytes_be16 _⟩
theorem Bytes_encLabels (ls : List (List Nat)) (hl : ∀ l ∈ ls, l.length < 256) (hb : ∀ l ∈ ls, Bytes l) :
    Bytes (encLabels ls) := by
  induction ls with
  | nil => exact Bytes_nil
  | cons l ls ih =>
    simp only [encLabels_cons, List.cons_append, Bytes_cons, Bytes_append]
    exact ⟨hl l (by simp), hb l (by simp), ih (fun x hx => hl x (by simp [hx])) (fun x hx => hb x (by simp [hx]))⟩
theorem Bytes_encName (ls : List (List Nat)) (hl : ∀ l ∈ ls, l.length < 256) (hb : ∀ l ∈ ls, Bytes l) :
    Bytes (encName ls) := by
  simp only [encName, Bytes_append]
  exact ⟨Bytes_encLabels ls hl hb, by simp [Bytes]⟩
theorem Bytes_encPtr (off : Nat) (h : off < 16384) : Bytes (encPtr off) := by
  intro x hx; simp [encPtr] at hx; omega

theorem parseMsg_of_bytes (l : List Nat) (h : Bytes l) : parseMsg l = parseBody l := by
  unfold parseMsg
  rw [if_pos]
  simpa [Bytes] using h

/-- whatever follows the header and a well-formed first question: if the message parses at all, it has
this id and this question -/
theorem parseMsg_echo (id f1 an ns ar ty : Nat) (ls : Name) (t : List Nat) (m : Msg)
    (hid : id < 65536) (hty : ty < 65536) (hls : LabelsOK ls) (hlen : labLen ls + 1 ≤ 255)
    (h : parseMsg (be16 id ++ [f1, 0] ++ be16 1 ++ be16 an ++ be16 ns ++ be16 ar ++
      (encName ls ++ (be16 ty ++ (be16 1 ++ t)))) = some m) :
    m.id = id ∧ m.qd = [(ls, ty, 1)] := by
  unfold parseMsg at h
  split at h
  · simp only [be16, List.cons_append, List.nil_append, parseBody] at h
    rw [be16_val id hid, show 1 / 256 % 256 * 256 + 1 % 256 = 1 by decide] at h
    have hq := parseQuestions_one ls hls hlen ty 1 hty (by omega) t
    simp only [be16] at hq
    simp only [List.cons_append, List.nil_append] at hq
    rw [hq] at h
    simp only at h
    split at h
    · cases h
    · split at h
      · cases h
      · split at h
        · cases h
        · split at h
          · cases h; exact ⟨rfl, rfl⟩
          · cases h
  · cases h

end Strict
end Iodine.Wire
