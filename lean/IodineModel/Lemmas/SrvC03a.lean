import IodineModel.Server.Run
/-
Helper lemmas for property C03, part a: frame lemmas for `getUser`/`setUser`, the "protected view" of a
server state (the fields the privileged commands change), the downstream backlog measure, event classes,
and the behaviour of the data path (`sendChunkOrDataless` and everything below it, the sweep, the top of the
loop) with respect to them.
-/
namespace Iodine.C03L
open Iodine Iodine.Server Iodine.Gen

/-! ### get / set -/

theorem getUser_setUser (s : Srv) (u v : Nat) (f : Session → Session) :
    getUser (setUser s u f) v = if v = u ∧ u < s.users.length then f (getUser s u) else getUser s v := by
  unfold getUser setUser
  simp only [List.getD_eq_getElem?_getD, List.getElem?_modify]
  by_cases h : u = v
  · subst h
    by_cases h2 : u < s.users.length
    · simp [h2]
    · simp [h2]
  · have : ¬ (v = u ∧ u < s.users.length) := fun hh => h hh.1.symm
    simp [h, this]

theorem getUser_setUser_ne (s : Srv) {u v : Nat} (f : Session → Session) (h : v ≠ u) :
    getUser (setUser s u f) v = getUser s v := by
  rw [getUser_setUser]; simp [h]

theorem getUser_setUser_self (s : Srv) {u : Nat} (f : Session → Session) (h : u < s.users.length) :
    getUser (setUser s u f) u = f (getUser s u) := by
  rw [getUser_setUser]; simp [h]

theorem setUser_of_ge (s : Srv) {u : Nat} (f : Session → Session) (h : s.users.length ≤ u) :
    setUser s u f = s := by
  unfold setUser
  have : s.users.modify u f = s.users := by
    apply List.ext_getElem?
    intro j
    rw [List.getElem?_modify]
    by_cases hj : u = j
    · subst hj; simp [List.getElem?_eq_none h]
    · simp [hj]
  rw [this]

@[simp] theorem setUser_cfg (s : Srv) (u : Nat) (f : Session → Session) : (setUser s u f).cfg = s.cfg := rfl
@[simp] theorem setUser_now (s : Srv) (u : Nat) (f : Session → Session) : (setUser s u f).now = s.now := rfl
@[simp] theorem setUser_rand (s : Srv) (u : Nat) (f : Session → Session) : (setUser s u f).rand = s.rand := rfl
@[simp] theorem setUser_fw (s : Srv) (u : Nat) (f : Session → Session) : (setUser s u f).fw = s.fw := rfl
@[simp] theorem setUser_length (s : Srv) (u : Nat) (f : Session → Session) :
    (setUser s u f).users.length = s.users.length := by
  simp [setUser]

/-- a slot outside the table reads as the all-zero slot -/
theorem getUser_of_ge (s : Srv) {u : Nat} (h : s.users.length ≤ u) : getUser s u = Session.zero 0 := by
  unfold getUser
  simp [List.getD_eq_getElem?_getD, List.getElem?_eq_none h]

theorem lt_length_of_active {s : Srv} {u : Nat} (h : (getUser s u).active = true) : u < s.users.length := by
  apply Classical.byContradiction
  intro hn
  rw [getUser_of_ge s (Nat.le_of_not_lt hn)] at h
  simp [Session.zero] at h

/-! ### the protected view -/

/-- the fields of a slot that only the privileged commands (and the allocation by `V`) may change -/
structure Prot where
  active : Bool
  authenticated : Bool
  authenticatedRaw : Bool
  disabled : Bool
  seed : Nat
  tunIp : Nat
  host : Addr
  encoder : Enc
  downenc : Nat
  lazy : Bool
  fragsize : Nat
  conn : Conn
deriving DecidableEq

def prot (x : Session) : Prot :=
  ⟨x.active, x.authenticated, x.authenticatedRaw, x.disabled, x.seed, x.tunIp, x.host, x.encoder, x.downenc,
   x.lazy, x.fragsize, x.conn⟩

/-- configuration, clock and the protected fields of every slot -/
def view (s : Srv) : Config × Nat × List Prot := (s.cfg, s.now, s.users.map prot)

theorem view_setUser (s : Srv) (u : Nat) (f : Session → Session) (h : ∀ x, prot (f x) = prot x) :
    view (setUser s u f) = view s := by
  unfold view setUser
  simp only [Prod.mk.injEq, true_and]
  apply List.ext_getElem?
  intro j
  simp only [List.getElem?_map, List.getElem?_modify]
  cases hj : s.users[j]? with
  | none => simp
  | some x =>
    by_cases hu : u = j
    · simp [hu, h]
    · simp [hu]

theorem prot_getUser_of_view {s s' : Srv} (h : view s' = view s) (v : Nat) :
    prot (getUser s' v) = prot (getUser s v) := by
  unfold view at h
  simp only [Prod.mk.injEq] at h
  have h3 := congrArg (fun l => l[v]?) h.2.2
  simp only [List.getElem?_map] at h3
  unfold getUser
  simp only [List.getD_eq_getElem?_getD]
  cases h1 : s'.users[v]? <;> cases h2 : s.users[v]? <;> simp [h1, h2] at h3 ⊢
  exact h3

theorem cfg_of_view {s s' : Srv} (h : view s' = view s) : s'.cfg = s.cfg := by
  unfold view at h; simp only [Prod.mk.injEq] at h; exact h.1

theorem now_of_view {s s' : Srv} (h : view s' = view s) : s'.now = s.now := by
  unfold view at h; simp only [Prod.mk.injEq] at h; exact h.2.1

theorem length_of_view {s s' : Srv} (h : view s' = view s) : s'.users.length = s.users.length := by
  unfold view at h; simp only [Prod.mk.injEq] at h
  have := congrArg List.length h.2.2
  simpa using this

/-! ### the downstream backlog -/

/-- number of downstream packets a slot holds: the one in flight plus the queued ones -/
def backlog (x : Session) : Nat := x.oqFilled + (if x.outpacket.len > 0 then 1 else 0)

/-- no slot's backlog is larger in `s'` than in `s` -/
def MLe (s s' : Srv) : Prop := ∀ v, backlog (getUser s' v) ≤ backlog (getUser s v)

theorem MLe.refl (s : Srv) : MLe s s := fun _ => Nat.le_refl _

theorem MLe.trans {a b c : Srv} (h1 : MLe a b) (h2 : MLe b c) : MLe a c :=
  fun v => Nat.le_trans (h2 v) (h1 v)

theorem MLe.set (s : Srv) (u : Nat) (f : Session → Session)
    (h : backlog (f (getUser s u)) ≤ backlog (getUser s u)) : MLe s (setUser s u f) := by
  intro v
  rw [getUser_setUser]
  split
  · next hc => rw [hc.1]; exact h
  · exact Nat.le_refl _

/-! ### event classes -/

/-- an answer produced by the data path: tagged with the session it carries data for -/
def ChunkEv (e : Event) : Prop :=
  match e with
  | .ans _ _ _ _ _ _ tag => tag ≠ .ctrl
  | _ => False

/-! ### the data path preserves the protected view -/

/-- discharge `view (setUser s u f) = view s` for a structure-update `f` -/
macro "vset" : tactic => `(tactic| (apply view_setUser; intro x; rfl))

/-- rewrite one `view (setUser s u f)` to `view s` -/
macro "vstep" : tactic => `(tactic| rw [view_setUser _ _ _ (by intro x; rfl)])

@[simp] theorem view_startNewOutpacket (s : Srv) (u : Nat) (d : List Nat) (n : Nat) :
    view (startNewOutpacket s u d n) = view s := by
  unfold startNewOutpacket; vset

@[simp] theorem view_saveToOutpacketq (s : Srv) (u : Nat) (d : List Nat) (n : Nat) :
    view (saveToOutpacketq s u d n).1 = view s := by
  unfold saveToOutpacketq
  simp only []
  split
  · rfl
  · vset

@[simp] theorem view_getFromOutpacketq (s : Srv) (u : Nat) :
    view (getFromOutpacketq s u).1 = view s := by
  unfold getFromOutpacketq
  simp only []
  split
  · rfl
  · vstep; simp

@[simp] theorem view_saveToDnscache (s : Srv) (u : Nat) (q : Query) (a : List Nat) :
    view (saveToDnscache s u q a) = view s := by
  unfold saveToDnscache
  split
  · rfl
  · vset

@[simp] theorem view_saveToQmemPingOrData (s : Srv) (u : Nat) (q : Query) :
    view (saveToQmemPingOrData s u q) = view s := by
  unfold saveToQmemPingOrData
  simp only []
  split
  · split
    · rfl
    · split
      · rfl
      · vset
  · split
    · rfl
    · vset

@[simp] theorem view_setUser_dropOut (s : Srv) (u : Nat) : view (setUser s u dropOut) = view s := by
  apply view_setUser; intro x; rfl

@[simp] theorem view_scDropResent (s : Srv) (u : Nat) : view (scDropResent s u) = view s := by
  unfold scDropResent
  simp only []
  split
  · simp
  · rfl

@[simp] theorem view_scPrepare (s : Srv) (u : Nat) : view (scPrepare s u) = view s := by
  unfold scPrepare
  split
  · vset
  · rfl

@[simp] theorem view_sendChunkOrDataless (s : Srv) (u : Nat) (w : QSel) :
    view (sendChunkOrDataless s u w).1.1 = view s := by
  unfold sendChunkOrDataless
  simp only []
  have hw : ∀ (s : Srv) (q : Query), view (setUser s u fun y => w.set y q) = view s := by
    intro s q; apply view_setUser; intro x; cases w <;> rfl
  split
  · simp [hw]
  · simp [hw]

@[simp] theorem view_sendWaiting (s : Srv) (u : Nat) : view (sendWaiting s u).1 = view s := by
  unfold sendWaiting
  simp only []
  split
  · simp
  · split
    · simp
    · rfl

@[simp] theorem view_tunnelTun (s : Srv) (f : List Nat) : view (tunnelTun s f).1 = view s := by
  unfold tunnelTun
  split
  · rfl
  · split
    · rfl
    · split
      · rfl
      · simp only []
        split
        · split
          · simp
          · simp
        · rfl

@[simp] theorem view_deliverToUser (s : Srv) (t : Nat) (d : List Nat) (n : Nat) :
    view (deliverToUser s t d n).1 = view s := by
  unfold deliverToUser
  simp only []
  split
  · split
    · simp
    · simp
  · rfl

@[simp] theorem view_handleFullPacket (s : Srv) (u : Nat) : view (handleFullPacket s u).1 = view s := by
  unfold handleFullPacket
  simp only []
  vstep
  split
  · split
    · split
      · rfl
      · simp
    · rfl
  · rfl

@[simp] theorem view_processDownstreamAck (s : Srv) (u : Nat) (a b : Int) :
    view (processDownstreamAck s u a b) = view s := by
  unfold processDownstreamAck
  simp only []
  split
  · rfl
  · split
    · rfl
    · split
      · rfl
      · split
        · simp only [view_getFromOutpacketq]; vstep; vstep
        · vstep

theorem view_rememberDuplicate {s s' : Srv} {u : Nat} {q : Query} (h : rememberDuplicate s u q = some s') :
    view s' = view s := by
  unfold rememberDuplicate at h
  simp only [] at h
  split at h
  · cases h; vset
  · split at h
    · cases h; vset
    · cases h

@[simp] theorem view_saveQuery (s : Srv) (u : Nat) (q : Query) : view (saveQuery s u q) = view s := by
  unfold saveQuery; vset

@[simp] theorem view_pingFresh (s : Srv) (u : Nat) (q : Query) (un : List Nat) :
    view (pingFresh s u q un).1 = view s := by
  unfold pingFresh
  simp only []
  split <;> split <;> split <;> simp

@[simp] theorem view_dataStepQs (s : Srv) (u : Nat) : view (dataStepQs s u).1.1 = view s := by
  unfold dataStepQs
  split <;> simp

@[simp] theorem view_dataStepQ (s : Srv) (u : Nat) (a b c : Bool) : view (dataStepQ s u a b c).1.1 = view s := by
  unfold dataStepQ
  simp only []
  split
  · split
    · simp
    · vset
  · rfl

@[simp] theorem view_dataStepFinal (s : Srv) (u : Nat) (a b c : Bool) : view (dataStepFinal s u a b c).1 = view s := by
  unfold dataStepFinal
  simp only []
  split
  · simp
  · split
    · split
      · vset
      · simp
    · rfl

theorem view_setUser_at (s : Srv) (u : Nat) (f : Session → Session)
    (h : prot (f (getUser s u)) = prot (getUser s u)) : view (setUser s u f) = view s := by
  unfold view setUser
  simp only [Prod.mk.injEq, true_and]
  apply List.ext_getElem?
  intro j
  simp only [List.getElem?_map, List.getElem?_modify]
  cases hj : s.users[j]? with
  | none => simp
  | some x =>
    by_cases hu : u = j
    · subst hu
      have : getUser s u = x := by unfold getUser; simp [List.getD_eq_getElem?_getD, hj]
      rw [this] at h
      simp [h]
    · simp [hu]

theorem prot_dataStore (x : Session) (p : List Nat) : prot (dataStore x p) = prot x := rfl

theorem prot_dataUpstream (x : Session) (a b : Nat) : prot (dataUpstream x a b).1 = prot x := by
  unfold dataUpstream
  split
  · rfl
  · split
    · rfl
    · split <;> rfl

@[simp] theorem view_dataFresh (s : Srv) (u : Nat) (q : Query) (inb : List Nat) :
    view (dataFresh s u q inb).1 = view s := by
  unfold dataFresh
  simp only []
  simp only [view_dataStepFinal, view_saveQuery, view_dataStepQ, view_dataStepQs]
  split
  · simp only [view_handleFullPacket]
    rw [view_setUser_at]
    · simp
    · split
      · rw [prot_dataStore, prot_dataUpstream]
      · rw [prot_dataUpstream]
  · rw [view_setUser_at]
    · simp
    · split
      · rw [prot_dataStore, prot_dataUpstream]
      · rw [prot_dataUpstream]

/-! ### `sendChunkOrDataless`: backlog and events -/

theorem mle_getFromOutpacketq (s : Srv) (u : Nat) : MLe s (getFromOutpacketq s u).1 := by
  intro v
  unfold getFromOutpacketq
  simp only []
  split
  · exact Nat.le_refl _
  · next h =>
    unfold startNewOutpacket
    rw [getUser_setUser]
    split
    · next hc =>
      obtain ⟨rfl, hl⟩ := hc
      rw [getUser_setUser_self _ _ (by simpa using hl)]
      unfold backlog
      simp only []
      split <;> split <;> omega
    · rw [getUser_setUser]
      split
      · next h1 h2 => exact absurd ⟨h2.1, by simpa using h2.2⟩ h1
      · exact Nat.le_refl _

theorem mle_dropOut (s : Srv) (u : Nat) : MLe s (setUser s u dropOut) := by
  apply MLe.set
  unfold backlog dropOut
  simp only []
  split <;> omega

theorem mle_scDropResent (s : Srv) (u : Nat) : MLe s (scDropResent s u) := by
  unfold scDropResent
  simp only []
  split
  · exact (mle_dropOut s u).trans (mle_getFromOutpacketq _ u)
  · exact MLe.refl s

theorem mle_scPrepare (s : Srv) (u : Nat) : MLe s (scPrepare s u) := by
  unfold scPrepare
  split
  · apply MLe.set; exact Nat.le_refl _
  · exact MLe.refl s

theorem mle_saveToDnscache (s : Srv) (u : Nat) (q : Query) (a : List Nat) : MLe s (saveToDnscache s u q a) := by
  unfold saveToDnscache
  split
  · exact MLe.refl s
  · apply MLe.set; exact Nat.le_refl _

theorem mle_saveToQmemPingOrData (s : Srv) (u : Nat) (q : Query) : MLe s (saveToQmemPingOrData s u q) := by
  unfold saveToQmemPingOrData
  simp only []
  split
  · split
    · exact MLe.refl s
    · split
      · exact MLe.refl s
      · apply MLe.set; exact Nat.le_refl _
  · split
    · exact MLe.refl s
    · apply MLe.set; exact Nat.le_refl _

theorem mle_scCore (s : Srv) (u : Nat) (w : QSel) (q : Query) (pkt : List Nat) :
    MLe s (setUser (saveToDnscache (saveToQmemPingOrData s u q) u q pkt) u fun y => w.set y { q with id := 0 }) := by
  apply (mle_saveToQmemPingOrData s u q).trans
  apply (mle_saveToDnscache _ u q pkt).trans
  apply MLe.set
  cases w <;> exact Nat.le_refl _

theorem mle_sendChunkOrDataless (s : Srv) (u : Nat) (w : QSel) : MLe s (sendChunkOrDataless s u w).1.1 := by
  unfold sendChunkOrDataless
  simp only []
  have h1 : MLe s (scPrepare (scDropResent s u) u) := (mle_scDropResent s u).trans (mle_scPrepare _ u)
  split
  · exact ((h1.trans (mle_scCore _ u w _ _)).trans (mle_dropOut _ u)).trans (mle_getFromOutpacketq _ u)
  · exact h1.trans (mle_scCore _ u w _ _)

theorem chunkEv_scAnswer (q : Query) (pkt : List Nat) (dn u : Nat) : ∀ e ∈ (scAnswer q pkt dn u).2, ChunkEv e := by
  unfold scAnswer
  split
  · intro e he
    simp only [List.mem_cons, List.not_mem_nil, or_false] at he
    rcases he with rfl | rfl <;> simp [ChunkEv, writeDns]
  · intro e he
    simp only [List.mem_cons, List.not_mem_nil, or_false] at he
    subst he; simp [ChunkEv, writeDns]

theorem chunkEv_sendChunkOrDataless (s : Srv) (u : Nat) (w : QSel) :
    ∀ e ∈ (sendChunkOrDataless s u w).1.2, ChunkEv e := by
  unfold sendChunkOrDataless
  simp only []
  split <;> exact chunkEv_scAnswer _ _ _ _

/-! ### harmless events, quiet results -/

/-- an event that is none of: a tun write, a raw DATA frame, an `I` answer (answer to an `i`/`I` query whose data
starts with 'I'), a VACK (answer to a `v`/`V` query whose data starts with "VACK") -/
def Harmless : Event → Prop
  | .ans _ _ _ _ name data tag =>
      tag = .ctrl →
        ¬ ((name.getD 0 0 = 73 ∨ name.getD 0 0 = 105) ∧ data.head? = some 73) ∧
        ¬ ((name.getD 0 0 = 86 ∨ name.getD 0 0 = 118) ∧ data.take 4 = ascii "VACK")
  | .raw _ bytes => bytes.getD 3 0 &&& 240 ≠ 32
  | .tunw _ => False
  | _ => True

/-- an event that is not a data-path answer (an answer tagged with the session it carries tunnel data for) -/
def NoChunk : Event → Prop
  | .ans _ _ _ _ _ _ tag => tag = .ctrl
  | _ => True

theorem Harmless.of_chunkEv {e : Event} (h : ChunkEv e) : Harmless e := by
  cases e <;> simp_all [ChunkEv, Harmless]

/-- a result that changed no protected field, enlarged no backlog and emitted only harmless events -/
structure Quiet (s : Srv) (r : Res) : Prop where
  view : view r.1 = view s
  mle : MLe s r.1
  evs : ∀ e ∈ r.2, Harmless e

theorem Quiet.refl_nil (s : Srv) : Quiet s (s, []) := ⟨rfl, MLe.refl s, by simp⟩

theorem Quiet.andThen {s : Srv} {r : Res} {f : Srv → Res} (h1 : Quiet s r) (h2 : Quiet r.1 (f r.1)) :
    Quiet s (andThen r f) := by
  refine ⟨?_, ?_, ?_⟩
  · simp only [Server.andThen]; rw [h2.view, h1.view]
  · exact h1.mle.trans h2.mle
  · intro e he
    simp only [Server.andThen, List.mem_append] at he
    rcases he with he | he
    · exact h1.evs e he
    · exact h2.evs e he

theorem quiet_sendChunkOrDataless (s : Srv) (u : Nat) (w : QSel) : Quiet s (sendChunkOrDataless s u w).1 :=
  ⟨view_sendChunkOrDataless s u w, mle_sendChunkOrDataless s u w,
   fun e he => Harmless.of_chunkEv (chunkEv_sendChunkOrDataless s u w e he)⟩

theorem quiet_sweepFrom : ∀ (n i : Nat) (s : Srv), Quiet s (sweepFrom n i s) := by
  intro n
  induction n with
  | zero => intro i s; exact Quiet.refl_nil s
  | succ n ih =>
    intro i s
    unfold sweepFrom
    simp only []
    apply Quiet.andThen
    · split
      · exact quiet_sendChunkOrDataless s i .qs
      · exact Quiet.refl_nil s
    · exact ih _ _

theorem quiet_sweep (s : Srv) : Quiet s (sweep s) := quiet_sweepFrom _ _ _

/-! ### top of the loop -/

theorem getD_clearNewFrom (now created : Nat) : ∀ (l : List Session) (i v : Nat) (d : Session),
    ∃ b, (clearNewFrom now created l i).getD v d = { l.getD v d with qsNew := b } := by
  intro l
  induction l with
  | nil => intro i v d; exact ⟨d.qsNew, by simp [clearNewFrom]⟩
  | cons x xs ih =>
    intro i v d
    cases v with
    | zero =>
      simp only [clearNewFrom, List.getD_cons_zero]
      split
      · exact ⟨false, rfl⟩
      · exact ⟨x.qsNew, rfl⟩
    | succ v =>
      simp only [clearNewFrom, List.getD_cons_succ]
      exact ih (i + 1) v d

theorem length_clearNewFrom (now created : Nat) : ∀ (l : List Session) (i : Nat),
    (clearNewFrom now created l i).length = l.length := by
  intro l
  induction l with
  | nil => intro i; rfl
  | cons x xs ih => intro i; simp [clearNewFrom, ih]

/-- the state a handler sees: after the top of the loop, with the clock of `select`'s return -/
def entry (s : Srv) (now' : Nat) : Srv := { (topOfLoop s).1 with now := now' }

theorem getUser_entry (s : Srv) (now' v : Nat) :
    ∃ b, getUser (entry s now') v = { getUser s v with qsNew := b } := by
  unfold entry topOfLoop getUser
  exact getD_clearNewFrom _ _ _ _ _ _

@[simp] theorem entry_cfg (s : Srv) (now' : Nat) : (entry s now').cfg = s.cfg := rfl
@[simp] theorem entry_now (s : Srv) (now' : Nat) : (entry s now').now = now' := rfl
@[simp] theorem entry_length (s : Srv) (now' : Nat) : (entry s now').users.length = s.users.length := by
  simp [entry, topOfLoop, length_clearNewFrom]

theorem prot_entry (s : Srv) (now' v : Nat) : prot (getUser (entry s now') v) = prot (getUser s v) := by
  obtain ⟨b, hb⟩ := getUser_entry s now' v
  rw [hb]; rfl

theorem backlog_entry (s : Srv) (now' v : Nat) : backlog (getUser (entry s now') v) = backlog (getUser s v) := by
  obtain ⟨b, hb⟩ := getUser_entry s now' v
  rw [hb]; rfl

theorem lastPkt_entry (s : Srv) (now' v : Nat) : (getUser (entry s now') v).lastPkt = (getUser s v).lastPkt := by
  obtain ⟨b, hb⟩ := getUser_entry s now' v
  rw [hb]

/-! ### the iteration in terms of `entry`, `dispatch`, `sweep` -/

theorem next_eq (s : Srv) (st : Step) :
    next s st = (sweep (dispatch (entry s st.now) st.inp (topOfLoop s).2.2).1).1 := by
  unfold next iteration body
  simp only [andThen, entry]
  cases st.inp <;> simp only [] 
  split <;> rfl

theorem mem_body (s : Srv) (inp : Input) (t : Bool) (e : Event) (h : e ∈ (body s inp t).2) :
    e ∈ (dispatch s inp t).2 ∨ e = .sweep ∨ e ∈ (sweep (dispatch s inp t).1).2 ∨ e = .tunskip := by
  have key : ∀ l, e ∈ (dispatch s inp t).2 ++ [Event.sweep] ++ (sweep (dispatch s inp t).1).2 ++ l →
      l = [] ∨ l = [Event.tunskip] →
      e ∈ (dispatch s inp t).2 ∨ e = .sweep ∨ e ∈ (sweep (dispatch s inp t).1).2 ∨ e = .tunskip := by
    intro l hl hl2
    simp only [List.mem_append, List.mem_cons, List.not_mem_nil, or_false] at hl
    rcases hl with ((hl | hl) | hl) | hl
    · exact Or.inl hl
    · exact Or.inr (Or.inl hl)
    · exact Or.inr (Or.inr (Or.inl hl))
    · rcases hl2 with rfl | rfl
      · simp at hl
      · simp at hl; exact Or.inr (Or.inr (Or.inr hl))
  unfold body at h
  simp only [andThen] at h
  cases inp with
  | tun f =>
    simp only [] at h
    split at h
    · exact key [] (by simpa using h) (Or.inl rfl)
    · exact key [Event.tunskip] h (Or.inr rfl)
  | q q => exact key [] (by simpa using h) (Or.inl rfl)
  | rawf a b => exact key [] (by simpa using h) (Or.inl rfl)
  | bind b => exact key [] (by simpa using h) (Or.inl rfl)
  | tick => exact key [] (by simpa using h) (Or.inl rfl)

theorem mem_out (s : Srv) (st : Step) (e : Event) (h : e ∈ out s st) :
    e ∈ (dispatch (entry s st.now) st.inp (topOfLoop s).2.2).2 ∨ e = .sweep ∨
    e ∈ (sweep (dispatch (entry s st.now) st.inp (topOfLoop s).2.2).1).2 ∨ e = .tunskip :=
  mem_body _ _ _ e h

end Iodine.C03L
