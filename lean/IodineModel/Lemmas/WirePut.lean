import IodineModel.Wire.Put
import IodineModel.Wire.DnsEncode
import IodineModel.Lemmas.Strict
/-
Closed forms of the model of read.c `put*` / dns.c `dns_encode*` on their success paths: under "labels
are 1..63 bytes" and "the buffer is large enough" hypotheses every emitter appends an explicit byte string
(written with the reference encodings `encLabels`, `encName`, `be16`, … of Lemmas/Strict.lean).
-/
namespace Iodine.Wire.Put
open Iodine.Wire

/-- `b` with the bytes `l` appended -/
def Buf.app (b : Buf) (l : List Nat) : Buf := ⟨b.bytes ++ l.toArray, b.cap⟩

@[simp] theorem app_pos (b : Buf) (l : List Nat) : (b.app l).pos = b.pos + l.length := by
  simp [Buf.app, Buf.pos]
@[simp] theorem app_cap (b : Buf) (l : List Nat) : (b.app l).cap = b.cap := rfl
@[simp] theorem app_app (b : Buf) (l m : List Nat) : (b.app l).app m = b.app (l ++ m) := by
  simp [Buf.app]
@[simp] theorem app_toList (b : Buf) (l : List Nat) : (b.app l).bytes.toList = b.bytes.toList ++ l := by
  simp [Buf.app]
theorem app_nil (b : Buf) : b.app [] = b := by
  simp [Buf.app]

theorem putbyte_ok (b : Buf) (v : Nat) (h : b.pos < b.cap) : putbyte b v = .ok (b.app [v % 256]) := by
  unfold putbyte Buf.app
  simp only [Buf.pos] at h
  simp [h]

theorem putshort_ok (b : Buf) (v : Nat) (h : b.pos + 2 ≤ b.cap) : putshort b v = .ok (b.app (be16 v)) := by
  unfold putshort
  rw [putbyte_ok b _ (by omega)]
  simp only [R.ok_bind]
  rw [putbyte_ok _ _ (by simp; omega)]
  simp [be16]

theorem putlong_ok (b : Buf) (v : Nat) (h : b.pos + 4 ≤ b.cap) : putlong b v = .ok (b.app (be32 v)) := by
  unfold putlong
  rw [putbyte_ok b _ (by omega)]
  simp only [R.ok_bind]
  rw [putbyte_ok _ _ (by simp; omega)]
  simp only [R.ok_bind]
  rw [putbyte_ok _ _ (by simp; omega)]
  simp only [R.ok_bind]
  rw [putbyte_ok _ _ (by simp; omega)]
  simp [be32]

theorem putdata_ok (b : Buf) (d : List Nat) (h : b.pos + d.length ≤ b.cap) : putdata b d = .ok (b.app d) := by
  unfold putdata Buf.app
  simp only [Buf.pos] at h
  simp [h]

theorem skip_eq (b : Buf) (n : Nat) : b.skip n = b.app (List.replicate n 0) := rfl

theorem set_set_append (p : List Nat) (x y a c : Nat) (l : List Nat) :
    ((p ++ x :: y :: l).set p.length a).set (p.length + 1) c = p ++ a :: c :: l := by
  induction p with
  | nil => simp
  | cons q p ih => simp

theorem set_append2 (A pre : List Nat) (x y c : Nat) (l : List Nat) :
    (A ++ (pre ++ x :: y :: l)).set (A.length + pre.length + 1) c = A ++ (pre ++ x :: c :: l) := by
  have := set_set_append (A ++ pre) x y x c l
  simp only [List.length_append, List.append_assoc] at this
  rw [← this]
  congr 1
  rw [← List.append_assoc, ← List.length_append, List.set_append_right _ _ (Nat.le_refl _)]
  simp

/-- back-patching the two placeholder bytes that follow `pre` -/
theorem patchShort_ok (b : Buf) (pre : List Nat) (x y v : Nat) (l : List Nat)
    (h : b.pos + pre.length + 2 ≤ b.cap) :
    patchShort (b.app (pre ++ x :: y :: l)) (b.pos + pre.length) v = .ok (b.app (pre ++ be16 v ++ l)) := by
  unfold patchShort
  have h1 : b.pos + pre.length + 1 < (b.app (pre ++ x :: y :: l)).cap := by simp; omega
  rw [if_pos h1]
  congr 1
  simp only [Buf.app, Buf.pos]
  congr 1
  apply Array.ext'
  have := set_append2 b.bytes.toList pre (v / 256 % 256) y (v % 256) l
  simp only [Array.length_toList] at this
  simp [be16, this]

theorem patchShort_ok' (b : Buf) (pre : List Nat) (x y : Nat) (l L : List Nat) (at_ v v' : Nat)
    (hL : L = pre ++ x :: y :: l) (hat : at_ = b.pos + pre.length) (hv : v = v')
    (h : b.pos + pre.length + 2 ≤ b.cap) :
    patchShort (b.app L) at_ v = .ok (b.app (pre ++ be16 v' ++ l)) := by
  subst hL hat hv
  exact patchShort_ok b pre x y v l h

@[simp] theorem be16_length (v : Nat) : (be16 v).length = 2 := rfl
@[simp] theorem be32_length (v : Nat) : (be32 v).length = 4 := rfl

/-! ### putname -/

theorem putLabels_ok (ls : List (List Nat)) : ∀ (left : Int) (b : Buf),
    (∀ l ∈ ls, l.length ≤ 63) → (left < 0 ∨ (labLen ls : Int) - 1 ≤ left) → b.pos + labLen ls ≤ b.cap →
    putLabels left b ls = .ok (some (left - labLen ls, b.app (encLabels ls))) := by
  induction ls with
  | nil => intro left b _ _ _; simp [putLabels, app_nil]
  | cons l ls ih =>
    intro left b h63 hleft hcap
    have hl := h63 l (by simp)
    simp only [labLen_cons] at hleft hcap
    unfold putLabels
    rw [if_neg (by omega)]
    rw [putbyte_ok b _ (by omega)]
    simp only [R.ok_bind]
    rw [putdata_ok _ _ (by simp; omega)]
    simp only [R.ok_bind, app_app]
    rw [ih _ _ (fun x hx => h63 x (by simp [hx])) (by omega) (by simp; omega)]
    simp only [app_app, encLabels_cons, labLen_cons]
    have : l.length % 256 = l.length := by omega
    rw [this]
    simp
    omega

/-- `putname` on a host whose `strtok` pieces are all ≤ 63 bytes, with a bound that is large enough (or
"negative") and a buffer that has the room: labels and root byte are appended -/
theorem putname_ok (b : Buf) (left : Int) (host : List Nat)
    (h63 : ∀ l ∈ tokens host, l.length ≤ 63) (hleft : left < 0 ∨ (labLen (tokens host) : Int) - 1 ≤ left)
    (hcap : b.pos + labLen (tokens host) + 1 ≤ b.cap) :
    putname b left host = .ok ((labLen (tokens host) : Int), b.app (encName (tokens host))) := by
  unfold putname
  rw [putLabels_ok _ left b h63 hleft (by omega)]
  simp only [R.ok_bind]
  rw [putbyte_ok _ _ (by simp; omega)]
  simp [encName]
  omega

/-- every piece of `splitDot` accounts for its bytes and one separator -/
theorem splitDot_labLen (s : List Nat) : labLen ((splitDot s).1 :: (splitDot s).2) = s.length + 1 := by
  induction s with
  | nil => simp [splitDot]
  | cons c r ih =>
    simp only [splitDot]
    split
    · simp only [labLen_cons] at ih ⊢; simp; omega
    · simp only [labLen_cons] at ih ⊢; simp; omega

theorem tokens_eq_split (s : List Nat) (h : ∀ l ∈ (splitDot s).1 :: (splitDot s).2, l ≠ []) :
    tokens s = (splitDot s).1 :: (splitDot s).2 := by
  unfold tokens
  rw [List.filter_eq_self]
  intro l hl
  have := h l hl
  cases l with
  | nil => exact absurd rfl this
  | cons a l => rfl

/-! ### puttxtbin -/

/-- the data cut into pieces of 252 bytes (`fuel` ≥ number of pieces) -/
def chunks252 : Nat → List Nat → List (List Nat)
  | 0, _ => []
  | fuel + 1, d => if d.isEmpty then [] else d.take 252 :: chunks252 fuel (d.drop 252)

theorem chunks252_le (fuel : Nat) (d : List Nat) : ∀ s ∈ chunks252 fuel d, s.length ≤ 252 := by
  induction fuel generalizing d with
  | zero => simp [chunks252]
  | succ f ih =>
    intro s hs
    simp only [chunks252] at hs
    split at hs
    · simp at hs
    · simp only [List.mem_cons] at hs
      rcases hs with rfl | hs
      · simp; omega
      · exact ih _ s hs

theorem chunks252_flatten (fuel : Nat) (d : List Nat) (h : d.length ≤ fuel) :
    (chunks252 fuel d).flatten = d := by
  induction fuel generalizing d with
  | zero => simp at h; simp [chunks252, h]
  | succ f ih =>
    simp only [chunks252]
    split
    · rename_i he; simp at he; simp [he]
    · rename_i hne
      have hpos : 0 < d.length := by
        cases d with
        | nil => simp at hne
        | cons a d => simp
      simp only [List.flatten_cons]
      rw [ih _ (by simp; omega), List.take_append_drop]

theorem chunks252_ne_nil (fuel : Nat) (d : List Nat) (h : d ≠ []) : chunks252 (fuel + 1) d ≠ [] := by
  simp only [chunks252]
  cases d with
  | nil => exact absurd rfl h
  | cons a d => simp

theorem chunks252_mem (fuel : Nat) (d : List Nat) : ∀ s ∈ chunks252 fuel d, ∀ x ∈ s, x ∈ d := by
  induction fuel generalizing d with
  | zero => simp [chunks252]
  | succ f ih =>
    intro s hs x hx
    simp only [chunks252] at hs
    split at hs
    · simp at hs
    · simp only [List.mem_cons] at hs
      rcases hs with rfl | hs
      · exact List.mem_of_mem_take hx
      · exact List.mem_of_mem_drop (ih _ s hs x hx)

/-- bytes on the wire: the data and one length byte per started piece of 252 -/
theorem chunks252_labLen (fuel : Nat) (d : List Nat) (h : d.length ≤ fuel) :
    labLen (chunks252 fuel d) = d.length + (d.length + 251) / 252 := by
  induction fuel generalizing d with
  | zero => simp at h; simp [chunks252, h]
  | succ f ih =>
    simp only [chunks252]
    split
    · rename_i he; simp at he; simp [he]
    · rename_i hne
      have hpos : 0 < d.length := by
        cases d with
        | nil => simp at hne
        | cons a d => simp
      simp only [labLen_cons, List.length_take]
      rw [ih _ (by simp; omega)]
      simp only [List.length_drop]
      omega

theorem txtLoop_ok (fuel : Nat) : ∀ (b : Buf) (remain : Int) (d : List Nat) (used : Nat),
    d.length ≤ fuel → (remain < 0 ∨ (labLen (chunks252 fuel d) : Int) ≤ remain) →
    b.pos + labLen (chunks252 fuel d) ≤ b.cap →
    txtLoop fuel b remain d used =
      .ok ((used + labLen (chunks252 fuel d) : Nat), b.app (encLabels (chunks252 fuel d))) := by
  induction fuel with
  | zero =>
    intro b remain d used hd _ _
    simp [txtLoop, chunks252, app_nil]
  | succ f ih =>
    intro b remain d used hd hrem hcap
    unfold txtLoop
    simp only [chunks252] at hrem hcap ⊢
    by_cases he : d.isEmpty
    · simp [he, app_nil]
    · simp only [he] at hrem hcap ⊢
      simp only [Bool.false_eq_true, if_false, labLen_cons, List.length_take] at hrem hcap ⊢
      have hpos : 0 < d.length := by
        cases d with
        | nil => simp at he
        | cons a d => simp
      have hmin : min d.length 252 = min 252 d.length := Nat.min_comm _ _
      rw [hmin]
      have hdrop : d.drop (min 252 d.length) = d.drop 252 := by
        by_cases hle : d.length ≤ 252
        · rw [Nat.min_eq_right hle, List.drop_eq_nil_of_le (Nat.le_refl _), List.drop_eq_nil_of_le hle]
        · rw [Nat.min_eq_left (by omega)]
      have htake : d.take (min 252 d.length) = d.take 252 := by
        by_cases hle : d.length ≤ 252
        · rw [Nat.min_eq_right hle, List.take_of_length_le (Nat.le_refl _), List.take_of_length_le hle]
        · rw [Nat.min_eq_left (by omega)]
      rw [hdrop, htake]
      rw [if_neg (by omega)]
      rw [putbyte_ok b _ (by omega)]
      simp only [R.ok_bind]
      rw [putdata_ok _ _ (by simp; omega)]
      simp only [R.ok_bind, app_app]
      rw [ih _ _ _ _ (by simp; omega) (by omega) (by simp; omega)]
      simp only [app_app, encLabels_cons, List.length_take]
      have : min 252 d.length % 256 = min 252 d.length := by omega
      rw [this]
      simp
      omega

theorem puttxtbin_ok (b : Buf) (remain : Int) (d : List Nat)
    (hrem : remain < 0 ∨ (labLen (chunks252 d.length d) : Int) ≤ remain)
    (hcap : b.pos + labLen (chunks252 d.length d) ≤ b.cap) :
    puttxtbin b remain d =
      .ok ((labLen (chunks252 d.length d) : Nat), b.app (encLabels (chunks252 d.length d))) := by
  unfold puttxtbin
  rw [txtLoop_ok d.length b remain d 0 (Nat.le_refl _) hrem hcap]
  simp

end Iodine.Wire.Put

namespace Iodine.Wire.DnsEncode
open Iodine.Wire Iodine.Wire.Put Iodine.Wire.Strict

theorem checklen_ok (buflen : Nat) (b : Buf) (x : Nat) (h : x + b.pos ≤ buflen) :
    checklen buflen b x = .ok () := by
  unfold checklen
  rw [if_neg (by omega)]

/-- owner (16-bit value), type, class IN, ttl -/
def rrHeadBytes (name ty ttl : Nat) : List Nat := be16 name ++ (be16 ty ++ (be16 1 ++ be32 ttl))

@[simp] theorem rrHeadBytes_length (name ty ttl : Nat) : (rrHeadBytes name ty ttl).length = 10 := rfl

theorem rrHead_ok (b : Buf) (name ty ttl : Nat) (h : b.pos + 10 ≤ b.cap) :
    rrHead b name ty ttl = .ok (b.app (rrHeadBytes name ty ttl)) := by
  unfold rrHead
  rw [putshort_ok b _ (by omega)]
  simp only [R.ok_bind]
  rw [putshort_ok _ _ (by simp; omega)]
  simp only [R.ok_bind]
  rw [putshort_ok _ _ (by simp; omega)]
  simp only [R.ok_bind]
  rw [putlong_ok _ _ (by simp; omega)]
  simp [C_IN, rrHeadBytes]

/-- a record as the encoders emit it: pointer (or other 16-bit value) as owner, fixed part, RDATA -/
def rrBytes (name ty ttl : Nat) (rd : List Nat) : List Nat :=
  be16 name ++ (rrFixed ty 1 ttl rd.length ++ rd)

theorem rrBytes_eq (name ty ttl : Nat) (rd : List Nat) :
    rrBytes name ty ttl rd = rrHeadBytes name ty ttl ++ be16 rd.length ++ rd := by
  simp [rrBytes, rrHeadBytes, rrFixed]

@[simp] theorem rrBytes_length (name ty ttl : Nat) (rd : List Nat) :
    (rrBytes name ty ttl rd).length = 12 + rd.length := by
  simp [rrBytes]; omega

/-- NULL / PRIVATE / other types: raw data -/
theorem ansNull_ok (buflen ty : Nat) (b : Buf) (data : List Nat) (hcap : b.cap = buflen)
    (hfit : b.pos + 12 + data.length ≤ buflen) :
    ansNull buflen ty b data data.length = .ok (b.app (rrBytes namePtr ty 0 data), 1) := by
  unfold ansNull
  rw [checklen_ok _ _ _ (by omega)]
  simp only [R.ok_bind]
  rw [rrHead_ok _ _ _ _ (by omega)]
  simp only [R.ok_bind]
  have hmin : min data.length (buflen - (b.app (rrHeadBytes namePtr ty 0)).pos) = data.length := by
    simp; omega
  rw [hmin, checklen_ok _ _ _ (by simp; omega)]
  simp only [R.ok_bind]
  rw [putshort_ok _ _ (by simp; omega)]
  simp only [R.ok_bind]
  rw [checklen_ok _ _ _ (by simp; omega)]
  simp only [R.ok_bind, List.take_length]
  rw [putdata_ok _ _ (by simp; omega)]
  simp only [R.ok_bind]
  rw [checklen_ok _ _ _ (by simp; omega)]
  simp [rrBytes_eq]

/-- CNAME/A: the answer is a CNAME record whose RDATA is the encoded name `cstr data` -/
theorem ansCname_ok (buflen ty : Nat) (b : Buf) (data : List Nat) (hcap : b.cap = buflen)
    (h63 : ∀ l ∈ tokens (cstr data), l.length ≤ 63)
    (hfit : b.pos + 12 + labLen (tokens (cstr data)) + 1 ≤ buflen) :
    ansCname buflen ty b data =
      .ok (b.app (rrBytes namePtr (if ty = T_A then T_CNAME else ty) 0 (encName (tokens (cstr data)))), 1) := by
  unfold ansCname
  rw [checklen_ok _ _ _ (by omega)]
  simp only [R.ok_bind]
  rw [rrHead_ok _ _ _ _ (by omega)]
  simp only [R.ok_bind, skip_eq, app_app]
  rw [putname_ok _ _ _ h63 (by simp; omega) (by simp; omega)]
  simp only [R.ok_bind, app_app]
  rw [checklen_ok _ _ _ (by simp; omega)]
  simp only [R.ok_bind]
  rw [patchShort_ok' b (rrHeadBytes namePtr (if ty = T_A then T_CNAME else ty) 0) 0 0
    (encName (tokens (cstr data))) _ _ _ (encName (tokens (cstr data))).length
    (by simp [List.replicate]) (by simp) (by simp; omega) (by simp; omega)]
  simp [rrBytes_eq]

/-- TXT: the data in character strings of 252 bytes -/
theorem ansTxt_ok (buflen ty : Nat) (b : Buf) (data : List Nat) (hcap : b.cap = buflen)
    (hfit : b.pos + 12 + labLen (chunks252 data.length data) ≤ buflen) :
    ansTxt buflen ty b data data.length =
      .ok (b.app (rrBytes namePtr ty 0 (encLabels (chunks252 data.length data))), 1) := by
  unfold ansTxt
  rw [checklen_ok _ _ _ (by omega)]
  simp only [R.ok_bind]
  rw [rrHead_ok _ _ _ _ (by omega)]
  simp only [R.ok_bind, skip_eq, app_app, List.take_length]
  rw [puttxtbin_ok _ _ _ (by simp; omega) (by simp; omega)]
  simp only [R.ok_bind, app_app]
  rw [checklen_ok _ _ _ (by simp; omega)]
  simp only [R.ok_bind]
  rw [patchShort_ok' b (rrHeadBytes namePtr ty 0) 0 0
    (encLabels (chunks252 data.length data)) _ _ _ (encLabels (chunks252 data.length data)).length
    (by simp [List.replicate]) (by simp) (by simp; omega) (by simp; omega)]
  simp [rrBytes_eq]

/-- RDATA of one MX / SRV record -/
def mxRData (ty ancnt : Nat) (target : List (List Nat)) : List Nat :=
  be16 (10 * ancnt) ++ ((if ty = T_SRV then be16 10 ++ be16 5060 else []) ++ encName target)

theorem mxRData_length (ty ancnt : Nat) (target : List (List Nat)) :
    (mxRData ty ancnt target).length = (if ty = T_SRV then 6 else 2) + labLen target + 1 := by
  unfold mxRData
  split <;> simp <;> omega

/-- the records of the MX/SRV loop, numbered from `ancnt` -/
def mxRecs (ty : Nat) : Nat → List (List (List Nat)) → List Nat
  | _, [] => []
  | a, t :: r => rrBytes namePtr ty 0 (mxRData ty a t) ++ mxRecs ty (a + 1) r

theorem mxLoop_ok (buflen ty : Nat) (names : List (List Nat)) : ∀ (ancnt : Nat) (b : Buf), b.cap = buflen →
    (∀ nm ∈ names, ∀ l ∈ tokens nm, l.length ≤ 63) →
    b.pos + (mxRecs ty ancnt (names.map tokens)).length ≤ buflen →
    mxLoop buflen ty names ancnt b = .ok (b.app (mxRecs ty ancnt (names.map tokens))) := by
  induction names with
  | nil => intro ancnt b _ _ _; simp [mxLoop, mxRecs, app_nil]
  | cons nm rest ih =>
    intro ancnt b hcap h63 hfit
    have h63n := h63 nm (by simp)
    simp only [List.map_cons, mxRecs, List.length_append, rrBytes_length, mxRData_length] at hfit
    unfold mxLoop
    by_cases hsrv : ty = T_SRV
    · simp only [hsrv, if_true] at hfit ⊢
      rw [checklen_ok _ _ _ (by omega)]
      simp only [R.ok_bind]
      rw [rrHead_ok _ _ _ _ (by omega)]
      simp only [R.ok_bind, skip_eq, app_app]
      rw [checklen_ok _ _ _ (by simp; omega)]
      simp only [R.ok_bind]
      rw [putshort_ok _ _ (by simp; omega)]
      simp only [R.ok_bind, app_app]
      rw [checklen_ok _ _ _ (by simp; omega)]
      simp only [R.ok_bind]
      rw [putshort_ok _ _ (by simp; omega)]
      simp only [R.ok_bind, app_app]
      rw [putshort_ok _ _ (by simp; omega)]
      simp only [R.ok_bind, app_app]
      rw [putname_ok _ _ _ h63n (by simp; omega) (by simp; omega)]
      simp only [R.ok_bind, app_app]
      rw [checklen_ok _ _ _ (by simp; omega)]
      simp only [R.ok_bind]
      rw [patchShort_ok' b (rrHeadBytes namePtr T_SRV 0) 0 0
        (mxRData T_SRV ancnt (tokens nm)) _ _ _ (mxRData T_SRV ancnt (tokens nm)).length
        (by simp [List.replicate, mxRData]) (by simp) (by simp [mxRData]; omega) (by simp; omega)]
      simp only [R.ok_bind]
      rw [hsrv] at ih
      rw [ih (ancnt + 1) _ (by simpa using hcap) (fun n hn => h63 n (by simp [hn]))
        (by simp [mxRData_length]; omega)]
      simp [rrBytes_eq, mxRecs]
    · simp only [hsrv, if_false] at hfit ⊢
      rw [checklen_ok _ _ _ (by omega)]
      simp only [R.ok_bind]
      rw [rrHead_ok _ _ _ _ (by omega)]
      simp only [R.ok_bind, skip_eq, app_app]
      rw [checklen_ok _ _ _ (by simp; omega)]
      simp only [R.ok_bind]
      rw [putshort_ok _ _ (by simp; omega)]
      simp only [R.pure_eq, R.ok_bind, app_app]
      rw [putname_ok _ _ _ h63n (by simp; omega) (by simp; omega)]
      simp only [R.ok_bind, app_app]
      rw [checklen_ok _ _ _ (by simp; omega)]
      simp only [R.ok_bind]
      rw [patchShort_ok' b (rrHeadBytes namePtr ty 0) 0 0
        (mxRData ty ancnt (tokens nm)) _ _ _ (mxRData ty ancnt (tokens nm)).length
        (by simp [List.replicate, mxRData, hsrv]) (by simp) (by simp [mxRData, hsrv]; omega) (by simp; omega)]
      simp only [R.ok_bind]
      rw [ih (ancnt + 1) _ (by simpa using hcap) (fun n hn => h63 n (by simp [hn]))
        (by simp [mxRData_length, hsrv]; omega)]
      simp [rrBytes_eq, mxRecs]

end Iodine.Wire.DnsEncode

namespace Iodine.Wire.DnsEncode
open Iodine.Wire Iodine.Wire.Put Iodine.Wire.Strict

/-- question section: name, type, class IN -/
def qBytes (toks : List (List Nat)) (ty : Nat) : List Nat := encName toks ++ (be16 ty ++ be16 1)

@[simp] theorem qBytes_length (toks : List (List Nat)) (ty : Nat) : (qBytes toks ty).length = labLen toks + 5 := by
  simp [qBytes]

/-- the buffer right after the `memset` and the header assignments -/
def buf0 (hdr : List Nat) (buflen : Nat) : Buf := ⟨hdr.toArray, buflen⟩

@[simp] theorem buf0_cap (hdr : List Nat) (buflen : Nat) : (buf0 hdr buflen).cap = buflen := rfl
@[simp] theorem buf0_pos (id f : Nat) (buflen : Nat) : (buf0 (header id f) buflen).pos = 12 := rfl
@[simp] theorem buf0_pos' (id f o v : Nat) (buflen : Nat) : (buf0 (setCount (header id f) o v) buflen).pos = 12 := by
  simp [buf0, Buf.pos, setCount, header]
@[simp] theorem buf0_toList (hdr : List Nat) (buflen : Nat) : (buf0 hdr buflen).bytes.toList = hdr := rfl

theorem setCount_an (id f an : Nat) (body : List Nat) :
    setCount (header id f ++ body) 6 an = be16 id ++ [f, 0] ++ be16 1 ++ be16 an ++ be16 0 ++ be16 0 ++ body := by
  simp [setCount, header, be16]

theorem setCount_ar (id f an ar : Nat) (body : List Nat) :
    setCount (setCount (header id f) 6 an ++ body) 10 ar =
      be16 id ++ [f, 0] ++ be16 1 ++ be16 an ++ be16 0 ++ be16 ar ++ body := by
  simp [setCount, header, be16]

theorem setCount_ar0 (id f ar : Nat) (body : List Nat) :
    setCount (header id f ++ body) 10 ar = be16 id ++ [f, 0] ++ be16 1 ++ be16 0 ++ be16 0 ++ be16 ar ++ body := by
  simp [setCount, header, be16]

/-- header and question of every message: after them the buffer is `b0.app (qBytes …)` -/
theorem question_ok {buflen : Nat} (b0 : Buf) (hpos : b0.pos = 12) (hcap : b0.cap = buflen) (ty : Nat)
    (qn : List Nat) (h63 : ∀ l ∈ tokens qn, l.length ≤ 63) (hfit : 12 + labLen (tokens qn) + 5 ≤ buflen)
    {α} (f : Buf → R α) :
    (do
      let (_, b) ← putname b0 ((buflen : Int) - b0.pos) qn
      checklen buflen b 4
      let b ← putshort b ty
      let b ← putshort b C_IN
      f b) = f (b0.app (qBytes (tokens qn) ty)) := by
  rw [putname_ok _ _ _ h63 (by rw [hpos]; omega) (by rw [hpos, hcap]; omega)]
  simp only [R.ok_bind]
  rw [checklen_ok _ _ _ (by simp [hpos]; omega)]
  simp only [R.ok_bind]
  rw [putshort_ok _ _ (by simp [hpos]; omega)]
  simp only [R.ok_bind, app_app]
  rw [putshort_ok _ _ (by simp [hpos]; omega)]
  simp [qBytes, C_IN]

/-- `dns_encode(QR_ANSWER)` once the answer branch is known to append `rrs` -/
theorem dnsEncodeAnswer_of (buflen id ty : Nat) (qn data : List Nat) (datalen : Nat)
    (h63 : ∀ l ∈ tokens qn, l.length ≤ 63) (hfit : 12 + labLen (tokens qn) + 5 ≤ buflen)
    (rrs : List Nat) (an : Nat)
    (hbr : ∀ b : Buf, b.cap = buflen → b.pos = 12 + labLen (tokens qn) + 5 →
      ansBranch buflen ty b data datalen = .ok (b.app rrs, an)) :
    dnsEncodeAnswer buflen id ty qn data datalen =
      .ok (be16 id ++ [0x84, 0] ++ be16 1 ++ be16 an ++ be16 0 ++ be16 0 ++ (qBytes (tokens qn) ty ++ rrs)) := by
  unfold dnsEncodeAnswer
  rw [if_neg (by omega)]
  rw [question_ok _ rfl rfl ty qn h63 hfit]
  rw [hbr _ (by simp) (by rw [app_pos, qBytes_length]; simp only [Buf.pos, header]; simp; omega)]
  simp only [R.ok_bind, R.pure_eq, app_app, app_toList]
  rw [setCount_an]

/-- `strtok` drops pieces, so the labels never take more than the string and one separator -/
theorem labLen_tokens_le (s : List Nat) : labLen (tokens s) ≤ s.length + 1 := by
  have h := splitDot_labLen s
  have : ∀ l : List (List Nat), labLen (l.filter (fun w => !w.isEmpty)) ≤ labLen l := by
    intro l
    induction l with
    | nil => simp
    | cons x l ih =>
      simp only [List.filter_cons]
      split
      · simp; omega
      · simp; omega
  have := this ((splitDot s).1 :: (splitDot s).2)
  unfold tokens
  omega

/-- the OPT pseudo-record of the queries: root owner, type 41, class = 4096, ttl = 0x8000, no data -/
def optBytes : List Nat := [0] ++ (rrFixed 41 4096 0x8000 0)

theorem putOpt_ok (b : Buf) (h : b.pos + 11 ≤ b.cap) : putOpt b = .ok (b.app optBytes) := by
  unfold putOpt
  rw [putbyte_ok _ _ (by omega)]
  simp only [R.ok_bind]
  rw [putshort_ok _ _ (by simp; omega)]
  simp only [R.ok_bind, app_app]
  rw [putshort_ok _ _ (by simp; omega)]
  simp only [R.ok_bind, app_app]
  rw [putshort_ok _ _ (by simp; omega)]
  simp only [R.ok_bind, app_app]
  rw [putshort_ok _ _ (by simp; omega)]
  simp only [R.ok_bind, app_app]
  rw [putshort_ok _ _ (by simp; omega)]
  simp only [app_app]
  rfl

/-- `dns_encode(QR_QUERY)` as the client calls it -/
theorem dnsEncodeQuery_ok (buflen id ty : Nat) (edns : Bool) (host : List Nat)
    (h63 : ∀ l ∈ tokens host, l.length ≤ 63)
    (hfit : 12 + (host.length + 2) + 4 + (if edns then 11 else 0) ≤ buflen) :
    dnsEncodeQuery buflen id ty edns host =
      .ok (be16 id ++ [0x01, 0] ++ be16 1 ++ be16 0 ++ be16 0 ++ be16 (if edns then 1 else 0) ++
        (qBytes (tokens host) ty ++ (if edns then optBytes else []))) := by
  have hle := labLen_tokens_le host
  unfold dnsEncodeQuery dnsEncodeQueryL
  rw [if_neg (by omega)]
  have hpos : (⟨(header id 0x01).toArray, buflen⟩ : Buf).pos = 12 := rfl
  simp only [hpos]
  have hmin : min host.length (buflen - 12) = host.length := by omega
  simp only [hmin]
  rw [putname_ok _ _ _ h63 (by omega) (by simp [hpos]; omega)]
  simp only [R.ok_bind]
  rw [checklen_ok _ _ _ (by simp [hpos]; omega)]
  simp only [R.ok_bind]
  rw [putshort_ok _ _ (by simp [hpos]; omega)]
  simp only [R.ok_bind, app_app]
  rw [putshort_ok _ _ (by simp [hpos]; omega)]
  simp only [R.ok_bind, app_app]
  cases edns with
  | false =>
    simp only [Bool.false_eq_true, if_false, R.pure_eq, app_toList]
    simp [header, qBytes, C_IN, be16]
  | true =>
    simp only [if_true] at hfit ⊢
    rw [checklen_ok _ _ _ (by simp [hpos]; omega)]
    simp only [R.ok_bind]
    rw [putOpt_ok _ (by simp [hpos]; omega)]
    simp only [R.ok_bind, R.pure_eq, app_app, app_toList]
    have := setCount_ar0 id 0x01 1 (encName (tokens host) ++ be16 ty ++ be16 C_IN ++ optBytes)
    simp only [List.append_assoc] at this ⊢
    rw [this]
    simp [qBytes, C_IN]

theorem putAddr_ok (b : Buf) (a0 a1 a2 a3 : Nat) (h : b.pos + 4 ≤ b.cap) :
    putAddr b [a0, a1, a2, a3] = .ok (b.app [a0 % 256, a1 % 256, a2 % 256, a3 % 256]) := by
  unfold putAddr
  rw [putbyte_ok _ _ (by omega)]
  simp only [R.ok_bind]
  rw [putbyte_ok _ _ (by simp; omega)]
  simp only [R.ok_bind, app_app]
  rw [putbyte_ok _ _ (by simp; omega)]
  simp only [R.ok_bind, app_app]
  rw [putbyte_ok _ _ (by simp; omega)]
  simp

/-- `dns_encode_a_response` -/
theorem dnsEncodeAResponse_ok (buflen id ty : Nat) (qn : List Nat) (a0 a1 a2 a3 : Nat)
    (h63 : ∀ l ∈ tokens qn, l.length ≤ 63) (hfit : 12 + labLen (tokens qn) + 5 + 16 ≤ buflen) :
    dnsEncodeAResponse buflen id ty qn (some [a0, a1, a2, a3]) =
      .ok (be16 id ++ [0x84, 0] ++ be16 1 ++ be16 1 ++ be16 0 ++ be16 0 ++
        (qBytes (tokens qn) ty ++ rrBytes namePtr ty 3600 [a0 % 256, a1 % 256, a2 % 256, a3 % 256])) := by
  unfold dnsEncodeAResponse
  simp only []
  rw [if_neg (by omega)]
  have hpos : (⟨(setCount (header id 0x84) 6 1).toArray, buflen⟩ : Buf).pos = 12 := by
    simp [Buf.pos, setCount, header]
  have hcap : (⟨(setCount (header id 0x84) 6 1).toArray, buflen⟩ : Buf).cap = buflen := rfl
  rw [question_ok _ hpos rfl ty qn h63 (by omega)]
  rw [checklen_ok _ _ _ (by simp [hpos]; omega)]
  simp only [R.ok_bind]
  rw [rrHead_ok _ _ _ _ (by simp [hpos]; omega)]
  simp only [R.ok_bind, app_app]
  rw [putshort_ok _ _ (by simp [hpos]; omega)]
  simp only [R.ok_bind, app_app]
  rw [checklen_ok _ _ _ (by simp [hpos]; omega)]
  simp only [R.ok_bind]
  rw [putAddr_ok _ _ _ _ _ (by simp [hpos]; omega)]
  simp only [R.ok_bind, R.pure_eq, app_app, app_toList]
  simp [setCount, header, rrBytes_eq, be16]

/-- RDATA of the NS answer: label "ns" and a pointer to offset `12 + dl` -/
def nsRData (dl : Nat) : List Nat := [2, 110, 115] ++ be16 (0xc000 + (12 + dl) % 16384)

/-- the guards of `dns_encode_ns_response` for a name of the form `sub.topdomain` (or `topdomain`) -/
structure NsGuards (qn top : List Nat) : Prop where
  len : top.length ≤ qn.length
  ne1 : qn.length ≠ top.length + 1
  ci : (qn.drop (qn.length - top.length)).map Iodine.Common.toLower = top.map Iodine.Common.toLower
  dot : qn.length - top.length = 0 ∨ qn[qn.length - top.length - 1]? = some 46

/-- common part of `dns_encode_ns_response`: up to and including the NS record -/
theorem nsResponse_prefix (buflen id ty : Nat) (qn top : List Nat) (dest : Option (List Nat))
    (g : NsGuards qn top) (h63 : ∀ l ∈ tokens qn, l.length ≤ 63)
    (hfit : 12 + labLen (tokens qn) + 5 + 17 ≤ buflen) :
    dnsEncodeNsResponse buflen id ty qn top dest =
      (let b := (buf0 (setCount (header id 0x84) 6 1) buflen).app
          (qBytes (tokens qn) ty ++ rrBytes namePtr ty 3600 (nsRData (qn.length - top.length)))
       match dest with
       | none => pure b.bytes.toList
       | some addr => do
         checklen buflen b 12
         let b ← rrHead b (0xc000 + (12 + labLen (tokens qn) + 5 + 12) % 16384) T_A 3600
         let b ← putshort b 4
         checklen buflen b 4
         let b ← putAddr b addr
         pure (setCount b.bytes.toList 10 1)) := by
  unfold dnsEncodeNsResponse
  rw [if_neg (by omega), if_neg (by have := g.len; have := g.ne1; omega)]
  simp only []
  rw [if_neg (by simpa using g.ci),
    if_neg (by rintro ⟨h1, h2⟩; rcases g.dot with h | h; · omega
               · exact h2 h)]
  have hpos : (⟨(setCount (header id 0x84) 6 1).toArray, buflen⟩ : Buf).pos = 12 := by
    simp [Buf.pos, setCount, header]
  have hcap : (⟨(setCount (header id 0x84) 6 1).toArray, buflen⟩ : Buf).cap = buflen := rfl
  rw [question_ok _ hpos rfl ty qn h63 (by omega)]
  rw [checklen_ok _ _ _ (by simp [hpos]; omega)]
  simp only [R.ok_bind]
  rw [rrHead_ok _ _ _ _ (by simp [hpos]; omega)]
  simp only [R.ok_bind, app_app]
  rw [putshort_ok _ _ (by simp [hpos]; omega)]
  simp only [R.ok_bind, app_app]
  rw [checklen_ok _ _ _ (by simp [hpos]; omega)]
  simp only [R.ok_bind]
  rw [putbyte_ok _ _ (by simp [hpos]; omega)]
  simp only [R.ok_bind, app_app]
  rw [putbyte_ok _ _ (by simp [hpos]; omega)]
  simp only [R.ok_bind, app_app]
  rw [putbyte_ok _ _ (by simp [hpos]; omega)]
  simp only [R.ok_bind, app_app]
  rw [putshort_ok _ _ (by simp [hpos]; omega)]
  simp only [R.ok_bind, app_app, app_pos, hpos, qBytes_length, rrHeadBytes_length, be16_length, buf0,
    List.length_append]
  have hl : qBytes (tokens qn) ty ++ rrHeadBytes namePtr ty 3600 ++ be16 5 ++ [2 % 256] ++ [110 % 256] ++
      [115 % 256] ++ be16 (49152 + (12 + (qn.length - top.length)) % 16384) =
      qBytes (tokens qn) ty ++ rrBytes namePtr ty 3600 (nsRData (qn.length - top.length)) := by
    simp [rrBytes_eq, nsRData]
  rw [hl]
  have hn : 12 + (labLen (tokens qn) + 5 + 10 + 2) = 12 + labLen (tokens qn) + 5 + 12 := by omega
  rw [hn]
  rfl

end Iodine.Wire.DnsEncode

/-! ### What has been written stays written: every emitter only appends, or patches bytes it skipped itself -/

namespace Iodine.Wire.Put
open Iodine.Wire

theorem R.bind_eq_ok {α β} (x : R α) (f : α → R β) (r : β) :
    (x >>= f) = .ok r ↔ ∃ a, x = .ok a ∧ f a = .ok r := by
  cases x with
  | ok a => simp
  | ret rv => simp
  | fault e => simp

/-- `p` is a prefix of the bytes written so far -/
def Pre (p : List Nat) (b : Buf) : Prop := p <+: b.bytes.toList

theorem Pre.len {p : List Nat} {b : Buf} (h : Pre p b) : p.length ≤ b.pos := by
  have := List.IsPrefix.length_le h
  simpa [Buf.pos] using this

theorem Pre.app {p : List Nat} {b : Buf} (h : Pre p b) (l : List Nat) :
    Pre p ⟨b.bytes ++ l.toArray, b.cap⟩ := by
  unfold Pre at *
  simp only [Array.toList_append]
  exact List.IsPrefix.trans h (List.prefix_append _ _)

theorem putbyte_pre {p} {b b' : Buf} {v} (h : putbyte b v = .ok b') (hp : Pre p b) : Pre p b' := by
  unfold putbyte at h
  split at h
  · cases h
    have := hp.app [v % 256]
    simpa [Pre] using this
  · cases h

theorem putshort_pre {p} {b b' : Buf} {v} (h : putshort b v = .ok b') (hp : Pre p b) : Pre p b' := by
  unfold putshort at h
  simp only [R.bind_eq_ok] at h
  obtain ⟨b1, h1, h2⟩ := h
  exact putbyte_pre h2 (putbyte_pre h1 hp)

theorem putlong_pre {p} {b b' : Buf} {v} (h : putlong b v = .ok b') (hp : Pre p b) : Pre p b' := by
  unfold putlong at h
  simp only [R.bind_eq_ok] at h
  obtain ⟨b1, h1, b2, h2, b3, h3, h4⟩ := h
  exact putbyte_pre h4 (putbyte_pre h3 (putbyte_pre h2 (putbyte_pre h1 hp)))

theorem putdata_pre {p} {b b' : Buf} {d} (h : putdata b d = .ok b') (hp : Pre p b) : Pre p b' := by
  unfold putdata at h
  split at h
  · cases h; exact hp.app d
  · cases h

theorem skip_pre {p} {b : Buf} (n : Nat) (hp : Pre p b) : Pre p (b.skip n) := hp.app _

theorem patchShort_pre {p} {b b' : Buf} {at_ v} (h : patchShort b at_ v = .ok b') (hp : Pre p b)
    (hat : p.length ≤ at_) : Pre p b' := by
  unfold patchShort at h
  split at h
  · cases h
    unfold Pre at *
    simp only [Array.toList_setIfInBounds]
    obtain ⟨t, ht⟩ := hp
    rw [← ht, List.set_append_right _ _ hat, List.set_append_right _ _ (by omega)]
    exact List.prefix_append _ _
  · cases h


theorem putLabels_pre {p} (ls : List (List Nat)) : ∀ {left : Int} {b : Buf} {left' : Int} {b' : Buf},
    putLabels left b ls = .ok (some (left', b')) → Pre p b → Pre p b' := by
  induction ls with
  | nil => intro left b left' b' h hp; simp only [putLabels] at h; cases h; exact hp
  | cons w ws ih =>
    intro left b left' b' h hp
    unfold putLabels at h
    split at h
    · cases h
    · simp only [R.bind_eq_ok] at h
      obtain ⟨b1, h1, b2, h2, h3⟩ := h
      exact ih h3 (putdata_pre h2 (putbyte_pre h1 hp))

theorem putname_pre {p} {b : Buf} {left : Int} {host} {rv : Int} {b' : Buf}
    (h : putname b left host = .ok (rv, b')) (hp : Pre p b) : Pre p b' := by
  unfold putname at h
  simp only [R.bind_eq_ok] at h
  obtain ⟨r, h1, h2⟩ := h
  cases r with
  | none => simp only at h2; cases h2; exact hp
  | some lb =>
    obtain ⟨l, b1⟩ := lb
    simp only [R.bind_eq_ok] at h2
    obtain ⟨b2, h3, h4⟩ := h2
    cases h4
    exact putbyte_pre h3 (putLabels_pre _ h1 hp)

theorem txtLoop_pre {p} (fuel : Nat) : ∀ {b : Buf} {remain : Int} {d : List Nat} {used : Nat} {rv : Int} {b' : Buf},
    txtLoop fuel b remain d used = .ok (rv, b') → Pre p b → Pre p b' := by
  induction fuel with
  | zero => intro b remain d used rv b' h hp; simp only [txtLoop] at h; cases h; exact hp
  | succ f ih =>
    intro b remain d used rv b' h hp
    unfold txtLoop at h
    split at h
    · cases h; exact hp
    · simp only at h
      split at h
      · cases h; exact hp
      · simp only [R.bind_eq_ok] at h
        obtain ⟨b1, h1, b2, h2, h3⟩ := h
        exact ih h3 (putdata_pre h2 (putbyte_pre h1 hp))

theorem puttxtbin_pre {p} {b : Buf} {remain : Int} {d} {rv : Int} {b' : Buf}
    (h : puttxtbin b remain d = .ok (rv, b')) (hp : Pre p b) : Pre p b' :=
  txtLoop_pre _ h hp

end Iodine.Wire.Put

namespace Iodine.Wire.DnsEncode
open Iodine.Wire Iodine.Wire.Put

theorem rrHead_pre {p} {b b' : Buf} {name ty ttl} (h : rrHead b name ty ttl = .ok b') (hp : Pre p b) :
    Pre p b' := by
  unfold rrHead at h
  simp only [R.bind_eq_ok] at h
  obtain ⟨b1, h1, b2, h2, b3, h3, h4⟩ := h
  exact putlong_pre h4 (putshort_pre h3 (putshort_pre h2 (putshort_pre h1 hp)))

theorem ansCname_pre {p} {buflen ty} {b : Buf} {data} {r : Buf × Nat}
    (h : ansCname buflen ty b data = .ok r) (hp : Pre p b) : Pre p r.1 := by
  unfold ansCname at h
  simp only [R.bind_eq_ok] at h
  obtain ⟨_, _, b1, h1, ⟨rv, b2⟩, h2, _, _, b3, h3, h4⟩ := h
  cases h4
  have hp1 := rrHead_pre h1 hp
  exact patchShort_pre h3 (putname_pre h2 (skip_pre 2 hp1)) hp1.len

theorem ansTxt_pre {p} {buflen ty} {b : Buf} {data datalen} {r : Buf × Nat}
    (h : ansTxt buflen ty b data datalen = .ok r) (hp : Pre p b) : Pre p r.1 := by
  unfold ansTxt at h
  simp only [R.bind_eq_ok] at h
  obtain ⟨_, _, b1, h1, ⟨rv, b2⟩, h2, _, _, b3, h3, h4⟩ := h
  cases h4
  have hp1 := rrHead_pre h1 hp
  exact patchShort_pre h3 (puttxtbin_pre h2 (skip_pre 2 hp1)) hp1.len

theorem ansNull_pre {p} {buflen ty} {b : Buf} {data datalen} {r : Buf × Nat}
    (h : ansNull buflen ty b data datalen = .ok r) (hp : Pre p b) : Pre p r.1 := by
  unfold ansNull at h
  simp only [R.bind_eq_ok] at h
  obtain ⟨_, _, b1, h1, _, _, b2, h2, _, _, b3, h3, _, _, h4⟩ := h
  cases h4
  exact putdata_pre h3 (putshort_pre h2 (rrHead_pre h1 hp))

theorem mxLoop_pre {p} {buflen ty} (names : List (List Nat)) : ∀ {ancnt : Nat} {b b' : Buf},
    mxLoop buflen ty names ancnt b = .ok b' → Pre p b → Pre p b' := by
  induction names with
  | nil => intro ancnt b b' h hp; simp only [mxLoop] at h; cases h; exact hp
  | cons nm rest ih =>
    intro ancnt b b' h hp
    unfold mxLoop at h
    simp only [R.bind_eq_ok] at h
    obtain ⟨_, _, b1, h1, _, _, b2, h2, b3, h3, ⟨rv, b4⟩, h4, _, _, b5, h5, h6⟩ := h
    have hp1 := rrHead_pre h1 hp
    have hp2 := putshort_pre h2 (skip_pre 2 hp1)
    have hp3 : Pre p b3 := by
      split at h3
      · simp only [R.bind_eq_ok] at h3
        obtain ⟨_, _, c1, g1, g2⟩ := h3
        exact putshort_pre g2 (putshort_pre g1 hp2)
      · cases h3; exact hp2
    exact ih h6 (patchShort_pre h5 (putname_pre h4 hp3) hp1.len)

theorem ansBranch_pre {p} {buflen ty} {b : Buf} {data datalen} {r : Buf × Nat}
    (h : ansBranch buflen ty b data datalen = .ok r) (hp : Pre p b) : Pre p r.1 := by
  unfold ansBranch at h
  split at h
  · exact ansCname_pre h hp
  · split at h
    · unfold ansMx at h
      simp only [R.bind_eq_ok] at h
      obtain ⟨b1, h1, h2⟩ := h
      cases h2
      exact mxLoop_pre _ h1 hp
    · split at h
      · exact ansTxt_pre h hp
      · exact ansNull_pre h hp

end Iodine.Wire.DnsEncode

