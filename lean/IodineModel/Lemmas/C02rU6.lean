import IodineModel.Props.C02
import IodineModel.Lemmas.C02rU5
/-
C02 phase 3 / d7up — NON-VACUITY of `up_packet_imm_desync7_multi`, `up_packet_imm_desync_false_ack`,
`recovery_after_giveups_up_imm_full` on the demo session `exW` (`Props/C02.lean`), and the finding as concrete witnesses.

`staleUp u w d pre`: the client's upstream number moved on by `d`, the server's reassembly buffer holding `pre` below the write
offset with last fragment number 0 — the state after fragment 0 (`pre`) of a longer packet was stored and acknowledged, the
rest of that packet and `d` (mod 8) further packets given up during an upstream blackout.  Every `QuietImm` state gives
`QuietImmD … d 0` states this way (`quietImmD_staleUp`).  On the executable model the same state is REACHED from `exW` by:
offer `demoFrame 9 100` (3 fragments), `deliverUp deliverDown`, 9 blackout steps, 7 give-up runs (report; 83 events).
-/
namespace Iodine.C02L
open Iodine Iodine.Gen Iodine.World

def staleUp (u : Nat) (w : W) (d : Nat) (pre : List Nat) : W :=
  { w with
    cs := { w.cs with c := { w.cs.c with outpkt := { w.cs.c.outpkt with seqno := (w.cs.c.outpkt.seqno + d) % 8 } } },
    srv := putUser w.srv u
      { Server.getUser w.srv u with inpacket := { (Server.getUser w.srv u).inpacket with
          fragment := 0, data := pre, len := pre.length, offset := pre.length } } }

theorem staleUp_user {P : Par} {w : W} (hq : QuietImm P w) (d : Nat) (pre : List Nat) :
    Server.getUser (staleUp P.u w d pre).srv P.u =
      { Server.getUser w.srv P.u with inpacket := { (Server.getUser w.srv P.u).inpacket with
          fragment := 0, data := pre, len := pre.length, offset := pre.length } } :=
  getUser_putUser_self _ _ _ hq.srv.solo.lt

theorem quietImmD_staleUp {P : Par} {w : W} (hq : QuietImm P w) (d : Nat) (pre : List Nat) :
    QuietImmD P d 0 (staleUp P.u w d pre) := by
  have hg := staleUp_user hq d pre
  have hc := hq.cst
  have hx := hq.srv.x
  refine ⟨hq.ph, ?_, hq.idleC, hq.up, hq.down, ?_, ?_, ?_, ?_, ?_, ?_, ?_⟩
  · exact ⟨hc.running, hc.conn, hc.imm, hc.uid, hc.uch, hc.td, hc.L, hc.enc, hc.ty, hc.cid, hc.cmc, hc.alive,
      by show 0 ≤ (w.cs.c.outpkt.seqno + (d : Int)) % 8 ∧ (w.cs.c.outpkt.seqno + (d : Int)) % 8 < 8; omega,
      hc.iseq, hc.ifrag, hc.seed⟩
  · refine ⟨hq.srv.solo.putUser _, hq.srv.td, ?_, ?_, ?_⟩
    · rw [hg]
      exact ⟨hx.active, hx.auth, hx.enabled, hx.conn, hx.enc, hx.oseq, hx.ofrag, hx.iseq,
        by show (0 : Int) ≤ 0 ∧ (0 : Int) < 16; omega⟩
    · rw [hg]; exact hq.srv.host
    · rw [hg]; exact hq.srv.live
  · rw [hg]; exact ⟨hq.idle.out, hq.idle.q, hq.idle.qs, hq.idle.lazy⟩
  · rw [hg]; exact hq.oq
  · rw [hg]
    show (w.cs.c.outpkt.seqno + (d : Int)) % 8 = ((Server.getUser w.srv P.u).inpacket.seqno + (d : Int)) % 8
    rw [hq.syncu]
  · rw [hg]
    show (Server.getUser w.srv P.u).outpacket.seqno = (w.cs.c.inpkt.seqno + ((0 : Nat) : Int)) % 8
    rw [hq.syncd]
    have := hc.iseq
    omega
  · rw [hg]; exact hq.aged.congr rfl rfl rfl rfl
  · rw [hg]; exact hq.paged.congr rfl rfl rfl rfl

theorem staleUp_tun (u : Nat) (w : W) (d : Nat) (pre : List Nat) :
    (staleUp u w d pre).tunS = w.tunS ∧ (staleUp u w d pre).tunC = w.tunC := ⟨rfl, rfl⟩

/-! ### the demo session -/

open Iodine.C02 (exP exW exP_ok ex_quiescent ex_acceptable)

theorem exW_tuns_rU : exW.tunS = [] ∧ exW.tunC = [] := by decide +kernel

theorem exW_tunIp_rU : (Server.getUser exW.srv exP.u).tunIp = 0x0a000002 := by decide +kernel

/-- the 2-fragment demo frame: 55 compressed bytes, fragments of 54 and 1 -/
theorem ex30_frags_rU : fragLen exP (0x5a :: demoFrame 9 30) = 54 ∧ upFrags exP ((demoFrame 9 30).length + 1) (0x5a :: demoFrame 9 30) = 2 := by
  decide +kernel

/-- the one-fragment demo frame -/
theorem ex4_frags_rU : fragLen exP (0x5a :: demoFrame 9 4) = (0x5a :: demoFrame 9 4).length := by decide +kernel

/-- **(a) empty buffer** (`staleUp … []` = `shiftUp exW 7`'s server): the 2-fragment frame is falsely acknowledged and swallowed
in the 5 steps of a clean transfer; nothing is written (the byte after the first fragment is 206, not the marker); in step. -/
example : ∃ w', promptSteps 0 5 (step (staleUp 0 exW 7 []) (.offerC (demoFrame 9 30))) = some w' ∧ QuietImm exP w' ∧
    w'.tunS = [] ∧ w'.tunC = [] := by
  have hq := quietImmD_staleUp ex_quiescent 7 []
  have hu := staleUp_user ex_quiescent 7 []
  obtain ⟨w', h1, h2, h3, h4, _⟩ := up_packet_imm_desync7_multi_empty exP_ok hq (by rw [hu]) (by rw [hu]; rfl) (by rw [hu]; rfl)
    (demoFrame 9 30) (by decide) (by decide) (by unfold Codec.Bytes; decide) (by rw [ex30_frags_rU.1]; decide)
    (by rw [ex30_frags_rU.2]; decide) (by rw [ex30_frags_rU.1]; decide)
  rw [ex30_frags_rU.2] at h1
  exact ⟨w', h1, h2, by rw [h3, (staleUp_tun _ _ _ _).1, exW_tuns_rU.1], by rw [h4, (staleUp_tun _ _ _ _).2, exW_tuns_rU.2]⟩

/-- **(b) one fragment**: lost silently in 2 steps. -/
example : ∃ w', promptSteps 0 2 (step (staleUp 0 exW 7 []) (.offerC (demoFrame 9 4))) = some w' ∧ QuietImm exP w' ∧
    w'.tunS = [] ∧ w'.tunC = [] := by
  have hq := quietImmD_staleUp ex_quiescent 7 []
  have hu := staleUp_user ex_quiescent 7 []
  obtain ⟨w', h1, h2, h3, h4, _⟩ := up_packet_imm_desync_false_ack exP_ok hq (by rw [hu]) (demoFrame 9 4) (by decide) (by decide)
    (by unfold Codec.Bytes; decide) ex4_frags_rU
  exact ⟨w', h1, h2, by rw [h3, (staleUp_tun _ _ _ _).1, exW_tuns_rU.1], by rw [h4, (staleUp_tun _ _ _ _).2, exW_tuns_rU.2]⟩

/-- the first fragment (54 bytes) of the compressed 3-fragment frame `demoFrame 9 100` -/
def stalePre : List Nat := (0x5a :: demoFrame 9 100).take 54

/-- what the server writes when the tail of `demoFrame 9 30` is appended to `stalePre`: the tun header, then bytes 4 … 52 of
the OLD frame (its IP header announces 120 bytes) and the last byte of the NEW one -/
def chimeraFrame : List Nat := [0, 0, 8, 0] ++ ((demoFrame 9 100).take 53).drop 4 ++ [206]

theorem ex_chimera_rU (I : Server.Packet) (hd : I.data = stalePre) (ho : I.offset = 54) :
    chimeraUp exP I (demoFrame 9 30) = 0x5a :: ((demoFrame 9 100).take 53 ++ [206]) ∧
    junkUp (chimeraUp exP I (demoFrame 9 30)) = [chimeraFrame] := by
  have h : chimeraUp exP I (demoFrame 9 30) = 0x5a :: ((demoFrame 9 100).take 53 ++ [206]) := by
    unfold chimeraUp
    rw [hd, ho, ex30_frags_rU.1]
    decide
  refine ⟨h, ?_⟩
  rw [h, junkUp_marker _ (by decide) (by decide)]
  decide

/-- **(d) THE CHIMERA**: the buffer holds the first fragment of an abandoned packet; the 2-fragment frame offered at distance 7
is falsely acknowledged, its second fragment is appended to the stale bytes, and after the 5 steps of a clean transfer the
server has written ONE frame that nobody sent: the head of the old packet with the tail of the new one.  Both ends are
quiescent and in step; the client believes `demoFrame 9 30` delivered. -/
theorem desync7_chimera_delivered :
    ∃ w', promptSteps 0 5 (step (staleUp 0 exW 7 stalePre) (.offerC (demoFrame 9 30))) = some w' ∧ QuietImm exP w' ∧
      w'.tunS = [chimeraFrame] ∧ w'.tunC = [] ∧ chimeraFrame ≠ tunImage (demoFrame 9 30) ∧ chimeraFrame ≠ tunImage (demoFrame 9 100) := by
  have hq := quietImmD_staleUp ex_quiescent 7 stalePre
  have hu := staleUp_user ex_quiescent 7 stalePre
  have hlen : stalePre.length = 54 := by decide
  have hch := ex_chimera_rU (Server.getUser (staleUp exP.u exW 7 stalePre).srv exP.u).inpacket (by rw [hu]) (by rw [hu]; exact hlen)
  obtain ⟨w', h1, h2, h3, h4, _⟩ := up_packet_imm_desync7_multi exP_ok hq (by rw [hu]) ⟨by rw [hu], by rw [hu]; exact Nat.le_refl _⟩
    (demoFrame 9 30) (by decide) (by decide) (by unfold Codec.Bytes; decide) (by rw [ex30_frags_rU.1]; decide)
    (by rw [ex30_frags_rU.2]; decide)
    ⟨by rw [hu, ex30_frags_rU.1]; show stalePre.length + _ ≤ _; rw [hlen]; decide, by
      intro fr hfr _
      rw [hch.1] at hfr
      have : fr = (demoFrame 9 100).take 53 ++ [206] := by
        simp only [Server.uncompress] at hfr
        split at hfr
        · exact (Option.some.inj hfr).symm
        · cases hfr
      subst this
      rw [hu]
      show _ ≠ (Server.getUser exW.srv exP.u).tunIp
      rw [exW_tunIp_rU]
      decide⟩
  rw [ex30_frags_rU.2] at h1
  rw [hch.2] at h3
  refine ⟨w', h1, h2, by rw [h3, (staleUp_tun _ _ _ _).1, exW_tuns_rU.1]; rfl, by rw [h4, (staleUp_tun _ _ _ _).2, exW_tuns_rU.2],
    by decide, by decide⟩

/-- **(c) recovery, every case**: four packets given up (`d = 4`), the server's last fragment number 0, empty buffer.  Of five
packets offered next, three are dropped with resends (`d = 4, 5, 6`), the fourth — two fragments — is FALSELY ACKNOWLEDGED at
`d = 7` and swallowed, the fifth is delivered; quiescent and in step. -/
theorem desync_recovery_with_false_ack :
    (offerAllC 0 40 (staleUp 0 exW 4 []) [demoFrame 9 4, demoFrame 9 5, demoFrame 9 6, demoFrame 9 30, demoFrame 9 30]).tunS =
      [demoFrame 9 30] ∧
    QuietImm exP (offerAllC 0 40 (staleUp 0 exW 4 []) [demoFrame 9 4, demoFrame 9 5, demoFrame 9 6, demoFrame 9 30, demoFrame 9 30]) := by
  have hq := quietImmD_staleUp ex_quiescent 4 []
  have hu := staleUp_user ex_quiescent 4 []
  have hip : (Server.getUser (staleUp exP.u exW 4 []).srv exP.u).tunIp = (Server.getUser exW.srv exP.u).tunIp := by rw [hu]
  have hok : ∀ f ∈ [demoFrame 9 4, demoFrame 9 5, demoFrame 9 6, demoFrame 9 30, demoFrame 9 30],
      UpFrameOk exP (Server.getUser exW.srv exP.u).tunIp f := by
    intro f hf
    simp only [List.mem_cons, List.not_mem_nil, or_false] at hf
    rcases hf with rfl | rfl | rfl | rfl | rfl
    · exact ⟨by decide, by decide, by unfold Codec.Bytes; decide, by decide +kernel, by decide +kernel⟩
    · exact ⟨by decide, by decide, by unfold Codec.Bytes; decide, by decide +kernel, by decide +kernel⟩
    · exact ⟨by decide, by decide, by unfold Codec.Bytes; decide, by decide +kernel, by decide +kernel⟩
    · exact ex_acceptable.1
    · exact ex_acceptable.1
  have hrec := recovery_after_giveups_up_imm_full exP_ok 40 (by omega)
    [demoFrame 9 4, demoFrame 9 5, demoFrame 9 6, demoFrame 9 30, demoFrame 9 30] 4 (staleUp exP.u exW 4 []) hq (by omega)
    (by intro f hf; rw [hip]; exact hok f hf)
    (by
      intro _ _
      refine ⟨⟨by rw [hu], by rw [hu]; exact Nat.le_refl _⟩, ?_⟩
      intro f hf _
      have : f = demoFrame 9 30 := by simpa using hf.symm
      subst this
      have hch : chimeraUp exP (Server.getUser (staleUp exP.u exW 4 []).srv exP.u).inpacket (demoFrame 9 30) = [206] := by
        rw [chimeraUp_empty _ _ _ (by rw [hu]; rfl), ex30_frags_rU.1]; decide
      refine ⟨by rw [hu, ex30_frags_rU.1]; decide, ?_⟩
      intro fr hfr
      rw [hch] at hfr
      simp [Server.uncompress] at hfr)
  have hj : junkAt exP (Server.getUser (staleUp exP.u exW 4 []).srv exP.u).inpacket 4
      [demoFrame 9 4, demoFrame 9 5, demoFrame 9 6, demoFrame 9 30, demoFrame 9 30] = [] := by
    apply junkAt_nil_of_empty (by rw [hu]; rfl)
    intro f hf
    have : f = demoFrame 9 30 := by simpa using hf.symm
    subst this
    rw [ex30_frags_rU.1]; decide
  have hl4 : lostUp 4 = 4 := by decide
  have hi : tunImage (demoFrame 9 30) = demoFrame 9 30 := by decide
  refine ⟨?_, hrec.2.2 (by rw [hl4]; decide)⟩
  have h1 := hrec.1
  rw [hj, hl4, (staleUp_tun _ _ _ _).1, exW_tuns_rU.1] at h1
  exact h1.trans (by show [tunImage (demoFrame 9 30)] = _; rw [hi])

end Iodine.C02L
