import IodineModel.Lemmas.C02s1
/-
A server with a single client: slot `u` is the session, every other slot is inactive (`Solo`).  What the loops over all
slots (`clearNewFrom`, `timeoutFrom`, `allUsersWaitingToSend`, `sweepFrom`, `findUserByIp`) reduce to.
-/
namespace Iodine.C02L
open Iodine Iodine.Gen Iodine.Server

structure Solo (u : Nat) (s : Srv) : Prop where
  lt : u < s.users.length
  created : s.cfg.createdUsers = s.users.length
  others : ∀ v, v ≠ u → (getUser s v).active = false

theorem Solo.putUser {u : Nat} {s : Srv} (h : Solo u s) (x : Session) : Solo u (putUser s u x) :=
  ⟨by simpa using h.lt, by simpa using h.created, fun v hv => by rw [getUser_putUser_ne _ _ _ _ hv]; exact h.others v hv⟩

theorem Solo.withNow {u : Nat} {s : Srv} (h : Solo u s) (n : Nat) : Solo u { s with now := n } :=
  ⟨h.lt, h.created, h.others⟩

theorem live_inactive (x : Session) (now : Nat) (h : x.active = false) : live x now = false := by
  simp [live, h]

/-- "every element but the one at absolute index `u` is inactive", for a tail starting at absolute index `i` -/
def OthersOff (u i : Nat) (l : List Session) : Prop := ∀ j (h : j < l.length), i + j ≠ u → (l[j]).active = false

theorem OthersOff.tail {u i : Nat} {x : Session} {l : List Session} (h : OthersOff u i (x :: l)) : OthersOff u (i + 1) l := by
  intro j hj hne
  have := h (j + 1) (by simp; omega) (by omega)
  simpa using this

theorem OthersOff.head {u i : Nat} {x : Session} {l : List Session} (h : OthersOff u i (x :: l)) (hi : i ≠ u) : x.active = false := by
  have := h 0 (by simp) (by omega)
  simpa using this

theorem Solo.othersOff {u : Nat} {s : Srv} (h : Solo u s) : OthersOff u 0 s.users := by
  intro j hj hne
  have := h.others j (by omega)
  simpa [getUser, List.getD_eq_getElem?_getD, List.getElem?_eq_getElem hj] using this

/-! ### top of the loop -/

theorem clearNewFrom_off (now created u : Nat) : ∀ (l : List Session) (i : Nat), u < i → OthersOff u i l →
    clearNewFrom now created l i = l := by
  intro l
  induction l with
  | nil => intros; rfl
  | cons x xs ih =>
    intro i hi ho
    unfold clearNewFrom
    rw [ih (i + 1) (by omega) ho.tail, live_inactive x now (ho.head (by omega))]
    simp

theorem clearNewFrom_solo (now created u : Nat) (hu : u < created) : ∀ (l : List Session) (i : Nat), i ≤ u → OthersOff u i l →
    clearNewFrom now created l i = l.modify (u - i) (fun x => if live x now then { x with qsNew := false } else x) := by
  intro l
  induction l with
  | nil => intros; simp [clearNewFrom]
  | cons x xs ih =>
    intro i hi ho
    unfold clearNewFrom
    by_cases hiu : i = u
    · subst hiu
      rw [clearNewFrom_off now created i xs (i + 1) (by omega) ho.tail]
      simp [hu]
    · rw [ih (i + 1) (by omega) ho.tail, live_inactive x now (ho.head hiu)]
      have : u - i = (u - (i + 1)) + 1 := by omega
      rw [this]
      simp

theorem topOfLoop_state {u : Nat} {s : Srv} (h : Solo u s) :
    (topOfLoop s).1 = putUser s u (if live (getUser s u) s.now then { getUser s u with qsNew := false } else getUser s u) := by
  unfold topOfLoop
  simp only
  rw [clearNewFrom_solo s.now s.cfg.createdUsers u (by rw [h.created]; exact h.lt) s.users 0 (Nat.zero_le _) h.othersOff]
  rw [← setUser_eq_putUser s u (fun x => if live x s.now then { x with qsNew := false } else x)]
  rfl

theorem timeoutFrom_off (now created u : Nat) : ∀ (l : List Session) (i : Nat), u < i → OthersOff u i l →
    timeoutFrom now created l i = 10000000 := by
  intro l
  induction l with
  | nil => intros; rfl
  | cons x xs ih =>
    intro i hi ho
    unfold timeoutFrom
    rw [ih (i + 1) (by omega) ho.tail, live_inactive x now (ho.head (by omega))]
    simp

theorem timeoutFrom_solo (now created u : Nat) (hu : u < created) : ∀ (l : List Session) (i : Nat), i ≤ u → u - i < l.length →
    OthersOff u i l →
    timeoutFrom now created l i =
      if live (l.getD (u - i) (Session.zero 0)) now ∧ (l.getD (u - i) (Session.zero 0)).qs.id ≠ 0 then 20000 else 10000000 := by
  intro l
  induction l with
  | nil => intro i _ hl; simp at hl
  | cons x xs ih =>
    intro i hi hl ho
    unfold timeoutFrom
    by_cases hiu : i = u
    · subst hiu
      rw [timeoutFrom_off now created i xs (i + 1) (by omega) ho.tail]
      simp [hu]
    · rw [ih (i + 1) (by omega) (by simp at hl; omega) ho.tail, live_inactive x now (ho.head hiu)]
      have : u - i = (u - (i + 1)) + 1 := by omega
      rw [this]
      simp

theorem topOfLoop_timeout {u : Nat} {s : Srv} (h : Solo u s) :
    (topOfLoop s).2.1 = if live (getUser s u) s.now ∧ (getUser s u).qs.id ≠ 0 then 20000 else 10000000 := by
  unfold topOfLoop
  simp only
  rw [timeoutFrom_solo s.now s.cfg.createdUsers u (by rw [h.created]; exact h.lt) s.users 0 (Nat.zero_le _) (by simpa using h.lt)
    h.othersOff]
  rfl

theorem any_off (u : Nat) (p : Session → Bool) (now : Nat) : ∀ (l : List Session) (i : Nat), u < i → OthersOff u i l →
    l.any (fun x => live x now && p x) = false := by
  intro l
  induction l with
  | nil => intros; rfl
  | cons x xs ih =>
    intro i hi ho
    simp only [List.any_cons, ih (i + 1) (by omega) ho.tail, live_inactive x now (ho.head (by omega))]
    simp

theorem any_solo (u : Nat) (p : Session → Bool) (now : Nat) : ∀ (l : List Session) (i : Nat), i ≤ u → u - i < l.length →
    OthersOff u i l →
    l.any (fun x => live x now && p x) =
      (live (l.getD (u - i) (Session.zero 0)) now && p (l.getD (u - i) (Session.zero 0))) := by
  intro l
  induction l with
  | nil => intro i _ hl; simp at hl
  | cons x xs ih =>
    intro i hi hl ho
    by_cases hiu : i = u
    · subst hiu
      simp only [List.any_cons, any_off i p now xs (i + 1) (by omega) ho.tail]
      simp
    · simp only [List.any_cons, ih (i + 1) (by omega) (by simp at hl; omega) ho.tail, live_inactive x now (ho.head hiu)]
      have : u - i = (u - (i + 1)) + 1 := by omega
      rw [this]
      simp

theorem allWaiting_solo {u : Nat} {s : Srv} (h : Solo u s) :
    allUsersWaitingToSend s =
      !(live (getUser s u) s.now &&
        ((getUser s u).conn == .rawUdp || ((getUser s u).conn == .dnsNull && decide ((getUser s u).oqFilled < 1)))) := by
  unfold allUsersWaitingToSend
  rw [any_solo u (fun x => x.conn == .rawUdp || (x.conn == .dnsNull && decide (x.oqFilled < 1))) s.now s.users 0 (Nat.zero_le _)
    (by simpa using h.lt) h.othersOff]
  rfl

/-! ### find_user_by_ip -/

theorem findUserByIpFrom_off (now ip u : Nat) : ∀ (l : List Session) (i : Nat), u < i → OthersOff u i l →
    Users.findUserByIpFrom now ip (l.map toSlot) i = none := by
  intro l
  induction l with
  | nil => intros; rfl
  | cons x xs ih =>
    intro i hi ho
    simp only [List.map_cons, Users.findUserByIpFrom]
    rw [ih (i + 1) (by omega) ho.tail]
    simp [toSlot, ho.head (by omega)]

theorem findUserByIpFrom_solo (now ip u : Nat) : ∀ (l : List Session) (i : Nat), i ≤ u → u - i < l.length → OthersOff u i l →
    Users.findUserByIpFrom now ip (l.map toSlot) i =
      (let x := l.getD (u - i) (Session.zero 0)
       if x.active ∧ x.authenticated ∧ ¬ x.disabled ∧ x.lastPkt + 60 > now ∧ ip = x.tunIp then some u else none) := by
  intro l
  induction l with
  | nil => intro i _ hl; simp at hl
  | cons x xs ih =>
    intro i hi hl ho
    simp only [List.map_cons, Users.findUserByIpFrom]
    by_cases hiu : i = u
    · subst hiu
      rw [findUserByIpFrom_off now ip i xs (i + 1) (by omega) ho.tail]
      simp [toSlot]
    · rw [ih (i + 1) (by omega) (by simp at hl; omega) ho.tail]
      have : u - i = (u - (i + 1)) + 1 := by omega
      rw [this]
      simp [toSlot, ho.head hiu]

theorem findUserByIp_solo {u : Nat} {s : Srv} (h : Solo u s) (ip : Nat) :
    findUserByIp s ip =
      (let x := getUser s u
       if x.active ∧ x.authenticated ∧ ¬ x.disabled ∧ x.lastPkt + 60 > s.now ∧ ip = x.tunIp then some u else none) := by
  unfold findUserByIp Users.findUserByIp
  rw [findUserByIpFrom_solo s.now ip u s.users 0 (Nat.zero_le _) (by simpa using h.lt) h.othersOff]
  rfl

/-! ### the sweep -/

/-- what the sweep does for slot `u` -/
def sweepOne (s : Srv) (u : Nat) : Res :=
  let x := getUser s u
  if live x s.now ∧ x.qs.id ≠ 0 ∧ x.conn = .dnsNull ∧ !x.qsNew then (sendChunkOrDataless s u .qs).1 else (s, [])

theorem sweepFrom_off (u : Nat) : ∀ (n i : Nat) (s : Srv), u < i → (∀ v, v ≠ u → (getUser s v).active = false) →
    sweepFrom n i s = (s, []) := by
  intro n
  induction n with
  | zero => intros; rfl
  | succ n ih =>
    intro i s hi ho
    unfold sweepFrom
    simp only [live_inactive _ s.now (ho i (by omega))]
    simp [andThen, ih (i + 1) s (by omega) ho]

theorem sweepFrom_solo (u : Nat) : ∀ (n i : Nat) (s : Srv), i ≤ u → u < i + n → Solo u s →
    sweepFrom n i s = sweepOne s u := by
  intro n
  induction n with
  | zero => intro i s h1 h2; omega
  | succ n ih =>
    intro i s hi hn hs
    unfold sweepFrom
    by_cases hiu : i = u
    · subst hiu
      simp only [andThen, sweepOne]
      split
      · rw [sendChunkOrDataless_eq _ _ _ hs.lt]
        simp only
        rw [sweepFrom_off i n (i + 1) _ (by omega) (hs.putUser _).others]
        simp
      · rw [sweepFrom_off i n (i + 1) s (by omega) hs.others]
        simp
    · simp only [live_inactive _ s.now (hs.others i hiu)]
      simp [andThen, ih (i + 1) s (by omega) (by omega) hs]

theorem sweep_solo {u : Nat} {s : Srv} (h : Solo u s) : sweep s = sweepOne s u := by
  unfold sweep
  exact sweepFrom_solo u _ 0 s (Nat.zero_le _) (by rw [h.created]; simpa using h.lt) h

end Iodine.C02L
