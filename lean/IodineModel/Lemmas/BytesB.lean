import IodineModel.Server.Bytes
import IodineModel.Lemmas.BytesA
import IodineModel.Lemmas.SrvC14e
import IodineModel.Lemmas.WireRead
/-
Helper lemmas for the byte-level server, part B:

* a predicate on keys `(address, id, name, type)` that holds for every query the server holds back and for the
  arriving query holds for every `ans` event of the iteration and for every query held back afterwards
  (from the multiset balance of Lemmas/SrvC14*.lean);
* what `dns_decode(QR_QUERY)` guarantees about id and type;
* `encodeEvents`: every `tx` is `write_dns` of an `ans` event, every `nsa`/`fwd` is built from the arriving query.
-/
namespace Iodine.BytesL
open Iodine Iodine.Server Iodine.C14L Iodine.Gen

/-! ### keys of held and answered queries -/

/-- every query held back in `s` (with its remembered duplicate) satisfies `P` -/
def KeyInv (P : Key → Prop) (s : Srv) : Prop := ∀ k ∈ held s, P k

/-- every `write_dns` of the events goes to a key satisfying `P` -/
def AnsInv (P : Key → Prop) (evs : List Event) : Prop :=
  ∀ dst id ty dn name data tag, Event.ans dst id ty dn name data tag ∈ evs → P (dst, id, name, ty)

theorem ans_mem_keysOf (arr : Query) {evs : List Event} {dst : Addr} {id ty dn : Nat} {name data : List Nat} {tag : Tag}
    (h : Event.ans dst id ty dn name data tag ∈ evs) : (dst, id, name, ty) ∈ keysOf arr evs :=
  List.mem_flatMap.2 ⟨_, h, by simp [evKeys]⟩

theorem keys_of_le {P : Key → Prop} {arr : Query} {evs : List Event} {s' : Srv} {B : List Key}
    (h : Le (keysOf arr evs ++ held s') B) (hB : ∀ k ∈ B, P k) : AnsInv P evs ∧ KeyInv P s' := by
  constructor
  · intro dst id ty dn name data tag he
    exact hB _ (mem_of_count_le (h _) (List.mem_append_left _ (ans_mem_keysOf arr he)))
  · intro k hk
    exact hB _ (mem_of_count_le (h _) (List.mem_append_right _ hk))

/-- a query of a type `tunnel_dns` does not hand to `handle_null_request` leaves the stored queries alone and is never
answered by `write_dns` -/
theorem tunnelDns_nontunnel (s : Srv) (q : Query) (hty : ¬ TunnelType q.type) :
    (tunnelDns s q).1.users = s.users ∧
      ∀ e ∈ (tunnelDns s q).2, (∃ d, e = Event.nsa d) ∨ (∃ d, e = Event.fwd d) := by
  unfold tunnelDns
  split
  · simp
  · split
    · extract_lets n
      split
      · unfold handleARequest
        extract_lets dest
        split <;> simp
      · split
        · unfold handleARequest
          extract_lets dest
          split <;> simp
        · split
          · rename_i h
            exfalso
            apply hty
            unfold TunnelType
            simp only [T_NULL, T_PRIVATE, T_CNAME, T_A, T_MX, T_SRV, T_TXT] at h
            omega
          · split
            · unfold handleNsRequest
              split <;> simp
            · simp
    · split
      · simp [forwardQuery]
      · simp

theorem sameQ_users {s s' : Srv} (h : s'.users = s.users) : SameQ s s' := sameQ_of_users h

/-- One iteration and a predicate on keys: if it holds for everything held back before and for the arriving query
(when that is a tunnel-type query), it holds for every `write_dns` of the iteration and for everything held back
afterwards. -/
theorem iteration_keys (P : Key → Prop) (s : Srv) (inp : Input) (now' : Nat)
    (hwf : ∀ q, inp = .q q → q.id2 = 0)
    (hP : ∀ q, inp = .q q → TunnelType q.type → P (keyOf q))
    (hinv : KeyInv P s) :
    AnsInv P (out s ⟨inp, now'⟩) ∧ KeyInv P (next s ⟨inp, now'⟩) := by
  by_cases hq : ∃ q, inp = .q q
  · obtain ⟨q, rfl⟩ := hq
    by_cases hty : TunnelType q.type
    · apply keys_of_le (iteration_q_le s q now' (hwf q rfl))
      intro k hk
      rcases List.mem_append.1 hk with hk | hk
      · exact hinv k hk
      · simp only [List.mem_singleton] at hk
        subst hk
        exact hP q rfl hty
    · -- no `write_dns` in the handler, the sweep answers held queries only
      have hnt := tunnelDns_nontunnel { (topOfLoop s).1 with now := now' } q hty
      have hsq : SameQ s (tunnelDns { (topOfLoop s).1 with now := now' } q).1 :=
        (sameQ_topOfLoop s now').trans (sameQ_users hnt.1)
      have hsw := sweepFrom_bal Query.zero [] (tunnelDns { (topOfLoop s).1 with now := now' } q).1.cfg.createdUsers 0
        (tunnelDns { (topOfLoop s).1 with now := now' } q).1
      have hle := hsw.le
      simp only [List.append_nil] at hle
      have hk := keys_of_le (P := P) hle (by rw [hsq.held_eq]; exact hinv)
      constructor
      · intro dst id ty dn name data tag he
        have he' : Event.ans dst id ty dn name data tag ∈
            ((tunnelDns { (topOfLoop s).1 with now := now' } q).2 ++ [Event.sweep]) ++
              (sweepFrom (tunnelDns { (topOfLoop s).1 with now := now' } q).1.cfg.createdUsers 0
                (tunnelDns { (topOfLoop s).1 with now := now' } q).1).2 := he
        rcases List.mem_append.1 he' with h1 | h1
        · rcases List.mem_append.1 h1 with h2 | h2
          · rcases hnt.2 _ h2 with ⟨d, hd⟩ | ⟨d, hd⟩ <;> cases hd
          · simp at h2
        · exact hk.1 dst id ty dn name data tag h1
      · exact hk.2
  · have hne : ∀ q, inp ≠ .q q := fun q h => hq ⟨q, h⟩
    exact keys_of_le (iteration_other_le Query.zero s inp now' hne) hinv

theorem keyInv_start (P : Key → Prop) (cfg : Config) (rnd : List Nat) : KeyInv P (start cfg rnd) := by
  intro k hk
  rw [held_start] at hk
  cases hk

/-! ### what `dns_decode(QR_QUERY)` guarantees -/

open Iodine.Wire in
theorem bind_eq_ok {ε α β} {x : Except ε α} {f : α → Except ε β} {c : β} (h : (x >>= f) = .ok c) :
    ∃ a, x = .ok a ∧ f a = .ok c := by
  cases x with
  | error e => cases h
  | ok a => exact ⟨a, rfl, h⟩

open Iodine.Wire in
theorem readHeader_id_lt {b : RxBuf} {hd : Hdr} (h : readHeader b = .ok hd) : hd.id < 65536 := by
  unfold readHeader at h
  obtain ⟨b0, _, h⟩ := bind_eq_ok h
  obtain ⟨b1, _, h⟩ := bind_eq_ok h
  obtain ⟨b2, _, h⟩ := bind_eq_ok h
  obtain ⟨b3, _, h⟩ := bind_eq_ok h
  obtain ⟨b4, _, h⟩ := bind_eq_ok h
  obtain ⟨b5, _, h⟩ := bind_eq_ok h
  obtain ⟨b6, _, h⟩ := bind_eq_ok h
  obtain ⟨b7, _, h⟩ := bind_eq_ok h
  cases h
  exact Nat.lt_succ_of_le Nat.and_le_right

open Iodine.Wire in
theorem readshort_lt {b : RxBuf} {src : Nat} {r : Nat × Nat} (h : readshort b src = .ok r) : r.1 < 65536 := by
  unfold readshort at h
  obtain ⟨p0, _, h⟩ := bind_eq_ok h
  obtain ⟨p1, _, h⟩ := bind_eq_ok h
  cases h
  exact Nat.mod_lt _ (by omega)

open Iodine.Wire in
/-- `q->id` and `q->type` are `unsigned short`s; `q->name` is what `dns_decode` returns the length of -/
theorem dnsDecodeQuery_facts {b : RxBuf} {d : Decoded} (h : dnsDecodeQuery b = .ok d) :
    d.id < 65536 ∧ d.type < 65536 := by
  unfold dnsDecodeQuery at h
  split at h
  · cases h; exact ⟨by simp, by simp⟩
  · obtain ⟨hd, hhd, h⟩ := bind_eq_ok h
    split at h
    · cases h; exact ⟨by simp, by simp⟩
    · split at h
      · cases h; exact ⟨by simp, by simp⟩
      · obtain ⟨x, _, h⟩ := bind_eq_ok h
        obtain ⟨dd, w⟩ := x
        dsimp only at h
        split at h
        · cases h; exact ⟨by simp, by simp⟩
        split at h
        · cases h; exact ⟨by simp, by simp⟩
        · obtain ⟨t, ht, h⟩ := bind_eq_ok h
          obtain ⟨c, _, h⟩ := bind_eq_ok h
          cases h
          exact ⟨readHeader_id_lt hhd, readshort_lt ht⟩

end Iodine.BytesL
