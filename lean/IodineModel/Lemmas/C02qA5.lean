import IodineModel.Lemmas.C02qA4
/- C02 phase 2, "aged" (5): third and fourth stage of the run of `C02qA3` (kernel evaluation). -/
namespace Iodine.C02L
open Iodine Iodine.World

set_option maxRecDepth 100000 in
theorem qa_stageC1 : run qaWB qaSegC1 = qaWC1 := by decide +kernel

set_option maxRecDepth 100000 in
theorem qa_stageC2 : run qaWC1 qaSegC2 = qaWC := by decide +kernel

theorem qa_stageC : run qaWB qaSegC = qaWC := by
  unfold qaSegC
  rw [run_append, qa_stageC1, qa_stageC2]

end Iodine.C02L
