import IodineModel.Lemmas.Hs
/-
Lemmas about the handshake step machine, part 2: where `system()` is called.  Every continuation function of
`Client/Handshake.lean` only APPENDS queries / raw frames to the events it is handed; the one place that produces
`sys` events is the loop body of `handshake_login` (`loginGot`), and there they are the commands
`Shell.loginStep` builds from the reply just received.
-/
namespace Iodine.Client
open Iodine Iodine.Gen

def isSys : CEvent → Bool
  | .sys _ => true
  | _ => false

def NoSys (l : List CEvent) : Prop := ∀ e ∈ l, isSys e = false

theorem nosys_nil : NoSys [] := by intro e h; cases h

theorem nosys_append {a b : List CEvent} (ha : NoSys a) (hb : NoSys b) : NoSys (a ++ b) := by
  intro e h
  rcases List.mem_append.mp h with h | h
  · exact ha e h
  · exact hb e h

/-- the events of `o` are `evs` followed by events that are not `system()` calls -/
def EvsOk (evs : List CEvent) (o : HOut) : Prop := ∃ l, o.2.1 = evs ++ l ∧ NoSys l

theorem EvsOk.done (s : HState) (evs : List CEvent) (rv : Int) : EvsOk evs (s.done evs rv) :=
  ⟨[], by simp [HState.done], nosys_nil⟩

theorem EvsOk.park (s : HState) {r : Res} (evs : List CEvent) (p : HPos) (h : NoSys r.2) : EvsOk evs (s.park r evs p) :=
  ⟨r.2, rfl, h⟩

/-! ### the senders -/

theorem nosys_wireQuery {id ty : Nat} {e : Bool} {h : List Nat} {ev : CEvent} (hw : wireQuery id ty e h = some ev) :
    isSys ev = false := by
  unfold wireQuery at hw
  split at hw
  · split at hw
    · cases hw
    · split at hw <;> (injection hw with hw; subst hw; rfl)
  · cases hw
  · cases hw

theorem nosys_sendQueryPlain (c : Cli) (h : List Nat) : NoSys (sendQueryPlain c h).1.2 := by
  unfold sendQueryPlain
  simp only
  split
  · exact nosys_nil
  · rename_i ev hw
    intro e he
    simp only [List.mem_singleton] at he
    subst he
    exact nosys_wireQuery hw

theorem nosys_sendHandshakeQuery (c : Cli) (p : List Nat) : NoSys (sendHandshakeQuery c p).2 :=
  nosys_sendQueryPlain _ _

theorem nosys_hsSendPacket (c : Cli) (cmd : Nat) (d : List Nat) : NoSys (hsSendPacket c cmd d).2 :=
  nosys_sendQueryPlain _ _

theorem nosys_sendRawUdpLogin (s : HState) (seed : Nat) : NoSys (sendRawUdpLogin s seed).2 := by
  intro e he
  simp only [sendRawUdpLogin, sendRaw, List.mem_singleton] at he
  subst he; rfl

/-! ### the continuation functions, bottom-up -/

theorem evs_hsEnd (s : HState) (evs : List CEvent) : EvsOk evs (hsEnd s evs) := EvsOk.done _ _ _

theorem evs_setFragHead (s : HState) (evs : List CEvent) (f : Int) (i : Nat) : EvsOk evs (setFragHead s evs f i) := by
  unfold setFragHead
  split
  · exact EvsOk.park _ _ _ (by unfold sendSetFragsize; exact nosys_hsSendPacket _ _ _)
  · exact evs_hsEnd _ _

theorem evs_setFragGot (s : HState) (f : Int) (i : Nat) (read : Int) : EvsOk [] (setFragGot s f i read) := by
  unfold setFragGot
  split
  · exact evs_hsEnd _ _
  · exact evs_setFragHead _ _ _ _

theorem evs_setFragEnter (s : HState) (evs : List CEvent) (f : Int) : EvsOk evs (setFragEnter s evs f) :=
  evs_setFragHead _ _ _ _

theorem evs_fragFinish (s : HState) (evs : List CEvent) (m : Int) : EvsOk evs (fragFinish s evs m) := by
  unfold fragFinish
  simp only
  repeat' split
  all_goals first
    | exact evs_setFragEnter _ _ _
    | exact EvsOk.done _ _ _

theorem nosys_sendFragsizeProbe (c : Cli) (f : Nat) : NoSys (sendFragsizeProbe c f).2 := by
  unfold sendFragsizeProbe; exact nosys_sendQueryPlain _ _

theorem evs_fragHead (s : HState) (evs : List CEvent) (pr rg : Nat) (m : Int) (i : Nat) :
    EvsOk evs (fragHead s evs pr rg m i) := by
  unfold fragHead
  simp only
  repeat' split
  all_goals first
    | exact EvsOk.park _ _ _ (nosys_sendFragsizeProbe _ _)
    | exact evs_fragFinish _ _ _

theorem evs_fragGot (s : HState) (pr rg : Nat) (m : Int) (i : Nat) (read : Int) : EvsOk [] (fragGot s pr rg m i read) := by
  unfold fragGot
  simp only
  repeat' split
  all_goals exact evs_fragHead _ _ _ _ _ _

theorem evs_fragEnter (s : HState) (evs : List CEvent) : EvsOk evs (fragEnter s evs) := by
  unfold fragEnter
  simp only
  split
  · exact evs_fragHead _ _ _ _ _ _
  · exact evs_fragFinish _ _ _

theorem evs_afterLazy (s : HState) (evs : List CEvent) : EvsOk evs (afterLazy s evs) := by
  unfold afterLazy
  repeat' split
  all_goals first
    | exact evs_fragEnter _ _
    | exact evs_setFragEnter _ _ _
    | exact EvsOk.done _ _ _

theorem evs_lazyHead (s : HState) (evs : List CEvent) (i : Nat) : EvsOk evs (lazyHead s evs i) := by
  unfold lazyHead
  repeat' split
  all_goals first
    | exact EvsOk.park _ _ _ (by unfold sendLazySwitch; exact nosys_sendHandshakeQuery _ _)
    | exact evs_afterLazy _ _

theorem evs_lazyGot (s : HState) (i : Nat) (read : Int) : EvsOk [] (lazyGot s i read) := by
  unfold lazyGot
  repeat' split
  all_goals first
    | exact evs_afterLazy _ _
    | exact evs_lazyHead _ _ _

theorem evs_afterSwitchDown (s : HState) (evs : List CEvent) : EvsOk evs (afterSwitchDown s evs) := by
  unfold afterSwitchDown
  repeat' split
  all_goals first
    | exact evs_lazyHead _ _ _
    | exact evs_afterLazy _ _
    | exact EvsOk.done _ _ _

theorem evs_switchDownHead (s : HState) (evs : List CEvent) (i : Nat) : EvsOk evs (switchDownHead s evs i) := by
  unfold switchDownHead
  split
  · exact EvsOk.park _ _ _ (nosys_sendHandshakeQuery _ _)
  · exact evs_afterSwitchDown _ _

theorem evs_switchDownGot (s : HState) (i : Nat) (read : Int) : EvsOk [] (switchDownGot s i read) := by
  unfold switchDownGot
  split
  · exact evs_afterSwitchDown _ _
  · exact evs_switchDownHead _ _ _

theorem evs_afterDownenc (s : HState) (evs : List CEvent) : EvsOk evs (afterDownenc s evs) := by
  unfold afterDownenc
  repeat' split
  all_goals first
    | exact evs_switchDownHead _ _ _
    | exact evs_afterSwitchDown _ _
    | exact EvsOk.done _ _ _

theorem evs_downencRet (s : HState) (evs : List CEvent) (d : Nat) : EvsOk evs (downencRet s evs d) :=
  evs_afterDownenc _ _

theorem evs_downencFinish (s : HState) (evs : List CEvent) (a b c : Bool) : EvsOk evs (downencFinish s evs a b c) := by
  unfold downencFinish
  repeat' split
  all_goals exact evs_downencRet _ _ _

theorem nosys_sendDownenctest (c : Cli) (codec : Nat) : NoSys (sendDownenctest c codec).2 := by
  unfold sendDownenctest; exact nosys_sendHandshakeQuery _ _

theorem evs_downencTestRet (s : HState) (evs : List CEvent) (codec : Nat) (b64 ok : Bool) :
    EvsOk evs (downencTestRet s evs codec b64 ok) := by
  unfold downencTestRet
  simp only
  repeat' split
  all_goals first
    | exact evs_downencFinish _ _ _ _ _
    | exact evs_downencRet _ _ _
    | exact EvsOk.park _ _ _ (nosys_sendDownenctest _ _)

theorem evs_downencTestHead (s : HState) (evs : List CEvent) (codec : Nat) (b64 : Bool) (i : Nat) :
    EvsOk evs (downencTestHead s evs codec b64 i) := by
  unfold downencTestHead
  split
  · exact EvsOk.park _ _ _ (nosys_sendDownenctest _ _)
  · exact evs_downencTestRet _ _ _ _ _

theorem evs_downencTestGot (s : HState) (codec : Nat) (b64 : Bool) (i : Nat) (read : Int) :
    EvsOk [] (downencTestGot s codec b64 i read) := by
  unfold downencTestGot
  split
  · exact evs_downencTestRet _ _ _ _ _
  · exact evs_downencTestHead _ _ _ _ _

theorem evs_afterSwitchCodec (s : HState) (evs : List CEvent) : EvsOk evs (afterSwitchCodec s evs) := by
  unfold afterSwitchCodec
  repeat' split
  all_goals first
    | exact evs_downencRet _ _ _
    | exact evs_downencTestHead _ _ _ _ _
    | exact evs_afterDownenc _ _
    | exact EvsOk.done _ _ _

theorem evs_switchCodecHead (s : HState) (evs : List CEvent) (bits i : Nat) : EvsOk evs (switchCodecHead s evs bits i) := by
  unfold switchCodecHead
  split
  · exact EvsOk.park _ _ _ (nosys_sendHandshakeQuery _ _)
  · exact evs_afterSwitchCodec _ _

theorem evs_switchCodecGot (s : HState) (bits i : Nat) (read : Int) : EvsOk [] (switchCodecGot s bits i read) := by
  unfold switchCodecGot
  repeat' split
  all_goals first
    | exact evs_afterSwitchCodec _ _
    | exact evs_switchCodecHead _ _ _ _

theorem evs_upencRet (s : HState) (evs : List CEvent) (u : Nat) : EvsOk evs (upencRet s evs u) := by
  unfold upencRet
  repeat' split
  all_goals first
    | exact evs_switchCodecHead _ _ _ _
    | exact evs_afterSwitchCodec _ _
    | exact EvsOk.done _ _ _

theorem nosys_sendUpenctest (c : Cli) (p : List Nat) : NoSys (sendUpenctest c p).2 := by
  unfold sendUpenctest; exact nosys_sendQueryPlain _ _

theorem evs_upencTestRet (s : HState) (evs : List CEvent) (p : Nat) (res : Int) : EvsOk evs (upencTestRet s evs p res) := by
  unfold upencTestRet
  simp only
  repeat' split
  all_goals first
    | exact evs_upencRet _ _ _
    | exact EvsOk.park _ _ _ (nosys_sendUpenctest _ _)

theorem evs_upencTestHead (s : HState) (evs : List CEvent) (p i : Nat) : EvsOk evs (upencTestHead s evs p i) := by
  unfold upencTestHead
  split
  · exact EvsOk.park _ _ _ (nosys_sendUpenctest _ _)
  · exact evs_upencTestRet _ _ _ _

theorem evs_upencTestGot (s : HState) (p i : Nat) (read : Int) : EvsOk [] (upencTestGot s p i read) := by
  unfold upencTestGot
  simp only
  repeat' split
  all_goals first
    | exact evs_upencTestRet _ _ _ _
    | exact evs_upencTestHead _ _ _ _

theorem evs_ednsRet (s : HState) (evs : List CEvent) (ok : Bool) : EvsOk evs (ednsRet s evs ok) := by
  unfold ednsRet
  repeat' split
  all_goals first
    | exact evs_upencTestHead _ _ _ _
    | exact EvsOk.done _ _ _

theorem evs_ednsHead (s : HState) (evs : List CEvent) (i : Nat) : EvsOk evs (ednsHead s evs i) := by
  unfold ednsHead
  split
  · exact EvsOk.park _ _ _ (nosys_sendDownenctest _ _)
  · exact evs_ednsRet _ _ _

theorem evs_ednsGot (s : HState) (i : Nat) (read : Int) : EvsOk [] (ednsGot s i read) := by
  unfold ednsGot
  split
  · exact evs_ednsRet _ _ _
  · exact evs_ednsHead _ _ _

theorem evs_dnsBranch (s : HState) (evs : List CEvent) : EvsOk evs (dnsBranch s evs) := evs_ednsHead _ _ _

theorem evs_rawRet (s : HState) (evs : List CEvent) (ok : Bool) : EvsOk evs (rawRet s evs ok) := by
  unfold rawRet
  split
  · exact EvsOk.done _ _ _
  · exact evs_dnsBranch _ _

theorem evs_rawLoginHead (s : HState) (evs : List CEvent) (seed i : Nat) : EvsOk evs (rawLoginHead s evs seed i) := by
  unfold rawLoginHead
  split
  · exact EvsOk.park _ _ _ (nosys_sendRawUdpLogin _ _)
  · exact evs_rawRet _ _ _

theorem evs_rawLoginGot (s : HState) (seed i : Nat) (d : Option (List Nat)) : EvsOk [] (rawLoginGot s seed i d) := by
  unfold rawLoginGot
  split
  · exact evs_rawLoginHead _ _ _ _
  · simp only
    split
    · exact evs_rawRet _ _ _
    · exact evs_rawLoginHead _ _ _ _

theorem evs_rawIpDone (s : HState) (evs : List CEvent) (seed : Nat) (g : Bool) : EvsOk evs (rawIpDone s evs seed g) := by
  unfold rawIpDone
  repeat' split
  all_goals first
    | exact evs_rawRet _ _ _
    | exact evs_rawLoginHead _ _ _ _

theorem evs_rawIpHead (s : HState) (evs : List CEvent) (seed i : Nat) : EvsOk evs (rawIpHead s evs seed i) := by
  unfold rawIpHead
  split
  · exact EvsOk.park _ _ _ (nosys_sendHandshakeQuery _ _)
  · exact evs_rawIpDone _ _ _ _

theorem evs_rawIpGot (s : HState) (seed i : Nat) (read : Int) : EvsOk [] (rawIpGot s seed i read) := by
  unfold rawIpGot
  split
  · exact evs_rawIpDone _ _ _ _
  · exact evs_rawIpHead _ _ _ _

theorem evs_afterLogin (s : HState) (evs : List CEvent) (seed : Nat) : EvsOk evs (afterLogin s evs seed) := by
  unfold afterLogin
  split
  · exact evs_rawIpHead _ _ _ _
  · exact evs_dnsBranch _ _

theorem evs_loginHead (s : HState) (evs : List CEvent) (seed i : Nat) : EvsOk evs (loginHead s evs seed i) := by
  unfold loginHead
  split
  · exact EvsOk.park _ _ _ (by unfold sendLogin; exact nosys_hsSendPacket _ _ _)
  · exact EvsOk.done _ _ _

/-- the commands `handshake_login` runs on a reply of `read` bytes -/
def loginCommands (s : HState) (read : Int) : List (List Nat) :=
  if read > 0 then (Shell.loginStep s.dev (s.inb.take read.toNat) 0).commands else []

/-- the one place where `system()` is called: the events of the loop body of `handshake_login` are exactly the commands
`Shell.loginStep` builds from the reply, followed by non-`sys` events -/
theorem evs_loginGot (s : HState) (seed i : Nat) (read : Int) :
    EvsOk ((loginCommands s read).map CEvent.sys) (loginGot s seed i read) := by
  unfold loginGot loginCommands
  split
  · simp only
    split
    · exact evs_afterLogin _ _ _
    · exact EvsOk.done _ _ _
    · exact EvsOk.done _ _ _
    · exact ⟨[], by simp, nosys_nil⟩
    · exact evs_loginHead _ _ _ _
  · exact evs_loginHead _ _ _ _

theorem evs_versionHead (s : HState) (evs : List CEvent) (i : Nat) : EvsOk evs (versionHead s evs i) := by
  unfold versionHead
  split
  · exact EvsOk.park _ _ _ (by unfold sendVersion; exact nosys_hsSendPacket _ _ _)
  · exact EvsOk.done _ _ _

theorem evs_versionGot (s : HState) (i : Nat) (read : Int) : EvsOk [] (versionGot s i read) := by
  unfold versionGot
  split
  · simp only
    split
    · exact evs_loginHead _ _ _ _
    · split
      · exact EvsOk.done _ _ _
      · split
        · exact EvsOk.done _ _ _
        · exact evs_versionHead _ _ _
  · exact evs_versionHead _ _ _

theorem evs_afterQtype (s : HState) (evs : List CEvent) : EvsOk evs (afterQtype s evs) := evs_versionHead _ _ _

theorem evs_qtypeFinish (s : HState) (evs : List CEvent) (h : Nat) : EvsOk evs (qtypeFinish s evs h) := by
  unfold qtypeFinish
  simp only
  repeat' split
  all_goals first
    | exact evs_afterQtype _ _
    | exact EvsOk.done _ _ _

theorem evs_qtypeTest (s : HState) (evs : List CEvent) (t q h : Nat) : EvsOk evs (qtypeTest s evs t q h) :=
  EvsOk.park _ _ _ (nosys_sendDownenctest _ _)

theorem evs_qtypeOuterHead (s : HState) (evs : List CEvent) (t h : Nat) : EvsOk evs (qtypeOuterHead s evs t h) := by
  unfold qtypeOuterHead
  repeat' split
  all_goals first
    | exact evs_qtypeTest _ _ _ _ _
    | exact evs_qtypeFinish _ _ _

theorem evs_qtypeAfterInner (s : HState) (evs : List CEvent) (t h : Nat) : EvsOk evs (qtypeAfterInner s evs t h) := by
  unfold qtypeAfterInner
  split
  · exact evs_qtypeFinish _ _ _
  · exact evs_qtypeOuterHead _ _ _ _

theorem evs_qtypeInnerHead (s : HState) (evs : List CEvent) (t q h : Nat) : EvsOk evs (qtypeInnerHead s evs t q h) := by
  unfold qtypeInnerHead
  simp only
  repeat' split
  all_goals first
    | exact evs_qtypeAfterInner _ _ _ _
    | exact evs_qtypeTest _ _ _ _ _

theorem evs_qtypeGot (s : HState) (t q h : Nat) (read : Int) : EvsOk [] (qtypeGot s t q h read) := by
  unfold qtypeGot
  split
  · exact evs_qtypeAfterInner _ _ _ _
  · exact evs_qtypeInnerHead _ _ _ _ _

theorem evs_hsStart (c : Cli) (args : HsArgs) (pw dev : List Nat) : EvsOk [] (hsStart c args pw dev) := by
  unfold hsStart
  simp only
  split
  · exact evs_qtypeOuterHead _ _ _ _
  · exact evs_afterQtype _ _

/-! ### the step -/

theorem EvsOk.sys_mem {evs : List CEvent} {o : HOut} (h : EvsOk evs o) {cmd : List Nat} (hc : CEvent.sys cmd ∈ o.2.1) :
    CEvent.sys cmd ∈ evs := by
  obtain ⟨l, h1, h2⟩ := h
  rw [h1] at hc
  rcases List.mem_append.mp hc with hc | hc
  · exact hc
  · have := h2 _ hc
    simp [isSys] at this

/-- `system()` is called by the loop body of `handshake_login` only -/
theorem hsGot_sys (s : HState) (p : HPos) (read : Int) (cmd : List Nat) (hc : CEvent.sys cmd ∈ (hsGot s p read).2.1) :
    (∃ seed i, p = .login seed i) ∧ cmd ∈ loginCommands s read := by
  have nil : ∀ {o : HOut}, EvsOk [] o → CEvent.sys cmd ∈ o.2.1 → False := by
    intro o h hm
    have := h.sys_mem hm
    cases this
  cases p with
  | login seed i =>
    refine ⟨⟨seed, i, rfl⟩, ?_⟩
    have := (evs_loginGot s seed i read).sys_mem hc
    simpa using this
  | qtype t q h => exact (nil (evs_qtypeGot s t q h read) hc).elim
  | version i => exact (nil (evs_versionGot s i read) hc).elim
  | rawIp seed i => exact (nil (evs_rawIpGot s seed i read) hc).elim
  | rawLogin seed i => exact (nil (evs_rawLoginGot s seed i none) hc).elim
  | edns i => exact (nil (evs_ednsGot s i read) hc).elim
  | upenc p i => exact (nil (evs_upencTestGot s p i read) hc).elim
  | switchCodec b i => exact (nil (evs_switchCodecGot s b i read) hc).elim
  | downenc cd b i => exact (nil (evs_downencTestGot s cd b i read) hc).elim
  | switchDown i => exact (nil (evs_switchDownGot s i read) hc).elim
  | lazy i => exact (nil (evs_lazyGot s i read) hc).elim
  | frag pr r m i => exact (nil (evs_fragGot s pr r m i read) hc).elim
  | setFrag f i => exact (nil (evs_setFragGot s f i read) hc).elim

/-- `hsWaitRound` leaves device name and position alone -/
theorem hsWaitRound_dev (s : HState) (c1 bl : Nat) (w : WaitIn) : (hsWaitRound s c1 bl w).1.dev = s.dev := by
  unfold hsWaitRound
  split
  · rfl
  · simp only
    repeat' split
    all_goals rfl

/-- every `system()` call of a handshake step: the thread was waiting for the login reply, and the command is one of
those `Shell.loginStep` builds from the first `read` bytes of `in[]` -/
theorem hstep_sys (s : HState) (inp : CInput) (cmd : List Nat) (hc : CEvent.sys cmd ∈ (hstep s inp).2.1) :
    (∃ seed i, s.pos = some (.login seed i)) ∧ ∃ reply, cmd ∈ (Shell.loginStep s.dev reply 0).commands := by
  unfold hstep at hc
  split at hc
  · cases hc
  · rename_i p hp
    simp only at hc
    unfold hstepAt at hc
    split at hc
    · rename_i seed i _
      have := (evs_rawLoginGot _ seed i _).sys_mem hc
      cases this
    · simp only at hc
      split at hc
      · cases hc
      · rename_i read hr
        obtain ⟨⟨seed, i, rfl⟩, hm⟩ := hsGot_sys _ _ _ _ hc
        refine ⟨⟨seed, i, hp⟩, ?_⟩
        unfold loginCommands at hm
        split at hm
        · rw [hsWaitRound_dev] at hm
          exact ⟨_, hm⟩
        · cases hm

/-- the events of the loop body the thread is parked in: the login commands (only at the login place), then non-`sys`
events -/
theorem hsGot_events (s : HState) (p : HPos) (read : Int) :
    ∃ cmds, EvsOk (cmds.map CEvent.sys) (hsGot s p read) ∧
      (cmds = [] ∨ ((∃ seed i, p = .login seed i) ∧ cmds = loginCommands s read)) := by
  cases p with
  | login seed i => exact ⟨_, evs_loginGot s seed i read, Or.inr ⟨⟨seed, i, rfl⟩, rfl⟩⟩
  | qtype t q h => exact ⟨[], evs_qtypeGot s t q h read, Or.inl rfl⟩
  | version i => exact ⟨[], evs_versionGot s i read, Or.inl rfl⟩
  | rawIp seed i => exact ⟨[], evs_rawIpGot s seed i read, Or.inl rfl⟩
  | rawLogin seed i => exact ⟨[], evs_rawLoginGot s seed i none, Or.inl rfl⟩
  | edns i => exact ⟨[], evs_ednsGot s i read, Or.inl rfl⟩
  | upenc p i => exact ⟨[], evs_upencTestGot s p i read, Or.inl rfl⟩
  | switchCodec b i => exact ⟨[], evs_switchCodecGot s b i read, Or.inl rfl⟩
  | downenc cd b i => exact ⟨[], evs_downencTestGot s cd b i read, Or.inl rfl⟩
  | switchDown i => exact ⟨[], evs_switchDownGot s i read, Or.inl rfl⟩
  | lazy i => exact ⟨[], evs_lazyGot s i read, Or.inl rfl⟩
  | frag pr r m i => exact ⟨[], evs_fragGot s pr r m i read, Or.inl rfl⟩
  | setFrag f i => exact ⟨[], evs_setFragGot s f i read, Or.inl rfl⟩

/-- the events of one step: the commands of ONE login reply (possibly none), then queries / raw frames -/
theorem hstep_events (s : HState) (inp : CInput) :
    ∃ cmds l, (hstep s inp).2.1 = cmds.map CEvent.sys ++ l ∧ NoSys l ∧
      (cmds = [] ∨ ((∃ seed i, s.pos = some (.login seed i)) ∧ ∃ reply, cmds = (Shell.loginStep s.dev reply 0).commands)) := by
  unfold hstep
  split
  · exact ⟨[], [], rfl, nosys_nil, Or.inl rfl⟩
  · rename_i p hp
    simp only
    unfold hstepAt
    split
    · rename_i seed i _
      obtain ⟨l, h1, h2⟩ := evs_rawLoginGot { s with c := (fire s.c p.sel inp).1 } seed i (hsRawIn (fire s.c p.sel inp).2)
      exact ⟨[], l, by simpa using h1, h2, Or.inl rfl⟩
    · simp only
      split
      · exact ⟨[], [], rfl, nosys_nil, Or.inl rfl⟩
      · rename_i read hr
        obtain ⟨cmds, ⟨l, h1, h2⟩, h3⟩ := hsGot_events
          (hsWaitRound { s with c := (fire s.c p.sel inp).1 } p.wait.1 p.wait.2.2 (hsWaitIn (fire s.c p.sel inp).2)).1 p read
        refine ⟨cmds, l, h1, h2, ?_⟩
        rcases h3 with h3 | ⟨⟨seed, i, rfl⟩, h3⟩
        · exact Or.inl h3
        · unfold loginCommands at h3
          split at h3
          · rw [hsWaitRound_dev] at h3
            exact Or.inr ⟨⟨seed, i, hp⟩, _, h3⟩
          · exact Or.inl h3

theorem hsRun_eq_foldl (l : List CInput) : ∀ s : HState, hsRun s l = l.foldl (fun s i => (hstep s i).1) s := by
  induction l with
  | nil => intro s; rfl
  | cons i r ih => intro s; exact ih _

end Iodine.Client
