import IodineModel.Lemmas.C02s2
/-
Session-level forms of the data handler (`dataFresh`), the ping handler (`pingFresh`) and one loop iteration, for a
server with a single client (`Solo`).
-/
namespace Iodine.C02L
open Iodine Iodine.Gen Iodine.Server

/-! ### stages of `dataFresh` (a decomposition that keeps intermediate terms small) -/

/-- stage 1 of `dataFresh`: ack, sequence bookkeeping, store: the state and `upstream_ok` -/
def dataA (s : Srv) (u : Nat) (upSeq upFrag : Nat) (dnSeq dnFrag : Int) (payload : List Nat) : Srv × Bool :=
  let s1 := processDownstreamAck s u dnSeq dnFrag
  let up := dataUpstream (getUser s1 u) upSeq upFrag
  (setUser s1 u fun _ => if up.2 then dataStore up.1 payload else up.1, up.2)

/-- stage 2: a completed packet is handed on -/
def dataB (a : Srv × Bool) (u : Nat) (lastfrag : Bool) : Res :=
  if a.2 ∧ lastfrag then handleFullPacket a.1 u else (a.1, [])

/-- stage 3: `q_sendrealsoon` -/
def dataC (r3 : Res) (u : Nat) : (Res × Bool) × List Event :=
  (dataStepQs r3.1 u, r3.2)

/-- stage 4: the waiting query -/
def dataD (c : (Res × Bool) × List Event) (u : Nat) (ok lastfrag : Bool) : (Res × Bool) × List Event :=
  (dataStepQ c.1.1.1 u ok lastfrag c.1.2, c.2 ++ c.1.1.2)

/-- stage 5: store the new query, answer it or not -/
def dataE (d : (Res × Bool) × List Event) (u : Nat) (q : Query) (ok lastfrag : Bool) : Res :=
  let r7 := dataStepFinal (saveQuery d.1.1.1 u q) u ok lastfrag d.1.2
  (r7.1, d.2 ++ d.1.1.2 ++ r7.2)

/-- the five header fields of an upstream data query -/
structure UpHdr where
  upSeq : Nat
  upFrag : Nat
  dnSeq : Int
  dnFrag : Int
  last : Bool
deriving DecidableEq, Repr

def parseUpHdr (inb : List Nat) : UpHdr :=
  { upSeq := (b32_8to5 (inb.getD 1 0) >>> 2) &&& 7,
    upFrag := ((b32_8to5 (inb.getD 1 0) &&& 3) <<< 2) ||| ((b32_8to5 (inb.getD 2 0) >>> 3) &&& 3),
    dnSeq := ((b32_8to5 (inb.getD 2 0) &&& 7 : Nat) : Int),
    dnFrag := ((b32_8to5 (inb.getD 3 0) >>> 1 : Nat) : Int),
    last := decide ((b32_8to5 (inb.getD 3 0) &&& 1) = 1) }

def dataStaged (s : Srv) (u : Nat) (q : Query) (h : UpHdr) (payload : List Nat) : Res :=
  dataE (dataD (dataC (dataB (dataA s u h.upSeq h.upFrag h.dnSeq h.dnFrag payload) u h.last) u) u
    (dataA s u h.upSeq h.upFrag h.dnSeq h.dnFrag payload).2 h.last) u q
    (dataA s u h.upSeq h.upFrag h.dnSeq h.dnFrag payload).2 h.last

theorem dataFresh_stages (s : Srv) (u : Nat) (q : Query) (inb : List Nat) :
    dataFresh s u q inb = dataStaged s u q (parseUpHdr inb) (inb.drop 5) := by
  unfold dataFresh dataStaged dataE dataD dataC dataB dataA parseUpHdr
  rfl

/-! ### the pieces on the slot -/

/-- stage 1 on the slot -/
def dataASess (x : Session) (upSeq upFrag : Nat) (dnSeq dnFrag : Int) (payload : List Nat) : Session × Bool :=
  let up := dataUpstream (ackSess x dnSeq dnFrag) upSeq upFrag
  (if up.2 then dataStore up.1 payload else up.1, up.2)

theorem dataA_eq (s : Srv) (u : Nat) (upSeq upFrag : Nat) (dnSeq dnFrag : Int) (payload : List Nat) (h : u < s.users.length) :
    dataA s u upSeq upFrag dnSeq dnFrag payload =
      (putUser s u (dataASess (getUser s u) upSeq upFrag dnSeq dnFrag payload).1,
       (dataASess (getUser s u) upSeq upFrag dnSeq dnFrag payload).2) := by
  unfold dataA dataASess
  simp only [processDownstreamAck_eq _ _ _ _ h, setUser_eq_putUser, putUser_putUser, getUser_putUser_self _ _ _ h]

/-- the packet in `inpacket` is addressed to the tunnel address of the session itself -/
def selfAddressed (x : Session) (now : Nat) : Prop :=
  ∃ out, uncompress (x.inpacket.data.take x.inpacket.len) 65536 = some out ∧ 24 ≤ out.length ∧
    x.active = true ∧ x.authenticated = true ∧ x.disabled = false ∧ x.lastPkt + 60 > now ∧ ipDst out = x.tunIp

/-- `handle_full_packet` on the slot, for a packet that is not for the session itself: events -/
def fullEvs (x : Session) : List Event :=
  match uncompress (x.inpacket.data.take x.inpacket.len) 65536 with
  | some out => if out.length ≥ 4 + 20 then [writeTun out] else []
  | none => []

def fullSess (x : Session) : Session := { x with inpacket := { x.inpacket with len := 0, offset := 0 } }

theorem handleFullPacket_eq {u : Nat} {s : Srv} (hs : Solo u s) (hns : ¬ selfAddressed (getUser s u) s.now) :
    handleFullPacket s u = (putUser s u (fullSess (getUser s u)), fullEvs (getUser s u)) := by
  unfold handleFullPacket fullEvs fullSess
  simp only [setUser_eq_putUser]
  cases hun : uncompress ((getUser s u).inpacket.data.take (getUser s u).inpacket.len) 65536 with
  | none => simp
  | some out =>
    simp only
    by_cases hl : out.length ≥ 4 + 20
    · rw [if_pos hl, if_pos hl, findUserByIp_solo hs]
      have : ¬ ((getUser s u).active = true ∧ (getUser s u).authenticated = true ∧ ¬ (getUser s u).disabled = true ∧
          (getUser s u).lastPkt + 60 > s.now ∧ ipDst out = (getUser s u).tunIp) := by
        intro ⟨h1, h2, h3, h4, h5⟩
        exact hns ⟨out, hun, hl, h1, h2, by simpa using h3, h4, h5⟩
      simp only [this, if_false]
    · rw [if_neg hl, if_neg hl]

/-- `saveQuery` on the slot -/
def saveQ (x : Session) (q : Query) (now : Nat) : Session := { x with q := q, lastPkt := now }

theorem saveQuery_eq (s : Srv) (u : Nat) (q : Query) : saveQuery s u q = putUser s u (saveQ (getUser s u) q s.now) := by
  unfold saveQuery saveQ
  rw [setUser_eq_putUser]

/-- `dataStepQs` on the slot -/
def stepQsSess (x : Session) (u : Nat) : (Session × List Event) × Bool :=
  if x.qs.id ≠ 0 then ((scSess x u .qs).1, !(scSess x u .qs).2) else ((x, []), false)

theorem dataStepQs_eq (s : Srv) (u : Nat) (h : u < s.users.length) :
    dataStepQs s u = ((putUser s u (stepQsSess (getUser s u) u).1.1, (stepQsSess (getUser s u) u).1.2),
      (stepQsSess (getUser s u) u).2) := by
  unfold dataStepQs stepQsSess
  split
  · rw [sendChunkOrDataless_eq _ _ _ h]
  · simp [putUser_getUser]

/-- the "move the waiting query to `q_sendrealsoon`" assignment -/
def parkQ (x : Session) : Session := { x with qs := x.q, qsNew := true, q := { x.q with id := 0 } }

/-- `dataStepQ` on the slot -/
def stepQSess (x : Session) (u : Nat) (ok lastfrag didsend : Bool) : (Session × List Event) × Bool :=
  if x.q.id ≠ 0 then
    if (x.outpacket.len > 0 ∧ !didsend) ∨ (ok ∧ !lastfrag ∧ !didsend) ∨ (!ok ∧ !didsend) ∨ !x.lazy then
      ((scSess x u .q).1, !(scSess x u .q).2)
    else ((parkQ x, []), true)
  else ((x, []), didsend)

theorem dataStepQ_eq (s : Srv) (u : Nat) (ok lastfrag didsend : Bool) (h : u < s.users.length) :
    dataStepQ s u ok lastfrag didsend =
      ((putUser s u (stepQSess (getUser s u) u ok lastfrag didsend).1.1, (stepQSess (getUser s u) u ok lastfrag didsend).1.2),
       (stepQSess (getUser s u) u ok lastfrag didsend).2) := by
  unfold dataStepQ stepQSess parkQ
  simp only
  split
  · split
    · rw [sendChunkOrDataless_eq _ _ _ h]
    · rw [setUser_eq_putUser]
  · simp [putUser_getUser]

/-- `dataStepFinal` on the slot -/
def stepFinalSess (x : Session) (u : Nat) (ok lastfrag didsend : Bool) : Session × List Event :=
  if x.outpacket.len > 0 ∧ !didsend then (scSess x u .q).1
  else if !didsend ∨ !x.lazy then
    if ok ∧ lastfrag then (parkQ x, []) else (scSess x u .q).1
  else (x, [])

theorem dataStepFinal_eq (s : Srv) (u : Nat) (ok lastfrag didsend : Bool) (h : u < s.users.length) :
    dataStepFinal s u ok lastfrag didsend =
      (putUser s u (stepFinalSess (getUser s u) u ok lastfrag didsend).1, (stepFinalSess (getUser s u) u ok lastfrag didsend).2) := by
  unfold dataStepFinal stepFinalSess parkQ
  simp only
  split
  · rw [sendChunkOrDataless_eq _ _ _ h]
  · split
    · split
      · rw [setUser_eq_putUser]
      · rw [sendChunkOrDataless_eq _ _ _ h]
    · simp [putUser_getUser]

/-- `dataFresh` on the slot (for a packet that is not addressed to the session itself) -/
def dataSess (x : Session) (u : Nat) (q : Query) (h : UpHdr) (payload : List Nat) (now : Nat) : Session × List Event :=
  let a := dataASess x h.upSeq h.upFrag h.dnSeq h.dnFrag payload
  let b : Session × List Event := if a.2 ∧ h.last then (fullSess a.1, fullEvs a.1) else (a.1, [])
  let c := stepQsSess b.1 u
  let d := stepQSess c.1.1 u a.2 h.last c.2
  let e := stepFinalSess (saveQ d.1.1 q now) u a.2 h.last d.2
  (e.1, b.2 ++ c.1.2 ++ d.1.2 ++ e.2)

theorem dataStaged_eq {u : Nat} {s : Srv} (hs : Solo u s) (q : Query) (h : UpHdr) (payload : List Nat)
    (hns : (dataASess (getUser s u) h.upSeq h.upFrag h.dnSeq h.dnFrag payload).2 = true → h.last = true →
      ¬ selfAddressed (dataASess (getUser s u) h.upSeq h.upFrag h.dnSeq h.dnFrag payload).1 s.now) :
    dataStaged s u q h payload =
      (putUser s u (dataSess (getUser s u) u q h payload s.now).1, (dataSess (getUser s u) u q h payload s.now).2) := by
  have hl := hs.lt
  have hl' : ∀ y, u < (putUser s u y).users.length := fun y => by simpa using hl
  unfold dataStaged dataSess
  rw [dataA_eq _ _ _ _ _ _ _ hl]
  simp only
  generalize dataASess (getUser s u) h.upSeq h.upFrag h.dnSeq h.dnFrag payload = a at hns ⊢
  have hB : dataB (putUser s u a.1, a.2) u h.last =
      (putUser s u (if a.2 ∧ h.last then (fullSess a.1, fullEvs a.1) else (a.1, [])).1,
       (if a.2 = true ∧ h.last = true then (fullSess a.1, fullEvs a.1) else (a.1, [])).2) := by
    unfold dataB
    simp only
    split
    · rename_i hc
      rw [handleFullPacket_eq (hs.putUser _) (by simpa [getUser_putUser_self _ _ _ hl] using hns hc.1 hc.2)]
      simp only [putUser_putUser, getUser_putUser_self _ _ _ hl]
    · rfl
  rw [hB]
  generalize (if a.2 = true ∧ h.last = true then (fullSess a.1, fullEvs a.1) else (a.1, [])) = b
  unfold dataC
  simp only [dataStepQs_eq _ _ (hl' _), putUser_putUser, getUser_putUser_self _ _ _ hl]
  generalize stepQsSess b.1 u = c
  unfold dataD
  simp only [dataStepQ_eq _ _ _ _ _ (hl' _), putUser_putUser, getUser_putUser_self _ _ _ hl]
  generalize stepQSess c.1.1 u a.2 h.last c.2 = d
  unfold dataE
  simp only [saveQuery_eq, dataStepFinal_eq _ _ _ _ _ (hl' _), putUser_putUser, getUser_putUser_self _ _ _ hl, putUser_now]

end Iodine.C02L
