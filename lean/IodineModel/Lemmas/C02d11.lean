import IodineModel.Lemmas.C02d10
/-
Downstream transfer in immediate mode, world level: the poll and the ping's way up as one block; the server-side
invariant after an answered ping.
-/
namespace Iodine.C02L
open Iodine Iodine.Gen Iodine.World

/-- the server conditions under which a ping is answered at once (immediate mode, nothing waiting, nothing queued) -/
structure PingSrv (P : Par) (s : Server.Srv) : Prop where
  stat : SStat P s
  q : (Server.getUser s P.u).q.id = 0
  qs : (Server.getUser s P.u).qs.id = 0
  lz : (Server.getUser s P.u).lazy = false
  oq : (Server.getUser s P.u).oqFilled = 0
  res : (Server.getUser s P.u).outfragresent ≤ 1

theorem DownSrv.ping {P : Par} {s : Server.Srv} {out : List Nat} {sq : Int} {o m f : Nat} (h : DownSrv P s out sq o m f) :
    PingSrv P s := ⟨h.stat, h.q, h.qs, h.lz, h.oq, h.res⟩

theorem timeoutS_idle {P : Par} {w : W} (h : PingSrv P w.srv) : timeoutS w = 10000000 := by
  unfold timeoutS
  rw [topOfLoop_timeout h.stat.solo, if_neg (by intro hc; exact hc.2 h.qs)]

/-- the ping travels up and is answered: one scheduler step -/
theorem up_answer {P : Par} (hP : P.Ok) {w : W} {name : List Nat} {id : Nat} {a b : Int} {sd k : Nat}
    (hup : w.up = [.query id P.ty name]) (hdown : w.down = []) (hS : PingSrv P w.srv)
    (hQ : PingQ P (upQuery id P.ty name) a b sd)
    (hA : Aged P (Server.getUser w.srv P.u) k 1) (hPA : PAged P (Server.getUser w.srv P.u) sd 1) :
    ∃ s' pkt, step w (promptEv w) = { w with up := [], srv := s', down := [.ans id P.ty name pkt] } ∧
      quiet P.u w = false ∧ AfterPing P w.srv s' (upQuery id P.ty name) a b pkt ∧
      Aged P (Server.getUser s' P.u) k 1 ∧ PAged P (Server.getUser s' P.u) ((sd + 1) % 65536) 1 :=
  ping_up_step hP (Q := upQuery id P.ty name) hup rfl hdown hS.stat hS.q hS.qs hS.lz hS.oq (by have := hS.res; omega) hQ hA hPA

/-- the static part of the server invariant after an answered ping -/
theorem pingSrv_after {P : Par} {s s' : Server.Srv} {Q : Server.Query} {a b : Int} {pkt : List Nat} (h : PingSrv P s)
    (hid2 : Q.id2 = 0) (hap : AfterPing P s s' Q a b pkt)
    (hos : 0 ≤ (Server.getUser s' P.u).outpacket.seqno ∧ (Server.getUser s' P.u).outpacket.seqno < 8)
    (hof : 0 ≤ (Server.getUser s' P.u).outpacket.fragment ∧ (Server.getUser s' P.u).outpacket.fragment < 16)
    (hres : (Server.getUser s' P.u).outfragresent ≤ 1) :
    PingSrv P s' ∧ (Server.getUser s' P.u).fragsize = (Server.getUser s P.u).fragsize ∧
    (Server.getUser s' P.u).inpacket = (Server.getUser s P.u).inpacket ∧
    (Server.getUser s' P.u).tunIp = (Server.getUser s P.u).tunIp ∧ (Server.getUser s' P.u).downenc = (Server.getUser s P.u).downenc := by
  obtain ⟨h1, h2, h3, h4, h5, h6, h7, h8, h9⟩ := afterPing_stat h.stat h.q h.oq (by have := h.res; omega) hid2 hap hos hof
  exact ⟨⟨h1, h2, by rw [h3]; exact h.qs, by rw [h4]; exact h.lz, h5, hres⟩, h6, h7, h8, h9⟩

/-- the slot the ping handler leaves, as `pingZ` of the slot with `qsNew` cleared -/
theorem afterPing_slot {P : Par} {s s' : Server.Srv} {Q : Server.Query} {a b : Int} {pkt : List Nat}
    (hap : AfterPing P s s' Q a b pkt) :
    Server.getUser s' P.u = pingZ { Server.getUser s P.u with qsNew := false } P.u Q a b s.now := hap.slot

end Iodine.C02L
