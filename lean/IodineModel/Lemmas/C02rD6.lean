import IodineModel.Lemmas.C02rD5
/-
C02 phase 3 / d7down — part 6: the hypothesis `inpkt.len = 0`, and the remaining corner `inpkt.fragment = 0 ∧ inpkt.len ≠ 0`
at `d = 7`.

* `QuietImm` / `QuietLazy` (and their `D` forms) say NOTHING about `inpkt.len` or `inpkt.data`: `quietImmD_withStale`,
  `quietLazyD_withStale` — any quiescent state stays quiescent when the client's reassembly buffer is filled with arbitrary
  bytes (fragment number 0).  So `inpkt.len = 0` has to be a hypothesis of the `desync7_ok` theorems.
* It is an invariant of the proved transitions between quiescent states: a delivered packet ends in `deliver`
  (`inpkt.len := 0`: `lastState`, `lastStateL`), a dataless adoption sets `inpkt.len := 0`, and every lost packet leaves
  `inpkt` untouched (`down_packet_*_desync_drop*`: `w'.cs.c.inpkt = w.cs.c.inpkt`) — `drop_keeps_len_*` below.
* The corner IS reachable by a run that is not among the proved transitions — a downstream blackout that begins AFTER the
  client has stored fragment 0 of a longer packet (the server gives that packet up; `inpkt = (sq, 0, len ≠ 0)`), followed
  by 7 more packets given up: the server is 7 ahead, the next packet carries `sq` again.  Then the model CORRUPTS:
  `stale_fragment0_corrupts_imm` / `_lazy` (kernel-evaluated): fragment 0 of the new packet is dropped as a duplicate, the
  client's ping acknowledges `(sq, 0)`, which the server takes for the acknowledgement of the NEW fragment 0, fragment 1 is
  appended to the OLD fragment 0, and a frame that was never offered is written to the client's tun device (the test
  compression scheme accepts it; with zlib the `uncompress` would in all likelihood fail and the packet would be lost).
-/
namespace Iodine.C02L
open Iodine Iodine.Gen Iodine.World

/-- `w` with the client's reassembly buffer holding `data` as fragment 0 of its current packet number -/
def withStale (w : W) (data : List Nat) : W :=
  { w with cs := ⟨{ w.cs.c with inpkt := { w.cs.c.inpkt with fragment := 0, data := data, len := data.length } }, w.cs.ph⟩ }

theorem quietImmD_withStale {P : Par} {w : W} {d : Nat} (h : QuietImmD P 0 d w) (data : List Nat) :
    QuietImmD P 0 d (withStale w data) := by
  have hc := h.cst
  exact ⟨h.ph, ⟨hc.running, hc.conn, hc.imm, hc.uid, hc.uch, hc.td, hc.L, hc.enc, hc.ty, hc.cid, hc.cmc, hc.alive, hc.oseq, hc.iseq,
    by show (0 : Int) ≤ 0 ∧ (0 : Int) < 16; omega, hc.seed⟩, h.idleC, h.up, h.down, h.srv, h.idle, h.oq, h.syncu, h.syncd, h.aged, h.paged⟩

theorem quietLazyD_withStale {P : Par} {w : W} {d : Nat} (h : QuietLazyD P 0 d w) (data : List Nat) :
    QuietLazyD P 0 d (withStale w data) := by
  have hc := h.cst
  exact ⟨h.ph, ⟨hc.running, hc.conn, hc.lz, hc.uid, hc.uch, hc.td, hc.L, hc.enc, hc.ty, hc.cid, hc.cmc, hc.alive, hc.oseq, hc.iseq,
    by show (0 : Int) ≤ 0 ∧ (0 : Int) < 16; omega, hc.seed⟩, h.cnt, h.idleC, h.up, h.down, h.srv, h.idle, h.oq, h.held, h.heldid,
    h.syncu, h.syncd, h.mem⟩

theorem roomy_withStale {P : Par} {w : W} (h : Roomy P w) (data : List Nat) : Roomy P (withStale w data) := ⟨h.to, h.cli, h.srv⟩

/-- **Quiescence does not imply an empty reassembly buffer**: there are quiescent synchronised states (immediate and lazy
mode) with `inpkt.fragment = 0` and `inpkt.len ≠ 0`. -/
theorem quiet_not_len_zero :
    (∃ w, QuietImm C02.exP w ∧ w.cs.c.inpkt.fragment = 0 ∧ w.cs.c.inpkt.len ≠ 0) ∧
    (∃ w, QuietLazy exPL w ∧ w.cs.c.inpkt.fragment = 0 ∧ w.cs.c.inpkt.len ≠ 0) :=
  ⟨⟨withStale C02.exW [1], quietImmD_zero.1 (quietImmD_withStale (quietImmD_zero.2 C02.ex_quiescent) [1]), rfl, by decide⟩,
   ⟨withStale exWL [1], quietLazyD_zero.1 (quietLazyD_withStale (quietLazyD_zero.2 ex_quiescent_lazy) [1]), rfl, by decide⟩⟩

/-! ### the lost packets keep `inpkt.len = 0` (corollaries of the drop theorems) -/

theorem drop_keeps_len_imm {P : Par} (hP : P.Ok) {w : W} {d : Nat} (hq : QuietImmD P 0 d w) (hd : 4 ≤ d ∧ d ≤ 6)
    (hlen0 : w.cs.c.inpkt.len = 0) (frame : List Nat) (hF : 0 < (Server.getUser w.srv P.u).fragsize)
    (h24 : 24 ≤ frame.length) (hl : frame.length < 65536) (hdst : Server.ipDst frame = (Server.getUser w.srv P.u).tunIp)
    (hr : Roomy P w) :
    ∃ w', promptSteps P.u (dropSteps (downFrags (Server.getUser w.srv P.u).fragsize (frame.length + 1) (frame.length + 1)))
        (step w (.offerS frame)) = some w' ∧ QuietImmD P 0 (d + 1) w' ∧ w'.cs.c.inpkt.len = 0 ∧
      w'.cs.c.inpkt.fragment = w.cs.c.inpkt.fragment := by
  obtain ⟨w', h1, h2, _, _, _, _, _, _, _, _, h11⟩ := down_packet_imm_desync_drop hP hq hd frame hF h24 hl hdst hr.to hr.cli hr.srv
  exact ⟨w', h1, h2, by rw [h11]; exact hlen0, by rw [h11]⟩

theorem drop_keeps_len_lazy {P : Par} (hP : P.Ok) {w : W} {d : Nat} (hq : QuietLazyD P 0 d w)
    (hd : (4 ≤ d ∧ d ≤ 6) ∨ (d = 7 ∧ w.cs.c.inpkt.fragment ≠ 0)) (hlen0 : w.cs.c.inpkt.len = 0) (frame : List Nat)
    (hF : 0 < (Server.getUser w.srv P.u).fragsize)
    (hok : DownFrameOk (Server.getUser w.srv P.u).tunIp (Server.getUser w.srv P.u).fragsize frame) :
    ∃ w', promptSteps P.u (dropStepsL w.cs.c.sendPingSoon
          (downFrags (Server.getUser w.srv P.u).fragsize (frame.length + 1) (frame.length + 1)))
        (step w (.offerS frame)) = some w' ∧ QuietLazyD P 0 ((d + 1) % 8) w' ∧ w'.cs.c.inpkt.len = 0 ∧
      w'.cs.c.inpkt.fragment = w.cs.c.inpkt.fragment := by
  obtain ⟨w', h1, h2, _, _, _, _, _, h8⟩ := down_packet_lazy_desync_drop hP hq hd frame hF hok
  exact ⟨w', h1, h2, by rw [h8]; exact hlen0, by rw [h8]⟩

/-! ### the corner `inpkt.fragment = 0 ∧ inpkt.len ≠ 0` at `d = 7`: corruption (kernel-evaluated) -/

/-- the demo session, the server 7 ahead, the client still holding fragment 0 (30 bytes) of the five-fragment packet
`demoFrame 2 100` under its current number -/
def exStale : W := withStale (exD 7) ((0x5a :: demoFrame 2 100).take 30)

theorem exStale_quiet : QuietImmD C02.exP 0 7 exStale := quietImmD_withStale (exD_quiet 7) _

theorem exStale_roomy : Roomy C02.exP exStale := roomy_withStale (exD_roomy 7) _

/-- **stale_fragment0_corrupts_imm.**  From the quiescent state `exStale` (`QuietImmD 0 7`, `inpkt.fragment = 0`,
`inpkt.len = 30`) the two-fragment frame `demoFrame 2 31` is offered to the server: after 9 prompt steps the joint state is
quiescent and synchronised, and the client has written ONE frame to its tun device — the first 29 bytes of the OLD frame
`demoFrame 2 100` followed by the bytes of the new frame from offset 29 on —, which is not the frame offered. -/
theorem stale_fragment0_corrupts_imm :
    exStale.cs.c.inpkt.fragment = 0 ∧ exStale.cs.c.inpkt.len = 30 ∧
    runPromptCount 0 40 (step exStale (.offerS (demoFrame 2 31))) 0 =
      (runPrompt 0 40 (step exStale (.offerS (demoFrame 2 31))), 9) ∧
    (runPrompt 0 40 (step exStale (.offerS (demoFrame 2 31)))).tunC =
      [(demoFrame 2 100).take 29 ++ (demoFrame 2 31).drop 29] ∧
    (demoFrame 2 100).take 29 ++ (demoFrame 2 31).drop 29 ≠ demoFrame 2 31 ∧
    quiet 0 (runPrompt 0 40 (step exStale (.offerS (demoFrame 2 31)))) = true ∧
    (Server.getUser (runPrompt 0 40 (step exStale (.offerS (demoFrame 2 31)))).srv 0).outpacket.seqno =
      (runPrompt 0 40 (step exStale (.offerS (demoFrame 2 31)))).cs.c.inpkt.seqno :=
  ⟨rfl, by decide, by decide +kernel, by decide +kernel, by decide, by decide +kernel, by decide +kernel⟩

/-- the same in lazy mode -/
def exStaleL : W := withStale (desyncD exPL exWL 7) ((0x5a :: demoFrame 2 100).take 30)

theorem exStaleL_quiet : QuietLazyD exPL 0 7 exStaleL := quietLazyD_withStale (ex_quiescent_lazy.desync 7) _

theorem stale_fragment0_corrupts_lazy :
    (runPrompt 0 40 (step exStaleL (.offerS (demoFrame 2 31)))).tunC =
      [(demoFrame 2 100).take 29 ++ (demoFrame 2 31).drop 29] ∧
    quiet 0 (runPrompt 0 40 (step exStaleL (.offerS (demoFrame 2 31)))) = true :=
  ⟨by decide +kernel, by decide +kernel⟩

end Iodine.C02L
