import IodineModel.Lemmas.C02v3
import IodineModel.Lemmas.C02g
/-
Client side of a DOWNSTREAM transfer in immediate mode: the poll (a timeout sends a ping) and the processing of an
answer that carries a fragment.
-/
namespace Iodine.C02L
open Iodine Iodine.Client

/-! ### the poll -/

/-- the state `send_ping` + the end of the handler leave behind -/
def pingState (c : Cli) : Cli :=
  { rotateChunkid { c with randSeed := (c.randSeed + 1) % 65536 } with sendPingSoon := 0 }

/-- what `pingState` keeps and what it changes -/
structure PingFacts (c c' : Cli) : Prop where
  running : c'.running = c.running
  conn : c'.conn = c.conn
  lazymode : c'.lazymode = c.lazymode
  userid : c'.userid = c.userid
  useridChar : c'.useridChar = c.useridChar
  topdomain : c'.topdomain = c.topdomain
  hostnameMaxlen : c'.hostnameMaxlen = c.hostnameMaxlen
  dataenc : c'.dataenc = c.dataenc
  doQtype : c'.doQtype = c.doQtype
  ldt : c'.lastdownstreamtime = c.lastdownstreamtime
  now : c'.now = c.now
  inpkt : c'.inpkt = c.inpkt
  outpkt : c'.outpkt = c.outpkt
  datacmc : c'.datacmc = c.datacmc
  cid : c'.chunkid < 65536
  seed : c'.randSeed = (c.randSeed + 1) % 65536
  sps : c'.sendPingSoon = 0
  selto : c'.selecttimeout = c.selecttimeout

theorem pingState_chunkid_lt (c : Cli) : (pingState c).chunkid < 65536 := by
  have := rotateChunkid_lt { c with randSeed := (c.randSeed + 1) % 65536 }
  simpa [pingState] using this

theorem pingFacts (c : Cli) : PingFacts c (pingState c) := by
  constructor
  case cid => exact pingState_chunkid_lt c
  all_goals simp [pingState, rotateChunkid]

attribute [irreducible] pingState

/-- with nothing in flight a timeout of `client_tunnel`'s `select` sends a ping (immediate mode) -/
theorem cstep_tick_ping {P : Par} (hP : P.Ok) (c : Cli) (hc : CStat P c) (hs : isSending c = false)
    (hexp : ¬ c.lastdownstreamtime + 60 < c.now + ((selectOf c).to / 1000000).toNat) :
    ∃ name, cstep ⟨c, .tunnel⟩ .tick =
        (⟨pingState (advanceClock c (selectOf c)), .tunnel⟩,
         [.query (pingState (advanceClock c (selectOf c))).chunkid P.ty name],
         .sel (selectOf (pingState (advanceClock c (selectOf c))))) ∧
      name.getD 0 0 = 112 ∧
      ∃ dlen, Common.queryDatalen name P.td = some dlen ∧ 2 ≤ dlen ∧
        (∀ ty id from_ from2 dest, pingUnpacked ⟨name, ty, id, from_, 0, from2, dest⟩ dlen = pingData c) ∧
        Server.charVal ((pingData c).getD 0 0) = c.userid ∧
        Server.charVal ((pingData c).getD 1 0) / 16 = c.inpkt.seqno ∧
        Server.charVal ((pingData c).getD 1 0) % 16 = c.inpkt.fragment ∧
        ∃ cp, name.idxOf? 46 = some cp ∧ (Codec.dec Codec.b32 8 (cp - 1) (name.drop 1)).take 4 = pingData c ∧
          4 ≤ (Codec.dec Codec.b32 8 (cp - 1) (name.drop 1)).length := by
  generalize hc' : advanceClock c (selectOf c) = c'
  have hfr : c' = { c with now := c'.now } := by rw [← hc']; rfl
  have hpd : pingData c' = pingData c := by rw [hfr]; rfl
  have hqt : c'.doQtype < 65536 := by rw [hfr]; show c.doQtype < 65536; rw [hc.ty]; exact tunnelType_lt hP.tty
  obtain ⟨name, hsend, h0, _, dlen, hq, h2, hun, hu0, hu1, hu2, hfp⟩ :=
    sendPing_facts c' P.ec.codec P.L P.td (by rw [hfr]; exact hc.imm) (by rw [hfr]; exact hc.L) (by rw [hfr]; exact hc.td) hP.set hqt
      (by rw [hfr]; exact hc.conn) (by rw [hfr]; show 0 ≤ c.userid ∧ c.userid < 16; rw [hc.uid]; have := hP.hu; omega)
      (by rw [hfr]; exact hc.seed) (by rw [hfr]; exact hc.iseq) (by rw [hfr]; exact hc.ifrag)
  refine ⟨name, ?_, h0, dlen, hq, h2, ?_, ?_, ?_, ?_, ?_⟩
  · show tunnelStep c .tick = _
    rw [tunnelStep_tick c hc.running (by rw [advanceClock_now]; exact hexp), hc', timeoutBranch_idle c' (by rw [hfr]; exact hs)]
    have hrun : (rotateChunkid { c' with randSeed := (c'.randSeed + 1) % 65536 }).running = true := by
      have : (rotateChunkid { c' with randSeed := (c'.randSeed + 1) % 65536 }).running = c'.running := by simp [rotateChunkid]
      rw [this, hfr]; exact hc.running
    rw [settle_afterSend _ _ _ (by rw [hsend]) (by rw [hsend]; exact hrun), hsend]
    have hty : c'.doQtype = P.ty := by rw [hfr]; exact hc.ty
    have e : ({ rotateChunkid { c' with randSeed := (c'.randSeed + 1) % 65536 } with sendPingSoon := 0 } : Cli) = pingState c' := by
      unfold pingState; rfl
    simp only [List.nil_append]
    rw [e]
    have e2 : (rotateChunkid { c' with randSeed := (c'.randSeed + 1) % 65536 }).chunkid = (pingState c').chunkid := by
      rw [← e]
    rw [e2, hty]
  · intro ty id f f2 d; rw [hun, hpd]
  · rw [← hpd, hu0, hfr]
  · rw [← hpd, hu1, hfr]
  · rw [← hpd, hu2, hfr]
  · rw [← hpd]; exact hfp

/-! ### an answer that carries data -/

theorem acceptFragment_outpkt (c c' : Cli) (h : Hdr) (he : acceptFragment c h = some c') : c'.outpkt = c.outpkt := by
  unfold acceptFragment at he
  split at he
  · cases he; rfl
  · split at he
    · cases he; rfl
    · split at he
      · cases he
      · split at he
        · cases he
        · cases he; rfl

/-- the downstream fragment code does not touch the upstream packet -/
theorem downstream_outpkt (c : Cli) (h : Hdr) (buf : List Nat) (read : Int) (sn : Bool) :
    (downstream c h buf read sn).1.outpkt = c.outpkt := by
  unfold downstream
  split
  · cases he : acceptFragment c h with
    | none => rfl
    | some c' =>
      simp only
      have h1 := acceptFragment_outpkt c c' h he
      have h2 : (appendFragment c' h buf read).outpkt = c'.outpkt := rfl
      by_cases hl : h.last = true
      · simp only [hl, if_true]
        have h3 : (deliver (appendFragment c' h buf read)).1.outpkt = (appendFragment c' h buf read).outpkt := rfl
        split
        · show (deliver (appendFragment c' h buf read)).1.outpkt = _; rw [h3, h2, h1]
        · show (deliver (appendFragment c' h buf read)).1.outpkt = _; rw [h3, h2, h1]
      · simp only [hl, Bool.false_eq_true, if_false]
        split
        · show (appendFragment c' h buf read).outpkt = _; rw [h2, h1]
        · show (appendFragment c' h buf read).outpkt = _; rw [h2, h1]
  · rfl

/-- `tunnel_dns` on an answer with payload to one of the three most recent queries, when nothing is being sent
upstream, no ping is due, and the header does not name a recent OLD downstream packet: bookkeeping, the downstream
fragment code, and the final ping -/
theorem tunnelDns_payload (c : Cli) (rq : Rq) (hn : notData c rq.name0 = false) (hrv : 2 < rq.rv)
    (hbad : ¬ (rq.rv = 5 ∧ rq.buf.take 5 = ascii "BADIP"))
    (hid : recentId c rq.id = true) (hsps : c.sendPingSoon = 0) (hlz : c.lazymode = false)
    (hs : isSending c = false)
    (hdup : (decodeHdr rq.buf).dnSeq = c.inpkt.seqno ∨ Client.recentSeqno c.inpkt.seqno (decodeHdr rq.buf).dnSeq = false) :
    tunnelDns c rq =
      finalPing (downstream (ackBook c) (decodeHdr rq.buf) rq.buf rq.rv false).1
        (downstream (ackBook c) (decodeHdr rq.buf) rq.buf rq.rv false).2.1
        (downstream (ackBook c) (decodeHdr rq.buf) rq.buf rq.rv false).2.2 rq.rv := by
  have hc : { c with sendPingSoon := 0 } = c := by
    cases c; simp_all
  have hrid : recentId (countRecv c) rq.id = true := hid
  unfold tunnelDns
  simp only [hn, Bool.false_eq_true, if_false, hsps, bne_self_eq_false, hc]
  rw [if_neg (by omega), if_neg hbad]
  have hd : dupeSeqno c (decodeHdr rq.buf) rq.rv = (c, rq.rv) := by
    unfold dupeSeqno
    rw [if_neg]
    intro ⟨_, h2, h3⟩
    rcases hdup with h | h
    · exact h2 h
    · rw [h] at h3; exact absurd h3 (by decide)
  simp only [hd, hrid, Bool.not_true, Bool.false_eq_true, if_false]
  have hl : lazyHint { countRecv c with lastdownstreamtime := (countRecv c).now } rq.id =
      { countRecv c with lastdownstreamtime := (countRecv c).now } := by
    unfold lazyHint
    rw [if_neg (by simp [countRecv, hlz])]
  rw [hl]
  have hda : datalessAdopt { countRecv c with lastdownstreamtime := (countRecv c).now } (decodeHdr rq.buf) rq.rv =
      { countRecv c with lastdownstreamtime := (countRecv c).now } := by
    unfold datalessAdopt
    rw [if_neg (by omega)]
  rw [hda]
  have hab : ({ countRecv c with lastdownstreamtime := (countRecv c).now } : Cli) = ackBook c := rfl
  rw [hab]
  have hso : isSending (downstream (ackBook c) (decodeHdr rq.buf) rq.buf rq.rv false).1 = false := by
    unfold isSending
    rw [downstream_outpkt]
    exact hs
  unfold upstream
  rw [if_neg (by rw [hso]; simp)]

end Iodine.C02L
