import IodineModel.Lemmas.C02M6
/-
C02 / lazy mode, DOWNSTREAM — part 7: induction over the fragments, the whole packet (`down_packet_lazy_gen`,
`down_packet_lazy`) and sequences of packets (`down_sequence_lazy`).
-/
namespace Iodine.C02L
open Iodine Iodine.Gen Iodine.World

/-- scheduler steps of the last fragment: 3 (`deliverDown`, `tickC`, `deliverUp`), but 2 when it is the fragment that meets a
client at which a ping was due (`sps ≠ 0`; `R` = bytes left after the fragment in flight) -/
def lastStepsL (sps R : Nat) : Nat := if sps ≠ 0 ∧ R = 0 then 2 else 3

/-- scheduler steps of a downstream packet of `g` fragments in lazy mode (after `offerS`), `sps` = the client's
`send_ping_soon` in the quiescent state -/
def downStepsL (sps g : Nat) : Nat := if sps ≠ 0 ∧ g = 1 then 2 else 2 * g + 1

theorem down_flight_run_lazy {P : Par} (hP : P.Ok) {frame : List Nat} (h64 : (0x5a :: frame).length ≤ 65536) (h4 : 4 ≤ frame.length)
    {sq : Int} (F : Nat) :
    ∀ (fuel : Nat) (w : W) (o D f : Nat), DownFlightL P (0x5a :: frame) w sq o D f →
      (Server.getUser w.srv P.u).fragsize = F → (0x5a :: frame).length - (o + D) ≤ fuel →
      f + downFrags F fuel ((0x5a :: frame).length - (o + D)) < 16 →
      ∃ w', promptSteps P.u (2 * downFrags F fuel ((0x5a :: frame).length - (o + D)) +
            lastStepsL w.cs.c.sendPingSoon ((0x5a :: frame).length - (o + D))) w = some w' ∧ QuietLazy P w' ∧
        w'.cs.c.sendPingSoon = 0 ∧ w'.tunC = w.tunC ++ [tunImage frame] ∧ w'.tunS = w.tunS ∧
        (Server.getUser w'.srv P.u).fragsize = F ∧ (Server.getUser w'.srv P.u).tunIp = (Server.getUser w.srv P.u).tunIp := by
  -- the last fragment, in both variants
  have hlast : ∀ (w : W) (o D f : Nat), DownFlightL P (0x5a :: frame) w sq o D f → (Server.getUser w.srv P.u).fragsize = F →
      o + D = (0x5a :: frame).length → f < 16 →
      ∃ w', promptSteps P.u (lastStepsL w.cs.c.sendPingSoon 0) w = some w' ∧ QuietLazy P w' ∧
        w'.cs.c.sendPingSoon = 0 ∧ w'.tunC = w.tunC ++ [tunImage frame] ∧ w'.tunS = w.tunS ∧
        (Server.getUser w'.srv P.u).fragsize = F ∧ (Server.getUser w'.srv P.u).tunIp = (Server.getUser w.srv P.u).tunIp := by
    intro w o D f h hF heq hf
    by_cases hsps : w.cs.c.sendPingSoon = 0
    · obtain ⟨w', h1, h2, h3, h4', h5, h6, h7⟩ := down_last_lazy hP h hsps h64 h4 heq hf
      refine ⟨w', ?_, h2, h3, h4', h5, by rw [h6, hF], h7⟩
      unfold lastStepsL
      rw [if_neg (by intro hc; exact hc.1 hsps)]
      exact h1
    · obtain ⟨w', h1, h2, h3, h4', h5, h6, h7⟩ := down_last_lazy_now hP h hsps h64 h4 heq hf
      refine ⟨w', ?_, h2, h3, h4', h5, by rw [h6, hF], h7⟩
      unfold lastStepsL
      rw [if_pos ⟨hsps, rfl⟩]
      exact h1
  intro fuel
  induction fuel with
  | zero =>
    intro w o D f h hF hl hf
    have hle := h.hle
    have heq : o + D = (0x5a :: frame).length := by omega
    have hz : (0x5a :: frame).length - (o + D) = 0 := by omega
    rw [hz, downFrags_zero] at hf ⊢
    obtain ⟨w', h1, h2⟩ := hlast w o D f h hF heq (by omega)
    exact ⟨w', by simpa using h1, h2⟩
  | succ fuel ih =>
    intro w o D f h hF hl hf
    have hle := h.hle
    by_cases heq : o + D = (0x5a :: frame).length
    · have hz : (0x5a :: frame).length - (o + D) = 0 := by omega
      rw [hz, downFrags_zero] at hf ⊢
      obtain ⟨w', h1, h2⟩ := hlast w o D f h hF heq (by omega)
      exact ⟨w', by simpa using h1, h2⟩
    · have hlt : o + D < (0x5a :: frame).length := by omega
      have hr0 : (0x5a :: frame).length - (o + D) ≠ 0 := by omega
      have hu : downFrags F (fuel + 1) ((0x5a :: frame).length - (o + D)) =
          1 + downFrags F fuel ((0x5a :: frame).length - (o + D) - downLen F ((0x5a :: frame).length - (o + D))) := by
        show (if (0x5a :: frame).length - (o + D) = 0 then 0 else
          1 + downFrags F fuel ((0x5a :: frame).length - (o + D) - downLen F ((0x5a :: frame).length - (o + D)))) = _
        rw [if_neg hr0]
      have hls : lastStepsL w.cs.c.sendPingSoon ((0x5a :: frame).length - (o + D)) = 3 := by
        unfold lastStepsL
        rw [if_neg (by intro hc; exact hr0 hc.2)]
      rw [hu] at hf
      rw [hu, hls]
      obtain ⟨D', hD', w1, hs, hfl, hsps1, hts, htc, hfs, htip⟩ := down_mid_lazy hP h h64 hlt (by omega)
      rw [hF] at hD'
      rw [← hD'] at hf ⊢
      have hDpos := hfl.hD
      have hrest : (0x5a :: frame).length - (o + D + D') = (0x5a :: frame).length - (o + D) - D' := by omega
      obtain ⟨w', h1, h2, h3, h4', h5, h6, h7⟩ := ih w1 (o + D) D' (f + 1) hfl (by rw [hfs, hF])
        (by rw [hrest]; omega) (by rw [hrest]; omega)
      have hls1 : lastStepsL w1.cs.c.sendPingSoon ((0x5a :: frame).length - (o + D + D')) = 3 := by
        unfold lastStepsL
        rw [if_neg (by intro hc; exact hc.1 hsps1)]
      rw [hls1, hrest] at h1
      refine ⟨w', ?_, h2, h3, by rw [h4', htc], by rw [h5, hts], h6, by rw [h7, htip]⟩
      have := promptSteps_add P.u 2 (2 * downFrags F fuel ((0x5a :: frame).length - (o + D) - D') + 3) w w1 hs
      rw [h1] at this
      rw [← this]
      congr 1
      omega

/-- **One packet downstream, lazy mode** (general form).  From ANY quiescent joint state in lazy mode (the server holds the
client's most recent query), a frame offered to the server is cut into `g` fragments; the first one goes out at once as the
answer to the held query, and after `downStepsL sps g` steps of the prompt schedule — `2·g + 1`, except that a one-fragment
packet that meets a client at which a ping was due (`sps ≠ 0`) needs only 2 — the joint state is quiescent again (the server
now holds the ping that acknowledged the last fragment, and no ping is due at the client), the client has written exactly that
frame (with the tun header rewritten) to its tun device and the server nothing.  No clock advances: no timing hypotheses. -/
theorem down_packet_lazy_gen {P : Par} (hP : P.Ok) {w : W} (hq : QuietLazy P w) (frame : List Nat)
    (hF : 0 < (Server.getUser w.srv P.u).fragsize)
    (hok : DownFrameOk (Server.getUser w.srv P.u).tunIp (Server.getUser w.srv P.u).fragsize frame) :
    ∃ w', promptSteps P.u (downStepsL w.cs.c.sendPingSoon
          (downFrags (Server.getUser w.srv P.u).fragsize (frame.length + 1) (frame.length + 1)))
        (step w (.offerS frame)) = some w' ∧
      QuietLazy P w' ∧ w'.cs.c.sendPingSoon = 0 ∧ w'.tunC = w.tunC ++ [tunImage frame] ∧ w'.tunS = w.tunS ∧
      (Server.getUser w'.srv P.u).fragsize = (Server.getUser w.srv P.u).fragsize ∧
      (Server.getUser w'.srv P.u).tunIp = (Server.getUser w.srv P.u).tunIp := by
  obtain ⟨w1, hw1, hfl, ht1, ht2, htip1, hfs1, hcs1⟩ := down_offer_lazy hP hq frame hok.h24 hok.hl hok.dst hF
  generalize hFdef : (Server.getUser w.srv P.u).fragsize = F at hok hF hfl hfs1 ⊢
  rw [hw1]
  have hlen : (0x5a :: frame).length = frame.length + 1 := by simp
  rw [hlen] at hfl
  generalize hD : downLen F (frame.length + 1) = D at hfl
  have hDpos := hfl.hD
  have hu : downFrags F (frame.length + 1) (frame.length + 1) = 1 + downFrags F frame.length (frame.length + 1 - D) := by
    show (if frame.length + 1 = 0 then 0 else 1 + downFrags F frame.length (frame.length + 1 - downLen F (frame.length + 1))) = _
    rw [if_neg (by omega), hD]
  have hfr := hok.frags
  rw [hu] at hfr ⊢
  obtain ⟨w', h1, h2, h3, h4, h5, h6, h7⟩ := down_flight_run_lazy hP (frame := frame) (by rw [hlen]; have := hok.hl; omega)
    (by have := hok.h24; omega) F frame.length w1 0 D 0 hfl hfs1 (by rw [hlen]; omega)
    (by rw [hlen]; simp only [Nat.zero_add]; omega)
  rw [hlen, hcs1] at h1
  simp only [Nat.zero_add] at h1
  refine ⟨w', ?_, h2, h3, by rw [h4, ht2], by rw [h5, ht1], h6, by rw [h7, htip1]⟩
  rw [← h1]
  congr 1
  -- the two ways of counting agree
  unfold downStepsL lastStepsL
  by_cases hs0 : w.cs.c.sendPingSoon = 0
  · rw [if_neg (by intro hc; exact hc.1 hs0), if_neg (by intro hc; exact hc.1 hs0)]
    omega
  · by_cases hR : frame.length + 1 - D = 0
    · rw [hR, downFrags_zero, if_pos ⟨hs0, rfl⟩, if_pos ⟨hs0, rfl⟩]
    · have hg1 : 1 ≤ downFrags F frame.length (frame.length + 1 - D) := by
        cases hfl' : frame.length with
        | zero => have := hok.h24; omega
        | succ k =>
          rw [hfl'] at hR
          show 1 ≤ (if k + 1 + 1 - D = 0 then 0 else 1 + downFrags F k (k + 1 + 1 - D - downLen F (k + 1 + 1 - D)))
          rw [if_neg hR]; omega
      rw [if_neg (by intro hc; omega), if_neg (by intro hc; exact hR hc.2)]
      omega

/-- **One packet downstream, lazy mode**, from a quiescent state in which no ping is due at the client (as after every
downstream packet, and in a freshly established session): exactly `2·g + 1` scheduler steps. -/
theorem down_packet_lazy {P : Par} (hP : P.Ok) {w : W} (hq : QuietLazy P w) (hsps : w.cs.c.sendPingSoon = 0) (frame : List Nat)
    (hF : 0 < (Server.getUser w.srv P.u).fragsize)
    (hok : DownFrameOk (Server.getUser w.srv P.u).tunIp (Server.getUser w.srv P.u).fragsize frame) :
    ∃ w', promptSteps P.u (2 * downFrags (Server.getUser w.srv P.u).fragsize (frame.length + 1) (frame.length + 1) + 1)
        (step w (.offerS frame)) = some w' ∧
      QuietLazy P w' ∧ w'.cs.c.sendPingSoon = 0 ∧ w'.tunC = w.tunC ++ [tunImage frame] ∧ w'.tunS = w.tunS ∧
      (Server.getUser w'.srv P.u).fragsize = (Server.getUser w.srv P.u).fragsize ∧
      (Server.getUser w'.srv P.u).tunIp = (Server.getUser w.srv P.u).tunIp := by
  have := down_packet_lazy_gen hP hq frame hF hok
  unfold downStepsL at this
  rw [if_neg (by intro hc; exact hc.1 hsps)] at this
  exact this

theorem downStepsL_le (sps g : Nat) : downStepsL sps g ≤ 2 * g + 1 := by
  unfold downStepsL
  split <;> omega

/-- **A sequence of packets downstream, lazy mode**: each frame is offered to the server after the previous one was
delivered; all of them arrive at the client's tun device exactly once, in order; quiescent again.  (From ANY quiescent
state.) -/
theorem down_sequence_lazy {P : Par} (hP : P.Ok) (fuel : Nat) (hfuel : 33 ≤ fuel) :
    ∀ (frames : List (List Nat)) (w : W), QuietLazy P w →
      0 < (Server.getUser w.srv P.u).fragsize →
      (∀ f ∈ frames, DownFrameOk (Server.getUser w.srv P.u).tunIp (Server.getUser w.srv P.u).fragsize f) →
      QuietLazy P (offerAllS P.u fuel w frames) ∧
      (offerAllS P.u fuel w frames).tunC = w.tunC ++ frames.map tunImage ∧
      (offerAllS P.u fuel w frames).tunS = w.tunS := by
  intro frames
  induction frames with
  | nil => intro w hq _ _; exact ⟨hq, by simp [offerAllS], rfl⟩
  | cons f fs ih =>
    intro w hq hF hok
    have hf := hok f List.mem_cons_self
    obtain ⟨w', h1, h2, _, h4, h5, h6, h7⟩ := down_packet_lazy_gen hP hq f hF hf
    have hsteps : downStepsL w.cs.c.sendPingSoon
        (downFrags (Server.getUser w.srv P.u).fragsize (f.length + 1) (f.length + 1)) ≤ fuel := by
      have := hf.frags
      have := downStepsL_le w.cs.c.sendPingSoon (downFrags (Server.getUser w.srv P.u).fragsize (f.length + 1) (f.length + 1))
      omega
    have hrun : runPrompt P.u fuel (step w (.offerS f)) = w' := runPrompt_of_steps P.u _ _ _ h1 h2.quiet fuel hsteps
    have := ih w' h2 (by rw [h6]; exact hF) (fun g hg => by rw [h6, h7]; exact hok g (List.mem_cons_of_mem _ hg))
    unfold offerAllS
    rw [hrun]
    refine ⟨this.1, ?_, ?_⟩
    · rw [this.2.1, h4]; simp
    · rw [this.2.2, h5]

end Iodine.C02L
