import IodineModel.Lemmas.C02rA5
import IodineModel.Lemmas.C02rA6
import IodineModel.Lemmas.C02rA2
/-
C02 phase 3, sub-package "lift" (7): THE BRIDGE from "arbitrary fault prefix" to the clean path (World level, immediate mode,
one-fragment packets upstream).

What has to be true of the joint state after the fault prefix (`Recoverable P n w`):
* `QuietBut P w` (C02qA6): both sides idle (client not sending, nothing in flight, server slot without outpacket / stored
  query / queued packets), the two 3-bit sequence numbers in sync (`d = 0`; `d ≤ 3` is the business of `C02qU*`/`C02qD*`), both
  60-second clocks not expired (`CStat.alive`: `lastdownstreamtime + 60 ≥ now`; `SStat.live`: `now < lastPkt + 60`);
* `RingWF` of the slot — NOT a hypothesis about the prefix: it holds after every schedule from every configured server
  (`srvWF_run`, C02rA2);
* `FreshNext P slot datacmc n` (C02rA6): no entry of `qmemdata`/`dnscache` collides with one of the next `n` data-CMC values while it is
  still in its ring.  This is what can fail (`qa_dropC_not_fresh`), and then costs one client timeout per collision.
Then (`renew_packet_rA`, `renew_sequence_rA`): the next `n` one-fragment packets are delivered exactly as on the clean path — 3
prompt scheduler events each, written once and in order to the server's tun device — and the state stays `Recoverable`, the number
of KNOWN-aged ring positions growing by one per packet.  After 15 packets `Aged … 1` holds again (`renewed_aged_rA`); with
`PAged … 1` at the start — or after 30 clean ping cycles (`CleanBoth.renewed`, slot level) — the state is `QuietImm`
(`renewed_quietImm_rA`), from which all the clean-path theorems of `Props/C02.lean` apply.
-/
namespace Iodine.C02L
open Iodine Iodine.Gen Iodine.World

theorem QuietBut.quiet {P : Par} {w : W} (h : QuietBut P w) : quiet P.u w = true := by
  unfold World.quiet
  simp [h.up, h.down, h.idleC, h.idle.out, h.oq, h.idle.qs, h.idle.lazy, h.idle.q]

theorem QuietImm.but {P : Par} {w : W} (h : QuietImm P w) : QuietBut P w := (quietImm_iff_but.1 h).1

/-- a frame that travels upstream as ONE fragment: an IP packet, made of bytes, not addressed to the client's own tunnel
address, whose compressed form fits one query name -/
structure UpFrame1 (P : Par) (tunIp : Nat) (frame : List Nat) : Prop where
  h24 : 24 ≤ frame.length
  hl : frame.length < 65536
  bytes : Codec.Bytes frame
  dst : Server.ipDst frame ≠ tunIp
  one : fragLen P (0x5a :: frame) = (0x5a :: frame).length

/-- `UpFrame1` is `UpFrameOk` (C02v10) with exactly one fragment -/
theorem UpFrame1.ok {P : Par} {t : Nat} {f : List Nat} (h : UpFrame1 P t f) :
    UpFrameOk P t f ∧ upFrags P (f.length + 1) (0x5a :: f) = 1 := by
  have : upFrags P (f.length + 1) (0x5a :: f) = 1 := by
    unfold upFrags
    rw [if_neg (by simp), h.one, List.drop_length, upFrags_nil]
  exact ⟨⟨h.h24, h.hl, h.bytes, h.dst, by omega⟩, this⟩

/-- **one one-fragment packet from a state that is quiescent but for the freshness clauses**, if the data-CMC value of its
query is not remembered (`Fresh … 1`): delivered by the 3 prompt events of the clean path; the memories of the slot afterwards
are those of `memo x0 Q ans` for the query `Q` that carried the counter value. -/
theorem up1_packet_rA {P : Par} (hP : P.Ok) {w : W} (hq : QuietBut P w)
    (hfr : Fresh P (Server.getUser w.srv P.u) w.cs.c.datacmc (0 + 1)) (frame : List Nat)
    (hf : UpFrame1 P (Server.getUser w.srv P.u).tunIp frame) :
    ∃ w', promptSteps P.u 3 (step w (.offerC frame)) = some w' ∧ QuietBut P w' ∧
      w'.tunS = w.tunS ++ [[0, 0, 8, 0] ++ frame.drop 4] ∧ w'.tunC = w.tunC ∧
      (Server.getUser w'.srv P.u).tunIp = (Server.getUser w.srv P.u).tunIp ∧
      w'.cs.c.datacmc = (w.cs.c.datacmc + 1) % 36 ∧ w'.cs.c.randSeed = w.cs.c.randSeed ∧
      ∃ (x0 : Server.Session) (Q : Server.Query) (ans : List Nat), MemEq x0 (Server.getUser w.srv P.u) ∧
        MemEq (Server.getUser w'.srv P.u) (cacheUpd (qmemUpd x0 Q) Q ans) ∧ ans.length ≤ DNSCACHE_ANSWER_SIZE ∧
        Q.name.getD 0 0 = hexLower P.u ∧ Q.name.getD 4 0 = cmcChar w.cs.c.datacmc ∧ 5 ≤ Q.name.length := by
  have hne : frame ≠ [] := by intro hc; have := hf.h24; rw [hc] at this; simp at this
  obtain ⟨w1, hw1, hfl, ht1, ht2⟩ := up_offer_rA hP hq frame hne hf.hl hf.bytes
  have hsrv : w1.srv = w.srv := by
    rw [← hw1]
    have hsel : tunSelC w = true := by
      unfold tunSelC Client.pending
      rw [hq.ph]
      simp [Client.selectOf, hq.idleC]
    rw [step_offerC w frame hsel]
    unfold stepC
    have : (Client.cstep w.cs (.tun frame)).1.c.now = w.cs.c.now := by
      have := hfl.cli
      rw [← hw1, step_offerC w frame hsel] at this
      have h2 : (stepC w (.tun frame)).cs = (Client.cstep w.cs (.tun frame)).1 := rfl
      rw [h2] at this
      rw [this]
      exact (sentFacts _).now
    simp only [this, Nat.sub_self, Nat.add_zero]
  obtain ⟨w', h1, h2, h3, h4, _, h6, _, _, _, h10, h11, x0, Q, ans, m1, m2, hans, c0, c4, l5⟩ :=
    last_step_rA hP hfl (by rw [hsrv]; exact hfr) (by have := hf.hl; simp; omega) (by simpa using hf.one) hf.h24
      (by rw [hsrv]; exact hf.dst)
  rw [hw1]
  exact ⟨w', h1, h2, by rw [h3, ht1], by rw [h4, ht2], by rw [h6, hsrv], h10, h11, x0, Q, ans, by rw [← hsrv]; exact m1, m2, hans,
    c0, c4, l5⟩

/-! ### the state during the renewal -/

/-- **what remains to be assumed about the fault prefix**: the joint state is quiescent but for the freshness clauses, and no
remembered entry collides with the next `n` data-CMC values while it is in its ring; `nq` / `nc`: how many of the newest entries
of `qmemdata` / `dnscache` are known to be aged with slack 1 (nothing: `0 0`, see `Recoverable.start`) -/
structure Recoverable (P : Par) (nq nc n : Nat) (w : W) : Prop where
  but : QuietBut P w
  aged : AgedTo P (Server.getUser w.srv P.u) w.cs.c.datacmc nq nc 1
  fresh : FreshNext P (Server.getUser w.srv P.u) w.cs.c.datacmc n

/-- nothing needs to be known about the contents of the memories beyond `FreshNext` -/
theorem Recoverable.start {P : Par} {n : Nat} {w : W} (hq : QuietBut P w) (hwf : RingWF (Server.getUser w.srv P.u))
    (hfr : FreshNext P (Server.getUser w.srv P.u) w.cs.c.datacmc n) : Recoverable P 0 0 n w :=
  ⟨hq, AgedTo.of_wf hwf _ _, hfr⟩

/-- the invariant of the clean path is an instance (`n ≤ 21`) -/
theorem QuietImm.recoverable {P : Par} {w : W} (h : QuietImm P w) : Recoverable P 15 4 21 w :=
  ⟨h.but, h.aged.to h.paged.plen h.paged.plast 15 4, h.aged.freshNext h.cst.cmc 21 (by decide)⟩

theorem Recoverable.mono {P : Par} {nq nc n nq' nc' n' : Nat} {w : W} (h : Recoverable P nq nc n w) (h1 : nq' ≤ nq)
    (h2 : nc' ≤ nc) (h3 : n' ≤ n) : Recoverable P nq' nc' n' w :=
  ⟨h.but, h.aged.mono h1 h2 (Nat.le_refl 1), h.fresh.mono h3⟩

/-- **one packet of the renewal**: delivered as on the clean path; one more position of each data ring is known to be aged, one
value of the `FreshNext` budget is used up; the ping clause, whatever its slack, is carried along -/
theorem renew_packet_rA {P : Par} (hP : P.Ok) {nq nc n : Nat} {w : W} (h : Recoverable P nq nc (n + 1) w) (frame : List Nat)
    (hf : UpFrame1 P (Server.getUser w.srv P.u).tunIp frame) :
    ∃ w', promptSteps P.u 3 (step w (.offerC frame)) = some w' ∧ Recoverable P (nq + 1) (nc + 1) n w' ∧
      w'.tunS = w.tunS ++ [[0, 0, 8, 0] ++ frame.drop 4] ∧ w'.tunC = w.tunC ∧
      (Server.getUser w'.srv P.u).tunIp = (Server.getUser w.srv P.u).tunIp ∧ w'.cs.c.randSeed = w.cs.c.randSeed ∧
      (∀ sd sl, PAged P (Server.getUser w.srv P.u) sd sl → PAged P (Server.getUser w'.srv P.u) sd sl) := by
  have hk := h.but.cst.cmc
  have hwf := h.aged.wf
  obtain ⟨w', h1, h2, h3, h4, h5, h6, h7, x0, Q, ans, m1, m2, hans, c0, c4, l5⟩ :=
    up1_packet_rA hP h.but (h.fresh.fresh hwf hk) frame hf
  have hnp := hexLower_not_ping hP.hu
  refine ⟨w', h1, ⟨h2, ?_, ?_⟩, h3, h4, h5, h7, ?_⟩
  · rw [h6]
    have hb : Behind 36 ((w.cs.c.datacmc + 1) % 36) w.cs.c.datacmc 1 := behind_next _ hk
    exact (((h.aged.memEq m1).step hk (by decide)).memo Q ans hans _ 1 ⟨Nat.le_refl 1, Nat.le_refl 1⟩ hb hk c4 l5
      (by rw [c0]; exact hnp)).memEq m2
  · rw [h6]
    exact ((h.fresh.memEq m1).memo (hwf.memEq m1) hk Q ans hans c4 l5 (by rw [c0]; exact hnp)).memEq m2
  · intro sd sl hp
    exact ((hp.memEq m1).memo_data hP.hu Q ans hans l5 c0).memEq m2

/-- **a sequence of packets of the renewal**: each frame is offered after the previous one was delivered (prompt schedule);
if the `FreshNext` budget covers them, all arrive exactly once, in order, as on the clean path -/
theorem renew_sequence_rA {P : Par} (hP : P.Ok) (fuel : Nat) (hfuel : 3 ≤ fuel) :
    ∀ (frames : List (List Nat)) (nq nc n : Nat) (w : W), Recoverable P nq nc (n + frames.length) w →
      (∀ f ∈ frames, UpFrame1 P (Server.getUser w.srv P.u).tunIp f) →
      Recoverable P (nq + frames.length) (nc + frames.length) n (offerAllC P.u fuel w frames) ∧
      (offerAllC P.u fuel w frames).tunS = w.tunS ++ frames.map tunImage ∧
      (offerAllC P.u fuel w frames).tunC = w.tunC ∧
      (offerAllC P.u fuel w frames).cs.c.randSeed = w.cs.c.randSeed ∧
      (∀ sd sl, PAged P (Server.getUser w.srv P.u) sd sl →
        PAged P (Server.getUser (offerAllC P.u fuel w frames).srv P.u) sd sl) := by
  intro frames
  induction frames with
  | nil => intro nq nc n w h _; exact ⟨h, by simp [offerAllC], rfl, rfl, fun _ _ hp => hp⟩
  | cons f fs ih =>
    intro nq nc n w h hok
    have hf := hok f List.mem_cons_self
    have h' : Recoverable P nq nc (n + fs.length + 1) w := by
      have : n + (f :: fs).length = n + fs.length + 1 := by simp; omega
      rw [this] at h; exact h
    obtain ⟨w', h1, h2, h3, h4, h5, h6, h7⟩ := renew_packet_rA hP h' f hf
    have hrun : runPrompt P.u fuel (step w (.offerC f)) = w' := runPrompt_of_steps P.u _ _ _ h1 h2.but.quiet fuel hfuel
    obtain ⟨i1, i2, i3, i4, i5⟩ := ih (nq + 1) (nc + 1) n w' h2 (fun g hg => by rw [h5]; exact hok g (List.mem_cons_of_mem _ hg))
    unfold offerAllC
    rw [hrun]
    refine ⟨?_, ?_, ?_, ?_, ?_⟩
    · have e1 : nq + (f :: fs).length = nq + 1 + fs.length := by simp; omega
      have e2 : nc + (f :: fs).length = nc + 1 + fs.length := by simp; omega
      rw [e1, e2]; exact i1
    · rw [i2, h3]; simp [tunImage]
    · rw [i3, h4]
    · rw [i4, h6]
    · intro sd sl hp; exact i5 sd sl (h7 sd sl hp)

/-- **RENEWAL, World level (data half).**  After ANY fault prefix that leaves the joint state quiescent but for the freshness
clauses, with `FreshNext` for as many data-CMC values as packets follow: 15 or more one-fragment packets on the prompt loss-free
path are delivered exactly once and in order, and afterwards `Aged … 1` holds again. -/
theorem renewed_aged_rA {P : Par} (hP : P.Ok) (fuel : Nat) (hfuel : 3 ≤ fuel) (frames : List (List Nat)) (w : W)
    (hq : QuietBut P w) (hwf : RingWF (Server.getUser w.srv P.u))
    (hfr : FreshNext P (Server.getUser w.srv P.u) w.cs.c.datacmc frames.length) (h15 : 15 ≤ frames.length)
    (hok : ∀ f ∈ frames, UpFrame1 P (Server.getUser w.srv P.u).tunIp f) :
    QuietBut P (offerAllC P.u fuel w frames) ∧
    Aged P (Server.getUser (offerAllC P.u fuel w frames).srv P.u) (offerAllC P.u fuel w frames).cs.c.datacmc 1 ∧
    (offerAllC P.u fuel w frames).tunS = w.tunS ++ frames.map tunImage ∧ (offerAllC P.u fuel w frames).tunC = w.tunC := by
  obtain ⟨h1, h2, h3, _, _⟩ := renew_sequence_rA hP fuel hfuel frames 0 0 0 w
    (by rw [Nat.zero_add]; exact Recoverable.start hq hwf hfr) hok
  exact ⟨h1.but, h1.aged.aged (by omega) (by omega), h2, h3⟩

/-- **RENEWAL, World level: back to `QuietImm`.**  If in addition the ping memories are fresh (`PAged … 1`: true when no ping
was lost or late in the prefix — e.g. after the 104-event prefix of the counterexample, `qa_dropC_quiet` —, or after 30 clean
ping cycles, `CleanBoth.renewed`), the state after the 15 packets is `QuietImm`: the invariant of ALL the clean-path theorems. -/
theorem renewed_quietImm_rA {P : Par} (hP : P.Ok) (fuel : Nat) (hfuel : 3 ≤ fuel) (frames : List (List Nat)) (w : W)
    (hq : QuietBut P w) (hwf : RingWF (Server.getUser w.srv P.u))
    (hfr : FreshNext P (Server.getUser w.srv P.u) w.cs.c.datacmc frames.length) (h15 : 15 ≤ frames.length)
    (hok : ∀ f ∈ frames, UpFrame1 P (Server.getUser w.srv P.u).tunIp f)
    (hp : PAged P (Server.getUser w.srv P.u) w.cs.c.randSeed 1) :
    QuietImm P (offerAllC P.u fuel w frames) ∧
    (offerAllC P.u fuel w frames).tunS = w.tunS ++ frames.map tunImage ∧ (offerAllC P.u fuel w frames).tunC = w.tunC := by
  obtain ⟨h1, h2, h3, h4, h5⟩ := renew_sequence_rA hP fuel hfuel frames 0 0 0 w
    (by rw [Nat.zero_add]; exact Recoverable.start hq hwf hfr) hok
  refine ⟨quietImm_iff_but.2 ⟨h1.but, h1.aged.aged (by omega) (by omega), ?_⟩, h2, h3⟩
  rw [h4]
  exact h5 _ _ hp

/-- the same from the result of a run: `RingWF` is not a hypothesis about the prefix -/
theorem renewed_after_run_rA {P : Par} (hP : P.Ok) (fuel : Nat) (hfuel : 3 ≤ fuel) (frames : List (List Nat)) (w0 : W)
    (hw0 : SrvWF w0.srv) (prefix_ : List Ev)
    (hq : QuietBut P (run w0 prefix_))
    (hfr : FreshNext P (Server.getUser (run w0 prefix_).srv P.u) (run w0 prefix_).cs.c.datacmc frames.length)
    (h15 : 15 ≤ frames.length) (hok : ∀ f ∈ frames, UpFrame1 P (Server.getUser (run w0 prefix_).srv P.u).tunIp f) :
    QuietBut P (offerAllC P.u fuel (run w0 prefix_) frames) ∧
    Aged P (Server.getUser (offerAllC P.u fuel (run w0 prefix_) frames).srv P.u)
      (offerAllC P.u fuel (run w0 prefix_) frames).cs.c.datacmc 1 ∧
    (offerAllC P.u fuel (run w0 prefix_) frames).tunS = (run w0 prefix_).tunS ++ frames.map tunImage ∧
    (offerAllC P.u fuel (run w0 prefix_) frames).tunC = (run w0 prefix_).tunC :=
  renewed_aged_rA hP fuel hfuel frames _ hq ((srvWF_run prefix_ hw0).get P.u) hfr h15 hok

end Iodine.C02L
