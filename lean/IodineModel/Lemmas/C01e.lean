import IodineModel.Lemmas.C01b
import IodineModel.Lemmas.C01d
/-
Helper lemmas for C01, part e: the server's reassembly machine `sxStep` fed with the fragments of one image in order,
duplicates in between.
-/
namespace Iodine.C01L
open Iodine Iodine.Server Iodine.Gen

/-- the state of `inpacket` after `k` fragments of the image have been taken -/
def SxInv (s : Nat) (fs : List (List Nat)) (k : Nat) (p : Packet) : Prop :=
  if k = 0 then p.seqno ≠ (s : Int) ∧ recentSeqno p.seqno (s : Int) = false
  else p.seqno = (s : Int) ∧ p.fragment = ((k - 1 : Nat) : Int) ∧
    (if k < fs.length then p.len = (pre fs k).length ∧ p.offset = (pre fs k).length ∧ p.data.take p.offset = pre fs k
     else p.len = 0 ∧ p.offset = 0)

/-- a header the sequence bookkeeping refuses: the current seqno with a fragment number not above the current one, or
one of the three seqnos before the current one -/
def OldUp (p : Packet) (a b : Nat) : Prop :=
  ((a : Int) = p.seqno ∧ (b : Int) ≤ p.fragment) ∨ ((a : Int) ≠ p.seqno ∧ recentSeqno p.seqno a = true)

theorem sxUp_old {p : Packet} {a b : Nat} (h : OldUp p a b) : sxUp p a b = (p, false) := by
  unfold sxUp
  rcases h with h | h
  · rw [if_pos h]
  · rw [if_neg (fun h' => h.1 h'.1), if_pos ⟨h.1, h.2⟩]

theorem sxStep_old {p : Packet} {a b : Nat} (h : OldUp p a b) (last : Bool) (unp : List Nat) :
    sxStep p a b last unp = (p, none) := by
  unfold sxStep sxTake
  rw [sxUp_old h]
  simp

theorem sxTake_next {s : Nat} {fs : List (List Nat)} (hc : Cut s fs) {k : Nat} {p : Packet}
    (hk : k < fs.length) (hinv : SxInv s fs k p) :
    (sxUp p s k).2 = true ∧
    sxTake p s k (fs.getD k []) =
      { p with seqno := (s : Int), fragment := (k : Int), data := pre fs (k + 1), len := (pre fs (k + 1)).length,
               offset := (pre fs (k + 1)).length } := by
  have hsz := hc.size
  have hpl := pre_length_le fs (k + 1)
  rw [pre_succ fs k hk, List.length_append] at hpl
  unfold SxInv at hinv
  by_cases hk0 : k = 0
  · subst hk0
    simp only [if_true] at hinv
    obtain ⟨hne, hnr⟩ := hinv
    have hup : sxUp p s 0 = ({ p with seqno := (s : Int), fragment := ((0 : Nat) : Int), len := 0, offset := 0 }, true) := by
      unfold sxUp
      rw [if_neg (fun h => hne h.1.symm), if_neg (by rw [hnr]; simp), if_pos (Ne.symm hne)]
    refine ⟨by rw [hup], ?_⟩
    unfold sxTake
    rw [hup]
    simp only [if_true]
    unfold sxStore
    have h1 := pre_succ fs 0 hk
    simp only [pre, List.take_zero, List.flatten_nil, List.nil_append, List.length_nil, Nat.zero_add] at h1 hpl
    simp only [List.take_zero, List.nil_append, Nat.sub_zero, Nat.zero_add]
    rw [List.take_of_length_le (by omega)]
    unfold pre; rw [h1]
  · simp only [hk0, if_false, hk, if_true] at hinv
    obtain ⟨hseq, hfrag, hlen, hoff, hdata⟩ := hinv
    have hup : sxUp p s k = ({ p with fragment := (k : Int) }, true) := by
      have c1 : ¬ ((s : Int) = p.seqno ∧ (k : Int) ≤ p.fragment) := by rw [hfrag]; omega
      have c2 : ¬ ((s : Int) ≠ p.seqno ∧ recentSeqno p.seqno s = true) := by rw [hseq]; simp
      have c3 : ¬ ((s : Int) ≠ p.seqno) := by rw [hseq]; simp
      unfold sxUp
      rw [if_neg c1, if_neg c2, if_neg c3]
    refine ⟨by rw [hup], ?_⟩
    unfold sxTake
    rw [hup]
    simp only [if_true]
    unfold sxStore
    simp only [hdata]
    simp only [hoff, hlen]
    rw [List.take_of_length_le (by omega), pre_succ fs k hk, List.length_append, ← hseq]

theorem sxStep_next {s : Nat} {fs : List (List Nat)} (hc : Cut s fs) {k : Nat} {p : Packet}
    (hk : k < fs.length) (hinv : SxInv s fs k p) :
    (sxStep p s k (decide (k + 1 = fs.length)) (fs.getD k [])).2 =
      (if k + 1 = fs.length then some fs.flatten else none) ∧
    SxInv s fs (k + 1) (sxStep p s k (decide (k + 1 = fs.length)) (fs.getD k [])).1 := by
  obtain ⟨hup, htk⟩ := sxTake_next hc hk hinv
  unfold sxStep
  rw [htk, hup]
  by_cases hlast : k + 1 = fs.length
  · simp only [hlast, decide_true, and_self, if_true]
    refine ⟨?_, ?_⟩
    · rw [List.take_of_length_le (Nat.le_refl _), pre_all]
    · unfold SxInv
      rw [if_neg (by omega), if_neg (by omega)]
      exact ⟨rfl, by show (k : Int) = _; omega, rfl, rfl⟩
  · simp only [hlast, decide_false, Bool.false_eq_true, and_false, if_false]
    refine ⟨trivial, ?_⟩
    unfold SxInv
    have hlt : k + 1 < fs.length := by omega
    rw [if_neg (by omega), if_pos hlt]
    exact ⟨rfl, by simp, rfl, rfl, List.take_of_length_le (Nat.le_refl _)⟩

/-- a copy of fragment `j < k` (or of anything with a stale seqno) is refused -/
theorem oldUp_of_dup {s : Nat} {fs : List (List Nat)} {k j : Nat} {p : Packet} (hj : j < k) (hinv : SxInv s fs k p) :
    OldUp p s j := by
  unfold SxInv at hinv
  rw [if_neg (by omega)] at hinv
  left
  rw [hinv.1, hinv.2.1]
  exact ⟨rfl, by omega⟩


/-! ### what the kinds of steps do to the buffer of slot `u` -/

/-- the data part of a query name as `handle_null_request` gets it (`in[]`) -/
def inbOfQ (e : Srv) (q : Query) : List Nat :=
  q.name.take (min ((Common.queryDatalen q.name e.cfg.topdomain).getD 0) 512)

theorem hexCode_86 : hexCode 86 = -1 := by decide
theorem hexCode_118 : hexCode 118 = -1 := by decide
theorem hexCode_80 : hexCode 80 = -1 := by decide
theorem hexCode_112 : hexCode 112 = -1 := by decide

/-- a query that neither names `u` as a data query nor can allocate slot `u` leaves `u`'s buffer alone -/
theorem keep_q (e : Srv) (q : Query) (ts : Bool) (u : Nat)
    (h1 : hexCode ((inbOfQ e q).getD 0 0) ≠ (u : Int))
    (h2 : ((inbOfQ e q).getD 0 0 = 86 ∨ (inbOfQ e q).getD 0 0 = 118) → (findAvailableUser e).1 ≠ some u) :
    (getUser (dispatch e (.q q) ts).1 u).inpacket = (getUser e u).inpacket := by
  rcases dispatch_class e (.q q) ts with h | ⟨q', dlen, hq, hd, hv, he⟩ | ⟨q', u', dlen, hq, hd, _, _, hu, hlt, _, he⟩ |
      ⟨_, _, hq, _⟩
  · exact h.same.eq u
  · cases hq
    unfold inbOfQ at h2
    rw [hd] at h2
    rw [he]
    exact (handleVersion_in e q _).1 u (h2 hv)
  · cases hq
    unfold inbOfQ at h1
    rw [hd] at h1
    have hne : u ≠ u' := fun h => h1 (by rw [h]; exact hu)
    rw [he]
    exact (dataFresh_sx e u' q _ hlt).2.1 u hne
  · cases hq

theorem keep_raw (e : Srv) (src : Addr) (bytes : List Nat) (ts : Bool) (u : Nat)
    (h : (bytes.take 65536).getD 3 0 &&& RAW_HDR_USR_MASK ≠ u) :
    (getUser (dispatch e (.rawf src bytes) ts).1 u).inpacket = (getUser e u).inpacket := by
  rcases dispatch_class e (.rawf src bytes) ts with h' | ⟨_, _, hq, _⟩ | ⟨_, _, _, hq, _⟩ | ⟨src', bytes', hq, _, he⟩
  · exact h'.same.eq u
  · cases hq
  · cases hq
  · cases hq
    rw [he, handleFullPacket_in, if_neg (fun hh => h hh.1.symm)]
    unfold rawStored
    rw [C04L.getUser_setUser_ne _ _ _ _ (Ne.symm h)]

theorem keep_quiet (e : Srv) (inp : Input) (ts : Bool) (u : Nat)
    (h : match inp with | .q _ => False | .rawf _ _ => False | _ => True) :
    (getUser (dispatch e inp ts).1 u).inpacket = (getUser e u).inpacket := by
  rcases dispatch_class e inp ts with h' | ⟨_, _, hq, _⟩ | ⟨_, _, _, hq, _⟩ | ⟨_, _, hq, _⟩
  · exact h'.same.eq u
  all_goals (subst hq; exact h.elim)

/-- a ping (of any session) is inert -/
theorem own_ping (e : Srv) (q : Query) (ts : Bool)
    (h : (inbOfQ e q).getD 0 0 = 80 ∨ (inbOfQ e q).getD 0 0 = 112) : Inert e (dispatch e (.q q) ts) := by
  rcases dispatch_class e (.q q) ts with h' | ⟨q', dlen, hq, hd, hv, _⟩ | ⟨q', u', dlen, hq, hd, _, _, hu, _⟩ |
      ⟨_, _, hq, _⟩
  · exact h'
  · cases hq
    unfold inbOfQ at h; rw [hd] at h
    simp only [Option.getD_some] at h
    omega
  · cases hq
    unfold inbOfQ at h; rw [hd] at h
    simp only [Option.getD_some] at h
    rcases h with h | h <;> rw [h] at hu
    · rw [hexCode_80] at hu; omega
    · rw [hexCode_112] at hu; omega
  · cases hq

/-- a data query of `u` whose header the sequence bookkeeping refuses: `u`'s buffer stays, nothing goes to tun -/
theorem own_old (e : Srv) (q : Query) (ts : Bool) (u : Nat)
    (h1 : hexCode ((inbOfQ e q).getD 0 0) = (u : Int))
    (h2 : OldUp (getUser e u).inpacket (upHdr (inbOfQ e q)).1 (upHdr (inbOfQ e q)).2.1) :
    (getUser (dispatch e (.q q) ts).1 u).inpacket = (getUser e u).inpacket ∧ stunws (dispatch e (.q q) ts).2 = [] := by
  rcases dispatch_class e (.q q) ts with h' | ⟨q', dlen, hq, hd, hv, _⟩ | ⟨q', u', dlen, hq, hd, _, _, hu, hlt, _, he⟩ |
      ⟨_, _, hq, _⟩
  · exact ⟨h'.same.eq u, h'.quiet⟩
  · cases hq
    unfold inbOfQ at h1; rw [hd] at h1
    simp only [Option.getD_some] at h1
    rcases hv with hv | hv <;> rw [hv] at h1
    · rw [hexCode_86] at h1; omega
    · rw [hexCode_118] at h1; omega
  · cases hq
    unfold inbOfQ at h1 h2; rw [hd] at h1 h2
    simp only [Option.getD_some] at h1 h2
    have hu' : u' = u := by
      have := hu.symm.trans h1
      exact Int.ofNat_inj.mp this
    subst hu'
    obtain ⟨a, _, c⟩ := dataFresh_sx e u' q _ hlt
    rw [he, a, c, sxStep_old h2]
    exact ⟨rfl, rfl⟩
  · cases hq


/-! ### the completed packet is handed on unchanged -/

/-- what `handle_full_packet` does with a buffer that holds exactly `img`: drop it (does not decompress to an IP
header), write the decompressed packet to tun, or hand the still compressed image `img` to the client that owns the
destination address (`deliverToUser`: new outpacket, outpacket queue, or raw frame) -/
def handOn (s : Srv) (img : List Nat) : Res :=
  match uncompress img 65536 with
  | some out =>
    if out.length ≥ 4 + 20 then
      match findUserByIp s (ipDst out) with
      | none => (s, [writeTun out])
      | some t => deliverToUser s t img img.length
    else (s, [])
  | none => (s, [])

theorem deliverToUser_img (s : Srv) (t : Nat) (D : List Nat) (L : Nat) (img : List Nat)
    (h : D.take L = img) (hL : L = img.length) (h64 : L ≤ PACKET_DATA_SIZE) :
    deliverToUser s t D L = deliverToUser s t img img.length := by
  subst h
  rw [← hL]
  have hm : min L PACKET_DATA_SIZE = L := by omega
  have ht : (List.take L D).take L = List.take L D := by rw [List.take_take, Nat.min_self]
  have e1 : startNewOutpacket s t D L = startNewOutpacket s t (List.take L D) L := by
    unfold startNewOutpacket
    simp only [hm, ht]
  have e2 : saveToOutpacketq s t D L = saveToOutpacketq s t (List.take L D) L := by
    unfold saveToOutpacketq
    simp only [hm, ht]
  have e3 : ∀ q, sendRaw D L t RAW_HDR_CMD_DATA q = sendRaw (List.take L D) L t RAW_HDR_CMD_DATA q := by
    intro q
    unfold sendRaw
    dsimp only
    have : D.take (min (4096 - RAW_HDR_LEN) L) = (List.take L D).take (min (4096 - RAW_HDR_LEN) L) := by
      rw [List.take_take]
      congr 1
      omega
    rw [this]
  unfold deliverToUser
  dsimp only
  rw [e1, e2, e3]

theorem handleFullPacket_handOn (s : Srv) (u : Nat) (img : List Nat)
    (h : (getUser s u).inpacket.data.take (getUser s u).inpacket.len = img)
    (hL : (getUser s u).inpacket.len = img.length) (h64 : img.length ≤ PACKET_DATA_SIZE) :
    handleFullPacket s u =
      (setUser (handOn s img).1 u fun y => { y with inpacket := { y.inpacket with len := 0, offset := 0 } },
       (handOn s img).2) := by
  unfold handleFullPacket handOn
  dsimp only
  rw [h]
  cases uncompress img 65536 with
  | none => rfl
  | some out =>
    dsimp only
    split
    · cases findUserByIp s (ipDst out) with
      | none => rfl
      | some t =>
        dsimp only
        rw [deliverToUser_img s t _ _ img h hL (by omega)]
    · rfl

end Iodine.C01L
