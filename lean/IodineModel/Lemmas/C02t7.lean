import IodineModel.Lemmas.C02t5
/-
TESTS, part 7 — the give-up run in LAZY mode (kernel-evaluated): one packet offered while every upstream datagram is lost.
The same nine events as in immediate mode (`dropUp`, then `tickC dropUp` four times), 4 s; the server is untouched and still
holds the query it held; the client is still in lazy mode, one sequence number ahead, and has counted 6 queries sent, none
answered — the NEXT query trips `send_query`'s "too few answers" test (`sendcnt > 6 ∧ recvcnt = 0`): first `selecttimeout := 1`,
after seven more unanswered queries lazy mode is switched OFF on the client only (five lazy-off queries at 1 s each, during
which no tun frame is read).  So a second and third give-up in lazy mode are not repetitions of the first.
-/
namespace Iodine.C02L
open Iodine Iodine.World

/-- the state after the first give-up run from the lazy demo session -/
def lazyGaveUp1 : W := runSched blackoutEvUp 9 (step (demoLazy .b32 .b32) (.offerC (demoFrame 9 4)))

theorem test_giveup_up_lazy_1 :
    (lazyGaveUp1.cs.c.outpkt.seqno == 1 && (Server.getUser lazyGaveUp1.srv 0).inpacket.seqno == 0 && quiet 0 lazyGaveUp1 &&
     lazyGaveUp1.tunS == [] && lazyGaveUp1.cs.c.lazymode && lazyGaveUp1.cs.c.selecttimeout == 4 &&
     lazyGaveUp1.cs.c.sendcnt == 6 && lazyGaveUp1.cs.c.recvcnt == 0 && lazyGaveUp1.cs.c.now == (demoLazy .b32 .b32).cs.c.now + 4 &&
     (Server.getUser lazyGaveUp1.srv 0).q == (Server.getUser (demoLazy .b32 .b32).srv 0).q) = true := by
  decide +kernel

end Iodine.C02L
