import IodineModel.Server.Run
import IodineModel.Lemmas.SrvC04a
/-
Helper lemmas for C01, part c: the SERVER.  Every function of the session machine except the upstream-data path
(`dataFresh`), the raw data handler and the slot allocation of the version handshake is INERT: it touches nobody's
upstream reassembly buffer (`inpacket`) and writes nothing to the tun device.
-/
namespace Iodine.C01L
open Iodine Iodine.Server Iodine.Gen
open Iodine.C04L (getUser_setUser getUser_setUser_ne getUser_setUser_self)

/-- the frames written to the tun device among a list of server events -/
def stunws : List Event → List (List Nat)
  | [] => []
  | .tunw f :: es => f :: stunws es
  | _ :: es => stunws es

@[simp] theorem stunws_nil : stunws [] = [] := rfl

theorem stunws_append (a b : List Event) : stunws (a ++ b) = stunws a ++ stunws b := by
  induction a with
  | nil => rfl
  | cons e es ih => cases e <;> simp [stunws, ih]

theorem stunws_writeDns (q : Query) (d : List Nat) (dn : Nat) (t : Tag) : stunws [writeDns q d dn t] = [] := rfl
theorem stunws_sendRaw (b : List Nat) (n u c : Nat) (q : Query) : stunws [sendRaw b n u c q] = [] := rfl

/-- nobody's reassembly buffer changed -/
structure SameIn (s s' : Srv) : Prop where
  eq : ∀ v, (getUser s' v).inpacket = (getUser s v).inpacket

theorem SameIn.refl (s : Srv) : SameIn s s := ⟨fun _ => rfl⟩
theorem SameIn.trans {a b c : Srv} (h1 : SameIn a b) (h2 : SameIn b c) : SameIn a c :=
  ⟨fun v => (h2.eq v).trans (h1.eq v)⟩

theorem SameIn.set (s : Srv) (u : Nat) (f : Session → Session) (hf : ∀ x, (f x).inpacket = x.inpacket) :
    SameIn s (setUser s u f) := by
  refine ⟨fun v => ?_⟩
  rw [getUser_setUser]
  split
  · next h => rw [h.1]; exact hf _
  · rfl

theorem SameIn.of_users {s s' : Srv} (h : s'.users = s.users) : SameIn s s' := by
  refine ⟨fun v => ?_⟩; unfold getUser; rw [h]

/-- a handler result that leaves all reassembly buffers alone and writes nothing to tun -/
structure Inert (s : Srv) (r : Res) : Prop where
  same : SameIn s r.1
  quiet : stunws r.2 = []

theorem Inert.nil (s : Srv) : Inert s (s, []) := ⟨SameIn.refl s, rfl⟩

theorem Inert.state {s s' : Srv} (h : SameIn s s') : Inert s (s', []) := ⟨h, rfl⟩

theorem Inert.ev {s s' : Srv} (h : SameIn s s') {evs : List Event} (he : stunws evs = []) : Inert s (s', evs) := ⟨h, he⟩

theorem Inert.andThen {s : Srv} {r : Res} {f : Srv → Res} (h1 : Inert s r) (h2 : Inert r.1 (f r.1)) :
    Inert s (andThen r f) :=
  ⟨h1.same.trans h2.same, by show stunws (r.2 ++ (f r.1).2) = []; rw [stunws_append, h1.quiet, h2.quiet]; rfl⟩

/-- sequencing written out: state of the second, events concatenated -/
theorem Inert.seq {s : Srv} {r1 r2 : Res} (h1 : Inert s r1) (h2 : Inert r1.1 r2) : Inert s (r2.1, r1.2 ++ r2.2) :=
  ⟨h1.same.trans h2.same, by rw [stunws_append, h1.quiet, h2.quiet]; rfl⟩

/-! ### user.c, outpacket, queue, caches -/

theorem same_startNewOutpacket (s : Srv) (u : Nat) (d : List Nat) (n : Nat) : SameIn s (startNewOutpacket s u d n) :=
  SameIn.set _ _ _ (fun _ => rfl)

theorem same_saveToOutpacketq (s : Srv) (u : Nat) (d : List Nat) (n : Nat) : SameIn s (saveToOutpacketq s u d n).1 := by
  unfold saveToOutpacketq
  dsimp only
  split
  · exact SameIn.refl s
  · exact SameIn.set _ _ _ (fun _ => rfl)

theorem same_getFromOutpacketq (s : Srv) (u : Nat) : SameIn s (getFromOutpacketq s u).1 := by
  unfold getFromOutpacketq
  dsimp only
  split
  · exact SameIn.refl s
  · exact (same_startNewOutpacket s u _ _).trans (SameIn.set _ _ _ (fun _ => rfl))

theorem same_saveToDnscache (s : Srv) (u : Nat) (q : Query) (a : List Nat) : SameIn s (saveToDnscache s u q a) := by
  unfold saveToDnscache
  split
  · exact SameIn.refl s
  · exact SameIn.set _ _ _ (fun _ => rfl)

theorem same_saveToQmemPingOrData (s : Srv) (u : Nat) (q : Query) : SameIn s (saveToQmemPingOrData s u q) := by
  unfold saveToQmemPingOrData
  dsimp only
  split
  · split
    · exact SameIn.refl s
    · split
      · exact SameIn.refl s
      · exact SameIn.set _ _ _ (fun _ => rfl)
  · split
    · exact SameIn.refl s
    · exact SameIn.set _ _ _ (fun _ => rfl)

theorem same_dropOut (s : Srv) (u : Nat) : SameIn s (setUser s u dropOut) := SameIn.set _ _ _ (fun _ => rfl)

theorem same_scDropResent (s : Srv) (u : Nat) : SameIn s (scDropResent s u) := by
  unfold scDropResent
  dsimp only
  split
  · exact (same_dropOut s u).trans (same_getFromOutpacketq _ u)
  · exact SameIn.refl s

theorem same_scPrepare (s : Srv) (u : Nat) : SameIn s (scPrepare s u) := by
  unfold scPrepare
  split
  · exact SameIn.set _ _ _ (fun _ => rfl)
  · exact SameIn.refl s

theorem stunws_scAnswer (q : Query) (pkt : List Nat) (dn u : Nat) : stunws (scAnswer q pkt dn u).2 = [] := by
  unfold scAnswer
  split <;> rfl

theorem inert_sendChunkOrDataless (s : Srv) (u : Nat) (w : QSel) : Inert s (sendChunkOrDataless s u w).1 := by
  unfold sendChunkOrDataless
  dsimp only
  have h1 : SameIn s (scPrepare (scDropResent s u) u) := (same_scDropResent s u).trans (same_scPrepare _ u)
  have h4 : ∀ qq q2 pk, SameIn s (setUser (saveToDnscache (saveToQmemPingOrData
      (scPrepare (scDropResent s u) u) u q2) u q2 pk) u fun y => w.set y qq) := by
    intro qq q2 pk
    refine SameIn.trans ?_ (SameIn.set _ _ _ ?_)
    · refine SameIn.trans ?_ (same_saveToDnscache _ u _ _)
      exact h1.trans (same_saveToQmemPingOrData _ u _)
    · intro x; cases w <;> rfl
  split
  · exact ⟨((h4 _ _ _).trans (same_dropOut _ u)).trans (same_getFromOutpacketq _ u), stunws_scAnswer _ _ _ _⟩
  · exact ⟨h4 _ _ _, stunws_scAnswer _ _ _ _⟩

theorem inert_sendWaiting (s : Srv) (u : Nat) : Inert s (sendWaiting s u) := by
  unfold sendWaiting
  dsimp only
  split
  · exact inert_sendChunkOrDataless s u .qs
  · split
    · exact inert_sendChunkOrDataless s u .q
    · exact Inert.nil s

theorem inert_tunnelTun (s : Srv) (frame : List Nat) : Inert s (tunnelTun s frame) := by
  unfold tunnelTun
  split
  · exact Inert.nil s
  · split
    · exact Inert.nil s
    · split
      · exact Inert.nil s
      · next t _ =>
        dsimp only
        split
        · split
          · exact Inert.state (same_saveToOutpacketq _ _ _ _)
          · have := inert_sendWaiting (startNewOutpacket s t (compress frame) (compress frame).length) t
            exact ⟨(same_startNewOutpacket _ _ _ _).trans this.same, this.quiet⟩
        · exact Inert.ev (SameIn.refl s) (stunws_sendRaw _ _ _ _ _)

theorem inert_deliverToUser (s : Srv) (t : Nat) (d : List Nat) (n : Nat) : Inert s (deliverToUser s t d n) := by
  unfold deliverToUser
  dsimp only
  split
  · split
    · have := inert_sendWaiting (startNewOutpacket s t d n) t
      exact ⟨(same_startNewOutpacket _ _ _ _).trans this.same, this.quiet⟩
    · exact Inert.state (same_saveToOutpacketq _ _ _ _)
  · exact Inert.ev (SameIn.refl s) (stunws_sendRaw _ _ _ _ _)

theorem same_processDownstreamAck (s : Srv) (u : Nat) (a b : Int) : SameIn s (processDownstreamAck s u a b) := by
  unfold processDownstreamAck
  dsimp only
  split
  · exact SameIn.refl s
  · split
    · exact SameIn.refl s
    · split
      · exact SameIn.refl s
      · split
        · refine SameIn.trans ?_ (same_getFromOutpacketq _ u)
          refine SameIn.trans ?_ (SameIn.set _ _ _ (fun _ => rfl))
          exact SameIn.set _ _ _ (fun _ => rfl)
        · exact SameIn.set _ _ _ (fun _ => rfl)


/-! ### the handlers of `handle_null_request` that are not the data handler -/

theorem same_popRand (s : Srv) : SameIn s (popRand s).2 := SameIn.of_users (C04L.popRand_users s)

theorem inert_handleLogin (s : Srv) (q : Query) (inb : List Nat) : Inert s (handleLogin s q inb) := by
  unfold handleLogin
  dsimp only
  split
  · exact ⟨(SameIn.refl s), rfl⟩
  · split
    · exact ⟨(SameIn.refl s), rfl⟩
    · split
      · refine ⟨?_, rfl⟩
        refine SameIn.trans ?_ (SameIn.set _ _ _ (fun _ => rfl))
        exact SameIn.set _ _ _ (fun _ => rfl)
      · exact ⟨(SameIn.set _ _ _ (fun _ => rfl)), rfl⟩

theorem inert_handleIp (s : Srv) (q : Query) (inb : List Nat) : Inert s (handleIp s q inb) := by
  unfold handleIp
  dsimp only
  split <;> exact ⟨(SameIn.refl s), rfl⟩

theorem inert_handleZ (s : Srv) (q : Query) (inb : List Nat) : Inert s (handleZ s q inb) :=
  ⟨(SameIn.refl s), rfl⟩

theorem same_userSwitchCodec (s : Srv) (u : Nat) (e : Enc) : SameIn s (userSwitchCodec s u e) := by
  unfold userSwitchCodec
  split
  · exact SameIn.refl s
  · exact SameIn.set _ _ _ (fun _ => rfl)

theorem same_userSetConnType (s : Srv) (u : Nat) (c : Conn) : SameIn s (userSetConnType s u c) := by
  unfold userSetConnType
  split
  · exact SameIn.refl s
  · exact SameIn.set _ _ _ (fun _ => rfl)

theorem inert_handleSwitchCodec (s : Srv) (q : Query) (dlen : Nat) (inb : List Nat) :
    Inert s (handleSwitchCodec s q dlen inb) := by
  unfold handleSwitchCodec
  split
  · exact ⟨(SameIn.refl s), rfl⟩
  · dsimp only
    split
    · exact ⟨(SameIn.refl s), rfl⟩
    · split
      · exact ⟨(same_userSwitchCodec _ _ _), rfl⟩
      · split
        · exact ⟨(same_userSwitchCodec _ _ _), rfl⟩
        · split
          · exact ⟨(same_userSwitchCodec _ _ _), rfl⟩
          · split
            · exact ⟨(same_userSwitchCodec _ _ _), rfl⟩
            · exact ⟨(SameIn.refl s), rfl⟩

theorem inert_handleOptions (s : Srv) (q : Query) (dlen : Nat) (inb : List Nat) :
    Inert s (handleOptions s q dlen inb) := by
  unfold handleOptions
  split
  · exact ⟨(SameIn.refl s), rfl⟩
  · dsimp only
    split
    · exact ⟨(SameIn.refl s), rfl⟩
    · repeat' split
      all_goals first
        | exact ⟨(SameIn.set _ _ _ (fun _ => rfl)), rfl⟩
        | exact ⟨(SameIn.refl s), rfl⟩

theorem inert_handleDownCodecCheck (s : Srv) (q : Query) (dlen : Nat) (inb : List Nat) :
    Inert s (handleDownCodecCheck s q dlen inb) := by
  unfold handleDownCodecCheck
  split
  · exact ⟨(SameIn.refl s), rfl⟩
  · split
    · exact ⟨(SameIn.refl s), rfl⟩
    · dsimp only
      split <;> exact ⟨(SameIn.refl s), rfl⟩

theorem inert_handleFragsizeProbe (s : Srv) (q : Query) (dlen : Nat) (inb : List Nat) :
    Inert s (handleFragsizeProbe s q dlen inb) := by
  unfold handleFragsizeProbe
  split
  · exact ⟨(SameIn.refl s), rfl⟩
  · dsimp only
    split
    · exact ⟨(SameIn.refl s), rfl⟩
    · split
      · exact ⟨(SameIn.refl s), rfl⟩
      · exact ⟨(same_popRand s), rfl⟩

theorem inert_handleSetFragsize (s : Srv) (q : Query) (inb : List Nat) : Inert s (handleSetFragsize s q inb) := by
  unfold handleSetFragsize
  dsimp only
  split
  · exact ⟨(SameIn.refl s), rfl⟩
  · split
    · exact ⟨(SameIn.refl s), rfl⟩
    · split
      · exact ⟨(SameIn.refl s), rfl⟩
      · exact ⟨(SameIn.set _ _ _ (fun _ => rfl)), rfl⟩

theorem same_rememberDuplicate {s s' : Srv} {u : Nat} {q : Query} (h : rememberDuplicate s u q = some s') :
    SameIn s s' := by
  unfold rememberDuplicate at h
  dsimp only at h
  split at h
  · cases h; exact SameIn.set _ _ _ (fun _ => rfl)
  · split at h
    · cases h; exact SameIn.set _ _ _ (fun _ => rfl)
    · cases h

theorem same_saveQuery (s : Srv) (u : Nat) (q : Query) : SameIn s (saveQuery s u q) :=
  SameIn.set _ _ _ (fun _ => rfl)

seal sendChunkOrDataless processDownstreamAck saveQuery rememberDuplicate answerFromDnscache answerFromQmem

theorem inert_pingFresh (s : Srv) (u : Nat) (q : Query) (unp : List Nat) : Inert s (pingFresh s u q unp) := by
  unfold pingFresh
  extract_lets b s1 r1 t r2 didsend s3 x r3
  have h1 : SameIn s s1 := same_processDownstreamAck s u _ _
  have i1 : Inert s1 r1 := by
    unfold r1; split
    · exact inert_sendChunkOrDataless s1 u .qs
    · exact Inert.nil s1
  have i2 : Inert r1.1 r2.1 := by
    unfold r2; split
    · exact inert_sendChunkOrDataless r1.1 u .q
    · exact Inert.nil r1.1
  have h3 : SameIn r2.1.1 s3 := same_saveQuery _ u q
  have i3 : Inert s3 r3 := by
    unfold r3; split
    · exact inert_sendChunkOrDataless s3 u .q
    · exact Inert.nil s3
  refine ⟨(((h1.trans i1.same).trans i2.same).trans h3).trans i3.same, ?_⟩
  show stunws (r1.2 ++ r2.1.2 ++ r3.2) = []
  rw [stunws_append, stunws_append, i1.quiet, i2.quiet, i3.quiet]; rfl

theorem stunws_answerFromDnscache {s : Srv} {u : Nat} {q : Query} {e : Event} (h : answerFromDnscache s u q = some e) :
    stunws [e] = [] := by
  unfold answerFromDnscache at h
  dsimp only at h
  split at h
  · cases h; rfl
  · cases h

theorem stunws_answerFromQmem {q : Query} {mem : List QmemEntry} {cmc : List Nat} {u : Nat} {e : Event}
    (h : answerFromQmem q mem cmc u = some e) : stunws [e] = [] := by
  unfold answerFromQmem at h
  split at h
  · cases h; rfl
  · cases h

theorem inert_handlePing (s : Srv) (q : Query) (inb : List Nat) : Inert s (handlePing s q inb) := by
  unfold handlePing
  split
  · exact Inert.nil s
  · dsimp only
    split
    · exact Inert.nil s
    · split
      · exact ⟨(SameIn.refl s), rfl⟩
      · split
        · next e he => exact Inert.ev (SameIn.refl s) (stunws_answerFromDnscache he)
        · split
          · next e he => exact Inert.ev (SameIn.refl s) (stunws_answerFromQmem he)
          · split
            · next s' hs => exact Inert.state (same_rememberDuplicate hs)
            · exact inert_pingFresh _ _ _ _

theorem inert_dataStepQs (s : Srv) (u : Nat) : Inert s (dataStepQs s u).1 := by
  unfold dataStepQs
  split
  · exact inert_sendChunkOrDataless s u .qs
  · exact Inert.nil s

theorem inert_dataStepQ (s : Srv) (u : Nat) (a b c : Bool) : Inert s (dataStepQ s u a b c).1 := by
  unfold dataStepQ
  dsimp only
  split
  · split
    · exact inert_sendChunkOrDataless s u .q
    · exact Inert.state (SameIn.set _ _ _ (fun _ => rfl))
  · exact Inert.nil s

theorem inert_dataStepFinal (s : Srv) (u : Nat) (a b c : Bool) : Inert s (dataStepFinal s u a b c) := by
  unfold dataStepFinal
  dsimp only
  split
  · exact inert_sendChunkOrDataless s u .q
  · split
    · split
      · exact Inert.state (SameIn.set _ _ _ (fun _ => rfl))
      · exact inert_sendChunkOrDataless s u .q
    · exact Inert.nil s

/-! ### the other request kinds, raw login / ping, the sweep -/

theorem inert_handleNsRequest (s : Srv) (q : Query) (dlen : Nat) : Inert s (handleNsRequest s q dlen) := by
  unfold handleNsRequest
  split <;> exact ⟨(SameIn.refl s), rfl⟩

theorem inert_handleARequest (s : Srv) (q : Query) (b : Bool) : Inert s (handleARequest s q b) := by
  unfold handleARequest
  dsimp only
  repeat' split
  all_goals exact ⟨(SameIn.refl s), rfl⟩

theorem inert_forwardQuery (s : Srv) (q : Query) : Inert s (forwardQuery s q) :=
  ⟨(SameIn.of_users rfl), rfl⟩

theorem inert_tunnelBind (s : Srv) (d : List Nat) : Inert s (tunnelBind s d) := by
  unfold tunnelBind
  split
  · exact Inert.nil s
  · split <;> exact ⟨(SameIn.refl s), rfl⟩

theorem inert_handleRawLogin (s : Srv) (packet : List Nat) (q : Query) (u : Nat) :
    Inert s (handleRawLogin s packet q u) := by
  unfold handleRawLogin
  split
  · exact Inert.nil s
  · split
    · exact Inert.nil s
    · dsimp only
      split
      · exact Inert.nil s
      · split
        · exact Inert.nil s
        · split
          · exact Inert.nil s
          · split
            · refine ⟨?_, rfl⟩
              refine SameIn.trans ?_ (SameIn.set _ _ _ (fun _ => rfl))
              refine SameIn.trans ?_ (same_userSetConnType _ _ _)
              exact SameIn.set _ _ _ (fun _ => rfl)
            · exact Inert.nil s

theorem inert_handleRawPing (s : Srv) (q : Query) (u : Nat) : Inert s (handleRawPing s q u) := by
  unfold handleRawPing
  split
  · exact Inert.nil s
  · split
    · exact Inert.nil s
    · exact ⟨(SameIn.set _ _ _ (fun _ => rfl)), rfl⟩

theorem inert_sweepFrom : ∀ (n i : Nat) (s : Srv), Inert s (sweepFrom n i s) := by
  intro n
  induction n with
  | zero => intro i s; exact Inert.nil s
  | succ n ih =>
    intro i s
    unfold sweepFrom
    dsimp only
    apply Inert.andThen
    · split
      · exact inert_sendChunkOrDataless s i .qs
      · exact Inert.nil s
    · exact ih _ _

theorem inert_sweep (s : Srv) : Inert s (sweep s) := inert_sweepFrom _ _ _

end Iodine.C01L
