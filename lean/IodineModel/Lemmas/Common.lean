import IodineModel.Common
/-
Helper lemmas for C17 (check_topdomain / query_datalen).  Everything here is phrased in the model's own
vocabulary (`plainChar`, `toLower`, `atBoundary`); the declarative specification lives in Props/C17.lean.
The label-splitting function of the specification enters `ctLoop_iff`/`checkTopdomain_iff` only through
its two characteristic equations `h1`, `h2`.
-/
namespace Iodine.Common

/-! ### check_topdomain -/

theorem plainChar_dot : plainChar 46 = true := by decide
theorem plainChar_star : plainChar 42 = false := by decide

theorem ctStep_dot (w : Bool) (s1 i dots chunk : Nat) :
    ctStep w s1 46 i dots chunk = if chunk = 0 ∨ 63 < chunk then none else some (dots + 1, 0) := by
  unfold ctStep
  by_cases h0 : chunk = 0
  · simp [h0]
  · by_cases h1 : 63 < chunk
    · simp [h0, h1]
    · simp [h0, h1, plainChar_dot]

theorem ctStep_nondot_pos (w : Bool) (s1 c i dots chunk : Nat) (hc : c ≠ 46) :
    ctStep w s1 c (i + 1) dots chunk = if plainChar c = true then some (dots, chunk + 1) else none := by
  unfold ctStep
  simp only [if_neg hc, Nat.add_one_ne_zero, if_false]
  split <;> simp

theorem ctStep_nondot_zero (w : Bool) (s1 c dots chunk : Nat) (hc : c ≠ 46) :
    ctStep w s1 c 0 dots chunk =
      if plainChar c = true ∨ (w = true ∧ c = 42 ∧ s1 = 46) then some (dots, chunk + 1) else none := by
  unfold ctStep
  simp only [if_neg hc, if_true]
  by_cases hp : plainChar c = true
  · simp [hp]
  · by_cases hw : w = true <;> by_cases h42 : c = 42 <;> by_cases hs : s1 = 46 <;> simp [hp, hw, h42, hs]

/-- The loop from index ≥ 1 on, started in the middle of a label `cur` already read. -/
theorem ctLoop_iff (split : List Nat → List (List Nat))
    (h1 : ∀ cur, 46 ∉ cur → split cur = [cur])
    (h2 : ∀ cur rest, 46 ∉ cur → split (cur ++ 46 :: rest) = cur :: split rest)
    (w : Bool) (s1 : Nat) (rest : List Nat) :
    ∀ (i dots : Nat) (cur : List Nat), 46 ∉ cur →
      (ctLoop w s1 rest (i + 1) dots cur.length = 0 ↔
        (∀ c ∈ rest, plainChar c = true) ∧
        (∀ l ∈ split (cur ++ rest), 1 ≤ l.length ∧ l.length ≤ 63) ∧
        2 ≤ dots + (split (cur ++ rest)).length) := by
  induction rest with
  | nil =>
    intro i dots cur hcur
    simp only [ctLoop, List.append_nil, h1 cur hcur, List.mem_singleton, forall_eq, List.length_singleton,
      List.not_mem_nil, false_imp_iff, implies_true, true_and]
    by_cases hd : dots = 0
    · simp [hd]
    · by_cases h0 : cur.length = 0
      · simp [hd, h0]
      · by_cases h63 : cur.length > 63
        · simp only [if_neg hd, if_neg h0, if_pos h63]
          constructor
          · intro h; cases h
          · intro h; omega
        · simp only [if_neg hd, if_neg h0, if_neg h63]
          constructor
          · intro _; omega
          · intro _; trivial
  | cons c rest ih =>
    intro i dots cur hcur
    by_cases hc : c = 46
    · subst hc
      simp only [ctLoop, ctStep_dot, h2 cur rest hcur]
      by_cases hch : cur.length = 0 ∨ 63 < cur.length
      · simp only [if_pos hch]
        constructor
        · intro h; cases h
        · intro ⟨_, hl, _⟩
          have := hl cur (List.mem_cons_self)
          omega
      · simp only [if_neg hch]
        have := ih (i + 1) (dots + 1) [] (by simp)
        simp only [List.length_nil, List.nil_append] at this
        rw [this]
        simp only [List.mem_cons, forall_eq_or_imp, plainChar_dot, true_and, List.length_cons]
        constructor
        · intro ⟨a, b, c⟩; exact ⟨a, ⟨by omega, b⟩, by omega⟩
        · intro ⟨a, ⟨_, b⟩, c⟩; exact ⟨a, b, by omega⟩
    · simp only [ctLoop, ctStep_nondot_pos _ _ _ _ _ _ hc]
      have hcur' : 46 ∉ cur ++ [c] := by
        simp only [List.mem_append, List.mem_singleton, not_or]
        exact ⟨hcur, fun h => hc h.symm⟩
      have := ih (i + 1) dots (cur ++ [c]) hcur'
      simp only [List.length_append, List.length_singleton, List.append_assoc, List.singleton_append] at this
      by_cases hp : plainChar c = true
      · rw [if_pos hp]
        simp only [this, List.mem_cons, forall_eq_or_imp, hp, true_and]
      · rw [if_neg hp]
        constructor
        · intro h; cases h
        · intro ⟨h, _⟩; exact (hp (h c List.mem_cons_self)).elim

/-- `check_topdomain` accepts exactly the strings described on the right; `split` is any function with the
two characteristic properties of "split on '.'". -/
theorem checkTopdomain_iff (split : List Nat → List (List Nat))
    (h1 : ∀ cur, 46 ∉ cur → split cur = [cur])
    (h2 : ∀ cur rest, 46 ∉ cur → split (cur ++ 46 :: rest) = cur :: split rest)
    (s : List Nat) (w : Bool) :
    checkTopdomain s w = 0 ↔
      3 ≤ s.length ∧ s.length ≤ 128 ∧
      ((∀ c ∈ s, plainChar c = true) ∨
        (w = true ∧ ∃ r, s = 42 :: 46 :: r ∧ ∀ c ∈ r, plainChar c = true)) ∧
      2 ≤ (split s).length ∧ ∀ l ∈ split s, 1 ≤ l.length ∧ l.length ≤ 63 := by
  unfold checkTopdomain
  by_cases hl3 : s.length < 3
  · simp only [if_pos hl3]
    constructor
    · intro h; cases h
    · intro ⟨h, _⟩; omega
  by_cases hl128 : s.length > 128
  · simp only [if_neg hl3, if_pos hl128]
    constructor
    · intro h; cases h
    · intro ⟨_, h, _⟩; omega
  simp only [if_neg hl3, if_neg hl128]
  match s, hl3 with
  | [], hl3 => simp at hl3
  | c :: rest, _ =>
    by_cases hc : c = 46
    · subst hc
      simp only [List.head?_cons, if_true]
      constructor
      · intro h; cases h
      · intro ⟨_, _, _, _, hl⟩
        have := h2 [] rest (by simp)
        simp only [List.nil_append] at this
        rw [this] at hl
        have := hl [] List.mem_cons_self
        simp at this
    · have hne : ¬ (c :: rest).head? = some 46 := by simp [hc]
      simp only [if_neg hne, ctLoop, ctStep_nondot_zero _ _ _ _ _ hc]
      have hL := ctLoop_iff split h1 h2 w ((c :: rest).getD 1 0) rest 0 0 [c]
        (by simp only [List.mem_singleton]; exact fun h => hc h.symm)
      simp only [List.length_singleton, List.singleton_append, Nat.zero_add] at hL
      have hlen : 3 ≤ (c :: rest).length ∧ (c :: rest).length ≤ 128 := by omega
      by_cases hfirst : plainChar c = true ∨ (w = true ∧ c = 42 ∧ (c :: rest).getD 1 0 = 46)
      · simp only [if_pos hfirst, hL]
        constructor
        · intro ⟨hr, hlab, hcnt⟩
          refine ⟨hlen.1, hlen.2, ?_, hcnt, hlab⟩
          rcases hfirst with hp | ⟨hw, h42, h1'⟩
          · left
            intro x hx
            rcases List.mem_cons.mp hx with rfl | hx
            · exact hp
            · exact hr x hx
          · right
            refine ⟨hw, ?_⟩
            match rest, hr, h1' with
            | [], _, h1' => simp at h1'
            | d :: r, hr, h1' =>
              simp only [List.getD_cons_succ, List.getD_cons_zero] at h1'
              refine ⟨r, by rw [h42, h1'], fun x hx => hr x (List.mem_cons_of_mem _ hx)⟩
        · intro ⟨_, _, hch, hcnt, hlab⟩
          refine ⟨?_, hlab, hcnt⟩
          rcases hch with hp | ⟨_, r, hs, hr⟩
          · exact fun x hx => hp x (List.mem_cons_of_mem _ hx)
          · simp only [List.cons.injEq] at hs
            rw [hs.2]
            intro x hx
            rcases List.mem_cons.mp hx with rfl | hx
            · exact plainChar_dot
            · exact hr x hx
      · simp only [if_neg hfirst]
        constructor
        · intro h; cases h
        · intro ⟨_, _, hch, _, _⟩
          exfalso
          apply hfirst
          rcases hch with hp | ⟨hw, r, hs, _⟩
          · exact Or.inl (hp c List.mem_cons_self)
          · simp only [List.cons.injEq] at hs
            right
            refine ⟨hw, hs.1, ?_⟩
            rw [hs.2]; rfl

/-! ### query_datalen -/

theorem toLower_eq_dot {c : Nat} (h : toLower c = toLower 46) : c = 46 := by
  have h46 : toLower 46 = 46 := by decide
  rw [h46] at h
  unfold toLower at h
  split at h
  · rename_i hc
    simp only [Bool.and_eq_true, decide_eq_true_eq] at hc
    omega
  · exact h

theorem toLower_eq_star {c d : Nat} (hd : plainChar d = true) (h : toLower c = toLower d) : c ≠ 42 := by
  intro hc
  subst hc
  have h42 : toLower 42 = 42 := by decide
  rw [h42] at h
  unfold toLower at h
  unfold plainChar isDigit at hd
  simp only [Bool.or_eq_true, Bool.and_eq_true, decide_eq_true_eq, beq_iff_eq] at hd
  split at h
  · omega
  · omega

theorem atBoundary_iff (l : List Nat) : atBoundary l = true ↔ (l = [] ∨ l.head? = some 46) := by
  unfold atBoundary
  simp [List.isEmpty_iff]

/-- Plain backward comparison: no `'*'` in the (reversed) domain. -/
theorem qdScan_plain (qr : List Nat) :
    ∀ (tr : List Nat) (n : Nat), tr ≠ [] → 42 ∉ tr →
      (qdScan qr tr = some n ↔
        ∃ sr pr, qr = sr ++ pr ∧ sr.map toLower = tr.map toLower ∧ atBoundary pr = true ∧ n = pr.length) := by
  induction qr with
  | nil =>
    intro tr n hne _
    simp only [qdScan]
    constructor
    · intro h; cases h
    · intro ⟨sr, pr, h, hm, _⟩
      have : sr = [] := (List.append_eq_nil_iff.mp h.symm).1
      subst this
      simp only [List.map_nil] at hm
      exact (hne (List.map_eq_nil_iff.mp hm.symm)).elim
  | cons qc qrest ih =>
    intro tr n hne hstar
    match tr, hne, hstar with
    | tc :: trest, _, hstar =>
      have htc : tc ≠ 42 := fun h => hstar (h ▸ List.mem_cons_self)
      have hstar' : 42 ∉ trest := fun h => hstar (List.mem_cons_of_mem _ h)
      simp only [qdScan, if_neg htc]
      by_cases heq : toLower qc = toLower tc
      · simp only [if_pos heq]
        by_cases hte : trest = []
        · subst hte
          simp only [List.isEmpty_nil, if_true]
          constructor
          · intro h
            split at h
            · rename_i hb
              refine ⟨[qc], qrest, rfl, by simp [heq], hb, ?_⟩
              simpa using h.symm
            · cases h
          · intro ⟨sr, pr, hq, hm, hb, hn⟩
            have hlen : sr.length = 1 := by simpa using congrArg List.length hm
            match sr, hlen with
            | [x], _ =>
              simp only [List.singleton_append, List.cons.injEq] at hq
              rw [← hq.2] at hb hn
              simp [hb, hn]
        · have hie : trest.isEmpty = false := by simpa [List.isEmpty_iff] using hte
          simp only [hie, Bool.false_eq_true, if_false]
          rw [ih trest n hte hstar']
          constructor
          · intro ⟨sr, pr, hq, hm, hb, hn⟩
            exact ⟨qc :: sr, pr, by rw [hq]; rfl, by simp [heq, hm], hb, hn⟩
          · intro ⟨sr, pr, hq, hm, hb, hn⟩
            match sr, hm with
            | [], hm => simp at hm
            | x :: sr', hm =>
              simp only [List.cons_append, List.cons.injEq] at hq
              simp only [List.map_cons, List.cons.injEq] at hm
              exact ⟨sr', pr, hq.2, hm.2, hb, hn⟩
      · simp only [if_neg heq]
        constructor
        · intro h; cases h
        · intro ⟨sr, pr, hq, hm, _⟩
          match sr, hm with
          | [], hm => simp at hm
          | x :: sr', hm =>
            simp only [List.cons_append, List.cons.injEq] at hq
            simp only [List.map_cons, List.cons.injEq] at hm
            rw [← hq.1] at hm
            exact (heq hm.1).elim

/-- The wildcard phase (`topdomain[tpos] == '*'`), entered on a character that is not `'.'`. -/
theorem qdScan_star (qr : List Nat) :
    ∀ (n : Nat), qr.head? ≠ some 46 →
      (qdScan qr [42] = some n ↔
        ∃ lr pr, qr = lr ++ pr ∧ lr ≠ [] ∧ 46 ∉ lr ∧ 42 ∉ lr ∧ atBoundary pr = true ∧ n = pr.length) := by
  induction qr with
  | nil =>
    intro n _
    simp only [qdScan]
    constructor
    · intro h; cases h
    · intro ⟨lr, pr, h, hne, _⟩
      exact (hne (List.append_eq_nil_iff.mp h.symm).1).elim
  | cons qc qrest ih =>
    intro n hhead
    have hqc : qc ≠ 46 := by simpa using hhead
    simp only [qdScan, if_true]
    by_cases h42 : qc = 42
    · simp only [if_pos h42]
      constructor
      · intro h; cases h
      · intro ⟨lr, pr, hq, hne, _, hs, _⟩
        match lr, hne with
        | x :: lr', _ =>
          simp only [List.cons_append, List.cons.injEq] at hq
          exact (hs (by rw [← hq.1, h42]; exact List.mem_cons_self)).elim
    · simp only [if_neg h42]
      by_cases hb : atBoundary qrest = true
      · simp only [if_pos hb]
        constructor
        · intro h
          refine ⟨[qc], qrest, rfl, by simp, ?_, ?_, hb, ?_⟩
          · simpa using fun h => hqc h.symm
          · simpa using fun h => h42 h.symm
          · simpa using h.symm
        · intro ⟨lr, pr, hq, hne, hd, _, _, hn⟩
          match lr, hne with
          | x :: lr', _ =>
            simp only [List.cons_append, List.cons.injEq] at hq
            have hlr : lr' = [] := by
              match lr', hq with
              | [], _ => rfl
              | y :: l'', hq =>
                exfalso
                rcases (atBoundary_iff _).mp hb with h | h
                · rw [h] at hq; simp at hq
                · rw [hq.2] at h
                  simp only [List.cons_append, List.head?_cons, Option.some.injEq] at h
                  exact hd (by rw [h]; simp)
            subst hlr
            simp only [List.nil_append] at hq
            rw [hn, hq.2]
      · simp only [if_neg hb]
        have hhead' : qrest.head? ≠ some 46 := fun h => hb ((atBoundary_iff _).mpr (Or.inr h))
        rw [ih n hhead']
        constructor
        · intro ⟨lr, pr, hq, _, hd, hs, hb', hn⟩
          refine ⟨qc :: lr, pr, by rw [hq]; rfl, by simp, ?_, ?_, hb', hn⟩
          · simp only [List.mem_cons, not_or]; exact ⟨fun h => hqc h.symm, hd⟩
          · simp only [List.mem_cons, not_or]; exact ⟨fun h => h42 h.symm, hs⟩
        · intro ⟨lr, pr, hq, hne, hd, hs, hb', hn⟩
          match lr, hne with
          | x :: lr', _ =>
            simp only [List.cons_append, List.cons.injEq] at hq
            have hne' : lr' ≠ [] := by
              intro h
              subst h
              simp only [List.nil_append] at hq
              exact hb (hq.2 ▸ hb')
            exact ⟨lr', pr, hq.2, hne', fun h => hd (List.mem_cons_of_mem _ h),
              fun h => hs (List.mem_cons_of_mem _ h), hb', hn⟩

/-- Matching a `'*'`-free stretch `tr'` of the (reversed) domain that is followed by more (`tl ≠ []`). -/
theorem qdScan_prefix (tr' : List Nat) (tl : List Nat) (htl : tl ≠ []) :
    ∀ (qr : List Nat) (n : Nat), 42 ∉ tr' →
      (qdScan qr (tr' ++ tl) = some n ↔
        ∃ sr rest, qr = sr ++ rest ∧ sr.map toLower = tr'.map toLower ∧ qdScan rest tl = some n) := by
  induction tr' with
  | nil =>
    intro qr n _
    simp only [List.nil_append, List.map_nil, List.map_eq_nil_iff]
    constructor
    · intro h; exact ⟨[], qr, rfl, rfl, h⟩
    · intro ⟨sr, rest, hq, hs, h⟩
      subst hs
      simpa [hq] using h
  | cons tc tr'' ih =>
    intro qr n hstar
    have htc : tc ≠ 42 := fun h => hstar (h ▸ List.mem_cons_self)
    have hstar' : 42 ∉ tr'' := fun h => hstar (List.mem_cons_of_mem _ h)
    match qr with
    | [] =>
      simp only [qdScan]
      constructor
      · intro h; cases h
      · intro ⟨sr, rest, hq, hm, _⟩
        have : sr = [] := (List.append_eq_nil_iff.mp hq.symm).1
        subst this
        simp at hm
    | qc :: qrest =>
      simp only [List.cons_append, qdScan, if_neg htc]
      by_cases heq : toLower qc = toLower tc
      · have hie : (tr'' ++ tl).isEmpty = false := by
          simp [htl]
        simp only [if_pos heq, hie, Bool.false_eq_true, if_false]
        rw [ih qrest n hstar']
        constructor
        · intro ⟨sr, rest, hq, hm, h⟩
          exact ⟨qc :: sr, rest, by rw [hq]; rfl, by simp [heq, hm], h⟩
        · intro ⟨sr, rest, hq, hm, h⟩
          match sr, hm with
          | [], hm => simp at hm
          | x :: sr', hm =>
            simp only [List.cons_append, List.cons.injEq] at hq
            simp only [List.map_cons, List.cons.injEq] at hm
            exact ⟨sr', rest, hq.2, hm.2, h⟩
      · simp only [if_neg heq]
        constructor
        · intro h; cases h
        · intro ⟨sr, rest, hq, hm, _⟩
          match sr, hm with
          | [], hm => simp at hm
          | x :: sr', hm =>
            simp only [List.cons_append, List.cons.injEq] at hq
            simp only [List.map_cons, List.cons.injEq] at hm
            rw [← hq.1] at hm
            exact (heq hm.1).elim

/-! ### query_datalen, un-reversed -/

theorem boundary_reverse (l : List Nat) :
    atBoundary l.reverse = true ↔ (l = [] ∨ l.getLast? = some 46) := by
  rw [atBoundary_iff, List.reverse_eq_nil_iff, List.head?_reverse]

theorem map_reverse_eq {f : Nat → Nat} {a b : List Nat} :
    a.reverse.map f = b.reverse.map f ↔ a.map f = b.map f := by
  rw [List.map_reverse, List.map_reverse]
  exact List.reverse_inj

/-- Domain without `'*'`. -/
theorem queryDatalen_plain (q t : List Nat) (n : Nat) (ht3 : 3 ≤ t.length) (hstar : 42 ∉ t) :
    queryDatalen q t = some n ↔
      ∃ pre suf, q = pre ++ suf ∧ suf.map toLower = t.map toLower ∧
        (pre = [] ∨ pre.getLast? = some 46) ∧ n = pre.length := by
  unfold queryDatalen
  by_cases hlen : q.length < t.length
  · have : (decide (t.length < 3) || decide (q.length < t.length)) = true := by simp [hlen]
    rw [if_pos this]
    constructor
    · intro h; cases h
    · intro ⟨pre, suf, hq, hm, _⟩
      have h1 : suf.length = t.length := by simpa using congrArg List.length hm
      have h2 : q.length = pre.length + suf.length := by rw [hq, List.length_append]
      omega
  · have : ¬ (decide (t.length < 3) || decide (q.length < t.length)) = true := by
      simp only [Bool.or_eq_true, decide_eq_true_eq]; omega
    rw [if_neg this]
    have hne : t.reverse ≠ [] := by
      intro h; rw [List.reverse_eq_nil_iff] at h; subst h; simp at ht3
    rw [qdScan_plain q.reverse t.reverse n hne (by simpa using hstar)]
    constructor
    · intro ⟨sr, pr, hq, hm, hb, hn⟩
      refine ⟨pr.reverse, sr.reverse, ?_, ?_, ?_, ?_⟩
      · rw [← List.reverse_append, ← hq, List.reverse_reverse]
      · rw [← map_reverse_eq, List.reverse_reverse]; exact hm
      · rw [← boundary_reverse, List.reverse_reverse]; exact hb
      · rw [List.length_reverse]; exact hn
    · intro ⟨pre, suf, hq, hm, hb, hn⟩
      refine ⟨suf.reverse, pre.reverse, ?_, ?_, ?_, ?_⟩
      · rw [hq, List.reverse_append]
      · rw [map_reverse_eq]; exact hm
      · rw [boundary_reverse]; exact hb
      · rw [List.length_reverse]; exact hn

/-- When the plain part `t'` (starting with `'.'`) has been matched and the query has no `".."`, the
wildcard phase is entered on a character that is not `'.'`. -/
theorem star_entry (q sr rest t' : List Nat) (hq : ¬ [46, 46] <:+: q) (h : q.reverse = sr ++ rest)
    (hm : sr.map toLower = t'.reverse.map toLower) (hdot : t'.head? = some 46) :
    rest.head? ≠ some 46 := by
  intro hr
  match t', hdot with
  | d :: t'', hdot =>
    simp only [List.head?_cons, Option.some.injEq] at hdot
    subst hdot
    have hm' : sr.reverse.map toLower = (46 :: t'').map toLower := by
      rw [← map_reverse_eq, List.reverse_reverse]; exact hm
    match hs : sr.reverse, hm' with
    | x :: s', hm' =>
      simp only [List.map_cons, List.cons.injEq] at hm'
      have hx : x = 46 := toLower_eq_dot hm'.1
      subst hx
      match rest, hr with
      | y :: rest', hr =>
        simp only [List.head?_cons, Option.some.injEq] at hr
        subst hr
        apply hq
        refine ⟨rest'.reverse, s', ?_⟩
        have : q = (sr ++ 46 :: rest').reverse := by rw [← h, List.reverse_reverse]
        rw [this, List.reverse_append, hs]
        simp

/-- Domain `'*' :: t'` with `t'` free of `'*'` and starting with `'.'`; query without `".."`. -/
theorem queryDatalen_wild (q t' : List Nat) (n : Nat) (ht : 2 ≤ t'.length) (hstar : 42 ∉ t')
    (hdot : t'.head? = some 46) (hq : ¬ [46, 46] <:+: q) :
    queryDatalen q (42 :: t') = some n ↔
      ∃ pre lab suf', q = pre ++ (lab ++ suf') ∧ lab ≠ [] ∧ 46 ∉ lab ∧ 42 ∉ lab ∧
        suf'.map toLower = t'.map toLower ∧ (pre = [] ∨ pre.getLast? = some 46) ∧ n = pre.length := by
  unfold queryDatalen
  by_cases hlen : q.length < (42 :: t').length
  · have : (decide ((42 :: t').length < 3) || decide (q.length < (42 :: t').length)) = true := by
      simp only [Bool.or_eq_true, decide_eq_true_eq]; exact Or.inr hlen
    rw [if_pos this]
    constructor
    · intro h; cases h
    · intro ⟨pre, lab, suf', hq', hne, _, _, hm, _⟩
      have h1 : suf'.length = t'.length := by simpa using congrArg List.length hm
      have h2 : q.length = pre.length + (lab.length + suf'.length) := by
        rw [hq', List.length_append, List.length_append]
      have h3 : 0 < lab.length := List.length_pos_iff.mpr hne
      simp only [List.length_cons] at hlen
      omega
  · have : ¬ (decide ((42 :: t').length < 3) || decide (q.length < (42 :: t').length)) = true := by
      simp only [Bool.or_eq_true, decide_eq_true_eq, List.length_cons] at hlen ⊢; omega
    rw [if_neg this, List.reverse_cons,
      qdScan_prefix t'.reverse [42] (by simp) q.reverse n (by simpa using hstar)]
    constructor
    · intro ⟨sr, rest, hqr, hm, hs⟩
      have hhead := star_entry q sr rest t' hq hqr hm hdot
      obtain ⟨lr, pr, hrest, hne, hd, hst, hb, hn⟩ := (qdScan_star rest n hhead).mp hs
      refine ⟨pr.reverse, lr.reverse, sr.reverse, ?_, ?_, ?_, ?_, ?_, ?_, ?_⟩
      · rw [← List.reverse_append, ← List.reverse_append, List.append_assoc, ← hrest, ← hqr,
          List.reverse_reverse]
      · simpa using hne
      · simpa using hd
      · simpa using hst
      · rw [← map_reverse_eq, List.reverse_reverse]; exact hm
      · rw [← boundary_reverse, List.reverse_reverse]; exact hb
      · rw [List.length_reverse]; exact hn
    · intro ⟨pre, lab, suf', hq', hne, hd, hst, hm, hb, hn⟩
      have hqr : q.reverse = suf'.reverse ++ (lab.reverse ++ pre.reverse) := by
        rw [hq', List.reverse_append, List.reverse_append, List.append_assoc]
      have hm' : suf'.reverse.map toLower = t'.reverse.map toLower := map_reverse_eq.mpr hm
      have hhead := star_entry q _ _ t' hq hqr hm' hdot
      refine ⟨suf'.reverse, lab.reverse ++ pre.reverse, hqr, hm', ?_⟩
      rw [qdScan_star _ n hhead]
      refine ⟨lab.reverse, pre.reverse, rfl, by simpa using hne, by simpa using hd,
        by simpa using hst, (boundary_reverse _).mpr hb, by rw [List.length_reverse]; exact hn⟩

end Iodine.Common
