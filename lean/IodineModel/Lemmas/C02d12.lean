import IodineModel.Lemmas.C02d11
import IodineModel.Lemmas.C02v10
/-
Downstream transfer in immediate mode: the loop step — the acknowledging ping reaches the server, the next fragment
comes back (two scheduler steps).
-/
namespace Iodine.C02L
open Iodine Iodine.Gen Iodine.World

theorem sendPing_evs {P : Par} (hP : P.Ok) {c : Client.Cli} (hc : CStat P c) :
    ∃ name, upOfEvents (Client.sendPing c).evs = [.query (pingState c).chunkid P.ty name] ∧
      PingQ P (upQuery (pingState c).chunkid P.ty name) c.inpkt.seqno c.inpkt.fragment c.randSeed := by
  obtain ⟨name, hsend, hpq⟩ := sendPing_ready hP hc
  have e3 : (pingState c).chunkid = (Client.rotateChunkid { c with randSeed := (c.randSeed + 1) % 65536 }).chunkid := by
    simp [pingState]
  refine ⟨name, ?_, ?_⟩
  · rw [hsend, e3]; rfl
  · rw [e3]; exact hpq

theorem quiet_false_of_out {P : Par} {w : W} (h : (Server.getUser w.srv P.u).outpacket.len ≠ 0) : quiet P.u w = false := by
  unfold World.quiet
  simp [h]

/-- what the client's `write_tun` writes for a frame of at least 4 bytes -/
theorem tunOfC_writeTun (frame : List Nat) (h4 : 4 ≤ frame.length) :
    tunOfCEvents [Client.writeTun frame] = [tunImage frame] := by
  unfold Client.writeTun tunImage
  simp only [tunOfCEvents]
  congr 1
  apply List.take_of_length_le
  simp
  omega

theorem down_next {P : Par} (hP : P.Ok) {frame : List Nat} {w : W} {c0 : Client.Cli} {sq : Int} {o m f : Nat}
    (h : DownPing P (0x5a :: frame) w c0 sq o m f) (h64 : (0x5a :: frame).length ≤ 65536) (h4 : 4 ≤ frame.length)
    (hf : f + 1 < 16) :
    ∃ D, D = downLen (Server.getUser w.srv P.u).fragsize ((0x5a :: frame).length - (o + m)) ∧ 0 < D ∧
      o + m + D ≤ (0x5a :: frame).length ∧
      ∃ w', promptSteps P.u 2 w = some w' ∧ (Server.getUser w'.srv P.u).fragsize = (Server.getUser w.srv P.u).fragsize ∧
        (Server.getUser w'.srv P.u).tunIp = (Server.getUser w.srv P.u).tunIp ∧ w'.tunS = w.tunS ∧
        w'.cs.c.selecttimeout = w.cs.c.selecttimeout ∧
        ((o + m + D < (0x5a :: frame).length → ∃ c0', DownPing P (0x5a :: frame) w' c0' sq (o + m) D (f + 1) ∧ w'.tunC = w.tunC) ∧
         (o + m + D = (0x5a :: frame).length →
            DownDelivered P (0x5a :: frame) w' sq (o + m) D (f + 1) ∧ w'.tunC = w.tunC ++ [tunImage frame])) := by
  generalize hout : (0x5a :: frame) = out at h h64
  have hsqr : 0 ≤ sq ∧ sq < 8 := by rw [← h.have_.1]; exact h.c0st.iseq
  obtain ⟨name, hevs, hpq⟩ := sendPing_evs hP h.c0st
  rw [h.have_.1, h.have_.2.1] at hpq
  have hup : w.up = [.query (pingState c0).chunkid P.ty name] := by rw [h.up, hevs]
  -- step 1: the ping reaches the server; the acknowledged fragment is followed by the next one
  obtain ⟨s', pkt, hs1, hq1, hap, hA', hPA'⟩ := up_answer hP hup h.down h.srv.ping hpq h.aged h.paged
  generalize hx0 : ({ Server.getUser w.srv P.u with qsNew := false } : Server.Session) = x0
  have hslot : Server.getUser s' P.u = pingZ x0 P.u (upQuery (pingState c0).chunkid P.ty name) sq f w.srv.now := by
    rw [afterPing_slot hap, hx0]
  obtain ⟨D, hDdef, hzo, hzr, hDpos, hDle, yy, hyev, hyo, hyi⟩ := pingZ_next x0 P.u (upQuery (pingState c0).chunkid P.ty name) w.srv.now out sq o m f rfl
    (by subst hx0; exact h.srv.oq) (by subst hx0; have := h.srv.res; show (Server.getUser w.srv P.u).outfragresent ≤ 5; omega)
    (by subst hx0; exact h.srv.op) h.hm h.hlt (by subst hx0; exact h.srv.frag) (by omega)
  have hfs : x0.fragsize = (Server.getUser w.srv P.u).fragsize := by subst hx0; rfl
  rw [hfs] at hDdef
  rw [← hslot] at hzo hzr
  have hpkt : pkt = Server.scPkt yy D := by
    have h1 := hap.pkt
    rw [hx0, hyev] at h1
    have h2 := List.cons.inj h1
    have h3 : Server.writeDns (upQuery (pingState c0).chunkid P.ty name) (Server.scPkt yy D) x0.downenc (.chunk P.u) =
        Server.writeDns (upQuery (pingState c0).chunkid P.ty name) pkt (Server.getUser w.srv P.u).downenc (.chunk P.u) := h2.1
    unfold Server.writeDns at h3
    injection h3 with _ _ _ _ _ h9
    exact h9.symm
  obtain ⟨hps, hfs', hin', htun', _⟩ := pingSrv_after h.srv.ping rfl hap (by rw [hzo]; exact hsqr)
    (by rw [hzo]; show (0 : Int) ≤ ((f + 1 : Nat) : Int) ∧ ((f + 1 : Nat) : Int) < 16; omega) (by rw [hzr]; omega)
  have hds' : DownSrv P s' out sq (o + m) D (f + 1) := ⟨hps.stat, hps.q, hps.qs, hps.lz, hps.oq, hzo, by rw [hzr]; omega,
    by rw [hfs']; exact h.srv.frag⟩
  -- the fragment as the client sees it
  have hfp := fragPkt_of yy out sq (o + m) D (f + 1) hyo hDle hsqr (by omega)
    (by rw [hyi]; subst hx0; exact h.srv.stat.x.iseq) (by rw [hyi]; subst hx0; exact h.srv.stat.x.ifrag)
  rw [← hpkt] at hfp
  generalize hw2 : ({ w with up := [], srv := s', down := [.ans (pingState c0).chunkid P.ty name pkt] } : W) = w2 at hs1
  have hw2cs : w2.cs = w.cs := by subst hw2; rfl
  have hw2up : w2.up = [] := by subst hw2; rfl
  have hw2down : w2.down = [.ans (pingState c0).chunkid P.ty name pkt] := by subst hw2; rfl
  have hq2 : quiet P.u w2 = false := quiet_false_of_down _ _ _ _ hw2down
  have hpf := pingFacts c0
  have hwc : w.cs = ⟨pingState c0, .tunnel⟩ := by rw [cstate_eta w.cs h.ph, h.cli]
  -- the client state that receives it
  have hcst : CStat P (pingState c0) := by
    have hc := h.c0st
    exact ⟨hpf.running.trans hc.running, hpf.conn.trans hc.conn, hpf.lazymode.trans hc.imm, hpf.userid.trans hc.uid,
      hpf.useridChar.trans hc.uch, hpf.topdomain.trans hc.td, hpf.hostnameMaxlen.trans hc.L, hpf.dataenc.trans hc.enc,
      hpf.doQtype.trans hc.ty, hpf.cid, by rw [hpf.datacmc]; exact hc.cmc, by rw [hpf.ldt, hpf.now]; exact hc.alive,
      by rw [hpf.outpkt]; exact hc.oseq, by rw [hpf.inpkt]; exact hc.iseq, by rw [hpf.inpkt]; exact hc.ifrag,
      by rw [hpf.seed]; exact Nat.mod_lt _ (by omega)⟩
  generalize hrq : (Client.Rq.mk (pkt.length : Int) (pingState c0).chunkid (answerType P.ty) 0 (name.headD 0) pkt) = rq
  have hrok : RecvOk P (pingState c0) rq pkt := by
    subst hrq
    refine ⟨hcst, ?_, hpf.sps, ?_, rfl, rfl, rfl⟩
    · unfold Client.isSending; rw [hpf.outpkt]; exact h.c0idle
    · show name.headD 0 = 112
      rw [headD_eq_getD]; exact hpq.c0
  have hE : CExpect (pingState c0) out sq (o + m) (f + 1) := by
    right
    rw [hpf.inpkt]
    exact ⟨by omega, h.have_.1, by rw [h.have_.2.1]; omega, h.have_.2.2.1, h.have_.2.2.2⟩
  have hdup : sq = (pingState c0).inpkt.seqno ∨ Client.recentSeqno (pingState c0).inpkt.seqno sq = false := by
    left; rw [hpf.inpkt, h.have_.1]
  have hci : cliInput (.ans (pingState c0).chunkid P.ty name pkt) = .rq rq := by subst hrq; rfl
  refine ⟨D, hDdef, hDpos, hDle, ?_⟩
  by_cases hlast : o + m + D = out.length
  · -- the last fragment
    have hfl : FragPkt pkt out sq (o + m) D (f + 1) true := by
      have : decide (out.length > 0 ∧ out.length = o + m + D) = true := by
        rw [decide_eq_true_iff]; omega
      rw [this] at hfp; exact hfp
    subst hout
    have hstep := recv_last hrok hfl hDpos hdup hE hsqr (by omega) hlast h64
    generalize hc2 : lastState (pingState c0) (0x5a :: frame) sq (o + m) D (f + 1) = c2 at hstep
    have hc2st : CStat P c2 := by rw [← hc2]; exact cstat_last hcst _ sq _ D _ hsqr (by omega)
    have hs2 : step w2 (promptEv w2) =
        { w2 with down := [], cs := ⟨c2, .tunnel⟩, tunC := w2.tunC ++ [tunImage frame] } := by
      rw [promptEv_down w2 _ _ hw2up hw2down, step_deliverDown w2 _ _ hw2down, hci,
        stepC_of { w2 with down := [] } (.rq rq) ⟨c2, .tunnel⟩ [Client.writeTun frame] (.sel (Client.selectOf c2))
          (by show Client.cstep w2.cs _ = _; rw [hw2cs, hwc]; exact hstep)
          (by show c2.now = w2.cs.c.now; rw [hw2cs, hwc, ← hc2]; rfl)]
      rw [tunOfC_writeTun frame h4]
      have hno : upOfEvents [Client.writeTun frame] = [] := rfl
      rw [hno]
      subst hw2
      simp
    refine ⟨{ w2 with down := [], cs := ⟨c2, .tunnel⟩, tunC := w2.tunC ++ [tunImage frame] }, ?_, ?_, ?_, ?_, ?_, ?_, ?_⟩
    · rw [promptSteps_succ hq1, hs1, promptSteps_succ hq2, hs2]; rfl
    · subst hw2; exact hfs'
    · subst hw2; exact htun'
    · subst hw2; rfl
    · show c2.selecttimeout = w.cs.c.selecttimeout
      rw [← hc2, hwc]; rfl
    · intro hc; omega
    · intro _
      subst hw2
      refine ⟨⟨rfl, hc2st, ?_, ?_, rfl, rfl, ?_, hds', hDpos, hlast, ?_, ?_, ?_⟩, rfl⟩
      · rw [← hc2]; unfold Client.isSending; show ((pingState c0).outpkt.len != 0) = false
        rw [hpf.outpkt]; exact h.c0idle
      · rw [← hc2]; rfl
      · rw [← hc2]; exact ⟨rfl, rfl⟩
      · show (Server.getUser s' P.u).inpacket.seqno = c2.outpkt.seqno
        rw [hin', h.syncu, ← hc2]
        show c0.outpkt.seqno = (pingState c0).outpkt.seqno
        rw [hpf.outpkt]
      · show Aged P (Server.getUser s' P.u) c2.datacmc 1
        have : c2.datacmc = c0.datacmc := by rw [← hc2]; exact hpf.datacmc
        rw [this]; exact hA'
      · show PAged P (Server.getUser s' P.u) c2.randSeed 1
        have : c2.randSeed = (c0.randSeed + 1) % 65536 := by rw [← hc2]; exact hpf.seed
        rw [this]; exact hPA'
  · -- not the last one: the client acknowledges at once
    have hlt : o + m + D < out.length := by omega
    have hfl : FragPkt pkt out sq (o + m) D (f + 1) false := by
      have : decide (out.length > 0 ∧ out.length = o + m + D) = false := by
        rw [decide_eq_false_iff_not]; omega
      rw [this] at hfp; exact hfp
    obtain ⟨name', hstep, hsend', hpq'⟩ := recv_mid hP hrok hfl hDpos hdup hE hsqr (by omega) hDle h64
    generalize hc3 : midState (pingState c0) out sq (o + m) D (f + 1) = c3 at hstep hsend' hpq'
    have hc3st : CStat P c3 := by rw [← hc3]; exact cstat_mid hcst _ sq _ D _ hsqr (by omega)
    have hs2 : step w2 (promptEv w2) =
        { w2 with down := [], cs := ⟨pingState c3, .tunnel⟩, up := [.query (pingState c3).chunkid P.ty name'] } := by
      rw [promptEv_down w2 _ _ hw2up hw2down, step_deliverDown w2 _ _ hw2down, hci,
        stepC_of { w2 with down := [] } (.rq rq) ⟨pingState c3, .tunnel⟩ [.query (pingState c3).chunkid P.ty name']
          (.sel (Client.selectOf (pingState c3)))
          (by show Client.cstep w2.cs _ = _; rw [hw2cs, hwc]; exact hstep)
          (by show (pingState c3).now = w2.cs.c.now; rw [(pingFacts c3).now, hw2cs, hwc, ← hc3]; rfl)]
      subst hw2
      simp [upOfEvents, tunOfCEvents]
    refine ⟨{ w2 with down := [], cs := ⟨pingState c3, .tunnel⟩, up := [.query (pingState c3).chunkid P.ty name'] }, ?_, ?_, ?_, ?_, ?_, ?_, ?_⟩
    · rw [promptSteps_succ hq1, hs1, promptSteps_succ hq2, hs2]; rfl
    · subst hw2; exact hfs'
    · subst hw2; exact htun'
    · subst hw2; rfl
    · show (pingState c3).selecttimeout = w.cs.c.selecttimeout
      rw [(pingFacts c3).selto, ← hc3, hwc]; rfl
    · intro _
      subst hw2
      refine ⟨c3, ⟨rfl, hc3st, ?_, rfl, ?_, rfl, ?_, hds', hDpos, hlt, ?_, ?_, ?_⟩, rfl⟩
      · rw [← hc3]; unfold Client.isSending; show ((pingState c0).outpkt.len != 0) = false
        rw [hpf.outpkt]; exact h.c0idle
      · show [UpD.query (pingState c3).chunkid P.ty name'] = upOfEvents (Client.sendPing c3).evs
        rw [hsend']; rfl
      · rw [← hc3]
        refine ⟨rfl, rfl, rfl, ?_⟩
        show (out.take (o + m + D)).take (o + m + D) = _
        rw [List.take_take, Nat.min_self]
      · show (Server.getUser s' P.u).inpacket.seqno = c3.outpkt.seqno
        rw [hin', h.syncu, ← hc3]
        show c0.outpkt.seqno = (pingState c0).outpkt.seqno
        rw [hpf.outpkt]
      · show Aged P (Server.getUser s' P.u) c3.datacmc 1
        have : c3.datacmc = c0.datacmc := by rw [← hc3]; exact hpf.datacmc
        rw [this]; exact hA'
      · show PAged P (Server.getUser s' P.u) c3.randSeed 1
        have : c3.randSeed = (c0.randSeed + 1) % 65536 := by rw [← hc3]; exact hpf.seed
        rw [this]; exact hPA'
    · intro hc; omega

end Iodine.C02L
