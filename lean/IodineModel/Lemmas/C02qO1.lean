import IodineModel.Lemmas.C02N1
/-
C02 / OVERLAPPING transfers, lazy mode — part 1: a packet is offered on each side before anything is delivered.
The two offers commute (the client's step and the server's step touch disjoint parts of the joint state), and the state they
lead to is the PRODUCT invariant `BothFlightL`: upstream fragment `fu` in flight in a data query AND downstream fragment
`fd` in flight in the answer to the query the server held.
-/
namespace Iodine.C02L
open Iodine Iodine.Gen Iodine.World

/-- `down_offer_lazy` (C02M3) once more, this time also saying what the answer's header acknowledges upstream (the slot's
`inpacket` at the time) and that the slot's `inpacket` is untouched -/
theorem down_offer_lazy_hdr {P : Par} (hP : P.Ok) {w : W} (hq : QuietLazy P w) (frame : List Nat)
    (h24 : 24 ≤ frame.length) (hl : frame.length < 65536) (hdst : Server.ipDst frame = (Server.getUser w.srv P.u).tunIp)
    (hF : 0 < (Server.getUser w.srv P.u).fragsize) :
    ∃ w1, step w (.offerS frame) = w1 ∧
      DownFlightL P (0x5a :: frame) w1 ((w.cs.c.inpkt.seqno + 1) % 8) 0
        (downLen (Server.getUser w.srv P.u).fragsize (0x5a :: frame).length) 0 ∧
      w1.tunS = w.tunS ∧ w1.tunC = w.tunC ∧ (Server.getUser w1.srv P.u).tunIp = (Server.getUser w.srv P.u).tunIp ∧
      (Server.getUser w1.srv P.u).fragsize = (Server.getUser w.srv P.u).fragsize ∧ w1.cs = w.cs ∧
      (Server.getUser w1.srv P.u).inpacket = (Server.getUser w.srv P.u).inpacket ∧
      ((Server.getUser w1.srv P.u).outpacket.len ≠ 0 →
        downLen (Server.getUser w.srv P.u).fragsize (0x5a :: frame).length < (0x5a :: frame).length) ∧
      (∀ d ∈ w1.down, ∀ id ty name pkt, d = DownD.ans id ty name pkt →
        (Client.decodeHdr pkt).upSeq = (Server.getUser w.srv P.u).inpacket.seqno ∧
        (Client.decodeHdr pkt).upFrag = (Server.getUser w.srv P.u).inpacket.fragment) := by
  have hS := hq.srv
  have hu := hS.solo.lt
  have hsel : tunSelS w = true := tunSelS_idle hS hq.oq
  have htop := topSess_live hS
  have hHB := hq.held
  have hHid := hq.heldid
  have hHM := hq.mem
  generalize hx0 : ({ Server.getUser w.srv P.u with qsNew := false } : Server.Session) = x0 at htop
  have ht : frame.take 65536 = frame := List.take_of_length_le (by omega)
  have hs1 : Solo P.u { putUser w.srv P.u x0 with now := w.srv.now } := (hS.solo.putUser x0).withNow _
  have hg1 : Server.getUser { putUser w.srv P.u x0 with now := w.srv.now } P.u = x0 := by
    rw [getUser_withNow, getUser_putUser_self _ _ _ hu]
  generalize hy : startOut x0 (Server.compress frame) (Server.compress frame).length = y
  have htt : Server.tunnelTun { putUser w.srv P.u x0 with now := w.srv.now } (frame.take 65536) =
      ({ putUser w.srv P.u (scSess y P.u .q).1.1 with now := w.srv.now }, (scSess y P.u .q).1.2) := by
    rw [ht, tunnelTun_start_lazy hs1 frame h24 (by
        rw [hg1]; subst hx0
        exact ⟨hS.x.active, hS.x.auth, hS.x.enabled, by show (Server.getUser w.srv P.u).lastPkt + 60 > w.srv.now; have := hS.live; omega, hdst⟩)
      (by rw [hg1]; subst hx0; exact hS.x.conn) (by rw [hg1]; subst hx0; exact hq.idle.out)
      (by rw [hg1]; subst hx0; exact hq.idle.q) (by rw [hg1]; subst hx0; exact hq.idle.qs), hg1, hy]
    rw [putUser_withNow, putUser_putUser]
  have hit := iteration_tun hS.solo frame w.srv.now (scSess y P.u .q).1.1 (scSess y P.u .q).1.2 (by exact hsel) (by rw [htop]; exact htt)
  -- the new outpacket
  have hclen : (Server.compress frame).length = frame.length + 1 := by simp [Server.compress]
  have hyop : y.outpacket = ⟨(0x5a :: frame).length, 0, 0, 0x5a :: frame, ((w.cs.c.inpkt.seqno + 1) % 8), 0⟩ := by
    subst hy
    unfold startOut
    simp only [hclen, PACKET_DATA_SIZE]
    have h1 : min (frame.length + 1) 65536 = frame.length + 1 := Nat.min_eq_left (by omega)
    rw [h1]
    have h2 : (Server.compress frame).take (frame.length + 1) = 0x5a :: frame := by
      unfold Server.compress
      exact List.take_of_length_le (by simp)
    rw [h2]
    subst hx0
    simp only [List.length_cons]
    congr 1
    show ((Server.getUser w.srv P.u).outpacket.seqno + 1) % 8 = _
    rw [hq.syncd]
  have hyq : y.q = (Server.getUser w.srv P.u).q := by subst hy; subst hx0; rfl
  have hyres : y.outfragresent = 0 := by subst hy; rfl
  have hyoq : y.oqFilled = 0 := by subst hy; subst hx0; exact hq.oq
  have hyrest : rest y = rest (Server.getUser w.srv P.u) := by subst hy; subst hx0; rfl
  have hylp : y.lastPkt = (Server.getUser w.srv P.u).lastPkt := by subst hy; subst hx0; rfl
  have hyfs : y.fragsize = (Server.getUser w.srv P.u).fragsize := rest_fragsize hyrest
  have hyM : HeldMem P y y.q w.cs.c.datacmc w.cs.c.randSeed := by
    rw [hyq]; subst hy; subst hx0; exact hHM.congr rfl rfl rfl rfl rfl rfl
  generalize hH : (Server.getUser w.srv P.u).q = H at hHB hHid hyq
  rw [hyq] at hyM
  -- `send_chunk_or_dataless` on it, read as a ping handler run whose ack is stale and whose query is the held one
  have hself : saveQ (ackSess y 0 0) H y.lastPkt = y := by
    rw [ackSess_stale y 0 0 (by rw [hyop]), ← hyq, saveQ_self]
  have hZ : (scSess y P.u .q).1.1 = pingZ y P.u H 0 0 y.lastPkt := by
    unfold pingZ; rw [hself]
  obtain ⟨D, hDdef, hzo, hzr, hDpos, hDle, yy, hyev, hyo, hyi⟩ := pingZ_first y P.u H 0 0 y.lastPkt (0x5a :: frame)
    ((w.cs.c.inpkt.seqno + 1) % 8) hHB.id2 hyoq hyres hyop (by simp) (by rw [hyfs]; exact hF)
  have hzrest := pingZ_rest y P.u H 0 0 y.lastPkt hHB.id2 hyoq (by omega)
  have hzq := pingZ_q y P.u H 0 0 y.lastPkt hHB.id2 hyoq (by omega)
  rw [hself] at hyev
  rw [← hZ] at hzo hzr hzrest hzq
  rw [hyfs] at hDdef
  obtain ⟨y1, pkt', hm1, hpl, hev', _, hm2, _⟩ := scSess_q_shape y P.u (by rw [hyq]; exact hHB.id2) hyoq (by omega)
  rw [hyq] at hev' hm2
  have hmemo := (hyM.congr hm1.1 hm1.2.1 hm1.2.2.2.2.1 hm1.2.2.2.2.2 hm1.2.2.1 hm1.2.2.2.1).settle hP.hu pkt' hpl
  generalize hz : (scSess y P.u .q).1.1 = z at hit hzo hzr hzrest hzq hm2
  have hzr' : rest z = rest (Server.getUser w.srv P.u) := hzrest.trans hyrest
  have hzqs : z.qs.id = 0 := by rw [rest_qs hzr']; exact hq.idle.qs
  have hsw : sweepSess z P.u w.srv.now = (z, []) := by
    unfold sweepSess
    rw [if_neg (by intro hc; exact hc.2.1 hzqs)]
  rw [hsw, hyev] at hit
  dsimp only at hit
  have hg : Server.getUser { putUser w.srv P.u z with now := w.srv.now } P.u = z := by
    rw [getUser_withNow, getUser_putUser_self _ _ _ hu]
  have hsqr : 0 ≤ (w.cs.c.inpkt.seqno + 1) % 8 ∧ (w.cs.c.inpkt.seqno + 1) % 8 < 8 := by omega
  have hdn : downOfEvents ([Server.writeDns H (Server.scPkt yy D) y.downenc (.chunk P.u)] ++ [Server.Event.sweep] ++ []) =
      [DownD.ans w.cs.c.chunkid P.ty H.name (Server.scPkt yy D)] := by
    simp only [List.append_nil, downOfEvents_append, downOfEvents_sweep, downOfEvents_writeDns _ _ _ _ hHB.from_, hHid, hHB.ty]
  have htn : tunOfSEvents ([Server.writeDns H (Server.scPkt yy D) y.downenc (.chunk P.u)] ++ [Server.Event.sweep] ++ []) = [] := by
    simp only [List.append_nil, tunOfSEvents_append, tunOfSEvents_writeDns, tunOfSEvents_sweep]
  have hw1 : step w (.offerS frame) =
      { w with srv := { putUser w.srv P.u z with now := w.srv.now },
               down := [.ans w.cs.c.chunkid P.ty H.name (Server.scPkt yy D)] } := by
    rw [step_offerS w frame hsel, stepS_zero w _ _ _ _ hit, hdn, htn, hq.down]
    simp
  have hfp := fragPkt_of yy (0x5a :: frame) ((w.cs.c.inpkt.seqno + 1) % 8) 0 D 0 hyo (by omega) hsqr (by omega)
    (by rw [hyi, rest_inpacket hyrest]; exact hS.x.iseq) (by rw [hyi, rest_inpacket hyrest]; exact hS.x.ifrag)
  have hstat : SStat P { putUser w.srv P.u z with now := w.srv.now } := by
    refine ⟨(hS.solo.putUser z).withNow _, hS.td, ?_, ?_, ?_⟩
    · rw [hg]
      refine ⟨(rest_active hzr').trans hS.x.active, (rest_authenticated hzr').trans hS.x.auth, (rest_disabled hzr').trans hS.x.enabled,
        (rest_conn hzr').trans hS.x.conn, (rest_encoder hzr').trans hS.x.enc, ?_, ?_,
        by rw [rest_inpacket hzr']; exact hS.x.iseq, by rw [rest_inpacket hzr']; exact hS.x.ifrag⟩
      · rw [hzo]; split <;> exact hsqr
      · rw [hzo]; split <;> (show (0 : Int) ≤ 0 ∧ (0 : Int) < 16; omega)
    · show _ ∨ ((Server.getUser { putUser w.srv P.u z with now := w.srv.now } P.u).host.fam = 4 ∧ _)
      rw [hg, rest_host hzr']; exact hS.host
    · show w.srv.now < (Server.getUser { putUser w.srv P.u z with now := w.srv.now } P.u).lastPkt + 60
      rw [hg, hzq.2, hylp]; exact hS.live
  refine ⟨_, rfl, ?_, ?_, ?_, ?_, ?_, ?_, ?_, ?_, ?_⟩
  · rw [hw1, ← hDdef]
    refine ⟨hq.ph, hq.cst, hq.cnt, hq.idleC, hq.up, ⟨H.name, Server.scPkt yy D, rfl, ?_, hfp⟩, Or.inl ⟨rfl, rfl, 1, Nat.le_refl _, by omega, rfl⟩,
      Or.inr (recentSeqno_next _ hq.cst.iseq), hsqr, hDpos, by omega, ⟨hstat, ?_, ?_, ?_, ?_, ?_⟩, ?_, ?_, ?_, ?_, ?_⟩
    · rw [headD_eq_getD]
      have := hHM.c0
      rw [hH] at this
      exact notData_held hq.cst.uch _ this
    · show (Server.getUser { putUser w.srv P.u z with now := w.srv.now } P.u).q.id = 0
      rw [hg, hzq.1]
    · show (Server.getUser { putUser w.srv P.u z with now := w.srv.now } P.u).qs.id = 0
      rw [hg]; exact hzqs
    · show (Server.getUser { putUser w.srv P.u z with now := w.srv.now } P.u).lazy = true
      rw [hg, rest_lazy hzr']; exact hq.idle.lazy
    · show (Server.getUser { putUser w.srv P.u z with now := w.srv.now } P.u).oqFilled = 0
      rw [hg, rest_oqFilled hzr']; exact hq.oq
    · show (Server.getUser { putUser w.srv P.u z with now := w.srv.now } P.u).outfragresent ≤ 1
      rw [hg, hzr]; split <;> omega
    · show 0 < (Server.getUser { putUser w.srv P.u z with now := w.srv.now } P.u).fragsize
      rw [hg, rest_fragsize hzr']; exact hF
    · show (Server.getUser { putUser w.srv P.u z with now := w.srv.now } P.u).outpacket = _ ∨ _
      rw [hg, hzo]
      by_cases hw : D = (0x5a :: frame).length
      · rw [if_pos hw]; exact Or.inr ⟨rfl, rfl, rfl, hw⟩
      · rw [if_neg hw]; exact Or.inl rfl
    · show (Server.getUser { putUser w.srv P.u z with now := w.srv.now } P.u).inpacket.seqno = _
      rw [hg, rest_inpacket hzr']; exact hq.syncu
    · show Aged P (Server.getUser { putUser w.srv P.u z with now := w.srv.now } P.u) _ 1
      rw [hg]; exact hmemo.1.congr hm2.1 hm2.2.1 hm2.2.2.2.2.1 hm2.2.2.2.2.2
    · show PAged P (Server.getUser { putUser w.srv P.u z with now := w.srv.now } P.u) _ 1
      rw [hg]; exact hmemo.2.congr hm2.2.2.1 hm2.2.2.2.1 hm2.2.2.2.2.1 hm2.2.2.2.2.2
  · rw [hw1]
  · rw [hw1]
  · rw [hw1]
    show (Server.getUser { putUser w.srv P.u z with now := w.srv.now } P.u).tunIp = _
    rw [hg, rest_tunIp hzr']
  · rw [hw1]
    show (Server.getUser { putUser w.srv P.u z with now := w.srv.now } P.u).fragsize = _
    rw [hg, rest_fragsize hzr']
  · rw [hw1]
  · rw [hw1]
    show (Server.getUser { putUser w.srv P.u z with now := w.srv.now } P.u).inpacket = _
    rw [hg, rest_inpacket hzr']
  · rw [hw1, ← hDdef]
    show (Server.getUser { putUser w.srv P.u z with now := w.srv.now } P.u).outpacket.len ≠ 0 → _
    rw [hg, hzo]
    by_cases hw : D = (0x5a :: frame).length
    · rw [if_pos hw]; intro hc; exact absurd rfl hc
    · intro _; omega
  · rw [hw1]
    intro d hd id ty name pkt he
    simp only [List.mem_singleton] at hd
    rw [hd] at he
    injection he with _ _ _ hpk
    rw [← hpk]
    have hdh := decodeHdr_scPkt yy D (by rw [hyi, rest_inpacket hyrest]; exact hS.x.iseq)
      (by rw [hyi, rest_inpacket hyrest]; exact hS.x.ifrag) (by rw [hyo]; exact hsqr)
      (by rw [hyo]; show (0 : Int) ≤ 0 ∧ (0 : Int) < 16; omega)
    rw [hdh]
    simp only
    rw [hyi, rest_inpacket hyrest]
    exact ⟨rfl, rfl⟩

/-! ### the two offers commute -/

theorem step_offerS_eq (w : W) (f : List Nat) : step w (.offerS f) = if tunSelS w then stepS w (.tun f) 0 else w := rfl
theorem step_offerC_eq (w : W) (f : List Nat) : step w (.offerC f) = if tunSelC w then stepC w (.tun f) else w := rfl

/-- `offerS` reads and writes only the server, the downstream queue and the server's tun device -/
theorem offerS_indep (w w' : W) (f : List Nat) (hs : w'.srv = w.srv) (hd : w'.down = w.down) (ht : w'.tunS = w.tunS) :
    step w' (.offerS f) =
      { w' with srv := (step w (.offerS f)).srv, down := (step w (.offerS f)).down, tunS := (step w (.offerS f)).tunS } := by
  have hsel : tunSelS w' = tunSelS w := by unfold tunSelS; rw [hs]
  rw [step_offerS_eq, step_offerS_eq, hsel]
  by_cases h : tunSelS w = true
  · rw [if_pos h, if_pos h]
    unfold stepS
    simp only [hs, hd, ht, Nat.add_zero]
  · rw [if_neg h, if_neg h, ← hs, ← hd, ← ht]

/-- `offerC` reads and writes only the client, the upstream queue and the client's tun device — when no time passes -/
theorem offerC_indep (w w' : W) (f : List Nat) (hc : w'.cs = w.cs) (hu : w'.up = w.up) (ht : w'.tunC = w.tunC)
    (hsrv : (step w (.offerC f)).srv = w.srv) :
    step w' (.offerC f) =
      { w' with cs := (step w (.offerC f)).cs, up := (step w (.offerC f)).up, tunC := (step w (.offerC f)).tunC } := by
  have hsel : tunSelC w' = tunSelC w := by unfold tunSelC; rw [hc]
  rw [step_offerC_eq] at hsrv
  rw [step_offerC_eq, step_offerC_eq, hsel]
  by_cases h : tunSelC w = true
  · rw [if_pos h] at hsrv
    rw [if_pos h, if_pos h]
    unfold stepC at *
    simp only [hc, hu, ht] at *
    have h0 : w.srv.now + ((Client.cstep w.cs (.tun f)).1.c.now - w.cs.c.now) = w.srv.now := congrArg Server.Srv.now hsrv
    have h1 : (Client.cstep w.cs (.tun f)).1.c.now - w.cs.c.now = 0 := by omega
    rw [h1]
    rfl
  · rw [if_neg h, if_neg h, ← hc, ← hu, ← ht]

/-! ### the product invariant -/

/-- **BOTH directions in flight (lazy mode).**  Upstream fragment `fu` (offset `ou`) of the packet `outU` is on its way to the
server in a data query (`c0` = the client state `send_chunk` was called in, as in `UpFlightL`), AND downstream fragment
`fd` (`D` bytes at offset `od`) of the packet `outD` (seqno `sq`) is on its way to the client (as in `DownFlightL`) — as the
answer to the query the client sent BEFORE that data query (`c0.chunkid`; a ping, or the query the server held when the
packet was offered), whose header acknowledges an OLDER upstream fragment than the one in flight (`stale`).  The client has
the `od` bytes before the downstream fragment; the server has the `ou` bytes before the upstream fragment, holds NO query
(every one was answered with a downstream fragment) and has the downstream fragment unacknowledged (or, if the whole packet
fitted that one fragment, has dropped the packet already); `D` is the length the server would choose again on a resend.  The duplicate memories are aged with slack 1 with respect to
the counters of `c0` (the data query in flight carries `c0.datacmc`; the next ping will carry `c0.randSeed`). -/
structure BothFlightL (P : Par) (outU outD : List Nat) (w : W) (c0 : Client.Cli) (ou fu : Nat) (sq : Int) (od D fd : Nat) :
    Prop where
  ph : w.cs.ph = .tunnel
  ready : CReadyL P c0 outU ou fu
  cli : w.cs.c = { sentStateL c0 with sendPingSoon := 0 }
  up : w.up = upOfEvents (Client.sendChunk c0).evs
  down : ∃ name pkt, w.down = [.ans c0.chunkid P.ty name pkt] ∧ Client.notData c0 (name.headD 0) = false ∧
    FragPkt pkt outD sq od D fd (decide (outD.length > 0 ∧ outD.length = od + D)) ∧
    ¬ ((Client.decodeHdr pkt).upSeq = c0.outpkt.seqno ∧ (Client.decodeHdr pkt).upFrag = (fu : Int))
  exp : CExpect c0 outD sq od fd
  dup : sq = c0.inpkt.seqno ∨ Client.recentSeqno c0.inpkt.seqno sq = false
  hsq : 0 ≤ sq ∧ sq < 8
  hD : 0 < D
  hle : od + D ≤ outD.length
  srv : PingSrvL P w.srv
  frag : 0 < (Server.getUser w.srv P.u).fragsize
  hDdef : D = downLen (Server.getUser w.srv P.u).fragsize (outD.length - od)
  op : ((Server.getUser w.srv P.u).outpacket = ⟨outD.length, D, od, outD, sq, (fd : Int)⟩ ∧ D < outD.length) ∨
    ((Server.getUser w.srv P.u).outpacket = ⟨0, 0, 0, outD, sq, 0⟩ ∧ od = 0 ∧ fd = 0 ∧ D = outD.length)
  expect : Expect (Server.getUser w.srv P.u) outU c0.outpkt.seqno.toNat ou fu
  aged : Aged P (Server.getUser w.srv P.u) c0.datacmc 1
  paged : PAged P (Server.getUser w.srv P.u) c0.randSeed 1

/-- nothing is quiescent about it -/
theorem BothFlightL.not_quiet {P : Par} {outU outD : List Nat} {w : W} {c0 : Client.Cli} {ou fu : Nat} {sq : Int} {od D fd : Nat}
    (h : BothFlightL P outU outD w c0 ou fu sq od D fd) : quiet P.u w = false :=
  quiet_false_of_noq h.srv

/-- **both_offer_lazy.**  From a quiescent joint state in lazy mode, a frame offered to the client and a frame offered to
the server — in EITHER order, before anything is delivered — lead to the same joint state, and that state is the product
invariant with both first fragments in flight; nothing was written to either tun device. -/
theorem both_offer_lazy {P : Par} (hP : P.Ok) {w : W} (hq : QuietLazy P w) (fu fd : List Nat)
    (hu : UpFrameOk P (Server.getUser w.srv P.u).tunIp fu)
    (hd : DownFrameOk (Server.getUser w.srv P.u).tunIp (Server.getUser w.srv P.u).fragsize fd)
    (hF : 0 < (Server.getUser w.srv P.u).fragsize) :
    ∃ w2, step (step w (.offerC fu)) (.offerS fd) = w2 ∧ step (step w (.offerS fd)) (.offerC fu) = w2 ∧
      BothFlightL P (0x5a :: fu) (0x5a :: fd) w2 (newPacket w.cs.c fu) 0 0 ((w.cs.c.inpkt.seqno + 1) % 8) 0
        (downLen (Server.getUser w.srv P.u).fragsize (0x5a :: fd).length) 0 ∧
      w2.tunS = w.tunS ∧ w2.tunC = w.tunC ∧ (Server.getUser w2.srv P.u).tunIp = (Server.getUser w.srv P.u).tunIp ∧
      (Server.getUser w2.srv P.u).fragsize = (Server.getUser w.srv P.u).fragsize := by
  have hne : fu ≠ [] := by intro h; have := hu.h24; rw [h] at this; simp at this
  obtain ⟨wC, hC, hUF, hCtS, hCtC, hCsrv⟩ := up_offer_lazy hP hq fu hne hu.hl hu.bytes
  obtain ⟨wS, hS, hDF, hStS, hStC, hStun, hSfr, hScs, hSin, hSlen, hShdr⟩ := down_offer_lazy_hdr hP hq fd hd.h24 hd.hl hd.dst hF
  -- the two composite steps
  have h1 : step wC (.offerS fd) = { wC with srv := wS.srv, down := wS.down, tunS := wS.tunS } := by
    rw [offerS_indep w wC fd hCsrv (by rw [hUF.down, hq.down]) hCtS, hS]
  have h2 : step wS (.offerC fu) = { wS with cs := wC.cs, up := wC.up, tunC := wC.tunC } := by
    rw [offerC_indep w wS fu hScs (by rw [hDF.up, hq.up]) hStC (by rw [hC]; exact hCsrv), hC]
  have h12 : ({ wS with cs := wC.cs, up := wC.up, tunC := wC.tunC } : W) = { wC with srv := wS.srv, down := wS.down, tunS := wS.tunS } := rfl
  obtain ⟨name, pkt, hdn, hnd, hfp⟩ := hDF.down
  have hc0id : (newPacket w.cs.c fu).chunkid = w.cs.c.chunkid := rfl
  have hc0in : (newPacket w.cs.c fu).inpkt = w.cs.c.inpkt := rfl
  have hc0sq : (newPacket w.cs.c fu).outpkt.seqno = (w.cs.c.outpkt.seqno + 1) % 8 := sChar_small _ (by omega)
  refine ⟨{ wC with srv := wS.srv, down := wS.down, tunS := wS.tunS }, by rw [hC, h1], by rw [hS, h2, h12], ?_, hStS, hCtC, hStun, hSfr⟩
  refine ⟨hUF.ph, hUF.ready, hUF.cli, hUF.up, ⟨name, pkt, ?_, ?_, hfp, ?_⟩, ?_, ?_, hDF.hsq, hDF.hD, hDF.hle, hDF.srv, hDF.frag, ?_, ?_, ?_, ?_, ?_⟩
  · show wS.down = _
    rw [hdn, hScs, hc0id]
  · rw [hScs] at hnd
    exact hnd
  · have := hShdr (.ans wS.cs.c.chunkid P.ty name pkt) (by rw [hdn]; simp) _ _ _ _ rfl
    intro hc
    rw [this.1, hc0sq, hq.syncu] at hc
    have := hq.cst.oseq
    omega
  · have := hDF.exp
    rw [hScs] at this
    exact this
  · have := hDF.dup
    rw [hScs] at this
    rw [hc0in]
    exact this
  · show _ = downLen (Server.getUser wS.srv P.u).fragsize _
    rw [hSfr]; rfl
  · rcases hDF.op with h | h
    · exact Or.inl ⟨h, hSlen (by
        show (Server.getUser wS.srv P.u).outpacket.len ≠ 0
        rw [h]; simp)⟩
    · exact Or.inr h
  · left
    refine ⟨rfl, rfl, 1, Nat.le_refl _, by omega, ?_⟩
    show (((newPacket w.cs.c fu).outpkt.seqno).toNat : Int) = ((Server.getUser wS.srv P.u).inpacket.seqno + ((1 : Nat) : Int)) % 8
    rw [hc0sq, hSin, hq.syncu]
    have := hq.cst.oseq
    omega
  · have := hDF.aged
    rw [hScs] at this
    exact this
  · have := hDF.paged
    rw [hScs] at this
    exact this

end Iodine.C02L
