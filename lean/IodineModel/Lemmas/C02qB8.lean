import IodineModel.Lemmas.C02qB7
/-
C02, phase 2, sub-package "blackout" — part 8: COMPOSITION WITNESS, `k = 5` (kernel-evaluated): three frames lost, the
fourth delivered.
-/
namespace Iodine.C02L
open Iodine Iodine.Gen Iodine.World Iodine.C02

/-- TEST `k = 5`: the next 3 frames are lost, the 4th and 5th are delivered -/
theorem compose_k5 : cleanAfter (bkW 5) [fB 0, fB 1, fB 2, fB 3] [fB 3] = true := by decide +kernel

theorem compose_k5' :
    (offerAllC 0 80 (giveupRunUp [fA 0, fA 1, fA 2, fA 3, fA 4] exW) [fB 0, fB 1, fB 2, fB 3]).tunS = [fB 3] := by
  have := compose_k5
  rw [bk_chain5]
  unfold cleanAfter at this
  simp only [Bool.and_eq_true, beq_iff_eq] at this
  exact this.1.2

end Iodine.C02L
