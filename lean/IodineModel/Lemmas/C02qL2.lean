import IodineModel.Lemmas.C02qL1
/-
C02 phase 2 / upstream, lazy mode, from a desynchronised state — SERVER side of the bad half of the window.

The first fragment of a new packet whose sequence number is the server's own (with a fragment number not above the stored
one) or one of the three before it is taken for a duplicate of a recent packet: `dataUpstream` returns `upstream_ok = 0`,
nothing is stored; the data handler answers the HELD query at once with a dataless packet whose ack field is the server's
OWN `(inpacket.seqno, inpacket.fragment)`, and holds the new query (`srv_recv_drop_lazy`).
The ping the client sends when it gives the packet up finds a query held: that one is answered (dataless), the ping is held
(`srv_ping_lazy_swap`).
-/
namespace Iodine.C02L
open Iodine Iodine.Gen Iodine.Server Iodine.World

/-- the data fragment `(sq, fr)` is dropped by `dataUpstream` as a duplicate -/
def Rej (x : Session) (sq fr : Nat) : Prop :=
  ((sq : Int) = x.inpacket.seqno ∧ (fr : Int) ≤ x.inpacket.fragment) ∨
  ((sq : Int) ≠ x.inpacket.seqno ∧ recentSeqno x.inpacket.seqno sq = true)

theorem dataUpstream_rej {x : Session} {sq fr : Nat} (h : Rej x sq fr) : dataUpstream x sq fr = (x, false) := by
  unfold dataUpstream
  rcases h with h | h
  · rw [if_pos h]
  · rw [if_neg (by intro hc; exact h.1 hc.1), if_pos h]

/-- a first fragment whose sequence number is 5..8 ahead of the slot's (i.e. the slot's own or one of the three before) is
dropped -/
theorem rej_of_ahead {x : Session} (hs : 0 ≤ x.inpacket.seqno ∧ x.inpacket.seqno < 8) (hf : 0 ≤ x.inpacket.fragment)
    {sq : Nat} {j : Nat} (hj : 5 ≤ j ∧ j ≤ 8) (hsq : (sq : Int) = (x.inpacket.seqno + j) % 8) : Rej x sq 0 := by
  by_cases h8 : j = 8
  · left
    subst h8
    exact ⟨by omega, by simpa using hf⟩
  · right
    refine ⟨by omega, ?_⟩
    rw [← recentSeqno_eq, recentSeqno_iff _ _ hs]
    exact ⟨8 - j, by omega, by omega⟩

/-- a dropped fragment (last or not): the HELD query is answered at once with a dataless packet (ack = the slot's own
position) and remembered; the new query is held; the reassembly buffer is untouched -/
theorem dataSess_lazy_reject (x : Session) (u : Nat) (Q : Query) (h : UpHdr) (payload : List Nat) (now : Nat)
    (hi : IdleLazy x) (hup : Rej x h.upSeq h.upFrag) :
    dataSess x u Q h payload now =
      (saveQ { cacheUpd (qmemUpd x x.q) x.q (scPkt x 0) with q := { x.q with id := 0 } } Q now,
       [writeDns x.q (scPkt x 0) x.downenc (.chunk u)]) := by
  obtain ⟨h1, h2, h2', h3, h4⟩ := hi
  have hA : dataASess x h.upSeq h.upFrag h.dnSeq h.dnFrag payload = (x, false) := by
    unfold dataASess
    have : ackSess x h.dnSeq h.dnFrag = x := by simp [ackSess, h1]
    simp only [this, dataUpstream_rej hup, Bool.false_eq_true, if_false]
  unfold dataSess
  rw [hA]
  simp only [Bool.false_eq_true, false_and, if_false]
  have e1 : stepQsSess x u = ((x, []), false) := by
    simp [stepQsSess, h3]
  rw [e1]
  simp only
  have e2 : stepQSess x u false h.last false = ((scSess x u .q).1, !(scSess x u .q).2) := by
    unfold stepQSess
    rw [if_pos h2, if_pos (by simp)]
  rw [e2, scSess_dataless _ _ _ h1 (by simp [QSel.get, h2'])]
  simp only [QSel.get, QSel.set, Bool.not_false]
  generalize hY : ({ cacheUpd (qmemUpd x x.q) x.q (scPkt x 0) with q := { x.q with id := 0 } } : Session) = Y
  have hYc : core Y = core { x with q := { x.q with id := 0 } } := by
    subst hY
    have := core_memo x x.q (scPkt x 0)
    unfold core at this ⊢
    simp only [Session.mk.injEq] at this ⊢
    simp [this]
  have hYl : Y.lazy = true := by
    have := core_lazy hYc
    rw [this]; exact h4
  have hYo : Y.outpacket.len = 0 := by
    have := core_outpacket hYc
    rw [this]; exact h1
  have e3 : stepFinalSess (saveQ Y Q now) u false h.last true = (saveQ Y Q now, []) := by
    simp [stepFinalSess, saveQ, hYl, hYo]
  rw [e3]
  simp

/-- `iteration_data` with the weaker side condition (only an ACCEPTED last fragment hands a packet on) -/
theorem iteration_dataL' {u : Nat} {s : Srv} (hs : Solo u s) (Q : Query) (now' dlen : Nat) (hu : u < 16)
    (hdl : Common.queryDatalen Q.name s.cfg.topdomain = some dlen) (h6 : 6 ≤ dlen)
    (hc : Q.name.getD 0 0 = hexLower u) (hty : TunnelType Q.type) (hid : Q.id ≠ 0)
    (hadm : Admitted (entryS s u now') u Q)
    (hcache : CacheMiss (topSess (getUser s u) s.now) Q) (hqmem : QmemMiss (topSess (getUser s u) s.now) Q)
    (hdup1 : (topSess (getUser s u) s.now).q.id = 0 ∨ (topSess (getUser s u) s.now).q.name ≠ Q.name)
    (hdup2 : (topSess (getUser s u) s.now).qs.id = 0 ∨ (topSess (getUser s u) s.now).qs.name ≠ Q.name)
    (hns : (dataASess (topSess (getUser s u) s.now) (parseUpHdr (Q.name.take (min dlen 512))).upSeq
        (parseUpHdr (Q.name.take (min dlen 512))).upFrag (parseUpHdr (Q.name.take (min dlen 512))).dnSeq
        (parseUpHdr (Q.name.take (min dlen 512))).dnFrag ((Q.name.take (min dlen 512)).drop 5)).2 = false) :
    iteration s (.q Q) now' =
      (let r := dataSess (topSess (getUser s u) s.now) u Q (parseUpHdr (Q.name.take (min dlen 512)))
                  ((Q.name.take (min dlen 512)).drop 5) now'
       ({ putUser s u (sweepSess r.1 u now').1 with now := now' }, r.2 ++ [Event.sweep] ++ (sweepSess r.1 u now').2,
        ((topOfLoop s).2.1, (topOfLoop s).2.2))) := by
  have hs1 := entryS_solo hs now'
  have hg := getUser_entryS hs now'
  apply iteration_solo hs (.q Q) now' _ _ (by intro f hf; cases hf)
  show tunnelDns (entryS s u now') Q = _
  rw [tunnelDns_data (entryS s u now') Q u dlen hu hdl h6 hc hty hid (checkAuth_admitted hadm)
    (answerFromDnscache_none _ _ _ (by rw [hg]; exact hcache)) (answerFromQmemData_none _ _ _ (by rw [hg]; exact hqmem))
    (rememberDuplicate_none _ _ _ (by rw [hg]; exact hdup1) (by rw [hg]; exact hdup2))]
  rw [dataFresh_stages, dataStaged_eq hs1 _ _ _ (by rw [hg, hns]; intro h; cases h), hg]
  unfold entryS
  simp only [putUser_withNow, putUser_putUser]

/-- the slot after a dropped upstream fragment: the new query `Q` is held, everything of the transfer state is as before -/
structure AfterDropL (P : Par) (s s' : Srv) (Q : Query) (pkt : List Nat) : Prop where
  stat : SStat P s'
  idle : IdleLazy (getUser s' P.u)
  qeq : (getUser s' P.u).q = Q
  inp : (getUser s' P.u).inpacket = (getUser s P.u).inpacket
  outp : (getUser s' P.u).outpacket = (getUser s P.u).outpacket
  oq : (getUser s' P.u).oqFilled = (getUser s P.u).oqFilled
  tun : (getUser s' P.u).tunIp = (getUser s P.u).tunIp
  frag : (getUser s' P.u).fragsize = (getUser s P.u).fragsize
  now : s'.now = s.now
  last : (getUser s' P.u).lastPkt = s.now
  pkt : ∃ y : Session, pkt = scPkt y 0 ∧ y.outpacket = (getUser s P.u).outpacket ∧ y.inpacket = (getUser s P.u).inpacket

theorem srv_recv_drop_lazy {P : Par} (hP : P.Ok) {s : Srv} (hS : SStat P s) (hi : IdleLazy (getUser s P.u)) {k sd : Nat}
    (hk : k < 36) (hB : HeldBase P (getUser s P.u).q) (hM : HeldMem P (getUser s P.u) (getUser s P.u).q k sd)
    {Q : Query} {sq fr : Nat} {dsq dfr : Int} {last : Bool} {chunk : List Nat}
    (hQ : UpQ P Q ⟨sq, fr, dsq, dfr, last⟩ k chunk) (hR : Rej (getUser s P.u) sq fr) :
    ∃ s' evs t pkt, iteration s (.q Q) s.now = (s', evs, t) ∧
      downOfEvents evs = [.ans (getUser s P.u).q.id (getUser s P.u).q.type (getUser s P.u).q.name pkt] ∧
      tunOfSEvents evs = [] ∧ AfterDropL P s s' Q pkt ∧
      HeldMem P (getUser s' P.u) Q ((k + 1) % 36) sd := by
  obtain ⟨dlen, hdl, h6, hparse, hpl⟩ := hQ.parse
  have htop := topSess_live hS
  have hu := hS.solo.lt
  generalize hx0 : ({ getUser s P.u with qsNew := false } : Session) = x0 at htop
  have hx0s : XStat P x0 := by subst hx0; exact ⟨hS.x.active, hS.x.auth, hS.x.enabled, hS.x.conn, hS.x.enc, hS.x.oseq, hS.x.ofrag, hS.x.iseq, hS.x.ifrag⟩
  have hx0i : IdleLazy x0 := by subst hx0; exact ⟨hi.out, hi.q, hi.q2, hi.qs, hi.lazy⟩
  have hx0H : x0.q = (getUser s P.u).q := by subst hx0; rfl
  have hx0M : HeldMem P x0 x0.q k sd := by subst hx0; exact hM.congr rfl rfl rfl rfl rfl rfl
  have hx0f : Fresh P x0 k (0 + 1) := hx0M.fresh hk
  have hx0r : Rej x0 sq fr := by subst hx0; exact hR
  have hx0o : x0.outpacket = (getUser s P.u).outpacket := by subst hx0; rfl
  have hx0in : x0.inpacket = (getUser s P.u).inpacket := by subst hx0; rfl
  have hx0h : x0.host = (getUser s P.u).host := by subst hx0; rfl
  have hx0q : x0.oqFilled = (getUser s P.u).oqFilled := by subst hx0; rfl
  have hx0t : x0.tunIp = (getUser s P.u).tunIp := by subst hx0; rfl
  rw [← hx0H] at hB ⊢
  have hA : dataASess x0 sq fr dsq dfr ((Q.name.take (min dlen 512)).drop 5) = (x0, false) := by
    unfold dataASess
    have : ackSess x0 dsq dfr = x0 := by simp [ackSess, hx0i.out]
    simp only [this, dataUpstream_rej hx0r, Bool.false_eq_true, if_false]
  have hit := iteration_dataL' hS.solo Q s.now dlen hP.hu (by rw [hS.td]; exact hdl) h6 hQ.c0 (hQ.ty ▸ hP.tty) hQ.id
    (admitted_entry hS Q hQ.from_)
    (by rw [htop]; exact hx0f.cacheMiss Q hQ.ty hQ.c0 hQ.c4 hk)
    (by rw [htop]; exact hx0f.qmemMiss Q hQ.ty hQ.c4 hk)
    (by rw [htop]; exact Or.inr (hx0M.name_ne hP.hu hk Q hQ.c0 hQ.c4)) (by rw [htop]; exact Or.inl hx0i.qs)
    (by rw [htop, hparse, hA])
  rw [htop, hparse, dataSess_lazy_reject x0 P.u Q _ _ s.now hx0i hx0r] at hit
  simp only at hit
  generalize hH : x0.q = H at hit hB hx0M
  have hmemo := hx0M.memo hP.hu hk (scPkt x0 0) (scPkt0_len x0) Q (hQ.heldData hk)
  generalize hY : (saveQ { cacheUpd (qmemUpd x0 H) H (scPkt x0 0) with q := { H with id := 0 } } Q s.now : Session) = Y at hit
  have hYM : HeldMem P Y Q ((k + 1) % 36) sd := by
    subst hY; exact hmemo.congr rfl rfl rfl rfl rfl rfl
  have hYc : core Y = core { x0 with q := Q, lastPkt := s.now } := by
    subst hY
    have h1 := core_memo x0 H (scPkt x0 0)
    unfold core at h1 ⊢
    unfold saveQ
    simp only [Session.mk.injEq] at h1 ⊢
    simp [h1]
  have fA : Y.active = x0.active := by have := core_active hYc; exact this
  have fB : Y.authenticated = x0.authenticated := by have := core_authenticated hYc; exact this
  have fC : Y.disabled = x0.disabled := by have := core_disabled hYc; exact this
  have fD : Y.conn = x0.conn := by have := core_conn hYc; exact this
  have fE : Y.encoder = x0.encoder := by have := core_encoder hYc; exact this
  have fF : Y.outpacket = x0.outpacket := by have := core_outpacket hYc; exact this
  have fG : Y.inpacket = x0.inpacket := by have := core_inpacket hYc; exact this
  have fH : Y.q = Q := by have := core_q hYc; exact this
  have fI : Y.qs = x0.qs := by have := core_qs hYc; exact this
  have fJ : Y.lazy = x0.lazy := by have := core_lazy hYc; exact this
  have fK : Y.host = x0.host := by have := core_host hYc; exact this
  have fL : Y.lastPkt = s.now := by have := core_lastPkt hYc; exact this
  have fQ : Y.oqFilled = x0.oqFilled := by have := core_oqFilled hYc; exact this
  have fT : Y.tunIp = x0.tunIp := by have := core_tunIp hYc; exact this
  have hsw : sweepSess Y P.u s.now = (Y, []) := by
    unfold sweepSess
    rw [if_neg (by intro hc; apply hc.2.1; rw [fI]; exact hx0i.qs)]
  rw [hsw] at hit
  dsimp only at hit
  have hg : getUser { putUser s P.u Y with now := s.now } P.u = Y := by
    rw [getUser_withNow, getUser_putUser_self _ _ _ hu]
  refine ⟨_, _, _, scPkt x0 0, hit, ?_, ?_, ?_, ?_⟩
  · simp only [List.append_nil, downOfEvents_append, downOfEvents_sweep, downOfEvents_writeDns _ _ _ _ hB.from_]
  · simp only [List.append_nil, tunOfSEvents_append, tunOfSEvents_writeDns, tunOfSEvents_sweep]
  · refine ⟨?_, ?_, ?_, ?_, ?_, ?_, ?_, ?_, rfl, ?_, ?_⟩
    · refine ⟨(hS.solo.putUser Y).withNow _, hS.td, ?_, ?_, ?_⟩
      · rw [hg]
        exact ⟨fA ▸ hx0s.active, fB ▸ hx0s.auth, fC ▸ hx0s.enabled, fD ▸ hx0s.conn, fE ▸ hx0s.enc, fF ▸ hx0s.oseq, fF ▸ hx0s.ofrag,
          fG ▸ hx0s.iseq, fG ▸ hx0s.ifrag⟩
      · rw [hg, fK, hx0h]; exact hS.host
      · rw [hg, fL]; show s.now < s.now + 60; omega
    · rw [hg]
      exact ⟨fF ▸ hx0i.out, by rw [fH]; exact hQ.id, by rw [fH]; exact hQ.id2, fI ▸ hx0i.qs, fJ ▸ hx0i.lazy⟩
    · rw [hg]; exact fH
    · rw [hg, fG, hx0in]
    · rw [hg, fF, hx0o]
    · rw [hg, fQ, hx0q]
    · rw [hg, fT, hx0t]
    · rw [hg]
      have : Y.fragsize = x0.fragsize := by have h9 := core_fragsize hYc; exact h9
      rw [this]; subst hx0; rfl
    · rw [hg]; exact fL
    · exact ⟨x0, rfl, hx0o, hx0in⟩
  · rw [hg]; exact hYM

end Iodine.C02L
