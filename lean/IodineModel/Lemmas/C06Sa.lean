import IodineModel.Lemmas.CliQ3
/-
C06 for whole client sessions, part 1: the TUNNEL machine (`Client/Tunnel.lean`, `Client/Loop.lean`).

* `Keep c c'`: `c'` differs from `c` only in the bookkeeping of the send scheduler (timers, counters, the id window,
  the CMC seed, the lazy flag, `running`).  Everything `tunnel_dns` does with a reply whose id is none of the three
  remembered ones, or whose question does not start with an expected character, is `Keep` (`tunnelDns_unmatched`).
* `BInv B c`: every list of `c` that stands for a C array fits the array (`inpkt.data[64K]`, `outpkt.data[64K]`),
  `inpkt.len`/`outpkt.offset`/`outpkt.sentlen`/`outpkt.len` stay inside what is stored.  Invariant under every
  function of the tunnel phase for ARBITRARY inputs (`cstep_binv`); the events respect the sizes of `out[64K]`
  (what `write_tun` is handed) and `packet[4096]` of `send_raw` (`EvB`).
-/
namespace Iodine.C06L
open Iodine Iodine.Client Iodine.Gen

/-! ### `Keep`: only the scheduler's bookkeeping differs -/

structure Keep (c c' : Cli) : Prop where
  inpkt : c'.inpkt = c.inpkt
  outpkt : c'.outpkt = c.outpkt
  resent : c'.outchunkresent = c.outchunkresent
  ldt : c'.lastdownstreamtime = c.lastdownstreamtime
  uid : c'.userid = c.userid
  uc : c'.useridChar = c.useridChar
  uc2 : c'.useridChar2 = c.useridChar2
  enc : c'.dataenc = c.dataenc
  dn : c'.downenc = c.downenc
  ty : c'.doQtype = c.doQtype
  conn : c'.conn = c.conn
  td : c'.topdomain = c.topdomain
  ml : c'.hostnameMaxlen = c.hostnameMaxlen
  cmc : c'.datacmc = c.datacmc
  edns : c'.edns0 = c.edns0
  now : c'.now = c.now
  lrp : c'.lastrawping = c.lastrawping

macro "keep_rfl" : tactic =>
  `(tactic| exact ⟨rfl, rfl, rfl, rfl, rfl, rfl, rfl, rfl, rfl, rfl, rfl, rfl, rfl, rfl, rfl, rfl, rfl⟩)

theorem Keep.refl (c : Cli) : Keep c c := by keep_rfl

theorem Keep.trans {a b c : Cli} (h1 : Keep a b) (h2 : Keep b c) : Keep a c :=
  ⟨h2.inpkt.trans h1.inpkt, h2.outpkt.trans h1.outpkt, h2.resent.trans h1.resent, h2.ldt.trans h1.ldt,
   h2.uid.trans h1.uid, h2.uc.trans h1.uc, h2.uc2.trans h1.uc2, h2.enc.trans h1.enc, h2.dn.trans h1.dn,
   h2.ty.trans h1.ty, h2.conn.trans h1.conn, h2.td.trans h1.td, h2.ml.trans h1.ml, h2.cmc.trans h1.cmc,
   h2.edns.trans h1.edns, h2.now.trans h1.now, h2.lrp.trans h1.lrp⟩

/-- all events are queries -/
def OnlyQ (evs : List CEvent) : Prop := ∀ e ∈ evs, ∃ id ty n, e = .query id ty n

theorem onlyQ_nil : OnlyQ [] := by intro e h; cases h

theorem onlyQ_append {a b : List CEvent} (ha : OnlyQ a) (hb : OnlyQ b) : OnlyQ (a ++ b) := by
  intro e h
  rcases List.mem_append.mp h with h | h
  · exact ha e h
  · exact hb e h

theorem wireQuery_query {id ty : Nat} {e : Bool} {h : List Nat} {ev : CEvent} (hw : wireQuery id ty e h = some ev) :
    ∃ id ty n, ev = .query id ty n := by
  unfold wireQuery at hw
  split at hw
  · split at hw
    · cases hw
    · split at hw <;> (injection hw with hw; subst hw; exact ⟨_, _, _, rfl⟩)
  · cases hw
  · cases hw

theorem keep_rotate (c : Cli) : Keep c (rotateChunkid c) := by unfold rotateChunkid; keep_rfl

theorem sendQueryPlain_k (c : Cli) (h : List Nat) :
    Keep c (sendQueryPlain c h).1.1 ∧ OnlyQ (sendQueryPlain c h).1.2 ∧ (sendQueryPlain c h).1.2.length ≤ 1 := by
  unfold sendQueryPlain
  simp only
  split
  · exact ⟨keep_rotate c, onlyQ_nil, by simp⟩
  · rename_i ev hw
    refine ⟨keep_rotate c, ?_, by simp⟩
    intro e he
    simp only [List.mem_singleton] at he
    subst he
    exact wireQuery_query hw

theorem sendHandshakeQuery_k (c : Cli) (p : List Nat) :
    Keep c (sendHandshakeQuery c p).1 ∧ OnlyQ (sendHandshakeQuery c p).2 ∧ (sendHandshakeQuery c p).2.length ≤ 1 := by
  unfold sendHandshakeQuery
  simp only
  have h := sendQueryPlain_k { c with randSeed := (c.randSeed + 1) % 65536 }
    ((p.take 60 ++ [b32_5to8 ((c.randSeed / 1024 % 32 : Nat) : Int), b32_5to8 ((c.randSeed / 32 % 32 : Nat) : Int),
        b32_5to8 ((c.randSeed % 32 : Nat) : Int), 46]) ++
      c.topdomain.take (300 - (p.take 60 ++ [b32_5to8 ((c.randSeed / 1024 % 32 : Nat) : Int),
        b32_5to8 ((c.randSeed / 32 % 32 : Nat) : Int), b32_5to8 ((c.randSeed % 32 : Nat) : Int), 46]).length - 1))
  exact ⟨Keep.trans (b := { c with randSeed := (c.randSeed + 1) % 65536 }) (by keep_rfl) h.1, h.2.1, h.2.2⟩

theorem lazyoffIter_k (c : Cli) (i : Nat) :
    Keep c (lazyoffIter c i).c ∧ OnlyQ (lazyoffIter c i).evs ∧ (lazyoffIter c i).evs.length ≤ 1 := by
  unfold lazyoffIter
  split
  · exact sendHandshakeQuery_k c _
  · exact ⟨Keep.refl c, onlyQ_nil, by simp⟩

theorem sendQueryCount_k (c : Cli) :
    Keep c (sendQueryCount c).c ∧ OnlyQ (sendQueryCount c).evs ∧ (sendQueryCount c).evs.length ≤ 1 := by
  unfold sendQueryCount
  simp only
  repeat' split
  all_goals first
    | exact ⟨by keep_rfl, onlyQ_nil, by simp⟩
    | (have hx := lazyoffIter_k { c with sendcnt := c.sendcnt + 1, lazymode := false, selecttimeout := 1 } 0
       exact ⟨Keep.trans (b := { c with sendcnt := c.sendcnt + 1, lazymode := false, selecttimeout := 1 }) (by keep_rfl) hx.1,
         hx.2.1, hx.2.2⟩)

theorem sendQuery_k (c : Cli) (h : List Nat) :
    Keep c (sendQuery c h).c ∧ OnlyQ (sendQuery c h).evs ∧ (sendQuery c h).evs.length ≤ 2 := by
  have h1 := sendQueryPlain_k c h
  have h2 := sendQueryCount_k (sendQueryPlain c h).1.1
  unfold sendQuery
  simp only
  split
  · refine ⟨h1.1.trans h2.1, onlyQ_append h1.2.1 h2.2.1, ?_⟩
    rw [List.length_append]
    have := h1.2.2
    have := h2.2.2
    omega
  · exact ⟨h1.1, h1.2.1, Nat.le_trans h1.2.2 (by decide)⟩

theorem sendPing_k (c : Cli) (hc : c.conn = .dnsNull) :
    Keep c (sendPing c).c ∧ OnlyQ (sendPing c).evs ∧ (sendPing c).evs.length ≤ 2 := by
  unfold sendPing
  rw [if_pos hc]
  unfold sendPacket
  have h := sendQuery_k { c with randSeed := (c.randSeed + 1) % 65536 }
    (112 :: (buildHostname Codec.b32 c.hostnameMaxlen 4095 112 c.topdomain
      [maskI c.userid 256, (maskI c.inpkt.seqno 8 * 16 ||| maskI c.inpkt.fragment 16) % 256,
       c.randSeed / 256 % 256, c.randSeed % 256]).name)
  exact ⟨Keep.trans (b := { c with randSeed := (c.randSeed + 1) % 65536 }) (by keep_rfl) h.1, h.2.1, h.2.2⟩

theorem keep_resume (c : Cli) (k : Resume) : Keep c (resume c k).1 := by
  rw [resume_state]; keep_rfl

theorem afterSend_k (c : Cli) (s : Sent) (k : Resume) (hk : Keep c s.c) :
    Keep c (afterSend s [] k).1 ∧ (afterSend s [] k).2.1 = s.evs := by
  unfold afterSend
  split
  · exact ⟨hk, by simp⟩
  · exact ⟨hk.trans (keep_resume s.c k), by simp⟩

theorem keep_servfailCount (c : Cli) (rq : Rq) : Keep c (servfailCount c rq) := by
  unfold servfailCount
  repeat' split
  all_goals keep_rfl

theorem keep_dupeSeqno (c : Cli) (h : Hdr) (read : Int) : Keep c (dupeSeqno c h read).1 := by
  unfold dupeSeqno
  split <;> keep_rfl

theorem keep_countRecv (c : Cli) : Keep c (countRecv c) := by unfold countRecv; keep_rfl

theorem keep_oosCount (c : Cli) : Keep c (oosCount c) := by
  unfold oosCount
  simp only
  split <;> keep_rfl

theorem keep_afterSelect (c : Cli) : Keep c (afterSelect c) := by
  unfold afterSelect
  split
  · keep_rfl
  · exact Keep.refl c

/-- the ids survive the bookkeeping in front of the id test -/
theorem recentId_pre (c : Cli) (h : Hdr) (rv : Int) (id : Nat) :
    recentId (countRecv (dupeSeqno { c with sendPingSoon := 0 } h rv).1) id = recentId c id := by
  unfold dupeSeqno
  split <;> rfl

/-- **the core of "unmatched replies are ignored"** (DNS mode): a reply whose id is none of the three remembered ones, or whose
question name does not start with `P`, `p` or the user-id character, changes only bookkeeping (`Keep`), and the only thing
it can make the client send is queries: at most the ping that was due anyway (`send_ping_soon ≠ 0`) and the lazy-mode switch
that ping's `send_query` may decide on. -/
theorem tunnelDns_unmatched (c : Cli) (q : Rq) (hc : c.conn = .dnsNull)
    (h : recentId c q.id = false ∨ notData c q.name0 = true) :
    Keep c (tunnelDns c q).1 ∧ OnlyQ (tunnelDns c q).2.1 ∧ (tunnelDns c q).2.1.length ≤ 2 ∧
      (c.sendPingSoon = 0 ∨ notData c q.name0 = true → (tunnelDns c q).2.1 = []) := by
  unfold tunnelDns
  split
  · exact ⟨by keep_rfl, onlyQ_nil, by simp, fun _ => rfl⟩
  · rename_i hnd
    have hid : recentId c q.id = false := by
      rcases h with h | h
      · exact h
      · exact absurd h hnd
    split
    · exact ⟨(keep_servfailCount c q).trans (by keep_rfl), onlyQ_nil, by simp, fun _ => rfl⟩
    · split
      · exact ⟨Keep.refl c, onlyQ_nil, by simp, fun _ => rfl⟩
      · simp only
        have h0 : Keep c { c with sendPingSoon := 0 } := by keep_rfl
        have h1 := keep_dupeSeqno { c with sendPingSoon := 0 } (decodeHdr q.buf) q.rv
        have h2 := keep_countRecv (dupeSeqno { c with sendPingSoon := 0 } (decodeHdr q.buf) q.rv).1
        have h3 := keep_oosCount (countRecv (dupeSeqno { c with sendPingSoon := 0 } (decodeHdr q.buf) q.rv).1)
        have h0123 := ((h0.trans h1).trans h2).trans h3
        rw [recentId_pre, hid]
        simp only [Bool.not_false, if_true]
        split
        · rename_i hsn
          have hp := sendPing_k (oosCount (countRecv (dupeSeqno { c with sendPingSoon := 0 } (decodeHdr q.buf) q.rv).1))
            (h0123.conn.trans hc)
          have ha := afterSend_k c _ .dnsOosPing (h0123.trans hp.1)
          refine ⟨ha.1, ?_, ?_, ?_⟩
          · rw [ha.2]; exact hp.2.1
          · rw [ha.2]; exact hp.2.2
          · intro hz
            rcases hz with hz | hz
            · simp [hz] at hsn
            · exact absurd hz hnd
        · exact ⟨h0123, onlyQ_nil, by simp, fun _ => rfl⟩

/-- the same for one whole turn of `client_tunnel`'s loop -/
theorem tunnelStep_unmatched (c : Cli) (q : Rq) (hc : c.conn = .dnsNull)
    (h : recentId c q.id = false ∨ notData c q.name0 = true) :
    Keep c (tunnelStep c (.rq q)).1.c ∧ OnlyQ (tunnelStep c (.rq q)).2.1 ∧ (tunnelStep c (.rq q)).2.1.length ≤ 2 ∧
      (c.sendPingSoon = 0 ∨ notData c q.name0 = true → (tunnelStep c (.rq q)).2.1 = []) := by
  have hk := keep_afterSelect c
  have hc1 : (afterSelect c).conn = .dnsNull := hk.conn.trans hc
  have hsp : (afterSelect c).sendPingSoon = c.sendPingSoon := by unfold afterSelect; split <;> rfl
  have h' : recentId (afterSelect c) q.id = false ∨ notData (afterSelect c) q.name0 = true := by
    have e1 : recentId (afterSelect c) q.id = recentId c q.id := by unfold afterSelect; split <;> rfl
    have e2 : notData (afterSelect c) q.name0 = notData c q.name0 := by unfold afterSelect; split <;> rfl
    rw [e1, e2]; exact h
  have ht := tunnelDns_unmatched (afterSelect c) q hc1 h'
  have e2 : notData (afterSelect c) q.name0 = notData c q.name0 := by unfold afterSelect; split <;> rfl
  have hrk : rawKeepalive (afterSelect c) = (afterSelect c, []) := by
    unfold rawKeepalive
    simp [hc1]
  have heq : tunnelStep c (.rq q) =
      if !(afterSelect c).running then (⟨afterSelect c, .idle⟩, [], .finished 0) else settle (tunnelDns (afterSelect c) q) := by
    unfold tunnelStep
    simp only [fire, hrk, after, List.nil_append, tunnelDnsInput, hc1, if_true]
  have hfin : ∀ o : CState × List CEvent × Next, o = settle (tunnelDns (afterSelect c) q) →
      Keep c o.1.c ∧ OnlyQ o.2.1 ∧ o.2.1.length ≤ 2 ∧ (c.sendPingSoon = 0 ∨ notData c q.name0 = true → o.2.1 = []) := by
    intro o ho
    subst ho
    unfold settle
    split
    · unfold loopTop
      split
      · exact ⟨hk.trans ht.1, ht.2.1, ht.2.2.1, by rw [← hsp, ← e2]; exact ht.2.2.2⟩
      · exact ⟨hk.trans ht.1, ht.2.1, ht.2.2.1, by rw [← hsp, ← e2]; exact ht.2.2.2⟩
    · exact ⟨hk.trans ht.1, ht.2.1, ht.2.2.1, by rw [← hsp, ← e2]; exact ht.2.2.2⟩
  rw [heq]
  cases hr : (afterSelect c).running
  · exact ⟨hk, onlyQ_nil, by simp, fun _ => by simp⟩
  · exact hfin _ (by simp)

/-- in the `select` of `handshake_lazyoff`'s `handshake_waitdns` an unfitting reply changes NOTHING -/
theorem lazyoffStep_unmatched (c : Cli) (i : Nat) (k : Resume) (q : Rq)
    (h : q.id ≠ c.chunkid ∨ (q.name0 ≠ 111 ∧ q.name0 ≠ 79)) :
    lazyoffStep c i k (.rq q) = (⟨c, .lazyoff i k⟩, [], .sel waitSel) := by
  unfold lazyoffStep
  simp only [fire, waitdnsRound, h, if_true]

theorem loopTop_evs (c : Cli) (evs : List CEvent) : (loopTop c evs).2.1 = evs := by
  unfold loopTop; split <;> rfl

theorem lazyoffNext_onlyQ (c : Cli) (i : Nat) (k : Resume) : OnlyQ (lazyoffNext c i k).2.1 := by
  unfold lazyoffNext
  simp only
  split
  · exact (lazyoffIter_k _ _).2.1
  · unfold lazyoffReturn
    rw [loopTop_evs]
    exact (lazyoffIter_k _ _).2.1

theorem lazyoffTail_onlyQ (c : Cli) (i : Nat) (k : Resume) (read : Int) (buf : List Nat) :
    OnlyQ (if (lazyoffGot c read buf).2 then lazyoffReturn (lazyoffGot c read buf).1 k []
      else lazyoffNext (lazyoffGot c read buf).1 i k).2.1 := by
  split
  · unfold lazyoffReturn
    rw [loopTop_evs]
    exact onlyQ_nil
  · exact lazyoffNext_onlyQ _ _ _

/-- every event of a step taken in `handshake_lazyoff`'s `select` is a query (the next switch request) -/
theorem lazyoffStep_onlyQ (c : Cli) (i : Nat) (k : Resume) (inp : CInput) : OnlyQ (lazyoffStep c i k inp).2.1 := by
  unfold lazyoffStep
  simp only
  split
  · exact onlyQ_nil
  · exact lazyoffTail_onlyQ _ _ _ _ _

/-- raw mode: a datagram that is too short, does not start with the magic, or carries another user nibble is dropped by
`read_dns_withq` before it has any effect -/
theorem readRaw_unmatched (c : Cli) (b : List Nat)
    (h : b.length < RAW_HDR_LEN ∨ b.take 3 ≠ rawHeader.take 3 ∨
      ((b.getD 3 0 &&& RAW_HDR_USR_MASK : Nat) : Int) ≠ c.userid) :
    readRaw c b = (c, []) := by
  unfold readRaw
  simp only
  split
  · rfl
  · rename_i h1
    split
    · rfl
    · rename_i h2
      split
      · rfl
      · rename_i h3
        exfalso
        have hl : (b.take 65536).length = min 65536 b.length := List.length_take
        have h23 : (b.take 65536).take 3 = b.take 3 := by rw [List.take_take]; simp
        have hg : (b.take 65536).getD 3 0 = b.getD 3 0 := by
          have h4 : RAW_HDR_LEN = 4 := rfl
          simp only [List.getD_eq_getElem?_getD]
          rw [List.getElem?_take]
          simp
        rcases h with h | h | h
        · have h4 : RAW_HDR_LEN = 4 := rfl
          omega
        · rw [h23] at h2; exact h2 h
        · rw [hg] at h3; exact h3 h

/-! ### `BInv`: the lists fit the C arrays -/

structure BInv (B : Nat) (c : Cli) : Prop where
  inData : c.inpkt.data.length ≤ 65536
  inLen : c.inpkt.len ≤ c.inpkt.data.length
  outData : c.outpkt.data.length ≤ 65536
  outStored : c.outpkt.len ≤ c.outpkt.data.length ∨ 65536 ≤ c.outpkt.data.length
  outMax : c.outpkt.len ≤ B
  outOff : c.outpkt.offset + c.outpkt.sentlen ≤ c.outpkt.len

/-- the two packet buffers are the same -/
def SameP (c c' : Cli) : Prop := c'.inpkt = c.inpkt ∧ c'.outpkt = c.outpkt

theorem Keep.sameP {c c' : Cli} (h : Keep c c') : SameP c c' := ⟨h.inpkt, h.outpkt⟩

theorem SameP.refl (c : Cli) : SameP c c := ⟨rfl, rfl⟩

theorem SameP.trans {a b c : Cli} (h1 : SameP a b) (h2 : SameP b c) : SameP a c :=
  ⟨h2.1.trans h1.1, h2.2.trans h1.2⟩

theorem BInv.sameP {B : Nat} {c c' : Cli} (h : BInv B c) (e : SameP c c') : BInv B c' := by
  obtain ⟨e1, e2⟩ := e
  exact ⟨e1 ▸ h.inData, e1 ▸ h.inLen, e2 ▸ h.outData, e2 ▸ h.outStored, e2 ▸ h.outMax, e2 ▸ h.outOff⟩

/-- what an event may be in the tunnel phase: a frame from `out[64K]`, a datagram from `send_raw`'s `packet[4096]`, a query;
never a shell command -/
def EvB : CEvent → Prop
  | .tunw f => f.length ≤ 65536
  | .rawtx b => b.length ≤ 4096
  | .query _ _ _ => True
  | .sys _ => False

def EvsB (l : List CEvent) : Prop := ∀ e ∈ l, EvB e

theorem evsB_nil : EvsB [] := by intro e h; cases h

theorem evsB_append {a b : List CEvent} (ha : EvsB a) (hb : EvsB b) : EvsB (a ++ b) := by
  intro e h
  rcases List.mem_append.mp h with h | h
  · exact ha e h
  · exact hb e h

theorem evsB_one {e : CEvent} (h : EvB e) : EvsB [e] := by
  intro x hx
  simp only [List.mem_singleton] at hx
  subst hx; exact h

theorem evsB_of_onlyQ {l : List CEvent} (h : OnlyQ l) : EvsB l := by
  intro e he
  obtain ⟨id, ty, n, rfl⟩ := h e he
  trivial

theorem evB_sendRaw (c : Cli) (buf : List Nat) (buflen cmd : Nat) : EvB (sendRaw c buf buflen cmd) := by
  show (rawHeader.take 3 ++ [(cmd ||| maskI c.userid 16) % 256] ++ buf.take (min (4096 - RAW_HDR_LEN) buflen)).length ≤ 4096
  simp only [List.length_append, List.length_take, List.length_cons, List.length_nil]
  have h4 : RAW_HDR_LEN = 4 := rfl
  have : rawHeader.length = 4 := rfl
  omega

theorem evB_writeTun (out : List Nat) (h : out.length ≤ 65536) : EvB (writeTun out) := by
  show (([0, 0, 8, 0] ++ out.drop 4).take out.length).length ≤ 65536
  rw [List.length_take]
  omega

theorem uncompress_le {d out : List Nat} {cap : Nat} (h : uncompress d cap = some out) : out.length ≤ cap := by
  unfold uncompress at h
  split at h
  · cases h
  · split at h
    · rename_i hh
      injection h with h
      subst h
      exact hh.2
    · cases h

/-! ### the encoders never report more input bytes than they were given -/

theorem enc_used_le (e : Enc) (space : Nat) (d : List Nat) : (Codec.enc e.codec space d).used ≤ d.length := by
  unfold Codec.enc
  simp only
  split
  · exact Nat.le_refl _
  · rename_i hm
    have hj : (if e.codec.k * (space - 1) / 8 < e.codec.k * space / 8 then space else space - 1) ≤ space := by
      split <;> omega
    show e.codec.k * (if e.codec.k * (space - 1) / 8 < e.codec.k * space / 8 then space else space - 1) / 8 ≤ d.length
    generalize (if e.codec.k * (space - 1) / 8 < e.codec.k * space / 8 then space else space - 1) = j at hj
    cases e <;> simp only [Enc.codec, Codec.b32, Codec.b64, Codec.b64u, Codec.b128, Codec.nchars] at hm ⊢ <;> omega

theorem buildHostname_used_le (e : Enc) (maxlen : Int) (buflen prev : Nat) (td d : List Nat) :
    (Client.buildHostname e.codec maxlen buflen prev td d).used ≤ d.length := by
  unfold Client.buildHostname
  split
  · rename_i b hb
    unfold Encoding.buildHostname at hb
    split at hb
    · cases hb
    · injection hb with hb
      subst hb
      exact enc_used_le e _ d
  · exact enc_used_le e _ d

theorem outRest_length (p : Packet) : (outRest p).length = min p.len p.data.length - p.offset := by
  simp only [outRest, List.length_drop, List.length_take]

/-! ### the senders -/

/-- postcondition of a sender -/
structure BSent (B : Nat) (s : Sent) : Prop where
  inv : BInv B s.c
  evs : EvsB s.evs

theorem sendQuery_b {B : Nat} (c : Cli) (h : List Nat) (hb : BInv B c) : BSent B (sendQuery c h) :=
  ⟨hb.sameP (sendQuery_k c h).1.sameP, evsB_of_onlyQ (sendQuery_k c h).2.1⟩

theorem sendPing_b {B : Nat} (c : Cli) (hb : BInv B c) : BSent B (sendPing c) := by
  unfold sendPing
  split
  · unfold sendPacket
    exact sendQuery_b _ _ (hb.sameP ⟨rfl, rfl⟩)
  · exact ⟨hb.sameP ⟨rfl, rfl⟩, evsB_one (evB_sendRaw _ _ _ _)⟩

/-- `BInv` without the condition on the old `sentlen` (which `send_chunk` overwrites) -/
structure BPre (B : Nat) (c : Cli) : Prop where
  inData : c.inpkt.data.length ≤ 65536
  inLen : c.inpkt.len ≤ c.inpkt.data.length
  outData : c.outpkt.data.length ≤ 65536
  outStored : c.outpkt.len ≤ c.outpkt.data.length ∨ 65536 ≤ c.outpkt.data.length
  outMax : c.outpkt.len ≤ B
  outOff : c.outpkt.offset ≤ c.outpkt.len

theorem BInv.pre {B : Nat} {c : Cli} (h : BInv B c) : BPre B c :=
  ⟨h.inData, h.inLen, h.outData, h.outStored, h.outMax, by have := h.outOff; omega⟩

theorem sendChunk_b {B : Nat} (c : Cli) (hb : BPre B c) : BSent B (sendChunk c) := by
  unfold sendChunk
  simp only
  apply sendQuery_b
  have hu := buildHostname_used_le c.dataenc c.hostnameMaxlen 4091 0 c.topdomain (outRest c.outpkt)
  have hl := outRest_length c.outpkt
  have ho := hb.outOff
  refine ⟨hb.inData, hb.inLen, hb.outData, hb.outStored, hb.outMax, ?_⟩
  show c.outpkt.offset + (buildHostname c.dataenc.codec c.hostnameMaxlen 4091 0 c.topdomain (outRest c.outpkt)).used ≤ c.outpkt.len
  omega

/-! ### the handlers -/

/-- postcondition of a handler -/
structure BGood (B : Nat) (r : Cli × List CEvent × Stop) : Prop where
  inv : BInv B r.1
  evs : EvsB r.2.1

theorem sameP_resume (c : Cli) (k : Resume) : SameP c (resume c k).1 := (keep_resume c k).sameP

theorem afterSend_b {B : Nat} (s : Sent) (pre : List CEvent) (k : Resume) (hs : BSent B s) (hp : EvsB pre) :
    BGood B (afterSend s pre k) := by
  unfold afterSend
  split
  · exact ⟨hs.inv, evsB_append hp hs.evs⟩
  · exact ⟨hs.inv.sameP (sameP_resume s.c k), evsB_append hp hs.evs⟩

theorem tunnelTun_b {B : Nat} (c : Cli) (frame : List Nat) (hb : BInv B c) (hf : min frame.length 65536 + 1 ≤ B) :
    BGood B (tunnelTun c frame) := by
  unfold tunnelTun
  simp only
  split
  · exact ⟨hb, evsB_nil⟩
  · split
    · exact ⟨hb, evsB_nil⟩
    · have hlen : (compress (frame.take 65536)).length = min 65536 frame.length + 1 := by
        simp [compress, List.length_take]
      have hb1 : BInv B { c with
          outpkt := { c.outpkt with data := (compress (frame.take 65536)).take 65536, sentlen := 0, offset := 0,
                                    seqno := sChar (((c.outpkt.seqno + 1) % 8 : Int)),
                                    len := (compress (frame.take 65536)).length, fragment := 0 },
          outchunkresent := 0 } := by
        refine ⟨hb.inData, hb.inLen, ?_, ?_, ?_, ?_⟩
        · show ((compress (frame.take 65536)).take 65536).length ≤ 65536
          rw [List.length_take]; omega
        · show (compress (frame.take 65536)).length ≤ ((compress (frame.take 65536)).take 65536).length ∨
            65536 ≤ ((compress (frame.take 65536)).take 65536).length
          rw [List.length_take]; omega
        · show (compress (frame.take 65536)).length ≤ B
          rw [hlen]; omega
        · show 0 + 0 ≤ (compress (frame.take 65536)).length
          omega
      split
      · exact afterSend_b _ _ _ (sendChunk_b _ hb1.pre) evsB_nil
      · refine ⟨?_, evsB_one (evB_sendRaw _ _ _ _)⟩
        refine ⟨hb.inData, hb.inLen, hb1.outData, Or.inl (Nat.zero_le _), Nat.zero_le _, ?_⟩
        show 0 + 0 ≤ 0
        omega

theorem readRaw_b {B : Nat} (c : Cli) (data : List Nat) (hb : BInv B c) : BInv B (readRaw c data).1 ∧ EvsB (readRaw c data).2 := by
  unfold readRaw
  simp only
  repeat' split
  all_goals first
    | exact ⟨hb, evsB_nil⟩
    | exact ⟨hb.sameP ⟨rfl, rfl⟩, evsB_nil⟩
    | exact ⟨hb, evsB_one (evB_writeTun _ (uncompress_le (by assumption)))⟩
    | exact ⟨hb.sameP ⟨rfl, rfl⟩, evsB_one (evB_writeTun _ (uncompress_le (by assumption)))⟩

theorem sameP_servfailCount (c : Cli) (rq : Rq) : SameP c (servfailCount c rq) := (keep_servfailCount c rq).sameP
theorem sameP_dupeSeqno (c : Cli) (h : Hdr) (read : Int) : SameP c (dupeSeqno c h read).1 := (keep_dupeSeqno c h read).sameP
theorem sameP_countRecv (c : Cli) : SameP c (countRecv c) := (keep_countRecv c).sameP
theorem sameP_oosCount (c : Cli) : SameP c (oosCount c) := (keep_oosCount c).sameP

theorem sameP_lazyHint (c : Cli) (id : Nat) : SameP c (lazyHint c id) := by
  unfold lazyHint
  repeat' split
  all_goals exact ⟨rfl, rfl⟩

theorem datalessAdopt_b {B : Nat} (c : Cli) (h : Hdr) (read : Int) (hb : BInv B c) : BInv B (datalessAdopt c h read) := by
  unfold datalessAdopt
  split
  · exact ⟨hb.inData, Nat.zero_le _, hb.outData, hb.outStored, hb.outMax, hb.outOff⟩
  · exact hb

theorem acceptFragment_b {B : Nat} (c c' : Cli) (h : Hdr) (ha : acceptFragment c h = some c') (hb : BInv B c) : BInv B c' := by
  unfold acceptFragment at ha
  repeat' split at ha
  all_goals first
    | (injection ha with ha; subst ha
       first | exact hb | exact ⟨hb.inData, Nat.zero_le _, hb.outData, hb.outStored, hb.outMax, hb.outOff⟩)
    | cases ha

/-- the reassembly clamp `MIN(read - 2, sizeof(inpkt.data) - inpkt.len)` keeps `inpkt` inside `data[64K]` -/
theorem appendFragment_b {B : Nat} (c : Cli) (h : Hdr) (buf : List Nat) (read : Int) (hb : BInv B c) :
    BInv B (appendFragment c h buf read) := by
  have h1 := hb.inData
  have h2 := hb.inLen
  refine ⟨?_, ?_, hb.outData, hb.outStored, hb.outMax, hb.outOff⟩
  · show (c.inpkt.data.take c.inpkt.len ++ ((buf.take read.toNat).drop 2).take (PACKET_DATA_SIZE - c.inpkt.len)).length ≤ 65536
    have hp : PACKET_DATA_SIZE = 65536 := rfl
    simp only [List.length_append, List.length_take, List.length_drop]
    omega
  · show c.inpkt.len + (((buf.take read.toNat).drop 2).take (PACKET_DATA_SIZE - c.inpkt.len)).length ≤
      (c.inpkt.data.take c.inpkt.len ++ ((buf.take read.toNat).drop 2).take (PACKET_DATA_SIZE - c.inpkt.len)).length
    simp only [List.length_append, List.length_take, List.length_drop]
    omega

theorem deliver_b {B : Nat} (c : Cli) (hb : BInv B c) : BInv B (deliver c).1 ∧ EvsB (deliver c).2 := by
  unfold deliver
  refine ⟨⟨hb.inData, Nat.zero_le _, hb.outData, hb.outStored, hb.outMax, hb.outOff⟩, ?_⟩
  simp only
  split
  · rename_i out hu
    exact evsB_one (evB_writeTun out (uncompress_le hu))
  · exact evsB_nil

theorem downstream_b {B : Nat} (c : Cli) (h : Hdr) (buf : List Nat) (read : Int) (sn : Bool) (hb : BInv B c) :
    BInv B (downstream c h buf read sn).1 ∧ EvsB (downstream c h buf read sn).2.1 := by
  unfold downstream
  split
  · split
    · exact ⟨hb.sameP ⟨rfl, rfl⟩, evsB_nil⟩
    · rename_i c' ha
      have h1 := acceptFragment_b c c' h ha hb
      have h2 := appendFragment_b c' h buf read h1
      have h3 := deliver_b (appendFragment c' h buf read) h2
      simp only
      split
      · split
        · exact ⟨h3.1.sameP ⟨rfl, rfl⟩, h3.2⟩
        · exact h3
      · split
        · exact ⟨h2.sameP ⟨rfl, rfl⟩, evsB_nil⟩
        · exact ⟨h2, evsB_nil⟩
  · exact ⟨hb, evsB_nil⟩

theorem finalPing_b {B : Nat} (c : Cli) (evs : List CEvent) (sn : Bool) (read : Int) (hb : BInv B c) (he : EvsB evs) :
    BGood B (finalPing c evs sn read) := by
  unfold finalPing
  split
  · exact afterSend_b _ _ _ (sendPing_b c hb) he
  · exact ⟨hb, he⟩

theorem upstream_b {B : Nat} (c : Cli) (h : Hdr) (evs : List CEvent) (sn : Bool) (read : Int) (hb : BInv B c) (he : EvsB evs) :
    BGood B (upstream c h evs sn read) := by
  unfold upstream
  split
  · simp only
    split
    · apply finalPing_b _ _ _ _ _ he
      have hz : BInv B { c with outpkt := { c.outpkt with offset := 0, len := 0, sentlen := 0 }, outchunkresent := 0 } :=
        ⟨hb.inData, hb.inLen, hb.outData, Or.inl (Nat.zero_le _), Nat.zero_le _, Nat.le_refl _⟩
      split
      · exact hz.sameP ⟨rfl, rfl⟩
      · exact hz
    · rename_i hlt
      apply afterSend_b _ _ _ _ he
      apply sendChunk_b
      have ho := hb.outOff
      refine ⟨hb.inData, hb.inLen, hb.outData, hb.outStored, hb.outMax, ?_⟩
      show c.outpkt.offset + c.outpkt.sentlen ≤ c.outpkt.len
      have : ¬ (c.outpkt.offset + c.outpkt.sentlen ≥ c.outpkt.len) := hlt
      omega
  · exact finalPing_b _ _ _ _ hb he

theorem tunnelDns_b {B : Nat} (c : Cli) (rq : Rq) (hb : BInv B c) : BGood B (tunnelDns c rq) := by
  unfold tunnelDns
  split
  · exact ⟨hb.sameP ⟨rfl, rfl⟩, evsB_nil⟩
  · split
    · exact ⟨hb.sameP ((sameP_servfailCount c rq).trans ⟨rfl, rfl⟩), evsB_nil⟩
    · split
      · exact ⟨hb, evsB_nil⟩
      · simp only
        have h0 : SameP c { c with sendPingSoon := 0 } := ⟨rfl, rfl⟩
        have h1 := sameP_dupeSeqno { c with sendPingSoon := 0 } (decodeHdr rq.buf) rq.rv
        have h2 := sameP_countRecv (dupeSeqno { c with sendPingSoon := 0 } (decodeHdr rq.buf) rq.rv).1
        have h012 := (h0.trans h1).trans h2
        split
        · have h3 := sameP_oosCount (countRecv (dupeSeqno { c with sendPingSoon := 0 } (decodeHdr rq.buf) rq.rv).1)
          split
          · exact afterSend_b _ _ _ (sendPing_b _ (hb.sameP (h012.trans h3))) evsB_nil
          · exact ⟨hb.sameP (h012.trans h3), evsB_nil⟩
        · have h3 : SameP (countRecv (dupeSeqno { c with sendPingSoon := 0 } (decodeHdr rq.buf) rq.rv).1)
              { countRecv (dupeSeqno { c with sendPingSoon := 0 } (decodeHdr rq.buf) rq.rv).1 with
                lastdownstreamtime := (countRecv (dupeSeqno { c with sendPingSoon := 0 } (decodeHdr rq.buf) rq.rv).1).now } :=
            ⟨rfl, rfl⟩
          have h4 := sameP_lazyHint { countRecv (dupeSeqno { c with sendPingSoon := 0 } (decodeHdr rq.buf) rq.rv).1 with
                lastdownstreamtime := (countRecv (dupeSeqno { c with sendPingSoon := 0 } (decodeHdr rq.buf) rq.rv).1).now } rq.id
          have hb4 := hb.sameP ((h012.trans h3).trans h4)
          have hb5 := datalessAdopt_b _ (decodeHdr rq.buf) (dupeSeqno { c with sendPingSoon := 0 } (decodeHdr rq.buf) rq.rv).2 hb4
          have h6 := downstream_b _ (decodeHdr rq.buf) rq.buf (dupeSeqno { c with sendPingSoon := 0 } (decodeHdr rq.buf) rq.rv).2
            (c.sendPingSoon != 0) hb5
          exact upstream_b _ _ _ _ _ h6.1 h6.2

theorem tunnelDnsInput_b {B : Nat} (c : Cli) (inp : CInput) (hb : BInv B c) : BGood B (tunnelDnsInput c inp) := by
  unfold tunnelDnsInput
  split
  · split
    · exact tunnelDns_b _ _ hb
    · exact tunnelDns_b _ _ hb
  · split
    · exact ⟨(readRaw_b _ _ hb).1, (readRaw_b _ _ hb).2⟩
    · exact ⟨(readRaw_b _ _ hb).1, (readRaw_b _ _ hb).2⟩

theorem timeoutBranch_b {B : Nat} (c : Cli) (hb : BInv B c) : BGood B (timeoutBranch c) := by
  unfold timeoutBranch
  split
  · split
    · exact afterSend_b _ _ _ (sendChunk_b _ (hb.sameP (c' := { c with outchunkresent := c.outchunkresent + 1 }) ⟨rfl, rfl⟩).pre) evsB_nil
    · exact afterSend_b _ _ _ (sendPing_b _ ⟨hb.inData, hb.inLen, hb.outData, Or.inl (Nat.zero_le _), Nat.zero_le _, Nat.le_refl _⟩) evsB_nil
  · exact afterSend_b _ _ _ (sendPing_b c hb) evsB_nil

/-! ### the step -/

/-- postcondition of a step of the tunnel machine -/
structure BOut (B : Nat) (o : CState × List CEvent × Next) : Prop where
  inv : BInv B o.1.c
  evs : EvsB o.2.1

theorem loopTop_b {B : Nat} (c : Cli) (evs : List CEvent) (hb : BInv B c) (he : EvsB evs) : BOut B (loopTop c evs) := by
  unfold loopTop
  split <;> exact ⟨hb, he⟩

theorem settle_b {B : Nat} (r : Cli × List CEvent × Stop) (h : BGood B r) : BOut B (settle r) := by
  unfold settle
  split
  · exact loopTop_b _ _ h.inv h.evs
  · exact ⟨h.inv, h.evs⟩

theorem after_b {B : Nat} (evs : List CEvent) (r : CState × List CEvent × Next) (he : EvsB evs) (h : BOut B r) :
    BOut B (after evs r) := ⟨h.inv, evsB_append he h.evs⟩

theorem startTunnel_b {B : Nat} (c : Cli) (hb : BInv B c) : BOut B (startTunnel c) :=
  loopTop_b _ _ (hb.sameP ⟨rfl, rfl⟩) evsB_nil

theorem rawKeepalive_b {B : Nat} (c : Cli) (hb : BInv B c) : BInv B (rawKeepalive c).1 ∧ EvsB (rawKeepalive c).2 := by
  unfold rawKeepalive
  split
  · exact ⟨hb.sameP ⟨rfl, rfl⟩, evsB_one (evB_sendRaw _ _ _ _)⟩
  · exact ⟨hb, evsB_nil⟩

theorem sameP_fire (c : Cli) (sel : Sel) (inp : CInput) : SameP c (fire c sel inp).1 := by
  unfold fire
  split
  · exact ⟨rfl, rfl⟩
  · split <;> exact ⟨rfl, rfl⟩
  · exact ⟨rfl, rfl⟩

theorem sameP_afterSelect (c : Cli) : SameP c (afterSelect c) := (keep_afterSelect c).sameP

/-- a tun frame offered to the step fits the bound `B` on `outpkt.len` (`B = 65537`: always; `B = 65536`: frames of at most
65535 bytes — the transparent test `compress` adds one byte, the real `compress2` never reports more than `sizeof(out)`) -/
def FrameOk (B : Nat) : CInput → Prop
  | .tun f => min f.length 65536 + 1 ≤ B
  | _ => True

theorem fire_tun_frame {B : Nat} {c : Cli} {sel : Sel} {inp : CInput} {f : List Nat} (h : (fire c sel inp).2 = .tun f)
    (hb : FrameOk B inp) : min f.length 65536 + 1 ≤ B := by
  unfold fire at h
  split at h
  · cases h
  · split at h
    · simp only [Fired.tun.injEq] at h
      subst h; exact hb
    · cases h
  · cases h

theorem tunnelStep_b {B : Nat} (c : Cli) (inp : CInput) (hb : BInv B c) (hf : FrameOk B inp) : BOut B (tunnelStep c inp) := by
  have hb1 : BInv B (afterSelect (fire c (selectOf c) inp).1) :=
    hb.sameP ((sameP_fire c _ inp).trans (sameP_afterSelect _))
  unfold tunnelStep
  simp only
  split
  · exact ⟨hb1, evsB_nil⟩
  · have hk := rawKeepalive_b _ hb1
    split
    · exact settle_b _ (timeoutBranch_b _ hb1)
    · rename_i frame hfr
      exact after_b _ _ hk.2 (settle_b _ (tunnelTun_b _ _ hk.1 (fire_tun_frame hfr hf)))
    · exact after_b _ _ hk.2 (settle_b _ (tunnelDnsInput_b _ _ hk.1))

theorem lazyoffReturn_b {B : Nat} (c : Cli) (k : Resume) (evs : List CEvent) (hb : BInv B c) (he : EvsB evs) :
    BOut B (lazyoffReturn c k evs) := by
  unfold lazyoffReturn
  exact loopTop_b _ _ (hb.sameP (sameP_resume c k)) he

theorem lazyoffNext_b {B : Nat} (c : Cli) (i : Nat) (k : Resume) (hb : BInv B c) : BOut B (lazyoffNext c i k) := by
  have hx := lazyoffIter_k c (i + 1)
  have hb' := hb.sameP hx.1.sameP
  unfold lazyoffNext
  simp only
  split
  · exact ⟨hb', evsB_of_onlyQ hx.2.1⟩
  · exact lazyoffReturn_b _ _ _ hb' (evsB_of_onlyQ hx.2.1)

theorem sameP_waitdnsRound (c c' : Cli) (w : WaitIn) (read : Int) (h : waitdnsRound c w = some (c', read)) : SameP c c' := by
  unfold waitdnsRound at h
  split at h
  · injection h with h; injection h with h1 _; subst h1; exact SameP.refl c
  · split at h
    · cases h
    · simp only at h
      split at h <;> (injection h with h; injection h with h1 _; subst h1)
      all_goals (split <;> exact ⟨rfl, rfl⟩)

theorem sameP_lazyoffGot (c : Cli) (read : Int) (buf : List Nat) : SameP c (lazyoffGot c read buf).1 := by
  unfold lazyoffGot
  split <;> exact ⟨rfl, rfl⟩

theorem lazyoffTail_b {B : Nat} (c : Cli) (i : Nat) (k : Resume) (read : Int) (buf : List Nat) (hb : BInv B c) :
    BOut B (if (lazyoffGot c read buf).2 then lazyoffReturn (lazyoffGot c read buf).1 k []
      else lazyoffNext (lazyoffGot c read buf).1 i k) := by
  have hb2 := hb.sameP (sameP_lazyoffGot c read buf)
  split
  · exact lazyoffReturn_b _ _ _ hb2 evsB_nil
  · exact lazyoffNext_b _ _ _ hb2

theorem lazyoffStep_b {B : Nat} (c : Cli) (i : Nat) (k : Resume) (inp : CInput) (hb : BInv B c) :
    BOut B (lazyoffStep c i k inp) := by
  have hb0 : BInv B (fire c waitSel inp).1 := hb.sameP (sameP_fire c _ inp)
  unfold lazyoffStep
  simp only
  split
  · exact ⟨hb0, evsB_nil⟩
  · rename_i c' read hw
    have hb1 : BInv B c' := hb0.sameP (sameP_waitdnsRound _ _ _ _ hw)
    exact lazyoffTail_b _ _ _ _ _ hb1

/-- **the step lemma**: `BInv` is invariant under `cstep` for every input, and the events respect the buffer sizes -/
theorem cstep_b {B : Nat} (s : CState) (inp : CInput) (hb : BInv B s.c) (hf : FrameOk B inp) : BOut B (cstep s inp) := by
  unfold cstep
  split
  · exact ⟨hb, evsB_nil⟩
  · exact tunnelStep_b _ _ hb hf
  · exact lazyoffStep_b _ _ _ _ hb

end Iodine.C06L
