import IodineModel.Login
/-
Helper lemmas for C19 (login hash).  MD5 itself stays opaque everywhere: everything here is
about the 32-byte block that is fed to it.
-/
namespace Iodine.Login

/-! ### xor on `Nat` -/

theorem xor_cancel_left {a b c : Nat} (h : a ^^^ b = a ^^^ c) : b = c := by
  have h2 : a ^^^ (a ^^^ b) = a ^^^ (a ^^^ c) := by rw [h]
  rw [← Nat.xor_assoc, ← Nat.xor_assoc, Nat.xor_self, Nat.zero_xor, Nat.zero_xor] at h2
  exact h2

theorem xor_cancel_right {a b c : Nat} (h : a ^^^ c = b ^^^ c) : a = b := by
  rw [Nat.xor_comm a c, Nat.xor_comm b c] at h
  exact xor_cancel_left h

/-- Byte `j/8` of an xor is the xor of the bytes. -/
theorem xor_byte (x s j : Nat) :
    (x ^^^ s) / 2 ^ j % 256 = (x / 2 ^ j % 256) ^^^ (s / 2 ^ j % 256) := by
  rw [Nat.xor_div_two_pow]
  exact Nat.xor_mod_two_pow (n := 8)

theorem xor_byte0 (x s : Nat) : (x ^^^ s) % 256 = (x % 256) ^^^ (s % 256) :=
  Nat.xor_mod_two_pow (n := 8)

/-! ### one word: `htonl(ntohl(w) ^ seed)` is the byte-wise xor with the big-endian seed -/

/-- `ntohl` of four bytes in memory reads them as a big-endian number. -/
theorem bswap32_loadLE (a b c d : Nat) (ha : a < 256) (hb : b < 256) (hc : c < 256) (hd : d < 256) :
    bswap32 (loadLE [a, b, c, d]) = a * 2 ^ 24 + b * 2 ^ 16 + c * 2 ^ 8 + d := by
  simp only [bswap32, loadLE]
  omega

/-- The bytes of a number given by four big-endian bytes. -/
theorem be_val_bytes (a b c d : Nat) (ha : a < 256) (hb : b < 256) (hc : c < 256) (hd : d < 256) :
    (a * 2 ^ 24 + b * 2 ^ 16 + c * 2 ^ 8 + d) / 2 ^ 24 % 256 = a ∧
    (a * 2 ^ 24 + b * 2 ^ 16 + c * 2 ^ 8 + d) / 2 ^ 16 % 256 = b ∧
    (a * 2 ^ 24 + b * 2 ^ 16 + c * 2 ^ 8 + d) / 2 ^ 8 % 256 = c ∧
    (a * 2 ^ 24 + b * 2 ^ 16 + c * 2 ^ 8 + d) % 256 = d := by
  refine ⟨?_, ?_, ?_, ?_⟩ <;> omega

/-- `htonl` followed by the store writes the big-endian bytes. -/
theorem storeLE_bswap32 (k : Nat) :
    storeLE (bswap32 k) = [k / 2 ^ 24 % 256, k / 2 ^ 16 % 256, k / 2 ^ 8 % 256, k % 256] := by
  simp only [storeLE, bswap32]
  have h0 : k % 256 < 256 := Nat.mod_lt _ (by omega)
  have h1 : k / 2 ^ 8 % 256 < 256 := Nat.mod_lt _ (by omega)
  have h2 : k / 2 ^ 16 % 256 < 256 := Nat.mod_lt _ (by omega)
  have h3 : k / 2 ^ 24 % 256 < 256 := Nat.mod_lt _ (by omega)
  obtain ⟨e3, e2, e1, e0⟩ := be_val_bytes _ _ _ _ h0 h1 h2 h3
  rw [e3, e2, e1, e0]

theorem xorWord_eq (s a b c d : Nat) (ha : a < 256) (hb : b < 256) (hc : c < 256) (hd : d < 256) :
    xorWord s [a, b, c, d] =
      [a ^^^ (s / 2 ^ 24 % 256), b ^^^ (s / 2 ^ 16 % 256), c ^^^ (s / 2 ^ 8 % 256), d ^^^ (s % 256)] := by
  simp only [xorWord]
  rw [storeLE_bswap32, bswap32_loadLE a b c d ha hb hc hd]
  rw [xor_byte, xor_byte, xor_byte, xor_byte0]
  obtain ⟨e3, e2, e1, e0⟩ := be_val_bytes a b c d ha hb hc hd
  rw [e3, e2, e1, e0]

/-! ### the whole buffer -/

/-- `n` words processed by the C loop = byte-wise xor with `n` repetitions of the big-endian
seed bytes. -/
theorem words_eq (s : Nat) (n : Nat) (p : List Nat) (hlen : p.length = 4 * n)
    (hb : ∀ x ∈ p, x < 256) :
    (chunksN 4 n p).flatMap (xorWord s) =
      List.zipWith (· ^^^ ·) p
        (List.replicate n [s / 2 ^ 24 % 256, s / 2 ^ 16 % 256, s / 2 ^ 8 % 256, s % 256]).flatten := by
  induction n generalizing p with
  | zero => simp [chunksN]
  | succ n ih =>
    match p, hlen, hb with
    | a :: b :: c :: d :: rest, hlen, hb =>
      have hrest : rest.length = 4 * n := by simp only [List.length_cons] at hlen; omega
      have hbr : ∀ x ∈ rest, x < 256 := fun x hx => hb x (by simp [hx])
      simp only [chunksN, List.take_succ_cons, List.take_zero, List.drop_succ_cons, List.drop_zero,
        List.flatMap_cons, List.replicate_succ, List.flatten_cons, List.cons_append, List.nil_append,
        List.zipWith_cons_cons]
      rw [ih rest hrest hbr,
        xorWord_eq s a b c d (hb a (by simp)) (hb b (by simp)) (hb c (by simp)) (hb d (by simp))]
      rfl
    | [], hlen, _ => simp only [List.length_nil] at hlen; omega
    | [_], hlen, _ => simp only [List.length_cons, List.length_nil] at hlen; omega
    | [_, _], hlen, _ => simp only [List.length_cons, List.length_nil] at hlen; omega
    | [_, _, _], hlen, _ => simp only [List.length_cons, List.length_nil] at hlen; omega

/-! ### injectivity of the byte-wise xor -/

theorem zipWith_xor_inj_right (p r r' : List Nat) (h1 : p.length = r.length)
    (h2 : p.length = r'.length)
    (h : List.zipWith (· ^^^ ·) p r = List.zipWith (· ^^^ ·) p r') : r = r' := by
  induction p generalizing r r' with
  | nil =>
    cases r <;> cases r' <;> simp_all
  | cons a p ih =>
    cases r with
    | nil => simp at h1
    | cons x r =>
      cases r' with
      | nil => simp at h2
      | cons y r' =>
        simp only [List.zipWith_cons_cons, List.cons.injEq] at h
        simp only [List.length_cons, Nat.add_right_cancel_iff] at h1 h2
        rw [xor_cancel_left h.1, ih r r' h1 h2 h.2]

theorem zipWith_xor_inj_left (p p' r : List Nat) (h1 : p.length = r.length)
    (h2 : p'.length = r.length)
    (h : List.zipWith (· ^^^ ·) p r = List.zipWith (· ^^^ ·) p' r) : p = p' := by
  induction r generalizing p p' with
  | nil =>
    cases p <;> cases p' <;> simp_all
  | cons x r ih =>
    cases p with
    | nil => simp at h1
    | cons a p =>
      cases p' with
      | nil => simp at h2
      | cons b p' =>
        simp only [List.zipWith_cons_cons, List.cons.injEq] at h
        simp only [List.length_cons, Nat.add_right_cancel_iff] at h1 h2
        rw [xor_cancel_right h.1, ih p p' h1 h2 h.2]

/-- A 32-bit value is determined by its four big-endian bytes. -/
theorem be_bytes_inj (s s' : Nat) (hs : s < 2 ^ 32) (hs' : s' < 2 ^ 32)
    (h : [s / 2 ^ 24 % 256, s / 2 ^ 16 % 256, s / 2 ^ 8 % 256, s % 256] =
         [s' / 2 ^ 24 % 256, s' / 2 ^ 16 % 256, s' / 2 ^ 8 % 256, s' % 256]) : s = s' := by
  simp only [List.cons.injEq, and_true] at h
  omega

/-- Repetitions of a fixed-length word determine the word. -/
theorem rep_inj (n : Nat) (w w' : List Nat) (hl : w.length = w'.length)
    (h : (List.replicate (n + 1) w).flatten = (List.replicate (n + 1) w').flatten) : w = w' := by
  simp only [List.replicate_succ, List.flatten_cons] at h
  exact (List.append_inj h hl).1

end Iodine.Login
