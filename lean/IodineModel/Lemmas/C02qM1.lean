import IodineModel.Lemmas.C02M8
import IodineModel.Lemmas.C02q0
/-
C02 phase 2 / DOWNSTREAM, LAZY mode, from a DESYNCHRONISED quiescent state — part 1, the client:
* a DATA answer to the most recent query whose sequence number falls into the window (`InWinC`: one of the three before the
  current one — or the current one with a fragment number that is not above the current one) is NOT taken: the client only
  counts it, notes `send_ping_soon = 500` and (if a ping was due anyway) pings at once with its OWN `(seqno, fragment)`;
* a DATALESS answer whose sequence number is the current one or one of the three before it changes nothing but the counters
  (it is NOT adopted); the lazy-mode hint sets `send_ping_soon = 900`.
-/
namespace Iodine.C02L
open Iodine Iodine.Gen Iodine.World

section client
open Iodine.Client

/-- The first fragment (number 0) of a downstream packet with sequence number `sq` falls into the client's window: `sq` is
one of the three numbers before the client's current one ("duplicate of a recent packet", `dupeSeqno`), or it IS the
current one and the client's current fragment number is not 0 ("duplicate fragment", `acceptFragment`; for fragment number 0
the client would take it as the "weird situation"). -/
def InWinC (c : Cli) (sq : Int) : Prop :=
  (sq ≠ c.inpkt.seqno ∧ Client.recentSeqno c.inpkt.seqno sq = true) ∨ (sq = c.inpkt.seqno ∧ c.inpkt.fragment ≠ 0)

/-- the client state after such an answer: counted, `send_ping_soon = 500`, `inpkt` untouched -/
def dropBook (c : Cli) : Cli := { ackBook c with sendPingSoon := 500 }

theorem dropBook_flat (c : Cli) :
    dropBook c = { c with packrecv := (countRecv c).packrecv, recvcnt := c.recvcnt + 1, lastdownstreamtime := c.now,
                          sendPingSoon := 500 } := rfl

theorem dropBook_of_hint (c : Cli) : ({ hintBook c with sendPingSoon := 500 } : Cli) = dropBook c := rfl

/-- `tunnel_dns` on a DATA answer to the most recent query (lazy mode, nothing being sent upstream) whose sequence number
is one of the three before the client's: "duplicate of a recent packet" — `read = 2`, nothing is taken -/
theorem tunnelDns_recent_lazy (c : Cli) (rq : Rq) (hn : notData c rq.name0 = false) (hrv : 2 < rq.rv)
    (hbad : ¬ (rq.rv = 5 ∧ rq.buf.take 5 = ascii "BADIP"))
    (hid : rq.id = c.chunkid) (hlz : c.lazymode = true) (hs : isSending c = false)
    (hw : (decodeHdr rq.buf).dnSeq ≠ c.inpkt.seqno ∧ Client.recentSeqno c.inpkt.seqno (decodeHdr rq.buf).dnSeq = true) :
    tunnelDns c rq = finalPing (dropBook c) [] (c.sendPingSoon != 0) 2 := by
  have hb : dropBook { c with sendPingSoon := 0 } = dropBook c := by cases c; rfl
  unfold tunnelDns
  simp only [hn, Bool.false_eq_true, if_false]
  rw [if_neg (by omega), if_neg hbad]
  generalize (c.sendPingSoon != 0) = sn
  generalize hc0 : ({ c with sendPingSoon := 0 } : Cli) = c0 at hb ⊢
  have e2 : c0.chunkid = c.chunkid := by subst hc0; rfl
  have e3 : c0.lazymode = true := by subst hc0; exact hlz
  have e4 : c0.inpkt = c.inpkt := by subst hc0; rfl
  have e5 : isSending c0 = false := by subst hc0; exact hs
  have hd : dupeSeqno c0 (decodeHdr rq.buf) rq.rv = ({ c0 with sendPingSoon := 500 }, 2) := by
    unfold dupeSeqno
    rw [if_pos ⟨by omega, by rw [e4]; exact hw.1, by rw [e4]; exact hw.2⟩]
  have hrid : recentId (countRecv { c0 with sendPingSoon := 500 }) rq.id = true := by
    unfold recentId
    rw [hid, ← e2]
    show (c0.chunkid == c0.chunkid || _ || _) = true
    simp
  simp only [hd, hrid, Bool.not_true, Bool.false_eq_true, if_false]
  have hl : lazyHint { countRecv { c0 with sendPingSoon := 500 } with
        lastdownstreamtime := (countRecv { c0 with sendPingSoon := 500 }).now } rq.id = dropBook c0 := by
    unfold lazyHint
    rw [if_pos ⟨by rw [hid, ← e2]; rfl, by exact e3⟩, if_neg (by show ¬ ((500 : Nat) = 0 ∨ (500 : Nat) > 900); omega)]
    rfl
  rw [hl, hb]
  have hda : datalessAdopt (dropBook c) (decodeHdr rq.buf) 2 = dropBook c := by
    unfold datalessAdopt
    rw [if_neg]
    intro ⟨_, _, h3⟩
    have : (dropBook c).inpkt = c.inpkt := rfl
    rw [this, hw.2] at h3
    exact absurd h3 (by decide)
  rw [hda]
  have hds : downstream (dropBook c) (decodeHdr rq.buf) rq.buf 2 sn = (dropBook c, [], sn) := by
    unfold downstream
    rw [if_neg (by omega)]
  rw [hds]
  unfold upstream
  rw [if_neg (by intro h; have h1 := h.1; have : isSending (dropBook c) = false := hs; rw [this] at h1; exact absurd h1 (by decide))]

/-- … and on a DATA answer with the client's CURRENT sequence number and fragment number 0 while the client's fragment
number is not 0: "duplicate fragment" — nothing is taken, `send_ping_soon = 500` -/
theorem tunnelDns_dupfrag_lazy (c : Cli) (rq : Rq) (hn : notData c rq.name0 = false) (hrv : 2 < rq.rv)
    (hbad : ¬ (rq.rv = 5 ∧ rq.buf.take 5 = ascii "BADIP"))
    (hid : rq.id = c.chunkid) (hlz : c.lazymode = true) (hs : isSending c = false)
    (hsq : (decodeHdr rq.buf).dnSeq = c.inpkt.seqno) (hf0 : (decodeHdr rq.buf).dnFrag = 0)
    (hfr : 0 ≤ c.inpkt.fragment ∧ c.inpkt.fragment ≠ 0) :
    tunnelDns c rq = finalPing (dropBook c) [] (c.sendPingSoon != 0) rq.rv := by
  rw [tunnelDns_payload_lazy c rq hn hrv hbad hid hlz hs (Or.inl hsq)]
  have hds : downstream (hintBook c) (decodeHdr rq.buf) rq.buf rq.rv (c.sendPingSoon != 0) =
      (dropBook c, [], (c.sendPingSoon != 0)) := by
    have hacc : acceptFragment (hintBook c) (decodeHdr rq.buf) = none := by
      unfold acceptFragment
      have e1 : (hintBook c).inpkt = c.inpkt := rfl
      rw [e1, if_neg (by rw [hsq]; simp), if_neg (by intro h; exact hfr.2 h.1), if_pos (by rw [hf0]; exact hfr.1)]
    unfold downstream
    rw [if_pos (by omega), hacc]
    rfl
  rw [hds]

/-- `tunnel_dns` on a DATALESS answer to the most recent query (lazy mode, nothing being sent upstream) that names the
client's current downstream sequence number or one of the three before it: NOT adopted; only the counters and the lazy-mode
hint -/
theorem tunnelDns_dataless_keep_lazy (c : Cli) (rq : Rq) (hn : notData c rq.name0 = false) (hrv : rq.rv = 2)
    (hid : rq.id = c.chunkid) (hlz : c.lazymode = true) (hs : isSending c = false)
    (hw : (decodeHdr rq.buf).dnSeq = c.inpkt.seqno ∨ Client.recentSeqno c.inpkt.seqno (decodeHdr rq.buf).dnSeq = true) :
    tunnelDns c rq = finalPing (hintBook c) [] (c.sendPingSoon != 0) 2 := by
  have hb := hintBook_sps0 c
  unfold tunnelDns
  simp only [hn, Bool.false_eq_true, if_false]
  rw [if_neg (by omega), if_neg (by omega)]
  generalize (c.sendPingSoon != 0) = sn
  generalize hc0 : ({ c with sendPingSoon := 0 } : Cli) = c0 at hb ⊢
  have e1 : c0.sendPingSoon = 0 := by subst hc0; rfl
  have e2 : c0.chunkid = c.chunkid := by subst hc0; rfl
  have e3 : c0.lazymode = true := by subst hc0; exact hlz
  have hd : dupeSeqno c0 (decodeHdr rq.buf) rq.rv = (c0, 2) := by
    unfold dupeSeqno
    rw [if_neg (by omega), hrv]
  have hrid : recentId (countRecv c0) rq.id = true := by
    unfold recentId
    rw [hid, ← e2]
    show (c0.chunkid == c0.chunkid || _ || _) = true
    simp
  simp only [hd, hrid, Bool.not_true, Bool.false_eq_true, if_false]
  have hl : lazyHint { countRecv c0 with lastdownstreamtime := (countRecv c0).now } rq.id = hintBook c0 := by
    unfold lazyHint
    rw [if_pos ⟨by rw [hid, ← e2]; rfl, by exact e3⟩, if_pos (Or.inl (by exact e1))]
    rfl
  rw [hl, hb]
  have hda : datalessAdopt (hintBook c) (decodeHdr rq.buf) 2 = hintBook c := by
    unfold datalessAdopt
    rw [if_neg]
    intro ⟨_, h2, h3⟩
    have e : (hintBook c).inpkt = c.inpkt := rfl
    rw [e] at h2 h3
    rcases hw with h | h
    · exact h2 h
    · rw [h] at h3; exact absurd h3 (by decide)
  rw [hda]
  have hds : downstream (hintBook c) (decodeHdr rq.buf) rq.buf 2 sn = (hintBook c, [], sn) := by
    unfold downstream
    rw [if_neg (by omega)]
  rw [hds]
  unfold upstream
  rw [if_neg (by intro h; have h1 := h.1; have : isSending (hintBook c) = false := hs; rw [this] at h1; exact absurd h1 (by decide))]

end client

/-! ### the standing conditions survive -/

theorem cstatL_dropBook {P : Par} {c : Client.Cli} (hc : CStatL P c) : CStatL P (dropBook c) :=
  ⟨hc.running, hc.conn, hc.lz, hc.uid, hc.uch, hc.td, hc.L, hc.enc, hc.ty, hc.cid, hc.cmc,
    by show ¬ c.now + 60 < c.now; omega, hc.oseq, hc.iseq, hc.ifrag, hc.seed⟩

theorem cstatL_hintBook {P : Par} {c : Client.Cli} (hc : CStatL P c) : CStatL P (hintBook c) :=
  ⟨hc.running, hc.conn, hc.lz, hc.uid, hc.uch, hc.td, hc.L, hc.enc, hc.ty, hc.cid, hc.cmc,
    by show ¬ c.now + 60 < c.now; omega, hc.oseq, hc.iseq, hc.ifrag, hc.seed⟩

theorem cntOk_dropBook {c : Client.Cli} (d : Nat) (h : CntOk c (d + 1)) : CntOk (dropBook c) d := by
  have := ackBook_cnt' c d h
  unfold CntOk at *
  exact this

theorem cntOk_hintBook {c : Client.Cli} (d : Nat) (h : CntOk c (d + 1)) : CntOk (hintBook c) d := by
  have := ackBook_cnt' c d h
  unfold CntOk at *
  exact this

/-- what the client does with a fragment 0 that falls into its window, through the step machine; `sn` = a ping was due -/
theorem recv_drop_common {P : Par} {c : Client.Cli} {rq : Client.Rq} {pkt out : List Nat} {sq : Int} {D : Nat} {last : Bool}
    (h : RecvOkL P c rq pkt) (hp : FragPkt pkt out sq 0 D 0 last) (hD : 0 < D) (hw : InWinC c sq) :
    ∃ rd, Client.cstep ⟨c, .tunnel⟩ (.rq rq) = Client.settle (Client.finalPing (dropBook c) [] (c.sendPingSoon != 0) rd) := by
  have hrv : rq.rv = ((2 + D : Nat) : Int) := by rw [h.rv, hp.len]
  rw [cstep_rq c rq h.cst.running h.cst.alive h.cst.conn]
  have hbad : ¬ (rq.rv = 5 ∧ rq.buf.take 5 = Client.ascii "BADIP") := by rw [h.buf]; intro hc; exact hp.notbad hc.2
  rcases hw with ⟨h1, h2⟩ | ⟨h1, h2⟩
  · exact ⟨2, by rw [tunnelDns_recent_lazy c rq h.name0 (by rw [hrv]; omega) hbad h.id h.cst.lz h.idle
      (by rw [h.buf, hp.hdr.1]; exact ⟨h1, h2⟩)]⟩
  · exact ⟨rq.rv, by rw [tunnelDns_dupfrag_lazy c rq h.name0 (by rw [hrv]; omega) hbad h.id h.cst.lz h.idle
      (by rw [h.buf, hp.hdr.1]; exact h1) (by rw [h.buf, hp.hdr.2.1]; rfl) ⟨h.cst.ifrag.1, h2⟩]⟩

/-- no ping was due: the client just notes `send_ping_soon = 500` -/
theorem recv_dropL {P : Par} {c : Client.Cli} {rq : Client.Rq} {pkt out : List Nat} {sq : Int} {D : Nat} {last : Bool}
    (h : RecvOkL P c rq pkt) (hsps : c.sendPingSoon = 0) (hp : FragPkt pkt out sq 0 D 0 last) (hD : 0 < D) (hw : InWinC c sq) :
    Client.cstep ⟨c, .tunnel⟩ (.rq rq) = (⟨dropBook c, .tunnel⟩, [], .sel (Client.selectOf (dropBook c))) := by
  obtain ⟨rd, hst⟩ := recv_drop_common h hp hD hw
  have hsn : (c.sendPingSoon != 0) = false := by rw [hsps]; rfl
  rw [hst, hsn]
  have hfp : Client.finalPing (dropBook c) [] false rd = (dropBook c, [], .ret rd) := by simp [Client.finalPing]
  rw [hfp]
  simp [Client.settle, Client.loopTop, (cstatL_dropBook h.cst).running]

/-- a ping was due: it goes out at once, with the client's OWN downstream position -/
theorem recv_dropL_now {P : Par} (hP : P.Ok) {c : Client.Cli} {rq : Client.Rq} {pkt out : List Nat} {sq : Int} {D : Nat} {last : Bool}
    (h : RecvOkL P c rq pkt) (hcnt : CntOk c 1) (hsps : c.sendPingSoon ≠ 0) (hp : FragPkt pkt out sq 0 D 0 last) (hD : 0 < D)
    (hw : InWinC c sq) :
    ∃ name, Client.cstep ⟨c, .tunnel⟩ (.rq rq) =
        (⟨pingStateL (dropBook c), .tunnel⟩, [.query (pingStateL (dropBook c)).chunkid P.ty name],
         .sel (Client.selectOf (pingStateL (dropBook c)))) ∧
      PingQ P (upQuery (pingStateL (dropBook c)).chunkid P.ty name) c.inpkt.seqno c.inpkt.fragment c.randSeed := by
  obtain ⟨rd, hst⟩ := recv_drop_common h hp hD hw
  have hsn : (c.sendPingSoon != 0) = true := by simpa using hsps
  obtain ⟨name, hset, hpq⟩ := settle_finalPing_now hP (cstatL_dropBook h.cst) ((cntOk_dropBook 0 hcnt).mono (by omega)) [] rd
  refine ⟨name, ?_, hpq⟩
  rw [hst, hsn]
  exact hset

/-- a dataless answer that is not adopted, no ping due: only the counters and the hint (`send_ping_soon = 900`) -/
theorem recv_datalessL {P : Par} {c : Client.Cli} {rq : Client.Rq} {pkt : List Nat}
    (h : RecvOkL P c rq pkt) (hsps : c.sendPingSoon = 0) (hlen : pkt.length = 2)
    (hw : (Client.decodeHdr pkt).dnSeq = c.inpkt.seqno ∨ Client.recentSeqno c.inpkt.seqno (Client.decodeHdr pkt).dnSeq = true) :
    Client.cstep ⟨c, .tunnel⟩ (.rq rq) = (⟨hintBook c, .tunnel⟩, [], .sel (Client.selectOf (hintBook c))) := by
  rw [cstep_rq c rq h.cst.running h.cst.alive h.cst.conn,
    tunnelDns_dataless_keep_lazy c rq h.name0 (by rw [h.rv, hlen]; rfl) h.id h.cst.lz h.idle (by rw [h.buf]; exact hw)]
  have hsn : (c.sendPingSoon != 0) = false := by rw [hsps]; rfl
  rw [hsn]
  have hfp : Client.finalPing (hintBook c) [] false 2 = (hintBook c, [], .ret 2) := by simp [Client.finalPing]
  rw [hfp]
  simp [Client.settle, Client.loopTop, (cstatL_hintBook h.cst).running]

end Iodine.C02L
