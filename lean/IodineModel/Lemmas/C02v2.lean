import IodineModel.Lemmas.C02a
/-
Client side of an upstream transfer: a dataless answer that acknowledges the fragment in flight.
-/
namespace Iodine.C02L
open Iodine Iodine.Client

/-- the bookkeeping of `tunnel_dns` on an accepted answer before the data part is looked at -/
def ackBook (c : Cli) : Cli := { countRecv c with lastdownstreamtime := c.now }

/-- `tunnel_dns` on a two-byte (dataless) answer to one of the three most recent queries that announces no new
downstream packet, when no ping is due: straight to the upstream-ack code -/
theorem tunnelDns_dataless (c : Cli) (rq : Rq) (hn : rq.name0 = c.useridChar) (hrv : rq.rv = 2)
    (hid : recentId c rq.id = true) (hsps : c.sendPingSoon = 0) (hlz : c.lazymode = false)
    (hdn : (decodeHdr rq.buf).dnSeq = c.inpkt.seqno) :
    tunnelDns c rq = upstream (ackBook c) (decodeHdr rq.buf) [] false 2 := by
  have hnd : notData c rq.name0 = false := by
    simp [notData, hn]
  have hc : { c with sendPingSoon := 0 } = c := by
    cases c; simp_all
  have hrid : recentId (countRecv c) rq.id = true := hid
  unfold tunnelDns
  simp only [hnd, Bool.false_eq_true, if_false, hrv, hsps, bne_self_eq_false, hc]
  have h1 : ¬ ((2 : Int) < 2) := by omega
  have h2 : ¬ ((2 : Int) = 5 ∧ rq.buf.take 5 = ascii "BADIP") := by omega
  rw [if_neg h1, if_neg h2]
  have hd : dupeSeqno c (decodeHdr rq.buf) 2 = (c, 2) := by
    unfold dupeSeqno
    rw [if_neg (by omega)]
  simp only [hd, hrid, Bool.not_true, Bool.false_eq_true, if_false]
  have hl : lazyHint { countRecv c with lastdownstreamtime := (countRecv c).now } rq.id =
      { countRecv c with lastdownstreamtime := (countRecv c).now } := by
    unfold lazyHint
    rw [if_neg (by simp [countRecv, hlz])]
  rw [hl]
  have hda : datalessAdopt { countRecv c with lastdownstreamtime := (countRecv c).now } (decodeHdr rq.buf) 2 =
      { countRecv c with lastdownstreamtime := (countRecv c).now } := by
    unfold datalessAdopt
    rw [if_neg (by simp [countRecv, hdn])]
  rw [hda]
  have hds : downstream { countRecv c with lastdownstreamtime := (countRecv c).now } (decodeHdr rq.buf) rq.buf 2 false =
      ({ countRecv c with lastdownstreamtime := (countRecv c).now }, [], false) := by
    unfold downstream
    rw [if_neg (by omega)]
  rw [hds]
  rfl

/-- the same through the step machine -/
theorem cstep_rq (c : Cli) (rq : Rq) (hrun : c.running = true) (hexp : ¬ c.lastdownstreamtime + 60 < c.now)
    (hconn : c.conn = .dnsNull) :
    cstep ⟨c, .tunnel⟩ (.rq rq) = settle (tunnelDns c rq) := by
  show tunnelStep c (.rq rq) = _
  have hfire : fire c (selectOf c) (.rq rq) = (c, .dns (.rq rq)) := rfl
  rw [tunnelStep_alive c _ hrun hconn (by rw [hfire]; exact hexp), hfire]
  simp only [tunnelDnsInput, hconn, if_true]

theorem cstep_tun (c : Cli) (f : List Nat) (hrun : c.running = true) (hexp : ¬ c.lastdownstreamtime + 60 < c.now)
    (hs : isSending c = false) (hf : f ≠ []) (hconn : c.conn = .dnsNull) :
    cstep ⟨c, .tunnel⟩ (.tun f) = settle (afterSend (sendChunk (newPacket c f)) [] (.tunChunk ((f.take 65536).length : Nat))) := by
  show tunnelStep c (.tun f) = _
  rw [tunnelStep_tun_accept c f hrun hconn hexp hs hf]

/-- `settle` of a sender that did not park and left `running` on -/
theorem settle_afterSend (s : Sent) (pre : List CEvent) (k : Resume) (hp : s.parked = false) (hr : s.c.running = true) :
    settle (afterSend s pre k) =
      (⟨{ s.c with sendPingSoon := 0 }, .tunnel⟩, pre ++ s.evs, .sel (selectOf { s.c with sendPingSoon := 0 })) := by
  have h1 : (afterSend s pre k) = ((resume s.c k).1, pre ++ s.evs, .ret (resume s.c k).2) := by
    unfold afterSend; simp [hp]
  rw [h1, resume_state]
  simp [settle, loopTop, hr]

end Iodine.C02L
