import IodineModel.Codec.Inst
import IodineModel.Encoding
import IodineModel.Common
import IodineModel.Lemmas.Codec
import IodineModel.Lemmas.Encoding
import IodineModel.Props.C07
/-
C11, part a — generic lemmas about character maps applied to names and texts.

A DNS relay of the property C11 acts on a name / text character by character through a fixed map
`f : Nat → Nat`.  This file collects what is independent of the concrete family of maps:

* `map_eq_self_iff`, `map_ne_of_altered`, `altered_of_cover`: a string passes unaltered iff the map is
  the identity on its characters; a probe set that contains every character of an alphabet detects every
  map that alters the alphabet;
* `enc_chars_fixed`, `dotify_fixed`, `buildHostname_fixed`: what the senders build consists of alphabet
  characters, dots and the tunnel domain only, hence is a fixed point of every map that is the identity
  on those;
* decoding transparency: if `rev (f c) = rev c` and `f c ≠ 0` on the alphabet, decoding `s.map f` gives
  what decoding `s` gives (`dec_transparent`), also through `undotify` (`unpackData_transparent`);
* Base32 ignores letter case (`dec_b32_caseEq`, `unpackData_b32_caseEq`), and so does `query_datalen`
  (`queryDatalen_caseEq`).
-/
namespace Iodine.C11L
open Iodine Iodine.Codec Iodine.Encoding

/-! ### strings under a character map -/

theorem map_eq_self_iff {f : Nat → Nat} {s : List Nat} : s.map f = s ↔ ∀ c ∈ s, f c = c := by
  induction s with
  | nil => simp
  | cons a s ih =>
    simp only [List.map_cons, List.cons.injEq, ih, List.mem_cons, forall_eq_or_imp]

theorem map_ne_of_altered {f : Nat → Nat} {s : List Nat} {c : Nat} (hc : c ∈ s) (h : f c ≠ c) :
    s.map f ≠ s := fun e => h (map_eq_self_iff.mp e c hc)

/-- A probe set containing every character of the alphabet `A` detects every map that alters `A`. -/
theorem altered_of_cover {f : Nat → Nat} {A : List Nat} {probes : List (List Nat)}
    (hcov : ∀ c ∈ A, ∃ p ∈ probes, c ∈ p) (h : ∃ c ∈ A, f c ≠ c) : ∃ p ∈ probes, p.map f ≠ p := by
  obtain ⟨c, hcA, hne⟩ := h
  obtain ⟨p, hp, hcp⟩ := hcov c hcA
  exact ⟨p, hp, map_ne_of_altered hcp hne⟩

theorem map_append_fixed {f : Nat → Nat} {a b : List Nat} (ha : a.map f = a) (hb : b.map f = b) :
    (a ++ b).map f = a ++ b := by rw [List.map_append, ha, hb]

/-! ### what the senders build -/

/-- Alphabet purity (C07) turned into a fixed-point statement. -/
theorem enc_chars_fixed {c : Codec} (wf : WF c) {f : Nat → Nat} (hf : ∀ ch ∈ c.tbl, f ch = ch)
    (cap : Nat) (d : List Nat) : (enc c cap d).chars.map f = (enc c cap d).chars :=
  map_eq_self_iff.mpr fun ch h => hf ch (C07.chars_in_table wf cap d ch h)

theorem encFull_fixed {c : Codec} (wf : WF c) {f : Nat → Nat} (hf : ∀ ch ∈ c.tbl, f ch = ch)
    (d : List Nat) : (encFull c d).map f = encFull c d :=
  map_eq_self_iff.mpr fun ch h => hf ch (encFull_mem_tbl wf d ch h)

theorem mem_dotifyAux {k : Nat} {s : List Nat} {c : Nat} (h : c ∈ dotifyAux k s) : c ∈ s ∨ c = DOT := by
  induction s generalizing k with
  | nil => simp [dotifyAux] at h
  | cons a s ih =>
    unfold dotifyAux at h
    split at h
    · simp only [List.mem_cons] at h
      rcases h with h | h | h
      · exact Or.inl (h ▸ List.mem_cons_self)
      · exact Or.inr h
      · rcases ih h with h | h
        · exact Or.inl (List.mem_cons_of_mem _ h)
        · exact Or.inr h
    · simp only [List.mem_cons] at h
      rcases h with h | h
      · exact Or.inl (h ▸ List.mem_cons_self)
      · rcases ih h with h | h
        · exact Or.inl (List.mem_cons_of_mem _ h)
        · exact Or.inr h

/-- `inline_dotify` commutes with every map that fixes the dot and maps no other character to it:
the dots are placed by position only. -/
theorem dotifyAux_map (f : Nat → Nat) (hdot : f DOT = DOT) (k : Nat) (s : List Nat) :
    (dotifyAux k s).map f = dotifyAux k (s.map f) := by
  induction s generalizing k with
  | nil => rfl
  | cons a s ih =>
    simp only [dotifyAux, List.map_cons]
    split
    · simp only [List.map_cons, hdot, ih]
    · simp only [List.map_cons, ih]

theorem dotify_map (f : Nat → Nat) (hdot : f DOT = DOT) (s : List Nat) :
    (dotify s).map f = dotify (s.map f) := dotifyAux_map f hdot 0 s

theorem dotify_fixed {f : Nat → Nat} (hdot : f DOT = DOT) {s : List Nat} (hs : s.map f = s) :
    (dotify s).map f = dotify s := by rw [dotify_map f hdot, hs]

/-- The name `build_hostname` produces is a fixed point of every map that is the identity on the codec's
alphabet, on '.' and on the characters of the tunnel domain. -/
theorem buildHostname_fixed {c : Codec} (wf : WF c) {f : Nat → Nat} (hf : ∀ ch ∈ c.tbl, f ch = ch)
    (hdot : f DOT = DOT) {td : List Nat} (htd : ∀ ch ∈ td, f ch = ch)
    {maxlen buflen prev : Nat} {d : List Nat} {b : Built}
    (hb : buildHostname c maxlen buflen prev td d = some b) : b.name.map f = b.name := by
  unfold buildHostname at hb
  split at hb
  · cases hb
  · simp only [Option.some.injEq] at hb
    subst hb
    dsimp only
    have h1 := dotify_fixed hdot (enc_chars_fixed wf hf
      (min maxlen buflen - td.length - 8 - (min maxlen buflen - td.length - 8) / 57) d)
    have h2 : td.map f = td := map_eq_self_iff.mpr htd
    split
    · exact map_append_fixed h1 h2
    · exact map_append_fixed (map_append_fixed h1 (by simp [hdot])) h2

/-! ### decoding transparency -/

/-- `f` does not change what the decoder of `c` reads from the characters of `s`. -/
def Transparent (c : Codec) (f : Nat → Nat) (s : List Nat) : Prop :=
  ∀ ch ∈ s, c.rev (f ch) = c.rev ch ∧ (f ch = 0 ↔ ch = 0)

theorem Transparent.tail {c : Codec} {f : Nat → Nat} {a : Nat} {s : List Nat}
    (h : Transparent c f (a :: s)) : Transparent c f s := fun ch hch => h ch (List.mem_cons_of_mem _ hch)

theorem Transparent.sub {c : Codec} {f : Nat → Nat} {s t : List Nat} (h : Transparent c f s)
    (hst : ∀ ch ∈ t, ch ∈ s) : Transparent c f t := fun ch hch => h ch (hst ch hch)

theorem decBits_transparent {c : Codec} {f : Nat → Nat} {s : List Nat} (h : Transparent c f s) :
    decBits c (s.map f) = decBits c s := by
  induction s with
  | nil => rfl
  | cons a s ih =>
    simp only [decBits, List.map_cons, List.flatMap_cons] at ih ⊢
    rw [(h a List.mem_cons_self).1, ih h.tail]

theorem decAll_transparent {c : Codec} {f : Nat → Nat} {s : List Nat} (h : Transparent c f s) :
    decAll c (s.map f) = decAll c s := by
  unfold decAll
  rw [decBits_transparent h]

theorem takeWhile_map_transparent {c : Codec} {f : Nat → Nat} {s : List Nat} (h : Transparent c f s) :
    (s.map f).takeWhile (fun ch => ch != 0) = (s.takeWhile (fun ch => ch != 0)).map f := by
  induction s with
  | nil => rfl
  | cons a s ih =>
    have ha := (h a List.mem_cons_self).2
    simp only [List.map_cons, List.takeWhile_cons]
    by_cases h0 : a = 0
    · have : f a = 0 := ha.mpr h0
      subst h0
      simp [this]
    · have : f a ≠ 0 := fun e => h0 (ha.mp e)
      simp [h0, this, ih h.tail]

theorem cstr_map_transparent {c : Codec} {f : Nat → Nat} {s : List Nat} (h : Transparent c f s) (n : Nat) :
    cstr n (s.map f) = (cstr n s).map f := by
  unfold cstr
  rw [← List.map_take]
  exact takeWhile_map_transparent (h.sub fun ch hch => List.mem_of_mem_take hch)

/-- `baseN_decode` of the relayed text = `baseN_decode` of the text. -/
theorem dec_transparent {c : Codec} {f : Nat → Nat} {s : List Nat} (h : Transparent c f s) (cap n : Nat) :
    dec c cap n (s.map f) = dec c cap n s := by
  unfold dec
  rw [cstr_map_transparent h n]
  rw [decAll_transparent (h.sub fun ch hch => by
    unfold cstr at hch
    exact List.mem_of_mem_take (List.mem_takeWhile_imp_mem hch))]
where
  List.mem_takeWhile_imp_mem {p : Nat → Bool} {l : List Nat} {a : Nat} (h : a ∈ l.takeWhile p) : a ∈ l :=
    (List.takeWhile_sublist p).subset h

/-- `f` keeps dots dots and non-dots non-dots on `s` -/
def DotPreserving (f : Nat → Nat) (s : List Nat) : Prop := ∀ ch ∈ s, (f ch = DOT ↔ ch = DOT)

theorem undotify_map {f : Nat → Nat} {s : List Nat} (h : DotPreserving f s) :
    undotify (s.map f) = (undotify s).map f := by
  induction s with
  | nil => rfl
  | cons a s ih =>
    have ha := h a List.mem_cons_self
    have ih' := ih fun ch hch => h ch (List.mem_cons_of_mem _ hch)
    unfold undotify at ih' ⊢
    simp only [List.map_cons, List.filter_cons]
    by_cases hd : a = DOT
    · have : f a = DOT := ha.mpr hd
      subst hd
      simp [this, ih']
    · have : f a ≠ DOT := fun e => hd (ha.mp e)
      simp [hd, this, ih']

theorem undotify_sub (s : List Nat) : ∀ ch ∈ undotify s, ch ∈ s := fun _ h => (List.mem_filter.mp h).1

/-- `unpack_data` of the relayed text = `unpack_data` of the text. -/
theorem unpackData_transparent {c : Codec} {f : Nat → Nat} {s : List Nat} (h : Transparent c f s)
    (hd : DotPreserving f s) (cap : Nat) : unpackData c cap (s.map f) = unpackData c cap s := by
  unfold unpackData
  simp only [undotify_map hd, List.length_map]
  exact dec_transparent (h.sub (undotify_sub s)) cap _

/-! ### letter case -/

def toLowerC (c : Nat) : Nat := if 65 ≤ c ∧ c ≤ 90 then c + 32 else c
def toUpperC (c : Nat) : Nat := if 97 ≤ c ∧ c ≤ 122 then c - 32 else c

theorem toLowerC_eq : toLowerC = Common.toLower := by
  funext c
  unfold toLowerC Common.toLower
  by_cases h : 65 ≤ c ∧ c ≤ 90
  · simp [h]
  · rw [if_neg h]
    have : ¬ ((decide (65 ≤ c) && decide (c ≤ 90)) = true) := by simpa using h
    rw [if_neg this]

/-- `a` and `b` are the same string up to the case of each letter separately -/
def CaseEq (a b : List Nat) : Prop := a.map toLowerC = b.map toLowerC

theorem caseEq_induction {P : List Nat → List Nat → Prop} (nil : P [] [])
    (cons : ∀ a b s t, toLowerC a = toLowerC b → CaseEq s t → P s t → P (a :: s) (b :: t)) :
    ∀ s t, CaseEq s t → P s t := by
  intro s
  induction s with
  | nil =>
    intro t h
    cases t with
    | nil => exact nil
    | cons b t => simp [CaseEq] at h
  | cons a s ih =>
    intro t h
    cases t with
    | nil => simp [CaseEq] at h
    | cons b t =>
      simp only [CaseEq, List.map_cons, List.cons.injEq] at h
      exact cons a b s t h.1 h.2 (ih t h.2)

theorem caseEq_length {s t : List Nat} (h : CaseEq s t) : s.length = t.length := by
  have := congrArg List.length h
  simpa using this

theorem caseEq_take {s t : List Nat} (h : CaseEq s t) (n : Nat) : CaseEq (s.take n) (t.take n) := by
  unfold CaseEq at *
  rw [List.map_take, List.map_take, h]

theorem caseEq_drop {s t : List Nat} (h : CaseEq s t) (n : Nat) : CaseEq (s.drop n) (t.drop n) := by
  unfold CaseEq at *
  rw [List.map_drop, List.map_drop, h]

theorem toLowerC_eq_fixed {a b : Nat} (h : toLowerC a = toLowerC b) (v : Nat) (hv : v < 65 ∨ (90 < v ∧ v < 97) ∨ 122 < v) :
    a = v ↔ b = v := by
  unfold toLowerC at h
  split at h <;> split at h <;> omega

/-- Base32's reverse table maps both cases of a letter to the same value (`base32_reverse_init` writes
`rev[cb32[i]]` and `rev[cb32_ucase[i]]`). -/
theorem b32_rev_lower (c : Nat) : b32.rev (toLowerC c) = b32.rev c := by
  unfold toLowerC
  split
  · rename_i h
    have : ∀ c, c < 91 → 65 ≤ c → b32.rev (c + 32) = b32.rev c := by decide
    exact this c (by omega) h.1
  · rfl

theorem b32_rev_caseEq {a b : Nat} (h : toLowerC a = toLowerC b) : b32.rev a = b32.rev b := by
  rw [← b32_rev_lower a, ← b32_rev_lower b, h]

theorem decBits_b32_caseEq : ∀ s t, CaseEq s t → decBits b32 s = decBits b32 t := by
  apply caseEq_induction
  · rfl
  · intro a b s t hab _ ih
    simp only [decBits, List.flatMap_cons] at ih ⊢
    rw [b32_rev_caseEq hab, ih]

theorem takeWhile_nz_caseEq : ∀ s t, CaseEq s t →
    CaseEq (s.takeWhile (fun ch => ch != 0)) (t.takeWhile (fun ch => ch != 0)) := by
  apply caseEq_induction
  · rfl
  · intro a b s t hab _ ih
    have h0 := toLowerC_eq_fixed hab 0 (by omega)
    simp only [List.takeWhile_cons]
    by_cases ha : a = 0
    · have hb : b = 0 := h0.mp ha
      simp [ha, hb, CaseEq]
    · have hb : b ≠ 0 := fun e => ha (h0.mpr e)
      simp only [bne_iff_ne, ne_eq, ha, not_false_eq_true, ↓reduceIte, hb]
      simp only [CaseEq, List.map_cons, hab] at ih ⊢
      rw [ih]

/-- `base32_decode` gives the same bytes for two texts that differ only in the case of letters — any
letters, each one separately. -/
theorem dec_b32_caseEq {s t : List Nat} (h : CaseEq s t) (cap n : Nat) : dec b32 cap n s = dec b32 cap n t := by
  unfold dec decAll cstr
  rw [decBits_b32_caseEq _ _ (takeWhile_nz_caseEq _ _ (caseEq_take h n))]

theorem undotify_caseEq : ∀ s t, CaseEq s t → CaseEq (undotify s) (undotify t) := by
  apply caseEq_induction
  · rfl
  · intro a b s t hab _ ih
    have h0 := toLowerC_eq_fixed hab DOT (by unfold DOT; omega)
    unfold undotify at ih ⊢
    simp only [List.filter_cons]
    by_cases ha : a = DOT
    · have hb : b = DOT := h0.mp ha
      simp only [ha, hb, bne_self_eq_false, Bool.false_eq_true, ↓reduceIte]
      exact ih
    · have hb : b ≠ DOT := fun e => ha (h0.mpr e)
      simp only [bne_iff_ne, ne_eq, ha, not_false_eq_true, ↓reduceIte, hb]
      simp only [CaseEq, List.map_cons, hab] at ih ⊢
      rw [ih]

theorem unpackData_b32_caseEq {s t : List Nat} (h : CaseEq s t) (cap : Nat) :
    unpackData b32 cap s = unpackData b32 cap t := by
  unfold unpackData
  have hu := undotify_caseEq s t h
  simp only [caseEq_length hu]
  exact dec_b32_caseEq hu cap _

theorem serverExtract_b32_caseEq {s t : List Nat} (h : CaseEq s t) (hh dlen : Nat) :
    serverExtract b32 hh dlen s = serverExtract b32 hh dlen t := by
  unfold serverExtract
  exact unpackData_b32_caseEq (caseEq_drop (caseEq_take h dlen) hh) _

/-! ### `query_datalen` ignores letter case in the query name -/

open Common in
theorem atBoundary_caseEq {s t : List Nat} (h : CaseEq s t) : atBoundary s = atBoundary t := by
  cases s with
  | nil =>
    cases t with
    | nil => rfl
    | cons b t => simp [CaseEq] at h
  | cons a s =>
    cases t with
    | nil => simp [CaseEq] at h
    | cons b t =>
      simp only [CaseEq, List.map_cons, List.cons.injEq] at h
      have h0 := toLowerC_eq_fixed h.1 46 (by omega)
      unfold atBoundary
      simp only [List.isEmpty_cons, List.head?_cons, Bool.false_or]
      exact Bool.eq_iff_iff.mpr (by simp only [beq_iff_eq, Option.some.injEq]; exact h0)

open Common in
theorem qdScan_caseEq (tr : List Nat) : ∀ s t, CaseEq s t → qdScan s tr = qdScan t tr := by
  intro s t h
  induction tr, s using qdScanInd generalizing t with
  | nilq tr =>
    cases t with
    | nil => rfl
    | cons b t => simp [CaseEq] at h
  | nilt a s =>
    cases t with
    | nil => simp [CaseEq] at h
    | cons b t => simp [qdScan]
  | step tc trest a s ih1 ih2 =>
    cases t with
    | nil => simp [CaseEq] at h
    | cons b t =>
      simp only [CaseEq, List.map_cons, List.cons.injEq] at h
      have hst : CaseEq s t := h.2
      have h42 := toLowerC_eq_fixed h.1 42 (by omega)
      have hlow : toLower a = toLower b := by rw [← toLowerC_eq]; exact h.1
      simp only [qdScan]
      rw [atBoundary_caseEq hst, caseEq_length hst, hlow, ih1 t hst, ih2 t hst]
      by_cases ha : a = 42
      · simp [ha, h42.mp ha]
      · have hb : b ≠ 42 := fun e => ha (h42.mpr e)
        simp [ha, hb]
where
  qdScanInd {motive : List Nat → List Nat → Prop}
      (nilq : ∀ tr, motive tr [])
      (nilt : ∀ a s, motive [] (a :: s))
      (step : ∀ tc trest a s, motive (tc :: trest) s → motive trest s → motive (tc :: trest) (a :: s)) :
      ∀ tr s, motive tr s := by
    intro tr s
    induction s generalizing tr with
    | nil => exact nilq tr
    | cons a s ih =>
      cases tr with
      | nil => exact nilt a s
      | cons tc trest => exact step tc trest a s (ih _) (ih _)

/-- `query_datalen(q', t) = query_datalen(q, t)` when `q'` is `q` with the case of any letters changed. -/
theorem queryDatalen_caseEq {q q' : List Nat} (h : CaseEq q' q) (t : List Nat) :
    Common.queryDatalen q' t = Common.queryDatalen q t := by
  unfold Common.queryDatalen
  rw [caseEq_length h]
  have hr : CaseEq q'.reverse q.reverse := by
    unfold CaseEq at *
    rw [List.map_reverse, List.map_reverse, h]
  rw [qdScan_caseEq t.reverse _ _ hr]

end Iodine.C11L

