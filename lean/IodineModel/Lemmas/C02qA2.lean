import IodineModel.Lemmas.C02qA1
/-
C02 phase 2, sub-package "aged" (2): the slot level.
* `RingWF`: the structural part of `Aged`/`PAged` (lengths and fill pointers of the three ring memories), preserved by every
  function of the server model that writes one of the memories (`cacheUpd`, `qmemUpd` = `save_to_dnscache`,
  `save_to_qmem_pingordata` on the slot; `resetSession` = the `V` handler; `clearDnscache` = the `N` handler).
* `AgedTo`: `Aged` for the `nq` newest positions of `qmemdata` and the `nc` newest of `dnscache`; `AgedTo … 15 4 = Aged`, and
  `AgedTo … 0 0` is just `RingWF`.
* RENEWAL (`CleanSess.renew`, `CleanSess.renewed`): from ANY well-formed slot, whatever its memories hold, after 15 clean data
  query/answer cycles (pings in between do not matter) `Aged … 1` holds again.
-/
namespace Iodine.C02L
open Iodine Iodine.Gen Iodine.Server
open Iodine.C16L (ringPos ringFill ringFill_lt ring_push_zero ring_push_succ)

/-- lengths and fill pointers of the three duplicate memories of a slot -/
structure RingWF (x : Session) : Prop where
  qlen : x.qmemdata.length = QMEMDATA_LEN
  qlast : x.qmemdataLast < QMEMDATA_LEN
  plen : x.qmemping.length = QMEMPING_LEN
  plast : x.qmempingLast < QMEMPING_LEN
  clen : x.dnscache.length = DNSCACHE_LEN
  clast : x.dcLast < DNSCACHE_LEN

theorem Aged.wf {P : Par} {x : Session} {k sl k' sl' : Nat} (h : Aged P x k sl) (h' : PAged P x k' sl') : RingWF x :=
  ⟨h.qlen, h.qlast, h'.plen, h'.plast, h.clen, h.clast⟩

/-- `save_to_dnscache` keeps the rings well-formed, whatever is saved -/
theorem RingWF.cacheUpd {x : Session} (h : RingWF x) (q : Query) (ans : List Nat) : RingWF (cacheUpd x q ans) := by
  unfold C02L.cacheUpd
  split
  · exact h
  · refine ⟨h.qlen, h.qlast, h.plen, h.plast, by simp [h.clen], ?_⟩
    show (if x.dcLast + 1 ≥ DNSCACHE_LEN then 0 else x.dcLast + 1) < DNSCACHE_LEN
    split
    · decide
    · omega

/-- `save_to_qmem_pingordata` keeps the rings well-formed, whatever the query is -/
theorem RingWF.qmemUpd {x : Session} (h : RingWF x) (q : Query) : RingWF (qmemUpd x q) := by
  unfold C02L.qmemUpd
  simp only
  split
  · cases List.idxOf? 46 q.name with
    | none => exact h
    | some cp =>
      simp only
      split
      · exact h
      · refine ⟨h.qlen, h.qlast, by simp [saveToQmem, h.plen], ?_, h.clen, h.clast⟩
        show (if x.qmempingLast + 1 ≥ QMEMPING_LEN then 0 else x.qmempingLast + 1) < QMEMPING_LEN
        split
        · decide
        · omega
  · split
    · exact h
    · refine ⟨by simp [saveToQmem, h.qlen], ?_, h.plen, h.plast, h.clen, h.clast⟩
      show (if x.qmemdataLast + 1 ≥ QMEMDATA_LEN then 0 else x.qmemdataLast + 1) < QMEMDATA_LEN
      split
      · decide
      · omega

/-- the `V` handler's reset keeps them well-formed -/
theorem RingWF.resetSession {x : Session} (h : RingWF x) : RingWF (resetSession x) :=
  ⟨by simp [Server.resetSession, h.qlen], by simp [Server.resetSession, QMEMDATA_LEN],
   by simp [Server.resetSession, h.plen], by simp [Server.resetSession, QMEMPING_LEN],
   by simp [Server.resetSession, clearDnscache, h.clen], by simp [Server.resetSession, DNSCACHE_LEN]⟩

/-- the `N` handler's cache flush keeps them well-formed -/
theorem RingWF.clearCache {x : Session} (h : RingWF x) (f : Nat) (b : Bool) :
    RingWF { x with fragsize := f, optionsLocked := b, dnscache := clearDnscache x.dnscache } :=
  ⟨h.qlen, h.qlast, h.plen, h.plast, by simp [clearDnscache, h.clen], h.clast⟩

/-- a function that leaves the six fields alone keeps them well-formed (all other writes of the server model) -/
theorem RingWF.congr {x y : Session} (h : RingWF x) (h1 : y.qmemdata = x.qmemdata) (h2 : y.qmemdataLast = x.qmemdataLast)
    (h3 : y.qmemping = x.qmemping) (h4 : y.qmempingLast = x.qmempingLast) (h5 : y.dnscache = x.dnscache)
    (h6 : y.dcLast = x.dcLast) : RingWF y :=
  ⟨h1 ▸ h.qlen, h2 ▸ h.qlast, h3 ▸ h.plen, h4 ▸ h.plast, h5 ▸ h.clen, h6 ▸ h.clast⟩

/-! ### `Aged` for the newest positions only -/

structure AgedTo (P : Par) (x : Session) (k nq nc sl : Nat) : Prop where
  wf : RingWF x
  qmem : RingAgedTo nq QMEMDATA_LEN x.qmemdata x.qmemdataLast QmemEntry.zero (QRel P) k 36 sl
  cache : RingAgedTo nc DNSCACHE_LEN x.dnscache x.dcLast DnsCacheEntry.zero (CRel P) k 36 sl

/-- a well-formed slot, nothing known about the contents of its memories -/
theorem AgedTo.of_wf {P : Par} {x : Session} (h : RingWF x) (k sl : Nat) : AgedTo P x k 0 0 sl :=
  ⟨h, RingAgedTo.zero _ _ _ _ _ _ _ _, RingAgedTo.zero _ _ _ _ _ _ _ _⟩

/-- all positions known: `Aged` -/
theorem AgedTo.aged {P : Par} {x : Session} {k nq nc sl : Nat} (h : AgedTo P x k nq nc sl) (hq : 15 ≤ nq) (hc : 4 ≤ nc) :
    Aged P x k sl :=
  ⟨h.wf.qlen, h.wf.qlast, h.wf.clen, h.wf.clast, h.qmem.full hq, h.cache.full hc⟩

theorem Aged.to {P : Par} {x : Session} {k sl : Nat} (h : Aged P x k sl) (hp : x.qmemping.length = QMEMPING_LEN)
    (hl : x.qmempingLast < QMEMPING_LEN) (nq nc : Nat) : AgedTo P x k nq nc sl :=
  ⟨⟨h.qlen, h.qlast, hp, hl, h.clen, h.clast⟩, h.qmem.to nq, h.cache.to nc⟩

theorem AgedTo.mono {P : Par} {x : Session} {k nq nc nq' nc' sl sl' : Nat} (h : AgedTo P x k nq nc sl) (hq : nq' ≤ nq)
    (hc : nc' ≤ nc) (hs : sl ≤ sl') : AgedTo P x k nq' nc' sl' :=
  ⟨h.wf, h.qmem.mono hq hs, h.cache.mono hc hs⟩

/-- the client sent a data query (its counter advanced) -/
theorem AgedTo.step {P : Par} {x : Session} {k nq nc sl : Nat} (h : AgedTo P x k nq nc sl) (hk : k < 36) (hsl : sl ≤ 21) :
    AgedTo P x ((k + 1) % 36) nq nc (sl + 1) := by
  rw [← nxt36 k hk]
  exact ⟨h.wf, h.qmem.step hk (by simp [QMEMDATA_LEN]; omega), h.cache.step hk (by simp [DNSCACHE_LEN]; omega)⟩

/-- the answer to a data query whose counter value is `a0 ≤ sl` steps behind is remembered: one more position of each ring
is known -/
theorem AgedTo.memo {P : Par} {x : Session} {k nq nc sl : Nat} (h : AgedTo P x k nq nc (sl + 1)) (q : Query) (ans : List Nat)
    (hans : ans.length ≤ DNSCACHE_ANSWER_SIZE) (k0 a0 : Nat) (ha : 1 ≤ a0 ∧ a0 ≤ sl) (hb : Behind 36 k k0 a0) (hk0 : k0 < 36)
    (h4 : q.name.getD 4 0 = cmcChar k0) (h5 : 5 ≤ q.name.length)
    (h0 : q.name.getD 0 0 ≠ 80 ∧ q.name.getD 0 0 ≠ 112) :
    AgedTo P (cacheUpd (qmemUpd x q) q ans) k (nq + 1) (nc + 1) sl := by
  have hwf : RingWF (cacheUpd (qmemUpd x q) q ans) := (h.wf.qmemUpd q).cacheUpd q ans
  rw [cacheUpd_eq _ _ _ hans, qmemUpd_data x q h5 h0] at hwf ⊢
  have hcm : (dataCmc q.name).getD 3 0 = cmcChar k0 := by
    unfold dataCmc
    simp only [List.range, List.range.loop, List.map, List.getD_cons_succ, List.getD_cons_zero]
    rw [h4, if_neg (cmcChar_facts k0 hk0).2.1]
  refine ⟨hwf, ?_, ?_⟩
  · apply h.qmem.push h.wf.qlen h.wf.qlast
    intro c ⟨_, hc36, hc⟩
    simp only at hc
    rw [hcm] at hc
    have : c = k0 := ((cmcChar_facts k0 hk0).1 c hc36 hc.symm)
    subst this
    exact ⟨a0, ha.1, ha.2, hb⟩
  · apply h.cache.push h.wf.clen h.wf.clast
    intro c ⟨_, _, hc36, hc⟩
    simp only at hc
    rw [h4] at hc
    have : c = k0 := ((cmcChar_facts k0 hk0).1 c hc36 hc.symm)
    subst this
    exact ⟨a0, ha.1, ha.2, hb⟩

/-- the answer to a ping is remembered: one more position of `dnscache` is known -/
theorem AgedTo.memo_ping {P : Par} (hu : P.u < 16) {x : Session} {k nq nc sl : Nat} (h : AgedTo P x k nq nc sl) (q : Query)
    (ans : List Nat) (hans : ans.length ≤ DNSCACHE_ANSWER_SIZE) (h0 : q.name.getD 0 0 = 112) (cp : Nat)
    (hcp : q.name.idxOf? 46 = some cp) (hl : 4 ≤ (Codec.dec Codec.b32 8 (cp - 1) (q.name.drop 1)).length) :
    AgedTo P (cacheUpd (qmemUpd x q) q ans) k nq (nc + 1) sl := by
  have hne : hexLower P.u ≠ 112 := by
    have := (hexLower_facts P.u hu).2.2
    intro hc; apply this; rw [hc]; simp
  have hwf : RingWF (cacheUpd (qmemUpd x q) q ans) := (h.wf.qmemUpd q).cacheUpd q ans
  rw [cacheUpd_eq _ _ _ hans, qmemUpd_ping x q h0 cp hcp hl] at hwf ⊢
  refine ⟨hwf, h.qmem, ?_⟩
  apply h.cache.push_irrel h.wf.clen h.wf.clast
  intro c ⟨_, hc, _⟩
  simp only at hc
  rw [h0] at hc
  exact hne hc.symm

/-! ### renewal -/

/-- clean query/answer cycles on a slot `x` with the client's data-CMC counter `k`: `nd` data cycles (the client sends the
data query that carries `k`, the server remembers it with its answer) and `nc − nd` ping cycles, in any order -/
inductive CleanSess : Nat → Nat → Session × Nat → Session × Nat → Prop
  | nil (s : Session × Nat) : CleanSess 0 0 s s
  | data {nd nc : Nat} {s : Session × Nat} {x : Session} {k : Nat} (h : CleanSess nd nc s (x, k)) (q : Query) (ans : List Nat)
      (hans : ans.length ≤ DNSCACHE_ANSWER_SIZE) (h4 : q.name.getD 4 0 = cmcChar k) (h5 : 5 ≤ q.name.length)
      (h0 : q.name.getD 0 0 ≠ 80 ∧ q.name.getD 0 0 ≠ 112) :
      CleanSess (nd + 1) (nc + 1) s (cacheUpd (qmemUpd x q) q ans, (k + 1) % 36)
  | ping {nd nc : Nat} {s : Session × Nat} {x : Session} {k : Nat} (h : CleanSess nd nc s (x, k)) (q : Query) (ans : List Nat)
      (hans : ans.length ≤ DNSCACHE_ANSWER_SIZE) (h0 : q.name.getD 0 0 = 112) (cp : Nat) (hcp : q.name.idxOf? 46 = some cp)
      (hl : 4 ≤ (Codec.dec Codec.b32 8 (cp - 1) (q.name.drop 1)).length) :
      CleanSess nd (nc + 1) s (cacheUpd (qmemUpd x q) q ans, k)

/-- **RENEWAL, slot level.**  From ANY well-formed slot and counter value: after `nd` data cycles and `nc − nd` ping cycles the
`nd` newest entries of `qmemdata` and the `nc` newest of `dnscache` are aged with slack 1. -/
theorem CleanSess.renew {P : Par} (hu : P.u < 16) {nd nc : Nat} {x0 x : Session} {k0 k : Nat}
    (h : CleanSess nd nc (x0, k0) (x, k)) (hwf : RingWF x0) (hk : k0 < 36) : k < 36 ∧ AgedTo P x k nd nc 1 := by
  generalize hs : (x0, k0) = s at h
  generalize ht : (x, k) = t at h
  induction h generalizing x k with
  | nil s =>
    subst hs
    cases ht
    exact ⟨hk, AgedTo.of_wf hwf _ _⟩
  | data h q ans hans h4 h5 h0 ih =>
    rename_i nd' nc' s' x' k'
    cases ht
    obtain ⟨h1, h2⟩ := ih hs rfl
    refine ⟨Nat.mod_lt _ (by decide), ?_⟩
    have hb : Behind 36 ((k' + 1) % 36) k' 1 := by rw [← nxt36 _ h1]; exact behind_nxt h1
    exact (h2.step h1 (by decide)).memo q ans hans _ 1 ⟨Nat.le_refl 1, Nat.le_refl 1⟩ hb h1 h4 h5 h0
  | ping h q ans hans h0 cp hcp hl ih =>
    cases ht
    obtain ⟨h1, h2⟩ := ih hs rfl
    exact ⟨h1, h2.memo_ping hu q ans hans h0 cp hcp hl⟩

/-- … hence after 15 data cycles `Aged … 1` holds again, whatever the memories held before (the `dnscache` ring is renewed
after 4 cycles of either kind already). -/
theorem CleanSess.renewed {P : Par} (hu : P.u < 16) {nd nc : Nat} {x0 x : Session} {k0 k : Nat}
    (h : CleanSess nd nc (x0, k0) (x, k)) (hwf : RingWF x0) (hk : k0 < 36) (hnd : 15 ≤ nd) (hnc : 4 ≤ nc) :
    k < 36 ∧ Aged P x k 1 :=
  ⟨(h.renew (P := P) hu hwf hk).1, (h.renew hu hwf hk).2.aged hnd hnc⟩

theorem CleanSess.le {nd nc : Nat} {s t : Session × Nat} (h : CleanSess nd nc s t) : nd ≤ nc := by
  induction h <;> omega

end Iodine.C02L
