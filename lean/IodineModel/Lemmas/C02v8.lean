import IodineModel.Lemmas.C02v7
/-
Upstream transfer in immediate mode, joint invariants and the first step (`offerC`).
-/
namespace Iodine.C02L
open Iodine Iodine.Gen Iodine.World

/-! ### small facts -/

theorem stepS_zero (w : W) (inp : Server.Input) (s' : Server.Srv) (evs : List Server.Event) (t : Nat × Bool)
    (h : Server.iteration w.srv inp w.srv.now = (s', evs, t)) :
    stepS w inp 0 = { w with srv := s', down := w.down ++ downOfEvents evs, tunS := w.tunS ++ tunOfSEvents evs } := by
  unfold stepS
  simp only [Nat.add_zero, h]

theorem stepC_of (w : W) (inp : Client.CInput) (cs' : Client.CState) (evs : List Client.CEvent) (nx : Client.Next)
    (h : Client.cstep w.cs inp = (cs', evs, nx)) (hn : cs'.c.now = w.cs.c.now) :
    stepC w inp = { w with cs := cs', up := w.up ++ upOfEvents evs, tunC := w.tunC ++ tunOfCEvents evs } := by
  unfold stepC
  simp only [h, hn, Nat.sub_self, Nat.add_zero]

theorem sChar_small (x : Int) (h : -128 ≤ x ∧ x < 128) : Client.sChar x = x := by
  unfold Client.sChar; omega

theorem headD_eq_getD (l : List Nat) : l.headD 0 = l.getD 0 0 := by cases l <;> rfl

/-- what `sentState` keeps and what it changes -/
structure SentFacts (c c' : Client.Cli) : Prop where
  running : c'.running = c.running
  conn : c'.conn = c.conn
  lazymode : c'.lazymode = c.lazymode
  userid : c'.userid = c.userid
  useridChar : c'.useridChar = c.useridChar
  topdomain : c'.topdomain = c.topdomain
  hostnameMaxlen : c'.hostnameMaxlen = c.hostnameMaxlen
  dataenc : c'.dataenc = c.dataenc
  doQtype : c'.doQtype = c.doQtype
  ldt : c'.lastdownstreamtime = c.lastdownstreamtime
  now : c'.now = c.now
  inpkt : c'.inpkt = c.inpkt
  olen : c'.outpkt.len = c.outpkt.len
  ooff : c'.outpkt.offset = c.outpkt.offset
  odata : c'.outpkt.data = c.outpkt.data
  oseq : c'.outpkt.seqno = c.outpkt.seqno
  ofrag : c'.outpkt.fragment = c.outpkt.fragment
  osent : c'.outpkt.sentlen = cFragLen c
  cid : c'.chunkid < 65536
  cmc : c'.datacmc = if c.datacmc + 1 ≥ 36 then 0 else c.datacmc + 1
  sps : c'.sendPingSoon = 0
  seed : c'.randSeed = c.randSeed
  selto : c'.selecttimeout = c.selecttimeout

theorem sentState_chunkid_lt (c : Client.Cli) : (sentState c).chunkid < 65536 := by
  unfold sentState
  exact Client.rotateChunkid_lt _

theorem sentFacts (c : Client.Cli) : SentFacts c { sentState c with sendPingSoon := 0 } := by
  constructor
  case cid => simpa using sentState_chunkid_lt c
  all_goals simp [sentState, Client.rotateChunkid]

theorem step_offerC (w : W) (f : List Nat) (h : tunSelC w = true) : step w (.offerC f) = stepC w (.tun f) := by
  simp [step, h]

/-! ### the invariants -/

/-- quiescent joint state, immediate mode; the duplicate memories hold only data queries older than the next one — with
freshness slacks `sl` (data-CMC counter) and `sp` (ping seed): how many queries the client may have sent that the server
never saw (1 on the clean path) -/
structure QuietImmS (P : Par) (sl sp : Nat) (w : W) : Prop where
  ph : w.cs.ph = .tunnel
  cst : CStat P w.cs.c
  idleC : Client.isSending w.cs.c = false
  up : w.up = []
  down : w.down = []
  srv : SStat P w.srv
  idle : IdleImm (Server.getUser w.srv P.u)
  oq : (Server.getUser w.srv P.u).oqFilled = 0
  syncu : (Server.getUser w.srv P.u).inpacket.seqno = w.cs.c.outpkt.seqno
  syncd : (Server.getUser w.srv P.u).outpacket.seqno = w.cs.c.inpkt.seqno
  aged : Aged P (Server.getUser w.srv P.u) w.cs.c.datacmc sl
  paged : PAged P (Server.getUser w.srv P.u) w.cs.c.randSeed sp

theorem QuietImmS.quiet {P : Par} {sl sp : Nat} {w : W} (h : QuietImmS P sl sp w) : quiet P.u w = true := by
  unfold World.quiet
  simp [h.up, h.down, h.idleC, h.idle.out, h.oq, h.idle.qs, h.idle.lazy, h.idle.q]

/-- the quiescent state of the clean path: slack 1 -/
abbrev QuietImm (P : Par) (w : W) : Prop := QuietImmS P 1 1 w

theorem QuietImm.quiet {P : Par} {w : W} (h : QuietImm P w) : quiet P.u w = true := QuietImmS.quiet h

/-- fragment `f` (offset `o`) of the upstream packet `out` is in flight towards the server -/
structure UpFlightS (P : Par) (sl sp : Nat) (out : List Nat) (w : W) (c0 : Client.Cli) (o f : Nat) : Prop where
  ph : w.cs.ph = .tunnel
  ready : CReady P c0 out o f
  cli : w.cs.c = { sentState c0 with sendPingSoon := 0 }
  up : w.up = upOfEvents (Client.sendChunk c0).evs
  down : w.down = []
  srv : SStat P w.srv
  idle : IdleImm (Server.getUser w.srv P.u)
  oq : (Server.getUser w.srv P.u).oqFilled = 0
  expect : Expect (Server.getUser w.srv P.u) out c0.outpkt.seqno.toNat o f
  syncd : (Server.getUser w.srv P.u).outpacket.seqno = c0.inpkt.seqno
  aged : Aged P (Server.getUser w.srv P.u) c0.datacmc sl
  paged : PAged P (Server.getUser w.srv P.u) c0.randSeed sp

abbrev UpFlight (P : Par) (out : List Nat) (w : W) (c0 : Client.Cli) (o f : Nat) : Prop := UpFlightS P 1 1 out w c0 o f

theorem cstate_eta (cs : Client.CState) (h : cs.ph = .tunnel) : cs = ⟨cs.c, .tunnel⟩ := by
  cases cs; simp_all

/-- the packet `tunnel_tun` builds from a frame of fewer than 65536 bytes -/
theorem newPacket_ready {P : Par} {c : Client.Cli} (hc : CStat P c) (frame : List Nat) (hl : frame.length < 65536)
    (hb : Codec.Bytes frame) : CReady P (newPacket c frame) (0x5a :: frame) 0 0 := by
  have ht : frame.take 65536 = frame := List.take_of_length_le (by omega)
  have hs : Client.sChar ((c.outpkt.seqno + 1) % 8) = (c.outpkt.seqno + 1) % 8 := sChar_small _ (by omega)
  refine ⟨⟨hc.running, hc.conn, hc.imm, hc.uid, hc.uch, hc.td, hc.L, hc.enc, hc.ty, hc.cid, hc.cmc, hc.alive, ?_, hc.iseq, hc.ifrag, hc.seed⟩,
    ?_, ?_, rfl, rfl, by simp, by omega, ?_⟩
  · show 0 ≤ Client.sChar ((c.outpkt.seqno + 1) % 8) ∧ Client.sChar ((c.outpkt.seqno + 1) % 8) < 8
    rw [hs]; omega
  · show (Client.compress (frame.take 65536)).take 65536 = 0x5a :: frame
    rw [ht]; unfold Client.compress
    exact List.take_of_length_le (by simp; omega)
  · show (frame.take 65536).length + 1 = (0x5a :: frame).length
    rw [ht]; simp
  · intro b hb'
    rcases List.mem_cons.1 hb' with h | h
    · subst h; decide
    · exact hb b h

/-- `offerC`: the frame is read, compressed, and its first fragment goes out -/
theorem up_offer {P : Par} (hP : P.Ok) {sl sp : Nat} {w : W} (hq : QuietImmS P sl sp w) (frame : List Nat) (hne : frame ≠ [])
    (hl : frame.length < 65536) (hb : Codec.Bytes frame) :
    ∃ w1, step w (.offerC frame) = w1 ∧ UpFlightS P sl sp (0x5a :: frame) w1 (newPacket w.cs.c frame) 0 0 ∧
      w1.tunS = w.tunS ∧ w1.tunC = w.tunC := by
  have hcs := cstate_eta w.cs hq.ph
  have hready := newPacket_ready hq.cst frame hl hb
  obtain ⟨name, hsend, _, _, _⟩ := send_ready hP hready
  have hsf := sentFacts (newPacket w.cs.c frame)
  have hsel : tunSelC w = true := by
    unfold tunSelC Client.pending
    rw [hq.ph]
    simp [Client.selectOf, hq.idleC]
  have hstep : Client.cstep w.cs (.tun frame) =
      (⟨{ sentState (newPacket w.cs.c frame) with sendPingSoon := 0 }, .tunnel⟩,
       [] ++ (Client.sendChunk (newPacket w.cs.c frame)).evs,
       .sel (Client.selectOf { sentState (newPacket w.cs.c frame) with sendPingSoon := 0 })) := by
    rw [hcs, cstep_tun w.cs.c frame hq.cst.running hq.cst.alive hq.idleC hne hq.cst.conn]
    have ht : frame.take 65536 = frame := List.take_of_length_le (by omega)
    rw [settle_afterSend _ _ _ (by rw [hsend]) (by rw [hsend]; have := hsf.running; simpa using this.trans hq.cst.running)]
    rw [hsend]
  refine ⟨_, rfl, ?_, ?_, ?_⟩
  · rw [step_offerC w frame hsel, stepC_of w _ _ _ _ hstep (by show _ = w.cs.c.now; exact hsf.now)]
    refine ⟨rfl, hready, rfl, ?_, hq.down, hq.srv, hq.idle, hq.oq, ?_, hq.syncd, hq.aged, hq.paged⟩
    · show w.up ++ upOfEvents ([] ++ _) = _
      rw [hq.up]; rfl
    · left
      refine ⟨rfl, rfl, 1, Nat.le_refl _, by omega, ?_⟩
      have hs : Client.sChar ((w.cs.c.outpkt.seqno + 1) % 8) = (w.cs.c.outpkt.seqno + 1) % 8 := sChar_small _ (by omega)
      show (((newPacket w.cs.c frame).outpkt.seqno).toNat : Int) = _
      have : (newPacket w.cs.c frame).outpkt.seqno = (w.cs.c.outpkt.seqno + 1) % 8 := hs
      rw [this, hq.syncu]
      omega
  · rw [step_offerC w frame hsel, stepC_of w _ _ _ _ hstep (by show _ = w.cs.c.now; exact hsf.now)]
  · rw [step_offerC w frame hsel, stepC_of w _ _ _ _ hstep (by show _ = w.cs.c.now; exact hsf.now)]
    show w.tunC ++ tunOfCEvents ([] ++ (Client.sendChunk (newPacket w.cs.c frame)).evs) = w.tunC
    rw [hsend]
    simp [tunOfCEvents]

end Iodine.C02L
