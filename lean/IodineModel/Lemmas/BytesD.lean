import IodineModel.Lemmas.BytesC
/-
Helper lemmas for the byte-level server, part D: the NS and A responses (`handle_ns_request`, `handle_a_request`) for
the query `tunnel_dns` dispatched, from the theorems of Props/C10.lean.
-/
namespace Iodine.BytesL
open Iodine Iodine.Server Iodine.Gen Iodine.C10 Iodine.Wire.Strict Iodine.Wire.DnsEncode

/-- a response that echoes id and question and answers with exactly one record of the question's name, type and class -/
def NsaEchoes (id ty : Nat) (qn pkt : List Nat) : Prop :=
  ∃ m, parseMsg pkt = some m ∧ m.id = id ∧ m.flags = 0x8400 ∧ m.qd = [(labels qn, ty, 1)] ∧ m.an.length = 1 ∧
    (∀ r ∈ m.an, r.owner = labels qn ∧ r.type = ty ∧ r.cls = 1) ∧ m.ns = []

theorem beBytes4 (x : Nat) : beBytes 4 x = [x / 256 ^ 3 % 256, x / 256 ^ 2 % 256, x / 256 ^ 1 % 256, x / 256 ^ 0 % 256] := rfl

theorem beBytes4_bytes (x : Nat) : IsBytes (beBytes 4 x) := by
  rw [beBytes4]
  intro b hb
  simp only [List.mem_cons, List.not_mem_nil, or_false] at hb
  rcases hb with rfl | rfl | rfl | rfl <;> exact Nat.mod_lt _ (by omega)

theorem nsDest_cases (cfg : Config) (q : Query) :
    nsDest cfg q = none ∨ ∃ x, nsDest cfg q = some (beBytes 4 x) := by
  unfold nsDest
  split
  · exact Or.inr ⟨_, rfl⟩
  · split
    · exact Or.inr ⟨_, rfl⟩
    · exact Or.inl rfl

theorem nsDest_ok (cfg : Config) (q : Query) : DestOK (nsDest cfg q) := by
  rcases nsDest_cases cfg q with h | ⟨x, h⟩
  · exact Or.inl h
  · refine Or.inr ⟨_, _, _, _, by rw [h, beBytes4], ?_⟩
    have := beBytes4_bytes x
    rwa [beBytes4] at this

theorem sent_ok {pkt bytes : List Nat} (h : sent (.ok pkt) = some bytes) : bytes = pkt := by
  unfold sent at h
  split at h
  · rename_i p hp
    cases hp
    split at h
    · cases h
    · cases h; rfl
  · rename_i hne
    exact absurd rfl (hne pkt)

theorem aResponse_echo (id : Nat) (qn : List Nat) (dest : Option (List Nat)) (bytes : List Nat)
    (hid : id < 65536) (hqn : LegalName qn) (hdest : DestOK dest)
    (h : sent (dnsEncodeAResponse 65536 id 1 qn dest) = some bytes) : NsaEchoes id 1 qn bytes := by
  rcases hdest with rfl | ⟨a0, a1, a2, a3, rfl, haddr⟩
  · simp [dnsEncodeAResponse, sent] at h
  · obtain ⟨pkt, h1, h2⟩ := a_response_wellformed_server id qn a0 a1 a2 a3 hid hqn haddr
    rw [h1] at h
    rw [sent_ok h]
    exact ⟨_, h2, rfl, rfl, rfl, rfl, by simp, rfl⟩

theorem nsMsg_echo (id : Nat) (qn : List Nat) (topl : Name) (ptr : Nat) (dest : Option (List Nat)) (pkt : List Nat)
    (h : parseMsg pkt = some (nsMsg id qn topl ptr dest)) : NsaEchoes id 2 qn pkt :=
  ⟨_, h, rfl, rfl, rfl, rfl, by simp [nsMsg], rfl⟩

/-- **NS / A responses.**  Whatever `handle_ns_request` / `handle_a_request` send for a query with a legal name of at most 250
characters is well-formed and echoes id, name and type, with one answer record for that name. -/
theorem nsaBytes_echo_of (cfg : Config) (q : Query) (bytes : List Nat) (hid : q.id < 65536) (hqn : LegalName q.name)
    (htop : ∀ dlen, Common.queryDatalen q.name cfg.topdomain = some dlen → (q.name.drop dlen).length ≤ 250)
    (h : nsaBytes cfg q = some bytes) : NsaEchoes q.id q.type q.name bytes := by
  unfold nsaBytes at h
  split at h
  · cases h
  · rename_i dlen hd
    simp only [] at h
    split at h
    · rename_i hc
      have hty : q.type = 1 := hc.2.1
      unfold aResponse at h
      rw [hty] at h ⊢
      exact aResponse_echo q.id q.name _ bytes hid hqn (by simpa using nsDest_ok cfg q) h
    · split at h
      · rename_i hc
        have hty : q.type = 1 := hc.2.1
        unfold aResponse at h
        rw [hty] at h ⊢
        refine aResponse_echo q.id q.name _ bytes hid hqn ?_ h
        exact Or.inr ⟨127, 0, 0, 1, by simp, by decide⟩
      · split at h
        · rename_i hty
          have hty : q.type = 2 := hty
          unfold nsResponse at h
          rw [hty] at h ⊢
          have htop' := htop
          clear htop
          obtain ⟨top, _, htop, hle, hcase⟩ := queryDatalen_split hd
          rw [htop] at h
          have htl : top.length ≤ 250 := by rw [← htop]; exact htop' dlen hd
          rcases hcase with h0 | ⟨sub, hq, _⟩
          · subst h0
            simp only [List.drop_zero] at htop
            rw [htop] at h hqn ⊢
            obtain ⟨pkt, h1, _, h2⟩ := ns_response_apex_wellformed 65536 q.id top (nsDest cfg q) hid hqn htl
              (nsDest_ok cfg q) (by split <;> omega)
            rw [h1] at h
            rw [sent_ok h]
            exact nsMsg_echo _ _ _ _ _ _ h2
          · rw [hq] at h hqn ⊢
            obtain ⟨pkt, h1, h2⟩ := ns_response_wellformed_server q.id sub top (nsDest cfg q) hid hqn htl (nsDest_ok cfg q)
            rw [h1] at h
            rw [sent_ok h]
            exact nsMsg_echo _ _ _ _ _ _ h2
        · cases h

theorem nsaBytes_echo (cfg : Config) (q : Query) (bytes : List Nat) (hid : q.id < 65536) (hqn : LegalName q.name)
    (hlen : q.name.length ≤ 250) (h : nsaBytes cfg q = some bytes) : NsaEchoes q.id q.type q.name bytes :=
  nsaBytes_echo_of cfg q bytes hid hqn (fun dlen _ => by simp only [List.length_drop]; omega) h

end Iodine.BytesL
