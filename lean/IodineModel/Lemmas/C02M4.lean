import IodineModel.Lemmas.C02M3
/-
C02 / lazy mode, DOWNSTREAM — part 4: the client receives an answer to its most recent query that carries an expected
fragment (lazy analogues of `RecvOk`, `recv_mid`, `recv_last`), and the 5 ms timer that sends the final ping.
-/
namespace Iodine.C02L
open Iodine Iodine.Gen Iodine.World

/-- `hintBook` as ONE update of `c` -/
theorem hintBook_flat (c : Client.Cli) :
    hintBook c = { c with packrecv := (Client.countRecv c).packrecv, recvcnt := c.recvcnt + 1, lastdownstreamtime := c.now,
                          sendPingSoon := 900 } := rfl

/-- the client state after an expected fragment that is not the last was appended (lazy mode: the hint has fired) -/
def midStateL (c : Client.Cli) (out : List Nat) (sq : Int) (o D f : Nat) : Client.Cli :=
  { c with packrecv := (Client.countRecv c).packrecv, recvcnt := c.recvcnt + 1, lastdownstreamtime := c.now,
           sendPingSoon := 900, inpkt := inAfter c out sq o D f }

/-- … and after the last one was delivered -/
def lastStateL (c : Client.Cli) (out : List Nat) (sq : Int) (o D f : Nat) : Client.Cli :=
  { c with packrecv := (Client.countRecv c).packrecv, recvcnt := c.recvcnt + 1, lastdownstreamtime := c.now,
           sendPingSoon := 5, inpkt := { inAfter c out sq o D f with len := 0 } }

theorem mid_of_hint (c : Client.Cli) (out : List Nat) (sq : Int) (o D f : Nat) :
    ({ hintBook c with inpkt := inAfter (hintBook c) out sq o D f } : Client.Cli) = midStateL c out sq o D f := by
  rw [hintBook_flat]; rfl

theorem last_of_hint (c : Client.Cli) (out : List Nat) (sq : Int) (o D f : Nat) :
    ({ hintBook c with inpkt := { inAfter (hintBook c) out sq o D f with len := 0 }, sendPingSoon := 5 } : Client.Cli) =
      lastStateL c out sq o D f := by
  rw [hintBook_flat]; rfl

theorem cstatL_mid {P : Par} {c : Client.Cli} (hc : CStatL P c) (out : List Nat) (sq : Int) (o D f : Nat) (hsq : 0 ≤ sq ∧ sq < 8)
    (hf : f < 16) : CStatL P (midStateL c out sq o D f) := by
  exact ⟨hc.running, hc.conn, hc.lz, hc.uid, hc.uch, hc.td, hc.L, hc.enc, hc.ty, hc.cid, hc.cmc,
    by show ¬ c.now + 60 < c.now; omega, hc.oseq, hsq, by show (0 : Int) ≤ f ∧ (f : Int) < 16; omega, hc.seed⟩

theorem cstatL_last {P : Par} {c : Client.Cli} (hc : CStatL P c) (out : List Nat) (sq : Int) (o D f : Nat) (hsq : 0 ≤ sq ∧ sq < 8)
    (hf : f < 16) : CStatL P (lastStateL c out sq o D f) := by
  exact ⟨hc.running, hc.conn, hc.lz, hc.uid, hc.uch, hc.td, hc.L, hc.enc, hc.ty, hc.cid, hc.cmc,
    by show ¬ c.now + 60 < c.now; omega, hc.oseq, hsq, by show (0 : Int) ≤ f ∧ (f : Int) < 16; omega, hc.seed⟩

theorem cntOk_mid {c : Client.Cli} (out : List Nat) (sq : Int) (o D f : Nat) (d : Nat) (h : CntOk c (d + 1)) :
    CntOk (midStateL c out sq o D f) d := by
  have := ackBook_cnt' c d h
  unfold CntOk at *
  exact this

theorem cntOk_last {c : Client.Cli} (out : List Nat) (sq : Int) (o D f : Nat) (d : Nat) (h : CntOk c (d + 1)) :
    CntOk (lastStateL c out sq o D f) d := by
  have := ackBook_cnt' c d h
  unfold CntOk at *
  exact this

/-- `downstream_mid` whatever `send_something_now` was -/
theorem downstream_mid' (c : Client.Cli) (h : Client.Hdr) (buf out : List Nat) (sq : Int) (o m f : Nat) (sn : Bool)
    (hE : CExpect c out sq o f) (hs : 0 ≤ c.inpkt.seqno ∧ c.inpkt.seqno < 8) (hsq : 0 ≤ sq ∧ sq < 8) (hf : f < 16)
    (hh : h.dnSeq = sq ∧ h.dnFrag = (f : Int)) (hl : h.last = false)
    (hbl : buf.length = 2 + m) (hbd : buf.drop 2 = (out.drop o).take m) (hm : 1 ≤ m) (hom : o + m ≤ out.length)
    (h64 : out.length ≤ 65536) :
    Client.downstream c h buf ((2 + m : Nat) : Int) sn = ({ c with inpkt := inAfter c out sq o m f }, [], true) := by
  obtain ⟨c2, ha, hap⟩ := append_expected c h buf out sq o m f hE hs hsq hf hh hbl hbd hm hom h64
  unfold Client.downstream
  rw [if_pos (by omega), ha]
  simp only [hap, hl, Bool.false_eq_true, if_false]
  rw [if_neg (by show ¬ (o + m = 0); omega)]

/-- `downstream_last` whatever `send_something_now` was: it is passed on -/
theorem downstream_last' (c : Client.Cli) (h : Client.Hdr) (buf : List Nat) (frame : List Nat) (sq : Int) (o m f : Nat) (sn : Bool)
    (hE : CExpect c (0x5a :: frame) sq o f) (hs : 0 ≤ c.inpkt.seqno ∧ c.inpkt.seqno < 8) (hsq : 0 ≤ sq ∧ sq < 8) (hf : f < 16)
    (hh : h.dnSeq = sq ∧ h.dnFrag = (f : Int)) (hl : h.last = true)
    (hbl : buf.length = 2 + m) (hbd : buf.drop 2 = ((0x5a :: frame).drop o).take m) (hm : 1 ≤ m)
    (hom : o + m = (0x5a :: frame).length) (h64 : (0x5a :: frame).length ≤ 65536) :
    Client.downstream c h buf ((2 + m : Nat) : Int) sn =
      ({ c with inpkt := { inAfter c (0x5a :: frame) sq o m f with len := 0 }, sendPingSoon := 5 }, [Client.writeTun frame], sn) := by
  obtain ⟨c2, ha, hap⟩ := append_expected c h buf (0x5a :: frame) sq o m f hE hs hsq hf hh hbl hbd hm (by omega) h64
  have hun : Client.uncompress ((inAfter c (0x5a :: frame) sq o m f).data.take (inAfter c (0x5a :: frame) sq o m f).len) 65536 = some frame := by
    unfold inAfter
    simp only
    rw [hom, List.take_take, Nat.min_self, List.take_length]
    unfold Client.uncompress
    simp only [List.length_cons] at h64
    simp
    omega
  unfold Client.downstream
  rw [if_pos (by omega), ha]
  simp only [hap, hl, if_true]
  unfold Client.deliver
  simp only [hun]
  rfl

/-- the conditions under which the client processes the answer `rq` as a downstream fragment (lazy mode: the answer is to
the most recent query) -/
structure RecvOkL (P : Par) (c : Client.Cli) (rq : Client.Rq) (pkt : List Nat) : Prop where
  cst : CStatL P c
  idle : Client.isSending c = false
  name0 : Client.notData c rq.name0 = false
  rv : rq.rv = (pkt.length : Int)
  buf : rq.buf = pkt
  id : rq.id = c.chunkid

theorem recv_commonL {P : Par} {c : Client.Cli} {rq : Client.Rq} {pkt out : List Nat} {sq : Int} {o D f : Nat} {last : Bool}
    (h : RecvOkL P c rq pkt) (hp : FragPkt pkt out sq o D f last) (hD : 0 < D)
    (hdup : sq = c.inpkt.seqno ∨ Client.recentSeqno c.inpkt.seqno sq = false) :
    Client.cstep ⟨c, .tunnel⟩ (.rq rq) =
      Client.settle (Client.finalPing
        (Client.downstream (hintBook c) (Client.decodeHdr pkt) pkt ((2 + D : Nat) : Int) (c.sendPingSoon != 0)).1
        (Client.downstream (hintBook c) (Client.decodeHdr pkt) pkt ((2 + D : Nat) : Int) (c.sendPingSoon != 0)).2.1
        (Client.downstream (hintBook c) (Client.decodeHdr pkt) pkt ((2 + D : Nat) : Int) (c.sendPingSoon != 0)).2.2
        ((2 + D : Nat) : Int)) := by
  have hrv : rq.rv = ((2 + D : Nat) : Int) := by rw [h.rv, hp.len]
  rw [cstep_rq c rq h.cst.running h.cst.alive h.cst.conn]
  rw [tunnelDns_payload_lazy c rq h.name0 (by rw [hrv]; omega)
    (by rw [h.buf]; intro hc; exact hp.notbad hc.2)
    h.id h.cst.lz h.idle
    (by rw [h.buf, hp.hdr.1]; exact hdup)]
  rw [h.buf, hrv]

theorem cexpect_hintBook {c : Client.Cli} {out : List Nat} {sq : Int} {o f : Nat} (h : CExpect c out sq o f) :
    CExpect (hintBook c) out sq o f := h

/-- a ping goes out from `c3` at the end of `tunnel_dns`, after the events `pre` -/
theorem settle_finalPing_now {P : Par} (hP : P.Ok) {c3 : Client.Cli} (hc3st : CStatL P c3) (hc3cnt : CntOk c3 1)
    (pre : List Client.CEvent) (read : Int) :
    ∃ name, Client.settle (Client.finalPing c3 pre true read) =
        (⟨pingStateL c3, .tunnel⟩, pre ++ [.query (pingStateL c3).chunkid P.ty name], .sel (Client.selectOf (pingStateL c3))) ∧
      PingQ P (upQuery (pingStateL c3).chunkid P.ty name) c3.inpkt.seqno c3.inpkt.fragment c3.randSeed := by
  obtain ⟨name, hsend, hpq⟩ := sendPing_readyL hP hc3st hc3cnt
  have e : ({ bumpCnt (Client.rotateChunkid { c3 with randSeed := (c3.randSeed + 1) % 65536 }) with sendPingSoon := 0 } : Client.Cli) =
      pingStateL c3 := by unfold pingStateL; rfl
  refine ⟨name, ?_, hpq⟩
  have hfp : Client.finalPing c3 pre true read = Client.afterSend (Client.sendPing c3) pre (.dnsPing read) := by
    simp [Client.finalPing]
  have hrun : (bumpCnt (Client.rotateChunkid { c3 with randSeed := (c3.randSeed + 1) % 65536 })).running = true := by
    have h1 : (pingStateL c3).running = c3.running := (pingFactsL c3).running
    rw [← e] at h1
    exact h1.trans hc3st.running
  rw [hfp, settle_afterSend _ _ _ (by rw [hsend]) (by rw [hsend]; exact hrun), hsend]
  simp only
  rw [e]

/-- a fragment that is not the last one: appended, and the acknowledging ping goes out at once (whether or not a ping was
due before) -/
theorem recv_midL {P : Par} (hP : P.Ok) {c : Client.Cli} {rq : Client.Rq} {pkt out : List Nat} {sq : Int} {o D f : Nat}
    (h : RecvOkL P c rq pkt) (hcnt : CntOk c 1) (hp : FragPkt pkt out sq o D f false) (hD : 0 < D)
    (hdup : sq = c.inpkt.seqno ∨ Client.recentSeqno c.inpkt.seqno sq = false)
    (hE : CExpect c out sq o f) (hsq : 0 ≤ sq ∧ sq < 8) (hf : f < 16) (hle : o + D ≤ out.length) (h64 : out.length ≤ 65536) :
    ∃ name, Client.cstep ⟨c, .tunnel⟩ (.rq rq) =
        (⟨pingStateL (midStateL c out sq o D f), .tunnel⟩, [.query (pingStateL (midStateL c out sq o D f)).chunkid P.ty name],
         .sel (Client.selectOf (pingStateL (midStateL c out sq o D f)))) ∧
      PingQ P (upQuery (pingStateL (midStateL c out sq o D f)).chunkid P.ty name) sq (f : Int) c.randSeed := by
  have hds := downstream_mid' (hintBook c) (Client.decodeHdr pkt) pkt out sq o D f (c.sendPingSoon != 0) (cexpect_hintBook hE)
    h.cst.iseq hsq hf ⟨hp.hdr.1, hp.hdr.2.1⟩ hp.hdr.2.2 hp.len hp.body hD hle h64
  rw [mid_of_hint] at hds
  have hc3st : CStatL P (midStateL c out sq o D f) := cstatL_mid h.cst out sq o D f hsq hf
  have hc3cnt : CntOk (midStateL c out sq o D f) 1 := (cntOk_mid out sq o D f 0 hcnt).mono (by omega)
  obtain ⟨name, hset, hpq⟩ := settle_finalPing_now hP hc3st hc3cnt [] ((2 + D : Nat) : Int)
  refine ⟨name, ?_, hpq⟩
  rw [recv_commonL h hp hD hdup, hds]
  exact hset

/-- the last fragment when no ping was due: the packet is written to the client's tun device; a ping is due in 5 ms -/
theorem recv_lastL {P : Par} {c : Client.Cli} {rq : Client.Rq} {pkt frame : List Nat} {sq : Int} {o D f : Nat}
    (h : RecvOkL P c rq pkt) (hsps : c.sendPingSoon = 0) (hp : FragPkt pkt (0x5a :: frame) sq o D f true) (hD : 0 < D)
    (hdup : sq = c.inpkt.seqno ∨ Client.recentSeqno c.inpkt.seqno sq = false)
    (hE : CExpect c (0x5a :: frame) sq o f) (hsq : 0 ≤ sq ∧ sq < 8) (hf : f < 16) (heq : o + D = (0x5a :: frame).length)
    (h64 : (0x5a :: frame).length ≤ 65536) :
    Client.cstep ⟨c, .tunnel⟩ (.rq rq) =
      (⟨lastStateL c (0x5a :: frame) sq o D f, .tunnel⟩, [Client.writeTun frame],
       .sel (Client.selectOf (lastStateL c (0x5a :: frame) sq o D f))) := by
  have hds := downstream_last' (hintBook c) (Client.decodeHdr pkt) pkt frame sq o D f (c.sendPingSoon != 0) (cexpect_hintBook hE)
    h.cst.iseq hsq hf ⟨hp.hdr.1, hp.hdr.2.1⟩ hp.hdr.2.2 hp.len hp.body hD heq h64
  have hst := cstatL_last h.cst (0x5a :: frame) sq o D f hsq hf
  have hsn : (c.sendPingSoon != 0) = false := by rw [hsps]; rfl
  rw [recv_commonL h hp hD hdup, hds, hsn]
  simp only
  have hfp : Client.finalPing (lastStateL c (0x5a :: frame) sq o D f) [Client.writeTun frame] false ((2 + D : Nat) : Int) =
      (lastStateL c (0x5a :: frame) sq o D f, [Client.writeTun frame], .ret ((2 + D : Nat) : Int)) := by simp [Client.finalPing]
  rw [last_of_hint, hfp]
  simp [Client.settle, Client.loopTop, hst.running]

/-- the last fragment when a ping WAS due (`send_ping_soon ≠ 0`, e.g. the 20 ms left behind by a completed upstream
packet): the packet is written to the client's tun device and the acknowledging ping goes out at once -/
theorem recv_lastL_now {P : Par} (hP : P.Ok) {c : Client.Cli} {rq : Client.Rq} {pkt frame : List Nat} {sq : Int} {o D f : Nat}
    (h : RecvOkL P c rq pkt) (hcnt : CntOk c 1) (hsps : c.sendPingSoon ≠ 0) (hp : FragPkt pkt (0x5a :: frame) sq o D f true) (hD : 0 < D)
    (hdup : sq = c.inpkt.seqno ∨ Client.recentSeqno c.inpkt.seqno sq = false)
    (hE : CExpect c (0x5a :: frame) sq o f) (hsq : 0 ≤ sq ∧ sq < 8) (hf : f < 16) (heq : o + D = (0x5a :: frame).length)
    (h64 : (0x5a :: frame).length ≤ 65536) :
    ∃ name, Client.cstep ⟨c, .tunnel⟩ (.rq rq) =
        (⟨pingStateL (lastStateL c (0x5a :: frame) sq o D f), .tunnel⟩,
         [Client.writeTun frame, .query (pingStateL (lastStateL c (0x5a :: frame) sq o D f)).chunkid P.ty name],
         .sel (Client.selectOf (pingStateL (lastStateL c (0x5a :: frame) sq o D f)))) ∧
      PingQ P (upQuery (pingStateL (lastStateL c (0x5a :: frame) sq o D f)).chunkid P.ty name) sq (f : Int) c.randSeed := by
  have hds := downstream_last' (hintBook c) (Client.decodeHdr pkt) pkt frame sq o D f (c.sendPingSoon != 0) (cexpect_hintBook hE)
    h.cst.iseq hsq hf ⟨hp.hdr.1, hp.hdr.2.1⟩ hp.hdr.2.2 hp.len hp.body hD heq h64
  rw [last_of_hint] at hds
  have hsn : (c.sendPingSoon != 0) = true := by simpa using hsps
  have hc3st : CStatL P (lastStateL c (0x5a :: frame) sq o D f) := cstatL_last h.cst _ sq o D f hsq hf
  have hc3cnt : CntOk (lastStateL c (0x5a :: frame) sq o D f) 1 := (cntOk_last _ sq o D f 0 hcnt).mono (by omega)
  obtain ⟨name, hset, hpq⟩ := settle_finalPing_now hP hc3st hc3cnt [Client.writeTun frame] ((2 + D : Nat) : Int)
  refine ⟨name, ?_, hpq⟩
  rw [recv_commonL h hp hD hdup, hds, hsn]
  exact hset

/-! ### the 5 ms timer -/

theorem cli_now_zero (c : Client.Cli) : ({ c with now := c.now + 0 } : Client.Cli) = c := by
  cases c; rfl

/-- The client's `select` times out (after less than a second) with nothing in flight and nothing being sent, in lazy mode
with the answer counting in balance: a ping goes out; no clock advances. -/
theorem poll_stepL {P : Par} (hP : P.Ok) {w : W} (hph : w.cs.ph = .tunnel) (hc : CStatL P w.cs.c) (hcnt : CntOk w.cs.c 1)
    (hs : Client.isSending w.cs.c = false) (hup : w.up = []) (hdown : w.down = [])
    (hto : 0 ≤ (Client.selectOf w.cs.c).to ∧ (Client.selectOf w.cs.c).to < 1000000) (hts : timeoutS w = 10000000) :
    ∃ name, step w (promptEv w) =
        { w with cs := ⟨pingStateL w.cs.c, .tunnel⟩, up := [.query (pingStateL w.cs.c).chunkid P.ty name] } ∧
      PingQ P (upQuery (pingStateL w.cs.c).chunkid P.ty name) w.cs.c.inpkt.seqno w.cs.c.inpkt.fragment w.cs.c.randSeed := by
  have hcs := cstate_eta w.cs hph
  have hT : ((Client.selectOf w.cs.c).to / 1000000).toNat = 0 := by omega
  have hc1 : Client.advanceClock w.cs.c (Client.selectOf w.cs.c) = w.cs.c := by
    unfold Client.advanceClock
    rw [hT]
    exact cli_now_zero _
  obtain ⟨name, hsend, hpq⟩ := sendPing_readyL hP hc hcnt
  have hpe : promptEv w = .tickC := by
    unfold promptEv
    have htc : timeoutC w = some (Client.selectOf w.cs.c).to := by
      unfold timeoutC Client.pending
      rw [hph]
    simp only [hup, hdown, List.isEmpty_nil, Bool.not_true, Bool.false_eq_true, if_false, htc, hts]
    rw [if_neg (by omega)]
  have e : ({ bumpCnt (Client.rotateChunkid { w.cs.c with randSeed := (w.cs.c.randSeed + 1) % 65536 }) with sendPingSoon := 0 } : Client.Cli) =
      pingStateL w.cs.c := by unfold pingStateL; rfl
  have hstep : Client.cstep w.cs .tick = (⟨pingStateL w.cs.c, .tunnel⟩, [.query (pingStateL w.cs.c).chunkid P.ty name],
      .sel (Client.selectOf (pingStateL w.cs.c))) := by
    rw [hcs]
    show Client.tunnelStep w.cs.c .tick = _
    rw [tunnelStep_tick w.cs.c hc.running (by rw [hc1]; exact hc.alive), hc1, timeoutBranch_idle w.cs.c hs]
    have hrun : (bumpCnt (Client.rotateChunkid { w.cs.c with randSeed := (w.cs.c.randSeed + 1) % 65536 })).running = true := by
      have h1 : (pingStateL w.cs.c).running = w.cs.c.running := (pingFactsL w.cs.c).running
      rw [← e] at h1
      exact h1.trans hc.running
    rw [settle_afterSend _ _ _ (by rw [hsend]) (by rw [hsend]; exact hrun), hsend]
    simp only [List.nil_append]
    rw [e]
  refine ⟨name, ?_, hpq⟩
  rw [hpe, step_tickC, stepC_of w _ _ _ _ hstep (by show (pingStateL w.cs.c).now = _; exact (pingFactsL w.cs.c).now), hup]
  simp only [List.nil_append, upOfEvents, tunOfCEvents, List.append_nil]

end Iodine.C02L
