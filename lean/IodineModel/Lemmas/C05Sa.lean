import IodineModel.Lemmas.BytesI
/-
Helper lemmas for C05 (whole sessions), part A: THE ENCODERS NEVER STORE OUTSIDE THEIR BUFFERS.

The model's writers (`putbyte … putname puttxtbin`, `dns_encode*`, Wire/Put.lean, Wire/DnsEncode.lean) return `R.fault .oobWrite`
for a store at an index ≥ the size of the caller's buffer.  The closed forms of Lemmas/WirePut.lean describe the SUCCESS
paths under legality hypotheses (labels 1..63 …).  Here nothing is assumed about the question name but its length
(`name[256]`): labels of any shape, empty pieces, over-long pieces (where `putname` returns -1 and `dns_encode` goes on).
`Post P x`: `x` is not a fault, and if it yields a value the value satisfies `P`.
-/
namespace Iodine.C05L
open Iodine Iodine.Wire Iodine.Wire.Put Iodine.Wire.DnsEncode Iodine.Server.WriteDns Iodine.C10 Iodine.Downstream

/-- `x` is not a fault; a value it yields satisfies `P` (an early `return rv` of the C function is fine) -/
def Post {α} (P : α → Prop) : R α → Prop
  | .ok a => P a
  | .ret _ => True
  | .fault _ => False

/-- no store outside the buffer -/
def NoFault {α} (x : R α) : Prop := Post (fun _ => True) x

theorem post_bind {α β} {P : α → Prop} {Q : β → Prop} {x : R α} {f : α → R β}
    (hx : Post P x) (hf : ∀ a, P a → Post Q (f a)) : Post Q (x >>= f) := by
  cases x with
  | ok a => exact hf a hx
  | ret rv => trivial
  | fault e => exact hx.elim

theorem post_mono {α} {P Q : α → Prop} {x : R α} (hx : Post P x) (h : ∀ a, P a → Q a) : Post Q x := by
  cases x with
  | ok a => exact h a hx
  | ret rv => trivial
  | fault e => exact hx.elim

theorem post_ok {α} {P : α → Prop} {a : α} (h : P a) : Post P (R.ok a) := h
theorem post_pure {α} {P : α → Prop} {a : α} (h : P a) : Post P (pure a : R α) := h
theorem post_ret {α} {P : α → Prop} (rv : Int) : Post P (R.ret rv : R α) := trivial

theorem noFault_iff {α} (x : R α) : NoFault x ↔ ∀ f, x ≠ .fault f := by
  cases x with
  | ok a => exact ⟨fun _ f h => (by cases h), fun _ => trivial⟩
  | ret rv => exact ⟨fun _ f h => (by cases h), fun _ => trivial⟩
  | fault e => exact ⟨fun h => h.elim, fun h => absurd rfl (h e)⟩

/-- the write pointer moved forward by at most `k` inside the same buffer -/
def Grow (b : Buf) (k : Nat) (b' : Buf) : Prop := b'.cap = b.cap ∧ b.pos ≤ b'.pos ∧ b'.pos ≤ b.pos + k

theorem grow_refl (b : Buf) (k : Nat) : Grow b k b := by unfold Grow; omega

theorem Grow.trans {b b1 b2 : Buf} {k l : Nat} (h1 : Grow b k b1) (h2 : Grow b1 l b2) : Grow b (k + l) b2 := by
  unfold Grow at *; omega

theorem grow_app (b : Buf) (l : List Nat) : Grow b l.length (b.app l) := by
  unfold Grow; simp

theorem putbyte_post (b : Buf) (v : Nat) (h : b.pos < b.cap) : Post (Grow b 1) (putbyte b v) := by
  rw [putbyte_ok b v h]; exact grow_app b _

theorem putshort_post (b : Buf) (v : Nat) (h : b.pos + 2 ≤ b.cap) : Post (Grow b 2) (putshort b v) := by
  rw [putshort_ok b v h]; exact grow_app b _

theorem putdata_post (b : Buf) (d : List Nat) (h : b.pos + d.length ≤ b.cap) : Post (Grow b d.length) (putdata b d) := by
  rw [putdata_ok b d h]; exact grow_app b _

theorem rrHead_post (b : Buf) (name ty ttl : Nat) (h : b.pos + 10 ≤ b.cap) : Post (Grow b 10) (rrHead b name ty ttl) := by
  rw [rrHead_ok b name ty ttl h]; exact grow_app b _

theorem checklen_post (buflen : Nat) (b : Buf) (x : Nat) : Post (fun _ => x + b.pos ≤ buflen) (checklen buflen b x) := by
  unfold checklen
  split
  · trivial
  · show x + b.pos ≤ buflen; omega

theorem patchShort_post (b : Buf) (at_ v : Nat) (h : at_ + 1 < b.cap) : Post (Grow b 0) (patchShort b at_ v) := by
  unfold patchShort
  rw [if_pos h]
  show Grow b 0 _
  unfold Grow Buf.pos
  simp

theorem grow_skip (b : Buf) (n : Nat) : Grow b n (b.skip n) := by
  rw [skip_eq]; simpa using grow_app b (List.replicate n 0)

/-! ### putname on ANY host string -/

theorem putLabels_post (ls : List (List Nat)) : ∀ (left : Int) (b : Buf), b.pos + labLen ls ≤ b.cap →
    Post (fun o => ∀ l b', o = some (l, b') → Grow b (labLen ls) b') (putLabels left b ls) := by
  induction ls with
  | nil =>
    intro left b _
    simp only [putLabels]
    intro l b' h
    cases h
    unfold Grow; omega
  | cons w ws ih =>
    intro left b hcap
    simp only [labLen_cons] at hcap
    unfold putLabels
    split
    · intro l b' h; cases h
    · apply post_bind (putbyte_post b _ (by omega))
      intro b1 h1
      apply post_bind (putdata_post b1 w (by unfold Grow at h1; omega))
      intro b2 h2
      have h12 := h1.trans h2
      apply post_mono (ih _ b2 (by unfold Grow at h12; omega))
      intro o ho l b' hob
      have := ho l b' hob
      have := h12.trans this
      simp only [labLen_cons]
      unfold Grow at *; omega

/-- `putname` into a buffer with room for the string, one length byte and the root byte: no store outside, whatever the
labels look like (a piece of more than 63 bytes makes it return -1 with the pointer unchanged) -/
theorem putname_post (b : Buf) (left : Int) (host : List Nat) (h : b.pos + host.length + 2 ≤ b.cap) :
    Post (fun r => Grow b (host.length + 2) r.2) (putname b left host) := by
  have hl := labLen_tokens_le host
  unfold putname
  apply post_bind (putLabels_post (tokens host) left b (by omega))
  intro o ho
  cases o with
  | none => exact post_ok (grow_refl b _)
  | some p =>
    obtain ⟨l, b'⟩ := p
    have hg := ho l b' rfl
    simp only []
    apply post_bind (putbyte_post b' 0 (by unfold Grow at hg; omega))
    intro b'' h''
    apply post_ok
    have := hg.trans h''
    show Grow b _ b''
    unfold Grow at *; omega

/-! ### puttxtbin -/

theorem txtLoop_post : ∀ (fuel : Nat) (b : Buf) (k : Nat) (frm : List Nat) (used : Nat), b.pos + k ≤ b.cap →
    Post (fun r => Grow b k r.2) (txtLoop fuel b (k : Int) frm used)
  | 0, b, k, frm, used, _ => by
    simp only [txtLoop]; exact post_ok (grow_refl b _)
  | fuel + 1, b, k, frm, used, h => by
    unfold txtLoop
    split
    · exact post_ok (grow_refl b _)
    · extract_lets tocopy
      split
      · exact post_ok (grow_refl b _)
      · rename_i hfit
        have hk : tocopy + 1 ≤ k := by omega
        apply post_bind (putbyte_post b _ (by omega))
        intro b1 h1
        have htk : (frm.take tocopy).length ≤ tocopy := by simp [List.length_take]; omega
        apply post_bind (putdata_post b1 (frm.take tocopy) (by unfold Grow at h1; omega))
        intro b2 h2
        have h12 := h1.trans h2
        have hrem : ((k : Int) - 1 - (tocopy : Int)) = ((k - 1 - tocopy : Nat) : Int) := by omega
        rw [hrem]
        apply post_mono (txtLoop_post fuel b2 (k - 1 - tocopy) _ _ (by unfold Grow at h12; omega))
        intro r hr
        have := h12.trans hr
        unfold Grow at *; omega

theorem puttxtbin_post (b : Buf) (k : Nat) (frm : List Nat) (h : b.pos + k ≤ b.cap) :
    Post (fun r => Grow b k r.2) (puttxtbin b (k : Int) frm) := txtLoop_post _ b k frm 0 h

/-! ### the answer branches of `dns_encode(QR_ANSWER)` -/

/-- NULL / PRIVATE / any other type: every store is covered by a `CHECKLEN` — no fault for any buffer -/
theorem ansNull_nf (buflen ty : Nat) (b : Buf) (data : List Nat) (datalen : Nat) (hcap : b.cap = buflen) :
    NoFault (ansNull buflen ty b data datalen) := by
  unfold ansNull NoFault
  apply post_bind (checklen_post buflen b 10)
  intro _ h0
  apply post_bind (rrHead_post b _ _ _ (by omega))
  intro b1 h1
  extract_lets dl
  apply post_bind (checklen_post buflen b1 2)
  intro _ h2
  apply post_bind (putshort_post b1 _ (by unfold Grow at h1; omega))
  intro b2 h2'
  apply post_bind (checklen_post buflen b2 dl)
  intro _ h3
  have hlen : (data.take dl).length ≤ dl := by simp [List.length_take]; omega
  apply post_bind (putdata_post b2 _ (by unfold Grow at h1 h2'; omega))
  intro b3 _
  apply post_bind (checklen_post buflen b3 0)
  intro _ _
  exact post_pure trivial

/-- TXT: no fault when two bytes of room are left behind the record header (the `p += 2` is not covered by a CHECKLEN) -/
theorem ansTxt_nf (buflen ty : Nat) (b : Buf) (data : List Nat) (datalen : Nat) (hcap : b.cap = buflen)
    (hroom : b.pos + 13 ≤ buflen) : NoFault (ansTxt buflen ty b data datalen) := by
  unfold ansTxt NoFault
  apply post_bind (checklen_post buflen b 10)
  intro _ _
  apply post_bind (rrHead_post b _ _ _ (by omega))
  intro b1 h1
  extract_lets startp b2
  have hs : Grow b1 2 b2 := grow_skip b1 2
  have h12 := h1.trans hs
  have hk : ((buflen : Int) - (b2.pos : Int)) = ((buflen - b2.pos : Nat) : Int) := by unfold Grow at h12; omega
  rw [hk]
  apply post_bind (puttxtbin_post b2 (buflen - b2.pos) _ (by unfold Grow at h12; omega))
  intro r hr
  obtain ⟨rv, b3⟩ := r
  replace hr : Grow _ _ b3 := hr
  simp only []
  apply post_bind (checklen_post buflen b3 0)
  intro _ _
  apply post_bind (patchShort_post b3 startp _ (by unfold Grow at h1 hr h12; simp only [startp]; omega))
  intro b4 _
  exact post_pure trivial

/-- CNAME / A: no fault when the host name, two length bytes and the root byte fit behind the record header -/
theorem ansCname_nf (buflen ty : Nat) (b : Buf) (data : List Nat) (hcap : b.cap = buflen)
    (hroom : b.pos + 14 + (DnsEncode.cstr data).length ≤ buflen) : NoFault (ansCname buflen ty b data) := by
  unfold ansCname NoFault
  apply post_bind (checklen_post buflen b 10)
  intro _ _
  apply post_bind (rrHead_post b _ _ _ (by omega))
  intro b1 h1
  extract_lets startp b2
  have hs : Grow b1 2 b2 := grow_skip b1 2
  have h12 := h1.trans hs
  apply post_bind (putname_post b2 _ _ (by unfold Grow at h12; omega))
  intro r hr
  obtain ⟨rv, b3⟩ := r
  replace hr : Grow _ _ b3 := hr
  simp only []
  apply post_bind (checklen_post buflen b3 0)
  intro _ _
  apply post_bind (patchShort_post b3 startp _ (by unfold Grow at h1 hr h12; simp only [startp]; omega))
  intro b4 _
  exact post_pure trivial

/-- what the MX/SRV loop appends at most: per name the record header, preference (weight, port), the name with its root
byte and one length byte more than its dots -/
def mxCost (names : List (List Nat)) : Nat := (names.map (fun nm => nm.length + 20)).sum

theorem mxLoop_post (buflen ty : Nat) (names : List (List Nat)) : ∀ (ancnt : Nat) (b : Buf), b.cap = buflen →
    b.pos + mxCost names ≤ buflen → Post (Grow b (mxCost names)) (DnsEncode.mxLoop buflen ty names ancnt b) := by
  induction names with
  | nil => intro ancnt b _ _; simp only [DnsEncode.mxLoop]; exact post_ok (by unfold Grow; omega)
  | cons nm rest ih =>
    intro ancnt b hcap hroom
    have hc : mxCost (nm :: rest) = nm.length + 20 + mxCost rest := by simp [mxCost]
    rw [hc] at hroom ⊢
    unfold DnsEncode.mxLoop
    apply post_bind (checklen_post buflen b 10)
    intro _ _
    apply post_bind (rrHead_post b _ _ _ (by omega))
    intro b1 h1
    extract_lets startp b2
    have hs : Grow b1 2 b2 := grow_skip b1 2
    have h12 := h1.trans hs
    apply post_bind (checklen_post buflen b2 2)
    intro _ _
    apply post_bind (putshort_post b2 _ (by unfold Grow at h12; omega))
    intro b3 h3
    have h13 := h12.trans h3
    have hsrv : Post (Grow b3 4) (if ty = T_SRV then do
        checklen buflen b3 4
        let b ← putshort b3 10
        putshort b 5060
      else pure b3) := by
      split
      · apply post_bind (checklen_post buflen b3 4)
        intro _ _
        apply post_bind (putshort_post b3 _ (by unfold Grow at h13; omega))
        intro b4 h4
        apply post_mono (putshort_post b4 _ (by unfold Grow at h13 h4; omega))
        intro b5 h5
        exact h4.trans h5
      · exact post_pure (by unfold Grow; omega)
    apply post_bind hsrv
    intro b4 h4
    have h14 := h13.trans h4
    apply post_bind (putname_post b4 _ nm (by unfold Grow at h14; omega))
    intro r hr
    obtain ⟨rv, b5⟩ := r
    replace hr : Grow _ _ b5 := hr
    simp only []
    have h15 := h14.trans hr
    apply post_bind (checklen_post buflen b5 0)
    intro _ _
    apply post_bind (patchShort_post b5 startp _ (by unfold Grow at h1 h15; simp only [startp]; omega))
    intro b6 h6
    have h16 := h15.trans h6
    apply post_mono (ih (ancnt + 1) b6 (by unfold Grow at h16; omega) (by unfold Grow at h16; omega))
    intro b7 h7
    have := h16.trans h7
    unfold Grow at *; omega

theorem ansMx_nf (buflen ty : Nat) (b : Buf) (data : List Nat) (hcap : b.cap = buflen)
    (hroom : b.pos + mxCost (mxNames data) ≤ buflen) : NoFault (ansMx buflen ty b data) := by
  unfold ansMx NoFault
  extract_lets names
  apply post_bind (mxLoop_post buflen ty names 1 b hcap hroom)
  intro b1 _
  exact post_pure trivial

/-! ### `dns_encode(QR_ANSWER)` into a 64 KiB buffer -/

/-- header, question name, type and class: the write pointer is then at most at `18 + |name|` -/
theorem question_post (buflen : Nat) (b0 : Buf) (hpos : b0.pos = 12) (hcap : b0.cap = buflen) (ty : Nat) (qn : List Nat)
    (hfit : 18 + qn.length ≤ buflen) {α} (f : Buf → R α) {Q : α → Prop}
    (hf : ∀ b, b.cap = buflen → b.pos ≤ 18 + qn.length → Post Q (f b)) :
    Post Q (do
      let (_, b) ← putname b0 ((buflen : Int) - b0.pos) qn
      checklen buflen b 4
      let b ← putshort b ty
      let b ← putshort b C_IN
      f b) := by
  apply post_bind (putname_post b0 _ qn (by omega))
  intro r hr
  obtain ⟨rv, b1⟩ := r
  replace hr : Grow _ _ b1 := hr
  simp only []
  apply post_bind (checklen_post buflen b1 4)
  intro _ h4
  apply post_bind (putshort_post b1 _ (by unfold Grow at hr; omega))
  intro b2 h2
  apply post_bind (putshort_post b2 _ (by unfold Grow at hr h2; omega))
  intro b3 h3
  have := (hr.trans h2).trans h3
  exact hf b3 (by unfold Grow at this; omega) (by unfold Grow at this h2 h3; omega)

theorem dnsEncodeAnswer_nf (id ty : Nat) (qn data : List Nat) (datalen : Nat) (hq : qn.length ≤ 255)
    (hbr : ∀ b : Buf, b.cap = 65536 → b.pos ≤ 273 → NoFault (ansBranch 65536 ty b data datalen)) :
    NoFault (dnsEncodeAnswer 65536 id ty qn data datalen) := by
  unfold dnsEncodeAnswer NoFault
  rw [if_neg (by omega)]
  apply question_post 65536 _ rfl rfl ty qn (by omega)
  intro b hcap hpos
  apply post_bind (hbr b hcap (by omega))
  intro r _
  exact post_pure trivial

/-- the names `write_dns_nameenc` builds are legal host names (≤ 253 characters) -/
theorem nameenc_len (td : Td) (htd : TdOk td) (buflen : Nat) (hb : 255 ≤ buflen) (d : List Nat) (hd : IsBytes d) (dn : Nat) :
    (nameenc td buflen d dn).name.length ≤ 253 :=
  (nameenc_shape td htd buflen hb d hd dn).legal.1

theorem cstr_len_le (l : List Nat) : (DnsEncode.cstr l).length ≤ l.length := by
  unfold DnsEncode.cstr
  induction l with
  | nil => simp
  | cons a l ih =>
    simp only [List.takeWhile_cons]
    split
    · simp only [List.length_cons]; omega
    · simp

theorem mxCost_le (names : List (List Nat)) (h : ∀ nm ∈ names, nm.length ≤ 253) : mxCost names ≤ 273 * names.length := by
  induction names with
  | nil => simp [mxCost]
  | cons nm rest ih =>
    have h1 := h nm (by simp)
    have h2 := ih (fun x hx => h x (by simp [hx]))
    simp only [mxCost, List.map_cons, List.sum_cons, List.length_cons] at h2 ⊢
    omega

/-- **`write_dns` never stores outside `buf[64K]`, `cnamebuf[1024]`, `mxbuf[64K]`, `txtbuf[64K]`** — for EVERY question name of
at most 255 characters (any labels), every record type value, every downstream codec byte, every payload of 1..4096 bytes. -/
theorem writeDnsR_nf (td : Td) (htd : TdOk td) (id ty : Nat) (qn data : List Nat) (dn : Nat) (hq : qn.length ≤ 255)
    (hd : IsBytes data) (h1 : 1 ≤ data.length) (h2 : data.length ≤ 4096) :
    NoFault (writeDnsR td id ty qn data dn).2 := by
  unfold writeDnsR
  split
  · rename_i hty
    simp only []
    apply dnsEncodeAnswer_nf _ _ _ _ _ hq
    intro b hcap hpos
    unfold ansBranch
    rw [if_pos hty]
    apply ansCname_nf _ _ _ _ hcap
    have := cstr_len_le ((nameenc td 1024 data dn).name ++ [0])
    have := nameenc_len td htd 1024 (by omega) data hd dn
    simp only [List.length_append, List.length_cons, List.length_nil] at *
    omega
  · rename_i hty
    split
    · rename_i hmx
      have hne : data ≠ [] := by intro h; rw [h] at h1; simp at h1
      have hbuild := mxBuild_eq dn (data.length + 1) td 0 data htd hd hne (by omega) (by omega)
      have hprops := mxItems_props dn (data.length + 1) td data htd hd (by omega) hne
      have hcount := mxItems_length dn (data.length + 1) td data (by omega) hne
      have hnil := mxItems_ne_nil dn data.length td data
      generalize hmb : mxBuild (data.length + 1) td 0 data dn = res at hbuild
      obtain ⟨td', o⟩ := res
      simp only at hbuild
      subst hbuild
      simp only []
      apply dnsEncodeAnswer_nf _ _ _ _ _ hq
      intro b hcap hpos
      unfold ansBranch
      rw [if_neg hty, if_pos hmx]
      apply ansMx_nf _ _ _ _ hcap
      generalize mxItems (data.length + 1) td data dn = items at hprops hcount hnil
      have hleg : ∀ x ∈ items.map (·.1), LegalName x := by
        intro x hx
        simp only [List.mem_map] at hx
        obtain ⟨it, hit, rfl⟩ := hx
        exact (hprops it hit).2
      generalize hns : items.map (·.1) = names at hleg
      have hnl : names.length = items.length := by rw [← hns]; simp
      obtain ⟨d0, dns, rfl⟩ : ∃ d0 dns, names = d0 :: dns := by
        cases names with
        | nil => rw [List.length_nil] at hnl; exact absurd (List.eq_nil_of_length_eq_zero hnl.symm) hnil
        | cons d0 dns => exact ⟨d0, dns, rfl⟩
      have hnames : mxNames (mxPack (d0 :: dns) ++ []) = d0 :: dns := by
        apply mxNames_pack
        intro x hx
        have hl := hleg x hx
        refine ⟨?_, fun c hc => (hl.2.1 c hc).1⟩
        intro he; subst he
        have := hl.2.2 [] (by simp [labels]); simp at this
      rw [List.append_nil] at hnames
      rw [hnames]
      have hc := mxCost_le (d0 :: dns) (fun x hx => (hleg x hx).1)
      have : data.length / 152 ≤ 26 := by omega
      rw [hnl] at hc
      have : 273 * items.length ≤ 273 * 27 := Nat.mul_le_mul_left _ (by omega)
      omega
    · rename_i hmx
      split
      · rename_i htxt
        simp only []
        apply dnsEncodeAnswer_nf _ _ _ _ _ hq
        intro b hcap hpos
        unfold ansBranch
        rw [if_neg hty, if_neg hmx, if_pos htxt]
        exact ansTxt_nf _ _ _ _ _ hcap (by omega)
      · rename_i htxt
        simp only []
        apply dnsEncodeAnswer_nf _ _ _ _ _ hq
        intro b hcap hpos
        unfold ansBranch
        rw [if_neg hty, if_neg hmx, if_neg htxt]
        exact ansNull_nf _ _ _ _ _ hcap

/-! ### the other encoders of the server: `dns_encode_ns_response`, `dns_encode_a_response`, `dns_encode(QR_QUERY)` -/

theorem putAddr_post (b : Buf) (addr : List Nat) (h : b.pos + 4 ≤ b.cap) : Post (Grow b 4) (putAddr b addr) := by
  unfold putAddr
  apply post_bind (putbyte_post b _ (by omega))
  intro b1 h1
  apply post_bind (putbyte_post b1 _ (by unfold Grow at h1; omega))
  intro b2 h2
  apply post_bind (putbyte_post b2 _ (by unfold Grow at h1 h2; omega))
  intro b3 h3
  apply post_mono (putbyte_post b3 _ (by unfold Grow at h1 h2 h3; omega))
  intro b4 h4
  have := ((h1.trans h2).trans h3).trans h4
  unfold Grow at *; omega

theorem dnsEncodeAResponse_nf (id ty : Nat) (qn : List Nat) (dest : Option (List Nat)) (hq : qn.length ≤ 255) :
    NoFault (dnsEncodeAResponse 65536 id ty qn dest) := by
  unfold dnsEncodeAResponse NoFault
  cases dest with
  | none => trivial
  | some addr =>
    simp only []
    rw [if_neg (by omega)]
    apply question_post 65536 _ (by simp [Buf.pos, setCount, header]) rfl ty qn (by omega)
    intro b hcap hpos
    apply post_bind (checklen_post 65536 b 12)
    intro _ _
    apply post_bind (rrHead_post b _ _ _ (by omega))
    intro b1 h1
    apply post_bind (putshort_post b1 _ (by unfold Grow at h1; omega))
    intro b2 h2
    apply post_bind (checklen_post 65536 b2 4)
    intro _ _
    apply post_bind (putAddr_post b2 addr (by unfold Grow at h1 h2; omega))
    intro b3 _
    exact post_pure trivial

theorem dnsEncodeNsResponse_nf (id ty : Nat) (qn top : List Nat) (dest : Option (List Nat)) (hq : qn.length ≤ 255) :
    NoFault (dnsEncodeNsResponse 65536 id ty qn top dest) := by
  unfold dnsEncodeNsResponse NoFault
  rw [if_neg (by omega)]
  split
  · trivial
  · extract_lets dl b0 topname
    split
    · trivial
    · split
      · trivial
      · apply question_post 65536 b0 (by simp [b0, Buf.pos, setCount, header]) rfl ty qn (by omega)
        intro b hcap hpos
        apply post_bind (checklen_post 65536 b 12)
        intro _ _
        apply post_bind (rrHead_post b _ _ _ (by omega))
        intro b1 h1
        apply post_bind (putshort_post b1 _ (by unfold Grow at h1; omega))
        intro b2 h2
        extract_lets nsname
        apply post_bind (checklen_post 65536 b2 5)
        intro _ _
        have h12 := h1.trans h2
        apply post_bind (putbyte_post b2 _ (by unfold Grow at h12; omega))
        intro b3 h3
        have h13 := h12.trans h3
        apply post_bind (putbyte_post b3 _ (by unfold Grow at h13; omega))
        intro b4 h4
        have h14 := h13.trans h4
        apply post_bind (putbyte_post b4 _ (by unfold Grow at h14; omega))
        intro b5 h5
        have h15 := h14.trans h5
        apply post_bind (putshort_post b5 _ (by unfold Grow at h15; omega))
        intro b6 h6
        have h16 := h15.trans h6
        cases dest with
        | none => exact post_pure trivial
        | some addr =>
          simp only []
          apply post_bind (checklen_post 65536 b6 12)
          intro _ _
          apply post_bind (rrHead_post b6 _ _ _ (by unfold Grow at h16; omega))
          intro b7 h7
          have h17 := h16.trans h7
          apply post_bind (putshort_post b7 _ (by unfold Grow at h17; omega))
          intro b8 h8
          have h18 := h17.trans h8
          apply post_bind (checklen_post 65536 b8 4)
          intro _ _
          apply post_bind (putAddr_post b8 addr (by unfold Grow at h18; omega))
          intro b9 _
          exact post_pure trivial

theorem putOpt_post (b : Buf) (h : b.pos + 11 ≤ b.cap) : Post (Grow b 11) (putOpt b) := by
  rw [putOpt_ok b h]; exact grow_app b _

theorem dnsEncodeQuery_nf (id ty : Nat) (edns : Bool) (host : List Nat) (hq : host.length ≤ 255) :
    NoFault (dnsEncodeQuery 65536 id ty edns host) := by
  unfold dnsEncodeQuery dnsEncodeQueryL NoFault
  rw [if_neg (by omega)]
  extract_lets b0 dl
  apply post_bind (putname_post b0 _ host (by simp [b0, Buf.pos, header]; omega))
  intro r hr
  obtain ⟨rv, b1⟩ := r
  replace hr : Grow _ _ b1 := hr
  simp only []
  have hb0 : b0.pos = 12 ∧ b0.cap = 65536 := by simp [b0, Buf.pos, header]
  apply post_bind (checklen_post 65536 b1 4)
  intro _ _
  apply post_bind (putshort_post b1 _ (by unfold Grow at hr; omega))
  intro b2 h2
  have h02 := hr.trans h2
  apply post_bind (putshort_post b2 _ (by unfold Grow at h02; omega))
  intro b3 h3
  have h03 := h02.trans h3
  split
  · apply post_bind (checklen_post 65536 b3 11)
    intro _ _
    apply post_bind (putOpt_post b3 (by unfold Grow at h03; omega))
    intro b4 _
    exact post_pure trivial
  · exact post_pure trivial

end Iodine.C05L
