import IodineModel.Lemmas.SrvC16a
/-
Helper lemmas for C16, part b: the path of a ping / data query from `dispatch` to the duplicate filters.
-/
namespace Iodine.C16L
open Iodine Iodine.Server Iodine.Gen

/-- the query types `tunnel_dns` hands to `handle_null_request` -/
def TunnelType (t : Nat) : Prop :=
  t = T_NULL ∨ t = T_PRIVATE ∨ t = T_CNAME ∨ t = T_A ∨ t = T_MX ∨ t = T_SRV ∨ t = T_TXT

theorem queryDatalen_some_length {q t : List Nat} {d : Nat} (h : Common.queryDatalen q t = some d) :
    3 ≤ q.length := by
  unfold Common.queryDatalen at h
  split at h
  · cases h
  · rename_i hc
    simp at hc
    omega

theorem take_getD_zero (l : List Nat) (n : Nat) (hn : 0 < n) : (l.take n).getD 0 0 = l.getD 0 0 := by
  cases l with
  | nil => simp
  | cons a l =>
    cases n with
    | zero => omega
    | succ n => simp

/-- a name whose first character is neither `n`/`N` nor `w`/`W` and whose type is a tunnel type goes to
`handle_null_request` -/
theorem tunnelDns_null (s : Srv) (q : Query) (dlen : Nat)
    (hd : Common.queryDatalen q.name s.cfg.topdomain = some dlen) (ht : TunnelType q.type)
    (hn : q.name.getD 0 0 ≠ 110 ∧ q.name.getD 0 0 ≠ 78 ∧ q.name.getD 0 0 ≠ 119 ∧ q.name.getD 0 0 ≠ 87) :
    tunnelDns s q = handleNullRequest s q dlen := by
  have hl := queryDatalen_some_length hd
  unfold tunnelDns
  rw [if_neg (by omega), hd]
  simp only []
  rw [if_neg (by intro h; have := h.2.2.1; omega), if_neg (by intro h; have := h.2.2.1; omega)]
  exact if_pos ht

theorem handleNull_ping (s : Srv) (q : Query) (dlen : Nat) (h2 : 2 ≤ dlen)
    (hc : q.name.getD 0 0 = 80 ∨ q.name.getD 0 0 = 112) :
    handleNullRequest s q dlen = handlePing s q (q.name.take (min dlen 512)) := by
  unfold handleNullRequest
  rw [if_neg (by omega)]
  simp only []
  rw [take_getD_zero _ _ (by omega)]
  generalize q.name.getD 0 0 = c at hc ⊢
  rcases hc with hc | hc <;> subst hc <;> simp

theorem handleNull_data (s : Srv) (q : Query) (dlen : Nat) (h2 : 2 ≤ dlen)
    (hc : isHexDigit (q.name.getD 0 0) = true) :
    handleNullRequest s q dlen = handleData s q dlen (q.name.take (min dlen 512)) := by
  unfold handleNullRequest
  rw [if_neg (by omega)]
  simp only []
  rw [take_getD_zero _ _ (by omega)]
  unfold isHexDigit at hc
  simp only [Bool.or_eq_true, Bool.and_eq_true, decide_eq_true_eq] at hc
  have h1 : ¬ (q.name.getD 0 0 = 86 ∨ q.name.getD 0 0 = 118) := by omega
  have h2 : ¬ (q.name.getD 0 0 = 76 ∨ q.name.getD 0 0 = 108) := by omega
  have h3 : ¬ (q.name.getD 0 0 = 73 ∨ q.name.getD 0 0 = 105) := by omega
  have h4 : ¬ (q.name.getD 0 0 = 90 ∨ q.name.getD 0 0 = 122) := by omega
  have h5 : ¬ (q.name.getD 0 0 = 83 ∨ q.name.getD 0 0 = 115) := by omega
  have h6 : ¬ (q.name.getD 0 0 = 79 ∨ q.name.getD 0 0 = 111) := by omega
  have h7 : ¬ (q.name.getD 0 0 = 89 ∨ q.name.getD 0 0 = 121) := by omega
  have h8 : ¬ (q.name.getD 0 0 = 82 ∨ q.name.getD 0 0 = 114) := by omega
  have h9 : ¬ (q.name.getD 0 0 = 78 ∨ q.name.getD 0 0 = 110) := by omega
  have h10 : ¬ (q.name.getD 0 0 = 80 ∨ q.name.getD 0 0 = 112) := by omega
  rw [if_neg h1, if_neg h2, if_neg h3, if_neg h4, if_neg h5, if_neg h6, if_neg h7, if_neg h8, if_neg h9,
    if_neg h10]
  have : isHexDigit (q.name.getD 0 0) = true := by
    unfold isHexDigit
    simp only [Bool.or_eq_true, Bool.and_eq_true, decide_eq_true_eq]
    exact hc
  rw [if_pos this]

/-- the ping handler from the duplicate filters on -/
def pingFilters (s : Srv) (u : Nat) (q : Query) (unpacked : List Nat) : Res :=
  match answerFromDnscache s u q with
  | some e => (s, [e])
  | none =>
  match answerFromQmem q (getUser s u).qmemping (unpacked.take 4) u with
  | some e => (s, [e])
  | none =>
  match rememberDuplicate s u q with
  | some s' => (s', [])
  | none => pingFresh s u q unpacked

/-- the data handler from the duplicate filters on -/
def dataFilters (s : Srv) (u : Nat) (q : Query) (inb : List Nat) : Res :=
  match answerFromDnscache s u q with
  | some e => (s, [e])
  | none =>
  match answerFromQmemData s u q with
  | some e => (s, [e])
  | none =>
  match rememberDuplicate s u q with
  | some s' => (s', [])
  | none => dataFresh s u q inb

theorem handlePing_accepted (s : Srv) (q : Query) (inb : List Nat) (u : Nat) (hid : q.id ≠ 0)
    (hlen : 4 ≤ (Encoding.unpackData Codec.b32 65536 (inb.drop 1)).length)
    (hu : charVal ((Encoding.unpackData Codec.b32 65536 (inb.drop 1)).getD 0 0) = (u : Int))
    (hchk : checkAuthenticatedUserAndIp s (u : Int) q = false) :
    handlePing s q inb = pingFilters s u q (Encoding.unpackData Codec.b32 65536 (inb.drop 1)) := by
  unfold handlePing pingFilters
  rw [if_neg hid]
  simp only []
  rw [if_neg (by omega), hu, hchk]
  simp only [Bool.false_eq_true, if_false, Int.toNat_natCast]
  rfl

theorem handleData_accepted (s : Srv) (q : Query) (dlen : Nat) (inb : List Nat) (u : Nat) (hid : q.id ≠ 0)
    (hlen : 6 ≤ dlen) (hu : hexCode (inb.getD 0 0) = (u : Int))
    (hchk : checkAuthenticatedUserAndIp s (u : Int) q = false) :
    handleData s q dlen inb = dataFilters s u q inb := by
  unfold handleData dataFilters
  rw [if_neg (by omega), if_neg hid]
  simp only []
  rw [hu, hchk]
  simp only [Bool.false_eq_true, if_false, Int.toNat_natCast]
  rfl

end Iodine.C16L
