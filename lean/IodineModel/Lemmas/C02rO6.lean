import IodineModel.Lemmas.C02rO4
/-
C02 / OVERLAPPING transfers, lazy mode, ENDINGS — (E3): BOTH last fragments in flight, four scheduler steps to quiescence
(`e3_step`; the client lemmas are in C02rO4).
-/
namespace Iodine.C02L
open Iodine Iodine.Gen Iodine.World

/-- **(E3)** the last upstream fragment AND the last downstream fragment (of a packet of at least two fragments) are in
flight: after `deliverUp deliverDown deliverDown deliverUp` both packets are on the tun devices, the joint state is quiescent -/
theorem e3_step {P : Par} (hP : P.Ok) {outU frame outD fdf : List Nat} {w : W} {c0 : Client.Cli} {ou fu : Nat} {sq : Int} {od D fd : Nat}
    (h : BothFlightL P outU outD w c0 ou fu sq od D fd) (houtU : outU = 0x5a :: frame) (houtD : outD = 0x5a :: fdf)
    (h64u : outU.length ≤ 65536) (h64d : outD.length ≤ 65536)
    (heqU : ou + fragLen P (outU.drop ou) = outU.length) (h24 : 24 ≤ frame.length)
    (hdst : Server.ipDst frame ≠ (Server.getUser w.srv P.u).tunIp)
    (heqD : od + D = outD.length) (hnd : D < outD.length) (h4 : 4 ≤ fdf.length) (hfd : fd < 16) :
    ∃ w', promptSteps P.u 4 w = some w' ∧ QuietLazy P w' ∧ w'.cs.c.sendPingSoon = 0 ∧
      w'.tunS = w.tunS ++ [[0, 0, 8, 0] ++ frame.drop 4] ∧ w'.tunC = w.tunC ++ [tunImage fdf] ∧
      (Server.getUser w'.srv P.u).tunIp = (Server.getUser w.srv P.u).tunIp ∧
      (Server.getUser w'.srv P.u).fragsize = (Server.getUser w.srv P.u).fragsize := by
  have hfd0 : fd ≠ 0 := by
    intro h0
    rcases h.exp with ⟨_, h2, _⟩ | ⟨h1, _⟩
    · omega
    · exact h1 h0
  obtain ⟨name, hsend, hm1, hm2, hQ⟩ := send_readyL hP h.ready
  generalize hm : fragLen P (outU.drop ou) = m at *
  have hlast : (m == outU.length - ou) = true := by
    rw [beq_iff_eq]; omega
  rw [hlast] at hQ
  have hsf := sentFactsL c0
  have hsi := sentIdsL c0
  have hcst := cstat_sentL h.ready
  have hup : w.up = [.query (sentState c0).chunkid P.ty name] := by rw [h.up, hsend]; rfl
  have hsqn : c0.outpkt.seqno.toNat < 8 := by have := h.ready.stat.oseq; omega
  have hsqc : ((c0.outpkt.seqno.toNat : Nat) : Int) = c0.outpkt.seqno := by have := h.ready.stat.oseq; omega
  obtain ⟨dname, pkt, hdn, hnd, hfp, hst⟩ := h.down
  have hsqr := h.hsq
  have hDpos0 := h.hD
  have hop : (Server.getUser w.srv P.u).outpacket = ⟨outD.length, D, od, outD, sq, (fd : Int)⟩ ∧ D < outD.length := by
    rcases h.op with h1 | ⟨_, h2, _, h4⟩
    · exact h1
    · omega
  have hfl : FragPkt pkt outD sq od D fd true := by
    have : decide (outD.length > 0 ∧ outD.length = od + D) = true := by
      rw [decide_eq_true_iff]; omega
    rw [this] at hfp; exact hfp
  -- step 1: the server receives the data fragment and answers it at once with a duplicate of `fd`
  have hstale : c0.inpkt.seqno ≠ sq ∨ c0.inpkt.fragment ≠ (fd : Int) := by
    have hi := h.ready.stat.iseq
    rcases h.exp with ⟨_, _, j, hj1, hj2, hj⟩ | ⟨_, _, hfr, _⟩
    · left; omega
    · right; omega
  obtain ⟨s1, evs1, t1, pkt1, hit1, hdown1, htun1, hS1, hq1', hqs1, hlz1, hoq1, hres1, hout1, hiseq1, hifrag1, htip1, hfrs1, hnow1, hfp1, hus1, huf1, hA1, hPA1⟩ :=
    srv_recv_last_noq_out hP h.srv.stat h.srv hop.1 h.hD h.hDdef h.hle hop.2 (by omega) h.hsq h.ready.stat.cmc h.aged h.paged
      (frame := frame) (o := ou) (m := m) (by rw [← houtU]; exact hQ) hstale
      (by rw [← houtU]; exact h.expect) hsqn h.ready.hf (by rw [← houtU]; exact heqU) (by rw [← houtU]; exact h64u) h24 hdst
  have hq1 : quiet P.u w = false := quiet_false_of_up _ _ _ _ hup
  have hs1 : step w (promptEv w) =
      { w with up := [], srv := s1, down := [.ans c0.chunkid P.ty dname pkt, .ans (sentState c0).chunkid P.ty name pkt1],
               tunS := w.tunS ++ [[0, 0, 8, 0] ++ frame.drop 4] } := by
    rw [promptEv_up w _ _ hup, step_deliverUp w _ _ hup, srvInput_query, stepS_zero { w with up := [] } _ s1 evs1 t1 hit1, hdown1, htun1]
    simp [hdn, upQuery]
  generalize hw2 : ({ w with up := [], srv := s1, down := [.ans c0.chunkid P.ty dname pkt, .ans (sentState c0).chunkid P.ty name pkt1], tunS := w.tunS ++ [[0, 0, 8, 0] ++ frame.drop 4] } : W) = w2 at hs1
  have hw2cs : w2.cs = w.cs := by subst hw2; rfl
  have hw2up : w2.up = [] := by subst hw2; rfl
  have hw2srv : w2.srv = s1 := by subst hw2; rfl
  have hw2down : w2.down = [.ans c0.chunkid P.ty dname pkt, .ans (sentState c0).chunkid P.ty name pkt1] := by subst hw2; rfl
  have hq2 : quiet P.u w2 = false := quiet_false_of_down _ _ _ _ hw2down
  -- step 2: the client receives the first copy of `fd`
  have hcnt2 : CntOk { sentStateL c0 with sendPingSoon := 0 } 2 := hsi.cnt h.ready.cnt
  have huc2 : ({ sentStateL c0 with sendPingSoon := 0 } : Client.Cli).useridChar2 = c0.useridChar2 := sentStateL_uc2 c0
  generalize hc : ({ sentStateL c0 with sendPingSoon := 0 } : Client.Cli) = c at hsf hcst hsi hcnt2 huc2
  have hwc : w.cs = ⟨c, .tunnel⟩ := by rw [cstate_eta w.cs h.ph, h.cli, hc]
  generalize hrq : (Client.Rq.mk (pkt.length : Int) c0.chunkid (answerType P.ty) 0 (dname.headD 0) pkt) = rq
  have hci : cliInput (.ans c0.chunkid P.ty dname pkt) = .rq rq := by subst hrq; rfl
  have hrp : RecvPrevL P c rq pkt := by
    subst hrq
    refine ⟨hcst, hsf.sps, ?_, rfl, rfl, ?_, ?_⟩
    · show Client.notData c (dname.headD 0) = false
      unfold Client.notData at hnd ⊢
      rw [hsf.useridChar, huc2]; exact hnd
    · show Client.recentId c c0.chunkid = true
      unfold Client.recentId
      rw [hsi.prev]; simp
    · show c0.chunkid ≠ c.chunkid
      exact fun e => hsi.ne h.ready.stat.cid e.symm
  have hexp : CExpect c outD sq od fd := by
    have := h.exp
    unfold CExpect at *
    rw [hsf.inpkt]; exact this
  subst houtD
  have hlastp := tunnelDns_last_prev hrp hfl h.hD (by rw [hsf.inpkt]; exact h.dup) hexp h.hsq hfd heqD h64d
    (by rw [hsf.oseq, hsf.ofrag, h.ready.frag]; exact hst)
  generalize hc2 : lastState c (0x5a :: fdf) sq od D fd = c2 at hlastp
  have hc2flat : c2 = { ackBook c with inpkt := { inAfter (ackBook c) (0x5a :: fdf) sq od D fd with len := 0 }, sendPingSoon := 5 } := by
    rw [← hc2]; rfl
  have hc2st : CStatL P c2 := by
    rw [hc2flat]
    exact ⟨hcst.running, hcst.conn, hcst.lz, hcst.uid, hcst.uch, hcst.td, hcst.L, hcst.enc, hcst.ty, hcst.cid, hcst.cmc,
      by show ¬ c.now + 60 < c.now; omega, hcst.oseq, hsqr, by show (0 : Int) ≤ fd ∧ (fd : Int) < 16; omega, hcst.seed⟩
  have hc2cnt : CntOk c2 1 := by
    rw [hc2flat]
    have := ackBook_cnt c hcnt2
    unfold CntOk at *
    exact this
  have hstep2 : Client.cstep w2.cs (.rq rq) = (⟨c2, .tunnel⟩, [Client.writeTun fdf], .sel (Client.selectOf c2)) := by
    rw [hw2cs, hwc, cstep_rq c rq hcst.running hcst.alive hcst.conn, hlastp]
    simp [Client.settle, Client.loopTop, hc2st.running]
  have hs2 : step w2 (promptEv w2) =
      { w2 with down := [.ans (sentState c0).chunkid P.ty name pkt1], cs := ⟨c2, .tunnel⟩, tunC := w2.tunC ++ [tunImage fdf] } := by
    rw [promptEv_down w2 _ _ hw2up hw2down, step_deliverDown w2 _ _ hw2down, hci,
      stepC_of { w2 with down := [.ans (sentState c0).chunkid P.ty name pkt1] } (.rq rq) ⟨c2, .tunnel⟩ [Client.writeTun fdf]
        (.sel (Client.selectOf c2)) (by exact hstep2) (by show c2.now = w2.cs.c.now; rw [hw2cs, hwc, hc2flat]; rfl)]
    rw [tunOfC_writeTun fdf h4]
    have hno : upOfEvents [Client.writeTun fdf] = [] := rfl
    rw [hno]
    simp [hw2up]
  generalize hw3 : ({ w2 with down := [.ans (sentState c0).chunkid P.ty name pkt1], cs := ⟨c2, .tunnel⟩, tunC := w2.tunC ++ [tunImage fdf] } : W) = w3 at hs2
  have hw3srv : w3.srv = s1 := by subst hw3; exact hw2srv
  have hw3up : w3.up = [] := by subst hw3; exact hw2up
  have hw3down : w3.down = [.ans (sentState c0).chunkid P.ty name pkt1] := by subst hw3; rfl
  have hw3cs : w3.cs = ⟨c2, .tunnel⟩ := by subst hw3; rfl
  have hq3 : quiet P.u w3 = false := quiet_false_of_down _ _ _ _ hw3down
  -- step 3: the duplicate, an answer to the client's most recent query, acknowledges the last upstream fragment
  have hc2id : c2.chunkid = (sentState c0).chunkid := by rw [hc2flat]; show c.chunkid = _; exact hsi.cid
  have hc2out : c2.outpkt = c.outpkt := by rw [hc2flat]; rfl
  have hc2in : c2.inpkt = { inAfter (ackBook c) (0x5a :: fdf) sq od D fd with len := 0 } := by rw [hc2flat]
  have hc2sps : c2.sendPingSoon = 5 := by rw [hc2flat]
  have hfp1' : FragPkt pkt1 (0x5a :: fdf) sq od D fd true := by
    have : decide ((0x5a :: fdf).length > 0 ∧ (0x5a :: fdf).length = od + D) = true := by
      rw [decide_eq_true_iff]; omega
    rw [this] at hfp1; exact hfp1
  generalize hid1 : (sentState c0).chunkid = id1 at hw3down hc2id
  generalize hrq4 : (Client.Rq.mk (pkt1.length : Int) id1 (answerType P.ty) 0 (name.headD 0) pkt1) = rq4
  have hci4 : cliInput (.ans id1 P.ty name pkt1) = .rq rq4 := by subst hrq4; rfl
  have hnd4 : Client.notData c2 (name.headD 0) = false := by
    rw [headD_eq_getD]
    exact notData_held hc2st.uch _ (Or.inl hQ.c0)
  have hdupd := tunnelDns_dup_done_cur c2 rq4 pkt1 (by subst hrq4; exact hnd4) (by subst hrq4; rfl) (by subst hrq4; rfl)
    (by subst hrq4; exact hc2id.symm) hc2st.lz (by rw [hfp1'.len]; omega) hfp1'.notbad
    (by rw [hfp1'.hdr.1, hc2in]; rfl) (by rw [hfp1'.hdr.2.1, hc2in]; show (fd : Int) ≤ (fd : Int); omega)
    (by rw [hc2in]; show (fd : Int) ≠ 0; omega)
    (by
      have hlen0 : outU.length ≠ 0 := by have := h.ready.ho; omega
      unfold Client.isSending
      rw [hc2out, hsf.olen, h.ready.len]
      simpa using hlen0)
    (by rw [hus1, hc2out, hsf.oseq]; exact hsqc)
    (by rw [huf1, hc2out, hsf.ofrag, h.ready.frag])
    (by rw [hc2out, hsf.ooff, hsf.osent, hsf.olen, cFragLen_readyL h.ready, hm, h.ready.off, h.ready.len]; omega)
  have hsn : (c2.sendPingSoon != 0) = true := by rw [hc2sps]; rfl
  rw [hsn] at hdupd
  generalize hcd : ackDone { hintBook c2 with sendPingSoon := 500 } = cd at hdupd
  have hcdst : CStatL P cd := by
    subst hcd
    exact ⟨hc2st.running, hc2st.conn, hc2st.lz, hc2st.uid, hc2st.uch, hc2st.td, hc2st.L, hc2st.enc, hc2st.ty, hc2st.cid, hc2st.cmc,
      by show ¬ c2.now + 60 < c2.now; omega, hc2st.oseq, hc2st.iseq, hc2st.ifrag, hc2st.seed⟩
  have hcdcnt0 : CntOk cd 0 := by
    subst hcd
    have := ackBook_cnt' c2 0 hc2cnt
    unfold CntOk at *
    exact this
  have hcdcnt : CntOk cd 1 := by
    unfold CntOk at *
    omega
  have hcdidle : Client.isSending cd = false := by subst hcd; rfl
  have hcdin : cd.inpkt = { inAfter (ackBook c) (0x5a :: fdf) sq od D fd with len := 0 } := by subst hcd; exact hc2in
  have hcdsq : cd.outpkt.seqno = c0.outpkt.seqno := by
    subst hcd; show c2.outpkt.seqno = _; rw [hc2out]; exact hsf.oseq
  have hcdcmc : cd.datacmc = (c0.datacmc + 1) % 36 := by
    subst hcd; show c2.datacmc = _; rw [hc2flat]; show c.datacmc = _; rw [hsf.cmc]
    have := h.ready.stat.cmc
    split <;> omega
  have hcdseed : cd.randSeed = c0.randSeed := by
    subst hcd; show c2.randSeed = _; rw [hc2flat]; show c.randSeed = _; exact hsf.seed
  obtain ⟨name', hset, hpq⟩ := settle_finalPing_now hP hcdst hcdcnt [] (pkt1.length : Int)
  have hpf := pingFactsL cd
  have hstep3 : Client.cstep w3.cs (.rq rq4) =
      (⟨pingStateL cd, .tunnel⟩, [.query (pingStateL cd).chunkid P.ty name'], .sel (Client.selectOf (pingStateL cd))) := by
    rw [hw3cs, cstep_rq c2 rq4 hc2st.running hc2st.alive hc2st.conn, hdupd, hset]
    rfl
  have hs3 : step w3 (promptEv w3) =
      { w3 with down := [], cs := ⟨pingStateL cd, .tunnel⟩, up := [.query (pingStateL cd).chunkid P.ty name'] } := by
    rw [promptEv_down w3 _ _ hw3up hw3down, step_deliverDown w3 _ _ hw3down, hci4,
      stepC_of { w3 with down := [] } (.rq rq4) ⟨pingStateL cd, .tunnel⟩
        [.query (pingStateL cd).chunkid P.ty name'] (.sel (Client.selectOf (pingStateL cd)))
        (by exact hstep3) (by show (pingStateL cd).now = w3.cs.c.now; rw [hpf.now, hw3cs]; subst hcd; rfl)]
    simp [upOfEvents, tunOfCEvents, hw3up]
  generalize hw4 : ({ w3 with down := [], cs := ⟨pingStateL cd, .tunnel⟩, up := [.query (pingStateL cd).chunkid P.ty name'] } : W) = w4 at hs3
  have hw4srv : w4.srv = s1 := by subst hw4; exact hw3srv
  -- step 4: the ping acknowledges the last downstream fragment; the server drops the packet and holds the ping
  have hpq' : PingQ P (upQuery (pingStateL cd).chunkid P.ty name') sq (fd : Int) cd.randSeed := by
    have := hpq
    rw [hcdin] at this
    exact this
  obtain ⟨w5, hs4, hq4, hQL, hsps5, htC5, htS5, hfr5, htip5⟩ :=
    down_hold_lazy_resrO hP (out := 0x5a :: fdf) (w3 := w4) (c2 := cd) (sq := sq) (o := od) (D := D) (f := fd) (name' := name')
      (by subst hw4; rfl) hcdst hcdcnt0 hcdidle (by rw [hcdin]; rfl) (by subst hw4; rfl) (by subst hw4; rfl) hpq'
      (by rw [hw4srv]; exact hS1) (by rw [hw4srv]; exact hq1') (by rw [hw4srv]; exact hqs1) (by rw [hw4srv]; exact hlz1)
      (by rw [hw4srv]; exact hoq1) hsqr h.hD heqD hfd
      (by rw [hw4srv, hout1]; exact Or.inl hop.1)
      (by rw [hw4srv, hiseq1, hcdsq]; exact hsqc)
      (by rw [hw4srv, hcdcmc]; exact hA1) (by rw [hw4srv, hcdseed]; exact hPA1)
  refine ⟨w5, ?_, hQL, hsps5, ?_, ?_, ?_, ?_⟩
  · rw [promptSteps_succ hq1, hs1, promptSteps_succ hq2, hs2, promptSteps_succ hq3, hs3, promptSteps_succ hq4, hs4]
    rfl
  · rw [htS5]; subst hw4; subst hw3; subst hw2; rfl
  · rw [htC5]; subst hw4; subst hw3; subst hw2; rfl
  · rw [htip5, hw4srv, htip1]
  · rw [hfr5, hw4srv, hfrs1]

#print axioms e3_step

end Iodine.C02L
