import IodineModel.Lemmas.C02qB2
/-
C02, phase 2, sub-package "blackout" — part 3: the GIVE-UP RUN, upstream, immediate mode.

`giveup_run_up_imm`: a frame offered to the client in a quiescent (possibly desynchronised) state while every upstream
datagram is lost: after exactly 9 steps of the blackout schedule (`dropUp`, then four times `tickC, dropUp`: three resends
and the give-up ping, all lost) the pair is quiescent again, 4 s later; the server is unchanged except for its clock, nothing
was written to either tun device, the client's `outpkt.seqno` is one further (`du + 1`), and the freshness slack of the
server's duplicate memories has grown by 4 (data-CMC counter) resp. 1 (ping counter).
`giveup_runs_up_imm`: `k` frames in a row.
-/
namespace Iodine.C02L
open Iodine Iodine.Gen Iodine.World

theorem runSched_nine (ev : W → Ev) (w : W) :
    runSched ev 9 w = runSched ev 3 (runSched ev 2 (runSched ev 2 (runSched ev 2 w))) := rfl

/-- four data queries were sent and none remembered -/
theorem Aged.step4 {P : Par} {x : Server.Session} {k sl : Nat} (h : Aged P x k sl) (hk : k < 36) (hsl : sl ≤ 18) :
    Aged P x ((k + 4) % 36) (sl + 4) := by
  have h1 := h.step hk (by omega)
  have h2 := h1.step (Nat.mod_lt _ (by omega)) (by omega)
  have h3 := h2.step (Nat.mod_lt _ (by omega)) (by omega)
  have h4 := h3.step (Nat.mod_lt _ (by omega)) (by omega)
  have e : ((((k + 1) % 36 + 1) % 36 + 1) % 36 + 1) % 36 = (k + 4) % 36 := by omega
  rw [e] at h4
  exact h4

/-- **giveup_run_up_imm.**  (Hypotheses: the frame is acceptable to `tunnel_tun`; the slack leaves room for four more data
queries, `Aged.step` needs `sl ≤ 21` before each; neither 60 s limit is reached within the 4 s: the client's
`lastdownstreamtime` and the server's `lastPkt` are NOT refreshed during the run.  That the schedule's choice is `tickC`
— the client's 1 s against the server's 10 s — is derived, not assumed.) -/
theorem giveup_run_up_imm {P : Par} (hP : P.Ok) {w : W} {du dd sl sp : Nat} (hq : QuietImmDS P du dd sl sp w)
    (frame : List Nat) (hne : frame ≠ []) (hl : frame.length < 65536) (hb : Codec.Bytes frame)
    (hsl : sl ≤ 18) (hsp : sp ≤ 1000)
    (hc : ¬ w.cs.c.lastdownstreamtime + 60 < w.cs.c.now + 4)
    (hs : w.srv.now + 4 < (Server.getUser w.srv P.u).lastPkt + 60) :
    GaveUp P w (runSched blackoutEvUp 9 (step w (.offerC frame))) ∧
    QuietImmDS P ((du + 1) % 8) dd (sl + 4) (sp + 1) (runSched blackoutEvUp 9 (step w (.offerC frame))) := by
  have hS := hq.srv.solo
  have hqs := hq.idle.qs
  have h0 := uplost_offer hP hq frame hne hl hb
  have h1 := uplost_resend hP h0 (by omega) hS hqs (by omega)
  have h2 := uplost_resend hP h1 (by omega) hS hqs (by omega)
  have h3 := uplost_resend hP h2 (by omega) hS hqs (by omega)
  have g := uplost_giveup hP h3 hS hqs hc
  rw [← runSched_nine] at g
  refine ⟨g, ?_⟩
  generalize runSched blackoutEvUp 9 (step w (.offerC frame)) = w' at g
  have hx : Server.getUser w'.srv P.u = Server.getUser w.srv P.u := by rw [g.srv]; rfl
  refine ⟨g.ph, g.cst, g.idleC, g.up, g.down, ?_, ?_, ?_, ?_, ?_, ?_, ?_⟩
  · rw [g.srv]; exact hq.srv.advance 4 hs
  · rw [hx]; exact hq.idle
  · rw [hx]; exact hq.oq
  · rw [hx, g.oseq, hq.syncu]; omega
  · rw [hx, g.inpkt]; exact hq.syncd
  · rw [hx, g.cmc]; exact hq.aged.step4 hq.cst.cmc hsl
  · rw [hx, g.seed]; exact hq.paged.step hq.cst.seed hsp

/-! ### `k` frames in a row -/

/-- offer a frame, run the blackout schedule until the pair is idle again (9 steps), repeat -/
def giveupRunUp : List (List Nat) → W → W
  | [], w => w
  | f :: fs, w => giveupRunUp fs (runSched blackoutEvUp 9 (step w (.offerC f)))

/-- the state after `k` give-up runs, relative to the state `w0` before the first -/
structure GaveUpN (w0 w : W) (k : Nat) : Prop where
  srv : w.srv = { w0.srv with now := w0.srv.now + 4 * k }
  tunS : w.tunS = w0.tunS
  tunC : w.tunC = w0.tunC
  now : w.cs.c.now = w0.cs.c.now + 4 * k
  ldt : w.cs.c.lastdownstreamtime = w0.cs.c.lastdownstreamtime
  cmc : w.cs.c.datacmc = (w0.cs.c.datacmc + 4 * k) % 36
  seed : w.cs.c.randSeed = (w0.cs.c.randSeed + k) % 65536
  inpkt : w.cs.c.inpkt = w0.cs.c.inpkt
  oseq : w.cs.c.outpkt.seqno = (w0.cs.c.outpkt.seqno + k) % 8
  selto : w.cs.c.selecttimeout = w0.cs.c.selecttimeout

theorem GaveUpN.zero {P : Par} {w : W} (hc : CStat P w.cs.c) : GaveUpN w w 0 :=
  ⟨rfl, rfl, rfl, rfl, rfl, by have := hc.cmc; show _ = (_ + 0) % 36; omega,
   by have := hc.seed; show _ = (_ + 0) % 65536; omega, rfl, by have := hc.oseq; show _ = (_ + ((0 : Nat) : Int)) % 8; omega, rfl⟩

theorem GaveUpN.cons {P : Par} {w0 w1 w : W} {k : Nat} (g : GaveUp P w0 w1) (h : GaveUpN w1 w k) : GaveUpN w0 w (k + 1) := by
  refine ⟨?_, h.tunS.trans g.tunS, h.tunC.trans g.tunC, ?_, h.ldt.trans g.ldt, ?_, ?_, h.inpkt.trans g.inpkt, ?_,
    h.selto.trans g.selto⟩
  · rw [h.srv, g.srv]
    show ({ w0.srv with now := w0.srv.now + 4 + 4 * k } : Server.Srv) = { w0.srv with now := w0.srv.now + 4 * (k + 1) }
    have : w0.srv.now + 4 + 4 * k = w0.srv.now + 4 * (k + 1) := by omega
    rw [this]
  · rw [h.now, g.now]; omega
  · rw [h.cmc, g.cmc]; omega
  · rw [h.seed, g.seed]; omega
  · rw [h.oseq, g.oseq]; omega

/-- **giveup_runs_up_imm.**  `k` frames offered one after the other, each followed by its 9 steps of the blackout schedule:
the server is unchanged except for its clock (`4·k` s), nothing was written to either tun device, the client's
`outpkt.seqno` is `k` further, and the slack has grown to `sl + 4·k` resp. `sp + k`.  Time hypothesis: `4·k` seconds of room
on both 60 s limits; slack hypothesis: `sl + 4·k ≤ 22` (the data-CMC counter has period 36 and the longer ring 15 entries:
the invariant cannot express more than 21 un-remembered sends), i.e. from `QuietImm` (`sl = 1`) up to `k = 5` frames. -/
theorem giveup_runs_up_imm {P : Par} (hP : P.Ok) (frames : List (List Nat))
    (hok : ∀ f ∈ frames, f ≠ [] ∧ f.length < 65536 ∧ Codec.Bytes f) :
    ∀ {w : W} {du dd sl sp : Nat}, QuietImmDS P du dd sl sp w →
    sl + 4 * frames.length ≤ 22 → sp + frames.length ≤ 1001 →
    ¬ w.cs.c.lastdownstreamtime + 60 < w.cs.c.now + 4 * frames.length →
    w.srv.now + 4 * frames.length < (Server.getUser w.srv P.u).lastPkt + 60 →
    GaveUpN w (giveupRunUp frames w) frames.length ∧
    QuietImmDS P ((du + frames.length) % 8) dd (sl + 4 * frames.length) (sp + frames.length) (giveupRunUp frames w) := by
  induction frames with
  | nil =>
    intro w du dd sl sp hq _ _ _ _
    exact ⟨GaveUpN.zero hq.cst, hq.mod8⟩
  | cons f fs ih =>
    intro w du dd sl sp hq hsl hsp hc hs
    simp only [List.length_cons] at hsl hsp hc hs ⊢
    obtain ⟨hf1, hf2, hf3⟩ := hok f (List.mem_cons_self ..)
    obtain ⟨g, hq1⟩ := giveup_run_up_imm hP hq f hf1 hf2 hf3 (by omega) (by omega) (by omega) (by omega)
    have hx : Server.getUser (runSched blackoutEvUp 9 (step w (.offerC f))).srv P.u = Server.getUser w.srv P.u := by
      rw [g.srv]; rfl
    obtain ⟨gn, hqn⟩ := ih (fun f' hf' => hok f' (List.mem_cons_of_mem _ hf')) hq1 (by omega) (by omega)
      (by rw [g.ldt, g.now]; omega) (by rw [hx, g.srv]; show w.srv.now + 4 + 4 * fs.length < _; omega)
    refine ⟨GaveUpN.cons g gn, ?_⟩
    have e1 : ((du + 1) % 8 + fs.length) % 8 = (du + (fs.length + 1)) % 8 := by omega
    have e2 : sl + 4 + 4 * fs.length = sl + 4 * (fs.length + 1) := by omega
    have e3 : sp + 1 + fs.length = sp + (fs.length + 1) := by omega
    rw [e1, e2, e3] at hqn
    exact hqn

end Iodine.C02L
