import IodineModel.Lemmas.C02qU5
/-
C02, phase 2 — upstream, immediate mode, from a DESYNCHRONISED quiescent state `QuietImmD P d 0 w` (the client's packet
sequence number is `d` ahead of the server's):
* `d ≤ 3`: the packet is delivered exactly as on the clean path and the numbers are in sync again;
* `4 ≤ d ≤ 6`, or `d = 7` and the server's last fragment number is not 0: the packet is NOT delivered; the client resends
  three times, gives up after 4 s, and the state is `QuietImmD P ((d + 1) % 8) 0`.
-/
namespace Iodine.C02L
open Iodine Iodine.Gen Iodine.World

/-- `offerC` from a quiescent state, whatever the sequence numbers are -/
theorem up_offer_any {P : Par} (hP : P.Ok) {d sl sp : Nat} {w : W} (hq : QuietImmDS P d 0 sl sp w) (frame : List Nat) (hne : frame ≠ [])
    (hl : frame.length < 65536) (hb : Codec.Bytes frame) :
    ∃ w1, step w (.offerC frame) = w1 ∧ w1.cs.ph = .tunnel ∧ CReady P (newPacket w.cs.c frame) (0x5a :: frame) 0 0 ∧
      w1.cs.c = { sentState (newPacket w.cs.c frame) with sendPingSoon := 0 } ∧
      w1.up = upOfEvents (Client.sendChunk (newPacket w.cs.c frame)).evs ∧ w1.down = [] ∧ w1.srv = w.srv ∧
      w1.tunS = w.tunS ∧ w1.tunC = w.tunC := by
  have hcs := cstate_eta w.cs hq.ph
  have hready := newPacket_ready hq.cst frame hl hb
  obtain ⟨name, hsend, _, _, _⟩ := send_ready hP hready
  have hsf := sentFacts (newPacket w.cs.c frame)
  have hsel : tunSelC w = true := by
    unfold tunSelC Client.pending
    rw [hq.ph]
    simp [Client.selectOf, hq.idleC]
  have hstep : Client.cstep w.cs (.tun frame) =
      (⟨{ sentState (newPacket w.cs.c frame) with sendPingSoon := 0 }, .tunnel⟩,
       [] ++ (Client.sendChunk (newPacket w.cs.c frame)).evs,
       .sel (Client.selectOf { sentState (newPacket w.cs.c frame) with sendPingSoon := 0 })) := by
    rw [hcs, cstep_tun w.cs.c frame hq.cst.running hq.cst.alive hq.idleC hne hq.cst.conn]
    rw [settle_afterSend _ _ _ (by rw [hsend]) (by rw [hsend]; have := hsf.running; simpa using this.trans hq.cst.running)]
    rw [hsend]
  have hst : step w (.offerC frame) =
      { w with cs := ⟨{ sentState (newPacket w.cs.c frame) with sendPingSoon := 0 }, .tunnel⟩,
               up := w.up ++ upOfEvents ([] ++ (Client.sendChunk (newPacket w.cs.c frame)).evs),
               tunC := w.tunC ++ tunOfCEvents ([] ++ (Client.sendChunk (newPacket w.cs.c frame)).evs) } := by
    rw [step_offerC w frame hsel, stepC_of w _ _ _ _ hstep (by show _ = w.cs.c.now; exact hsf.now)]
  refine ⟨_, rfl, ?_, hready, ?_, ?_, ?_, ?_, ?_, ?_⟩
  · rw [hst]
  · rw [hst]
  · rw [hst]; show w.up ++ upOfEvents ([] ++ _) = _; rw [hq.up]; rfl
  · rw [hst]; exact hq.down
  · rw [hst]
  · rw [hst]
  · rw [hst]
    show w.tunC ++ tunOfCEvents ([] ++ (Client.sendChunk (newPacket w.cs.c frame)).evs) = w.tunC
    rw [hsend]
    simp [tunOfCEvents]

theorem newPacket_seqno {P : Par} {c : Client.Cli} (hc : CStat P c) (frame : List Nat) :
    (newPacket c frame).outpkt.seqno = (c.outpkt.seqno + 1) % 8 := by
  have := hc.oseq
  exact sChar_small _ (by omega)

/-- **`d ≤ 3`: delivered, and in sync again.** -/
theorem up_packet_imm_desync_ok {P : Par} (hP : P.Ok) {d sl sp : Nat} {w : W} (hq : QuietImmDS P d 0 sl sp w) (hd : d ≤ 3) (frame : List Nat)
    (h24 : 24 ≤ frame.length) (hl : frame.length < 65536) (hb : Codec.Bytes frame)
    (hdst : Server.ipDst frame ≠ (Server.getUser w.srv P.u).tunIp)
    (hg16 : upFrags P (frame.length + 1) (0x5a :: frame) ≤ 16) (hsl : 1 ≤ sl ∧ sl ≤ 21 := by omega) :
    ∃ w', promptSteps P.u (2 * upFrags P (frame.length + 1) (0x5a :: frame) + 1) (step w (.offerC frame)) = some w' ∧
      QuietImmS P sl sp w' ∧
      w'.tunS = w.tunS ++ [tunImage frame] ∧ w'.tunC = w.tunC ∧
      (Server.getUser w'.srv P.u).tunIp = (Server.getUser w.srv P.u).tunIp ∧
      (Server.getUser w'.srv P.u).fragsize = (Server.getUser w.srv P.u).fragsize := by
  have hne : frame ≠ [] := by intro hc; rw [hc] at h24; simp at h24
  obtain ⟨w1, hw1, hph, hready, hcli, hup, hdown, hsrv, ht1, ht2⟩ := up_offer_any hP hq frame hne hl hb
  have hsq := newPacket_seqno hq.cst frame
  have hfl : UpFlightS P sl sp (0x5a :: frame) w1 (newPacket w.cs.c frame) 0 0 := by
    refine ⟨hph, hready, hcli, hup, hdown, by rw [hsrv]; exact hq.srv, by rw [hsrv]; exact hq.idle, by rw [hsrv]; exact hq.oq, ?_,
      ?_, by rw [hsrv]; exact hq.aged, by rw [hsrv]; exact hq.paged⟩
    · left
      refine ⟨rfl, rfl, d + 1, by omega, by omega, ?_⟩
      rw [hsrv, hsq, hq.syncu]
      have := hq.srv.x.iseq
      omega
    · rw [hsrv]
      have h1 := hq.syncd
      have h2 := hq.cst.iseq
      show _ = w.cs.c.inpkt.seqno
      omega
  obtain ⟨w', h1, h2, h3, h4, _, h6, _, _, h9⟩ := up_flight_run hP (by simp; omega) h24 (frame.length + 1) w1 _ 0 0 hfl
    (by simp) (by simpa using hg16) (by rw [hsrv]; exact hdst)
  rw [hw1]
  exact ⟨w', by simpa using h1, h2, by rw [h3, ht1]; rfl, by rw [h4, ht2], by rw [h6, hsrv], by rw [h9, hsrv]⟩

/-- the client's new sequence number falls into the server's window and the server's own numbers are not an acknowledgement
of fragment 0 -/
def DropsUp (x : Server.Session) (d : Nat) : Prop := (4 ≤ d ∧ d ≤ 6) ∨ (d = 7 ∧ 1 ≤ x.inpacket.fragment)

/-- **`d` in the window: NOT delivered; three resends, give-up after 4 s; one further out of step.**  14 scheduler steps. -/
theorem up_packet_imm_desync_drop {P : Par} (hP : P.Ok) {d sl sp : Nat} {w : W} (hq : QuietImmDS P d 0 sl sp w)
    (hd : DropsUp (Server.getUser w.srv P.u) d) (frame : List Nat)
    (hne : frame ≠ []) (hl : frame.length < 65536) (hb : Codec.Bytes frame)
    (hsl : 1 ≤ sl ∧ sl ≤ 21 := by omega) (hsp : 1 ≤ sp ∧ sp ≤ 999 := by omega) :
    ∃ w', promptSteps P.u 14 (step w (.offerC frame)) = some w' ∧
      QuietImmDS P ((d + 1) % 8) 0 sl sp w' ∧ w'.tunS = w.tunS ∧ w'.tunC = w.tunC ∧
      (Server.getUser w'.srv P.u).inpacket = (Server.getUser w.srv P.u).inpacket ∧
      (Server.getUser w'.srv P.u).tunIp = (Server.getUser w.srv P.u).tunIp ∧
      (Server.getUser w'.srv P.u).fragsize = (Server.getUser w.srv P.u).fragsize ∧
      w'.srv.now = w.srv.now + 4 ∧ w'.cs.c.selecttimeout = w.cs.c.selecttimeout := by
  obtain ⟨w1, hw1, hph, hready, hcli, hup, hdown, hsrv, ht1, ht2⟩ := up_offer_any hP hq frame hne hl hb
  have hsq := newPacket_seqno hq.cst frame
  have hxs := hq.srv.x.iseq
  have hxf := hq.srv.x.ifrag
  have hcs := hq.cst.oseq
  have hsy := hq.syncu
  have hsqn : ((newPacket w.cs.c frame).outpkt.seqno.toNat : Int) = (newPacket w.cs.c frame).outpkt.seqno := by
    rw [hsq]; omega
  have hst : UpStuckS P sl sp (0x5a :: frame) w1 (newPacket w.cs.c frame) := by
    refine ⟨hph, hready, hcli, hup, hdown, by rw [hsrv]; exact hq.srv, by rw [hsrv]; exact hq.idle, by rw [hsrv]; exact hq.oq, ?_, ?_,
      ?_, by rw [hsrv]; exact hq.aged, by rw [hsrv]; exact hq.paged⟩
    · rw [hsrv]
      rcases hd with hd | ⟨hd7, hfr⟩
      · exact inWindow_of_ahead hxs 0 hd (by rw [hsqn, hsq, hsy]; omega)
      · exact inWindow_of_same hxf.1 (by rw [hsqn, hsq, hsy]; omega)
    · rw [hsrv, hsq, hsy]
      rcases hd with hd | ⟨hd7, hfr⟩
      · intro hc; omega
      · intro hc; omega
    · rw [hsrv]
      have h1 := hq.syncd
      have h2 := hq.cst.iseq
      show _ = w.cs.c.inpkt.seqno
      omega
  have hr0 : (newPacket w.cs.c frame).outchunkresent = 0 := rfl
  -- round 1
  obtain ⟨wa, ha, hwa, ta1, ta2, ia, ua, fa, na⟩ := stuck_exchange hP hst
  obtain ⟨wb, hb', hsb, tb1, tb2, ib, ub, fb, nb, sb, rb, lb⟩ := stuck_resend hP hwa (by rw [hr0]; omega)
  -- round 2
  obtain ⟨wc, hc, hwc, tc1, tc2, ic, uc, fc, nc⟩ := stuck_exchange hP hsb
  obtain ⟨wd, hd', hsd, td1, td2, id, ud, fd, nd, sd, rd, ld⟩ := stuck_resend hP hwc (by rw [rb, hr0]; omega)
  -- round 3
  obtain ⟨we, he, hwe, te1, te2, ie, ue, fe, ne⟩ := stuck_exchange hP hsd
  obtain ⟨wf, hf', hsf, tf1, tf2, i_f, uf, ff, nf, sf, rf, lf⟩ := stuck_resend hP hwe (by rw [rd, rb, hr0]; omega)
  -- round 4: the give-up
  obtain ⟨wg, hg, hwg, tg1, tg2, ig, ug, fg, ng⟩ := stuck_exchange hP hsf
  obtain ⟨w', hfin, g1, g2, g3, g4, g5, g6, g7, g8, g9, g10, g11, g12, g13, g14, g15, g16, g17, g18, g19, g20, g21, g22, g23⟩ :=
    stuck_giveup hP hwg (by rw [rf, rd, rb, hr0]; omega)
  have hinp : (Server.getUser w'.srv P.u).inpacket = (Server.getUser w.srv P.u).inpacket := by
    rw [g11, ig, i_f, ie, id, ic, ib, ia, hsrv]
  refine ⟨w', ?_, ?_, ?_, ?_, hinp, ?_, ?_, ?_, ?_⟩
  · rw [hw1, ha 12, hb' 11, hc 9, hd' 8, he 6, hf' 5, hg 3, hfin 0]
    rfl
  · refine ⟨g1, g2, g3, g4, g5, g6, g7, g8, ?_, ?_, g13, g14⟩
    · rw [g9, sf, sd, sb, hsq, hinp, hsy]
      omega
    · rw [g12, hwg.syncd, g10]
      have := hwg.ready.stat.iseq
      omega
  · rw [g15, tg1, tf1, te1, td1, tc1, tb1, ta1, ht1]
  · rw [g16, tg2, tf2, te2, td2, tc2, tb2, ta2, ht2]
  · rw [g17, ug, uf, ue, ud, uc, ub, ua, hsrv]
  · rw [g18, fg, ff, fe, fd, fc, fb, fa, hsrv]
  · rw [g19, ng, nf, ne, nd, nc, nb, na, hsrv]
  · rw [g20, lf, ld, lb]; rfl

end Iodine.C02L
