import IodineModel.Lemmas.C02rG1
/-
C02, phase 3, sub-package "gdown" — part 2: the invariant of the downstream give-up run and its three moves.

`down_offerS`: `offerS` from a quiescent state `QuietImmDS P du dd sl sp` (any desynchronisation, any slack).
`DownLost P out sl sp T w0 w sq m r`: relative to the quiescent state `w0` in which the frame was offered, the server has
fragment 0 of the packet `out` (downstream number `sq`) in flight, `m` bytes long (`m = 0`: not sent yet), sent `r` times —
every copy LOST —, and nothing else moved except: the client polled `r` times (`r·T` seconds, its ping counter `r` further),
the server's `lastPkt` follows its clock.
`lost_resend`: a round with `r ≤ 5`; `lost_drop`: the round with `r > 5`.
-/
namespace Iodine.C02L
open Iodine Iodine.Gen Iodine.Server Iodine.World

theorem ackSess_unsentG (x : Session) (a b : Int) (h : x.outpacket.sentlen = 0) : ackSess x a b = x := by
  unfold ackSess
  by_cases h0 : x.outpacket.len = 0
  · rw [if_pos h0]
  · rw [if_neg h0]
    by_cases h1 : x.outpacket.seqno ≠ a ∨ x.outpacket.fragment ≠ b
    · rw [if_pos h1]
    · rw [if_neg h1, if_pos h]

theorem selectOf_idle0G (c : Client.Cli) (hs : Client.isSending c = false) (hsps : c.sendPingSoon = 0) :
    (Client.selectOf c).to = c.selecttimeout * 1000000 := by
  unfold Client.selectOf
  simp [hs, hsps]

/-- the whole seconds an idle client's poll costs: `selecttimeout` -/
theorem poll_secsG (c : Client.Cli) (hs : Client.isSending c = false) (hsps : c.sendPingSoon = 0) :
    ((Client.selectOf c).to / 1000000).toNat = c.selecttimeout.toNat := by
  rw [selectOf_idle0G c hs hsps, Int.mul_ediv_cancel _ (by decide)]

/-! ### the offer -/

/-- `offerS` from a quiescent, possibly desynchronised state: only the server's slot changes — the frame becomes the
outpacket, numbered one after the server's last -/
theorem down_offerS {P : Par} {w : W} {du dd sl sp : Nat} (hq : QuietImmDS P du dd sl sp w) (frame : List Nat)
    (h24 : 24 ≤ frame.length) (hl : frame.length < 65536) (hdst : ipDst frame = (getUser w.srv P.u).tunIp) :
    ∃ s1, step w (.offerS frame) = { w with srv := s1 } ∧ PingSrvG P s1 ∧
      (getUser s1 P.u).outpacket =
        ⟨(0x5a :: frame).length, 0, 0, 0x5a :: frame, ((getUser w.srv P.u).outpacket.seqno + 1) % 8, 0⟩ ∧
      (getUser s1 P.u).outfragresent = 0 ∧ s1.now = w.srv.now ∧
      (getUser s1 P.u).lastPkt = (getUser w.srv P.u).lastPkt ∧
      (getUser s1 P.u).fragsize = (getUser w.srv P.u).fragsize ∧
      (getUser s1 P.u).tunIp = (getUser w.srv P.u).tunIp ∧
      (getUser s1 P.u).inpacket = (getUser w.srv P.u).inpacket ∧
      Aged P (getUser s1 P.u) w.cs.c.datacmc sl ∧ PAged P (getUser s1 P.u) w.cs.c.randSeed sp := by
  have hS := hq.srv
  have hu := hS.solo.lt
  have hsel : tunSelS w = true := tunSelS_idle hS hq.oq
  have htop := topSess_live hS
  generalize hx0 : ({ getUser w.srv P.u with qsNew := false } : Session) = x0 at htop
  have ht : frame.take 65536 = frame := List.take_of_length_le (by omega)
  have hs1 : Solo P.u { putUser w.srv P.u x0 with now := w.srv.now } := (hS.solo.putUser x0).withNow _
  have hg1 : getUser { putUser w.srv P.u x0 with now := w.srv.now } P.u = x0 := by
    rw [getUser_withNow, getUser_putUser_self _ _ _ hu]
  have htt : tunnelTun { putUser w.srv P.u x0 with now := w.srv.now } (frame.take 65536) =
      ({ putUser w.srv P.u (startOut x0 (compress frame) (compress frame).length) with now := w.srv.now }, []) := by
    rw [ht, tunnelTun_start hs1 frame h24 (by
        rw [hg1]; subst hx0
        exact ⟨hS.x.active, hS.x.auth, hS.x.enabled, by show (getUser w.srv P.u).lastPkt + 60 > w.srv.now; have := hS.live; omega, hdst⟩)
      (by rw [hg1]; subst hx0; exact hS.x.conn) (by rw [hg1]; subst hx0; exact hq.idle.out)
      (by rw [hg1]; subst hx0; exact hq.idle.q) (by rw [hg1]; subst hx0; exact hq.idle.qs), hg1]
    rw [putUser_withNow, putUser_putUser]
  generalize hy : startOut x0 (compress frame) (compress frame).length = y at htt
  have hit := iteration_tun hS.solo frame w.srv.now y [] (by exact hsel) (by rw [htop]; exact htt)
  have hyqs : y.qs.id = 0 := by subst hy; subst hx0; exact hq.idle.qs
  have hsw : sweepSess y P.u w.srv.now = (y, []) := by
    unfold sweepSess
    rw [if_neg (by intro hc; exact hc.2.1 hyqs)]
  rw [hsw] at hit
  dsimp only at hit
  have hclen : (compress frame).length = frame.length + 1 := by simp [compress]
  have hyop : y.outpacket = ⟨(0x5a :: frame).length, 0, 0, 0x5a :: frame, ((getUser w.srv P.u).outpacket.seqno + 1) % 8, 0⟩ := by
    subst hy
    unfold startOut
    simp only [hclen, PACKET_DATA_SIZE]
    have h1 : min (frame.length + 1) 65536 = frame.length + 1 := Nat.min_eq_left (Nat.succ_le_of_lt hl)
    rw [h1]
    have h2 : (compress frame).take (frame.length + 1) = 0x5a :: frame := by
      unfold compress
      exact List.take_of_length_le (by simp)
    rw [h2]
    subst hx0
    simp only [List.length_cons]
  have hg : getUser { putUser w.srv P.u y with now := w.srv.now } P.u = y := by
    rw [getUser_withNow, getUser_putUser_self _ _ _ hu]
  refine ⟨{ putUser w.srv P.u y with now := w.srv.now }, ?_, ?_, ?_, ?_, rfl, ?_, ?_, ?_, ?_, ?_, ?_⟩
  · rw [step_offerS w frame hsel, stepS_zero w _ _ _ _ hit]
    simp
  · refine ⟨⟨(hS.solo.putUser y).withNow _, hS.td, ?_, ?_, ?_⟩, ?_, ?_, ?_, ?_⟩
    · rw [hg]
      refine ⟨?_, ?_, ?_, ?_, ?_, ?_, ?_, ?_, ?_⟩
      · subst hy; subst hx0; exact hS.x.active
      · subst hy; subst hx0; exact hS.x.auth
      · subst hy; subst hx0; exact hS.x.enabled
      · subst hy; subst hx0; exact hS.x.conn
      · subst hy; subst hx0; exact hS.x.enc
      · rw [hyop]
        show 0 ≤ ((getUser w.srv P.u).outpacket.seqno + 1) % 8 ∧ ((getUser w.srv P.u).outpacket.seqno + 1) % 8 < 8
        omega
      · rw [hyop]; show (0 : Int) ≤ 0 ∧ (0 : Int) < 16; omega
      · subst hy; subst hx0; exact hS.x.iseq
      · subst hy; subst hx0; exact hS.x.ifrag
    · show _ ∨ ((getUser { putUser w.srv P.u y with now := w.srv.now } P.u).host.fam = 4 ∧ _)
      rw [hg]; subst hy; subst hx0; exact hS.host
    · show w.srv.now < (getUser { putUser w.srv P.u y with now := w.srv.now } P.u).lastPkt + 60
      rw [hg]; subst hy; subst hx0; exact hS.live
    · rw [hg]; subst hy; subst hx0; exact hq.idle.q
    · rw [hg]; exact hyqs
    · rw [hg]; subst hy; subst hx0; exact hq.idle.lazy
    · rw [hg]; subst hy; subst hx0; exact hq.oq
  · rw [hg, hyop]
  · rw [hg]; subst hy; rfl
  · rw [hg]; subst hy; subst hx0; rfl
  · rw [hg]; subst hy; subst hx0; rfl
  · rw [hg]; subst hy; subst hx0; rfl
  · rw [hg]; subst hy; subst hx0; rfl
  · rw [hg]; subst hy; subst hx0; exact hq.aged.congr rfl rfl rfl rfl
  · rw [hg]; subst hy; subst hx0; exact hq.paged.congr rfl rfl rfl rfl

/-! ### the invariant -/

/-- what `n` polls whose answers are all lost leave untouched, relative to `w0`; `T` = whole seconds per poll -/
structure LostPolls (P : Par) (T : Nat) (w0 w : W) (n : Nat) : Prop where
  tunS : w.tunS = w0.tunS
  tunC : w.tunC = w0.tunC
  cnow : w.cs.c.now = w0.cs.c.now + n * T
  snow : w.srv.now = w0.srv.now + n * T
  ldt : w.cs.c.lastdownstreamtime = w0.cs.c.lastdownstreamtime
  cmc : w.cs.c.datacmc = w0.cs.c.datacmc
  seed : w.cs.c.randSeed = (w0.cs.c.randSeed + n) % 65536
  inpkt : w.cs.c.inpkt = w0.cs.c.inpkt
  outpkt : w.cs.c.outpkt = w0.cs.c.outpkt
  selto : w.cs.c.selecttimeout = w0.cs.c.selecttimeout
  fragsize : (getUser w.srv P.u).fragsize = (getUser w0.srv P.u).fragsize
  tunIp : (getUser w.srv P.u).tunIp = (getUser w0.srv P.u).tunIp
  inpacket : (getUser w.srv P.u).inpacket = (getUser w0.srv P.u).inpacket

/-- see the head of the file -/
structure DownLost (P : Par) (out : List Nat) (sl sp T : Nat) (w0 w : W) (sq : Int) (m r : Nat) : Prop where
  ph : w.cs.ph = .tunnel
  cst : CStat P w.cs.c
  idleC : Client.isSending w.cs.c = false
  sps : w.cs.c.sendPingSoon = 0
  up : w.up = []
  down : w.down = []
  srv : PingSrvG P w.srv
  op : (getUser w.srv P.u).outpacket = ⟨out.length, m, 0, out, sq, 0⟩
  res : (getUser w.srv P.u).outfragresent = r
  ne : m = 0 ∨ sq ≠ w.cs.c.inpkt.seqno ∨ (0 : Int) ≠ w.cs.c.inpkt.fragment
  aged : Aged P (getUser w.srv P.u) w.cs.c.datacmc sl
  paged : PAged P (getUser w.srv P.u) w.cs.c.randSeed sp
  live : w.srv.now + T < (getUser w.srv P.u).lastPkt + 60
  fr : LostPolls P T w0 w r

/-- the state after the run: quiescent again (`idle`), `n` polls later -/
structure DownGaveUp (P : Par) (T : Nat) (w0 w : W) (n : Nat) : Prop where
  fr : LostPolls P T w0 w n
  sps : w.cs.c.sendPingSoon = 0
  lp : (getUser w.srv P.u).lastPkt = w.srv.now
  oseq : (getUser w.srv P.u).outpacket.seqno = ((getUser w0.srv P.u).outpacket.seqno + 1) % 8

/-- what a round leaves, before the case distinction on the server's answer -/
structure LostRound (P : Par) (sl sp T : Nat) (w0 w w3 : W) (n : Nat) (x0 : Session) (Q : Query) (s1 : Srv) (pkt : List Nat) :
    Prop where
  ph : w3.cs.ph = .tunnel
  cst : CStat P w3.cs.c
  idleC : Client.isSending w3.cs.c = false
  sps : w3.cs.c.sendPingSoon = 0
  up : w3.up = []
  down : w3.down = []
  hx0 : x0 = { getUser w.srv P.u with qsNew := false }
  id2 : Q.id2 = 0
  slot : getUser w3.srv P.u = pingZ x0 P.u Q w.cs.c.inpkt.seqno w.cs.c.inpkt.fragment s1.now
  ps1 : PingSrvG P s1
  s1u : getUser s1 P.u = getUser w.srv P.u
  s1now : s1.now = w.srv.now + T
  ap : AfterPing P s1 w3.srv Q w.cs.c.inpkt.seqno w.cs.c.inpkt.fragment pkt
  aged : Aged P (getUser w3.srv P.u) w3.cs.c.datacmc sl
  paged : PAged P (getUser w3.srv P.u) w3.cs.c.randSeed sp
  tunS : w3.tunS = w0.tunS
  tunC : w3.tunC = w0.tunC
  cnow : w3.cs.c.now = w0.cs.c.now + (n + 1) * T
  ldt : w3.cs.c.lastdownstreamtime = w0.cs.c.lastdownstreamtime
  cmc : w3.cs.c.datacmc = w0.cs.c.datacmc
  seed : w3.cs.c.randSeed = (w0.cs.c.randSeed + (n + 1)) % 65536
  inpkt : w3.cs.c.inpkt = w0.cs.c.inpkt
  outpkt : w3.cs.c.outpkt = w0.cs.c.outpkt
  selto : w3.cs.c.selecttimeout = w0.cs.c.selecttimeout

/-- the round: poll, answer, loss — three steps of the blackout schedule -/
theorem lost_round_core {P : Par} (hP : P.Ok) {out : List Nat} {sl sp T : Nat} {w0 w : W} {sq : Int} {m r : Nat}
    (h : DownLost P out sl sp T w0 w sq m r) (hT : T = w0.cs.c.selecttimeout.toNat) (hsel : w0.cs.c.selecttimeout ≤ 9)
    (hsp1 : 1 ≤ sp) (hsp : sp ≤ 1000)
    (hexp : ¬ w0.cs.c.lastdownstreamtime + 60 < w0.cs.c.now + (r + 1) * T) :
    ∃ w3 x0 Q s1 pkt, runSched blackoutEvDown 3 w = w3 ∧ LostRound P sl sp T w0 w w3 r x0 Q s1 pkt := by
  have hsecs : ((Client.selectOf w.cs.c).to / 1000000).toNat = T := by
    rw [poll_secsG _ h.idleC h.sps, h.fr.selto, hT]
  have hto : (Client.selectOf w.cs.c).to < 10000000 := by
    rw [selectOf_idle0G _ h.idleC h.sps, h.fr.selto]; omega
  obtain ⟨w3, c1, s1, s', name, pkt, hrun, hpl⟩ := black_roundG hP h.ph h.cst h.idleC h.up h.down h.srv hto
    (by rw [hsecs, h.fr.ldt, h.fr.cnow]; intro hc; apply hexp; rw [Nat.add_mul]; omega)
    (by rw [hsecs]; exact h.live) hsp1 hsp h.aged h.paged
  have hc1fr : c1 = { w.cs.c with now := c1.now } := by rw [hpl.hc1]; rfl
  have hc1now : c1.now = w.cs.c.now + T := by rw [hpl.hc1, advanceClock_now, hsecs]
  have hs1u : getUser s1 P.u = getUser w.srv P.u := by rw [hpl.hs1]; rfl
  have hpf := pingFacts c1
  have hcst := cstat_pingState hpl.c1st
  have hw3cs : w3.cs = ⟨pingState c1, .tunnel⟩ := by rw [hpl.hw3]
  have hw3c : w3.cs.c = pingState c1 := by rw [hw3cs]
  have hw3srv : w3.srv = s' := by rw [hpl.hw3]
  refine ⟨w3, { getUser w.srv P.u with qsNew := false }, upQuery (pingState c1).chunkid P.ty name, s1, pkt, hrun,
    ?_, ?_, ?_, ?_, ?_, ?_, rfl, rfl, ?_, hpl.ps1, hs1u, ?_, ?_, ?_, ?_, ?_, ?_, ?_, ?_, ?_, ?_, ?_, ?_, ?_⟩
  · rw [hw3cs]
  · rw [hw3c]; exact hcst
  · rw [hw3c]; unfold Client.isSending; rw [hpf.outpkt, hc1fr]; exact h.idleC
  · rw [hw3c]; exact hpf.sps
  · rw [hpl.hw3]
  · rw [hpl.hw3]
  · rw [hw3srv, afterPing_slot hpl.ap, hs1u]
  · rw [hpl.hs1, hsecs]
  · rw [hw3srv]; exact hpl.ap
  · rw [hw3srv, hw3c, hpf.datacmc, hc1fr]; exact hpl.aged
  · rw [hw3srv, hw3c, hpf.seed, hc1fr]; exact hpl.paged
  · rw [hpl.hw3]; exact h.fr.tunS
  · rw [hpl.hw3]; exact h.fr.tunC
  · rw [hw3c, hpf.now, hc1now, h.fr.cnow, Nat.add_mul]; omega
  · rw [hw3c, hpf.ldt, hc1fr]; exact h.fr.ldt
  · rw [hw3c, hpf.datacmc, hc1fr]; exact h.fr.cmc
  · rw [hw3c, hpf.seed, hc1fr]
    show (w.cs.c.randSeed + 1) % 65536 = _
    rw [h.fr.seed]; omega
  · rw [hw3c, hpf.inpkt, hc1fr]; exact h.fr.inpkt
  · rw [hw3c, hpf.outpkt, hc1fr]; exact h.fr.outpkt
  · rw [hw3c, hpf.selto, hc1fr]; exact h.fr.selto

/-- the frame part of the invariant after the round, given what `afterPing_stat'` says of the new slot -/
theorem LostRound.polls {P : Par} {sl sp T : Nat} {w0 w w3 : W} {n : Nat} {x0 : Session} {Q : Query} {s1 : Srv} {pkt : List Nat}
    (g : LostRound P sl sp T w0 w w3 n x0 Q s1 pkt) (f : LostPolls P T w0 w n)
    (hfs : (getUser w3.srv P.u).fragsize = (getUser s1 P.u).fragsize)
    (hin : (getUser w3.srv P.u).inpacket = (getUser s1 P.u).inpacket)
    (htip : (getUser w3.srv P.u).tunIp = (getUser s1 P.u).tunIp) (hnow : w3.srv.now = s1.now) :
    LostPolls P T w0 w3 (n + 1) :=
  ⟨g.tunS, g.tunC, g.cnow, by rw [hnow, g.s1now, f.snow, Nat.add_mul]; omega, g.ldt, g.cmc, g.seed, g.inpkt, g.outpkt, g.selto,
    by rw [hfs, g.s1u]; exact f.fragsize, by rw [htip, g.s1u]; exact f.tunIp, by rw [hin, g.s1u]; exact f.inpacket⟩

/-! ### the two kinds of round -/

/-- A round with the resend counter at most 5: fragment 0 goes out (once more) and is lost.  A packet of ONE fragment
(`D = out.length`) is forgotten by the server at once: quiescent; otherwise the fragment stays in flight, sent `r + 1` times. -/
theorem lost_resend {P : Par} (hP : P.Ok) {out : List Nat} {sl sp T : Nat} {w0 w : W} {sq : Int} {m r : Nat}
    (h : DownLost P out sl sp T w0 w sq m r) (hT : T = w0.cs.c.selecttimeout.toNat) (hsel : w0.cs.c.selecttimeout ≤ 9)
    (hsp1 : 1 ≤ sp) (hsp : sp ≤ 1000) (hr : r ≤ 5) (hL : 0 < out.length) (hsq : 0 ≤ sq ∧ sq < 8)
    (hF : 0 < (getUser w0.srv P.u).fragsize)
    (hnext : sq ≠ w0.cs.c.inpkt.seqno ∨ (0 : Int) ≠ w0.cs.c.inpkt.fragment ∨ downLen (getUser w0.srv P.u).fragsize out.length = out.length)
    (hexp : ¬ w0.cs.c.lastdownstreamtime + 60 < w0.cs.c.now + (r + 1) * T) (hT60 : T < 60) :
    ∃ D w3, D = downLen (getUser w0.srv P.u).fragsize out.length ∧ runSched blackoutEvDown 3 w = w3 ∧
      (D < out.length → DownLost P out sl sp T w0 w3 sq D (r + 1)) ∧
      (D = out.length → LostPolls P T w0 w3 (r + 1) ∧ w3.cs.ph = .tunnel ∧ CStat P w3.cs.c ∧ Client.isSending w3.cs.c = false ∧
        w3.cs.c.sendPingSoon = 0 ∧ w3.up = [] ∧ w3.down = [] ∧ PingSrvG P w3.srv ∧
        (getUser w3.srv P.u).outpacket.len = 0 ∧ (getUser w3.srv P.u).outpacket.seqno = sq ∧
        (getUser w3.srv P.u).lastPkt = w3.srv.now ∧
        Aged P (getUser w3.srv P.u) w3.cs.c.datacmc sl ∧ PAged P (getUser w3.srv P.u) w3.cs.c.randSeed sp) := by
  obtain ⟨w3, x0, Q, s1, pkt, hrun, g⟩ := lost_round_core hP h hT hsel hsp1 hsp hexp
  have hx0op : x0.outpacket = ⟨out.length, m, 0, out, sq, 0⟩ := by rw [g.hx0]; exact h.op
  have hack : ackSess x0 w.cs.c.inpkt.seqno w.cs.c.inpkt.fragment = x0 := by
    rcases h.ne with h0 | h1
    · exact ackSess_unsentG x0 _ _ (by rw [hx0op]; exact h0)
    · exact ackSess_mismatch x0 _ _ (by rw [hx0op]; exact h1)
  obtain ⟨D, hDdef, hzo, hzr, hDpos, hDle, _⟩ := pingZ_resendD x0 P.u Q w.cs.c.inpkt.seqno w.cs.c.inpkt.fragment s1.now out sq m
    g.id2 (by rw [g.hx0]; exact h.srv.oq) (by rw [g.hx0]; show (getUser w.srv P.u).outfragresent ≤ 5; rw [h.res]; exact hr)
    hx0op hack hL (by rw [g.hx0]; show 0 < (getUser w.srv P.u).fragsize; rw [h.fr.fragsize]; exact hF)
  have hfs : x0.fragsize = (getUser w0.srv P.u).fragsize := by rw [g.hx0]; exact h.fr.fragsize
  have hx0res : x0.outfragresent = r := by rw [g.hx0]; exact h.res
  rw [hfs] at hDdef
  rw [hx0res] at hzr
  rw [← g.slot] at hzo hzr
  have hos : 0 ≤ (getUser w3.srv P.u).outpacket.seqno ∧ (getUser w3.srv P.u).outpacket.seqno < 8 := by
    rw [hzo]; split <;> exact hsq
  have hof : 0 ≤ (getUser w3.srv P.u).outpacket.fragment ∧ (getUser w3.srv P.u).outpacket.fragment < 16 := by
    rw [hzo]; split <;> (show (0 : Int) ≤ 0 ∧ (0 : Int) < 16; omega)
  obtain ⟨hps, hfs', hin', htun', _, hlp, hnow'⟩ := afterPing_stat' g.ps1 g.id2 g.ap hos hof
  have hfr := g.polls h.fr hfs' hin' htun' hnow'
  refine ⟨D, w3, hDdef, hrun, ?_, ?_⟩
  · intro hlt
    rw [if_neg (by omega)] at hzo hzr
    refine ⟨g.ph, g.cst, g.idleC, g.sps, g.up, g.down, hps, hzo, hzr, ?_, g.aged, g.paged, by rw [hlp]; omega, hfr⟩
    rw [g.inpkt]
    rcases hnext with h1 | h1 | h1
    · exact Or.inr (Or.inl h1)
    · exact Or.inr (Or.inr h1)
    · omega
  · intro heq
    rw [if_pos heq] at hzo hzr
    exact ⟨hfr, g.ph, g.cst, g.idleC, g.sps, g.up, g.down, hps, by rw [hzo], by rw [hzo], hlp, g.aged, g.paged⟩

/-- The round in which the resend counter is above 5: the server DROPS the packet and answers without data — lost too. -/
theorem lost_drop {P : Par} (hP : P.Ok) {out : List Nat} {sl sp T : Nat} {w0 w : W} {sq : Int} {m r : Nat}
    (h : DownLost P out sl sp T w0 w sq m r) (hT : T = w0.cs.c.selecttimeout.toNat) (hsel : w0.cs.c.selecttimeout ≤ 9)
    (hsp1 : 1 ≤ sp) (hsp : sp ≤ 1000) (hr : 5 < r) (hm : m ≠ 0) (hsq : 0 ≤ sq ∧ sq < 8)
    (hexp : ¬ w0.cs.c.lastdownstreamtime + 60 < w0.cs.c.now + (r + 1) * T) :
    ∃ w3, runSched blackoutEvDown 3 w = w3 ∧
      LostPolls P T w0 w3 (r + 1) ∧ w3.cs.ph = .tunnel ∧ CStat P w3.cs.c ∧ Client.isSending w3.cs.c = false ∧
        w3.cs.c.sendPingSoon = 0 ∧ w3.up = [] ∧ w3.down = [] ∧ PingSrvG P w3.srv ∧
        (getUser w3.srv P.u).outpacket.len = 0 ∧ (getUser w3.srv P.u).outpacket.seqno = sq ∧
        (getUser w3.srv P.u).lastPkt = w3.srv.now ∧
        Aged P (getUser w3.srv P.u) w3.cs.c.datacmc sl ∧ PAged P (getUser w3.srv P.u) w3.cs.c.randSeed sp := by
  obtain ⟨w3, x0, Q, s1, pkt, hrun, g⟩ := lost_round_core hP h hT hsel hsp1 hsp hexp
  have hx0op : x0.outpacket = ⟨out.length, m, 0, out, sq, 0⟩ := by rw [g.hx0]; exact h.op
  have hack : ackSess x0 w.cs.c.inpkt.seqno w.cs.c.inpkt.fragment = x0 := by
    rcases h.ne with h0 | h1
    · exact absurd h0 hm
    · exact ackSess_mismatch x0 _ _ (by rw [hx0op]; exact h1)
  have hx0res : x0.outfragresent = r := by rw [g.hx0]; exact h.res
  obtain ⟨yy, hzo, hyl, hys, hyf, _, _, _⟩ := pingZ_dataless x0 P.u Q w.cs.c.inpkt.seqno w.cs.c.inpkt.fragment s1.now
    g.id2 (by rw [g.hx0]; exact h.srv.oq) hack (Or.inr (by rw [hx0res]; exact hr))
  rw [← g.slot] at hzo
  rw [hx0op] at hys hyf
  have hos : 0 ≤ (getUser w3.srv P.u).outpacket.seqno ∧ (getUser w3.srv P.u).outpacket.seqno < 8 := by
    rw [hzo, hys]; exact hsq
  have hof : 0 ≤ (getUser w3.srv P.u).outpacket.fragment ∧ (getUser w3.srv P.u).outpacket.fragment < 16 := by
    rw [hzo, hyf]; show (0 : Int) ≤ 0 ∧ (0 : Int) < 16; omega
  obtain ⟨hps, hfs', hin', htun', _, hlp, hnow'⟩ := afterPing_stat' g.ps1 g.id2 g.ap hos hof
  exact ⟨w3, hrun, g.polls h.fr hfs' hin' htun' hnow', g.ph, g.cst, g.idleC, g.sps, g.up, g.down, hps, by rw [hzo]; exact hyl,
    by rw [hzo]; exact hys, hlp, g.aged, g.paged⟩

end Iodine.C02L
