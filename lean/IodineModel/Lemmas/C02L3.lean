import IodineModel.Lemmas.C02L2
/-
C02 / lazy mode, upstream — server side on the slot: what the data handler does with a fresh data query when nothing is to
be sent downstream and ONE query of the client is held in `q` (lazy mode between two queries).
-/
namespace Iodine.C02L
open Iodine Iodine.Gen Iodine.Server

/-- the slot is idle in the downstream direction and holds exactly one query, in `q` (lazy mode between two queries) -/
structure IdleLazy (x : Session) : Prop where
  out : x.outpacket.len = 0
  q : x.q.id ≠ 0
  q2 : x.q.id2 = 0
  qs : x.qs.id = 0
  lazy : x.lazy = true

/-- a fragment that is not the last one: stored; the HELD query is answered at once with a dataless packet that
acknowledges the new fragment and is remembered; the new query is held -/
theorem dataSess_lazy_mid (x : Session) (u : Nat) (Q : Query) (h : UpHdr) (payload : List Nat) (now : Nat) (I : Packet)
    (hi : IdleLazy x) (hlast : h.last = false)
    (hup : dataUpstream x h.upSeq h.upFrag = ({ x with inpacket := I }, true)) :
    dataSess x u Q h payload now =
      (let y := stored x I payload
       (saveQ { cacheUpd (qmemUpd y x.q) x.q (scPkt y 0) with q := { x.q with id := 0 } } Q now,
        [writeDns x.q (scPkt y 0) y.downenc (.chunk u)])) := by
  obtain ⟨h1, h2, h2', h3, h4⟩ := hi
  unfold dataSess
  rw [dataASess_accept x h payload I h1 hup]
  simp only [hlast, Bool.false_eq_true, and_false, if_false]
  have hstq : (stored x I payload).q = x.q := rfl
  have e1 : stepQsSess (stored x I payload) u = ((stored x I payload, []), false) := by
    simp [stepQsSess, stored, dataStore, h3]
  rw [e1]
  simp only
  have e2 : stepQSess (stored x I payload) u true false false =
      ((scSess (stored x I payload) u .q).1, !(scSess (stored x I payload) u .q).2) := by
    unfold stepQSess
    rw [if_pos (by rw [hstq]; exact h2), if_pos (by simp)]
  rw [e2, scSess_dataless _ _ _ (by simp [stored, dataStore, h1]) (by simp [QSel.get, hstq, h2'])]
  simp only [QSel.get, QSel.set, hstq, Bool.not_false]
  generalize hY : ({ cacheUpd (qmemUpd (stored x I payload) x.q) x.q (scPkt (stored x I payload) 0) with
      q := { x.q with id := 0 } } : Session) = Y
  have hYc : core Y = core { stored x I payload with q := { x.q with id := 0 } } := by
    subst hY
    have := core_memo (stored x I payload) x.q (scPkt (stored x I payload) 0)
    unfold core at this ⊢
    simp only [Session.mk.injEq] at this ⊢
    simp [this]
  have hYl : Y.lazy = true := by
    have := core_lazy hYc
    rw [this]; exact h4
  have e3 : stepFinalSess (saveQ Y Q now) u true false true = (saveQ Y Q now, []) := by
    simp [stepFinalSess, saveQ, hYl]
  rw [e3]
  simp

/-- the last fragment: stored, the packet handed on; the HELD query is moved to `q_sendrealsoon` (answered by the next
iteration's sweep), the new query is held; nothing is sent -/
theorem dataSess_lazy_last (x : Session) (u : Nat) (Q : Query) (h : UpHdr) (payload : List Nat) (now : Nat) (I : Packet)
    (hi : IdleLazy x) (hlast : h.last = true)
    (hup : dataUpstream x h.upSeq h.upFrag = ({ x with inpacket := I }, true)) :
    dataSess x u Q h payload now =
      (saveQ (parkQ (fullSess (stored x I payload))) Q now, fullEvs (stored x I payload)) := by
  obtain ⟨h1, h2, h2', h3, h4⟩ := hi
  unfold dataSess
  rw [dataASess_accept x h payload I h1 hup]
  simp only [hlast, and_self, if_true]
  have e1 : stepQsSess (fullSess (stored x I payload)) u = ((fullSess (stored x I payload), []), false) := by
    simp [stepQsSess, fullSess, stored, dataStore, h3]
  rw [e1]
  simp only
  have e2 : stepQSess (fullSess (stored x I payload)) u true true false = ((parkQ (fullSess (stored x I payload)), []), true) := by
    unfold stepQSess
    rw [if_pos (by exact h2), if_neg (by simp [fullSess, stored, dataStore, h1, h4])]
  rw [e2]
  simp only
  have e3 : stepFinalSess (saveQ (parkQ (fullSess (stored x I payload))) Q now) u true true true =
      (saveQ (parkQ (fullSess (stored x I payload))) Q now, []) := by
    simp [stepFinalSess, saveQ, parkQ, fullSess, stored, dataStore, h4]
  rw [e3]
  simp

end Iodine.C02L
