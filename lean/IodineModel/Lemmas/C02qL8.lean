import IodineModel.Lemmas.C02qL7
/-
C02 phase 2 / upstream, lazy mode — NON-VACUITY of the desynchronised theorems and the finding as a theorem about a concrete
session (`desync_drops_new_packets_lazy`).

`desyncUp u w d f` turns a synchronised quiescent state into the state after `d` upstream packets were given up unseen:
the client's `outpkt.seqno` is moved on by `d`; and the server's `inpacket.fragment` (the fragment number of the last
fragment it stored) is set to `f`.  Every `QuietLazy` state gives `QuietLazyD … d 0` states this way (`quietLazyD_desyncUp`).
-/
namespace Iodine.C02L
open Iodine Iodine.Gen Iodine.World

def desyncUp (u : Nat) (w : W) (d : Nat) (f : Int) : W :=
  { w with
    cs := { w.cs with c := { w.cs.c with outpkt := { w.cs.c.outpkt with seqno := (w.cs.c.outpkt.seqno + d) % 8 } } },
    srv := putUser w.srv u
      { Server.getUser w.srv u with inpacket := { (Server.getUser w.srv u).inpacket with fragment := f } } }

theorem quietLazyD_desyncUp {P : Par} {w : W} (hq : QuietLazy P w) (d : Nat) (f : Int) (hf : 0 ≤ f ∧ f < 16) :
    QuietLazyD P d 0 (desyncUp P.u w d f) := by
  have hg : Server.getUser (desyncUp P.u w d f).srv P.u =
      { Server.getUser w.srv P.u with inpacket := { (Server.getUser w.srv P.u).inpacket with fragment := f } } :=
    getUser_putUser_self _ _ _ hq.srv.solo.lt
  have hc := hq.cst
  have hx := hq.srv.x
  refine ⟨hq.ph, ?_, ?_, hq.idleC, hq.up, hq.down, ?_, ?_, ?_, ?_, ?_, ?_, ?_, ?_⟩
  · exact ⟨hc.running, hc.conn, hc.lz, hc.uid, hc.uch, hc.td, hc.L, hc.enc, hc.ty, hc.cid, hc.cmc, hc.alive,
      by show 0 ≤ (w.cs.c.outpkt.seqno + (d : Int)) % 8 ∧ (w.cs.c.outpkt.seqno + (d : Int)) % 8 < 8; omega,
      hc.iseq, hc.ifrag, hc.seed⟩
  · have := hq.cnt
    unfold CntOk at *
    exact this
  · refine ⟨hq.srv.solo.putUser _, hq.srv.td, ?_, ?_, ?_⟩
    · rw [hg]
      exact ⟨hx.active, hx.auth, hx.enabled, hx.conn, hx.enc, hx.oseq, hx.ofrag, hx.iseq, hf⟩
    · rw [hg]; exact hq.srv.host
    · rw [hg]; exact hq.srv.live
  · rw [hg]; exact ⟨hq.idle.out, hq.idle.q, hq.idle.q2, hq.idle.qs, hq.idle.lazy⟩
  · rw [hg]; exact hq.oq
  · rw [hg]; exact hq.held
  · rw [hg]; exact hq.heldid
  · rw [hg]
    show (w.cs.c.outpkt.seqno + (d : Int)) % 8 = ((Server.getUser w.srv P.u).inpacket.seqno + (d : Int)) % 8
    rw [hq.syncu]
  · rw [hg]
    show (Server.getUser w.srv P.u).outpacket.seqno = (w.cs.c.inpkt.seqno + ((0 : Nat) : Int)) % 8
    rw [hq.syncd]
    have := hc.iseq
    omega
  · rw [hg]
    exact hq.mem.congr rfl rfl rfl rfl rfl rfl

theorem desyncUp_tunIp {P : Par} {w : W} (hq : QuietLazy P w) (d : Nat) (f : Int) :
    (Server.getUser (desyncUp P.u w d f).srv P.u).tunIp = (Server.getUser w.srv P.u).tunIp := by
  have hg : Server.getUser (desyncUp P.u w d f).srv P.u =
      { Server.getUser w.srv P.u with inpacket := { (Server.getUser w.srv P.u).inpacket with fragment := f } } :=
    getUser_putUser_self _ _ _ hq.srv.solo.lt
  rw [hg]

theorem desyncUp_ifrag {P : Par} {w : W} (hq : QuietLazy P w) (d : Nat) (f : Int) :
    (Server.getUser (desyncUp P.u w d f).srv P.u).inpacket.fragment = f := by
  have hg : Server.getUser (desyncUp P.u w d f).srv P.u =
      { Server.getUser w.srv P.u with inpacket := { (Server.getUser w.srv P.u).inpacket with fragment := f } } :=
    getUser_putUser_self _ _ _ hq.srv.solo.lt
  rw [hg]

/-! ### the demo session, desynchronised -/

/-- the lazy demo session after `d` upstream packets were given up unseen (the server's last packet had two fragments) -/
def exWDL (d : Nat) : W := desyncUp exPL.u exWL d 1

theorem desyncUp_tun (u : Nat) (w : W) (d : Nat) (f : Int) :
    (desyncUp u w d f).tunS = w.tunS ∧ (desyncUp u w d f).tunC = w.tunC := ⟨rfl, rfl⟩

theorem ex_quiescent_lazyD (d : Nat) : QuietLazyD exPL d 0 (exWDL d) := by
  unfold exWDL
  exact quietLazyD_desyncUp ex_quiescent_lazy d 1 (by decide)

theorem exWD_tunIp (d : Nat) : (Server.getUser (exWDL d).srv exPL.u).tunIp = (Server.getUser exWL.srv exPL.u).tunIp := by
  unfold exWDL
  exact desyncUp_tunIp ex_quiescent_lazy d 1

theorem exWD_ifrag (d : Nat) : (Server.getUser (exWDL d).srv exPL.u).inpacket.fragment = 1 := by
  unfold exWDL
  exact desyncUp_ifrag ex_quiescent_lazy d 1

theorem exWD_tun (d : Nat) : (exWDL d).tunS = [] ∧ (exWDL d).tunC = [] := by
  have h : exWL.tunS = [] ∧ exWL.tunC = [] := by decide +kernel
  unfold exWDL
  rw [(desyncUp_tun _ _ _ _).1, (desyncUp_tun _ _ _ _).2]
  exact h

theorem ex_frames_ok (d : Nat) : ∀ f ∈ [demoFrame 9 4, demoFrame 9 30, demoFrame 9 10],
    UpFrameOk exPL (Server.getUser (exWDL d).srv exPL.u).tunIp f := by
  intro f hf
  rw [exWD_tunIp]
  simp only [List.mem_cons, List.not_mem_nil, or_false] at hf
  rcases hf with rfl | rfl | rfl
  · exact ⟨by decide, by decide, by unfold Codec.Bytes; decide, by decide +kernel, by decide +kernel⟩
  · exact ex_acceptable_lazy.1
  · exact ⟨by decide, by decide, by unfold Codec.Bytes; decide, by decide +kernel, by decide +kernel⟩

/-- non-vacuity of `up_packet_lazy_desync_ok` (`d = 3`): the 2-fragment frame arrives after 5 steps, synchronised again -/
example : ∃ w', promptSteps 0 5 (step (exWDL 3) (.offerC (demoFrame 9 30))) = some w' ∧ QuietLazy exPL w' ∧
    w'.tunS = [demoFrame 9 30] ∧ w'.tunC = [] := by
  have hok := ex_frames_ok 3 (demoFrame 9 30) (by simp)
  obtain ⟨w', h1, h2, h3, h4, _⟩ := up_packet_lazy_desync_ok exPL_ok (ex_quiescent_lazyD 3) (by decide) (demoFrame 9 30)
    hok.h24 hok.hl hok.bytes hok.dst hok.frags
  rw [ex_acceptable_lazy.2] at h1
  refine ⟨w', h1, h2, ?_, ?_⟩
  · rw [h3, (exWD_tun 3).1]; decide
  · rw [h4, (exWD_tun 3).2]

/-- non-vacuity of `up_packet_lazy_desync_drop` (`d = 4`, and `d = 7` with `inpacket.fragment = 1`): the frame is lost -/
example : (∃ w', promptSteps 0 14 (step (exWDL 4) (.offerC (demoFrame 9 30))) = some w' ∧ QuietLazyD exPL 5 0 w' ∧
      w'.tunS = [] ∧ w'.tunC = []) ∧
    (∃ w', promptSteps 0 14 (step (exWDL 7) (.offerC (demoFrame 9 30))) = some w' ∧ QuietLazy exPL w' ∧
      w'.tunS = [] ∧ w'.tunC = []) := by
  have hok := ex_acceptable_lazy.1
  have hne : demoFrame 9 30 ≠ [] := by decide
  constructor
  · obtain ⟨w', h1, h2, h3, h4, _⟩ := up_packet_lazy_desync_drop exPL_ok (ex_quiescent_lazyD 4) (by decide) (by decide)
      (demoFrame 9 30) hne hok.hl hok.bytes
    exact ⟨w', h1, h2, by rw [h3, (exWD_tun 4).1], by rw [h4, (exWD_tun 4).2]⟩
  · obtain ⟨w', h1, h2, h3, h4, _⟩ := up_packet_lazy_desync_drop exPL_ok (ex_quiescent_lazyD 7) (by decide)
      (fun _ => by rw [exWD_ifrag]; decide) (demoFrame 9 30) hne hok.hl hok.bytes
    exact ⟨w', h1, quietLazyD_zero.1 h2, by rw [h3, (exWD_tun 7).1], by rw [h4, (exWD_tun 7).2]⟩

/-- **desync_drops_new_packets_lazy** (the finding c02:seqno-window as a theorem about the demo session).  After four
upstream packets were given up without the server having seen any of them, the joint state is quiescent and both programs
are running, but the next FOUR packets the client accepts from its tun device (whatever their size) never reach the
server's tun device — each costs the client 4 s of resends —, the fifth one does, and only then the session is in step
again. -/
theorem desync_drops_new_packets_lazy :
    QuietLazyD exPL 4 0 (exWDL 4) ∧
    (offerAllC 0 40 (exWDL 4) [demoFrame 9 4, demoFrame 9 30, demoFrame 9 10, demoFrame 9 4]).tunS = [] ∧
    QuietLazy exPL (offerAllC 0 40 (exWDL 4) [demoFrame 9 4, demoFrame 9 30, demoFrame 9 10, demoFrame 9 4]) ∧
    (offerAllC 0 40 (exWDL 4) [demoFrame 9 4, demoFrame 9 30, demoFrame 9 10, demoFrame 9 4, demoFrame 9 30]).tunS =
      [demoFrame 9 30] ∧
    (offerAllC 0 40 (exWDL 4) [demoFrame 9 4, demoFrame 9 30, demoFrame 9 10, demoFrame 9 4, demoFrame 9 30]).tunC = [] := by
  have hok4 : ∀ f ∈ [demoFrame 9 4, demoFrame 9 30, demoFrame 9 10, demoFrame 9 4],
      UpFrameOk exPL (Server.getUser (exWDL 4).srv exPL.u).tunIp f := by
    intro f hf
    apply ex_frames_ok 4 f
    simp only [List.mem_cons, List.not_mem_nil, or_false] at hf ⊢
    rcases hf with h | h | h | h <;> simp [h]
  have hok5 : ∀ f ∈ [demoFrame 9 4, demoFrame 9 30, demoFrame 9 10, demoFrame 9 4, demoFrame 9 30],
      UpFrameOk exPL (Server.getUser (exWDL 4).srv exPL.u).tunIp f := by
    intro f hf
    apply ex_frames_ok 4 f
    simp only [List.mem_cons, List.not_mem_nil, or_false] at hf ⊢
    rcases hf with h | h | h | h | h <;> simp [h]
  have r4 := recovery_after_giveups_up_lazy exPL_ok 40 (by decide) _ 4 (exWDL 4) (ex_quiescent_lazyD 4) (by decide)
    (fun _ => by rw [exWD_ifrag]; decide) hok4
  have r5 := recovery_after_giveups_up_lazy exPL_ok 40 (by decide) _ 4 (exWDL 4) (ex_quiescent_lazyD 4) (by decide)
    (fun _ => by rw [exWD_ifrag]; decide) hok5
  have hi : tunImage (demoFrame 9 30) = demoFrame 9 30 := by decide
  refine ⟨ex_quiescent_lazyD 4, ?_, ?_, ?_, ?_⟩
  · have := r4.1
    rw [(exWD_tun 4).1] at this
    exact this
  · exact r4.2.2.1 (Or.inr (Or.inr ⟨by decide, by decide⟩))
  · have := r5.1
    rw [(exWD_tun 4).1] at this
    rw [show exPL.u = 0 from rfl] at this
    rw [this]
    show List.map tunImage [demoFrame 9 30] = _
    simp [hi]
  · have := r5.2.1
    rw [(exWD_tun 4).2] at this
    exact this

end Iodine.C02L
