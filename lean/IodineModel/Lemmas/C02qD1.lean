import IodineModel.Lemmas.C02d15
import IodineModel.Lemmas.C02q0
/-
C02 phase 2, downstream / immediate mode, desynchronised start — SERVER side.

The ping handler without the restriction `outfragresent ≤ 5` of `C02d3`/`C02d4`/`C02d7`: when the fragment in flight was
sent more than five times, `send_chunk_or_dataless` drops the packet first (`dropResent`) and answers dataless.
Then the two situations of a packet the client does not accept: RESEND of fragment 0 (`pingZ_resendD`) and the DROP
(`pingZ_dropped`).
-/
namespace Iodine.C02L
open Iodine Iodine.Gen Iodine.Server Iodine.World

/-- with nothing queued, a packet that was resent too often is dropped and `send_chunk_or_dataless` goes on as if the slot
had been idle -/
theorem scSess_drop (y : Session) (u : Nat) (w : QSel) (hlen : y.outpacket.len > 0) (hres : y.outfragresent > 5)
    (hoq : y.oqFilled = 0) : scSess y u w = scSess (dropOut y) u w := by
  have h1 : dropResent y = dropOut y := by
    unfold dropResent
    rw [if_pos ⟨hlen, hres⟩, fromQueue_empty _ (by exact hoq)]
  have h2 : dropResent (dropOut y) = dropOut y := by
    unfold dropResent
    rw [if_neg (by intro h; exact absurd h.1 (by show ¬ (0 > 0); omega))]
  unfold scSess
  rw [h1, h2]

/-- `scSess_q_shape` without the bound on `outfragresent` -/
theorem scSess_q_shape' (y : Session) (u : Nat) (hid2 : y.q.id2 = 0) (hoq : y.oqFilled = 0) :
    ∃ y1 pkt, SameMem y y1 ∧ pkt.length ≤ DNSCACHE_ANSWER_SIZE ∧
      (scSess y u .q).1.2 = [writeDns y.q pkt y.downenc (.chunk u)] ∧ (scSess y u .q).2 = false ∧
      SameMem (cacheUpd (qmemUpd y1 y.q) y.q pkt) (scSess y u .q).1.1 ∧ (scSess y u .q).1.1.qs = y.qs := by
  by_cases hr : y.outfragresent ≤ 5
  · exact scSess_q_shape y u hid2 hoq hr
  · by_cases hlen : y.outpacket.len = 0
    · have hsd := scSess_dataless y u .q hlen hid2
      have hqs : (cacheUpd (qmemUpd y y.q) y.q (scPkt y 0)).qs = y.qs := by
        have := core_qs (core_memo y y.q (scPkt y 0)); exact this
      refine ⟨y, scPkt y 0, SameMem.refl y, scPkt0_len y, ?_, ?_, ?_, ?_⟩
      · rw [hsd]; rfl
      · rw [hsd]
      · rw [hsd]; exact ⟨rfl, rfl, rfl, rfl, rfl, rfl⟩
      · rw [hsd]; exact hqs
    · rw [scSess_drop y u .q (by omega) (by omega) hoq]
      obtain ⟨y1, pkt, a, b, c, d, e, f⟩ := scSess_q_shape (dropOut y) u hid2 hoq (by show 0 ≤ 5; omega)
      exact ⟨y1, pkt, a, b, c, d, e, f⟩

theorem ackSess_oq (x : Session) (a b : Int) (h : x.oqFilled = 0) : (ackSess x a b).oqFilled = 0 := by
  have := core_oqFilled (ackSess_core x a b h)
  rw [this]; exact h

/-- `srv_ping_imm` without the bound on `outfragresent` -/
theorem srv_ping_imm' {P : Par} (hP : P.Ok) {s : Srv} (hS : SStat P s)
    (hq : (getUser s P.u).q.id = 0) (hqs : (getUser s P.u).qs.id = 0) (hlz : (getUser s P.u).lazy = false)
    (hoq : (getUser s P.u).oqFilled = 0)
    {Q : Query} {a b : Int} {sd : Nat} (hQ : PingQ P Q a b sd)
    {k : Nat} (hA : Aged P (getUser s P.u) k 1) (hPA : PAged P (getUser s P.u) sd 1) :
    ∃ s' evs t pkt, iteration s (.q Q) s.now = (s', evs, t) ∧ downOfEvents evs = [.ans Q.id Q.type Q.name pkt] ∧
      tunOfSEvents evs = [] ∧ AfterPing P s s' Q a b pkt ∧
      Aged P (getUser s' P.u) k 1 ∧ PAged P (getUser s' P.u) ((sd + 1) % 65536) 1 := by
  obtain ⟨dlen, hdl, h2, h4, huid, ha, hb, hc2, hc3⟩ := hQ.parse
  obtain ⟨cp, hcp, hfl, hf2, hf3⟩ := hQ.fp
  have htop := topSess_live hS
  have hu := hS.solo.lt
  generalize hx0 : ({ getUser s P.u with qsNew := false } : Session) = x0 at htop
  have hx0q : x0.q.id = 0 := by subst hx0; exact hq
  have hx0qs : x0.qs.id = 0 := by subst hx0; exact hqs
  have hx0lz : x0.lazy = false := by subst hx0; exact hlz
  have hx0oq : x0.oqFilled = 0 := by subst hx0; exact hoq
  have hx0A : Aged P x0 k 1 := by subst hx0; exact hA.congr rfl rfl rfl rfl
  have hx0P : PAged P x0 sd 1 := by subst hx0; exact hPA.congr rfl rfl rfl rfl
  have hit := iteration_ping hS.solo Q s.now dlen (by rw [hS.td]; exact hdl) h2 hQ.c0 (hQ.ty ▸ hP.tty) hQ.id h4 huid
    (admitted_entry hS Q hQ.from_)
    (by rw [htop]; exact hx0P.cacheMiss hQ.sdlt (by omega) Q hQ.ty hQ.c0 hQ.seed)
    (by rw [htop]; exact hx0P.qmemMiss hQ.sdlt (by omega) Q hQ.ty _ hc2 hc3)
    (by rw [htop]; exact Or.inl hx0q) (by rw [htop]; exact Or.inl hx0qs)
  rw [htop, ha, hb, pingSess_imm x0 P.u Q a b s.now hx0q hx0qs hx0lz hx0oq] at hit
  -- the slot with the query stored
  have hac := ackSess_core x0 a b hx0oq
  generalize hy : saveQ (ackSess x0 a b) Q s.now = y at hit
  have hyq : y.q = Q := by subst hy; rfl
  have hsm := ackSess_sameMem x0 a b hx0oq
  have hyA : Aged P y k 1 := by
    subst hy
    exact hx0A.congr hsm.1 hsm.2.1 hsm.2.2.2.2.1 hsm.2.2.2.2.2
  have hyP : PAged P y sd 1 := by
    subst hy
    exact hx0P.congr hsm.2.2.1 hsm.2.2.2.1 hsm.2.2.2.2.1 hsm.2.2.2.2.2
  have hyid2 : y.q.id2 = 0 := by rw [hyq]; exact hQ.id2
  have hyoq : y.oqFilled = 0 := by
    subst hy
    show (ackSess x0 a b).oqFilled = 0
    have := core_oqFilled hac
    rw [this]; exact hx0oq
  obtain ⟨y1, pkt, hm1, hpl, hev, _, hm2, hqs2⟩ := scSess_q_shape' y P.u hyid2 hyoq
  rw [hyq] at hev hm2
  have hyqs : y.qs.id = 0 := by
    subst hy
    show (ackSess x0 a b).qs.id = 0
    have := core_qs hac
    rw [this]; exact hx0qs
  have hsw : sweepSess (scSess y P.u .q).1.1 P.u s.now = ((scSess y P.u .q).1.1, []) := by
    unfold sweepSess
    rw [if_neg (by intro hc; exact hc.2.1 (by rw [hqs2]; exact hyqs))]
  simp only at hit
  rw [hsw, hev] at hit
  have hdn : y.downenc = (getUser s P.u).downenc := by
    subst hy
    show (ackSess x0 a b).downenc = _
    have := core_downenc hac
    rw [this]; subst hx0; rfl
  have hg : getUser { putUser s P.u (scSess y P.u .q).1.1 with now := s.now } P.u = (scSess y P.u .q).1.1 := by
    rw [getUser_withNow, getUser_putUser_self _ _ _ hu]
  refine ⟨_, _, _, pkt, hit, ?_, ?_, ?_, ?_, ?_⟩
  · simp only [List.append_nil, downOfEvents_append, downOfEvents_sweep, downOfEvents_writeDns _ _ _ _ hQ.from_]
  · simp only [List.append_nil, tunOfSEvents_append, tunOfSEvents_writeDns, tunOfSEvents_sweep]
  · refine ⟨(hS.solo.putUser _).withNow _, hS.td, rfl, rfl, ?_, ?_⟩
    · rw [hg, hx0, hy]
    · rw [hx0, hy, hev, hdn]
  · rw [hg]
    have hy1A : Aged P y1 k 1 := hyA.congr hm1.1 hm1.2.1 hm1.2.2.2.2.1 hm1.2.2.2.2.2
    have := hy1A.memo_ping hP.hu Q pkt hpl hQ.c0 cp hcp hfl
    exact this.congr hm2.1 hm2.2.1 hm2.2.2.2.2.1 hm2.2.2.2.2.2
  · rw [hg]
    have hy1P : PAged P y1 sd 1 := hyP.congr hm1.2.2.1 hm1.2.2.2.1 hm1.2.2.2.2.1 hm1.2.2.2.2.2
    have := (hy1P.step hQ.sdlt (by omega)).memo Q pkt hpl sd 1 ⟨by omega, by omega⟩ (behind_next16 sd hQ.sdlt) hQ.c0 cp hcp hfl hf2 hf3 hQ.seed
    exact this.congr hm2.2.2.1 hm2.2.2.2.1 hm2.2.2.2.2.1 hm2.2.2.2.2.2

/-- the server conditions under which a ping is answered at once, without a bound on the resend counter -/
structure PingSrvG (P : Par) (s : Srv) : Prop where
  stat : SStat P s
  q : (getUser s P.u).q.id = 0
  qs : (getUser s P.u).qs.id = 0
  lz : (getUser s P.u).lazy = false
  oq : (getUser s P.u).oqFilled = 0

theorem timeoutS_idleG {P : Par} {w : W} (h : PingSrvG P w.srv) : timeoutS w = 10000000 := by
  unfold timeoutS
  rw [topOfLoop_timeout h.stat.solo, if_neg (by intro hc; exact hc.2 h.qs)]

/-- the ping travels up and is answered: one scheduler step (`up_answer` without the bound on the resend counter) -/
theorem up_answer' {P : Par} (hP : P.Ok) {w : W} {name : List Nat} {id : Nat} {a b : Int} {sd k : Nat}
    (hup : w.up = [.query id P.ty name]) (hdown : w.down = []) (hS : PingSrvG P w.srv)
    (hQ : PingQ P (upQuery id P.ty name) a b sd)
    (hA : Aged P (getUser w.srv P.u) k 1) (hPA : PAged P (getUser w.srv P.u) sd 1) :
    ∃ s' pkt, step w (promptEv w) = { w with up := [], srv := s', down := [.ans id P.ty name pkt] } ∧
      quiet P.u w = false ∧ AfterPing P w.srv s' (upQuery id P.ty name) a b pkt ∧
      Aged P (getUser s' P.u) k 1 ∧ PAged P (getUser s' P.u) ((sd + 1) % 65536) 1 := by
  obtain ⟨s', evs, t, pkt, hit, hd, ht, hap, hA', hP'⟩ := srv_ping_imm' hP hS.stat hS.q hS.qs hS.lz hS.oq hQ hA hPA
  refine ⟨s', pkt, ?_, quiet_false_of_up _ _ _ _ hup, hap, hA', hP'⟩
  have hQe : upQuery (upQuery id P.ty name).id (upQuery id P.ty name).type (upQuery id P.ty name).name = upQuery id P.ty name := rfl
  rw [promptEv_up w _ _ hup, step_deliverUp w _ _ hup, srvInput_query,
    stepS_zero { w with up := [] } _ s' evs t hit, hd, ht]
  simp [hdown, upQuery]

/-! ### what the ping handler leaves untouched, without the bound -/

theorem pingZ_rest' (x0 : Session) (u : Nat) (Q : Query) (a b : Int) (now : Nat) (hid2 : Q.id2 = 0) (hoq : x0.oqFilled = 0) :
    rest (pingZ x0 u Q a b now) = rest x0 ∧ (pingZ x0 u Q a b now).q = { Q with id := 0 } ∧ (pingZ x0 u Q a b now).lastPkt = now := by
  by_cases hres : (ackSess x0 a b).outfragresent ≤ 5 ∨ (ackSess x0 a b).outpacket.len = 0
  · -- as in `pingZ_rest` / `pingZ_q`
    have h1 : rest (ackSess x0 a b) = rest x0 := by have := rest_of_core (ackSess_core x0 a b hoq); exact this
    generalize hy : saveQ (ackSess x0 a b) Q now = y
    have h2 : rest y = rest x0 := by subst hy; exact h1
    have hyq : y.q = Q := by subst hy; rfl
    have hyl : y.lastPkt = now := by subst hy; rfl
    have hyoq : y.oqFilled = 0 := by have := rest_oqFilled h2; rw [this]; exact hoq
    have hyres : y.outfragresent ≤ 5 ∨ y.outpacket.len = 0 := by subst hy; exact hres
    unfold pingZ
    rw [hy]
    by_cases hlen : y.outpacket.len = 0
    · rw [scSess_dataless y u .q hlen (by show y.q.id2 = 0; rw [hyq]; exact hid2)]
      have h3 : rest (cacheUpd (qmemUpd y y.q) y.q (scPkt y 0)) = rest y := rest_of_core (core_memo y y.q (scPkt y 0))
      refine ⟨h3.trans h2, by show ({ y.q with id := 0 } : Query) = _; rw [hyq], ?_⟩
      have := core_lastPkt (core_memo y y.q (scPkt y 0))
      exact this.trans hyl
    · have hpos : y.outpacket.len > 0 := by omega
      have hyres' : y.outfragresent ≤ 5 := by rcases hyres with h | h; exact h; omega
      rw [scSess_data y u .q hpos hyres' (by show y.q.id2 = 0; rw [hyq]; exact hid2) hyoq]
      have h3 : rest (cacheUpd (qmemUpd (prepOut y) y.q) y.q (scPkt (prepOut y) (scDatalen y))) = rest (prepOut y) :=
        rest_of_core (core_memo (prepOut y) y.q (scPkt (prepOut y) (scDatalen y)))
      have h4 : rest (answered y .q) = rest y := by
        unfold answered
        rw [rest_qset]
        exact h3.trans (rest_prepOut y)
      have hl : (answered y .q).lastPkt = now := by
        have := core_lastPkt (core_memo (prepOut y) y.q (scPkt (prepOut y) (scDatalen y)))
        exact this.trans hyl
      have hq : (answered y .q).q = { Q with id := 0 } := by show ({ y.q with id := 0 } : Query) = _; rw [hyq]
      by_cases hw : scDatalen y > 0 ∧ scDatalen y = y.outpacket.len
      · simp only [if_pos hw]
        rw [rest_dropOut]
        exact ⟨h4.trans h2, hq, hl⟩
      · simp only [if_neg hw]
        exact ⟨h4.trans h2, hq, hl⟩
  · -- the packet is dropped first
    have h1 : rest (ackSess x0 a b) = rest x0 := by have := rest_of_core (ackSess_core x0 a b hoq); exact this
    generalize hy : saveQ (ackSess x0 a b) Q now = y
    have h2 : rest y = rest x0 := by subst hy; exact h1
    have hyq : y.q = Q := by subst hy; rfl
    have hyl : y.lastPkt = now := by subst hy; rfl
    have hyoq : y.oqFilled = 0 := by have := rest_oqFilled h2; rw [this]; exact hoq
    have hyres : ¬ (y.outfragresent ≤ 5 ∨ y.outpacket.len = 0) := by subst hy; exact hres
    unfold pingZ
    rw [hy, scSess_drop y u .q (by omega) (by omega) hyoq,
      scSess_dataless (dropOut y) u .q rfl (by show y.q.id2 = 0; rw [hyq]; exact hid2)]
    have h3 : rest (cacheUpd (qmemUpd (dropOut y) (dropOut y).q) (dropOut y).q (scPkt (dropOut y) 0)) = rest (dropOut y) :=
      rest_of_core (core_memo (dropOut y) (dropOut y).q (scPkt (dropOut y) 0))
    refine ⟨h3.trans ((rest_dropOut y).trans h2), by show ({ y.q with id := 0 } : Query) = _; rw [hyq], ?_⟩
    have := core_lastPkt (core_memo (dropOut y) (dropOut y).q (scPkt (dropOut y) 0))
    exact this.trans hyl

/-- `afterPing_stat` without the bound -/
theorem afterPing_stat' {P : Par} {s s' : Srv} {Q : Query} {a b : Int} {pkt : List Nat} (h : PingSrvG P s)
    (hid2 : Q.id2 = 0) (hap : AfterPing P s s' Q a b pkt)
    (hos : 0 ≤ (getUser s' P.u).outpacket.seqno ∧ (getUser s' P.u).outpacket.seqno < 8)
    (hof : 0 ≤ (getUser s' P.u).outpacket.fragment ∧ (getUser s' P.u).outpacket.fragment < 16) :
    PingSrvG P s' ∧ (getUser s' P.u).fragsize = (getUser s P.u).fragsize ∧
    (getUser s' P.u).inpacket = (getUser s P.u).inpacket ∧
    (getUser s' P.u).tunIp = (getUser s P.u).tunIp ∧ (getUser s' P.u).downenc = (getUser s P.u).downenc ∧
    (getUser s' P.u).lastPkt = s'.now ∧ s'.now = s.now := by
  have hS := h.stat
  generalize hx0 : ({ getUser s P.u with qsNew := false } : Session) = x0
  have hslot : getUser s' P.u = pingZ x0 P.u Q a b s.now := by rw [hap.slot, hx0]; rfl
  have hx0oq : x0.oqFilled = 0 := by subst hx0; exact h.oq
  obtain ⟨hr, hqq1, hqq2⟩ := pingZ_rest' x0 P.u Q a b s.now hid2 hx0oq
  rw [← hslot] at hr hqq1 hqq2
  have hrx : rest x0 = rest (getUser s P.u) := by subst hx0; rfl
  have hr' := hr.trans hrx
  refine ⟨⟨⟨hap.solo, hap.td, ?_, ?_, ?_⟩, ?_, ?_, ?_, ?_⟩, rest_fragsize hr', rest_inpacket hr', rest_tunIp hr',
    rest_downenc hr', by rw [hqq2, hap.now], hap.now⟩
  · exact ⟨(rest_active hr').trans hS.x.active, (rest_authenticated hr').trans hS.x.auth, (rest_disabled hr').trans hS.x.enabled,
      (rest_conn hr').trans hS.x.conn, (rest_encoder hr').trans hS.x.enc, hos, hof,
      by rw [rest_inpacket hr']; exact hS.x.iseq, by rw [rest_inpacket hr']; exact hS.x.ifrag⟩
  · rw [hap.cfg, rest_host hr']; exact hS.host
  · rw [hap.now, hqq2]; omega
  · rw [hqq1]
  · rw [rest_qs hr']; exact h.qs
  · rw [rest_lazy hr']; exact h.lz
  · rw [rest_oqFilled hr']; exact h.oq

/-! ### the two situations of a packet the client does not take -/

/-- RESEND (or first send) of fragment 0: the ping's acknowledgement does not match, the counter is at most 5 -/
theorem pingZ_resendD (x0 : Session) (u : Nat) (Q : Query) (a b : Int) (now : Nat) (out : List Nat) (sq : Int) (m : Nat)
    (hid2 : Q.id2 = 0) (hoq : x0.oqFilled = 0) (hres : x0.outfragresent ≤ 5)
    (hop : x0.outpacket = ⟨out.length, m, 0, out, sq, 0⟩) (hack : ackSess x0 a b = x0) (hL : 0 < out.length)
    (hF : 0 < x0.fragsize) :
    ∃ D, D = downLen x0.fragsize out.length ∧
    (pingZ x0 u Q a b now).outpacket = (if D = out.length then ⟨0, 0, 0, out, sq, 0⟩ else ⟨out.length, D, 0, out, sq, 0⟩) ∧
    (pingZ x0 u Q a b now).outfragresent = (if D = out.length then 0 else x0.outfragresent + 1) ∧ 0 < D ∧ D ≤ out.length ∧
    ∃ yy : Session, (scSess (saveQ (ackSess x0 a b) Q now) u .q).1.2 = [writeDns Q (scPkt yy D) x0.downenc (.chunk u)] ∧
      yy.outpacket = ⟨out.length, D, 0, out, sq, 0⟩ ∧ yy.inpacket = x0.inpacket := by
  refine ⟨downLen x0.fragsize out.length, rfl, ?_⟩
  generalize hDdef : downLen x0.fragsize out.length = D
  have hD : scDatalen (saveQ x0 Q now) = D := by
    rw [← hDdef]
    unfold scDatalen saveQ downLen
    simp only [hop]
    rw [if_pos hL]
    rfl
  have hDpos : 0 < D := by rw [← hDdef]; unfold downLen; omega
  have hDle : D ≤ out.length := by rw [← hDdef]; unfold downLen; omega
  have hsd := scSess_data (saveQ x0 Q now) u .q (by show x0.outpacket.len > 0; rw [hop]; exact hL)
    (by show x0.outfragresent ≤ 5; omega) (by exact hid2) (by exact hoq)
  rw [hD] at hsd
  have hlen : (saveQ x0 Q now).outpacket.len = out.length := by show x0.outpacket.len = _; rw [hop]
  rw [hlen] at hsd
  unfold pingZ
  rw [hack, hsd]
  have hpo : (prepOut (saveQ x0 Q now)).outpacket = ⟨out.length, D, 0, out, sq, 0⟩ := by
    unfold prepOut
    simp only [hD]
    show ({ x0.outpacket with sentlen := D } : Packet) = _
    rw [hop]
  have hao : (answered (saveQ x0 Q now) .q).outpacket = ⟨out.length, D, 0, out, sq, 0⟩ := by
    have := core_outpacket (core_memo (prepOut (saveQ x0 Q now)) (saveQ x0 Q now).q (scPkt (prepOut (saveQ x0 Q now)) (scDatalen (saveQ x0 Q now))))
    exact this.trans hpo
  have har : (answered (saveQ x0 Q now) .q).outfragresent = x0.outfragresent + 1 := by
    have := core_outfragresent (core_memo (prepOut (saveQ x0 Q now)) (saveQ x0 Q now).q (scPkt (prepOut (saveQ x0 Q now)) (scDatalen (saveQ x0 Q now))))
    exact this
  refine ⟨?_, ?_, hDpos, hDle, prepOut (saveQ x0 Q now), rfl, hpo, rfl⟩
  · by_cases hw : D = out.length
    · rw [if_pos hw, if_pos ⟨hDpos, hw⟩]
      show ({ (answered (saveQ x0 Q now) .q).outpacket with len := 0, offset := 0, sentlen := 0 } : Packet) = _
      rw [hao]
    · rw [if_neg hw, if_neg (by intro h; exact hw h.2)]
      exact hao
  · by_cases hw : D = out.length
    · rw [if_pos hw, if_pos ⟨hDpos, hw⟩]; rfl
    · rw [if_neg hw, if_neg (by intro h; exact hw h.2)]
      exact har

/-- DATALESS: the ping's acknowledgement does not match and either nothing is in flight or the fragment in flight was sent
more than five times — then the packet is DROPPED; the answer carries no data -/
theorem pingZ_dataless (x0 : Session) (u : Nat) (Q : Query) (a b : Int) (now : Nat)
    (hid2 : Q.id2 = 0) (hoq : x0.oqFilled = 0) (hack : ackSess x0 a b = x0)
    (hd : x0.outpacket.len = 0 ∨ x0.outfragresent > 5) :
    ∃ yy : Session, (pingZ x0 u Q a b now).outpacket = yy.outpacket ∧ yy.outpacket.len = 0 ∧
      yy.outpacket.seqno = x0.outpacket.seqno ∧ yy.outpacket.fragment = x0.outpacket.fragment ∧
      ((pingZ x0 u Q a b now).outfragresent = 0 ∨ (pingZ x0 u Q a b now).outfragresent = x0.outfragresent) ∧
      (scSess (saveQ (ackSess x0 a b) Q now) u .q).1.2 = [writeDns Q (scPkt yy 0) x0.downenc (.chunk u)] ∧
      yy.inpacket = x0.inpacket := by
  unfold pingZ
  rw [hack]
  by_cases hlen : x0.outpacket.len = 0
  · have hsd := scSess_dataless (saveQ x0 Q now) u .q (by exact hlen) (by exact hid2)
    rw [hsd]
    refine ⟨saveQ x0 Q now, ?_, hlen, rfl, rfl, Or.inr ?_, rfl, rfl⟩
    · have := core_outpacket (core_memo (saveQ x0 Q now) (saveQ x0 Q now).q (scPkt (saveQ x0 Q now) 0))
      exact this
    · have := core_outfragresent (core_memo (saveQ x0 Q now) (saveQ x0 Q now).q (scPkt (saveQ x0 Q now) 0))
      exact this
  · have hr : x0.outfragresent > 5 := by rcases hd with h | h; exact absurd h hlen; exact h
    rw [scSess_drop (saveQ x0 Q now) u .q (by show x0.outpacket.len > 0; omega) (by exact hr) (by exact hoq),
      scSess_dataless (dropOut (saveQ x0 Q now)) u .q rfl (by exact hid2)]
    refine ⟨dropOut (saveQ x0 Q now), ?_, rfl, rfl, rfl, Or.inl ?_, rfl, rfl⟩
    · have := core_outpacket (core_memo (dropOut (saveQ x0 Q now)) (dropOut (saveQ x0 Q now)).q (scPkt (dropOut (saveQ x0 Q now)) 0))
      exact this
    · have := core_outfragresent (core_memo (dropOut (saveQ x0 Q now)) (dropOut (saveQ x0 Q now)).q (scPkt (dropOut (saveQ x0 Q now)) 0))
      exact this

end Iodine.C02L
