import IodineModel.Lemmas.C02rU4
/-
C02 phase 3 / d7up — upstream, immediate mode: BOUNDED RECOVERY from desynchronised sequence numbers WITHOUT the hypothesis
`d ≤ 3 ∨ 1 ≤ inpacket.fragment` of `recovery_after_giveups_up_imm` (`C02qU7`).

From `QuietImmD P d 0 w`, `4 ≤ d`, with the server's last fragment number 0: the packets `0 … 6 − d` are dropped with three resends
each (`up_packet_imm_desync_drop`, the server's `inpacket` untouched), packet `7 − d` carries the server's own `(seqno, 0)`: it is
FALSELY ACKNOWLEDGED — a one-fragment packet vanishes in 2 steps, a longer one leaves `junkUp (chimeraUp …)` on the server's tun
device — and from packet `8 − d` on delivery is clean.  So the frames written are
`junkAt … ++ (frames.drop (lostUp d)).map tunImage`, with `junkAt = []` unless the chimera decompresses.
-/
namespace Iodine.C02L
open Iodine Iodine.Gen Iodine.World

/-- the (at most one) garbage frame written while `frames` are offered from distance `d`; `I` is the server's `inpacket` at
the start: only when `d ≥ 4`, the server's last fragment number is 0, and the packet that meets distance 7 — number `7 − d` —
exists and has more than one fragment -/
def junkAt (P : Par) (I : Server.Packet) (d : Nat) (frames : List (List Nat)) : List (List Nat) :=
  if d ≤ 3 ∨ 1 ≤ I.fragment then []
  else
    match frames[7 - d]? with
    | none => []
    | some f => if fragLen P (0x5a :: f) < (0x5a :: f).length then junkUp (chimeraUp P I f) else []

theorem junkAt_step (P : Par) (I : Server.Packet) (d : Nat) (f : List Nat) (fs : List (List Nat)) (hd : 4 ≤ d ∧ d ≤ 6) :
    junkAt P I d (f :: fs) = junkAt P I (d + 1) fs := by
  unfold junkAt
  have h1 : ¬ d ≤ 3 := by omega
  have h2 : ¬ d + 1 ≤ 3 := by omega
  have h3 : 7 - d = (7 - (d + 1)) + 1 := by omega
  simp only [h1, h2, false_or, h3, List.getElem?_cons_succ]

theorem fragLen_le_of_bytes {P : Par} (hP : P.Ok) {c : Client.Cli} (hc : CStat P c) (frame : List Nat)
    (hl : frame.length < 65536) (hb : Codec.Bytes frame) : fragLen P (0x5a :: frame) ≤ (0x5a :: frame).length := by
  obtain ⟨_, _, _, hm2, _⟩ := send_ready hP (newPacket_ready hc frame hl hb)
  simpa using hm2

/-- **recovery_after_giveups, upstream, immediate mode, every `d` and every fragment number.**  Hypotheses beyond `UpFrameOk`
only where the false acknowledgement can happen (`4 ≤ d`, last fragment number 0): the server's buffer is in a state
`handle_data_upstream` leaves behind (`BufOk`) and, if the packet number `7 − d` has several fragments, its chimera fits and is
not self-addressed (`ChimeraOk`). -/
theorem recovery_after_giveups_up_imm_full {P : Par} (hP : P.Ok) (fuel : Nat) (hfuel : 33 ≤ fuel) :
    ∀ (frames : List (List Nat)) (d : Nat) (w : W), QuietImmD P d 0 w → d < 8 →
      (∀ f ∈ frames, UpFrameOk P (Server.getUser w.srv P.u).tunIp f) →
      (4 ≤ d → (Server.getUser w.srv P.u).inpacket.fragment = 0 →
        BufOk (Server.getUser w.srv P.u).inpacket ∧
        ∀ f, frames[7 - d]? = some f → fragLen P (0x5a :: f) < (0x5a :: f).length →
          ChimeraOk P (Server.getUser w.srv P.u).inpacket (Server.getUser w.srv P.u).tunIp f) →
      (offerAllC P.u fuel w frames).tunS =
        w.tunS ++ junkAt P (Server.getUser w.srv P.u).inpacket d frames ++ (frames.drop (lostUp d)).map tunImage ∧
      (offerAllC P.u fuel w frames).tunC = w.tunC ∧
      (lostUp d < frames.length → QuietImm P (offerAllC P.u fuel w frames)) := by
  intro frames
  induction frames with
  | nil => intro d w _ _ _ _; exact ⟨by simp [offerAllC, junkAt], rfl, fun h => by simp at h⟩
  | cons f fs ih =>
    intro d w hq hd8 hok hch
    by_cases hA : d ≤ 3 ∨ 1 ≤ (Server.getUser w.srv P.u).inpacket.fragment
    · have := recovery_after_giveups_up_imm hP fuel hfuel (f :: fs) d w hq hd8 hA hok
      have hj : junkAt P (Server.getUser w.srv P.u).inpacket d (f :: fs) = [] := by
        unfold junkAt; rw [if_pos hA]
      rw [hj, List.append_nil]
      exact this
    · have hd4 : 4 ≤ d := by
        by_cases h : d ≤ 3
        · exact absurd (Or.inl h) hA
        · omega
      have hfr0 : (Server.getUser w.srv P.u).inpacket.fragment = 0 := by
        have := hq.srv.x.ifrag
        by_cases h : 1 ≤ (Server.getUser w.srv P.u).inpacket.fragment
        · exact absurd (Or.inr h) hA
        · omega
      obtain ⟨hbuf, hchim⟩ := hch hd4 hfr0
      have hf := hok f List.mem_cons_self
      have hne : f ≠ [] := by intro hc; have := hf.h24; rw [hc] at this; simp at this
      by_cases h7 : d = 7
      · subst h7
        have hl1 : lostUp 7 = 1 := by decide
        by_cases hmulti : fragLen P (0x5a :: f) < (0x5a :: f).length
        · -- the false acknowledgement, several fragments
          have hj : junkAt P (Server.getUser w.srv P.u).inpacket 7 (f :: fs) =
              junkUp (chimeraUp P (Server.getUser w.srv P.u).inpacket f) := by
            unfold junkAt
            rw [if_neg hA]
            simp only [Nat.sub_self, List.getElem?_cons_zero, if_pos hmulti]
          obtain ⟨w', h1, h2, h3, h4, h5, _⟩ := up_packet_imm_desync7_multi hP hq hfr0 hbuf f hne hf.hl hf.bytes hmulti hf.frags
            (hchim f (by simp) hmulti)
          have hrun : runPrompt P.u fuel (step w (.offerC f)) = w' :=
            runPrompt_of_steps P.u _ _ _ h1 h2.quiet fuel (by have := hf.frags; omega)
          have := up_sequence_imm hP fuel hfuel fs w' h2 (fun g hg => by rw [h5]; exact hok g (List.mem_cons_of_mem _ hg))
          unfold offerAllC
          rw [hrun, hl1, hj]
          refine ⟨?_, ?_, fun _ => this.1⟩
          · rw [this.2.1, h3]; simp
          · rw [this.2.2, h4]
        · -- the false acknowledgement, one fragment
          have hone : fragLen P (0x5a :: f) = (0x5a :: f).length := by
            have := fragLen_le_of_bytes hP hq.cst f hf.hl hf.bytes
            omega
          have hj : junkAt P (Server.getUser w.srv P.u).inpacket 7 (f :: fs) = [] := by
            unfold junkAt
            rw [if_neg hA]
            simp only [Nat.sub_self, List.getElem?_cons_zero, if_neg hmulti]
          obtain ⟨w', h1, h2, h3, h4, _, h6, _⟩ := up_packet_imm_desync_false_ack hP hq hfr0 f hne hf.hl hf.bytes hone
          have hrun : runPrompt P.u fuel (step w (.offerC f)) = w' :=
            runPrompt_of_steps P.u _ _ _ h1 h2.quiet fuel (by omega)
          have := up_sequence_imm hP fuel hfuel fs w' h2 (fun g hg => by rw [h6]; exact hok g (List.mem_cons_of_mem _ hg))
          unfold offerAllC
          rw [hrun, hl1, hj]
          refine ⟨?_, ?_, fun _ => this.1⟩
          · rw [this.2.1, h3]; simp
          · rw [this.2.2, h4]
      · -- `4 ≤ d ≤ 6`: dropped, one further out of step, the server's `inpacket` untouched
        have hd6 : d ≤ 6 := by omega
        obtain ⟨w', h1, h2, h3, h4, h5, h6, _, _, _⟩ :=
          up_packet_imm_desync_drop hP hq (Or.inl ⟨hd4, hd6⟩) f hne hf.hl hf.bytes
        have hrun : runPrompt P.u fuel (step w (.offerC f)) = w' :=
          runPrompt_of_steps P.u _ _ _ h1 h2.quiet fuel (by omega)
        have hd1 : (d + 1) % 8 = d + 1 := by omega
        rw [hd1] at h2
        have h73 : 7 - d = (7 - (d + 1)) + 1 := by omega
        have := ih (d + 1) w' h2 (by omega) (fun g hg => by rw [h6]; exact hok g (List.mem_cons_of_mem _ hg))
          (fun _ _ => by
            rw [h5, h6]
            refine ⟨hbuf, fun g hg hm => hchim g ?_ hm⟩
            rw [h73, List.getElem?_cons_succ]; exact hg)
        have hl : lostUp d = lostUp (d + 1) + 1 := by
          unfold lostUp
          rw [if_neg (by omega), if_neg (by omega)]
          omega
        unfold offerAllC
        rw [hrun, hl, junkAt_step P _ d f fs ⟨hd4, hd6⟩]
        refine ⟨?_, ?_, fun hlt => this.2.2 (by simp only [List.length_cons] at hlt; omega)⟩
        · rw [this.1, h3, h5]; simp
        · rw [this.2.1, h4]

/-- the marker condition: with an EMPTY buffer (`offset = 0`) and the first byte after the first fragment not 0x5a, nothing
but the clean frames is written -/
theorem junkAt_nil_of_empty {P : Par} {I : Server.Packet} {d : Nat} {frames : List (List Nat)} (ho : I.offset = 0)
    (hmark : ∀ f, frames[7 - d]? = some f → ((0x5a :: f).drop (fragLen P (0x5a :: f))).headD 0 ≠ 0x5a) :
    junkAt P I d frames = [] := by
  unfold junkAt
  split
  · rfl
  · cases hf : frames[7 - d]? with
    | none => rfl
    | some f =>
      simp only
      split
      · rw [chimeraUp_empty P I f ho]; exact junkUp_nil_of_head (hmark f hf)
      · rfl

end Iodine.C02L
