import IodineModel.Lemmas.C02d12
/-
Downstream transfer in immediate mode: the end — the client's delayed ping acknowledges the last fragment, the server
completes the packet and answers dataless (three scheduler steps).
-/
namespace Iodine.C02L
open Iodine Iodine.Gen Iodine.World

/-- `tunnelDns_dataless` for any accepted first character (here: the answer to a ping) -/
theorem tunnelDns_dataless' (c : Client.Cli) (rq : Client.Rq) (hn : Client.notData c rq.name0 = false) (hrv : rq.rv = 2)
    (hid : Client.recentId c rq.id = true) (hsps : c.sendPingSoon = 0) (hlz : c.lazymode = false)
    (hdn : (Client.decodeHdr rq.buf).dnSeq = c.inpkt.seqno) :
    Client.tunnelDns c rq = Client.upstream (ackBook c) (Client.decodeHdr rq.buf) [] false 2 := by
  have hc : { c with sendPingSoon := 0 } = c := by
    cases c; simp_all
  have hrid : Client.recentId (Client.countRecv c) rq.id = true := hid
  unfold Client.tunnelDns
  simp only [hn, Bool.false_eq_true, if_false, hrv, hsps, bne_self_eq_false, hc]
  have h1 : ¬ ((2 : Int) < 2) := by omega
  have h2 : ¬ ((2 : Int) = 5 ∧ rq.buf.take 5 = Client.ascii "BADIP") := by omega
  rw [if_neg h1, if_neg h2]
  have hd : Client.dupeSeqno c (Client.decodeHdr rq.buf) 2 = (c, 2) := by
    unfold Client.dupeSeqno
    rw [if_neg (by omega)]
  simp only [hd, hrid, Bool.not_true, Bool.false_eq_true, if_false]
  have hl : Client.lazyHint { Client.countRecv c with lastdownstreamtime := (Client.countRecv c).now } rq.id =
      { Client.countRecv c with lastdownstreamtime := (Client.countRecv c).now } := by
    unfold Client.lazyHint
    rw [if_neg (by simp [Client.countRecv, hlz])]
  rw [hl]
  have hda : Client.datalessAdopt { Client.countRecv c with lastdownstreamtime := (Client.countRecv c).now } (Client.decodeHdr rq.buf) 2 =
      { Client.countRecv c with lastdownstreamtime := (Client.countRecv c).now } := by
    unfold Client.datalessAdopt
    rw [if_neg (by simp [Client.countRecv, hdn])]
  rw [hda]
  have hds : Client.downstream { Client.countRecv c with lastdownstreamtime := (Client.countRecv c).now } (Client.decodeHdr rq.buf) rq.buf 2 false =
      ({ Client.countRecv c with lastdownstreamtime := (Client.countRecv c).now }, [], false) := by
    unfold Client.downstream
    rw [if_neg (by omega)]
  rw [hds]
  rfl

theorem srv_now_zero (s : Server.Srv) : ({ s with now := s.now + 0 } : Server.Srv) = s := by
  cases s; rfl

theorem cstat_pingState {P : Par} {c : Client.Cli} (hc : CStat P c) : CStat P (pingState c) := by
  have hpf := pingFacts c
  exact ⟨hpf.running.trans hc.running, hpf.conn.trans hc.conn, hpf.lazymode.trans hc.imm, hpf.userid.trans hc.uid,
    hpf.useridChar.trans hc.uch, hpf.topdomain.trans hc.td, hpf.hostnameMaxlen.trans hc.L, hpf.dataenc.trans hc.enc,
    hpf.doQtype.trans hc.ty, hpf.cid, by rw [hpf.datacmc]; exact hc.cmc, by rw [hpf.ldt, hpf.now]; exact hc.alive,
    by rw [hpf.outpkt]; exact hc.oseq, by rw [hpf.inpkt]; exact hc.iseq, by rw [hpf.inpkt]; exact hc.ifrag,
    by rw [hpf.seed]; exact Nat.mod_lt _ (by omega)⟩

theorem down_finish {P : Par} (hP : P.Ok) {out : List Nat} {w : W} {sq : Int} {o m f : Nat}
    (h : DownDelivered P out w sq o m f) (hf : f < 16) :
    ∃ w', promptSteps P.u 3 w = some w' ∧ QuietImm P w' ∧ w'.tunS = w.tunS ∧ w'.tunC = w.tunC ∧
      (Server.getUser w'.srv P.u).fragsize = (Server.getUser w.srv P.u).fragsize ∧
      (Server.getUser w'.srv P.u).tunIp = (Server.getUser w.srv P.u).tunIp ∧
      (Server.getUser w'.srv P.u).lastPkt = w'.srv.now ∧ w'.cs.c.lastdownstreamtime = w'.cs.c.now ∧
      w'.cs.c.selecttimeout = w.cs.c.selecttimeout ∧ w'.cs.c.sendPingSoon ≤ 5 := by
  have hsqr : 0 ≤ sq ∧ sq < 8 := by rw [← h.have_.1]; exact h.cst.iseq
  have hsel : (Client.selectOf w.cs.c).to = 5000 := by
    simp [Client.selectOf, h.sps]
  have hT : ((Client.selectOf w.cs.c).to / 1000000).toNat = 0 := by rw [hsel]; rfl
  have hlen0 : out.length ≠ 0 := by have := h.hm; have := h.heq; omega
  have hq0 : quiet P.u w = false := quiet_false_of_out (by rw [h.srv.op]; exact hlen0)
  -- step 1: the client's 5 ms timer
  obtain ⟨name, c1, hs0, hc1, hpq⟩ := poll_step hP h.ph h.cst h.idleC h.up h.down (by rw [hsel]; omega) (timeoutS_idle h.srv.ping)
    (by rw [hT]; exact h.cst.alive) hq0
  rw [hT, srv_now_zero] at hs0
  rw [h.have_.1, h.have_.2] at hpq
  have hc1fr : c1 = { w.cs.c with now := c1.now } := by rw [hc1]; rfl
  have hc1now : c1.now = w.cs.c.now := by rw [hc1, advanceClock_now, hT]; rfl
  have hc1st : CStat P c1 := by
    rw [hc1fr]
    have hc := h.cst
    exact ⟨hc.running, hc.conn, hc.imm, hc.uid, hc.uch, hc.td, hc.L, hc.enc, hc.ty, hc.cid, hc.cmc,
      by show ¬ w.cs.c.lastdownstreamtime + 60 < c1.now; rw [hc1now]; exact hc.alive, hc.oseq, hc.iseq, hc.ifrag, hc.seed⟩
  generalize hw1 : ({ w with cs := ⟨pingState c1, .tunnel⟩, up := [.query (pingState c1).chunkid P.ty name] } : W) = w1 at hs0
  have hw1srv : w1.srv = w.srv := by subst hw1; rfl
  have hw1up : w1.up = [.query (pingState c1).chunkid P.ty name] := by subst hw1; rfl
  have hw1down : w1.down = [] := by subst hw1; exact h.down
  -- step 2: the server completes the packet
  have hseed : c1.randSeed = w.cs.c.randSeed := by rw [hc1fr]
  have hcmc : c1.datacmc = w.cs.c.datacmc := by rw [hc1fr]
  obtain ⟨s', pkt, hs1, hq1, hap, hA', hPA'⟩ := up_answer hP hw1up hw1down (by rw [hw1srv]; exact h.srv.ping) hpq
    (by rw [hw1srv]; exact h.aged) (by rw [hw1srv]; exact h.paged)
  rw [hw1srv] at hap
  generalize hx0 : ({ Server.getUser w.srv P.u with qsNew := false } : Server.Session) = x0
  have hslot : Server.getUser s' P.u = pingZ x0 P.u (upQuery (pingState c1).chunkid P.ty name) sq f w.srv.now := by
    rw [afterPing_slot hap, hx0]
  obtain ⟨hzo, hzr, yy, hyev, hyo, hyi⟩ := pingZ_done x0 P.u (upQuery (pingState c1).chunkid P.ty name) w.srv.now out sq o m f rfl
    (by subst hx0; exact h.srv.oq) (by subst hx0; exact h.srv.op) h.hm h.heq (by omega)
  rw [← hslot] at hzo hzr
  have hpkt : pkt = Server.scPkt yy 0 := by
    have h1 := hap.pkt
    rw [hx0, hyev] at h1
    have h2 := List.cons.inj h1
    have h3 : Server.writeDns (upQuery (pingState c1).chunkid P.ty name) (Server.scPkt yy 0) x0.downenc (.chunk P.u) =
        Server.writeDns (upQuery (pingState c1).chunkid P.ty name) pkt (Server.getUser w.srv P.u).downenc (.chunk P.u) := h2.1
    unfold Server.writeDns at h3
    injection h3 with _ _ _ _ _ h9
    exact h9.symm
  obtain ⟨hps, hfs', hin', htun', _⟩ := pingSrv_after h.srv.ping rfl hap (by rw [hzo]; exact hsqr)
    (by rw [hzo]; show (0 : Int) ≤ (f : Int) ∧ (f : Int) < 16; omega) (by rw [hzr]; omega)
  -- the dataless answer as the client sees it
  obtain ⟨hlen2, hdn, _, _⟩ := ack_hdr (x := yy) (y := yy) hpkt (by rw [hyi]; subst hx0; exact h.srv.stat.x.iseq)
    (by rw [hyi]; subst hx0; exact h.srv.stat.x.ifrag) rfl (by rw [hyo]; exact hsqr) (by rw [hyo]; show (0 : Int) ≤ (f : Int) ∧ (f : Int) < 16; omega)
  generalize hw2 : ({ w1 with up := [], srv := s', down := [.ans (pingState c1).chunkid P.ty name pkt] } : W) = w2 at hs1
  have hw2cs : w2.cs = ⟨pingState c1, .tunnel⟩ := by subst hw2; subst hw1; rfl
  have hw2up : w2.up = [] := by subst hw2; rfl
  have hw2down : w2.down = [.ans (pingState c1).chunkid P.ty name pkt] := by subst hw2; rfl
  have hq2 : quiet P.u w2 = false := quiet_false_of_down _ _ _ _ hw2down
  have hpf := pingFacts c1
  have hcst := cstat_pingState hc1st
  generalize hrq : (Client.Rq.mk (pkt.length : Int) (pingState c1).chunkid (answerType P.ty) 0 (name.headD 0) pkt) = rq
  have hci : cliInput (.ans (pingState c1).chunkid P.ty name pkt) = .rq rq := by subst hrq; rfl
  have hidle : Client.isSending (pingState c1) = false := by
    unfold Client.isSending; rw [hpf.outpkt, hc1fr]; exact h.idleC
  have hdl : Client.tunnelDns (pingState c1) rq = Client.upstream (ackBook (pingState c1)) (Client.decodeHdr pkt) [] false 2 := by
    have := tunnelDns_dataless' (pingState c1) rq
      (by
        subst hrq
        show Client.notData _ (name.headD 0) = false
        have h0 : name.getD 0 0 = 112 := hpq.c0
        rw [headD_eq_getD, h0]; simp [Client.notData])
      (by subst hrq; exact hlen2)
      (by subst hrq; unfold Client.recentId; simp)
      hpf.sps hcst.imm
      (by subst hrq; show (Client.decodeHdr pkt).dnSeq = _; rw [hdn, hyo, hpf.inpkt, hc1fr]; exact h.have_.1.symm)
    subst hrq
    exact this
  have hoth := (upstream_other_ack (ackBook (pingState c1)) (Client.decodeHdr pkt) [] false 2
    (by intro hc; have : Client.isSending (ackBook (pingState c1)) = false := hidle; rw [this] at hc; exact absurd hc.1 (by decide))).1
  have hfp : Client.finalPing (ackBook (pingState c1)) [] false 2 = (ackBook (pingState c1), [], .ret 2) := by simp [Client.finalPing]
  generalize hcd : ackBook (pingState c1) = cd at hoth hfp hdl
  have hcdst : CStat P cd := by rw [← hcd]; exact cstat_ackBook hcst
  have hstep3 : Client.cstep w2.cs (.rq rq) = (⟨cd, .tunnel⟩, [], .sel (Client.selectOf cd)) := by
    rw [hw2cs, cstep_rq _ rq hcst.running hcst.alive hcst.conn, hdl, hoth, hfp]
    simp [Client.settle, Client.loopTop, hcdst.running]
  have hs3 : step w2 (promptEv w2) = { w2 with down := [], cs := ⟨cd, .tunnel⟩ } := by
    rw [promptEv_down w2 _ _ hw2up hw2down, step_deliverDown w2 _ _ hw2down, hci,
      stepC_of { w2 with down := [] } (.rq rq) ⟨cd, .tunnel⟩ [] (.sel (Client.selectOf cd)) (by exact hstep3)
        (by show cd.now = w2.cs.c.now; rw [hw2cs, ← hcd]; rfl)]
    simp [upOfEvents, tunOfCEvents, hw2up]
  have hlp : (Server.getUser s' P.u).lastPkt = s'.now := by
    rw [hslot, (pingZ_q x0 P.u _ sq f w.srv.now rfl (by subst hx0; exact h.srv.oq)
      (by subst hx0; have := h.srv.res; show (Server.getUser w.srv P.u).outfragresent ≤ 5; omega)).2, hap.now]
  refine ⟨{ w2 with down := [], cs := ⟨cd, .tunnel⟩ }, ?_, ?_, ?_, ?_, ?_, ?_, ?_, ?_, ?_, ?_⟩
  · rw [promptSteps_succ hq0, hs0, promptSteps_succ hq1, hs1, promptSteps_succ hq2, hs3]; rfl
  · subst hw2; subst hw1
    refine ⟨rfl, hcdst, ?_, rfl, rfl, hps.stat, ⟨by rw [hzo], hps.q, hps.qs, hps.lz⟩, hps.oq, ?_, ?_, ?_, ?_⟩
    · rw [← hcd]; exact hidle
    · show (Server.getUser s' P.u).inpacket.seqno = cd.outpkt.seqno
      rw [hin', h.syncu, ← hcd]
      show w.cs.c.outpkt.seqno = (pingState c1).outpkt.seqno
      rw [hpf.outpkt, hc1fr]
    · show (Server.getUser s' P.u).outpacket.seqno = cd.inpkt.seqno
      rw [hzo, ← hcd]
      show sq = (pingState c1).inpkt.seqno
      rw [hpf.inpkt, hc1fr]; exact h.have_.1.symm
    · show Aged P (Server.getUser s' P.u) cd.datacmc 1
      have : cd.datacmc = w.cs.c.datacmc := by rw [← hcd]; show (pingState c1).datacmc = _; rw [hpf.datacmc, hcmc]
      rw [this]; exact hA'
    · show PAged P (Server.getUser s' P.u) cd.randSeed 1
      have : cd.randSeed = (w.cs.c.randSeed + 1) % 65536 := by rw [← hcd]; show (pingState c1).randSeed = _; rw [hpf.seed, hseed]
      rw [this]; exact hPA'
  · subst hw2; subst hw1; rfl
  · subst hw2; subst hw1; rfl
  · subst hw2; subst hw1; exact hfs'
  · subst hw2; subst hw1; exact htun'
  · subst hw2; subst hw1; exact hlp
  · show cd.lastdownstreamtime = cd.now
    rw [← hcd]; rfl
  · show cd.selecttimeout = _
    rw [← hcd]
    show (pingState c1).selecttimeout = _
    rw [hpf.selto, hc1fr]
  · show cd.sendPingSoon ≤ 5
    rw [← hcd]
    show (pingState c1).sendPingSoon ≤ 5
    rw [hpf.sps]; omega

end Iodine.C02L
