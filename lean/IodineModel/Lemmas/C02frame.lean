import IodineModel.Lemmas.Client
namespace Iodine.C02L
open Iodine Iodine.Client

/-- the fields `send_query` (including an excursion into `handshake_lazyoff`'s first query) may change -/
def sqFrame (c r : Cli) : Cli :=
  { c with chunkid := r.chunkid, chunkidPrev := r.chunkidPrev, chunkidPrev2 := r.chunkidPrev2, sendcnt := r.sendcnt,
           recvcnt := r.recvcnt, selecttimeout := r.selecttimeout, lazymode := r.lazymode, randSeed := r.randSeed,
           lastrawping := r.lastrawping }

theorem sqFrame_self (c : Cli) : sqFrame c c = c := rfl

theorem sqFrame_trans (a b c : Cli) (h1 : b = sqFrame a b) (h2 : c = sqFrame b c) : c = sqFrame a c := by
  calc c = sqFrame b c := h2
    _ = sqFrame (sqFrame a b) c := congrArg (fun z => sqFrame z c) h1
    _ = sqFrame a c := rfl

theorem rotateChunkid_frame (c : Cli) : rotateChunkid c = sqFrame c (rotateChunkid c) := by
  simp only [rotateChunkid, sqFrame]

theorem sendQueryPlain_frame (c : Cli) (h : List Nat) : (sendQueryPlain c h).1.1 = sqFrame c (sendQueryPlain c h).1.1 := by
  unfold sendQueryPlain
  simp only
  split <;> exact rotateChunkid_frame c

theorem sendHandshakeQuery_frame (c : Cli) (p : List Nat) : (sendHandshakeQuery c p).1 = sqFrame c (sendHandshakeQuery c p).1 := by
  unfold sendHandshakeQuery
  simp only
  exact sqFrame_trans _ _ _ rfl (sendQueryPlain_frame _ _)

theorem lazyoffIter_frame (c : Cli) (i : Nat) : (lazyoffIter c i).c = sqFrame c (lazyoffIter c i).c := by
  unfold lazyoffIter
  split
  · exact sendHandshakeQuery_frame _ _
  · rfl

theorem sendQueryCount_frame (c : Cli) : (sendQueryCount c).c = sqFrame c (sendQueryCount c).c := by
  unfold sendQueryCount
  split
  · simp only
    split
    · split
      · rfl
      · exact sqFrame_trans _ _ _ rfl (lazyoffIter_frame _ _)
    · rfl
  · rfl

theorem sendQuery_frame (c : Cli) (h : List Nat) : (sendQuery c h).c = sqFrame c (sendQuery c h).c := by
  unfold sendQuery
  simp only
  split
  · exact sqFrame_trans _ _ _ (sendQueryPlain_frame c h) (sendQueryCount_frame _)
  · exact sendQueryPlain_frame c h

end Iodine.C02L
