import IodineModel.Lemmas.SrvC15c
/-
Helper lemmas for property C15, part d: the fragment-numbering monitor (lemma-side copy), the session
invariant that ties `outpacket` to what was sent, and its preservation by the small functions and by
`send_chunk_or_dataless`.
-/
namespace Iodine.C15L
open Iodine Iodine.Server Iodine.Gen

/-! ### the monitor -/

/-- (seq, frag, last) of the previous fragment-carrying fresh data answer of a session -/
abbrev MSt := Option (Nat × Nat × Nat)

/-- header byte 1 of a data answer that carries a fragment -/
def fragHeader (d : List Nat) : Option (Nat × Nat × Nat) :=
  if d.length > 2 then some (d.getD 1 0 / 32, d.getD 1 0 / 2 % 16, d.getD 1 0 % 2) else none

/-- may a fragment with header `cur` follow `prev`? -/
def accepts : MSt → Nat × Nat × Nat → Bool
  | none, (_, fr, _) => fr == 0
  | some (sq, fr, la), (sq', fr', _) =>
    (sq' == sq && fr' == fr) || (sq' == sq && la == 0 && fr' == (fr + 1) % 16) || (sq' != sq && fr' == 0)

def upd (m : Nat → MSt) (u : Nat) (v : MSt) : Nat → MSt := fun w => if w = u then v else m w

/-- slot named by a `VACK` answer -/
def vackSlot (d : List Nat) : Option Nat :=
  if d.take 4 = [86, 65, 67, 75] ∧ d.length = 9 then some (d.getD 8 0) else none

def monEvent (isV : Bool) (m : Nat → MSt) : Event → Option (Nat → MSt)
  | .ans _ _ _ _ _ data (.chunk u) =>
    match fragHeader data with
    | some h => if accepts (m u) h then some (upd m u (some h)) else none
    | none => some m
  | .ans _ _ _ _ _ data .ctrl =>
    if isV then
      match vackSlot data with
      | some u => some (upd m u none)
      | none => some m
    else some m
  | _ => some m

def runMon (isV : Bool) (m : Nat → MSt) : List Event → Option (Nat → MSt)
  | [] => some m
  | e :: es => (monEvent isV m e).bind (fun m' => runMon isV m' es)

theorem runMon_append (isV : Bool) (m : Nat → MSt) (a b : List Event) :
    runMon isV m (a ++ b) = (runMon isV m a).bind (fun m' => runMon isV m' b) := by
  induction a generalizing m with
  | nil => rfl
  | cons e es ih =>
    simp only [List.cons_append, runMon]
    cases monEvent isV m e with
    | none => rfl
    | some m' => simp only [Option.bind_some]; exact ih m'

/-- not a fresh data answer -/
def NotChunk (e : Event) : Prop := ∀ a b c d n dt u, e ≠ Event.ans a b c d n dt (.chunk u)

/-- `NotChunk` for an event whose constructor / tag differs -/
macro "not_chunk" : tactic => `(tactic| (intro _ _ _ _ _ _ _ h; cases h))

/-- events the monitor ignores and that are not fresh data answers -/
def Quiet (isV : Bool) (evs : List Event) : Prop := (∀ m, runMon isV m evs = some m) ∧ ∀ e ∈ evs, NotChunk e

theorem quiet_nil (isV : Bool) : Quiet isV [] := ⟨fun _ => rfl, fun _ h => by cases h⟩

theorem quiet_append {isV : Bool} {a b : List Event} (ha : Quiet isV a) (hb : Quiet isV b) : Quiet isV (a ++ b) := by
  refine ⟨fun m => ?_, fun e he => ?_⟩
  · rw [runMon_append, ha.1 m]
    exact hb.1 m
  · rcases List.mem_append.1 he with h | h
    · exact ha.2 e h
    · exact hb.2 e h

theorem quiet_single {isV : Bool} {e : Event} (h : ∀ m, monEvent isV m e = some m) (hc : NotChunk e) :
    Quiet isV [e] := by
  refine ⟨fun m => ?_, fun e' he => ?_⟩
  · simp [runMon, h m]
  · rw [List.mem_singleton.1 he]; exact hc

theorem quiet_ctrl_false (q : Query) (d : List Nat) (dn : Nat) : Quiet false [writeDns q d dn] :=
  quiet_single (fun _ => rfl) (by unfold writeDns; not_chunk)

theorem quiet_qmem (isV : Bool) (q : Query) (d : List Nat) (dn u : Nat) : Quiet isV [writeDns q d dn (.qmem u)] :=
  quiet_single (fun _ => rfl) (by unfold writeDns; not_chunk)

theorem quiet_cached (isV : Bool) (q : Query) (d : List Nat) (dn u : Nat) : Quiet isV [writeDns q d dn (.cached u)] :=
  quiet_single (fun _ => rfl) (by unfold writeDns; not_chunk)

theorem quiet_dupe (isV : Bool) (q : Query) (d : List Nat) (dn u : Nat) : Quiet isV [writeDns q d dn (.dupe u)] :=
  quiet_single (fun _ => rfl) (by unfold writeDns; not_chunk)

/-! ### the session invariant -/

/-- position `k` of the 4-entry ring `outpacketq` -/
def ring (k : Nat) : Nat := if k ≥ 4 then k - 4 else k

/-- well-formedness of the packet bookkeeping of a session -/
structure SessW (x : Session) : Prop where
  sent : x.outpacket.offset + x.outpacket.sentlen ≤ x.outpacket.len
  off : x.outpacket.len ≠ 0 → x.outpacket.offset < x.outpacket.len
  data : x.outpacket.len ≤ x.outpacket.data.length
  fsz : x.outpacket.len ≠ 0 → 2 ≤ x.fragsize
  act : x.active = true → 2 ≤ x.fragsize
  resent : x.outpacket.len ≠ 0 → x.outpacket.sentlen = 0 → x.outfragresent = 0
  inlen : x.inpacket.len ≤ x.inpacket.data.length
  oq : ∀ pk ∈ x.outpacketq, pk.len ≤ pk.data.length
  oqlen : x.outpacketq.length = 4
  oqn : x.oqNext < 4
  oqf : x.oqFilled ≤ 4
  oqfs : x.oqFilled ≠ 0 → 2 ≤ x.fragsize
  oqpos : ∀ i, i < x.oqFilled → 1 ≤ (x.outpacketq.getD (ring (x.oqNext + i)) Packet.zero).len

/-- upstream assembly: `len` never runs ahead of `offset` -/
def In2 (x : Session) : Prop := x.inpacket.len ≤ x.inpacket.offset

/-- sequence number / fragment number as they appear in the data header -/
def hSeq (x : Session) : Nat := (x.outpacket.seqno % 8).toNat
def hFrag (x : Session) : Nat := (x.outpacket.fragment % 16).toNat

/-- the monitor state `mo` of a session is consistent with the session's `outpacket` -/
structure MonOK (mo : MSt) (x : Session) : Prop where
  idle : x.outpacket.len = 0 → mo = none ∨ ∃ f l, mo = some (hSeq x, f, l)
  fresh : x.outpacket.len ≠ 0 → x.outpacket.sentlen = 0 →
    (x.outpacket.fragment = 0 ∧ (mo = none ∨ ∃ s' f l, mo = some (s', f, l) ∧ s' ≠ hSeq x)) ∨
    mo = some (hSeq x, ((x.outpacket.fragment - 1) % 16).toNat, 0)
  flight : x.outpacket.len ≠ 0 → x.outpacket.sentlen ≠ 0 →
    mo = some (hSeq x, hFrag x, if x.outpacket.offset + x.outpacket.sentlen = x.outpacket.len then 1 else 0)

/-- per-slot invariant (`w`: the slot is exempt from `In2`) -/
structure SM (w : Prop) (mo : MSt) (x : Session) : Prop where
  wf : SessW x
  in2 : w ∨ In2 x
  mon : MonOK mo x

/-- the global invariant of part (B) -/
def G (W : Nat → Prop) (m : Nat → MSt) (s : Srv) : Prop := ∀ v, SM (W v) (m v) (getUser s v)

/-- a session update that leaves the fields the invariant reads alone -/
theorem sm_same {w : Prop} {mo : MSt} {x y : Session} (h : SM w mo x)
    (h1 : y.outpacket = x.outpacket) (h2 : y.outfragresent = x.outfragresent) (h3 : y.fragsize = x.fragsize)
    (h4 : y.active = x.active) (h5 : y.inpacket = x.inpacket) (h6 : y.outpacketq = x.outpacketq)
    (h7 : y.oqNext = x.oqNext) (h8 : y.oqFilled = x.oqFilled) : SM w mo y := by
  obtain ⟨⟨a1, a2, a3, a4, a5, a6, a7, a8, a9, a10, a11, a12, a13⟩, b, ⟨c1, c2, c3⟩⟩ := h
  refine ⟨⟨?_, ?_, ?_, ?_, ?_, ?_, ?_, ?_, ?_, ?_, ?_, ?_, ?_⟩, ?_, ⟨?_, ?_, ?_⟩⟩
  all_goals
    (try unfold In2 hSeq hFrag at *)
    (try rw [h1]); (try rw [h2]); (try rw [h3]); (try rw [h4]); (try rw [h5]); (try rw [h6]); (try rw [h7])
    (try rw [h8])
    assumption

/-- state functions that keep the invariant for every monitor state -/
def Stay (W : Nat → Prop) (s s' : Srv) : Prop := ∀ m, G W m s → G W m s'

theorem Stay.refl (W : Nat → Prop) (s : Srv) : Stay W s s := fun _ h => h

theorem Stay.trans {W : Nat → Prop} {a b c : Srv} (h1 : Stay W a b) (h2 : Stay W b c) : Stay W a c :=
  fun m h => h2 m (h1 m h)

theorem g_setUser {W : Nat → Prop} {m : Nat → MSt} {s : Srv} (h : G W m s) (u : Nat) (f : Session → Session)
    (hf : SM (W u) (m u) (getUser s u) → SM (W u) (m u) (f (getUser s u))) : G W m (setUser s u f) := by
  intro v
  rcases getUser_setUser_cases s u v f with h1 | ⟨rfl, h1⟩
  · rw [h1]; exact h v
  · rw [h1]; exact hf (h v)

theorem stay_setUser (W : Nat → Prop) (s : Srv) (u : Nat) (f : Session → Session)
    (hf : ∀ w mo, SM w mo (getUser s u) → SM w mo (f (getUser s u))) : Stay W s (setUser s u f) :=
  fun _ h => g_setUser h u f (hf _ _)

theorem stay_setUser_same (W : Nat → Prop) (s : Srv) (u : Nat) (f : Session → Session)
    (h1 : ∀ x, (f x).outpacket = x.outpacket) (h2 : ∀ x, (f x).outfragresent = x.outfragresent)
    (h3 : ∀ x, (f x).fragsize = x.fragsize) (h4 : ∀ x, (f x).active = x.active)
    (h5 : ∀ x, (f x).inpacket = x.inpacket) (h6 : ∀ x, (f x).outpacketq = x.outpacketq)
    (h7 : ∀ x, (f x).oqNext = x.oqNext) (h8 : ∀ x, (f x).oqFilled = x.oqFilled) :
    Stay W s (setUser s u f) :=
  stay_setUser W s u f (fun _ _ h => sm_same h (h1 _) (h2 _) (h3 _) (h4 _) (h5 _) (h6 _) (h7 _) (h8 _))

/-- `stay_setUser_same` with all side conditions by `rfl` -/
macro "stay_same" : tactic =>
  `(tactic| exact stay_setUser_same _ _ _ _ (fun _ => rfl) (fun _ => rfl) (fun _ => rfl) (fun _ => rfl)
      (fun _ => rfl) (fun _ => rfl) (fun _ => rfl) (fun _ => rfl))

theorem stay_of_users {W : Nat → Prop} {s s' : Srv} (hu : s'.users = s.users) : Stay W s s' := by
  intro m h v
  have : getUser s' v = getUser s v := by unfold getUser; rw [hu]
  rw [this]; exact h v


/-! ### session-level steps -/

theorem getD_modify {α} (l : List α) (i j : Nat) (f : α → α) (d : α) :
    (l.modify i f).getD j d = if j = i ∧ i < l.length then f (l.getD i d) else l.getD j d := by
  simp only [List.getD_eq_getElem?_getD, List.getElem?_modify]
  by_cases h : j = i
  · subst h
    by_cases hl : j < l.length
    · simp [hl]
    · simp [hl]
  · have : ¬ i = j := fun e => h e.symm
    simp [h, this]

theorem setUser_setUser (s : Srv) (u : Nat) (f g : Session → Session) :
    setUser (setUser s u f) u g = setUser s u (fun x => g (f x)) := by
  unfold setUser
  simp only [List.modify_modify_eq]
  rfl

/-- the session after `start_new_outpacket` -/
def startP (x : Session) (d : List Nat) (n : Nat) : Session :=
  { x with outpacket := { x.outpacket with data := d.take (min n PACKET_DATA_SIZE), len := min n PACKET_DATA_SIZE,
                                           offset := 0, sentlen := 0,
                                           seqno := (x.outpacket.seqno + 1) % 8, fragment := 0 },
           outfragresent := 0 }

theorem startNewOutpacket_eq (s : Srv) (u : Nat) (d : List Nat) (n : Nat) :
    startNewOutpacket s u d n = setUser s u (fun x => startP x d n) := rfl

theorem sm_startP {w : Prop} {mo : MSt} {x : Session} (h : SM w mo x) (d : List Nat) (n : Nat)
    (h0 : x.outpacket.len = 0) (hf : 2 ≤ x.fragsize) (h1 : 1 ≤ n) (h2 : n ≤ d.length) : SM w mo (startP x d n) := by
  obtain ⟨⟨a1, a2, a3, a4, a5, a6, a7, a8, a9, a10, a11, a12, a13⟩, b, ⟨c1, c2, c3⟩⟩ := h
  have hn : 1 ≤ min n PACKET_DATA_SIZE := by simp [PACKET_DATA_SIZE]; omega
  refine ⟨⟨?_, ?_, ?_, ?_, a5, ?_, a7, a8, a9, a10, a11, a12, a13⟩, b, ⟨?_, ?_, ?_⟩⟩
  · simp [startP]
  · intro _; simp only [startP]; omega
  · simp only [startP, List.length_take]; omega
  · intro _; exact hf
  · intro _ _; rfl
  · intro h; simp only [startP] at h; omega
  · intro _ _
    left
    refine ⟨rfl, ?_⟩
    rcases c1 h0 with h | ⟨f, l, h⟩
    · left; exact h
    · right
      refine ⟨_, f, l, h, ?_⟩
      simp only [hSeq, startP]
      omega
  · intro _ h; exact absurd rfl h

theorem sm_dropOut {w : Prop} {mo : MSt} {x : Session} (h : SM w mo x)
    (h0 : x.outpacket.len ≠ 0 → x.outpacket.sentlen ≠ 0) : SM w mo (dropOut x) := by
  obtain ⟨⟨a1, a2, a3, a4, a5, a6, a7, a8, a9, a10, a11, a12, a13⟩, b, ⟨c1, c2, c3⟩⟩ := h
  refine ⟨⟨?_, ?_, ?_, ?_, a5, ?_, a7, a8, a9, a10, a11, a12, a13⟩, b, ⟨?_, ?_, ?_⟩⟩
  · simp [dropOut]
  · intro h; exact absurd rfl h
  · simp [dropOut]
  · intro h; exact absurd rfl h
  · intro h; exact absurd rfl h
  · intro _
    by_cases hl : x.outpacket.len = 0
    · exact c1 hl
    · right
      exact ⟨_, _, c3 hl (h0 hl)⟩
  · intro h; exact absurd rfl h
  · intro h; exact absurd rfl h

theorem ring_lt (k : Nat) (h : k < 8) : ring k < 4 := by unfold ring; split <;> omega

/-- the session after `save_to_outpacketq` stored a packet at ring position `fill` -/
def saveQ (x : Session) (fill : Nat) (d : List Nat) (n : Nat) : Session :=
  { x with outpacketq := x.outpacketq.modify fill
              (fun p => { p with data := d.take (min n PACKET_DATA_SIZE), len := min n PACKET_DATA_SIZE }),
           oqFilled := x.oqFilled + 1 }

theorem sm_saveQ {w : Prop} {mo : MSt} {x : Session} (h : SM w mo x) (fill : Nat) (d : List Nat) (n : Nat)
    (hfill : fill = ring (x.oqNext + x.oqFilled))
    (hq : ¬ x.oqFilled ≥ 4) (hf : 2 ≤ x.fragsize) (h1 : 1 ≤ n) (h2 : n ≤ d.length) : SM w mo (saveQ x fill d n) := by
  obtain ⟨⟨a1, a2, a3, a4, a5, a6, a7, a8, a9, a10, a11, a12, a13⟩, b, ⟨c1, c2, c3⟩⟩ := h
  have hn : 1 ≤ min n PACKET_DATA_SIZE := by simp [PACKET_DATA_SIZE]; omega
  have hr : fill < 4 := by rw [hfill]; exact ring_lt _ (by omega)
  refine ⟨⟨a1, a2, a3, a4, a5, a6, a7, ?_, ?_, a10, ?_, ?_, ?_⟩, b, ⟨c1, c2, c3⟩⟩
  · intro pk hpk
    simp only [saveQ] at hpk
    rcases List.mem_iff_getElem?.1 hpk with ⟨j, hj⟩
    rw [List.getElem?_modify] at hj
    split at hj
    · cases hx : x.outpacketq[j]? with
      | none => rw [hx] at hj; cases hj
      | some p0 =>
        rw [hx] at hj
        simp at hj
        subst hj
        simp only [List.length_take]
        omega
    · simp at hj
      exact a8 pk (List.mem_of_getElem? hj)
  · simp [saveQ, a9]
  · simp only [saveQ]; omega
  · intro _; exact hf
  · intro i hi
    simp only [saveQ] at hi ⊢
    rw [getD_modify]
    split
    · exact hn
    · rename_i hne
      have hi' : i < x.oqFilled := by
        rcases Nat.lt_or_ge i x.oqFilled with h | h
        · exact h
        · exfalso
          have : i = x.oqFilled := by omega
          subst this
          exact hne ⟨hfill.symm, by rw [a9]; exact hr⟩
      exact a13 i hi'

theorem stay_startNewOutpacket (W : Nat → Prop) (s : Srv) (u : Nat) (d : List Nat) (n : Nat)
    (h0 : (getUser s u).outpacket.len = 0) (hf : 2 ≤ (getUser s u).fragsize) (h1 : 1 ≤ n) (h2 : n ≤ d.length) :
    Stay W s (startNewOutpacket s u d n) :=
  stay_setUser W s u (fun x => startP x d n) (fun _ _ h => sm_startP h d n h0 hf h1 h2)

theorem stay_saveToOutpacketq (W : Nat → Prop) (s : Srv) (u : Nat) (d : List Nat) (n : Nat)
    (hf : 2 ≤ (getUser s u).fragsize) (h1 : 1 ≤ n) (h2 : n ≤ d.length) :
    Stay W s (saveToOutpacketq s u d n).1 := by
  unfold saveToOutpacketq
  extract_lets x fill0 fill n'
  refine ite_ind (P := fun r : Srv × Bool => Stay W s r.1) ?_ ?_
  · intro _; exact Stay.refl W s
  · intro hq
    refine stay_setUser W s u _ (fun w mo h => ?_)
    exact sm_saveQ h fill d n (by simp only [fill, fill0, ring, OUTPACKETQ_LEN]; rfl) hq hf h1 h2


theorem sm_oqAdvance {w : Prop} {mo : MSt} {y : Session} (h : SM w mo y) (hne : y.oqFilled ≠ 0) (nx : Nat)
    (hnx : nx = if y.oqNext + 1 ≥ 4 then 0 else y.oqNext + 1) :
    SM w mo { y with oqNext := nx, oqFilled := y.oqFilled - 1 } := by
  obtain ⟨⟨a1, a2, a3, a4, a5, a6, a7, a8, a9, a10, a11, a12, a13⟩, b, ⟨c1, c2, c3⟩⟩ := h
  refine ⟨⟨a1, a2, a3, a4, a5, a6, a7, a8, a9, ?_, ?_, ?_, ?_⟩, b, ⟨c1, c2, c3⟩⟩
  · dsimp only; rw [hnx]; split <;> omega
  · dsimp only; omega
  · intro _; exact a12 hne
  · intro i hi
    dsimp only at hi ⊢
    have := a13 (i + 1) (by omega)
    have he : ring (nx + i) = ring (y.oqNext + (i + 1)) := by
      rw [hnx]
      unfold ring
      split <;> split <;> split <;> omega
    rw [he]; exact this

theorem stay_getFromOutpacketq (W : Nat → Prop) (s : Srv) (u : Nat) (h0 : (getUser s u).outpacket.len = 0) :
    Stay W s (getFromOutpacketq s u).1 := by
  unfold getFromOutpacketq
  extract_lets x use p s1 use'
  refine ite_ind (P := fun r : Srv × Bool => Stay W s r.1) ?_ ?_
  · intro _; exact Stay.refl W s
  · intro hne
    show Stay W s (setUser s1 u _)
    unfold s1
    rw [startNewOutpacket_eq, setUser_setUser]
    refine stay_setUser W s u _ (fun w mo h => ?_)
    have hw := h.wf
    have hp0 : ring (x.oqNext + 0) = x.oqNext := by
      have : x.oqNext < 4 := hw.oqn
      unfold ring; simp only [Nat.add_zero]; split <;> omega
    have hp1 : 1 ≤ p.len := by
      have := hw.oqpos 0 (Nat.pos_of_ne_zero hne)
      rw [hp0] at this; exact this
    have hp2 : p.len ≤ p.data.length := by
      rcases getD_mem_or x.outpacketq use Packet.zero with hm | hm
      · exact hw.oq _ hm
      · show (x.outpacketq.getD use Packet.zero).len ≤ (x.outpacketq.getD use Packet.zero).data.length
        rw [hm]; exact Nat.le_refl _
    exact sm_oqAdvance (sm_startP h p.data p.len h0 (hw.oqfs hne) hp1 hp2) hne use' rfl

theorem stay_dropOut (W : Nat → Prop) (s : Srv) (u : Nat)
    (h0 : (getUser s u).outpacket.len ≠ 0 → (getUser s u).outpacket.sentlen ≠ 0) : Stay W s (setUser s u dropOut) :=
  stay_setUser W s u dropOut (fun _ _ h => sm_dropOut h h0)

theorem getUser_dropOut_len (s : Srv) (u : Nat) : (getUser (setUser s u dropOut) u).outpacket.len = 0 ∨
    (getUser (setUser s u dropOut) u = getUser s u) := by
  rw [getUser_setUser]
  split
  · left; rfl
  · right; rfl

end Iodine.C15L
