import IodineModel.Lemmas.SrvC15d
/-
Helper lemmas for property C15, part e: `process_downstream_ack`, `send_chunk_or_dataless` and the
simulation framework (monitor state vs. server state) for part (B).
-/
namespace Iodine.C15L
open Iodine Iodine.Server Iodine.Gen

/-! ### more state-only functions -/

theorem stay_userSwitchCodec (W : Nat → Prop) (s : Srv) (u : Nat) (e : Enc) : Stay W s (userSwitchCodec s u e) := by
  unfold userSwitchCodec
  apply ite_ind
  · intro _; exact Stay.refl W s
  · intro _; stay_same

theorem stay_userSetConnType (W : Nat → Prop) (s : Srv) (u : Nat) (c : Conn) : Stay W s (userSetConnType s u c) := by
  unfold userSetConnType
  apply ite_ind
  · intro _; exact Stay.refl W s
  · intro _; stay_same

theorem stay_saveToQmemPingOrData (W : Nat → Prop) (s : Srv) (u : Nat) (q : Query) :
    Stay W s (saveToQmemPingOrData s u q) := by
  unfold saveToQmemPingOrData
  extract_lets c0
  apply ite_ind
  · intro _
    split
    · exact Stay.refl W s
    · extract_lets cmc
      apply ite_ind
      · intro _; exact Stay.refl W s
      · intro _; stay_same
  · intro _
    apply ite_ind
    · intro _; exact Stay.refl W s
    · intro _; stay_same

theorem stay_saveToDnscache (W : Nat → Prop) (s : Srv) (u : Nat) (q : Query) (a : List Nat) :
    Stay W s (saveToDnscache s u q a) := by
  unfold saveToDnscache
  apply ite_ind
  · intro _; exact Stay.refl W s
  · intro _; stay_same

theorem stay_qselSet (W : Nat → Prop) (s : Srv) (u : Nat) (w : QSel) (q : Query) :
    Stay W s (setUser s u fun y => w.set y q) := by
  cases w <;> stay_same

theorem stay_saveQuery (W : Nat → Prop) (s : Srv) (u : Nat) (q : Query) : Stay W s (saveQuery s u q) := by
  unfold saveQuery; stay_same

theorem stay_rememberDuplicate (W : Nat → Prop) (s s' : Srv) (u : Nat) (q : Query)
    (h : rememberDuplicate s u q = some s') : Stay W s s' := by
  unfold rememberDuplicate at h
  dsimp only at h
  split at h
  · cases h; stay_same
  · split at h
    · cases h; stay_same
    · cases h

theorem stay_popRand (W : Nat → Prop) (s : Srv) : Stay W s (popRand s).2 := by
  unfold popRand
  split
  · exact Stay.refl W s
  · exact stay_of_users rfl

/-- outpacket of slot `v` is untouched -/
def SameOut (s s' : Srv) : Prop := ∀ v, (getUser s' v).outpacket = (getUser s v).outpacket

theorem SameOut.refl (s : Srv) : SameOut s s := fun _ => rfl
theorem SameOut.trans {a b c : Srv} (h1 : SameOut a b) (h2 : SameOut b c) : SameOut a c :=
  fun v => (h2 v).trans (h1 v)

theorem sameOut_setUser (s : Srv) (u : Nat) (f : Session → Session) (h : ∀ x, (f x).outpacket = x.outpacket) :
    SameOut s (setUser s u f) := by
  intro v
  rcases getUser_setUser_cases s u v f with h1 | ⟨rfl, h1⟩
  · rw [h1]
  · rw [h1]; exact h _

theorem sameOut_saveToQmemPingOrData (s : Srv) (u : Nat) (q : Query) : SameOut s (saveToQmemPingOrData s u q) := by
  unfold saveToQmemPingOrData
  extract_lets c0
  apply ite_ind
  · intro _
    split
    · exact SameOut.refl s
    · extract_lets cmc
      apply ite_ind
      · intro _; exact SameOut.refl s
      · intro _; exact sameOut_setUser _ _ _ (fun _ => rfl)
  · intro _
    apply ite_ind
    · intro _; exact SameOut.refl s
    · intro _; exact sameOut_setUser _ _ _ (fun _ => rfl)

theorem sameOut_saveToDnscache (s : Srv) (u : Nat) (q : Query) (a : List Nat) : SameOut s (saveToDnscache s u q a) := by
  unfold saveToDnscache
  apply ite_ind
  · intro _; exact SameOut.refl s
  · intro _; exact sameOut_setUser _ _ _ (fun _ => rfl)

theorem sameOut_qselSet (s : Srv) (u : Nat) (w : QSel) (q : Query) : SameOut s (setUser s u fun y => w.set y q) := by
  cases w <;> exact sameOut_setUser _ _ _ (fun _ => rfl)

/-! ### scDropResent, process_downstream_ack -/

theorem stay_scDropResent (W : Nat → Prop) (s : Srv) (u : Nat) : Stay W s (scDropResent s u) := by
  unfold scDropResent
  extract_lets x
  apply ite_ind
  · intro hc m hG
    have hw := (hG u).wf
    have h0 : (getUser s u).outpacket.len ≠ 0 → (getUser s u).outpacket.sentlen ≠ 0 := by
      intro hl hs
      have : x.outfragresent = 0 := hw.resent hl hs
      have : x.outfragresent > 5 := hc.2
      omega
    refine stay_getFromOutpacketq W _ u ?_ m (stay_dropOut W s u h0 m hG)
    rcases getUser_dropOut_len s u with h | h
    · exact h
    · rw [h]
      by_cases hl : (getUser s u).outpacket.len = 0
      · exact hl
      · exfalso
        have h1 : u < s.users.length ∨ ¬ u < s.users.length := Classical.em _
        rcases h1 with h1 | h1
        · have := getUser_setUser_self s u dropOut h1
          rw [this] at h
          have : (dropOut (getUser s u)).outpacket.len = (getUser s u).outpacket.len := by rw [h]
          exact hl this.symm
        · have : getUser s u = Session.zero 0 := by
            unfold getUser
            rw [List.getD_eq_getElem?_getD, List.getElem?_eq_none (Nat.le_of_not_lt h1)]
            rfl
          rw [this] at hl
          exact hl rfl
  · intro _; exact Stay.refl W s


theorem getUser_oob (s : Srv) (u : Nat) (h : ¬ u < s.users.length) : getUser s u = Session.zero 0 := by
  unfold getUser
  rw [List.getD_eq_getElem?_getD, List.getElem?_eq_none (Nat.le_of_not_lt h)]
  rfl

/-- a property of the updated slot that also holds for the zeroed slot -/
theorem getUser_setUser_prop (s : Srv) (u : Nat) (f : Session → Session) (P : Session → Prop)
    (h1 : P (f (getUser s u))) (h2 : P (Session.zero 0)) : P (getUser (setUser s u f) u) := by
  rw [getUser_setUser]
  split
  · exact h1
  · rename_i h
    have : ¬ u < s.users.length := fun hl => h ⟨rfl, hl⟩
    rw [getUser_oob s u this]; exact h2

/-- the ack of a fragment that does not end the packet -/
def ackP (x : Session) (off : Nat) : Session :=
  { x with outpacket := { x.outpacket with offset := off, sentlen := 0, fragment := sChar (x.outpacket.fragment + 1) },
           outfragresent := 0 }

/-- … and of the one that does -/
def ackDone (x : Session) : Session :=
  { x with outpacket := { x.outpacket with len := 0, offset := 0, fragment := sChar (x.outpacket.fragment - 1) } }

theorem sChar_mod16 (f : Int) : (sChar (f + 1) - 1) % 16 = f % 16 := by unfold sChar; omega
theorem sChar_sChar_mod16 (f : Int) : sChar (sChar (f + 1) - 1) % 16 = f % 16 := by unfold sChar; omega

theorem sm_ackP {w : Prop} {mo : MSt} {x : Session} (h : SM w mo x) (off : Nat)
    (hl : x.outpacket.len ≠ 0) (hs : x.outpacket.sentlen ≠ 0)
    (hoff : off = x.outpacket.offset + x.outpacket.sentlen) (hlt : ¬ off ≥ x.outpacket.len) : SM w mo (ackP x off) := by
  obtain ⟨⟨a1, a2, a3, a4, a5, a6, a7, a8, a9, a10, a11, a12, a13⟩, b, ⟨c1, c2, c3⟩⟩ := h
  refine ⟨⟨?_, ?_, a3, a4, a5, ?_, a7, a8, a9, a10, a11, a12, a13⟩, b, ⟨?_, ?_, ?_⟩⟩
  · simp only [ackP]; omega
  · intro _; simp only [ackP]; omega
  · intro _ _; rfl
  · intro h; exact absurd h hl
  · intro _ _
    right
    have := c3 hl hs
    rw [this]
    simp only [ackP, hSeq, hFrag, sChar_mod16]
    rw [if_neg (by omega)]
  · intro _ h; exact absurd rfl h

theorem sm_ackDone {w : Prop} {mo : MSt} {x : Session} (h : SM w mo x) (off : Nat)
    (hl : x.outpacket.len ≠ 0) (hs : x.outpacket.sentlen ≠ 0) : SM w mo (ackDone (ackP x off)) := by
  obtain ⟨⟨a1, a2, a3, a4, a5, a6, a7, a8, a9, a10, a11, a12, a13⟩, b, ⟨c1, c2, c3⟩⟩ := h
  refine ⟨⟨?_, ?_, ?_, ?_, a5, ?_, a7, a8, a9, a10, a11, a12, a13⟩, b, ⟨?_, ?_, ?_⟩⟩
  · simp [ackP, ackDone]
  · intro h; exact absurd rfl h
  · simp [ackP, ackDone]
  · intro h; exact absurd rfl h
  · intro h; exact absurd rfl h
  · intro _
    right
    exact ⟨_, _, c3 hl hs⟩
  · intro h; exact absurd rfl h
  · intro h; exact absurd rfl h

theorem stay_processDownstreamAck (W : Nat → Prop) (s : Srv) (u : Nat) (a b : Int) :
    Stay W s (processDownstreamAck s u a b) := by
  unfold processDownstreamAck
  extract_lets x off s1
  apply ite_ind
  · intro _; exact Stay.refl W s
  intro hl; apply ite_ind
  · intro _; exact Stay.refl W s
  intro _; apply ite_ind
  · intro _; exact Stay.refl W s
  intro hs; apply ite_ind
  · intro hge
    have h2 : Stay W s (setUser s1 u fun x => ackDone x) := by
      unfold s1
      rw [setUser_setUser]
      exact stay_setUser W s u _ (fun w mo h => sm_ackDone h off hl hs)
    refine Stay.trans h2 (stay_getFromOutpacketq W _ u ?_)
    exact getUser_setUser_prop s1 u _ (fun y => y.outpacket.len = 0) rfl rfl
  · intro hlt
    exact stay_setUser W s u _ (fun w mo h => sm_ackP h off hl hs rfl hlt)


/-! ### send_chunk_or_dataless -/

/-- a fresh data answer is cut from the `outpacket` of a well-formed session state -/
def ChunkOK (e : Event) : Prop :=
  ∀ a b c d n dt u, e = Event.ans a b c d n dt (.chunk u) → ∃ x, SessW x ∧ dt = scPkt x (scDatalen x)

def AllChunkOK (evs : List Event) : Prop := ∀ e ∈ evs, ChunkOK e

theorem allChunkOK_nil : AllChunkOK [] := fun _ h => by cases h

theorem allChunkOK_append {a b : List Event} (ha : AllChunkOK a) (hb : AllChunkOK b) : AllChunkOK (a ++ b) := by
  intro e he
  rcases List.mem_append.1 he with h | h
  · exact ha e h
  · exact hb e h

theorem Quiet.chunkOK {isV : Bool} {evs : List Event} (h : Quiet isV evs) : AllChunkOK evs :=
  fun e he a b c d n dt u heq => absurd heq (h.2 e he a b c d n dt u)

/-- handler results simulated by the monitor -/
def Sim (isV : Bool) (W : Nat → Prop) (s : Srv) (r : Res) : Prop :=
  ∀ m, G W m s → ∃ m', runMon isV m r.2 = some m' ∧ G W m' r.1 ∧ AllChunkOK r.2

theorem hdr_decode : ∀ a, a < 8 → ∀ b, b < 16 → ∀ l, l < 2 →
    (a <<< 5 ||| b <<< 1 ||| l) / 32 = a ∧ (a <<< 5 ||| b <<< 1 ||| l) / 2 % 16 = b ∧ (a <<< 5 ||| b <<< 1 ||| l) % 2 = l := by
  decide

/-- the session after the "count the (re)send" block -/
def prepP (x : Session) : Session :=
  { x with outpacket := { x.outpacket with sentlen := scDatalen x }, outfragresent := x.outfragresent + 1 }

theorem scDatalen_prepP (x : Session) : scDatalen (prepP x) = scDatalen x := rfl

theorem scDatalen_pos {x : Session} (hw : SessW x) (hl : x.outpacket.len ≠ 0) :
    1 ≤ scDatalen x ∧ x.outpacket.offset + scDatalen x ≤ x.outpacket.len := by
  have h1 := hw.off hl
  have h2 := hw.fsz hl
  unfold scDatalen
  rw [if_pos (by omega)]
  omega

/-- the header the monitor reads off a fragment-carrying chunk -/
def hdrOf (x : Session) (dl : Nat) : Nat × Nat × Nat :=
  (hSeq x, hFrag x, if x.outpacket.len > 0 ∧ x.outpacket.len = x.outpacket.offset + dl then 1 else 0)

theorem fragHeader_scPkt {x : Session} (hw : SessW x) (dl : Nat) (h1 : 1 ≤ dl)
    (h2 : x.outpacket.offset + dl ≤ x.outpacket.len) : fragHeader (scPkt x dl) = some (hdrOf x dl) := by
  have hd := hw.data
  have hlen : (scPkt x dl).length > 2 := by
    unfold scPkt
    simp only [List.length_append, List.length_cons, List.length_nil, List.length_take, List.length_drop]
    omega
  unfold fragHeader
  rw [if_pos hlen]
  have hb : (scPkt x dl).getD 1 0 = hSeq x <<< 5 ||| hFrag x <<< 1 |||
      (if x.outpacket.len > 0 ∧ x.outpacket.len = x.outpacket.offset + dl then 1 else 0) := by
    unfold scPkt; rfl
  rw [hb]
  have ha : hSeq x < 8 := by unfold hSeq; omega
  have hf : hFrag x < 16 := by unfold hFrag; omega
  have hl : (if x.outpacket.len > 0 ∧ x.outpacket.len = x.outpacket.offset + dl then 1 else 0) < 2 := by
    split <;> omega
  obtain ⟨e1, e2, e3⟩ := hdr_decode _ ha _ hf _ hl
  unfold hdrOf
  rw [e1, e2, e3]

theorem fragHeader_scPkt_zero (x : Session) : fragHeader (scPkt x 0) = none := by
  unfold fragHeader scPkt
  simp

theorem last_eq (len off dl : Nat) (hl : len ≠ 0) :
    (if len > 0 ∧ len = off + dl then 1 else 0 : Nat) = if off + dl = len then 1 else 0 := by
  split <;> split <;> omega

theorem sm_prepP {w : Prop} {mo : MSt} {x : Session} (h : SM w mo x) (hl : x.outpacket.len ≠ 0) :
    accepts mo (hdrOf (prepP x) (scDatalen x)) = true ∧ SM w (some (hdrOf (prepP x) (scDatalen x))) (prepP x) ∧
    (prepP x).outpacket.sentlen ≠ 0 := by
  have hdl := scDatalen_pos h.wf hl
  obtain ⟨⟨a1, a2, a3, a4, a5, a6, a7, a8, a9, a10, a11, a12, a13⟩, b, ⟨c1, c2, c3⟩⟩ := h
  refine ⟨?_, ⟨⟨?_, a2, a3, a4, a5, ?_, a7, a8, a9, a10, a11, a12, a13⟩, b, ⟨?_, ?_, ?_⟩⟩, ?_⟩
  · by_cases hs : x.outpacket.sentlen = 0
    · rcases c2 hl hs with ⟨hf0, hm⟩ | hm
      · have hfr : hFrag (prepP x) = 0 := by simp [hFrag, prepP, hf0]
        rcases hm with hm | ⟨s', f, l, hm, hne⟩
        · rw [hm]; simp [accepts, hdrOf, hfr]
        · rw [hm]
          have : hSeq (prepP x) ≠ s' := fun e => hne (e ▸ rfl)
          simp [accepts, hdrOf, hfr, this]
      · rw [hm]
        have e1 : hSeq (prepP x) = hSeq x := rfl
        have e2 : hFrag (prepP x) = (((x.outpacket.fragment - 1) % 16).toNat + 1) % 16 := by
          simp only [hFrag, prepP]; omega
        simp [accepts, hdrOf, e1, e2]
    · rw [c3 hl hs]
      have e1 : hSeq (prepP x) = hSeq x := rfl
      have e2 : hFrag (prepP x) = hFrag x := rfl
      simp [accepts, hdrOf, e1, e2]
  · simp only [prepP]; omega
  · intro _ hs; simp only [prepP] at hs; omega
  · intro h0; exact absurd h0 hl
  · intro _ hs; simp only [prepP] at hs; omega
  · intro _ _
    exact congrArg (fun t => some (hSeq (prepP x), hFrag (prepP x), t))
      (last_eq x.outpacket.len x.outpacket.offset (scDatalen x) hl)
  · simp only [prepP]; omega


theorem g_upd {W : Nat → Prop} {m : Nat → MSt} {s : Srv} (h : G W m s) (u : Nat) (f : Session → Session) (mo : MSt)
    (hu : u < s.users.length) (hf : SM (W u) mo (f (getUser s u))) : G W (upd m u mo) (setUser s u f) := by
  intro v
  unfold upd
  by_cases hv : v = u
  · subst hv
    rw [if_pos rfl, getUser_setUser_self s v f hu]
    exact hf
  · rw [if_neg hv, getUser_setUser_ne s u v f hv]
    exact h v

theorem runMon_scAnswer (isV : Bool) (m : Nat → MSt) (q : Query) (pkt : List Nat) (dn u : Nat) :
    runMon isV m (scAnswer q pkt dn u).2 = monEvent isV m (writeDns q pkt dn (.chunk u)) := by
  unfold scAnswer
  split
  · simp only [runMon]
    cases monEvent isV m (writeDns q pkt dn (.chunk u)) with
    | none => rfl
    | some m' => rfl
  · simp only [runMon]
    cases monEvent isV m (writeDns q pkt dn (.chunk u)) with
    | none => rfl
    | some m' => rfl

theorem monEvent_chunk (isV : Bool) (m : Nat → MSt) (q : Query) (pkt : List Nat) (dn u : Nat) :
    monEvent isV m (writeDns q pkt dn (.chunk u)) =
      match fragHeader pkt with
      | some h => if accepts (m u) h then some (upd m u (some h)) else none
      | none => some m := rfl

/-- the "count the (re)send" block together with the answers it is followed by -/
theorem prepare_spec (isV : Bool) (W : Nat → Prop) (m : Nat → MSt) (s : Srv) (u : Nat) (q : Query) (dn : Nat)
    (hG : G W m s) :
    ∃ m', runMon isV m (scAnswer q (scPkt (getUser (scPrepare s u) u) (scDatalen (getUser (scPrepare s u) u))) dn u).2
        = some m' ∧ G W m' (scPrepare s u) ∧
      ((getUser (scPrepare s u) u).outpacket.len ≠ 0 → (getUser (scPrepare s u) u).outpacket.sentlen ≠ 0) := by
  rw [runMon_scAnswer, monEvent_chunk]
  unfold scPrepare
  by_cases hl : (getUser s u).outpacket.len > 0
  · rw [if_pos hl]
    have hl' : (getUser s u).outpacket.len ≠ 0 := by omega
    have hu : u < s.users.length := by
      apply Classical.byContradiction
      intro hn
      rw [getUser_oob s u hn] at hl'
      exact hl' rfl
    have hx : getUser (setUser s u fun x => prepP x) u = prepP (getUser s u) := getUser_setUser_self s u _ hu
    show ∃ m', (match fragHeader (scPkt (getUser (setUser s u fun x => prepP x) u)
        (scDatalen (getUser (setUser s u fun x => prepP x) u))) with
      | some h => if accepts (m u) h then some (upd m u (some h)) else none
      | none => some m) = some m' ∧ G W m' (setUser s u fun x => prepP x) ∧
      ((getUser (setUser s u fun x => prepP x) u).outpacket.len ≠ 0 →
        (getUser (setUser s u fun x => prepP x) u).outpacket.sentlen ≠ 0)
    rw [hx, scDatalen_prepP]
    obtain ⟨hacc, hsm, hsent⟩ := sm_prepP (hG u) hl'
    have hdl := scDatalen_pos (hG u).wf hl'
    have hfh := fragHeader_scPkt hsm.wf (scDatalen (getUser s u)) hdl.1 hdl.2
    rw [hfh]
    refine ⟨upd m u (some (hdrOf (prepP (getUser s u)) (scDatalen (getUser s u)))), ?_, ?_, fun _ => hsent⟩
    · simp only [hacc, if_true]
    · exact g_upd hG u _ _ hu hsm
  · rw [if_neg hl]
    have h0 : (getUser s u).outpacket.len = 0 := by omega
    have hd : scDatalen (getUser s u) = 0 := by unfold scDatalen; rw [if_neg hl]
    rw [hd, fragHeader_scPkt_zero]
    exact ⟨m, rfl, hG, fun h => absurd h0 h⟩


theorem chunkOK_scAnswer (q : Query) (x : Session) (dn u : Nat) (hw : SessW x) :
    AllChunkOK (scAnswer q (scPkt x (scDatalen x)) dn u).2 := by
  intro e he a b c d n dt v heq
  unfold scAnswer at he
  split at he
  · simp only [List.mem_cons, List.not_mem_nil, or_false] at he
    rcases he with rfl | rfl
    · unfold writeDns at heq
      injection heq with _ _ _ _ _ h6 _
      exact ⟨x, hw, h6.symm⟩
    · unfold writeDns at heq
      cases heq
  · simp only [List.mem_singleton] at he
    subst he
    unfold writeDns at heq
    injection heq with _ _ _ _ _ h6 _
    exact ⟨x, hw, h6.symm⟩

theorem sim_sendChunk (isV : Bool) (W : Nat → Prop) (s : Srv) (u : Nat) (w : QSel) :
    Sim isV W s (sendChunkOrDataless s u w).1 := by
  intro m hG
  unfold sendChunkOrDataless
  extract_lets s1 x datalen pkt a s2 s3 qsrc s4 r
  have hG0 := stay_scDropResent W s u m hG
  obtain ⟨m', hrun, hG1, hsent⟩ := prepare_spec isV W m (scDropResent s u) u (w.get x) x.downenc hG0
  have hG4 : G W m' s4 :=
    stay_qselSet W s3 u w _ m' (stay_saveToDnscache W s2 u _ _ m' (stay_saveToQmemPingOrData W s1 u _ m' hG1))
  have hso : SameOut s1 s4 :=
    ((sameOut_saveToQmemPingOrData s1 u a.1).trans (sameOut_saveToDnscache s2 u a.1 pkt)).trans
      (sameOut_qselSet s3 u w _)
  have hrun' : runMon isV m a.2 = some m' := hrun
  have hck : AllChunkOK a.2 := chunkOK_scAnswer (w.get x) x x.downenc u (hG1 u).wf
  have hr : ∃ m'', runMon isV m a.2 = some m'' ∧ G W m'' r.1 ∧ AllChunkOK a.2 := by
    refine ⟨m', hrun', ?_, hck⟩
    have h0 : (getUser s4 u).outpacket.len ≠ 0 → (getUser s4 u).outpacket.sentlen ≠ 0 := by
      rw [hso u]; exact hsent
    refine stay_getFromOutpacketq W _ u ?_ m' (stay_dropOut W s4 u h0 m' hG4)
    exact getUser_setUser_prop s4 u dropOut (fun y => y.outpacket.len = 0) rfl rfl
  clear_value r s4 a
  refine ite_ind (P := fun r : Res × Bool => ∃ m', runMon isV m r.1.2 = some m' ∧ G W m' r.1.1 ∧ AllChunkOK r.1.2) ?_ ?_
  · intro _; exact hr
  · intro _; exact ⟨m', hrun', hG4, hck⟩

/-! ### combinators -/

theorem sim_refl (isV : Bool) (W : Nat → Prop) (s : Srv) : Sim isV W s (s, []) :=
  fun m h => ⟨m, rfl, h, allChunkOK_nil⟩

theorem sim_quiet {isV : Bool} {W : Nat → Prop} {s s' : Srv} {evs : List Event} (h : Stay W s s')
    (hq : Quiet isV evs) : Sim isV W s (s', evs) :=
  fun m hG => ⟨m, hq.1 m, h m hG, hq.chunkOK⟩

theorem Sim.pre {isV : Bool} {W : Nat → Prop} {s0 s : Srv} {r : Res} (h0 : Stay W s0 s) (h : Sim isV W s r) :
    Sim isV W s0 r :=
  fun m hG => h m (h0 m hG)

theorem Sim.post {isV : Bool} {W : Nat → Prop} {s : Srv} {r : Res} {s' : Srv} (h : Sim isV W s r)
    (h1 : Stay W r.1 s') : Sim isV W s (s', r.2) := by
  intro m hG
  obtain ⟨m', h2, h3, h4⟩ := h m hG
  exact ⟨m', h2, h1 m' h3, h4⟩

theorem Sim.seq {isV : Bool} {W : Nat → Prop} {s : Srv} {r1 r2 : Res} (h1 : Sim isV W s r1) (h2 : Sim isV W r1.1 r2) :
    Sim isV W s (r2.1, r1.2 ++ r2.2) := by
  intro m hG
  obtain ⟨m1, ha, hb, hk1⟩ := h1 m hG
  obtain ⟨m2, hc, hd, hk2⟩ := h2 m1 hb
  refine ⟨m2, ?_, hd, allChunkOK_append hk1 hk2⟩
  rw [runMon_append, ha]
  exact hc

theorem Sim.andThen {isV : Bool} {W : Nat → Prop} {s : Srv} {r : Res} {f : Srv → Res} (h1 : Sim isV W s r)
    (h2 : ∀ s', Sim isV W s' (f s')) : Sim isV W s (andThen r f) :=
  h1.seq (h2 r.1)

theorem sim_seq3 {isV : Bool} {W : Nat → Prop} {s : Srv} {r1 r2 r3 : Res} (h1 : Sim isV W s r1)
    (h2 : Sim isV W r1.1 r2) (h3 : Sim isV W r2.1 r3) : Sim isV W s (r3.1, r1.2 ++ r2.2 ++ r3.2) := by
  have := (h1.seq h2).seq h3
  exact this

theorem sim_seq4 {isV : Bool} {W : Nat → Prop} {s : Srv} {r1 r2 r3 r4 : Res} (h1 : Sim isV W s r1)
    (h2 : Sim isV W r1.1 r2) (h3 : Sim isV W r2.1 r3) (h4 : Sim isV W r3.1 r4) :
    Sim isV W s (r4.1, r1.2 ++ r2.2 ++ r3.2 ++ r4.2) := by
  have := ((h1.seq h2).seq h3).seq h4
  exact this

theorem sim_ctrl (W : Nat → Prop) (s : Srv) (q : Query) (d : List Nat) (dn : Nat) :
    Sim false W s (s, [writeDns q d dn]) :=
  sim_quiet (Stay.refl W s) (quiet_ctrl_false q d dn)

theorem sim_sendWaiting (isV : Bool) (W : Nat → Prop) (s : Srv) (u : Nat) : Sim isV W s (sendWaiting s u) := by
  unfold sendWaiting
  extract_lets x
  apply ite_ind
  · intro _; exact sim_sendChunk isV W s u .qs
  intro _; apply ite_ind
  · intro _; exact sim_sendChunk isV W s u .q
  · intro _; exact sim_refl isV W s

end Iodine.C15L
