import IodineModel.Lemmas.C02qD6
import IodineModel.Lemmas.C02rD1
/-
C02 phase 3 / d7down — part 2, IMMEDIATE mode: `down_firstW` = `down_firstG` (C02qD6) for a first fragment that carries the
client's CURRENT sequence number and is taken through the "weird situation" clause (the proof is that of `down_firstG`; only
the places that used "1..4 ahead" changed), and `down_packet_imm_desync7_ok`.
-/
namespace Iodine.C02L
open Iodine Iodine.Gen Iodine.World

theorem down_firstW {P : Par} (hP : P.Ok) {frame : List Nat} {w : W} {sq : Int}
    (h : DownIdleG P (0x5a :: frame) w sq)
    (hW : CWeird w.cs.c sq) (h64 : (0x5a :: frame).length ≤ 65536) (h4 : 4 ≤ frame.length)
    (hto : (Client.selectOf w.cs.c).to < 10000000)
    (hexp : ¬ w.cs.c.lastdownstreamtime + 60 < w.cs.c.now + ((Client.selectOf w.cs.c).to / 1000000).toNat)
    (hlive : w.srv.now + ((Client.selectOf w.cs.c).to / 1000000).toNat < (Server.getUser w.srv P.u).lastPkt + 60) :
    ∃ D, D = downLen (Server.getUser w.srv P.u).fragsize (0x5a :: frame).length ∧ 0 < D ∧ D ≤ (0x5a :: frame).length ∧
      ∃ w', promptSteps P.u 3 w = some w' ∧ (Server.getUser w'.srv P.u).fragsize = (Server.getUser w.srv P.u).fragsize ∧
        (Server.getUser w'.srv P.u).tunIp = (Server.getUser w.srv P.u).tunIp ∧ w'.tunS = w.tunS ∧
        w'.cs.c.selecttimeout = w.cs.c.selecttimeout ∧
        ((D < (0x5a :: frame).length → ∃ c0, DownPing P (0x5a :: frame) w' c0 sq 0 D 0 ∧ w'.tunC = w.tunC) ∧
         (D = (0x5a :: frame).length → QuietImm P w' ∧ w'.tunC = w.tunC ++ [tunImage frame] ∧
            (Server.getUser w'.srv P.u).lastPkt = w'.srv.now ∧ w'.cs.c.lastdownstreamtime = w'.cs.c.now ∧
            w'.cs.c.selecttimeout = w.cs.c.selecttimeout ∧ w'.cs.c.sendPingSoon ≤ 5)) := by
  generalize hT : ((Client.selectOf w.cs.c).to / 1000000).toNat = T at hexp hlive
  have hsqr : 0 ≤ sq ∧ sq < 8 := by rw [← hW.1]; exact h.cst.iseq
  have hlen0 : (0x5a :: frame).length ≠ 0 := by simp
  have hq0 : quiet P.u w = false := quiet_false_of_out (by rw [h.srv.op]; exact hlen0)
  -- step 1: the client polls
  obtain ⟨name, c1, hs0, hc1, hpq⟩ := poll_step hP h.ph h.cst h.idleC h.up h.down hto (timeoutS_idle h.srv.ping)
    (by rw [hT]; exact hexp) hq0
  rw [hT] at hs0
  have hc1fr : c1 = { w.cs.c with now := c1.now } := by rw [hc1]; rfl
  have hc1now : c1.now = w.cs.c.now + T := by rw [hc1, advanceClock_now, hT]
  have hc1st : CStat P c1 := by
    rw [hc1fr]
    have hc := h.cst
    exact ⟨hc.running, hc.conn, hc.imm, hc.uid, hc.uch, hc.td, hc.L, hc.enc, hc.ty, hc.cid, hc.cmc,
      by show ¬ w.cs.c.lastdownstreamtime + 60 < c1.now; rw [hc1now]; exact hexp, hc.oseq, hc.iseq, hc.ifrag, hc.seed⟩
  generalize hs1def : ({ w.srv with now := w.srv.now + T } : Server.Srv) = s1 at hs0
  have hs1u : Server.getUser s1 P.u = Server.getUser w.srv P.u := by subst hs1def; rfl
  have hs1now : s1.now = w.srv.now + T := by subst hs1def; rfl
  have hS1 : SStat P s1 := by subst hs1def; exact h.srv.stat.advance T hlive
  have hps1 : PingSrv P s1 := ⟨hS1, by rw [hs1u]; exact h.srv.q, by rw [hs1u]; exact h.srv.qs, by rw [hs1u]; exact h.srv.lz,
    by rw [hs1u]; exact h.srv.oq, by rw [hs1u]; exact h.srv.res⟩
  generalize hw1 : ({ w with cs := ⟨pingState c1, .tunnel⟩, srv := s1, up := [.query (pingState c1).chunkid P.ty name] } : W) = w1 at hs0
  have hw1srv : w1.srv = s1 := by subst hw1; rfl
  have hw1up : w1.up = [.query (pingState c1).chunkid P.ty name] := by subst hw1; rfl
  have hw1down : w1.down = [] := by subst hw1; exact h.down
  have hseed : c1.randSeed = w.cs.c.randSeed := by rw [hc1fr]
  have hcmc : c1.datacmc = w.cs.c.datacmc := by rw [hc1fr]
  -- step 2: the server answers with the first fragment
  obtain ⟨s', pkt, hs1, hq1, hap, hA', hPA'⟩ := up_answer hP hw1up hw1down (by rw [hw1srv]; exact hps1) hpq
    (by rw [hw1srv, hs1u]; exact h.aged) (by rw [hw1srv, hs1u]; exact h.paged)
  rw [hw1srv] at hap
  generalize hx0 : ({ Server.getUser s1 P.u with qsNew := false } : Server.Session) = x0
  have hslot : Server.getUser s' P.u = pingZ x0 P.u (upQuery (pingState c1).chunkid P.ty name) w.cs.c.inpkt.seqno w.cs.c.inpkt.fragment s1.now := by
    rw [afterPing_slot hap, hx0]
  obtain ⟨D, hDdef, hzo, hzr, hDpos, hDle, yy, hyev, hyo, hyi⟩ := pingZ_first x0 P.u (upQuery (pingState c1).chunkid P.ty name)
    w.cs.c.inpkt.seqno w.cs.c.inpkt.fragment s1.now (0x5a :: frame) sq rfl
    (by subst hx0; rw [hs1u]; exact h.srv.oq)
    (by subst hx0; show (Server.getUser s1 P.u).outfragresent = 0; rw [hs1u]; exact h.res0)
    (by subst hx0; show (Server.getUser s1 P.u).outpacket = _; rw [hs1u]; exact h.srv.op) (by simp)
    (by subst hx0; show 0 < (Server.getUser s1 P.u).fragsize; rw [hs1u]; exact h.srv.frag)
  have hfs : x0.fragsize = (Server.getUser w.srv P.u).fragsize := by subst hx0; show (Server.getUser s1 P.u).fragsize = _; rw [hs1u]
  rw [hfs] at hDdef
  rw [← hslot] at hzo hzr
  have hpkt : pkt = Server.scPkt yy D := by
    have h1 := hap.pkt
    rw [hx0, hyev] at h1
    have h2 := List.cons.inj h1
    have h3 : Server.writeDns (upQuery (pingState c1).chunkid P.ty name) (Server.scPkt yy D) x0.downenc (.chunk P.u) =
        Server.writeDns (upQuery (pingState c1).chunkid P.ty name) pkt (Server.getUser s1 P.u).downenc (.chunk P.u) := h2.1
    unfold Server.writeDns at h3
    injection h3 with _ _ _ _ _ h9
    exact h9.symm
  have hos : 0 ≤ (Server.getUser s' P.u).outpacket.seqno ∧ (Server.getUser s' P.u).outpacket.seqno < 8 := by
    rw [hzo]; split <;> exact hsqr
  have hof : 0 ≤ (Server.getUser s' P.u).outpacket.fragment ∧ (Server.getUser s' P.u).outpacket.fragment < 16 := by
    rw [hzo]; split <;> (show (0 : Int) ≤ 0 ∧ (0 : Int) < 16; omega)
  obtain ⟨hps, hfs', hin', htun', _⟩ := pingSrv_after hps1 rfl hap hos hof (by rw [hzr]; split <;> omega)
  rw [hs1u] at hfs' hin' htun'
  -- the fragment as the client sees it
  have hfp := fragPkt_of yy (0x5a :: frame) sq 0 D 0 hyo (by omega) hsqr (by omega)
    (by rw [hyi]; subst hx0; show 0 ≤ (Server.getUser s1 P.u).inpacket.seqno ∧ _; rw [hs1u]; exact h.srv.stat.x.iseq)
    (by rw [hyi]; subst hx0; show 0 ≤ (Server.getUser s1 P.u).inpacket.fragment ∧ _; rw [hs1u]; exact h.srv.stat.x.ifrag)
  rw [← hpkt] at hfp
  generalize hw2 : ({ w1 with up := [], srv := s', down := [.ans (pingState c1).chunkid P.ty name pkt] } : W) = w2 at hs1
  have hw2cs : w2.cs = ⟨pingState c1, .tunnel⟩ := by subst hw2; subst hw1; rfl
  have hw2up : w2.up = [] := by subst hw2; rfl
  have hw2down : w2.down = [.ans (pingState c1).chunkid P.ty name pkt] := by subst hw2; rfl
  have hq2 : quiet P.u w2 = false := quiet_false_of_down _ _ _ _ hw2down
  have hpf := pingFacts c1
  have hcst := cstat_pingState hc1st
  generalize hrq : (Client.Rq.mk (pkt.length : Int) (pingState c1).chunkid (answerType P.ty) 0 (name.headD 0) pkt) = rq
  have hci : cliInput (.ans (pingState c1).chunkid P.ty name pkt) = .rq rq := by subst hrq; rfl
  have hidle : Client.isSending (pingState c1) = false := by
    unfold Client.isSending; rw [hpf.outpkt, hc1fr]; exact h.idleC
  have hrok : RecvOk P (pingState c1) rq pkt := by
    subst hrq
    refine ⟨hcst, hidle, hpf.sps, ?_, rfl, rfl, rfl⟩
    show name.headD 0 = 112
    have h0 : name.getD 0 0 = 112 := hpq.c0
    rw [headD_eq_getD, h0]
  have hinp : (pingState c1).inpkt = w.cs.c.inpkt := by rw [hpf.inpkt, hc1fr]
  have hE : CExpectW (pingState c1) (0x5a :: frame) sq 0 0 := (hW.congr hinp).toW _
  have hdup : sq = (pingState c1).inpkt.seqno ∨ Client.recentSeqno (pingState c1).inpkt.seqno sq = false := by
    left
    rw [hinp]; exact hW.1.symm
  refine ⟨D, hDdef, hDpos, hDle, ?_⟩
  have hsu : (Server.getUser s' P.u).inpacket.seqno = w.cs.c.outpkt.seqno := by rw [hin']; exact h.syncu
  by_cases hlast : D = (0x5a :: frame).length
  · -- the whole packet fits the first fragment
    have hfl : FragPkt pkt (0x5a :: frame) sq 0 D 0 true := by
      have : decide ((0x5a :: frame).length > 0 ∧ (0x5a :: frame).length = 0 + D) = true := by
        rw [decide_eq_true_iff]; omega
      rw [this] at hfp; exact hfp
    have hstep := recv_lastW hrok hfl hDpos hdup hE hsqr (by omega) (by omega) h64
    generalize hc2 : lastState (pingState c1) (0x5a :: frame) sq 0 D 0 = c2 at hstep
    have hc2st : CStat P c2 := by rw [← hc2]; exact cstat_last hcst _ sq _ D _ hsqr (by omega)
    have hs2 : step w2 (promptEv w2) =
        { w2 with down := [], cs := ⟨c2, .tunnel⟩, tunC := w2.tunC ++ [tunImage frame] } := by
      rw [promptEv_down w2 _ _ hw2up hw2down, step_deliverDown w2 _ _ hw2down, hci,
        stepC_of { w2 with down := [] } (.rq rq) ⟨c2, .tunnel⟩ [Client.writeTun frame] (.sel (Client.selectOf c2))
          (by show Client.cstep w2.cs _ = _; rw [hw2cs]; exact hstep)
          (by show c2.now = w2.cs.c.now; rw [hw2cs, ← hc2]; rfl)]
      rw [tunOfC_writeTun frame h4]
      have hno : upOfEvents [Client.writeTun frame] = [] := rfl
      rw [hno]
      subst hw2
      simp
    refine ⟨{ w2 with down := [], cs := ⟨c2, .tunnel⟩, tunC := w2.tunC ++ [tunImage frame] }, ?_, ?_, ?_, ?_, ?_, ?_, ?_⟩
    · rw [promptSteps_succ hq0, hs0, promptSteps_succ hq1, hs1, promptSteps_succ hq2, hs2]; rfl
    · subst hw2; subst hw1; exact hfs'
    · subst hw2; subst hw1; exact htun'
    · subst hw2; subst hw1; rfl
    · show c2.selecttimeout = w.cs.c.selecttimeout
      rw [← hc2]; show (pingState c1).selecttimeout = _; rw [hpf.selto, hc1fr]
    · intro hc; omega
    · intro _
      subst hw2; subst hw1
      rw [if_pos hlast] at hzo hzr
      have hlp : (Server.getUser s' P.u).lastPkt = s'.now := by
        rw [hslot, (pingZ_q x0 P.u _ _ _ s1.now rfl (by subst hx0; show (Server.getUser s1 P.u).oqFilled = 0; rw [hs1u]; exact h.srv.oq)
          (by subst hx0; show (Server.getUser s1 P.u).outfragresent ≤ 5; rw [hs1u, h.res0]; omega)).2, hap.now]
      refine ⟨⟨rfl, hc2st, ?_, rfl, rfl, hps.stat, ⟨by rw [hzo], hps.q, hps.qs, hps.lz⟩, hps.oq, ?_, ?_, ?_, ?_⟩, rfl, hlp, ?_, ?_, ?_⟩
      rotate_left 5
      · show c2.lastdownstreamtime = c2.now
        rw [← hc2]; rfl
      · show c2.selecttimeout = w.cs.c.selecttimeout
        rw [← hc2]
        show (pingState c1).selecttimeout = _
        rw [hpf.selto, hc1fr]
      · show c2.sendPingSoon ≤ 5
        rw [← hc2]; show 5 ≤ 5; omega
      · rw [← hc2]; exact hidle
      · show (Server.getUser s' P.u).inpacket.seqno = c2.outpkt.seqno
        rw [hsu, ← hc2]
        show w.cs.c.outpkt.seqno = (pingState c1).outpkt.seqno
        rw [hpf.outpkt, hc1fr]
      · show (Server.getUser s' P.u).outpacket.seqno = c2.inpkt.seqno
        rw [hzo, ← hc2]; rfl
      · show Aged P (Server.getUser s' P.u) c2.datacmc 1
        have : c2.datacmc = w.cs.c.datacmc := by rw [← hc2]; show (pingState c1).datacmc = _; rw [hpf.datacmc, hcmc]
        rw [this]; exact hA'
      · show PAged P (Server.getUser s' P.u) c2.randSeed 1
        have : c2.randSeed = (w.cs.c.randSeed + 1) % 65536 := by rw [← hc2]; show (pingState c1).randSeed = _; rw [hpf.seed, hseed]
        rw [this]; exact hPA'
  · -- more fragments follow: the client acknowledges at once
    have hlt : D < (0x5a :: frame).length := by omega
    have hfl : FragPkt pkt (0x5a :: frame) sq 0 D 0 false := by
      have : decide ((0x5a :: frame).length > 0 ∧ (0x5a :: frame).length = 0 + D) = false := by
        rw [decide_eq_false_iff_not]; omega
      rw [this] at hfp; exact hfp
    obtain ⟨name', hstep, hsend', hpq'⟩ := recv_midW hP hrok hfl hDpos hdup hE hsqr (by omega) (by omega) h64
    generalize hc3 : midState (pingState c1) (0x5a :: frame) sq 0 D 0 = c3 at hstep hsend' hpq'
    have hc3st : CStat P c3 := by rw [← hc3]; exact cstat_mid hcst _ sq _ D _ hsqr (by omega)
    have hs2 : step w2 (promptEv w2) =
        { w2 with down := [], cs := ⟨pingState c3, .tunnel⟩, up := [.query (pingState c3).chunkid P.ty name'] } := by
      rw [promptEv_down w2 _ _ hw2up hw2down, step_deliverDown w2 _ _ hw2down, hci,
        stepC_of { w2 with down := [] } (.rq rq) ⟨pingState c3, .tunnel⟩ [.query (pingState c3).chunkid P.ty name']
          (.sel (Client.selectOf (pingState c3)))
          (by show Client.cstep w2.cs _ = _; rw [hw2cs]; exact hstep)
          (by show (pingState c3).now = w2.cs.c.now; rw [(pingFacts c3).now, hw2cs, ← hc3]; rfl)]
      subst hw2
      simp [upOfEvents, tunOfCEvents]
    refine ⟨{ w2 with down := [], cs := ⟨pingState c3, .tunnel⟩, up := [.query (pingState c3).chunkid P.ty name'] }, ?_, ?_, ?_, ?_, ?_, ?_, ?_⟩
    · rw [promptSteps_succ hq0, hs0, promptSteps_succ hq1, hs1, promptSteps_succ hq2, hs2]; rfl
    · subst hw2; subst hw1; exact hfs'
    · subst hw2; subst hw1; exact htun'
    · subst hw2; subst hw1; rfl
    · show (pingState c3).selecttimeout = w.cs.c.selecttimeout
      rw [(pingFacts c3).selto, ← hc3]; show (pingState c1).selecttimeout = _; rw [hpf.selto, hc1fr]
    · intro _
      subst hw2; subst hw1
      rw [if_neg hlast] at hzo hzr
      refine ⟨c3, ⟨rfl, hc3st, ?_, rfl, ?_, rfl, ?_, ⟨hps.stat, hps.q, hps.qs, hps.lz, hps.oq, hzo, by rw [hzr]; omega,
        by rw [hfs']; exact h.srv.frag⟩, hDpos, by omega, ?_, ?_, ?_⟩, rfl⟩
      · rw [← hc3]; exact hidle
      · show [UpD.query (pingState c3).chunkid P.ty name'] = upOfEvents (Client.sendPing c3).evs
        rw [hsend']; rfl
      · rw [← hc3]
        refine ⟨rfl, rfl, rfl, ?_⟩
        show ((0x5a :: frame).take (0 + D)).take (0 + D) = _
        rw [List.take_take, Nat.min_self]
      · show (Server.getUser s' P.u).inpacket.seqno = c3.outpkt.seqno
        rw [hsu, ← hc3]
        show w.cs.c.outpkt.seqno = (pingState c1).outpkt.seqno
        rw [hpf.outpkt, hc1fr]
      · show Aged P (Server.getUser s' P.u) c3.datacmc 1
        have : c3.datacmc = w.cs.c.datacmc := by rw [← hc3]; show (pingState c1).datacmc = _; rw [hpf.datacmc, hcmc]
        rw [this]; exact hA'
      · show PAged P (Server.getUser s' P.u) c3.randSeed 1
        have : c3.randSeed = (w.cs.c.randSeed + 1) % 65536 := by rw [← hc3]; show (pingState c1).randSeed = _; rw [hpf.seed, hseed]
        rw [this]; exact hPA'
    · intro hc; omega

/-- **down_packet_imm_desync7_ok** (`d = 7`, the "weird situation").  From a quiescent joint state in which the server's
downstream sequence number is 7 ahead of the client's — so that the NEW packet carries the client's CURRENT number —, the
client's last fragment number being 0 and its reassembly buffer empty (`inpkt.len = 0`), with the timer room of
`down_packet_imm`: the conclusion of `down_packet_imm` — after `downSteps g` steps the joint state is quiescent AND
SYNCHRONISED, the client has written exactly the offered frame to its tun device, the server nothing. -/
theorem down_packet_imm_desync7_ok {P : Par} (hP : P.Ok) {w : W} (hq : QuietImmD P 0 7 w)
    (hfr : w.cs.c.inpkt.fragment = 0) (hlen0 : w.cs.c.inpkt.len = 0) (frame : List Nat)
    (hF : 0 < (Server.getUser w.srv P.u).fragsize)
    (hok : DownFrameOk (Server.getUser w.srv P.u).tunIp (Server.getUser w.srv P.u).fragsize frame)
    (hto : (Client.selectOf w.cs.c).to < 10000000)
    (hexp : ¬ w.cs.c.lastdownstreamtime + 60 < w.cs.c.now + ((Client.selectOf w.cs.c).to / 1000000).toNat)
    (hlive : w.srv.now + ((Client.selectOf w.cs.c).to / 1000000).toNat < (Server.getUser w.srv P.u).lastPkt + 60) :
    ∃ w', promptSteps P.u (downSteps (downFrags (Server.getUser w.srv P.u).fragsize (frame.length + 1) (frame.length + 1)))
        (step w (.offerS frame)) = some w' ∧
      QuietImm P w' ∧ w'.tunC = w.tunC ++ [tunImage frame] ∧ w'.tunS = w.tunS ∧
      (Server.getUser w'.srv P.u).fragsize = (Server.getUser w.srv P.u).fragsize ∧
      (Server.getUser w'.srv P.u).tunIp = (Server.getUser w.srv P.u).tunIp ∧
      (Server.getUser w'.srv P.u).lastPkt = w'.srv.now ∧ w'.cs.c.lastdownstreamtime = w'.cs.c.now ∧
      w'.cs.c.selecttimeout = w.cs.c.selecttimeout ∧ w'.cs.c.sendPingSoon ≤ 5 := by
  generalize hFdef : (Server.getUser w.srv P.u).fragsize = F at hok hF ⊢
  obtain ⟨w1, hw1, hidle, ht1, ht2, htip1, hfs1, hnow1, hlp1, hcs1⟩ := down_offerD hP hq frame hok.h24 hok.hl hok.dst (by rw [hFdef]; exact hF)
  rw [hw1]
  have hlen : (0x5a :: frame).length = frame.length + 1 := by simp
  obtain ⟨D, hD, hDpos, hDle, w2, hs, hfs2, htip2, hts2, hsel2, hmid, hwhole⟩ := down_firstW hP hidle
    ⟨by rw [hcs1]; have := hq.cst.iseq; omega, by rw [hcs1]; exact hfr, by rw [hcs1]; exact hlen0⟩ (by rw [hlen]; have := hok.hl; omega)
    (by have := hok.h24; omega) (by rw [hcs1]; exact hto) (by rw [hcs1]; exact hexp) (by rw [hcs1, hnow1, hlp1]; exact hlive)
  rw [hfs1, hFdef, hlen] at hD
  have hu : downFrags F (frame.length + 1) (frame.length + 1) = 1 + downFrags F frame.length (frame.length + 1 - D) := by
    show (if frame.length + 1 = 0 then 0 else 1 + downFrags F frame.length (frame.length + 1 - downLen F (frame.length + 1))) = _
    rw [if_neg (by omega), hD]
  rw [hu]
  rw [hlen] at hmid hwhole hDle
  by_cases he : D = frame.length + 1
  · obtain ⟨hq2, htc, hx1, hx2, hx3, hx4⟩ := hwhole he
    have hz : frame.length + 1 - D = 0 := by omega
    rw [hz, downFrags_zero]
    refine ⟨w2, by simpa [downSteps] using hs, hq2, by rw [htc, ht2], by rw [hts2, ht1], by rw [hfs2, hfs1, hFdef], by rw [htip2, htip1],
      hx1, hx2, by rw [hx3, hcs1], hx4⟩
  · obtain ⟨c0, hping, htc⟩ := hmid (by omega)
    have hfr := hok.frags
    rw [hu] at hfr
    obtain ⟨w', h1, h2, h3, h4, h5, h6, h7, h8, h9, h10⟩ := down_loop hP (frame := frame) (by rw [hlen]; have := hok.hl; omega) (by have := hok.h24; omega) F
      frame.length w2 c0 0 D 0 hping (by rw [hfs2, hfs1, hFdef]) (by rw [hlen]; omega) (by rw [hlen]; simp only [Nat.zero_add]; omega)
    rw [hlen] at h1
    simp only [Nat.zero_add] at h1
    have hg1 : 1 ≤ downFrags F frame.length (frame.length + 1 - D) := by
      cases hfl : frame.length with
      | zero => have := hok.h24; omega
      | succ k =>
        have : k + 1 + 1 - D ≠ 0 := by omega
        show 1 ≤ (if k + 1 + 1 - D = 0 then 0 else 1 + downFrags F k (k + 1 + 1 - D - downLen F (k + 1 + 1 - D)))
        rw [if_neg this]; omega
    have hc0sel : c0.selecttimeout = w.cs.c.selecttimeout := by
      have e1 : w2.cs.c = pingState c0 := hping.cli
      have := hsel2
      rw [e1, (pingFacts c0).selto, hcs1] at this
      exact this
    refine ⟨w', ?_, h2, by rw [h3, htc, ht2], by rw [h4, hts2, ht1], by rw [h5], by rw [h6, htip2, htip1], h7, h8, by rw [h9, hc0sel], h10⟩
    have := promptSteps_add P.u 3 (2 * downFrags F frame.length (frame.length + 1 - D) + 3) w1 w2 hs
    rw [h1] at this
    rw [← this]
    congr 1
    unfold downSteps
    rw [if_neg (by omega)]
    omega

end Iodine.C02L
