import IodineModel.Lemmas.C02qB1
/-
C02, phase 2, sub-package "blackout" — part 2: the give-up run in the joined model, step by step.

`UpLost P out w0 w r`: relative to the quiescent state `w0` in which the frame was offered, the client has the first fragment
of the packet `out` in flight, resent `r` times, that datagram is on its way (and will be lost), and NOTHING else moved except
the clocks (`r` seconds).  Offer → `UpLost 0`; `dropUp, tickC` takes `UpLost r` to `UpLost (r+1)` for `r < 3`;
`dropUp, tickC, dropUp` takes `UpLost 3` to the state `GaveUp`.
-/
namespace Iodine.C02L
open Iodine Iodine.Gen Iodine.World

/-! ### the blackout schedule's choices -/

theorem blackoutEvUp_drop (w : W) (d : UpD) (rest : List UpD) (h : w.up = d :: rest) : blackoutEvUp w = .dropUp := by
  unfold blackoutEvUp
  simp [h]

theorem blackoutEvUp_tickC (w : W) (hup : w.up = []) (hdown : w.down = []) (hph : w.cs.ph = .tunnel)
    (hto : (Client.selectOf w.cs.c).to < 10000000) (hts : timeoutS w = 10000000) : blackoutEvUp w = .tickC := by
  unfold blackoutEvUp
  have htc : timeoutC w = some (Client.selectOf w.cs.c).to := by
    unfold timeoutC Client.pending
    rw [hph]
  simp only [hup, hdown, List.isEmpty_nil, Bool.not_true, Bool.false_eq_true, if_false, htc, hts]
  rw [if_neg (by omega)]

/-- the server's `select` timeout when the only live session has nothing waiting to be sent "real soon": 10 s -/
theorem timeoutS_withNow {u : Nat} {s : Server.Srv} (hS : Solo u s) (hqs : (Server.getUser s u).qs.id = 0) (w : W) (n : Nat)
    (hw : w.srv = { s with now := n }) : timeoutS w = 10000000 := by
  unfold timeoutS
  rw [hw, topOfLoop_timeout (hS.withNow n), if_neg (by intro hc; exact hc.2 hqs)]

theorem runSched_two (ev : W → Ev) (w : W) : runSched ev 2 w = step (step w (ev w)) (ev (step w (ev w))) := rfl

theorem runSched_three (ev : W → Ev) (w : W) :
    runSched ev 3 w = step (step (step w (ev w)) (ev (step w (ev w)))) (ev (step (step w (ev w)) (ev (step w (ev w))))) := rfl

theorem step_dropUp_one (w : W) (d : UpD) (h : w.up = [d]) : step w .dropUp = { w with up := [] } := by
  show { w with up := w.up.drop 1 } = _
  rw [h]; rfl

/-! ### the invariant of the run -/

/-- see the head of the file -/
structure UpLost (P : Par) (out : List Nat) (w0 w : W) (r : Nat) : Prop where
  ph : w.cs.ph = .tunnel
  ready : CReady P w.cs.c out 0 0
  res : w.cs.c.outchunkresent = r
  sps : w.cs.c.sendPingSoon = 0
  up : ∃ d, w.up = [d]
  down : w.down = []
  srv : w.srv = { w0.srv with now := w0.srv.now + r }
  tunS : w.tunS = w0.tunS
  tunC : w.tunC = w0.tunC
  now : w.cs.c.now = w0.cs.c.now + r
  ldt : w.cs.c.lastdownstreamtime = w0.cs.c.lastdownstreamtime
  cmc : w.cs.c.datacmc = (w0.cs.c.datacmc + r + 1) % 36
  seed : w.cs.c.randSeed = w0.cs.c.randSeed
  inpkt : w.cs.c.inpkt = w0.cs.c.inpkt
  oseq : w.cs.c.outpkt.seqno = (w0.cs.c.outpkt.seqno + 1) % 8
  selto : w.cs.c.selecttimeout = w0.cs.c.selecttimeout

/-- `offerC` in a quiescent (possibly desynchronised) state: the frame is read, compressed, and its first fragment goes out -/
theorem uplost_offer {P : Par} (hP : P.Ok) {w : W} {du dd sl sp : Nat} (hq : QuietImmDS P du dd sl sp w) (frame : List Nat)
    (hne : frame ≠ []) (hl : frame.length < 65536) (hb : Codec.Bytes frame) :
    UpLost P (0x5a :: frame) w (step w (.offerC frame)) 0 := by
  have hcs := cstate_eta w.cs hq.ph
  have hready := newPacket_ready hq.cst frame hl hb
  obtain ⟨name, hsend, _, _, _⟩ := send_ready hP hready
  have hsf := sentFacts (newPacket w.cs.c frame)
  have hsel : tunSelC w = true := by
    unfold tunSelC Client.pending
    rw [hq.ph]
    simp [Client.selectOf, hq.idleC]
  have hstep : Client.cstep w.cs (.tun frame) =
      (⟨{ sentState (newPacket w.cs.c frame) with sendPingSoon := 0 }, .tunnel⟩,
       [] ++ (Client.sendChunk (newPacket w.cs.c frame)).evs,
       .sel (Client.selectOf { sentState (newPacket w.cs.c frame) with sendPingSoon := 0 })) := by
    rw [hcs, cstep_tun w.cs.c frame hq.cst.running hq.cst.alive hq.idleC hne hq.cst.conn]
    rw [settle_afterSend _ _ _ (by rw [hsend]) (by rw [hsend]; have := hsf.running; simpa using this.trans hq.cst.running)]
    rw [hsend]
  rw [step_offerC w frame hsel, stepC_of w _ _ _ _ hstep (by show _ = w.cs.c.now; exact hsf.now)]
  have hs : Client.sChar ((w.cs.c.outpkt.seqno + 1) % 8) = (w.cs.c.outpkt.seqno + 1) % 8 := sChar_small _ (by omega)
  refine ⟨rfl, hready.sent, ?_, hsf.sps, ⟨.query (sentState (newPacket w.cs.c frame)).chunkid P.ty name, ?_⟩, hq.down, rfl, rfl, ?_, hsf.now, hsf.ldt, ?_, hsf.seed, hsf.inpkt, ?_, hsf.selto⟩
  · show ({ sentState (newPacket w.cs.c frame) with sendPingSoon := 0 } : Client.Cli).outchunkresent = 0
    simp [sentState, Client.rotateChunkid, newPacket]
  · show w.up ++ upOfEvents ([] ++ (Client.sendChunk (newPacket w.cs.c frame)).evs) = _
    rw [hq.up, hsend]; rfl
  · show w.tunC ++ tunOfCEvents ([] ++ (Client.sendChunk (newPacket w.cs.c frame)).evs) = w.tunC
    rw [hsend]
    simp [tunOfCEvents]
  · show ({ sentState (newPacket w.cs.c frame) with sendPingSoon := 0 } : Client.Cli).datacmc = _
    rw [hsf.cmc]
    show (if w.cs.c.datacmc + 1 ≥ 36 then 0 else w.cs.c.datacmc + 1) = _
    have := hq.cst.cmc
    split <;> omega
  · show ({ sentState (newPacket w.cs.c frame) with sendPingSoon := 0 } : Client.Cli).outpkt.seqno = _
    rw [hsf.oseq]
    exact hs

/-- one lost datagram and the resend that follows: `dropUp`, `tickC` -/
theorem uplost_resend {P : Par} (hP : P.Ok) {out : List Nat} {w0 w : W} {r : Nat} (h : UpLost P out w0 w r) (hr : r < 3)
    (hS : Solo P.u w0.srv) (hqs : (Server.getUser w0.srv P.u).qs.id = 0)
    (ha : ¬ w0.cs.c.lastdownstreamtime + 60 < w0.cs.c.now + r + 1) :
    UpLost P out w0 (runSched blackoutEvUp 2 w) (r + 1) := by
  obtain ⟨d, hd⟩ := h.up
  have hcs := cstate_eta w.cs h.ph
  have ha' : ¬ w.cs.c.lastdownstreamtime + 60 < w.cs.c.now + 1 := by rw [h.ldt, h.now]; exact ha
  obtain ⟨name, hstep⟩ := cstep_resend hP h.ready h.sps (by rw [h.res]; exact hr) ha'
  have rf := resentFacts w.cs.c
  have e1 : blackoutEvUp w = .dropUp := blackoutEvUp_drop w d [] hd
  have hw1 : step w .dropUp = { w with up := [] } := step_dropUp_one w d hd
  have e2 : blackoutEvUp { w with up := [] } = .tickC :=
    blackoutEvUp_tickC _ rfl h.down h.ph (by show (Client.selectOf w.cs.c).to < _; rw [selectOf_sending _ h.ready.sending h.sps]; omega)
      (timeoutS_withNow hS hqs _ _ h.srv)
  have hstep' : Client.cstep ({ w with up := [] } : W).cs .tick =
      (⟨resentState w.cs.c, .tunnel⟩, [.query (resentState w.cs.c).chunkid P.ty name],
        .sel (Client.selectOf (resentState w.cs.c))) := by
    show Client.cstep w.cs .tick = _
    rw [hcs]; exact hstep
  rw [runSched_two, e1, hw1, e2, step_tickC, stepC_tick _ _ _ _ hstep']
  have hdt : (resentState w.cs.c).now - w.cs.c.now = 1 := by rw [rf.now]; omega
  refine ⟨rfl, h.ready.resent ha', ?_, rf.sps, ⟨_, rfl⟩, h.down, ?_, h.tunS, ?_, ?_, ?_, ?_, ?_, ?_, ?_, ?_⟩
  · show (resentState w.cs.c).outchunkresent = r + 1
    rw [rf.res, h.res]
  · show ({ w.srv with now := w.srv.now + ((resentState w.cs.c).now - w.cs.c.now) } : Server.Srv) = _
    rw [hdt, h.srv]
    show ({ w0.srv with now := w0.srv.now + r + 1 } : Server.Srv) = _
    rw [Nat.add_assoc]
  · show w.tunC ++ tunOfCEvents [.query (resentState w.cs.c).chunkid P.ty name] = w0.tunC
    rw [← h.tunC]
    simp [tunOfCEvents]
  · show (resentState w.cs.c).now = _
    rw [rf.now, h.now]; omega
  · show (resentState w.cs.c).lastdownstreamtime = _
    rw [rf.ldt, h.ldt]
  · show (resentState w.cs.c).datacmc = _
    rw [rf.cmc, h.cmc]
    split <;> omega
  · show (resentState w.cs.c).randSeed = _
    rw [rf.seed, h.seed]
  · show (resentState w.cs.c).inpkt = _
    rw [rf.inpkt, h.inpkt]
  · show (resentState w.cs.c).outpkt.seqno = _
    rw [rf.oseq, h.oseq]
  · show (resentState w.cs.c).selecttimeout = _
    rw [rf.selto, h.selto]

/-- the state after the give-up, relative to the state `w0` in which the frame was offered -/
structure GaveUp (P : Par) (w0 w : W) : Prop where
  ph : w.cs.ph = .tunnel
  cst : CStat P w.cs.c
  idleC : Client.isSending w.cs.c = false
  up : w.up = []
  down : w.down = []
  srv : w.srv = { w0.srv with now := w0.srv.now + 4 }
  tunS : w.tunS = w0.tunS
  tunC : w.tunC = w0.tunC
  now : w.cs.c.now = w0.cs.c.now + 4
  ldt : w.cs.c.lastdownstreamtime = w0.cs.c.lastdownstreamtime
  cmc : w.cs.c.datacmc = (w0.cs.c.datacmc + 4) % 36
  seed : w.cs.c.randSeed = (w0.cs.c.randSeed + 1) % 65536
  inpkt : w.cs.c.inpkt = w0.cs.c.inpkt
  oseq : w.cs.c.outpkt.seqno = (w0.cs.c.outpkt.seqno + 1) % 8
  selto : w.cs.c.selecttimeout = w0.cs.c.selecttimeout
  res : w.cs.c.outchunkresent = 0
  sps : w.cs.c.sendPingSoon = 0

/-- the third resend is lost, the client gives the packet up and pings, the ping is lost too: `dropUp`, `tickC`, `dropUp` -/
theorem uplost_giveup {P : Par} (hP : P.Ok) {out : List Nat} {w0 w : W} (h : UpLost P out w0 w 3)
    (hS : Solo P.u w0.srv) (hqs : (Server.getUser w0.srv P.u).qs.id = 0)
    (ha : ¬ w0.cs.c.lastdownstreamtime + 60 < w0.cs.c.now + 4) :
    GaveUp P w0 (runSched blackoutEvUp 3 w) := by
  obtain ⟨d, hd⟩ := h.up
  have hcs := cstate_eta w.cs h.ph
  have ha' : ¬ w.cs.c.lastdownstreamtime + 60 < w.cs.c.now + 1 := by rw [h.ldt, h.now]; exact ha
  obtain ⟨name, hstep, -⟩ := cstep_giveup hP h.ready h.sps (by rw [h.res]; omega) ha'
  have gf := gaveupFacts w.cs.c
  obtain ⟨gc, gi⟩ := gaveup_cstat h.ready.stat ha'
  have e1 : blackoutEvUp w = .dropUp := blackoutEvUp_drop w d [] hd
  have hw1 : step w .dropUp = { w with up := [] } := step_dropUp_one w d hd
  have e2 : blackoutEvUp { w with up := [] } = .tickC :=
    blackoutEvUp_tickC _ rfl h.down h.ph (by show (Client.selectOf w.cs.c).to < _; rw [selectOf_sending _ h.ready.sending h.sps]; omega)
      (timeoutS_withNow hS hqs _ _ h.srv)
  have hstep' : Client.cstep ({ w with up := [] } : W).cs .tick =
      (⟨gaveupState w.cs.c, .tunnel⟩, [.query (gaveupState w.cs.c).chunkid P.ty name],
        .sel (Client.selectOf (gaveupState w.cs.c))) := by
    show Client.cstep w.cs .tick = _
    rw [hcs]; exact hstep
  have hdt : (gaveupState w.cs.c).now - w.cs.c.now = 1 := by rw [gf.now]; omega
  rw [runSched_three, e1, hw1, e2, step_tickC, stepC_tick _ _ _ _ hstep']
  generalize hw2 : ({ ({ w with up := [] } : W) with
      cs := ⟨gaveupState w.cs.c, .tunnel⟩,
      srv := { ({ w with up := [] } : W).srv with now := ({ w with up := [] } : W).srv.now + ((gaveupState w.cs.c).now - ({ w with up := [] } : W).cs.c.now) },
      up := ({ w with up := [] } : W).up ++ upOfEvents [.query (gaveupState w.cs.c).chunkid P.ty name],
      tunC := ({ w with up := [] } : W).tunC ++ tunOfCEvents [.query (gaveupState w.cs.c).chunkid P.ty name] } : W) = w2
  have hup2 : w2.up = [.query (gaveupState w.cs.c).chunkid P.ty name] := by rw [← hw2]; rfl
  rw [blackoutEvUp_drop w2 _ [] hup2, step_dropUp_one w2 _ hup2]
  have hcs2 : w2.cs = ⟨gaveupState w.cs.c, .tunnel⟩ := by rw [← hw2]
  have hc2 : w2.cs.c = gaveupState w.cs.c := by rw [hcs2]
  refine ⟨by show w2.cs.ph = _; rw [hcs2], by show CStat P w2.cs.c; rw [hc2]; exact gc,
    by show Client.isSending w2.cs.c = false; rw [hc2]; exact gi, rfl, by show w2.down = []; rw [← hw2]; exact h.down,
    ?_, by show w2.tunS = _; rw [← hw2]; exact h.tunS, ?_, ?_, ?_, ?_, ?_, ?_, ?_, ?_, ?_, ?_⟩
  · show w2.srv = _
    rw [← hw2]
    show ({ w.srv with now := w.srv.now + ((gaveupState w.cs.c).now - w.cs.c.now) } : Server.Srv) = _
    rw [hdt, h.srv]
  · show w2.tunC = _
    rw [← hw2]
    show w.tunC ++ tunOfCEvents [.query (gaveupState w.cs.c).chunkid P.ty name] = w0.tunC
    rw [← h.tunC]
    simp [tunOfCEvents]
  · show w2.cs.c.now = _
    rw [hc2, gf.now, h.now]
  · show w2.cs.c.lastdownstreamtime = _
    rw [hc2, gf.ldt, h.ldt]
  · show w2.cs.c.datacmc = _
    rw [hc2, gf.cmc, h.cmc]
  · show w2.cs.c.randSeed = _
    rw [hc2, gf.seed, h.seed]
  · show w2.cs.c.inpkt = _
    rw [hc2, gf.inpkt, h.inpkt]
  · show w2.cs.c.outpkt.seqno = _
    rw [hc2, gf.oseq, h.oseq]
  · show w2.cs.c.selecttimeout = _
    rw [hc2, gf.selto, h.selto]
  · show w2.cs.c.outchunkresent = _
    rw [hc2, gf.res]
  · show w2.cs.c.sendPingSoon = _
    rw [hc2, gf.sps]

end Iodine.C02L
