import IodineModel.Lemmas.C11c
/-
C11, part f — lemmas about the handshake model of part b:
* the fragment size search (`fragLoop`): invariants, what the result was probed with, monotonicity, the
  all-fail path 768, 384, …, 3, 2, fuel;
* the query type search (`qtypeAutodetect`);
* `dns_namedec`: the two rotating letters at the end of a host-name answer are not looked at; Base32 answers are
  decoded to the same bytes through every map of the family.
-/
namespace Iodine.C11L
open Iodine Iodine.Gen Iodine.Codec Iodine.Encoding

/-! ### fragment size search -/

structure FragRoom (st : FragSt) : Prop where
  nonneg : 0 ≤ st.max
  /-- everything that passed so far lies at least `range` below the next proposal -/
  room : st.max + st.range ≤ st.proposed

structure FragInv (probe : Nat → ProbeRes) (st : FragSt) : Prop extends FragRoom st where
  /-- `max_fragsize` is 0 or a size that was asked and passed -/
  hit : st.max = 0 ∨ (st.max.toNat ∈ st.asked ∧ probe st.max.toNat = .ok)
  /-- … and it is the largest of the sizes asked so far that passed -/
  top : ∀ n ∈ st.asked, probe n = .ok → (n : Int) ≤ st.max

theorem fragInv_init (probe : Nat → ProbeRes) : FragInv probe fragInit :=
  ⟨⟨by decide, by decide⟩, Or.inl rfl, fun n hn => by simp [fragInit] at hn⟩

theorem fragStep_inv {probe : Nat → ProbeRes} {st : FragSt} (h : FragInv probe st) :
    ((fragStep probe st).2 = true → FragInv probe (fragStep probe st).1) ∧
    ((fragStep probe st).2 = false → (fragStep probe st).1.max = -1) := by
  obtain ⟨⟨h0, hroom⟩, hhit, htop⟩ := h
  unfold fragStep probeMax
  cases hp : probe st.proposed
  · -- ok
    have hn : ¬ ((st.proposed : Int) < 0) := by omega
    simp only [hn, if_false, if_true]
    refine ⟨fun _ => ⟨⟨?_, ?_⟩, ?_, ?_⟩, fun hf => by cases hf⟩
    · exact Int.natCast_nonneg _
    · show (st.proposed : Int) + ((st.range / 2 : Nat) : Int) ≤ ((st.proposed + st.range / 2 : Nat) : Int)
      omega
    · right
      show (st.proposed : Int).toNat ∈ st.proposed :: st.asked ∧ probe (st.proposed : Int).toNat = .ok
      rw [Int.toNat_natCast]
      exact ⟨List.mem_cons_self, hp⟩
    · intro n hn' hok
      show (n : Int) ≤ (st.proposed : Int)
      rcases List.mem_cons.mp hn' with rfl | hn'
      · exact Int.le_refl _
      · have := htop n hn' hok
        omega
  · -- bad
    have hn : ¬ (st.max < 0) := by omega
    simp only [hn, if_false]
    refine ⟨fun _ => ?_, fun hf => ?_⟩
    · split
      · refine ⟨⟨h0, ?_⟩, ?_, ?_⟩
        · show st.max + ((st.range / 2 : Nat) : Int) ≤ ((st.proposed + st.range / 2 : Nat) : Int)
          omega
        · rcases hhit with h | ⟨h1, h2⟩
          · exact Or.inl h
          · exact Or.inr ⟨List.mem_cons_of_mem _ h1, h2⟩
        · intro n hn' hok
          rcases List.mem_cons.mp hn' with rfl | hn'
          · rw [hp] at hok; cases hok
          · exact htop n hn' hok
      · refine ⟨⟨h0, ?_⟩, ?_, ?_⟩
        · show st.max + ((st.range / 2 : Nat) : Int) ≤ ((st.proposed - st.range / 2 : Nat) : Int)
          omega
        · rcases hhit with h | ⟨h1, h2⟩
          · exact Or.inl h
          · exact Or.inr ⟨List.mem_cons_of_mem _ h1, h2⟩
        · intro n hn' hok
          rcases List.mem_cons.mp hn' with rfl | hn'
          · rw [hp] at hok; cases hok
          · exact htop n hn' hok
    · split at hf <;> cases hf
  · -- fatal
    simp only [show ((-1 : Int) < 0) from by decide, if_true]
    exact ⟨fun hf => (by cases hf), fun _ => (by first | rfl | trivial)⟩

theorem fragLoop_inv {probe : Nat → ProbeRes} (fuel : Nat) {st : FragSt} (h : FragInv probe st) :
    (fragLoop probe fuel st).max = -1 ∨ FragInv probe (fragLoop probe fuel st) := by
  induction fuel generalizing st with
  | zero => exact Or.inr h
  | succ fuel ih =>
    unfold fragLoop
    split
    · have hs := fragStep_inv h
      dsimp only
      split
      · rename_i h2; exact ih (hs.1 h2)
      · rename_i h2
        exact Or.inl (hs.2 (by simpa using h2))
    · exact Or.inr h

/-- the result of the search, if positive, plus the two header bytes is a size that was asked and passed, and
no larger size that was asked passed -/
theorem autoprobe_hit {probe : Nat → ProbeRes} (hF : autoprobeFragsize probe ≠ 0) :
    (fragSearch probe).max = (autoprobeFragsize probe + 2 : Nat) ∧
    autoprobeFragsize probe + 2 ∈ (fragSearch probe).asked ∧
    probe (autoprobeFragsize probe + 2) = .ok ∧
    ∀ n ∈ (fragSearch probe).asked, probe n = .ok → n ≤ autoprobeFragsize probe + 2 := by
  unfold autoprobeFragsize at hF ⊢
  dsimp only at hF ⊢
  by_cases hm : (fragSearch probe).max ≤ 2
  · rw [if_pos hm] at hF; exact absurd rfl hF
  · rw [if_neg hm] at hF ⊢
    have hinv := fragLoop_inv 10 (fragInv_init probe)
    change (fragSearch probe).max = -1 ∨ FragInv probe (fragSearch probe) at hinv
    rcases hinv with h | h
    · omega
    · have hmax : (fragSearch probe).max = (((fragSearch probe).max - 2).toNat + 2 : Nat) := by omega
      have htn : (fragSearch probe).max.toNat = ((fragSearch probe).max - 2).toNat + 2 := by omega
      refine ⟨hmax, ?_, ?_, ?_⟩
      · rcases h.hit with h0 | ⟨h1, _⟩
        · omega
        · rw [← htn]; exact h1
      · rcases h.hit with h0 | ⟨_, h2⟩
        · omega
        · rw [← htn]; exact h2
      · intro n hn hok
        have := h.top n hn hok
        omega

theorem fragStep_nofatal {probe : Nat → ProbeRes} (nf : ∀ n, probe n ≠ .fatal) {st : FragSt} (h : FragRoom st) :
    (fragStep probe st).2 = true ∧ FragRoom (fragStep probe st).1 ∧ st.max ≤ (fragStep probe st).1.max := by
  obtain ⟨h0, hroom⟩ := h
  unfold fragStep probeMax
  cases hp : probe st.proposed
  · have hn : ¬ ((st.proposed : Int) < 0) := by omega
    simp only [hn, if_false, if_true]
    refine ⟨by first | rfl | trivial, ⟨Int.natCast_nonneg _, ?_⟩, ?_⟩
    · show (st.proposed : Int) + ((st.range / 2 : Nat) : Int) ≤ ((st.proposed + st.range / 2 : Nat) : Int)
      omega
    · show st.max ≤ (st.proposed : Int)
      omega
  · have hn : ¬ (st.max < 0) := by omega
    simp only [hn, if_false]
    split
    · refine ⟨by first | rfl | trivial, ⟨h0, ?_⟩, Int.le_refl _⟩
      show st.max + ((st.range / 2 : Nat) : Int) ≤ ((st.proposed + st.range / 2 : Nat) : Int)
      omega
    · refine ⟨by first | rfl | trivial, ⟨h0, ?_⟩, Int.le_refl _⟩
      show st.max + ((st.range / 2 : Nat) : Int) ≤ ((st.proposed - st.range / 2 : Nat) : Int)
      omega
  · exact absurd hp (nf _)

/-- without a fatal answer `max_fragsize` never decreases -/
theorem fragLoop_mono {probe : Nat → ProbeRes} (nf : ∀ n, probe n ≠ .fatal) (fuel : Nat) {st : FragSt}
    (h : FragRoom st) : st.max ≤ (fragLoop probe fuel st).max := by
  induction fuel generalizing st with
  | zero => exact Int.le_refl _
  | succ fuel ih =>
    unfold fragLoop
    split
    · obtain ⟨h1, h2, h3⟩ := fragStep_nofatal nf h
      dsimp only
      rw [if_pos h1]
      exact Int.le_trans h3 (ih h2)
    · exact Int.le_refl _

theorem fragLoop_ok_ge {probe : Nat → ProbeRes} (nf : ∀ n, probe n ≠ .fatal) (fuel p r : Nat) (a : List Nat)
    (hr : 0 < r) (hok : probe p = .ok) : (p : Int) ≤ (fragLoop probe (fuel + 1) ⟨p, r, 0, a⟩).max := by
  unfold fragLoop
  have hc : fragCond ⟨p, r, 0, a⟩ = true := by simp [fragCond, hr]
  rw [if_pos hc]
  have hs : fragStep probe ⟨p, r, 0, a⟩ = (⟨p + r / 2, r / 2, p, p :: a⟩, true) := by
    unfold fragStep probeMax
    simp only [hok]
    have hn : ¬ ((p : Int) < 0) := by omega
    simp only [hn, if_false, if_true]
  rw [hs]
  dsimp only
  rw [if_pos rfl]
  exact fragLoop_mono nf fuel (st := ⟨p + r / 2, r / 2, p, p :: a⟩) ⟨Int.natCast_nonneg _, by
    show (p : Int) + ((r / 2 : Nat) : Int) ≤ ((p + r / 2 : Nat) : Int)
    omega⟩

theorem fragLoop_bad_step {probe : Nat → ProbeRes} (fuel p r : Nat) (a : List Nat) (p' r' : Nat)
    (hr : 0 < r) (hp : p ≠ 0) (hp' : p' = p - r / 2) (hr' : r' = r / 2) (hbad : probe p = .bad) :
    fragLoop probe (fuel + 1) ⟨p, r, 0, a⟩ = fragLoop probe fuel ⟨p', r', 0, p :: a⟩ := by
  conv => lhs; unfold fragLoop
  have hc : fragCond ⟨p, r, 0, a⟩ = true := by simp [fragCond, hr]
  rw [if_pos hc]
  have hs : fragStep probe ⟨p, r, 0, a⟩ = (⟨p', r', 0, p :: a⟩, true) := by
    unfold fragStep probeMax
    simp only [hbad]
    have hn : ¬ ((0 : Int) < 0) := by omega
    have hne : ¬ ((0 : Int) = (p : Int)) := by omega
    simp only [hn, hne, if_false, hp', hr']
  rw [hs]
  dsimp only
  rw [if_pos rfl]

/-- If no answer is fatal and one of the sizes on the all-fail path 768, 384, …, 6, 3 passes, the search ends
with `max_fragsize ≥ 3`, i.e. succeeds. -/
theorem fragSearch_finds {probe : Nat → ProbeRes} (nf : ∀ n, probe n ≠ .fatal)
    (h : ∃ n ∈ [768, 384, 192, 96, 48, 24, 12, 6, 3], probe n = .ok) : 3 ≤ (fragSearch probe).max := by
  have key : ∀ (fuel p r : Nat) (a : List Nat), 0 < r → 3 ≤ p → probe p = .ok →
      (3 : Int) ≤ (fragLoop probe (fuel + 1) ⟨p, r, 0, a⟩).max := by
    intro fuel p r a hr hp hok
    have := fragLoop_ok_ge nf fuel p r a hr hok
    omega
  unfold fragSearch fragInit
  have hne : ∀ n, probe n = .ok ∨ probe n = .bad := fun n => by
    cases hn : probe n
    · exact Or.inl rfl
    · exact Or.inr rfl
    · exact absurd hn (nf n)
  rcases hne 768 with h1 | h1; · exact key _ _ _ _ (by decide) (by decide) h1
  rw [fragLoop_bad_step 9 768 768 [] 384 384 (by decide) (by decide) (by decide) (by decide) h1]
  rcases hne 384 with h2 | h2; · exact key _ _ _ _ (by decide) (by decide) h2
  rw [fragLoop_bad_step 8 384 384 _ 192 192 (by decide) (by decide) (by decide) (by decide) h2]
  rcases hne 192 with h3 | h3; · exact key _ _ _ _ (by decide) (by decide) h3
  rw [fragLoop_bad_step 7 192 192 _ 96 96 (by decide) (by decide) (by decide) (by decide) h3]
  rcases hne 96 with h4 | h4; · exact key _ _ _ _ (by decide) (by decide) h4
  rw [fragLoop_bad_step 6 96 96 _ 48 48 (by decide) (by decide) (by decide) (by decide) h4]
  rcases hne 48 with h5 | h5; · exact key _ _ _ _ (by decide) (by decide) h5
  rw [fragLoop_bad_step 5 48 48 _ 24 24 (by decide) (by decide) (by decide) (by decide) h5]
  rcases hne 24 with h6 | h6; · exact key _ _ _ _ (by decide) (by decide) h6
  rw [fragLoop_bad_step 4 24 24 _ 12 12 (by decide) (by decide) (by decide) (by decide) h6]
  rcases hne 12 with h7 | h7; · exact key _ _ _ _ (by decide) (by decide) h7
  rw [fragLoop_bad_step 3 12 12 _ 6 6 (by decide) (by decide) (by decide) (by decide) h7]
  rcases hne 6 with h8 | h8; · exact key _ _ _ _ (by decide) (by decide) h8
  rw [fragLoop_bad_step 2 6 6 _ 3 3 (by decide) (by decide) (by decide) (by decide) h8]
  rcases hne 3 with h9 | h9; · exact key _ _ _ _ (by decide) (by decide) h9
  exfalso
  obtain ⟨n, hn, hok⟩ := h
  simp only [List.mem_cons, List.mem_nil_iff, or_false] at hn
  rcases hn with rfl | rfl | rfl | rfl | rfl | rfl | rfl | rfl | rfl <;> simp_all

theorem autoprobe_pos_of_max {probe : Nat → ProbeRes} (h : 3 ≤ (fragSearch probe).max) :
    autoprobeFragsize probe ≠ 0 := by
  unfold autoprobeFragsize
  dsimp only
  split <;> omega

theorem fragStep_range {probe : Nat → ProbeRes} {st : FragSt} (h : (fragStep probe st).2 = true) :
    (fragStep probe st).1.range = st.range / 2 := by
  unfold fragStep at h ⊢
  dsimp only at h ⊢
  generalize probeMax probe st = m at h ⊢
  by_cases h1 : m < 0
  · simp [h1] at h
  · by_cases h2 : m = (st.proposed : Int)
    · rw [if_neg h1, if_pos h2]
    · rw [if_neg h1, if_neg h2]

/-- more fuel than `log2 range + 1` changes nothing: the loop has ended by then -/
theorem fragLoop_fuel (probe : Nat → ProbeRes) (fuel k : Nat) (st : FragSt) (h : st.range < 2 ^ fuel) :
    fragLoop probe (fuel + k) st = fragLoop probe fuel st := by
  induction fuel generalizing st with
  | zero =>
    have hr : st.range = 0 := by simpa using h
    have hc : fragCond st = false := by simp [fragCond, hr]
    cases k with
    | zero => rfl
    | succ k => simp [fragLoop, hc]
  | succ fuel ih =>
    rw [show fuel + 1 + k = (fuel + k) + 1 from by omega]
    unfold fragLoop
    split
    · dsimp only
      split
      · rename_i h2
        apply ih
        rw [fragStep_range h2]
        rw [Nat.pow_succ] at h; omega
      · rfl
    · rfl

/-! ### query type search -/

theorem qtypeAutodetect_finds (w : Nat → Bool) (k : Nat) (hk : k ≤ 6) (hw : w k = true)
    (hlt : ∀ j, j < k → w j = false) : qtypeAutodetect (fun _ => w) = some (qtypeNumcvt k) := by
  have h0 := hlt 0; have h1 := hlt 1; have h2 := hlt 2; have h3 := hlt 3; have h4 := hlt 4; have h5 := hlt 5
  have hk' : k = 0 ∨ k = 1 ∨ k = 2 ∨ k = 3 ∨ k = 4 ∨ k = 5 ∨ k = 6 := by omega
  rcases hk' with rfl | rfl | rfl | rfl | rfl | rfl | rfl <;>
    simp_all [qtypeAutodetect, qtypeOuter, qtypeInner, qtypeNumcvt, T_NULL, T_PRIVATE, T_TXT, T_SRV, T_MX,
      T_CNAME, T_A, T_UNSET]

theorem qtypeAutodetect_none (w : Nat → Nat → Bool) (h : ∀ t j, j ≤ 6 → w t j = false) :
    qtypeAutodetect w = none := by
  have := fun t => h t 0 (by omega)
  have := fun t => h t 1 (by omega)
  have := fun t => h t 2 (by omega)
  have := fun t => h t 3 (by omega)
  have := fun t => h t 4 (by omega)
  have := fun t => h t 5 (by omega)
  have := fun t => h t 6 (by omega)
  simp_all [qtypeAutodetect, qtypeOuter, qtypeInner, qtypeNumcvt, T_NULL, T_PRIVATE, T_TXT, T_SRV, T_MX,
      T_CNAME, T_A, T_UNSET]

/-! ### `dns_namedec` -/

/-- the part of a host-name answer in front of the two rotating letters -/
def nameCore (dn : Nat) (data : List Nat) : List Nat :=
  let s := dotify (nameLetter dn :: (enc (dnCodec dn) (249 - 249 / 57) data).chars)
  if s.getLast? = some DOT then s else s ++ [DOT]

theorem nameenc_eq (dn : Nat) (data : List Nat) (t1 t2 : Nat) :
    (nameenc dn data t1 t2).1 = nameCore dn data ++ [t1, t2] := rfl

theorem nameCore_cons (dn : Nat) (data : List Nat) : ∃ body, nameCore dn data = nameLetter dn :: body := by
  unfold nameCore
  dsimp only
  have : ∃ b, dotify (nameLetter dn :: (enc (dnCodec dn) (249 - 249 / 57) data).chars) = nameLetter dn :: b := by
    unfold dotify dotifyAux
    split
    · exact ⟨_, rfl⟩
    · exact ⟨_, rfl⟩
  obtain ⟨b, hb⟩ := this
  rw [hb]
  split
  · exact ⟨_, rfl⟩
  · exact ⟨_, rfl⟩

/-- letters that select a host-name decoder in `dns_namedec` -/
def hostLetters : List Nat := [104, 72, 105, 73, 106, 74, 107, 75]

/-- For a host-name answer the last two characters (in fact the last three) are not looked at. -/
theorem namedec_host_tail (cap l : Nat) (body : List Nat) (a b c d : Nat) (hl : l ∈ hostLetters) :
    namedec cap (l :: (body ++ [a, b])) = namedec cap (l :: (body ++ [c, d])) := by
  have ht : ∀ x y : Nat, (body ++ [x, y]).take (body.length - 1) = body.take (body.length - 1) := by
    intro x y
    rw [List.take_append_of_le_length (by omega)]
  have hlen : ∀ x y : Nat, (l :: (body ++ [x, y])).length = body.length + 3 := by intro x y; simp
  unfold namedec namedecG
  simp only [hlen]
  simp only [hostLetters, List.mem_cons, List.mem_nil_iff, or_false] at hl
  rcases hl with rfl | rfl | rfl | rfl | rfl | rfl | rfl | rfl <;> simp [ht]

/-- `dns_namedec` of a relayed host-name answer does not depend on the rotating letters. -/
theorem namedec_nameenc_tail {f : Nat → Nat} (cap dn : Nat) (data : List Nat) (t1 t2 u1 u2 : Nat)
    (hl : f (nameLetter dn) ∈ hostLetters) :
    namedec cap ((nameenc dn data t1 t2).1.map f) = namedec cap ((nameenc dn data u1 u2).1.map f) := by
  rw [nameenc_eq, nameenc_eq]
  obtain ⟨body, hb⟩ := nameCore_cons dn data
  rw [hb]
  simp only [List.map_append, List.map_cons, List.map_nil, List.cons_append]
  exact namedec_host_tail cap _ _ _ _ _ _ hl

theorem family_hostLetters : ∀ f ∈ familyFns, ∀ dn, f (nameLetter dn) ∈ hostLetters := by
  intro f hf dn
  have h : ∀ l ∈ [104, 105, 106, 107], f l ∈ hostLetters := by
    revert f; decide +kernel
  unfold nameLetter
  split; · exact h _ (by decide)
  split; · exact h _ (by decide)
  split; · exact h _ (by decide)
  exact h _ (by decide)

/-! ### Base32 answers through the family -/

theorem family_b32_transparent' : ∀ f ∈ familyFns, Transparent b32 f (DOT :: cb32) ∧ DotPreserving f (DOT :: cb32) ∧
    (f 116 = 116 ∨ f 116 = 84) ∧ (f 104 = 104 ∨ f 104 = 72) := by
  rw [← fast_b32]; decide +kernel

/-- A TXT answer in Base32 is decoded to the same bytes through every map of the family. -/
theorem b32_txt_survives {f : Nat → Nat} (hf : f ∈ familyFns) (cap : Nat) (data : List Nat) :
    namedec cap ((txtText 84 data).map f) = namedec cap (txtText 84 data) := by
  obtain ⟨htr, _, h116, _⟩ := family_b32_transparent' f hf
  have hchars : Transparent b32 f (enc b32 65535 data).chars :=
    htr.sub fun ch hch => List.mem_cons_of_mem _ (C07.chars_in_table C07.wf_b32 _ _ ch hch)
  have ht : txtText 84 data = 116 :: (enc b32 65535 data).chars := by
    unfold txtText; simp
  rw [ht, List.map_cons]
  unfold namedec namedecG
  simp only [List.length_cons, List.length_map]
  rcases h116 with h | h <;> rw [h] <;> simp [dec_transparent hchars]

/-- A host-name answer (CNAME / MX / SRV / A) in Base32 is decoded to the same bytes through every map of
the family. -/
theorem b32_name_survives {f : Nat → Nat} (hf : f ∈ familyFns) (cap : Nat) (data : List Nat) (t1 t2 : Nat) :
    namedec cap ((nameenc 84 data t1 t2).1.map f) = namedec cap (nameenc 84 data t1 t2).1 := by
  obtain ⟨htr, hdp, _, h104⟩ := family_b32_transparent' f hf
  rw [nameenc_eq]
  obtain ⟨body, hb⟩ := nameCore_cons 84 data
  have hl : nameLetter 84 = 104 := by decide
  rw [hl] at hb
  -- every character of the core is an alphabet character or a dot
  have hcore : ∀ ch ∈ nameCore 84 data, ch ∈ DOT :: cb32 ∨ ch = 104 := by
    intro ch hch
    unfold nameCore at hch
    dsimp only at hch
    have hd : ∀ ch ∈ dotify (nameLetter 84 :: (enc (dnCodec 84) (249 - 249 / 57) data).chars),
        ch ∈ DOT :: cb32 ∨ ch = 104 := by
      intro ch hch
      rcases mem_dotifyAux hch with h | h
      · rcases List.mem_cons.mp h with h | h
        · exact Or.inr (h.trans hl)
        · exact Or.inl (List.mem_cons_of_mem _ (C07.chars_in_table C07.wf_b32 _ _ ch h))
      · exact Or.inl (h ▸ List.mem_cons_self)
    split at hch
    · exact hd ch hch
    · rcases List.mem_append.mp hch with h | h
      · exact hd ch h
      · simp only [List.mem_cons, List.mem_nil_iff, or_false] at h
        exact Or.inl (h ▸ List.mem_cons_self)
  have h104c : 104 ∈ DOT :: cb32 := by decide
  have hbody : ∀ ch ∈ body, ch ∈ DOT :: cb32 := by
    intro ch hch
    rcases hcore ch (hb ▸ List.mem_cons_of_mem _ hch) with h | h
    · exact h
    · exact h ▸ h104c
  rw [hb]
  simp only [List.map_append, List.map_cons, List.map_nil, List.cons_append]
  unfold namedec namedecG
  simp only [List.length_cons, List.length_append, List.length_map, List.length_nil]
  have h2 : (body.map f ++ [f t1, f t2]).take (body.length - 1) = (body.take (body.length - 1)).map f := by
    rw [List.take_append_of_le_length (by simp), List.map_take]
  have h3 : (body ++ [t1, t2]).take (body.length - 1) = body.take (body.length - 1) := by
    rw [List.take_append_of_le_length (by omega)]
  have htb : Transparent b32 f (body.take (body.length - 1)) :=
    htr.sub fun ch hch => hbody ch (List.mem_of_mem_take hch)
  have hdb : DotPreserving f (body.take (body.length - 1)) :=
    fun ch hch => hdp ch (hbody ch (List.mem_of_mem_take hch))
  rcases h104 with h | h <;> rw [h] <;> simp [h2, h3] <;>
    rw [← List.map_take, unpackData_transparent htb hdb]

/-- Without a relay the client decodes a Base32 TXT answer to the payload (C07 round trip through `write_dns` and
`dns_namedec`). -/
theorem txt_b32_roundtrip (d : List Nat) (hd : Bytes d) (hlen : d.length ≤ 40000) :
    namedec NAMEDEC_CAP (txtText 84 d) = d := by
  have ht : txtText 84 d = 116 :: encFull b32 d := by
    unfold txtText enc
    have hn : nchars b32.k d.length ≤ 65535 := by
      show nchars 5 d.length ≤ 65535
      unfold nchars; omega
    simp [hn]
  rw [ht]
  unfold namedec namedecG
  simp only [List.length_cons]
  cases d with
  | nil => decide
  | cons a d' =>
    have hpos : 0 < (encFull b32 (a :: d')).length := by
      rw [encFull_length]
      show 0 < nchars 5 (d'.length + 1)
      unfold nchars; omega
    have hlt : ¬ ((encFull b32 (a :: d')).length + 1 < 2) := by omega
    have h := C07.roundtrip C07.wf_b32 (a :: d') hd NAMEDEC_CAP (by unfold NAMEDEC_CAP; omega)
    simp [hlt, h]

end Iodine.C11L
