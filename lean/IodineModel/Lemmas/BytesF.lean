import IodineModel.Server.Loop
import IodineModel.Props.C10
/-
Helper lemmas for the byte-level server, part F: the DATA invariant of the session machine, primitives.

`DataInv s`: every byte list the server keeps for later answers — `outpacket.data`, the out-queue entries, `inpacket.data`
(forwarded to other users still compressed), the answer cache — consists of bytes, and a cache entry is at most 4096 bytes long
with `answerlen ≤` its length.  `AnsOK evs`: every `write_dns` among the events carries a byte string of 1..4096 bytes.
This file: decimal strings, byte-list algebra, the slot primitives of user.c and the small helpers of iodined.c.
-/
namespace Iodine.BytesL
open Iodine Iodine.Server Iodine.Gen Iodine.C10

/-! ### byte lists -/

theorem isBytes_nil : IsBytes [] := fun _ h => by cases h
theorem isBytes_append {a b : List Nat} : IsBytes (a ++ b) ↔ IsBytes a ∧ IsBytes b := by
  unfold IsBytes
  simp only [List.mem_append]
  exact ⟨fun h => ⟨fun x hx => h x (Or.inl hx), fun x hx => h x (Or.inr hx)⟩,
    fun h x hx => hx.elim (h.1 x) (h.2 x)⟩
theorem isBytes_cons {a : Nat} {b : List Nat} : IsBytes (a :: b) ↔ a < 256 ∧ IsBytes b := by
  unfold IsBytes; simp
theorem isBytes_take {a : List Nat} (n : Nat) (h : IsBytes a) : IsBytes (a.take n) :=
  fun x hx => h x (List.mem_of_mem_take hx)
theorem isBytes_drop {a : List Nat} (n : Nat) (h : IsBytes a) : IsBytes (a.drop n) :=
  fun x hx => h x (List.mem_of_mem_drop hx)

theorem beBytes_bytes : ∀ n v, IsBytes (beBytes n v)
  | 0, _ => isBytes_nil
  | n + 1, v => by
    unfold beBytes
    exact isBytes_cons.2 ⟨Nat.mod_lt _ (by omega), beBytes_bytes n v⟩

theorem beBytes_length : ∀ n v, (beBytes n v).length = n
  | 0, _ => rfl
  | n + 1, v => by unfold beBytes; simp [beBytes_length n v]

/-! ### decimal strings -/

theorem natStr_ok (n k : Nat) (hk : 0 < k) (h : n < 10 ^ k) :
    IsBytes (n.repr.toList.map Char.toNat) ∧ (n.repr.toList.map Char.toNat).length ≤ k := by
  constructor
  · intro b hb
    simp only [List.mem_map] at hb
    obtain ⟨c, hc, rfl⟩ := hb
    rw [Nat.toList_repr] at hc
    have := Nat.isDigit_of_mem_toDigits (by decide) (by decide) hc
    simp only [Char.isDigit, Bool.and_eq_true, decide_eq_true_eq] at this
    have h2 : c.val ≤ 57 := this.2
    show c.val.toNat < 256
    have : c.val.toNat ≤ 57 := by simpa using UInt32.le_iff_toNat_le.mp h2
    omega
  · rw [List.length_map, String.length_toList]
    exact (Nat.length_repr_le_iff hk).2 h

theorem ipStr_ok (a : Nat) : IsBytes (ipStr a) ∧ (ipStr a).length ≤ 15 := by
  have h1 := natStr_ok (a / 2 ^ 24 % 256) 3 (by decide) (by omega)
  have h2 := natStr_ok (a / 2 ^ 16 % 256) 3 (by decide) (by omega)
  have h3 := natStr_ok (a / 2 ^ 8 % 256) 3 (by decide) (by omega)
  have h4 := natStr_ok (a % 256) 3 (by decide) (by omega)
  have hdot : List.map Char.toNat ".".toList = [46] := by decide
  unfold ipStr ascii
  simp only [String.toList_append, List.map_append, toString, hdot, isBytes_append, List.length_append,
    List.length_cons, List.length_nil]
  refine ⟨⟨⟨⟨⟨⟨⟨h1.1, ?_⟩, h2.1⟩, ?_⟩, h3.1⟩, ?_⟩, h4.1⟩, by omega⟩ <;> (intro x hx; simp at hx; omega)

/-! ### the invariant -/

structure SessOK (x : Session) : Prop where
  out : IsBytes x.outpacket.data
  inp : IsBytes x.inpacket.data
  oq : ∀ p ∈ x.outpacketq, IsBytes p.data
  dc : ∀ e ∈ x.dnscache, IsBytes e.answer ∧ e.answerlen ≤ e.answer.length ∧ e.answer.length ≤ 4096 ∧
    (e.answerlen = 0 ∨ 2 ≤ e.answerlen)

def DataInv (s : Srv) : Prop := ∀ x ∈ s.users, SessOK x

def AnsOK (evs : List Event) : Prop :=
  ∀ dst id ty dn name data tag, Event.ans dst id ty dn name data tag ∈ evs →
    IsBytes data ∧ (2 ≤ data.length ∨ data = [120]) ∧ data.length ≤ 4096

/-- what a handler has to establish -/
def Good (r : Res) : Prop := DataInv r.1 ∧ AnsOK r.2

theorem sessOK_zero (t : Nat) : SessOK (Session.zero t) := by
  refine ⟨isBytes_nil, isBytes_nil, ?_, ?_⟩
  · intro p hp
    simp only [Session.zero, List.mem_replicate] at hp
    rw [hp.2]; exact isBytes_nil
  · intro e he
    simp only [Session.zero, List.mem_replicate] at he
    rw [he.2]; exact ⟨isBytes_nil, Nat.le_refl _, by decide, Or.inl rfl⟩

theorem sessOK_getUser {s : Srv} (h : DataInv s) (u : Nat) : SessOK (getUser s u) := by
  unfold getUser
  rw [List.getD_eq_getElem?_getD]
  cases hu : s.users[u]? with
  | none => exact sessOK_zero 0
  | some x => exact h x (List.mem_of_getElem? hu)

theorem mem_modify {α} {f : α → α} {l : List α} {u : Nat} {y : α} (h : y ∈ l.modify u f) : y ∈ l ∨ ∃ x ∈ l, y = f x := by
  induction l generalizing u with
  | nil => simp at h
  | cons a l ih =>
    cases u with
    | zero =>
      simp only [List.modify_zero_cons, List.mem_cons] at h
      rcases h with rfl | h
      · exact Or.inr ⟨a, List.mem_cons_self, rfl⟩
      · exact Or.inl (List.mem_cons_of_mem _ h)
    | succ u =>
      simp only [List.modify_succ_cons, List.mem_cons] at h
      rcases h with rfl | h
      · exact Or.inl List.mem_cons_self
      · rcases ih h with h | ⟨x, hx, rfl⟩
        · exact Or.inl (List.mem_cons_of_mem _ h)
        · exact Or.inr ⟨x, List.mem_cons_of_mem _ hx, rfl⟩

theorem dataInv_setUser {s : Srv} (h : DataInv s) (u : Nat) (f : Session → Session)
    (hf : ∀ x, SessOK x → SessOK (f x)) : DataInv (setUser s u f) := by
  intro y hy
  unfold setUser at hy
  rcases mem_modify hy with hy | ⟨x, hx, rfl⟩
  · exact h y hy
  · exact hf x (h x hx)

theorem mem_modify' {α} {f : α → α} (d : α) {l : List α} {u : Nat} {y : α} (h : y ∈ l.modify u f) :
    y ∈ l ∨ y = f (l.getD u d) := by
  induction l generalizing u with
  | nil => simp at h
  | cons a l ih =>
    cases u with
    | zero =>
      simp only [List.modify_zero_cons, List.mem_cons] at h
      rcases h with rfl | h
      · exact Or.inr rfl
      · exact Or.inl (List.mem_cons_of_mem _ h)
    | succ u =>
      simp only [List.modify_succ_cons, List.mem_cons] at h
      rcases h with rfl | h
      · exact Or.inl List.mem_cons_self
      · rcases ih h with h | h
        · exact Or.inl (List.mem_cons_of_mem _ h)
        · exact Or.inr (by simpa using h)

/-- a write that needs to know the slot it writes to is the current `users[u]` -/
theorem dataInv_setUser' {s : Srv} (h : DataInv s) (u : Nat) (f : Session → Session)
    (hf : SessOK (f (getUser s u))) : DataInv (setUser s u f) := by
  intro y hy
  unfold setUser at hy
  rcases mem_modify' (Session.zero 0) hy with hy | rfl
  · exact h y hy
  · exact hf

theorem dataInv_users {s s' : Srv} (h : DataInv s) (hu : s'.users = s.users) : DataInv s' := by
  unfold DataInv; rw [hu]; exact h

theorem ansOK_nil : AnsOK [] := fun _ _ _ _ _ _ _ h => by cases h
theorem ansOK_append {a b : List Event} (ha : AnsOK a) (hb : AnsOK b) : AnsOK (a ++ b) := by
  intro dst id ty dn name data tag h
  rcases List.mem_append.1 h with h | h
  · exact ha _ _ _ _ _ _ _ h
  · exact hb _ _ _ _ _ _ _ h
theorem ansOK_writeDns (q : Query) (d : List Nat) (dn : Nat) (tag : Tag) (hb : IsBytes d) (h1 : 2 ≤ d.length ∨ d = [120])
    (h2 : d.length ≤ 4096) : AnsOK [writeDns q d dn tag] := by
  intro dst id ty dn' name data tag' h
  simp only [writeDns, List.mem_singleton, Event.ans.injEq] at h
  obtain ⟨_, _, _, _, _, rfl, _⟩ := h
  exact ⟨hb, h1, h2⟩
theorem ansOK_noans {evs : List Event} (h : ∀ e ∈ evs, ∀ dst id ty dn name data tag, e ≠ Event.ans dst id ty dn name data tag) :
    AnsOK evs := fun dst id ty dn name data tag he => absurd rfl (h _ he dst id ty dn name data tag)
theorem ansOK_sendRaw (b : List Nat) (l u c : Nat) (q : Query) : AnsOK [sendRaw b l u c q] := by
  apply ansOK_noans; intro e he; simp only [List.mem_singleton] at he; subst he; intros; simp [sendRaw]

/-- a constant answer -/
theorem ansOK_const (q : Query) (str : String) (dn : Nat) (tag : Tag)
    (h : IsBytes (ascii str) ∧ (2 ≤ (ascii str).length ∨ ascii str = [120]) ∧ (ascii str).length ≤ 4096 := by decide) :
    AnsOK [writeDns q (ascii str) dn tag] := ansOK_writeDns q _ dn tag h.1 h.2.1 h.2.2

/-! ### user.c and the small helpers -/

theorem inv_findAvailableUser {s : Srv} (h : DataInv s) : DataInv (findAvailableUser s).2 := by
  unfold findAvailableUser
  split
  · exact dataInv_setUser h _ _ fun x hx => ⟨hx.out, hx.inp, hx.oq, hx.dc⟩
  · exact h

theorem inv_userSwitchCodec {s : Srv} (h : DataInv s) (u : Nat) (e : Enc) : DataInv (userSwitchCodec s u e) := by
  unfold userSwitchCodec
  split
  · exact h
  · exact dataInv_setUser h _ _ fun x hx => ⟨hx.out, hx.inp, hx.oq, hx.dc⟩

theorem inv_userSetConnType {s : Srv} (h : DataInv s) (u : Nat) (c : Conn) : DataInv (userSetConnType s u c) := by
  unfold userSetConnType
  split
  · exact h
  · exact dataInv_setUser h _ _ fun x hx => ⟨hx.out, hx.inp, hx.oq, hx.dc⟩

theorem inv_popRand {s : Srv} (h : DataInv s) : DataInv (popRand s).2 := by
  unfold popRand
  split
  · exact h
  · exact dataInv_users h rfl

theorem inv_startNewOutpacket {s : Srv} (h : DataInv s) (u : Nat) (d : List Nat) (n : Nat) (hd : IsBytes d) :
    DataInv (startNewOutpacket s u d n) := by
  unfold startNewOutpacket
  exact dataInv_setUser h _ _ fun x hx => ⟨isBytes_take _ hd, hx.inp, hx.oq, hx.dc⟩

theorem inv_saveToOutpacketq {s : Srv} (h : DataInv s) (u : Nat) (d : List Nat) (n : Nat) (hd : IsBytes d) :
    DataInv (saveToOutpacketq s u d n).1 := by
  unfold saveToOutpacketq
  extract_lets x
  split
  · exact h
  · refine dataInv_setUser h _ _ fun y hy => ⟨hy.out, hy.inp, ?_, hy.dc⟩
    intro p hp
    rcases mem_modify hp with hp | ⟨p0, _, rfl⟩
    · exact hy.oq p hp
    · exact isBytes_take _ hd

theorem inv_getFromOutpacketq {s : Srv} (h : DataInv s) (u : Nat) : DataInv (getFromOutpacketq s u).1 := by
  unfold getFromOutpacketq
  extract_lets x use p s1 use'
  split
  · exact h
  · have hx := sessOK_getUser h u
    have hp : IsBytes p.data := by
      simp only [p]
      rw [List.getD_eq_getElem?_getD]
      cases hq : x.outpacketq[use]? with
      | none => exact isBytes_nil
      | some p0 => exact hx.oq p0 (List.mem_of_getElem? hq)
    exact dataInv_setUser (inv_startNewOutpacket h u _ _ hp) _ _ fun y hy => ⟨hy.out, hy.inp, hy.oq, hy.dc⟩

theorem inv_saveToDnscache {s : Srv} (h : DataInv s) (u : Nat) (q : Query) (a : List Nat) (ha : IsBytes a)
    (ha2 : 2 ≤ a.length) :
    DataInv (saveToDnscache s u q a) := by
  unfold saveToDnscache
  split
  · exact h
  · rename_i hlen
    refine dataInv_setUser h _ _ fun y hy => ⟨hy.out, hy.inp, hy.oq, ?_⟩
    intro e he
    rcases List.mem_or_eq_of_mem_set he with he | rfl
    · exact hy.dc e he
    · exact ⟨ha, Nat.le_refl _, by simp only [DNSCACHE_ANSWER_SIZE] at hlen; show a.length ≤ 4096; omega, Or.inr ha2⟩

theorem inv_saveToQmemPingOrData {s : Srv} (h : DataInv s) (u : Nat) (q : Query) : DataInv (saveToQmemPingOrData s u q) := by
  unfold saveToQmemPingOrData
  extract_lets c0
  split
  · split
    · exact h
    · extract_lets cmc
      split
      · exact h
      · exact dataInv_setUser h _ _ fun x hx => ⟨hx.out, hx.inp, hx.oq, hx.dc⟩
  · split
    · exact h
    · exact dataInv_setUser h _ _ fun x hx => ⟨hx.out, hx.inp, hx.oq, hx.dc⟩

theorem sessOK_dropOut {x : Session} (hx : SessOK x) : SessOK (dropOut x) := ⟨hx.out, hx.inp, hx.oq, hx.dc⟩

theorem inv_scDropResent {s : Srv} (h : DataInv s) (u : Nat) : DataInv (scDropResent s u) := by
  unfold scDropResent
  extract_lets x
  split
  · apply inv_getFromOutpacketq
    apply dataInv_setUser h
    intro x hx
    exact sessOK_dropOut hx
  · exact h

theorem inv_scPrepare {s : Srv} (h : DataInv s) (u : Nat) : DataInv (scPrepare s u) := by
  unfold scPrepare
  split
  · exact dataInv_setUser h _ _ fun x hx => ⟨hx.out, hx.inp, hx.oq, hx.dc⟩
  · exact h

theorem inv_processDownstreamAck {s : Srv} (h : DataInv s) (u : Nat) (a b : Int) : DataInv (processDownstreamAck s u a b) := by
  unfold processDownstreamAck
  extract_lets x off s1
  split
  · exact h
  · split
    · exact h
    · split
      · exact h
      · have h1 : DataInv s1 := dataInv_setUser h _ _ fun x hx => ⟨hx.out, hx.inp, hx.oq, hx.dc⟩
        split
        · apply inv_getFromOutpacketq
          apply dataInv_setUser h1
          intro x hx
          exact ⟨hx.out, hx.inp, hx.oq, hx.dc⟩
        · exact h1

theorem inv_saveQuery {s : Srv} (h : DataInv s) (u : Nat) (q : Query) : DataInv (saveQuery s u q) := by
  unfold saveQuery
  exact dataInv_setUser h _ _ fun x hx => ⟨hx.out, hx.inp, hx.oq, hx.dc⟩

theorem inv_rememberDuplicate {s s' : Srv} (h : DataInv s) (u : Nat) (q : Query) (hd : rememberDuplicate s u q = some s') :
    DataInv s' := by
  unfold rememberDuplicate at hd
  extract_lets x at hd
  split at hd
  · cases hd; exact dataInv_setUser h _ _ fun x hx => ⟨hx.out, hx.inp, hx.oq, hx.dc⟩
  · split at hd
    · cases hd; exact dataInv_setUser h _ _ fun x hx => ⟨hx.out, hx.inp, hx.oq, hx.dc⟩
    · cases hd

theorem dc_clear {c : List DnsCacheEntry}
    (h : ∀ e ∈ c, IsBytes e.answer ∧ e.answerlen ≤ e.answer.length ∧ e.answer.length ≤ 4096 ∧
      (e.answerlen = 0 ∨ 2 ≤ e.answerlen)) :
    ∀ e ∈ clearDnscache c, IsBytes e.answer ∧ e.answerlen ≤ e.answer.length ∧ e.answer.length ≤ 4096 ∧
      (e.answerlen = 0 ∨ 2 ≤ e.answerlen) := by
  intro e he
  simp only [clearDnscache, List.mem_map] at he
  obtain ⟨e0, he0, rfl⟩ := he
  exact ⟨(h e0 he0).1, Nat.zero_le _, (h e0 he0).2.2.1, Or.inl rfl⟩

theorem sessOK_resetSession {x : Session} (hx : SessOK x) : SessOK (resetSession x) :=
  ⟨hx.out, hx.inp, hx.oq, dc_clear hx.dc⟩

/-! ### decoded upstream data consists of bytes -/

theorem chunksN_elem_le {α} (k : Nat) : ∀ (m : Nat) (l : List α), ∀ c ∈ chunksN k m l, c.length ≤ k
  | 0, _, c, h => by simp [chunksN] at h
  | m + 1, l, c, h => by
    simp only [chunksN, List.mem_cons] at h
    rcases h with rfl | h
    · simp [List.length_take]; omega
    · exact chunksN_elem_le k m _ c h

theorem decAll_bytes (c : Codec.Codec) (s : List Nat) : IsBytes (Codec.decAll c s) := by
  intro b hb
  simp only [Codec.decAll, List.mem_map] at hb
  obtain ⟨ch, hch, rfl⟩ := hb
  have hl := chunksN_elem_le 8 _ _ ch hch
  have := ofBitsBE_lt ch
  have : 2 ^ ch.length ≤ 2 ^ 8 := Nat.pow_le_pow_right (by decide) hl
  omega

theorem unpackData_bytes (c : Codec.Codec) (cap : Nat) (d : List Nat) : IsBytes (Encoding.unpackData c cap d) := by
  unfold Encoding.unpackData Codec.dec
  exact isBytes_take _ (decAll_bytes c _)

theorem sessOK_dataUpstream {x : Session} (hx : SessOK x) (a b : Nat) : SessOK (dataUpstream x a b).1 := by
  unfold dataUpstream
  split
  · exact hx
  · split
    · exact hx
    · split <;> exact ⟨hx.out, hx.inp, hx.oq, hx.dc⟩

theorem sessOK_dataStore {x : Session} (hx : SessOK x) (p : List Nat) : SessOK (dataStore x p) := by
  unfold dataStore
  refine ⟨hx.out, ?_, hx.oq, hx.dc⟩
  exact isBytes_append.2 ⟨isBytes_take _ hx.inp, isBytes_take _ (unpackData_bytes _ _ _)⟩

end Iodine.BytesL
