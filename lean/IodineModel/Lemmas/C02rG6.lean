import IodineModel.Lemmas.C02rG5
import IodineModel.Lemmas.C02qB4
import IodineModel.Lemmas.C02qD9
/-
C02, phase 3, sub-package "gdown" — part 6: NON-VACUITY of `giveup_run_down_imm`, `giveup_runs_down_imm`,
`blackout_then_clean_downstream_imm(_nopoll)` on the demo session `exW` (fragment size 30, `selecttimeout = 1`), and the
theorems applied.
-/
namespace Iodine.C02L
open Iodine Iodine.Gen Iodine.Server Iodine.World Iodine.C02

theorem exW_fragsizeG : (getUser exW.srv exP.u).fragsize = 30 := by decide +kernel

/-- the frames of the examples are acceptable to the server's `tunnel_tun` -/
theorem rG_frame_ok (n : Nat) (hn : n ≤ 40) :
    24 ≤ (demoFrame 2 n).length ∧ (demoFrame 2 n).length < 65536 ∧ ipDst (demoFrame 2 n) = (getUser exW.srv exP.u).tunIp := by
  have hl : (demoFrame 2 n).length = n + 24 := by simp [demoFrame]
  refine ⟨by omega, by omega, ?_⟩
  have : ipDst (demoFrame 2 n) = 0x0a000002 := by
    unfold ipDst demoFrame
    simp
    decide
  rw [this]
  decide +kernel

/-- ONE fragment (28 bytes): 3 steps, 1 s; the pair is quiescent, desynchronised by 1 downstream, slack still 1 -/
example : DownGaveUp exP 1 exW (runSched blackoutEvDown 3 (step exW (.offerS (demoFrame 2 4)))) 1 ∧
    QuietImmD exP 0 1 (runSched blackoutEvDown 3 (step exW (.offerS (demoFrame 2 4)))) := by
  obtain ⟨h1, h2, h3⟩ := rG_frame_ok 4 (by omega)
  have := giveup_run_down_imm exP_ok exW_quietDS (demoFrame 2 4) (by rw [exW_fragsizeG]; omega) h1 h2 h3 (by decide) (by decide)
    (Nat.le_refl 1) (by omega) (Or.inr (Or.inl (by decide))) (by decide +kernel) (by decide +kernel)
  have hg : downFrags (getUser exW.srv exP.u).fragsize ((demoFrame 2 4).length + 1) ((demoFrame 2 4).length + 1) = 1 := by
    rw [exW_fragsizeG]; decide
  have hT : exW.cs.c.selecttimeout.toNat = 1 := by decide
  rw [hg, hT] at this
  exact ⟨this.1, quietImmDS_one.1 this.2⟩

/-- TWO fragments (54 bytes): 21 steps, 7 s -/
example : DownGaveUp exP 1 exW (runSched blackoutEvDown 21 (step exW (.offerS (demoFrame 2 30)))) 7 ∧
    QuietImmD exP 0 1 (runSched blackoutEvDown 21 (step exW (.offerS (demoFrame 2 30)))) := by
  obtain ⟨h1, h2, h3⟩ := rG_frame_ok 30 (by omega)
  have := giveup_run_down_imm exP_ok exW_quietDS (demoFrame 2 30) (by rw [exW_fragsizeG]; omega) h1 h2 h3 (by decide) (by decide)
    (Nat.le_refl 1) (by omega) (Or.inr (Or.inl (by decide))) (by decide +kernel) (by decide +kernel)
  have hg : downFrags (getUser exW.srv exP.u).fragsize ((demoFrame 2 30).length + 1) ((demoFrame 2 30).length + 1) = 2 := by
    rw [exW_fragsizeG]; decide
  have hT : exW.cs.c.selecttimeout.toNat = 1 := by decide
  rw [hg, hT] at this
  exact ⟨this.1, quietImmDS_one.1 this.2⟩

/-- the frames of the iterated examples -/
def rGbl : List (List Nat) := [demoFrame 2 4, demoFrame 2 30, demoFrame 2 5]

theorem rGbl_ok : ∀ f ∈ rGbl, 24 ≤ f.length ∧ f.length < 65536 ∧ ipDst f = (getUser exW.srv exP.u).tunIp := by
  intro f hf
  simp only [rGbl, List.mem_cons, List.not_mem_nil, or_false] at hf
  rcases hf with rfl | rfl | rfl
  · exact rG_frame_ok 4 (by omega)
  · exact rG_frame_ok 30 (by omega)
  · exact rG_frame_ok 5 (by omega)

/-- THREE frames in a row (1 + 7 + 1 = 9 polls, 9 s): desynchronised by 3, slack 1, `lastdownstreamtime` untouched -/
example : QuietImmD exP 0 3 (giveupRunDown 30 rGbl exW) ∧ (giveupRunDown 30 rGbl exW).cs.c.now = exW.cs.c.now + 9 ∧
    (giveupRunDown 30 rGbl exW).cs.c.lastdownstreamtime = exW.cs.c.lastdownstreamtime ∧
    (giveupRunDown 30 rGbl exW).tunC = [] ∧ (giveupRunDown 30 rGbl exW).cs.c.inpkt = exW.cs.c.inpkt := by
  have := giveup_runs_down_imm exP_ok 30 (by omega) rGbl exW_quietDS exW_fragsizeG rGbl_ok (by decide) (by decide) (Nat.le_refl 1)
    (by omega) (Or.inr (Or.inl (by decide))) (by decide +kernel) (by decide +kernel)
  have hN : rGpollsAll 30 rGbl = 9 := by decide
  have hT : exW.cs.c.selecttimeout.toNat = 1 := by decide
  rw [hN, hT] at this
  exact ⟨quietImmDS_one.1 this.2, this.1.fr.cnow, this.1.fr.ldt, this.1.fr.tunC, this.1.fr.inpkt⟩

theorem rG_down_ok (n : Nat) (hn : n ≤ 40) : DownFrameOk (getUser exW.srv exP.u).tunIp 30 (demoFrame 2 n) := by
  obtain ⟨h1, h2, h3⟩ := rG_frame_ok n hn
  refine ⟨h1, h2, h3, ?_⟩
  have hl : (demoFrame 2 n).length = n + 24 := by simp [demoFrame]
  rw [hl]
  have : ∀ m, m ≤ 40 → downFrags 30 (m + 24 + 1) (m + 24 + 1) ≤ 16 := by decide
  exact this n hn

/-- COMPOSITION, `k = 3`: three frames under the downstream blackout, one idle poll (which resynchronises), then two frames
on the clean path: both arrive -/
example : (offerAllS 0 40 (run (giveupRunDown 30 rGbl exW) [.tickC, .deliverUp, .deliverDown]) [demoFrame 2 31, demoFrame 2 6]).tunC =
    [demoFrame 2 31, demoFrame 2 6] := by
  have hok : ∀ f ∈ [] ++ [demoFrame 2 31, demoFrame 2 6], DownFrameOk (getUser exW.srv exP.u).tunIp 30 f := by
    intro f hf
    simp only [List.nil_append, List.mem_cons, List.not_mem_nil, or_false] at hf
    rcases hf with rfl | rfl
    · exact rG_down_ok 31 (by omega)
    · exact rG_down_ok 6 (by omega)
  have := (blackout_then_clean_downstream_imm exP_ok 40 (by omega) 30 (by omega) rGbl [] [demoFrame 2 31, demoFrame 2 6] exW
    ex_quiescent exW_fragsizeG rGbl_ok hok (by decide) (by decide) (by decide) (by decide) (by decide) (by decide +kernel)
    (by decide +kernel)).2.1
  simp only [List.nil_append] at this
  exact this.trans (by decide +kernel)

/-- five one-fragment frames -/
def rGbl5 : List (List Nat) := [demoFrame 2 4, demoFrame 2 5, demoFrame 2 6, demoFrame 2 7, demoFrame 2 8]

theorem rGbl5_ok : ∀ f ∈ rGbl5, 24 ≤ f.length ∧ f.length < 65536 ∧ ipDst f = (getUser exW.srv exP.u).tunIp := by
  intro f hf
  simp only [rGbl5, List.mem_cons, List.not_mem_nil, or_false] at hf
  rcases hf with rfl | rfl | rfl | rfl | rfl
  · exact rG_frame_ok 4 (by omega)
  · exact rG_frame_ok 5 (by omega)
  · exact rG_frame_ok 6 (by omega)
  · exact rG_frame_ok 7 (by omega)
  · exact rG_frame_ok 8 (by omega)

/-- the demo session with the client's last fragment number 1 (its last downstream packet had two fragments) -/
def exWf : W := withFrag exW 1

theorem exWf_quiet : QuietImm exP exWf :=
  quietImmD_zero.1 (quietImmD_withFrag (quietImmD_zero.2 ex_quiescent) 1 (by decide))

/-- COMPOSITION, `k = 5`, `inpkt.fragment = 1`: five frames under the blackout, the idle poll changes nothing (the server's
number is in the client's window), then five frames on the clean path: the first THREE are lost, the last two arrive -/
example : (offerAllS 0 40 (run (giveupRunDown 30 rGbl5 exWf) [.tickC, .deliverUp, .deliverDown])
      [demoFrame 2 30, demoFrame 2 9, demoFrame 2 31, demoFrame 2 10, demoFrame 2 32]).tunC =
    [demoFrame 2 10, demoFrame 2 32] := by
  have hok : ∀ f ∈ [demoFrame 2 30, demoFrame 2 9, demoFrame 2 31] ++ [demoFrame 2 10, demoFrame 2 32],
      DownFrameOk (getUser exW.srv exP.u).tunIp 30 f := by
    intro f hf
    simp only [List.cons_append, List.nil_append, List.mem_cons, List.not_mem_nil, or_false] at hf
    rcases hf with rfl | rfl | rfl | rfl | rfl
    · exact rG_down_ok 30 (by omega)
    · exact rG_down_ok 9 (by omega)
    · exact rG_down_ok 31 (by omega)
    · exact rG_down_ok 10 (by omega)
    · exact rG_down_ok 32 (by omega)
  have := (blackout_then_clean_downstream_imm exP_ok 40 (by omega) 30 (by omega) rGbl5
    [demoFrame 2 30, demoFrame 2 9, demoFrame 2 31] [demoFrame 2 10, demoFrame 2 32] exWf
    exWf_quiet exW_fragsizeG rGbl5_ok hok (by decide) (by decide) (by decide) (by decide) (fun _ => by decide) (by decide +kernel)
    (by decide +kernel)).2.1
  simp only [List.cons_append, List.nil_append] at this
  exact this.trans (by decide +kernel)

/-- … and without the idle poll, `k = 3`: harmless -/
example : (offerAllS 0 40 (giveupRunDown 30 rGbl exW) [demoFrame 2 31, demoFrame 2 6]).tunC = [demoFrame 2 31, demoFrame 2 6] := by
  have hok : ∀ f ∈ [] ++ [demoFrame 2 31, demoFrame 2 6], DownFrameOk (getUser exW.srv exP.u).tunIp 30 f := by
    intro f hf
    simp only [List.nil_append, List.mem_cons, List.not_mem_nil, or_false] at hf
    rcases hf with rfl | rfl
    · exact rG_down_ok 31 (by omega)
    · exact rG_down_ok 6 (by omega)
  have := (blackout_then_clean_downstream_imm_nopoll exP_ok 40 (by omega) 30 (by omega) rGbl [] [demoFrame 2 31, demoFrame 2 6] exW
    ex_quiescent exW_fragsizeG rGbl_ok hok (by decide) (by decide) (by decide) (by decide) (by decide) (by decide) (by decide +kernel)
    (by decide +kernel)).2.1
  simp only [List.nil_append] at this
  exact this.trans (by decide +kernel)

end Iodine.C02L
