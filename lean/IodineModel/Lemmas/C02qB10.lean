import IodineModel.Lemmas.C02qB4
/-
C02, phase 2, sub-package "blackout" — part 10: the DOWNSTREAM give-up run in immediate mode, TESTS (kernel-evaluated runs
on `exW`; the general theorem `giveup_run_down_imm` is not proved).

A frame offered to the server while every downstream datagram is lost (`blackoutEvDown`).  The client polls every
`selecttimeout` seconds (`tickC`: a ping), the ping arrives (`deliverUp`: `lastPkt` refreshed), the answer — the fragment —
is lost (`dropDown`).
* A packet that fits ONE fragment is sent exactly once: `send_chunk_or_dataless` forgets it at once ("whole packet was sent
  in one chunk, don't wait for ack").  3 steps, `selecttimeout` seconds.
* A longer packet: the first fragment is sent on each of 6 polls (`outfragresent` 1 … 6), the 7th poll finds
  `outfragresent > 5`, drops the packet (`scDropResent`) and is answered without data.  21 steps, `7·selecttimeout` seconds.
Either way: nothing reaches the client's tun device, the client's `inpkt` has not moved, the server's `outpacket.seqno` is
ONE ahead of the client's `inpkt.seqno`, and the pair is quiescent (`World.quiet`).
-/
namespace Iodine.C02L
open Iodine Iodine.Gen Iodine.World Iodine.C02

/-- what the tests check of the state `w` reached from `w0` after `secs` seconds -/
def downGaveUp (w0 w : W) (secs : Nat) : Bool :=
  quiet 0 w0 && quiet 0 w && w.tunC == w0.tunC && w.tunS == w0.tunS &&
  w.cs.c.inpkt == w0.cs.c.inpkt && w.cs.c.outpkt.seqno == w0.cs.c.outpkt.seqno &&
  (Server.getUser w.srv 0).outpacket.seqno == ((Server.getUser w0.srv 0).outpacket.seqno + 1) % 8 &&
  (Server.getUser w.srv 0).outpacket.len == 0 && (Server.getUser w.srv 0).outfragresent == 0 &&
  (Server.getUser w.srv 0).inpacket == (Server.getUser w0.srv 0).inpacket &&
  w.cs.c.now == w0.cs.c.now + secs && w.srv.now == w0.srv.now + secs &&
  (Server.getUser w.srv 0).lastPkt == w0.srv.now + secs &&            -- refreshed by the last poll
  w.cs.c.lastdownstreamtime == w0.cs.c.lastdownstreamtime            -- NOT refreshed

/-- TEST one fragment (28 bytes): 3 steps, 1 s (`selecttimeout = 1`) -/
theorem test_giveup_down_1 : downGaveUp exW (runSched blackoutEvDown 3 (step exW (.offerS (demoFrame 2 4)))) 1 = true := by
  decide +kernel

/-- … and not quiescent before -/
theorem test_giveup_down_1_exact :
    quiet 0 (runSched blackoutEvDown 2 (step exW (.offerS (demoFrame 2 4)))) = false := by decide +kernel

/-- TEST two fragments (54 bytes, fragment size 30): 21 steps, 7 s; the server's resend counter after the 6th poll is 6 -/
theorem test_giveup_down_2 : downGaveUp exW (runSched blackoutEvDown 21 (step exW (.offerS (demoFrame 2 30)))) 7 = true := by
  decide +kernel

end Iodine.C02L
